/-
M9 `Adapters` — executable model of the compressing I/O adapters of rust-brotli:

* `src/enc/writer.rs`  `write_all`, `CompressorWriterCustomIo::{write, flush, flush_or_close,
  into_inner, drop}` and the std layer `CompressorWriterCustomAlloc` (`IntoIoWriter`),
* `src/enc/reader.rs`  `CompressorReaderCustomIo::{read, copy_to_front}` and the std layer
  (`IntoIoReader`),
* `src/enc/mod.rs`     `BrotliCompressCustomIoCustomDict` (the copy loop) under
  `BrotliCompressCustomAlloc` (`IoReaderWrapper` / `IoWriterWrapper`),
* brotli-decompressor 4.0.3 `io_wrappers.rs`: the `Interrupted`-retry loops of
  `IntoIoReader`, `IntoIoWriter`, `IoReaderWrapper`, `IoWriterWrapper`.

Each adapter is a program over two oracles:

* the streaming encoder `Enc σ` (NOT modelled here — M8 is another worker's): a deterministic
  machine `step : σ → Op → (offered input) → (output capacity) → σ × EncAns` with the two
  observers `has_more_output`, `is_finished`.  The driver instantiates it with a *replay* of the
  answers recorded on the real run; theorems quantify over every `Enc σ` that satisfies the
  hypothesis structures of `BV/Lemmas/Adapters*.lean`;
* the wrapped stream: a *script* of per-call behaviours of the raw `Read`/`Write` object
  (`full`, `atMost k` = short, `intr` = `ErrorKind::Interrupted`, `err c` = hard error, `zero` =
  `Ok(0)`) followed by a `tail` behaviour that lasts forever (never `intr`: "Interrupted is
  returned finitely often").

Loops whose termination depends on an oracle take `fuel` (one unit per loop iteration) and
answer `Out.livelock` when it runs out; the termination theorems give the fuel that suffices.

Conventions
* `&mut` → returned state.  `usize` arithmetic that the code guards is `Nat` arithmetic here;
  every unguarded site is an explicit `Out.panic`:
  `error_if_invalid_data.take().unwrap()` on `None` (writer.rs ×2, reader.rs),
  `&output_buffer[..output_offset]` with `output_offset > len`, `assert_eq!(next_out_offset, lim)`
  and the two `assert!(!…is_empty())` of the copy function, `input_len - input_offset`.
* An encoder answer that breaks `consumed ≤ available_in` / `produced ≤ capacity` is answered
  with `Out.panic` too (Rust: slice index out of range / wrapped `usize`).
* The reader's local `avail_in` always equals `input_len - input_offset` (it is initialised to
  that, decremented together with the increment of `input_offset` by the encoder, recomputed
  after a read, and `copy_to_front` preserves the difference): the model recomputes it.
* Ghost fields (`bufAcc` = number of `slice_mut()` calls on the adapter's own buffer, `elog` =
  encoder calls, the `log`s of the wrapped streams) exist to be compared with the real run.
-/
set_option linter.unusedVariables false

namespace BV.Adapters

abbrev Bytes := List Nat

/-- `BrotliEncoderOperation` as used by the adapters -/
inductive Op where
  | process | flush | finish
deriving DecidableEq, Repr

/-- what one `compress_stream` call reports back -/
structure EncAns where
  consumed : Nat          -- increment of `*next_in_offset` = decrement of `*available_in`
  produced : Bytes        -- bytes stored at `next_out[*next_out_offset..]`
  ok : Bool               -- return value
  tot : Nat               -- value of the caller's `total_out` cell after the call
deriving DecidableEq, Repr

/-- the streaming encoder, abstractly -/
structure Enc (σ : Type) where
  step : σ → Op → Bytes → Nat → σ × EncAns
  hasMore : σ → Bool
  isFinished : σ → Bool

/-- ghost record of one encoder call -/
structure ERec where
  op : Op
  input : Bytes
  cap : Nat
  ans : EncAns
  more : Bool
  fin : Bool
deriving DecidableEq, Repr

inductive Err where
  | inner (c : Nat)       -- hard error `c` of the wrapped stream
  | writeZero             -- `error_if_zero_bytes_written`
  | invalidData           -- `error_if_invalid_data`
  | unexpectedEof         -- `unexpected_eof_error_constant` of the copy function
deriving DecidableEq, Repr

inductive Out (α : Type) where
  | done (a : α)
  | panic
  | livelock
deriving DecidableEq, Repr

/-! ## the wrapped streams -/

inductive Beh where
  | full | atMost (k : Nat) | intr | err (c : Nat) | zero
deriving DecidableEq, Repr

inductive Tail where
  | full | atMost (k : Nat) | err (c : Nat) | zero
deriving DecidableEq, Repr

/-- raw result of one call on the wrapped object -/
inductive Res where
  | n (k : Nat) | intr | err (c : Nat)
deriving DecidableEq, Repr

/-- log entry: kind 0 = write, 1 = read, 2 = flush; `req` = length of the slice passed -/
structure LogE where
  kind : Nat
  req : Nat
  res : Res
deriving DecidableEq, Repr

/-- how many bytes a behaviour moves when `avail` bytes could be moved -/
def behRes : Beh → Nat → Res
  | .full, avail => .n avail
  | .atMost k, avail => .n (min avail k)
  | .intr, _ => .intr
  | .err c, _ => .err c
  | .zero, _ => .n 0

def tailRes : Tail → Nat → Except Nat Nat
  | .full, avail => .ok avail
  | .atMost k, avail => .ok (min avail k)
  | .err c, _ => .error c
  | .zero, _ => .ok 0

def exceptToRes : Except Nat Nat → Res
  | .ok k => .n k
  | .error c => .err c

/-- one call through an `Interrupted`-retry wrapper: consumes script entries until one is not
`intr`; `avail` = bytes that could be moved (slice length, for reads also bounded by the
source), `req` = slice length (logged).  Returns the remaining script, the log and the final
result (`ok k` / `error c`). -/
def retryCall (tail : Tail) (kind req avail : Nat) :
    List Beh → List LogE → List Beh × List LogE × Except Nat Nat
  | [], log =>
    let r := tailRes tail avail
    ([], ⟨kind, req, exceptToRes r⟩ :: log, r)
  | b :: rest, log =>
    match behRes b avail with
    | .intr => retryCall tail kind req avail rest (⟨kind, req, .intr⟩ :: log)
    | .n k => (rest, ⟨kind, req, .n k⟩ :: log, .ok k)
    | .err c => (rest, ⟨kind, req, .err c⟩ :: log, .error c)

/-- the wrapped `Write` (+ its `flush`, scripted separately: `full` = Ok, `intr`, `err c`;
anything else counts as Ok; after the script: Ok) -/
structure Sink where
  script : List Beh
  tail : Tail
  fscript : List Beh
  got : Bytes
  log : List LogE        -- newest first
deriving DecidableEq, Repr

/-- `IntoIoWriter::write` / `IoWriterWrapper::write` -/
def Sink.write (s : Sink) (data : Bytes) : Sink × Except Nat Nat :=
  match retryCall s.tail 0 data.length data.length s.script s.log with
  | (script, log, .ok k) => ({ s with script := script, log := log, got := s.got ++ data.take k }, .ok k)
  | (script, log, .error c) => ({ s with script := script, log := log }, .error c)

def flushRes : Beh → Res
  | .intr => .intr
  | .err c => .err c
  | _ => .n 0

/-- `IntoIoWriter::flush` -/
def sinkFlushGo : List Beh → List LogE → List Beh × List LogE × Except Nat Unit
  | [], log => ([], ⟨2, 0, .n 0⟩ :: log, .ok ())
  | b :: rest, log =>
    match flushRes b with
    | .intr => sinkFlushGo rest (⟨2, 0, .intr⟩ :: log)
    | .err c => (rest, ⟨2, 0, .err c⟩ :: log, .error c)
    | .n _ => (rest, ⟨2, 0, .n 0⟩ :: log, .ok ())

def Sink.flush (s : Sink) : Sink × Except Nat Unit :=
  match sinkFlushGo s.fscript s.log with
  | (fs, log, r) => ({ s with fscript := fs, log := log }, r)

/-- the wrapped `Read` -/
structure Source where
  data : Bytes           -- not yet handed out
  script : List Beh
  tail : Tail
  log : List LogE
deriving DecidableEq, Repr

/-- `IntoIoReader::read` / `IoReaderWrapper::read` into a slice of length `n` -/
def Source.read (s : Source) (n : Nat) : Source × Except Nat Bytes :=
  match retryCall s.tail 1 n (min n s.data.length) s.script s.log with
  | (script, log, .ok k) => ({ s with script := script, log := log, data := s.data.drop k }, .ok (s.data.take k))
  | (script, log, .error c) => ({ s with script := script, log := log }, .error c)

/-! ## writer.rs -/

structure Writer (σ : Type) where
  bufSize : Nat            -- `output_buffer.slice_mut().len()`
  errInvalid : Bool        -- `error_if_invalid_data.is_some()`
  errZero : Bool           -- `error_if_zero_bytes_written.is_some()`
  enc : σ
  sink : Sink              -- `output` (always `Some` until `into_inner`)
  totalOut : Nat           -- `total_out` (`Some(_)` throughout)
  bufAcc : Nat
  elog : List ERec         -- newest first

/-- outcome of `write_all` (writer.rs): the two error slots after the call, the sink, and
`Ok(())` / `Err(e)`.  `writer.write(buf)` is never offered an empty slice. -/
def writeAll (errZero errInvalid : Bool) (s : Sink) (buf : Bytes) :
    Bool × Bool × Sink × Except Err Unit :=
  if hb : buf = [] then (errZero, errInvalid, s, .ok ())
  else
    match s.write buf with
    | (s', .error c) => (errZero, errInvalid, s', .error (.inner c))
    | (s', .ok k) =>
      if hk : k ≠ 0 then writeAll errZero errInvalid s' (buf.drop k)
      else if errZero then (false, errInvalid, s', .error .writeZero)
      else if errInvalid then (false, false, s', .error .invalidData)
      else (false, false, s', .ok ())          -- both values already handed out: swallowed
termination_by buf.length
decreasing_by
  have : 0 < buf.length := List.length_pos_iff.mpr hb
  simp only [List.length_drop]
  omega

/-- one encoder call made by the writer + the hand-over of what it produced.
`some (w', ans, r)`: `r` = result of `write_all` (`.ok ()` when nothing was produced);
`none`: index out of range / encoder contract broken (panic). -/
def Writer.encodeAndHandOver (E : Enc σ) (w : Writer σ) (op : Op) (input : Bytes) :
    Option (Writer σ × EncAns × Except Err Unit) :=
  let (e', ans) := E.step w.enc op input w.bufSize
  let rec_ : ERec := ⟨op, input, w.bufSize, ans, E.hasMore e', E.isFinished e'⟩
  let tot := if ans.produced.length > 0 then ans.tot else w.totalOut
  let w1 : Writer σ := { w with enc := e', elog := rec_ :: w.elog, bufAcc := w.bufAcc + 2, totalOut := tot }
  if ans.consumed > input.length ∨ ans.produced.length > w.bufSize then none
  else if ans.produced.length > 0 then
    match writeAll w1.errZero w1.errInvalid w1.sink ans.produced with
    | (ez, ei, s', r) =>
      some ({ w1 with errZero := ez, errInvalid := ei, sink := s', bufAcc := w1.bufAcc + 1 }, ans, r)
  else some (w1, ans, .ok ())

/-- `CustomWrite::write` loop: `rest` = `buf[input_offset..]`, `n` = `buf.len()` -/
def Writer.writeLoop (E : Enc σ) (n : Nat) : Nat → Writer σ → Bytes → Writer σ × Out (Except Err Nat)
  | 0, w, _ => (w, .livelock)
  | fuel + 1, w, rest =>
    if rest.length = 0 then (w, .done (.ok n))
    else
      match w.encodeAndHandOver E .process rest with
      | none => (w, .panic)
      | some (w', _, .error e) => (w', .done (.error e))
      | some (w', ans, .ok ()) =>
        if !ans.ok then
          if w'.errInvalid then ({ w' with errInvalid := false }, .done (.error .invalidData))
          else (w', .panic)
        else Writer.writeLoop E n fuel w' (rest.drop ans.consumed)

def Writer.write (E : Enc σ) (fuel : Nat) (w : Writer σ) (buf : Bytes) : Writer σ × Out (Except Err Nat) :=
  Writer.writeLoop E buf.length fuel w buf

/-- `flush_or_close(op)`, `op ∈ {flush, finish}` -/
def Writer.flushOrClose (E : Enc σ) (op : Op) : Nat → Writer σ → Writer σ × Out (Except Err Unit)
  | 0, w => (w, .livelock)
  | fuel + 1, w =>
    match w.encodeAndHandOver E op [] with
    | none => (w, .panic)
    | some (w', _, .error e) => (w', .done (.error e))
    | some (w', ans, .ok ()) =>
      if !ans.ok then
        if w'.errInvalid then ({ w' with errInvalid := false }, .done (.error .invalidData))
        else (w', .panic)
      else if op = .flush then
        if E.hasMore w'.enc then Writer.flushOrClose E op fuel w' else (w', .done (.ok ()))
      else if E.isFinished w'.enc then (w', .done (.ok ()))
      else Writer.flushOrClose E op fuel w'

/-- `CustomWrite::flush` -/
def Writer.flush (E : Enc σ) (fuel : Nat) (w : Writer σ) : Writer σ × Out (Except Err Unit) :=
  match Writer.flushOrClose E .flush fuel w with
  | (w', .done (.ok ())) =>
    match w'.sink.flush with
    | (s', .ok ()) => ({ w' with sink := s' }, .done (.ok ()))
    | (s', .error c) => ({ w' with sink := s' }, .done (.error (.inner c)))
  | r => r

/-- `into_inner` (and `Drop` while `output` is still there): FINISH, result discarded -/
def Writer.intoInner (E : Enc σ) (fuel : Nat) (w : Writer σ) : Writer σ × Out Unit :=
  match Writer.flushOrClose E .finish fuel w with
  | (w', .done _) => (w', .done ())
  | (w', .panic) => (w', .panic)
  | (w', .livelock) => (w', .livelock)

/-- `rearm_errors`: both stock error values are present again -/
def Writer.rearm (w : Writer σ) : Writer σ := { w with errInvalid := true, errZero := true }

/-- std layer (`CompressorWriterCustomAlloc` as `io::Write`): delegates and restocks the error
values after every `Err` -/
def Writer.stdWrite (E : Enc σ) (fuel : Nat) (w : Writer σ) (buf : Bytes) : Writer σ × Out (Except Err Nat) :=
  match Writer.write E fuel w buf with
  | (w', .done (.error e)) => (w'.rearm, .done (.error e))
  | x => x

def Writer.stdFlush (E : Enc σ) (fuel : Nat) (w : Writer σ) : Writer σ × Out (Except Err Unit) :=
  match Writer.flush E fuel w with
  | (w', .done (.error e)) => (w'.rearm, .done (.error e))
  | x => x

def Writer.new (bufSize : Nat) (e : σ) (sink : Sink) : Writer σ :=
  { bufSize := bufSize, errInvalid := true, errZero := true, enc := e, sink := sink, totalOut := 0, bufAcc := 0, elog := [] }

/-! ## reader.rs -/

/-- store `bs` at `buf[pos..pos+bs.length]` (the slice handed to the wrapped reader is
`buf[pos..]`, and the reader never reports more than its length: nothing is written past the end) -/
def storeAt (buf : Bytes) (pos : Nat) (bs : Bytes) : Bytes :=
  (buf.take pos ++ bs ++ buf.drop (pos + bs.length)).take buf.length

theorem storeAt_length (buf : Bytes) (pos : Nat) (bs : Bytes) : (storeAt buf pos bs).length = buf.length := by
  simp only [storeAt, List.length_take, List.length_append, List.length_drop]
  omega

structure Reader (σ : Type) where
  buf : Bytes              -- `input_buffer` (its length is the buffer size)
  inputOffset : Nat
  inputLen : Nat
  eof : Bool
  errInvalid : Bool
  enc : σ
  src : Source
  totalOut : Nat
  bufAcc : Nat
  elog : List ERec

/-- `copy_to_front` (pub).  `none` = `input_len - input_offset` underflows. -/
def Reader.copyToFront (r : Reader σ) : Option (Reader σ) :=
  if r.inputLen < r.inputOffset then none
  else
    let availIn := r.inputLen - r.inputOffset
    if r.inputOffset = r.buf.length then
      some { r with inputOffset := 0, inputLen := 0, bufAcc := r.bufAcc + 1 }
    else if r.inputOffset + 256 > r.buf.length ∧ availIn < r.inputOffset then
      -- first[0..avail_in].clone_from_slice(&second[0..avail_in])
      let second := r.buf.drop r.inputOffset
      if second.length < availIn then none
      else
        some { r with buf := second.take availIn ++ r.buf.drop availIn,
                      inputLen := r.inputLen - r.inputOffset, inputOffset := 0, bufAcc := r.bufAcc + 3 }
    else some { r with bufAcc := r.bufAcc + 2 }

/-- result of the refill loop shared by the reader and the copy function -/
structure Fill where
  buf : Bytes
  len : Nat
  eof : Bool
  src : Source
  err : Option Nat        -- the wrapped reader failed with this code (the loop was left)
  reads : Nat             -- calls made on the retry wrapper

/-- `while len < buf.len() && !eof { match src.read(&mut buf[len..]) { Err(e) => …leave…,
Ok(0) => eof = true, Ok(n) => len += n } }` — reader.rs `read` (with `len = input_len`) and the
refill of `BrotliCompressCustomIoCustomDict` (with `len = available_in`, `next_in_offset = 0`) -/
def fillBuf (buf : Bytes) (len : Nat) (eof : Bool) (src : Source) (reads : Nat) : Fill :=
  if h : len < buf.length ∧ eof = false then
    match src.read (buf.length - len) with
    | (src', .error c) => ⟨buf, len, eof, src', some c, reads + 1⟩
    | (src', .ok bs) =>
      if hz : bs.length = 0 then fillBuf buf len true src' (reads + 1)
      else fillBuf (storeAt buf len bs) (len + bs.length) eof src' (reads + 1)
  else ⟨buf, len, eof, src, none, reads⟩
termination_by (buf.length - len) + (if eof then 0 else 1)
decreasing_by
  · simp [h.2]
  · simp only [storeAt_length, h.2]
    have := h.1
    simp
    omega

/-- the refill loop of `read`: `some c` = the wrapped reader failed with `c` (`return Err(e)`).
One buffer access per evaluation of the loop condition, one per read. -/
def Reader.fill (r : Reader σ) : Reader σ × Option Nat :=
  let f := fillBuf r.buf r.inputLen r.eof r.src 0
  ({ r with buf := f.buf, inputLen := f.len, eof := f.eof, src := f.src,
            bufAcc := r.bufAcc + 2 * f.reads + (if f.err.isSome then 0 else 1) }, f.err)

/-- one iteration of the `while output_offset == 0` loop of `read`: leave the loop with a
result, or go round again -/
inductive RIter (σ : Type) where
  | stop (r : Reader σ) (o : Out (Except Err Bytes))
  | cont (r : Reader σ)

/-- the state right after the `compress_stream` call of an iteration (before `copy_to_front`);
`cap` = `buf.len()` of the caller = `avail_out` (the loop runs while `output_offset == 0`) -/
def Reader.afterStep (E : Enc σ) (cap : Nat) (r1 : Reader σ) : Reader σ :=
  let availIn := r1.inputLen - r1.inputOffset
  let op := if availIn = 0 then Op.finish else Op.process
  let input := (r1.buf.drop r1.inputOffset).take availIn
  let st := E.step r1.enc op input cap
  { r1 with enc := st.1, elog := ⟨op, input, cap, st.2, E.hasMore st.1, E.isFinished st.1⟩ :: r1.elog,
            bufAcc := r1.bufAcc + 1, inputOffset := r1.inputOffset + st.2.consumed,
            totalOut := if st.2.produced.length > 0 then st.2.tot else r1.totalOut }

/-- the body of the loop of `CustomRead::read` -/
def Reader.iter (E : Enc σ) (cap : Nat) (r : Reader σ) : RIter σ :=
  match r.fill with
  | (r1, some c) => .stop r1 (.done (.error (.inner c)))
  | (r1, none) =>
    if r1.inputLen < r1.inputOffset then .stop r1 .panic
    else
      let availIn := r1.inputLen - r1.inputOffset
      let op := if availIn = 0 then Op.finish else Op.process
      let input := (r1.buf.drop r1.inputOffset).take availIn
      let ans := (E.step r1.enc op input cap).2
      let r2 := r1.afterStep E cap
      if ans.consumed > input.length ∨ ans.produced.length > cap ∨ input.length ≠ availIn then .stop r2 .panic
      else
        match (if availIn - ans.consumed = 0 then r2.copyToFront else some r2) with
        | none => .stop r2 .panic
        | some r3 =>
          if !ans.ok then
            if r3.errInvalid then .stop { r3 with errInvalid := false } (.done (.error .invalidData))
            else .stop r3 .panic
          else if E.isFinished r3.enc then .stop r3 (.done (.ok ans.produced))
          else if ans.produced.length ≠ 0 then .stop r3 (.done (.ok ans.produced))
          else .cont r3

/-- the loop of `CustomRead::read` -/
def Reader.readLoop (E : Enc σ) (cap : Nat) : Nat → Reader σ → Reader σ × Out (Except Err Bytes)
  | 0, r => (r, .livelock)
  | fuel + 1, r =>
    match Reader.iter E cap r with
    | .stop r' o => (r', o)
    | .cont r' => Reader.readLoop E cap fuel r'

/-- `CustomRead::read(buf)` with `buf.len() = cap` -/
def Reader.read (E : Enc σ) (fuel : Nat) (r : Reader σ) (cap : Nat) : Reader σ × Out (Except Err Bytes) :=
  if cap = 0 then (r, .done (.ok []))        -- `if buf.is_empty() { return Ok(0); }`
  else if r.inputLen < r.inputOffset then (r, .panic)
  else Reader.readLoop E cap fuel r

/-- std layer (`CompressorReaderCustomAlloc` as `io::Read`): restocks the error value after
every `Err` (`rearm_error`) -/
def Reader.stdRead (E : Enc σ) (fuel : Nat) (r : Reader σ) (cap : Nat) : Reader σ × Out (Except Err Bytes) :=
  match Reader.read E fuel r cap with
  | (r', .done (.error e)) => ({ r' with errInvalid := true }, .done (.error e))
  | x => x

def Reader.new (bufSize : Nat) (e : σ) (src : Source) : Reader σ :=
  { buf := List.replicate bufSize 0, inputOffset := 0, inputLen := 0, eof := false, errInvalid := true,
    enc := e, src := src, totalOut := 0, bufAcc := 0, elog := [] }

/-! ## enc/mod.rs: BrotliCompressCustomIoCustomDict -/

structure Copy (σ : Type) where
  ibuf : Bytes             -- `input_buffer`
  obufSize : Nat           -- `output_buffer.len()`
  pending : Bytes          -- `output_buffer[..next_out_offset]`
  nextIn : Nat
  availableIn : Nat
  eof : Bool
  readErr : Option Err
  enc : σ
  src : Source
  sink : Sink
  totalOut : Nat
  elog : List ERec

inductive DrainErr where
  | inner (c : Nat)        -- `Err(e)` from the wrapped writer
  | zero                   -- `Ok(0)`: a sink that accepts nothing
deriving DecidableEq, Repr

/-- the inner `while next_out_offset < lim { w.write(&output_buffer[next_out_offset..lim]) }`:
`rest` = `output_buffer[next_out_offset..lim]` -/
def copyDrain (s : Sink) (rest : Bytes) : Sink × Except DrainErr Unit :=
  if hb : rest = [] then (s, .ok ())
  else
    match s.write rest with
    | (s', .error c) => (s', .error (.inner c))
    | (s', .ok k) =>
      if hk : k ≠ 0 then copyDrain s' (rest.drop k)
      else (s', .error .zero)
termination_by rest.length
decreasing_by
  have : 0 < rest.length := List.length_pos_iff.mpr hb
  simp only [List.length_drop]
  omega

/-- the refill loop of the copy function (entered with `available_in == 0 && !eof`, after
`next_in_offset = 0`); a read error is recorded, ends the input (`eof`) and leaves the loop -/
def Copy.fill (c : Copy σ) : Copy σ :=
  let f := fillBuf c.ibuf c.availableIn c.eof c.src 0
  match f.err with
  | some e => { c with ibuf := f.buf, availableIn := f.len, src := f.src, readErr := some (.inner e), eof := true }
  | none => { c with ibuf := f.buf, availableIn := f.len, src := f.src, eof := f.eof }

/-- one iteration of the `loop` of the copy function -/
inductive CIter (σ : Type) where
  | stop (c : Copy σ) (o : Out (Except Err Nat))
  | cont (c : Copy σ)

/-- refill (`if available_in == 0 && !eof { next_in_offset = 0; … }`) -/
def Copy.refill (c : Copy σ) : Copy σ :=
  if c.availableIn = 0 ∧ c.eof = false then Copy.fill { c with nextIn := 0 } else c

/-- the state right after the `compress_stream` call of an iteration -/
def Copy.afterStep (E : Enc σ) (c1 : Copy σ) : Copy σ :=
  let op := if c1.availableIn = 0 then Op.finish else Op.process
  let input := (c1.ibuf.drop c1.nextIn).take c1.availableIn
  let cap := c1.obufSize - c1.pending.length
  let st := E.step c1.enc op input cap
  { c1 with enc := st.1, elog := ⟨op, input, cap, st.2, E.hasMore st.1, E.isFinished st.1⟩ :: c1.elog,
            nextIn := c1.nextIn + st.2.consumed, availableIn := c1.availableIn - st.2.consumed,
            pending := c1.pending ++ st.2.produced,
            totalOut := if st.2.produced.length > 0 then st.2.tot else c1.totalOut }

/-- the body of the loop of `BrotliCompressCustomIoCustomDict` -/
def Copy.iter (E : Enc σ) (c : Copy σ) : CIter σ :=
  let c1 := c.refill
  let op := if c1.availableIn = 0 then Op.finish else Op.process
  let input := (c1.ibuf.drop c1.nextIn).take c1.availableIn
  let cap := c1.obufSize - c1.pending.length
  let ans := (E.step c1.enc op input cap).2
  let c2 := c1.afterStep E
  let fin := E.isFinished c2.enc
  if ans.consumed > input.length ∨ ans.produced.length > cap ∨ input.length ≠ c1.availableIn
      ∨ c1.pending.length > c1.obufSize then
    .stop c2 .panic
  else
    -- available_out == 0 || fin  →  hand the staged bytes over
    let drained : Copy σ × Option Err :=
      if c2.pending.length = c2.obufSize ∨ fin then
        match copyDrain c2.sink c2.pending with
        | (s', .ok ()) => ({ c2 with sink := s', pending := [] }, none)
        | (s', .error de) =>
          -- BrotliEncoderDestroyInstance(s); read_err?; return Err(e | unexpected_eof_error_constant)
          let own : Err := match de with | .inner c => .inner c | .zero => .unexpectedEof
          ({ c2 with sink := s' }, some (match c2.readErr with | some re => re | none => own))
      else (c2, none)
    match drained with
    | (c3, some e) => .stop c3 (.done (.error e))
    | (c3, none) =>
      if !ans.ok then
        .stop c3 (.done (.error (match c3.readErr with | some re => re | none => Err.unexpectedEof)))
      else if fin then
        match c3.readErr with
        | some re => .stop c3 (.done (.error re))
        | none => .stop c3 (.done (.ok c3.totalOut))
      else .cont c3

def Copy.loop (E : Enc σ) : Nat → Copy σ → Copy σ × Out (Except Err Nat)
  | 0, c => (c, .livelock)
  | fuel + 1, c =>
    match Copy.iter E c with
    | .stop c' o => (c', o)
    | .cont c' => Copy.loop E fuel c'

/-- `BrotliCompressCustomIoCustomDict` with buffers of `ib` / `ob` bytes (dict = ∅) -/
def Copy.run (E : Enc σ) (fuel ib ob : Nat) (e : σ) (src : Source) (sink : Sink) : Copy σ × Out (Except Err Nat) :=
  let c : Copy σ := { ibuf := List.replicate ib 0, obufSize := ob, pending := [], nextIn := 0, availableIn := 0,
                      eof := false, readErr := none, enc := e, src := src, sink := sink, totalOut := 0, elog := [] }
  if ib = 0 ∨ ob = 0 then (c, .panic)       -- assert!(!input_buffer.is_empty()); assert!(!output_buffer.is_empty())
  else Copy.loop E fuel c

/-! ## the replay encoder used by the driver -/

/-- one recorded call -/
structure Recorded where
  op : Op
  availIn : Nat
  cap : Nat
  ans : EncAns
  more : Bool
  fin : Bool
deriving DecidableEq, Repr

/-- replay state: remaining records, observers of the last answer, `bad` once a request did not
match the record (or the records ran out) -/
structure Replay where
  rest : List Recorded
  more : Bool
  fin : Bool
  bad : Bool
deriving DecidableEq, Repr

def Replay.init (rs : List Recorded) : Replay := ⟨rs, false, false, false⟩

def replayEnc : Enc Replay where
  step s op input cap :=
    match s.rest with
    | [] => ({ s with bad := true }, ⟨0, [], false, 0⟩)
    | r :: rest =>
      if r.op = op ∧ r.availIn = input.length ∧ r.cap = cap then
        ({ s with rest := rest, more := r.more, fin := r.fin }, r.ans)
      else ({ s with rest := rest, bad := true }, ⟨0, [], false, 0⟩)
  hasMore s := s.more
  isFinished s := s.fin

end BV.Adapters
