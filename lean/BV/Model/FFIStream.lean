import BV.Model.FFI
import BV.Model.Stream
/-
M14 over M8: the C ABI entry points of `src/ffi/compressor.rs` that work on an encoder instance,
expressed over the stream-machine model `BV.Stream` (imported; owned by the stream worker) instead
of over recorded answers.

* `BrotliEncoderSetParameter`, `BrotliEncoderIsFinished`, `BrotliEncoderHasMoreOutput`,
  `BrotliEncoderTakeOutput` are NOT wrapped in `catch_panic`: they are the Rust methods, with the
  `bool` turned into 0/1 and the slice into its start pointer;
* `BrotliEncoderCompressStream` builds its two slices from the caller's pointers and counts
  (`&[]` for a zero count — the pointer, null or dangling, is then never looked at), calls
  `compress_stream` on the instance's state with fresh offsets, and hands the cursors back
  (`BV.FFI.compressStream`, `BV/Model/FFI.lean`).
Caller memory is a function `Mem` from (address, length) to the bytes readable there.
-/
namespace BV.FFI
open BV.Stream BV.Bits

/-- the caller's memory: `mem p n` = the `n` bytes at address `p` -/
abbrev Mem := Nat → Nat → List Nat

/-- `BrotliEncoderSetParameter(state, param, value)` → (state, 0/1) -/
def ffiSetParameter (s : St) (id v : Nat) : St × Nat :=
  match setParameter s id v with
  | (s', true) => (s', 1)
  | (s', false) => (s', 0)

/-- `BrotliEncoderIsFinished` / `BrotliEncoderHasMoreOutput` -/
def ffiIsFinished (s : St) : Nat := if isFinished s then 1 else 0
def ffiHasMoreOutput (s : St) : Nat := if hasMoreOutput s then 1 else 0

/-- `BrotliEncoderTakeOutput(state, &size)` → state, `*size`, the bytes behind the returned pointer
that the caller may read (`*size` of them) -/
def ffiTakeOutput (s : St) (size : Nat) : Out (St × Nat × List Nat) :=
  match BV.Stream.takeOutput s size with
  | .ok (s', bytes) => .ok (s', bytes.length, bytes)
  | .panic => .panic
  | .fuel => .fuel

/-- the input slice the wrapper hands to `compress_stream` -/
def inputSlice (mem : Mem) (nextIn : Option Nat) (availIn : Nat) : List Nat :=
  if availIn = 0 then []
  else match nextIn with
    | some p => mem p availIn
    | none => []            -- `slice::from_raw_parts(null, n)`: outside the contract; see C13 notes

/-- what the Rust call did, in the vocabulary of `StreamAns` -/
def ansOfStream (offered cap : Nat) (res : Out (St × Io × Bool)) : StreamAns :=
  match res with
  | .ok (s', io', r) =>
    ⟨offered - io'.availIn, io'.availIn, io'.out.length, io'.availOut, r, false,
     if io'.out.length = 0 then none else some s'.totalOut⟩
  | _ => ⟨0, offered, 0, cap, false, true, none⟩

/-- `BrotliEncoderCompressStream` on an instance in state `s`: the state after the call (unchanged
in the model if the Rust call unwound), the values handed back, the bytes stored at `*next_out` -/
def ffiCompressStream (o : Oracle) (fuel : Nat) (s : St) (mem : Mem) (op : Nat) (c : StreamCall) :
    St × StreamRet × List Nat :=
  let input := inputSlice mem c.nextIn c.availIn
  let res := BV.Stream.compressStream o fuel s op input c.availOut
  let ret := BV.FFI.compressStream { c with encTotal := s.totalOut } (ansOfStream c.availIn c.availOut res)
  match res with
  | .ok (s', io', _) => (s', ret, io'.out)
  | _ => (s, ret, [])

end BV.FFI
