import BV.Model.FFI
import BV.Model.Stream
/-
M14 over M8: the C ABI entry points of `src/ffi/compressor.rs` that work on an encoder instance,
expressed over the stream-machine model `BV.Stream` (imported; owned by the stream worker) instead
of over recorded answers.

* `BrotliEncoderSetParameter`, `BrotliEncoderIsFinished`, `BrotliEncoderHasMoreOutput`,
  `BrotliEncoderTakeOutput` are NOT wrapped in `catch_panic`: they are the Rust methods, with the
  `bool` turned into 0/1 and the slice into its start pointer;
* `BrotliEncoderCompressStream` builds its two slices from the caller's pointers and counts
  (`&[]` for a zero count — the pointer, null or dangling, is then never looked at), calls
  `compress_stream` on the instance's state with fresh offsets, and hands the cursors back
  (`BV.FFI.compressStream`, `BV/Model/FFI.lean`).
Caller memory is a function `Mem` from (address, length) to the bytes readable there.
-/
namespace BV.FFI
open BV.Stream BV.Bits

/-- the caller's memory: `mem p n` = the `n` bytes at address `p` -/
abbrev Mem := Nat → Nat → List Nat

/-- `BrotliEncoderSetParameter(state, param, value)` → (state, 0/1) -/
def ffiSetParameter (s : St) (id v : Nat) : St × Nat :=
  match setParameter s id v with
  | (s', true) => (s', 1)
  | (s', false) => (s', 0)

/-- `BrotliEncoderIsFinished` / `BrotliEncoderHasMoreOutput` -/
def ffiIsFinished (s : St) : Nat := if isFinished s then 1 else 0
def ffiHasMoreOutput (s : St) : Nat := if hasMoreOutput s then 1 else 0

/-- `BrotliEncoderTakeOutput(state, &size)` → state, `*size`, the bytes behind the returned pointer
that the caller may read (`*size` of them) -/
def ffiTakeOutput (s : St) (size : Nat) : Out (St × Nat × List Nat) :=
  match BV.Stream.takeOutput s size with
  | .ok (s', bytes) => .ok (s', bytes.length, bytes)
  | .panic => .panic
  | .fuel => .fuel

/-- the input slice the wrapper hands to `compress_stream` -/
def inputSlice (mem : Mem) (nextIn : Option Nat) (availIn : Nat) : List Nat :=
  if availIn = 0 then []
  else match nextIn with
    | some p => mem p availIn
    | none => []            -- `slice::from_raw_parts(null, n)`: outside the contract; see C13 notes

/-- what the Rust call did, in the vocabulary of `StreamAns` -/
def ansOfStream (offered cap : Nat) (res : Out (St × Io × Bool)) : StreamAns :=
  match res with
  | .ok (s', io', r) =>
    ⟨offered - io'.availIn, io'.availIn, io'.out.length, io'.availOut, r, false,
     if io'.out.length = 0 then none else some s'.totalOut⟩
  | _ => ⟨0, offered, 0, cap, false, true, none⟩

/-- `BrotliEncoderCompressStream` on an instance in state `s`: the state after the call (unchanged
in the model if the Rust call unwound), the values handed back, the bytes stored at `*next_out` -/
def ffiCompressStream (o : Oracle) (fuel : Nat) (s : St) (mem : Mem) (op : Nat) (c : StreamCall) :
    St × StreamRet × List Nat :=
  let input := inputSlice mem c.nextIn c.availIn
  let res := BV.Stream.compressStream o fuel s op input c.availOut
  let ret := BV.FFI.compressStream { c with encTotal := s.totalOut } (ansOfStream c.availIn c.availOut res)
  match res with
  | .ok (s', io', _) => (s', ret, io'.out)
  | _ => (s, ret, [])

/-! ### a history of C ABI calls on one instance (sequencing only; driver line `ffi H`) -/

/-- one call through the C ABI -/
inductive FfiCall where
  | setParam (id v : Nat)                   -- `BrotliEncoderSetParameter`
  | stream (op : Nat) (c : StreamCall)      -- `BrotliEncoderCompressStream` (`c.encTotal` is ignored: the instance's own total is used)
  | take (size : Nat)                       -- `BrotliEncoderTakeOutput`
  | hasMore | isFinished                    -- `BrotliEncoderHasMoreOutput` / `BrotliEncoderIsFinished` (state untouched)
deriving Repr

/-- what the caller has seen: every byte delivered so far (stored at `*next_out` by a stream call, or
behind the pointer `TakeOutput` returned), and, for every stream call made with a non-null
`total_out`, the pair (value read back from `*total_out`, number of bytes delivered up to and
including that call) -/
structure FfiSeen where
  delivered : List Nat := []
  cells : List (Nat × Nat) := []
deriving Repr

/-- the history, call by call; `none`: a Rust call unwound (or the model ran out of fuel) — what an
instance does after `catch_panic` returned 0 is outside the contract, the history ends there -/
def ffiRun (o : Oracle) (fuel : Nat) (mem : Mem) : List FfiCall → St → FfiSeen → Option (St × FfiSeen)
  | [], s, seen => some (s, seen)
  | .setParam id v :: cs, s, seen => ffiRun o fuel mem cs (ffiSetParameter s id v).1 seen
  | .hasMore :: cs, s, seen => ffiRun o fuel mem cs s seen
  | .isFinished :: cs, s, seen => ffiRun o fuel mem cs s seen
  | .stream op c :: cs, s, seen =>
    match BV.Stream.compressStream o fuel s op (inputSlice mem c.nextIn c.availIn) c.availOut with
    | .ok _ =>
      let r := ffiCompressStream o fuel s mem op c
      let d := seen.delivered ++ r.2.2
      ffiRun o fuel mem cs r.1 { delivered := d, cells := if c.totalOutPtr then seen.cells ++ [(r.2.1.totalOutCell, d.length)] else seen.cells }
    | _ => none
  | .take size :: cs, s, seen =>
    match ffiTakeOutput s size with
    | .ok (s', _, bytes) => ffiRun o fuel mem cs s' { seen with delivered := seen.delivered ++ bytes }
    | _ => none

end BV.FFI
