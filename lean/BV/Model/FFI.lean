/-
M14 `FFI` — executable model of the C ABI wrappers of `src/ffi/compressor.rs` and of the
dispatch part of `src/ffi/multicompress/mod.rs`, over the Rust API as an oracle:

* `BrotliEncoderCompressStream` (+ `…Streaming`, which passes local copies of the two pointers and
  a null `total_out`): translate `op`, build the two slices (`&[]` when the count is 0 — the
  pointer is then not looked at; `slice_from_raw_parts_or_nil` when the pointer is null), call
  `compress_stream` with fresh offsets 0/0 and `to = Some(compressor.total_out_)`, store `to`
  through `total_out` if it is non-null, add the offsets to the caller's pointers (only when the
  count was non-zero), return the bool as 0/1 — all inside `catch_panic` (a panic ↦ 0, the two
  pointers and `*total_out` untouched; `*available_in` / `*available_out` are passed by `&mut` and
  keep whatever the callee left in them);
* `BrotliEncoderTakeOutput`: `take_output(&mut *size).as_ptr()`;
* `catch_panic`: `Err(_) ↦ 0` (NULL for the constructors);
* `BrotliEncoderCompressMulti` / `…CompressWorkPool`: `desired_num_threads == 0 ⇒ 0` before
  anything is touched; `num_threads = min(desired, 16)`; one thread ⇒ the single-stream helper;
  allocator opaque of slot `k` (k < 16) is `alloc_opaque[k % desired]` (`alloc_opaque` = 16 nulls
  when the caller passed null, else the caller's array of `desired` entries).

The Rust calls themselves (`compress_stream`, `take_output`, the multi-threaded compressor) are
answers recorded on the twin Rust-API run; hypotheses on them are named in
`BV/Lemmas/FFI.lean`.  Addresses are natural numbers; `none` = null pointer.
-/
namespace BV.FFI

abbrev Bytes := List Nat

/-- what `compress_stream` did, as seen by its caller -/
structure StreamAns where
  inOff : Nat            -- `input_offset` after the call (it starts at 0)
  availIn : Nat          -- `*available_in` after the call
  outOff : Nat
  availOut : Nat
  ok : Bool
  panicked : Bool        -- the call unwound (then `ok` is meaningless)
  toWritten : Option Nat -- the value stored into the `total_out` cell, if the callee stored one
deriving DecidableEq, Repr

/-- the caller's view of one `BrotliEncoderCompressStream` call -/
structure StreamCall where
  availIn : Nat
  nextIn : Option Nat
  availOut : Nat
  nextOut : Option Nat
  totalOutPtr : Bool     -- `total_out` non-null
  totalOutCell : Nat     -- what `*total_out` holds before the call (kept if nothing is stored)
  encTotal : Nat         -- `compressor.total_out_` before the call
deriving DecidableEq, Repr

structure StreamRet where
  ret : Nat
  availIn : Nat
  nextIn : Option Nat
  availOut : Nat
  nextOut : Option Nat
  totalOutCell : Nat
deriving DecidableEq, Repr

/-- pointer arithmetic `p.add(k)`; adding to a null pointer only happens with `k = 0` in the
reachable cases — kept explicit -/
def ptrAdd : Option Nat → Nat → Option Nat
  | some p, k => some (p + k)
  | none, 0 => none
  | none, k + 1 => some (k + 1)    -- (null).add(k+1): address k+1 — what the machine does

/-- `BrotliEncoderCompressStream` given the answer of the Rust call -/
def compressStream (c : StreamCall) (a : StreamAns) : StreamRet :=
  if a.panicked then
    ⟨0, a.availIn, c.nextIn, a.availOut, c.nextOut, c.totalOutCell⟩
  else
    let inputAny := c.availIn != 0
    let outputAny := c.availOut != 0
    let to := match a.toWritten with | some v => v | none => c.encTotal
    ⟨if a.ok then 1 else 0, a.availIn,
     if inputAny then ptrAdd c.nextIn a.inOff else c.nextIn,
     a.availOut,
     if outputAny then ptrAdd c.nextOut a.outOff else c.nextOut,
     if c.totalOutPtr then to else c.totalOutCell⟩

/-- `take_output` of encode.rs over the pending bytes (`available_out_` bytes at `next_out_`):
returns (bytes handed out, `*size` after, bytes still pending).  `size = 0` means "everything". -/
def takeOutput (pending : Bytes) (size : Nat) : Bytes × Nat × Bytes :=
  let consumed := if size != 0 then min size pending.length else pending.length
  if consumed != 0 then (pending.take consumed, consumed, pending.drop consumed)
  else ([], 0, pending)

/-- `catch_panic(f).unwrap_or_else(|_| 0)` -/
def catchPanic (r : Option Nat) : Nat :=
  match r with
  | some v => v
  | none => 0

/-- `MAX_THREADS` of ffi/multicompress -/
def maxThreads : Nat := 16

inductive MultiPath where
  | reject               -- `return 0` before anything else
  | single               -- `help_brotli_encoder_compress_single`
  | multi (threads : Nat)
deriving DecidableEq, Repr

/-- the dispatch of `BrotliEncoderCompressMulti` -/
def multiDispatch (desired : Nat) : MultiPath :=
  if desired = 0 then .reject
  else if min desired maxThreads = 1 then .single
  else .multi (min desired maxThreads)

/-- index into `alloc_opaque` used for allocator slot `k`; `none` = index out of range (panic).
`callerArray = false`: the 16 nulls; `true`: the caller's `desired` entries. -/
def opaqueIndex (desired : Nat) (callerArray : Bool) (k : Nat) : Option Nat :=
  if desired = 0 then none           -- `k % 0` panics
  else
    let i := if k = 0 then 0 else k % desired
    let len := if callerArray then desired else maxThreads
    if i < len then some i else none

end BV.FFI
