/-
M13 `Hasher` — executable model of the match-index update paths of
`src/enc/backward_references/mod.rs` (+ `hash_to_binary_tree.rs` for H10):

* `BasicHasher<T>` (H2, H3, H4, H54): `Store`, `StoreRangeOptBasic`, `StoreRange`,
  `BulkStoreRange`, `clone_with_alloc`, `PartialEq`;
* `AdvHasher<Spec, Alloc>` (H5, H5q5, H5q7, H6): `HashBytes`, `Store`, `StoreRangeOptBatch`,
  `BulkStoreRangeOptMemFetch`, `StoreRange`, `BulkStoreRange`, `clone_with_alloc`, `PartialEq`;
* `H9`: `Store`, `StoreRange`, `BulkStoreRange`, clone, eq;
* `H10`: `StoreRange` (thinning loop) and `BulkStoreRange` over an opaque `Store`;
* `StoreLookaheadThenStore`, `StitchToPreviousBlockInternal` (generic over the kind).

Conventions
* `usize = u64`.  Positions (`ix`, `ix_start`, `ix_end`) are `Nat`s; the model does no `usize`
  arithmetic that could overflow other than on positions, and positions are assumed `< 2^63`
  (the encoder wraps them below `3·2^30`): `ix_start + 16`, `ix + 3` … are plain `Nat` additions.
* tables are `Array Nat` (`u32` bucket entries, `u16` counters); a slice index out of range and an
  `assert_eq!` are the outcome `none` (= panic).  `x as u32` is `% 2^32`, `x as u16` is `% 2^16`.
* `data` is a `ByteArray`; `win data p n` is "`data.split_at(p).1` then the first `n` bytes are
  read" (`BROTLI_UNALIGNED_LOAD32/64`, `split_at(11)`, `data[i] … data[i+6]`): `none` when fewer
  than `n` bytes remain.
* the hash functions are PARAMETERS (`BasicP.hash`, `AdvP.mixWord`, `H9P.hash`, the whole `Store`
  for H10); the concrete multiplicative hashes of the ten kinds are at the end of the file.
* configuration constants used as shift counts (`hash_shift`, `block_bits`: `i32` fields) are
  assumed in range (`AdvP.Ok`); they are fixed at construction and never data dependent.
* fields the store paths never touch (`GetHasherCommon`/`dict_search_stats_`, `h9_opts`,
  `specialization`) are not part of the state; `PartialEq`/clone treat them by `==`/`.clone()`.
-/
namespace BV.Hasher

abbrev Tab := Array Nat

def U32 : Nat := 4294967296
def U16 : Nat := 65536
/-- `usize::MAX` -/
def USIZE_MAX : Nat := 18446744073709551615

/-- `a[i]` on a slice: out of range panics -/
def rd (a : Tab) (i : Nat) : Option Nat := if h : i < a.size then some a[i] else none
/-- `a[i] = v` on a slice: out of range panics -/
def wr (a : Tab) (i v : Nat) : Option Tab := if h : i < a.size then some (a.set i v h) else none

/-- the `n` bytes at `p`: `data.split_at(p).1` (panics if `p > len`) followed by a read of the
first `n` bytes of that slice (panics if it is shorter) -/
def win (data : ByteArray) (p n : Nat) : Option (List Nat) :=
  if p + n ≤ data.size then some ((List.range n).map fun k => (data.get! (p + k)).toNat) else none

/-- `for i in s .. s+n { x = f(i, x)? }` -/
def forRange {σ : Type} (f : Nat → σ → Option σ) : Nat → Nat → σ → Option σ
  | _, 0, x => some x
  | s, n + 1, x =>
    match f s x with
    | none => none
    | some y => forRange f (s + 1) n y

/-- little-endian value of a byte window (`BROTLI_UNALIGNED_LOAD32/64`) -/
def le : List Nat → Nat
  | [] => 0
  | b :: rest => b + 256 * le rest

/-! ## BasicHasher (H2 / H3 / H4 / H54) -/

/-- `BasicHashComputer`: `BUCKET_SWEEP()` and `HashBytes` as a function of the 8 bytes it loads
(`-> u32`) -/
structure BasicP where
  sweep : Nat
  hash : List Nat → Nat

namespace Basic

/-- `AnyHasher::HashBytes(data_window)`: `self.buckets_.HashBytes(data) as usize`
(`BROTLI_UNALIGNED_LOAD64`, result `u32`) on the slice starting at `p` -/
def hashAt (P : BasicP) (data : ByteArray) (p : Nat) : Option Nat :=
  (win data p 8).map fun w => P.hash w % U32

/-- `fn Store(&mut self, data, mask, ix)` -/
def store (P : BasicP) (data : ByteArray) (mask ix : Nat) (b : Tab) : Option Tab :=
  match hashAt P data (ix &&& mask) with
  | none => none
  | some key =>
    if P.sweep = 0 then none            -- `wrapping_rem(0)` panics
    else
      let off := (ix >>> 3) % P.sweep % U32
      wr b ((key + off) % U32) (ix % U32)   -- `key.wrapping_add(off) as usize`, `ix as u32`

/-- the four hashes of `word11 = data.split_at(i).1.split_at(11).0`:
`HashBytes(word11)`, `HashBytes(word11.split_at(k).1)` for `k = 1, 2, 3` (each loads 8 bytes) -/
def hash4 (P : BasicP) (data : ByteArray) (i : Nat) : Option (Nat × Nat × Nat × Nat) :=
  match win data i 11 with
  | none => none
  | some w11 =>
    some (P.hash (w11.take 8) % U32, P.hash ((w11.drop 1).take 8) % U32,
          P.hash ((w11.drop 2).take 8) % U32, P.hash ((w11.drop 3).take 8) % U32)

/-- body of `for chunk_id in 0..chunk_count` in `StoreRangeOptBasic` -/
def chunk (P : BasicP) (data : ByteArray) (mask ixStart : Nat) (chunkId : Nat) (b : Tab) :
    Option Tab :=
  let ix := ixStart + chunkId * 4
  let i := ix &&& mask
  if mask - i < 3 then
    -- the four positions straddle the end of the ring buffer: `for k in 0..4 { self.Store(..) }`
    forRange (fun k b => store P data mask (ix + k) b) 0 4 b
  else
    match hash4 P data i with
    | none => none
    | some (m0, m1, m2, m3) =>
      if P.sweep = 0 then none
      else
        let o0 := m0 + (ix >>> 3) % P.sweep
        let o1 := m1 + ((ix + 1) >>> 3) % P.sweep
        let o2 := m2 + ((ix + 2) >>> 3) % P.sweep
        let o3 := m3 + ((ix + 3) >>> 3) % P.sweep
        match wr b o0 (ix % U32) with
        | none => none
        | some b =>
        match wr b o1 ((ix + 1) % U32) with
        | none => none
        | some b =>
        match wr b o2 ((ix + 2) % U32) with
        | none => none
        | some b => wr b o3 ((ix + 3) % U32)

/-- `fn StoreRangeOptBasic(..) -> usize`: new table and the position to continue from -/
def storeRangeOptBasic (P : BasicP) (data : ByteArray) (mask ixStart ixEnd : Nat) (b : Tab) :
    Option (Tab × Nat) :=
  if ixEnd ≥ ixStart + 8 * 2 then
    let chunkCount := (ixEnd - ixStart) / 4
    match forRange (chunk P data mask ixStart) 0 chunkCount b with
    | none => none
    | some b => some (b, ixStart + chunkCount * 4)
  else some (b, ixStart)

/-- `fn StoreRange` -/
def storeRange (P : BasicP) (data : ByteArray) (mask ixStart ixEnd : Nat) (b : Tab) : Option Tab :=
  match storeRangeOptBasic P data mask ixStart ixEnd b with
  | none => none
  | some (b, from_) => forRange (store P data mask) from_ (ixEnd - from_) b

/-- `fn BulkStoreRange` = `self.StoreRange(..)` -/
def bulkStoreRange (P : BasicP) (data : ByteArray) (mask ixStart ixEnd : Nat) (b : Tab) :
    Option Tab :=
  storeRange P data mask ixStart ixEnd b

end Basic

/-! ## AdvHasher (H5 / H5q5 / H5q7 / H6) -/

/-- `AdvHashSpecialization` -/
structure AdvP where
  /-- `StoreLookahead()`; also the number of bytes `load_and_mix_word` loads (4 or 8) -/
  lookahead : Nat
  /-- `load_and_mix_word` as a function of the bytes it loads (`u64`) -/
  mixWord : List Nat → Nat
  /-- `get_k_hash_mul()`, `get_hash_mask()`, `hash_shift()` (inline hash of the 4-at-a-time paths) -/
  kHashMul : Nat
  hashMask : Nat
  shift : Nat
  /-- `bucket_size()`, `block_bits()`, `block_mask()`; `block_size() = 1 << block_bits` -/
  bucketSize : Nat
  blockBits : Nat
  blockMask : Nat

/-- `num` (`u16` per bucket) and `buckets` (`u32`, `block_size` per bucket) -/
structure AdvSt where
  num : Tab
  buckets : Tab

namespace Adv

/-- `fn HashBytes(&self, data)`: `(load_and_mix_word(data) >> shift) as u32 as usize` -/
def hashAt (P : AdvP) (data : ByteArray) (p : Nat) : Option Nat :=
  (win data p P.lookahead).map fun w => (P.mixWord w >>> P.shift) % U32

/-- `fn Store(&mut self, data, mask, ix)` -/
def store (P : AdvP) (data : ByteArray) (mask ix : Nat) (st : AdvSt) : Option AdvSt :=
  match st with
  | ⟨num, buckets⟩ =>
  match hashAt P data (ix &&& mask) with
  | none => none
  | some key =>
    match rd num key with
    | none => none
    | some n =>
      let minor := n &&& P.blockMask
      -- `minor_ix.wrapping_add((key << block_bits) as usize)` with `key: u32`
      match wr buckets (minor + (key <<< P.blockBits) % U32) (ix % U32) with
      | none => none
      | some buckets =>
        match wr num key ((n + 1) % U16) with   -- `(*_lhs as i32 + 1) as u16`
        | none => none
        | some num => some ⟨num, buckets⟩

/-- the inline hash of the 4-at-a-time paths:
`(((w & 0xffff_ffff) * get_k_hash_mul()) & get_hash_mask()) >> shift) as usize` -/
def mixInline (P : AdvP) (w : Nat) : Nat :=
  (((w &&& 0xffffffff) * P.kHashMul) &&& P.hashMask) >>> P.shift

/-- `word = data[0] | data[1] << 8 | … | data[6] << 48` of a 7-byte window -/
def word7 : List Nat → Nat
  | [b0, b1, b2, b3, b4, b5, b6] =>
    b0 ||| (b1 <<< 8) ||| (b2 <<< 16) ||| (b3 <<< 24) ||| (b4 <<< 32) ||| (b5 <<< 40) ||| (b6 <<< 48)
  | _ => 0

/-- `num_ref = num[mixed]; num[mixed] = num_ref.wrapping_add(1) as u16; num_ref &= block_mask` -/
def numStep (P : AdvP) (key : Nat) (num : Tab) : Option (Nat × Tab) :=
  match rd num key with
  | none => none
  | some n =>
    match wr num key ((n + 1) % U32 % U16) with
    | none => none
    | some num => some (n &&& P.blockMask, num)

/-- the unrolled body shared by `StoreRangeOptBatch` (non-straddling chunk) and
`BulkStoreRangeOptMemFetch` (one `quad_index`): four keys from one 7-byte word, four `num`
updates, four bucket writes of `v, v+1, v+2, v+3` (as `u32`) -/
def quad (P : AdvP) (w7 : List Nat) (v : Nat) (st : AdvSt) : Option AdvSt :=
  match st with
  | ⟨num, buckets⟩ =>
  let word := word7 w7
  let m0 := mixInline P word
  let m1 := mixInline P (word >>> 8)
  let m2 := mixInline P (word >>> 16)
  let m3 := mixInline P (word >>> 24)
  match numStep P m0 num with
  | none => none
  | some (r0, num) =>
  match numStep P m1 num with
  | none => none
  | some (r1, num) =>
  match numStep P m2 num with
  | none => none
  | some (r2, num) =>
  match numStep P m3 num with
  | none => none
  | some (r3, num) =>
  match wr buckets ((m0 <<< P.blockBits) + r0) (v % U32) with
  | none => none
  | some buckets =>
  match wr buckets ((m1 <<< P.blockBits) + r1) ((v + 1) % U32) with
  | none => none
  | some buckets =>
  match wr buckets ((m2 <<< P.blockBits) + r2) ((v + 2) % U32) with
  | none => none
  | some buckets =>
  match wr buckets ((m3 <<< P.blockBits) + r3) ((v + 3) % U32) with
  | none => none
  | some buckets => some ⟨num, buckets⟩

/-- exact table sizes: what the constructors (`InitializeH5/H6`) allocate with an exact allocator -/
def sizesAsserted (P : AdvP) (st : AdvSt) : Bool :=
  st.num.size == P.bucketSize && st.buckets.size == P.bucketSize * (1 <<< P.blockBits)

/-- the batched paths work on `&mut num[..bucket_size]`, `&mut buckets[..bucket_size * block_size]`
(an allocator may hand out longer cells): slicing panics on a shorter table, indices beyond the
slices panic inside `f`, the rest of the cells is untouched.  (The two `assert_eq!` on the slice
lengths that follow are then true by construction.) -/
def onTables (P : AdvP) (st : AdvSt) (f : AdvSt → Option AdvSt) : Option AdvSt :=
  let nb := P.bucketSize * (1 <<< P.blockBits)
  if st.num.size < P.bucketSize ∨ st.buckets.size < nb then none
  else
    match f ⟨st.num.extract 0 P.bucketSize, st.buckets.extract 0 nb⟩ with
    | none => none
    | some st' =>
      some ⟨st'.num ++ st.num.extract P.bucketSize st.num.size,
            st'.buckets ++ st.buckets.extract nb st.buckets.size⟩

/-- the per-position body of the straddling branch of `StoreRangeOptBatch` -/
def straddleStep (P : AdvP) (data : ByteArray) (mask p : Nat) (st : AdvSt) : Option AdvSt :=
  match st with
  | ⟨num, buckets⟩ =>
  match hashAt P data (p &&& mask) with      -- `load_and_mix_word(&data[(p & mask)..]) >> shift) as u32 as usize`
  | none => none
  | some key =>
    match rd num key with
    | none => none
    | some n =>
      match wr buckets ((key <<< P.blockBits) + (n &&& P.blockMask)) (p % U32) with
      | none => none
      | some buckets =>
        match wr num key ((n + 1) % U16) with
        | none => none
        | some num => some ⟨num, buckets⟩

/-- body of `for chunk_id in 0..chunk_count` in `StoreRangeOptBatch` -/
def chunk (P : AdvP) (data : ByteArray) (mask ixStart : Nat) (chunkId : Nat) (st : AdvSt) :
    Option AdvSt :=
  let ix := ixStart + chunkId * 4
  let i := ix &&& mask
  if mask - i < 3 then
    forRange (fun k st => straddleStep P data mask (ix + k) st) 0 4 st
  else
    match win data i 7 with          -- `data[i] … data[i + 6]`
    | none => none
    | some w7 => quad P w7 ix st

/-- `fn StoreRangeOptBatch(..) -> usize` -/
def storeRangeOptBatch (P : AdvP) (data : ByteArray) (mask ixStart ixEnd : Nat) (st : AdvSt) :
    Option (AdvSt × Nat) :=
  if ixEnd ≥ ixStart + P.lookahead * 2 ∧ P.lookahead = 4 then
    let chunkCount := (ixEnd - ixStart) / 4
    match onTables P st (forRange (chunk P data mask ixStart) 0 chunkCount) with
    | none => none
    | some st => some (st, ixStart + chunkCount * 4)
  else some (st, ixStart)

/-- one `chunk_id` of `BulkStoreRangeOptMemFetch`: 35 bytes copied to `data64`, 8 quads -/
def memFetchChunk (P : AdvP) (data : ByteArray) (ixStart : Nat) (chunkId : Nat) (st : AdvSt) :
    Option AdvSt :=
  let ixOffset := ixStart + chunkId * 32
  match win data ixOffset 35 with    -- `data.split_at(ix_offset).1.split_at(REG_SIZE + 3).0`
  | none => none
  | some d64 =>
    forRange (fun quadIndex st =>
      let i := quadIndex <<< 2
      quad P ((d64.drop i).take 7) (ixOffset + i) st) 0 8 st

/-- `fn BulkStoreRangeOptMemFetch(..) -> usize` -/
def bulkStoreRangeOptMemFetch (P : AdvP) (data : ByteArray) (mask ixStart ixEnd : Nat)
    (st : AdvSt) : Option (AdvSt × Nat) :=
  if mask = USIZE_MAX ∧ ixEnd > ixStart + 32 ∧ P.lookahead = 4 then
    let del := (ixEnd - ixStart) / 32
    match onTables P st (forRange (memFetchChunk P data ixStart) 0 del) with
    | none => none
    | some st => some (st, ixStart + del * 32)
  else some (st, ixStart)

/-- `fn StoreRange` -/
def storeRange (P : AdvP) (data : ByteArray) (mask ixStart ixEnd : Nat) (st : AdvSt) :
    Option AdvSt :=
  match storeRangeOptBatch P data mask ixStart ixEnd st with
  | none => none
  | some (st, from_) => forRange (store P data mask) from_ (ixEnd - from_) st

/-- `fn BulkStoreRange` -/
def bulkStoreRange (P : AdvP) (data : ByteArray) (mask ixStart ixEnd : Nat) (st : AdvSt) :
    Option AdvSt :=
  match bulkStoreRangeOptMemFetch P data mask ixStart ixEnd st with
  | none => none
  | some (st, from_) => forRange (store P data mask) from_ (ixEnd - from_) st

end Adv

/-! ## H9 -/

/-- `H9::HashBytes` as a function of the 4 bytes it loads -/
structure H9P where
  hash : List Nat → Nat

namespace H9

def BLOCK_BITS : Nat := 8
def BLOCK_MASK : Nat := 255

/-- `fn Store` of `H9` -/
def store (P : H9P) (data : ByteArray) (mask ix : Nat) (st : AdvSt) : Option AdvSt :=
  match st with
  | ⟨num, buckets⟩ =>
  match win data (ix &&& mask) 4 with
  | none => none
  | some w =>
    let key := P.hash w % U32
    match rd num key with
    | none => none
    | some n =>
      let minor := n &&& BLOCK_MASK
      match wr buckets (minor + (key <<< BLOCK_BITS)) (ix % U32) with
      | none => none
      | some buckets =>
        match wr num key ((n + 1) % U16) with
        | none => none
        | some num => some ⟨num, buckets⟩

/-- `fn StoreRange`: `for i in ix_start..ix_end { self.Store(data, mask, i) }` -/
def storeRange (P : H9P) (data : ByteArray) (mask ixStart ixEnd : Nat) (st : AdvSt) :
    Option AdvSt :=
  forRange (store P data mask) ixStart (ixEnd - ixStart) st

/-- `fn BulkStoreRange`: the same loop, written out a second time in the Rust -/
def bulkStoreRange (P : H9P) (data : ByteArray) (mask ixStart ixEnd : Nat) (st : AdvSt) :
    Option AdvSt :=
  forRange (store P data mask) ixStart (ixEnd - ixStart) st

end H9

/-! ## H10 (binary tree): `Store` is opaque -/

namespace H10

/-- `fn BulkStoreRange`: `for i in ix_start..ix_end { self.Store(data, mask, i) }` -/
def bulkStoreRange {σ : Type} (store : Nat → σ → Option σ) (ixStart ixEnd : Nat) (st : σ) :
    Option σ :=
  forRange store ixStart (ixEnd - ixStart) st

/-- `while j < i { Store(j); j += 8 }` (fuel = an upper bound of the iteration count) -/
def thinLoop {σ : Type} (store : Nat → σ → Option σ) (i : Nat) : Nat → Nat → σ → Option σ
  | 0, _, st => some st
  | fuel + 1, j, st =>
    if j < i then
      match store j st with
      | none => none
      | some st => thinLoop store i fuel (j + 8) st
    else some st

/-- `fn StoreRange` of H10: every 8th position of a long range, then the last 63 densely -/
def storeRange {σ : Type} (store : Nat → σ → Option σ) (ixStart ixEnd : Nat) (st : σ) :
    Option σ :=
  let i := if ixStart + 63 ≤ ixEnd then ixEnd - 63 else ixStart
  let thinned := if ixStart + 512 ≤ i then thinLoop store i (i - ixStart) ixStart st else some st
  match thinned with
  | none => none
  | some st => forRange store i (ixEnd - i) st

end H10

/-! ## generic callers -/

/-- `StoreLookaheadThenStore(hasher, size, dict)`: `BulkStoreRange(dict, usize::MAX, 0, size - overlap)` -/
def storeLookaheadThenStore {σ : Type} (bulk : Nat → Nat → Nat → σ → Option σ) (lookahead size : Nat)
    (st : σ) : Option σ :=
  -- `StoreLookahead().wrapping_sub(1)`: lookahead ≥ 1 for every kind
  let overlap := lookahead - 1
  if size > overlap then bulk USIZE_MAX 0 (size - overlap) st else some st

/-- `StitchToPreviousBlockInternal` -/
def stitchToPreviousBlock {σ : Type} (store : Nat → Nat → σ → Option σ) (hashTypeLength numBytes
    position mask : Nat) (st : σ) : Option σ :=
  if numBytes ≥ hashTypeLength - 1 ∧ position ≥ 3 then
    match store mask (position - 3) st with
    | none => none
    | some st =>
      match store mask (position - 2) st with
      | none => none
      | some st => store mask (position - 1) st
  else some st

/-! ## `clone_with_alloc` and `PartialEq` -/

/-- `allocate::<T>(m, src.len())` then `dst.clone_from_slice(src)` (panics on a length mismatch) -/
def cloneTab (src : Tab) : Option Tab :=
  let dst : Tab := Array.replicate src.size 0
  if dst.size = src.size then
    some (Array.ofFn fun (i : Fin dst.size) => src.getD i.val 0)
  else none

/-- `BasicHasher::clone_with_alloc` (table part) -/
def Basic.clone (b : Tab) : Option Tab := cloneTab b

/-- `AdvHasher::clone_with_alloc`, `H9::clone_with_alloc` (table part) -/
def Adv.clone (st : AdvSt) : Option AdvSt :=
  match cloneTab st.num with
  | none => none
  | some num =>
    match cloneTab st.buckets with
    | none => none
    | some buckets => some ⟨num, buckets⟩

/-- slice equality of `PartialEq for BasicHasher` -/
def Basic.eq (a b : Tab) : Bool := a == b

/-- `PartialEq for AdvHasher` / `H9`: `num.slice() == other.num.slice() && buckets.slice() == …` -/
def Adv.eq (a b : AdvSt) : Bool := a.num == b.num && a.buckets == b.buckets

/-! ## the concrete hash functions of the ten kinds -/

def kHashMul32 : Nat := 0x1e35a7bd
def kHashMul64 : Nat := 0x1e35a7bd1e35a7bd
def kHashMul64Long : Nat := 0x1fe35a7bd3579bd3
def U64 : Nat := 18446744073709551616

/-- `H2Sub/H3Sub/H4Sub/H54Sub::HashBytes`:
`((LOAD64(data) << (64 - 8*hashLen)).wrapping_mul(kHashMul64)) >> (64 - bucketBits)` -/
def basicHash (hashLen bucketBits : Nat) (w : List Nat) : Nat :=
  ((le w <<< (64 - 8 * hashLen)) % U64 * kHashMul64 % U64) >>> (64 - bucketBits)

def basicP (bucketBits sweep hashLen : Nat) : BasicP :=
  { sweep := sweep, hash := basicHash hashLen bucketBits }

def H2 : BasicP := basicP 16 1 5
def H3 : BasicP := basicP 16 2 5
def H4 : BasicP := basicP 17 4 5
def H54 : BasicP := basicP 20 4 7

/-- `H5Sub` / `HQ5Sub` / `HQ7Sub`: `(LOAD32(data) as u64 * kHashMul32) & 0xffff_ffff`,
`hash_shift = 32 - bucket_bits` -/
def adv32P (bucketBits blockBits : Nat) : AdvP :=
  { lookahead := 4
    mixWord := fun w => (le w * kHashMul32) &&& 0xffffffff
    kHashMul := kHashMul32, hashMask := 0xffffffff, shift := 32 - bucketBits
    bucketSize := 1 <<< bucketBits, blockBits := blockBits, blockMask := (1 <<< blockBits) - 1 }

/-- `H6Sub`: `(LOAD64(data) & hash_mask).wrapping_mul(kHashMul64Long)`, `hash_shift = 64 - bucket_bits`,
`hash_mask = u64::MAX >> (64 - 8*hash_len)` -/
def adv64P (bucketBits blockBits hashLen : Nat) : AdvP :=
  { lookahead := 8
    mixWord := fun w => (le w &&& ((1 <<< (8 * hashLen)) - 1)) * kHashMul64Long % U64
    kHashMul := kHashMul64Long, hashMask := (1 <<< (8 * hashLen)) - 1, shift := 64 - bucketBits
    bucketSize := 1 <<< bucketBits, blockBits := blockBits, blockMask := (1 <<< blockBits) - 1 }

def H5q5 : AdvP := adv32P 14 4
def H5q7 : AdvP := adv32P 15 6

/-- `H9::HashBytes`: `LOAD32(data).wrapping_mul(kHashMul32) >> (32 - 15)` -/
def H9std : H9P := { hash := fun w => (le w * kHashMul32 % U32) >>> 17 }

end BV.Hasher
