/-
M10a `FixedQueue` — executable model of `src/enc/fixed_queue.rs` (whole file).

`data : [Option<T>; MAX_THREADS]` is a `Vector (Option α) MAX_THREADS`
(`MAX_THREADS` comes from the generated `BV.Gen.Source`); every Rust index is
of the form `x % self.data.len()`, modelled by `slot x : Fin MAX_THREADS`, so no
index can be out of range.  `size`/`start` are `Nat`: `start` only ever grows
(`+= 1` in `pop`/`remove`) and is treated as unbounded (a `usize` cannot
overflow in fewer than 2^64 pops).  `self.size -= 1` is guarded in the Rust code
by the `size == 0` early return, so it cannot underflow.

`&mut self` methods return the new queue.  `Option::take` returns the slot and
writes `None`.  The only panic site of the file is `assert!(is_none.is_none())`
in `remove`; it is an explicit `none` outcome of `remove`.
-/
import BV.Gen.Source

namespace BV.FixedQueue
open BV.Gen

theorem max_threads_pos : 0 < MAX_THREADS := by decide

/-- `x % self.data.len()` as an in-range index -/
def slot (x : Nat) : Fin MAX_THREADS := ⟨x % MAX_THREADS, Nat.mod_lt _ max_threads_pos⟩

structure FixedQueue (α : Type) where
  data : Vector (Option α) MAX_THREADS
  size : Nat
  start : Nat
deriving DecidableEq, Repr

variable {α : Type}

/-- `FixedQueue::new` / `default` -/
def new : FixedQueue α := ⟨Vector.replicate MAX_THREADS none, 0, 0⟩

/-- `self.data[i]` -/
def FixedQueue.at (q : FixedQueue α) (i : Fin MAX_THREADS) : Option α := q.data[i.val]'i.isLt

/-- `self.data[i] = v` -/
def FixedQueue.put (q : FixedQueue α) (i : Fin MAX_THREADS) (v : Option α) : FixedQueue α :=
  { q with data := q.data.set i.val v i.isLt }

/-- `can_push` -/
def FixedQueue.canPush (q : FixedQueue α) : Bool := q.size < MAX_THREADS

/-- `how_much_free_space` (`data.len() - size`; never underflows when `size ≤ MAX_THREADS`) -/
def FixedQueue.howMuchFreeSpace (q : FixedQueue α) : Nat := MAX_THREADS - q.size

/-- `push`: `none` is `Err(())` (queue full), `some q'` is `Ok(())` -/
def FixedQueue.push (q : FixedQueue α) (item : α) : Option (FixedQueue α) :=
  if q.size = MAX_THREADS then none
  else
    let index := slot (q.start + q.size)
    some { q.put index (some item) with size := q.size + 1 }

/-- `pop`: returned value (whatever the head slot holds — `take()`) and the new queue -/
def FixedQueue.pop (q : FixedQueue α) : Option α × FixedQueue α :=
  if q.size = 0 then (none, q)
  else
    let index := slot q.start
    let ret := q.at index
    (ret, { q.put index none with start := q.start + 1, size := q.size - 1 })

/-- body of the `if f(..)` branch of `remove` for loop index `index`;
`none` = the `assert!(is_none.is_none())` fired -/
def FixedQueue.removeAt (q : FixedQueue α) (index : Nat) : Option (Option α × FixedQueue α) :=
  let startIndex := slot q.start
  let targetIndex := slot (q.start + index)
  let ret := q.at targetIndex                 -- self.data[target_index].take()
  let q1 := q.put targetIndex none
  let replace := q1.at startIndex             -- self.data[start_index].take()
  let q2 := q1.put startIndex none
  let isNone := q2.at targetIndex             -- mem::replace(&mut self.data[target_index], replace)
  let q3 := q2.put targetIndex replace
  if isNone.isSome then none                  -- assert!(is_none.is_none())
  else some (ret, { q3 with start := q.start + 1, size := q.size - 1 })

/-- `for index in 0..self.size` of `remove`, as a loop over the `fuel` remaining indices -/
def FixedQueue.removeLoop (q : FixedQueue α) (f : Option α → Bool) :
    (fuel index : Nat) → Option (Option α × FixedQueue α)
  | 0, _ => some (none, q)
  | fuel + 1, index =>
    if f (q.at (slot (q.start + index))) then q.removeAt index
    else q.removeLoop f fuel (index + 1)

/-- `remove(f)`: outer `none` = assertion panic; inner value = what `remove` returned -/
def FixedQueue.remove (q : FixedQueue α) (f : Option α → Bool) : Option (Option α × FixedQueue α) :=
  if q.size = 0 then some (none, q) else q.removeLoop f q.size 0

/-! ### abstraction -/

/-- the stored items in queue order (head first): slots `start, start+1, … start+size-1` -/
def FixedQueue.items (q : FixedQueue α) : List α :=
  (List.range q.size).filterMap fun i => q.at (slot (q.start + i))

end BV.FixedQueue
