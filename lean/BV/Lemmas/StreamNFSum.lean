import BV.Lemmas.StreamNFStep
import BV.Lemmas.StreamNFFull
/-
C08, run level: the never-flushed quality ≥ 2 stream as a PHASED simulation (second instance of `Sim`).

Phases: `fresh` (only `set_parameter` so far), `junk` (initialised at quality 0/1: nothing claimed),
`start W` (initialised, nothing encoded yet: the emitted bits are the `W` window bits, the carry),
`mid` (after a non-final `encode_data`), `done` (after the final one).  Transitions: the first
`encode_data` event writes exactly `headLen W magic kk pre` bits including the carry (`kk ≤ 5` size-hint
bytes, `pre ≤ 2` prelude bytes) and starts at `last_flush_pos_ = 0`; later ones write no skeleton; the
final one emits its meta-block; nothing but pushes and bookkeeping follows it; no sync block, one-shot
block, metadata event or second header occurs.
-/
namespace BV.Stream
open BV.Bits

inductive NFPh where
  | fresh | junk | start (W : Nat) | mid | done
deriving DecidableEq

/-- events that carry no bits and need no constraint -/
def EvQuiet : Ev → Prop
  | .copy _ => True
  | .push => True
  | .tau _ => True
  | _ => False

def nextPh (isLast : Bool) : NFPh := if isLast then .done else .mid

def nfT (a : NFPh) (e : Ev) (b : NFPh) : Prop :=
  match a with
  | .fresh => ∃ w, e = .window w ∧ (b = .junk ∨ (b = .start w.length ∧ 1 ≤ w.length ∧ w.length ≤ 14))
  | .junk => b = .junk
  | .start W =>
    match e with
    | .enc _ req pre skel taken =>
      req.lf = 0 ∧ pre ≤ 2 ∧ (∃ magic kk, kk ≤ 5 ∧ W + skel.length = BV.Header.headLen W magic kk pre)
      ∧ (req.isLast = true → taken = true) ∧ b = nextPh req.isLast
    | e => b = .start W ∧ EvQuiet e
  | .mid =>
    match e with
    | .enc _ req pre skel taken => pre = 0 ∧ skel = [] ∧ (req.isLast = true → taken = true) ∧ b = nextPh req.isLast
    | e => b = .mid ∧ EvQuiet e
  | .done =>
    match e with
    | .push => b = .done
    | .tau _ => b = .done
    | _ => False

structure NFBase (s : St) : Prop where
  init : s.isInitialized = true
  q : s.q01 = false
  hint : s.params.sizeHint < 2 ^ 35
  blkLo : 2 ^ 14 ≤ s.blockSize
  blkHi : s.blockSize ≤ 2 ^ 24

def nfR : NFPh → St → Prop
  | .fresh, s => IsFresh s ∧ s.params.sizeHint < 2 ^ 35
  | .junk, s => s.isInitialized = true ∧ s.q01 = true
  | .start W, s => NFBase s ∧ s.isFirstMb = .nothing ∧ s.streamState = .processing ∧ s.lastFlushPos = 0 ∧ s.lastBytesBits = W
  | .mid, s => NFBase s ∧ s.isFirstMb = .bothCatable ∧ s.streamState = .processing
  | .done, s => NFBase s ∧ s.streamState = .finished

theorem nfBase_of_params {s s' : St} (hp : s'.params = s.params) (hi : s'.isInitialized = true) (h : NFBase s) : NFBase s' := by
  refine ⟨hi, ?_, by rw [hp]; exact h.hint, ?_, ?_⟩
  · have := h.q; unfold St.q01 at this ⊢; rw [hp]; exact this
  · have := h.blkLo; unfold St.blockSize at this ⊢; rw [hp]; exact this
  · have := h.blkHi; unfold St.blockSize at this ⊢; rw [hp]; exact this

theorem sizeHint_updateSizeHint (s : St) (n : Nat) (h : s.params.sizeHint < 2 ^ 35) :
    (updateSizeHint s n).params.sizeHint < 2 ^ 35 := by
  unfold updateSizeHint
  split
  · simp only [sizeHintTotal]
    split
    · decide
    · rename_i hc
      have : ¬ (s.unprocessed + n) % two64 ≥ 1073741824 := fun hh => hc (Or.inr (Or.inr hh))
      have h1 : ¬ s.unprocessed ≥ 1073741824 := fun hh => hc (Or.inl hh)
      have h2 : ¬ n ≥ 1073741824 := fun hh => hc (Or.inr (Or.inl hh))
      omega
  · exact h

theorem nfBase_updateSizeHint {s : St} (n : Nat) (h : NFBase s) : NFBase (updateSizeHint s n) := by
  obtain ⟨u1, u2, _, _, _, _, _, u8, _⟩ := updateSizeHint_fields s n
  refine ⟨u8.trans h.init, (q01_congr u2).trans h.q, sizeHint_updateSizeHint s n h.hint, ?_, ?_⟩
  · rw [blockSize_congr u1]; exact h.blkLo
  · rw [blockSize_congr u1]; exact h.blkHi

theorem isFirstMb_updateSizeHint (s : St) (n : Nat) : (updateSizeHint s n).isFirstMb = s.isFirstMb := by
  unfold updateSizeHint; split <;> rfl

theorem isFirstMb_markAfterEncode (s : St) (a b : Bool) : (markAfterEncode s a b).isFirstMb = s.isFirstMb := by
  unfold markAfterEncode; cases a <;> cases b <;> rfl

theorem checkFlushComplete_id {s : St} (h : s.streamState ≠ .flushRequested) : checkFlushComplete s = s := by
  unfold checkFlushComplete
  rw [if_neg (fun hh => h hh.1)]

/-- a push (not a sync block) leaves the carry alone -/
theorem push_lbb {s s' : St} {io io' : Io} {b : Bool} (hc : ¬ PadDue s)
    (h : injectFlushOrPushOutput s io = .ok (s', io', b)) : s'.lastBytesBits = s.lastBytesBits := by
  unfold injectFlushOrPushOutput at h
  have hc' : ¬ (s.streamState = .flushRequested ∧ s.lastBytesBits ≠ 0) := hc
  rw [if_neg hc'] at h
  simp only at h
  split_all h
  all_goals first
    | (simp at h; done)
    | (simp only [Out.ok.injEq, Prod.mk.injEq] at h; obtain ⟨rfl, _⟩ := h; rfl)

/-- the block size after initialisation at quality ≥ 2 is at most 2^24 -/
theorem blockSize_le_init (s : St) (hni : s.isInitialized = false)
    (hq : ¬ ((ensureInitialized s).params.quality = 0 ∨ (ensureInitialized s).params.quality = 1)) :
    (ensureInitialized s).blockSize ≤ 2 ^ 24 := by
  simp only [ensureInitialized, hni, Bool.false_eq_true, if_false] at hq ⊢
  simp only [St.blockSize]
  have hl : (computeLgBlock (sanitize s.params)) ≤ 24 := by
    simp only [computeLgBlock] at hq ⊢
    split
    · rename_i h; exact absurd h hq
    · split
      · omega
      · split
        · split <;> omega
        · omega
  have : (computeLgBlock (sanitize s.params)).toNat ≤ 24 := by omega
  exact Nat.pow_le_pow_right (by decide) this

theorem encodeWindowBits_range (lg : Int) (large : Bool) :
    1 ≤ (encodeWindowBits lg large).2 ∧ (encodeWindowBits lg large).2 ≤ 14 := by
  unfold encodeWindowBits
  split
  · simp
  · split
    · simp
    · split
      · simp
      · split <;> simp

/-- what `ensure_initialized` leaves on a fresh encoder -/
theorem init_fields {s : St} (hf : IsFresh s) :
    (ensureInitialized s).params.sizeHint = s.params.sizeHint ∧ (ensureInitialized s).isFirstMb = .nothing
    ∧ (ensureInitialized s).streamState = .processing ∧ (ensureInitialized s).lastFlushPos = 0
    ∧ 1 ≤ (ensureInitialized s).lastBytesBits ∧ (ensureInitialized s).lastBytesBits ≤ 14 := by
  obtain ⟨p, rfl⟩ := hf
  simp only [ensureInitialized, St.new, Bool.false_eq_true, ↓reduceIte, sanitize]
  exact ⟨trivial, trivial, trivial, trivial, encodeWindowBits_range _ _⟩

/-- a final invocation at quality ≥ 2 emits its meta-block -/
theorem enc_taken_last {o : Oracle} {s s' : St} {site : Nat} {ff : Bool} {req : Req}
    (h : encodeData o s site true ff = .ok (s', true, req)) (hq : s.q01 = false) (ans : Ans) :
    encTakes (encMid s true).1 ans true ff = true := by
  obtain ⟨_, _, hdr, hM, _⟩ := encodeData_spec h
  have hf := hM.frame
  rw [St.frame_eq_iff] at hf
  unfold encTakes
  have hnq : ¬ ((encMid s true).1.params.quality = 0 ∨ (encMid s true).1.params.quality = 1) := by
    rw [hf.1]
    intro hc
    unfold St.q01 at hq
    simp [hc] at hq
  rw [if_neg hnq]
  simp

/-- a non-final invocation of the main loop (PROCESS / FINISH) has at least two bytes to encode -/
theorem nonfinal_two_bytes {s : St} {io : Io} {op : Nat} (hI : Inv s) (hB : NFBase s) (hop : op = 0 ∨ op = 2)
    (hnc : ¬ (remainingInputBlockSize s ≠ 0 ∧ io.availIn ≠ 0)) (hgo : remainingInputBlockSize s = 0 ∨ op ≠ 0)
    (hil : slowIl op io = false) : 2 ≤ (updateSizeHint s io.availIn).unprocessed % two32 := by
  obtain ⟨_, _, _, _, _, u6, _, _, _, _, u11, _⟩ := updateSizeHint_fields s io.availIn
  have hun : (updateSizeHint s io.availIn).unprocessed = s.unprocessed := by
    unfold St.unprocessed; rw [u6, u11]
  rw [hun]
  have hnl : ¬ (io.availIn = 0 ∧ op = 2) := by
    have hil' : decide (io.availIn = 0 ∧ op = 2) = false := hil
    simpa using hil'
  have hrbs : remainingInputBlockSize s = 0 := by
    by_cases hr : remainingInputBlockSize s = 0
    · exact hr
    · exfalso
      rcases hgo with h0 | h0
      · exact hr h0
      · have h2 : op = 2 := by rcases hop with hh | hh; exact absurd hh h0; exact hh
        have hav : io.availIn ≠ 0 := fun hz => hnl ⟨hz, h2⟩
        exact hnc ⟨hr, hav⟩
  have hu : s.unprocessed = s.inputPos - s.lastProcessedPos := wsub64_eq hI.lp_le hI.ip_lt
  have hge : s.blockSize ≤ s.unprocessed := by
    simp only [remainingInputBlockSize] at hrbs
    split at hrbs
    · assumption
    · have hbpos : 0 < s.blockSize := Nat.pow_pos (by decide)
      omega
  have hle := hI.blk
  have h1 := hB.blkLo
  have h2 := hB.blkHi
  have : s.unprocessed % two32 = s.unprocessed := Nat.mod_eq_of_lt (by unfold two32; omega)
  rw [this]
  omega

/-- the state after a successful main-loop `encode_data` of a PROCESS / FINISH call -/
theorem after_enc {o : Oracle} {s s2 : St} {io : Io} {op : Nat} {req : Req} (hB : NFBase s) (hop : op = 0 ∨ op = 2)
    (hst : s.streamState = .processing)
    (h : encodeData o (updateSizeHint s io.availIn) 0 (slowIl op io) (slowFf op io) = .ok (s2, true, req))
    (hi' : (markAfterEncode s2 (slowIl op io) (slowFf op io)).isInitialized = true) :
    NFBase (markAfterEncode s2 (slowIl op io) (slowFf op io))
    ∧ (markAfterEncode s2 (slowIl op io) (slowFf op io)).isFirstMb = s2.isFirstMb
    ∧ (markAfterEncode s2 (slowIl op io) (slowFf op io)).streamState = (if slowIl op io then .finished else .processing) := by
  obtain ⟨f, _⟩ := encodeData_frame h
  rw [St.frame_eq_iff] at f
  obtain ⟨k1, _, _, _, _, _, _, _, _, k10⟩ := markAfterEncode_fields s2 (slowIl op io) (slowFf op io)
  obtain ⟨_, _, _, _, _, _, _, _, u9, _⟩ := updateSizeHint_fields s io.availIn
  have hff : slowFf op io = false := by
    rcases hop with h0 | h0 <;> simp [slowFf, h0]
  refine ⟨nfBase_of_params (k1.trans f.1) hi' (nfBase_updateSizeHint io.availIn hB), isFirstMb_markAfterEncode _ _ _, ?_⟩
  rw [k10, hff, f.2.2.2.1, u9, hst]
  simp

/-- the event of a successful main-loop `encode_data` from the `start` phase -/
theorem enc_event_start {o : Oracle} {s s2 : St} {io : Io} {op : Nat} {req : Req} {W : Nat} (hB : NFBase s)
    (hfm : s.isFirstMb = .nothing) (hlf : s.lastFlushPos = 0) (hW : s.lastBytesBits = W)
    (h : encodeData o (updateSizeHint s io.availIn) 0 (slowIl op io) (slowFf op io) = .ok (s2, true, req)) :
    nfT (.start W) (encEv o (updateSizeHint s io.availIn) 0 (slowIl op io) (slowFf op io)) (nextPh (slowIl op io))
    ∧ (2 ≤ (updateSizeHint s io.availIn).unprocessed % two32 → s2.isFirstMb = .bothCatable) := by
  obtain ⟨_, _, _, _, _, _, _, _, _, u10, _, _, _, u14, _⟩ := updateSizeHint_fields s io.availIn
  have hBu := nfBase_updateSizeHint io.availIn hB
  have hfmu : (updateSizeHint s io.availIn).isFirstMb = .nothing := (isFirstMb_updateSizeHint _ _).trans hfm
  obtain ⟨kk, pre, hk, hp2, hlfm, hlen, hboth⟩ := encMid_first h hfmu hBu.hint
  obtain ⟨_, _, hdr, hM, _⟩ := encodeData_spec h
  have hsk := congrArg List.length hM.skel
  rw [List.length_append] at hsk
  have hcl : (updateSizeHint s io.availIn).carry.length = W := by
    unfold St.carry; rw [bitsOf_length, u14, hW]
  rw [u14, hW] at hlen
  rw [hcl, hlen] at hsk
  refine ⟨?_, hboth⟩
  unfold encEv
  show (reqOf (updateSizeHint s io.availIn) 0 (slowIl op io) (slowFf op io)).lf = 0 ∧ _ ∧ _ ∧ _ ∧ _
  refine ⟨by show (updateSizeHint s io.availIn).lastFlushPos = 0; rw [u10, hlf], ?_, ⟨(updateSizeHint s io.availIn).params.magic, kk, hk, ?_⟩, ?_, rfl⟩
  · rw [hlfm]; omega
  · rw [hlfm, Nat.add_sub_cancel_left, hcl]
    exact hsk.symm
  · intro hl
    have hl' : slowIl op io = true := hl
    have hh : encodeData o (updateSizeHint s io.availIn) 0 true (slowFf op io) = .ok (s2, true, req) := by
      have h0 := h
      rw [hl'] at h0
      exact h0
    have := enc_taken_last hh hBu.q (o (updateSizeHint s io.availIn).nEnc (reqOf (updateSizeHint s io.availIn) 0 true (slowFf op io)))
    rw [hl']
    exact this

/-- the event of a successful main-loop `encode_data` from the `mid` phase -/
theorem enc_event_mid {o : Oracle} {s s2 : St} {io : Io} {op : Nat} {req : Req} (hB : NFBase s)
    (hfm : s.isFirstMb = .bothCatable)
    (h : encodeData o (updateSizeHint s io.availIn) 0 (slowIl op io) (slowFf op io) = .ok (s2, true, req)) :
    nfT .mid (encEv o (updateSizeHint s io.availIn) 0 (slowIl op io) (slowFf op io)) (nextPh (slowIl op io))
    ∧ s2.isFirstMb = .bothCatable := by
  have hBu := nfBase_updateSizeHint io.availIn hB
  have hfmu : (updateSizeHint s io.availIn).isFirstMb = .bothCatable := (isFirstMb_updateSizeHint _ _).trans hfm
  obtain ⟨m1, m2, m3⟩ := encMid_both h hfmu
  refine ⟨?_, m3⟩
  unfold encEv
  show _ - _ = 0 ∧ _ = [] ∧ _ ∧ _
  refine ⟨by rw [m1]; exact Nat.sub_self _, by rw [m2]; exact List.drop_length, ?_, rfl⟩
  intro hl
  have hl' : slowIl op io = true := hl
  have hh : encodeData o (updateSizeHint s io.availIn) 0 true (slowFf op io) = .ok (s2, true, req) := by
      have h0 := h
      rw [hl'] at h0
      exact h0
  have := enc_taken_last hh hBu.q (o (updateSizeHint s io.availIn).nEnc (reqOf (updateSizeHint s io.availIn) 0 true (slowFf op io)))
  rw [hl']
  exact this

set_option maxRecDepth 4000 in
theorem nf_step {o : Oracle} {op : Nat} {s s' : St} {io io' : Io} {e : Ev} {a : NFPh} (hop : op = 0 ∨ op = 2)
    (ha : nfR a s) (h : Step o op (s, io) e (s', io')) : ∃ a', nfR a' s' ∧ nfT a e a' := by
  obtain ⟨hi', _⟩ := step_initialized h
  have hop3 : op ≠ 3 := by omega
  cases a with
  | junk =>
    obtain ⟨hi, hq⟩ := ha
    exact ⟨.junk, ⟨hi', (q01_congr (step_quality h hi)).trans hq⟩, rfl⟩
  | fresh =>
    obtain ⟨hf, hh⟩ := ha
    have hni := isFreshInit hf
    cases h with
    | init hf' =>
      obtain ⟨i1, i2, i3, i4, i5, i6⟩ := init_fields hf
      have hcl : (ensureInitialized s).carry.length = (ensureInitialized s).lastBytesBits := by
        unfold St.carry; exact bitsOf_length _ _
      cases hq : (ensureInitialized s).q01 with
      | true => exact ⟨.junk, ⟨hi', hq⟩, _, rfl, Or.inl rfl⟩
      | false =>
        have hnq : ¬ ((ensureInitialized s).params.quality = 0 ∨ (ensureInitialized s).params.quality = 1) := by
          intro hc
          unfold St.q01 at hq
          simp [hc] at hq
        exact ⟨.start (ensureInitialized s).carry.length,
          ⟨⟨hi', hq, by rw [i1]; exact hh, BV.StreamBlocks.blockSize_ge s hni hnq, blockSize_le_init s hni hnq⟩, i2, i3, i4, hcl.symm⟩,
          _, rfl, Or.inr ⟨rfl, by rw [hcl]; exact i5, by rw [hcl]; exact i6⟩⟩
    | copy hI hw hop hnf hst hrm hc hn h => rw [hI.init] at hni; cases hni
    | pad hI hc hz h => rw [hI.init] at hni; cases hni
    | push hI hc h => rw [hI.init] at hni; cases hni
    | encSlow hI hop hnf hrm hnc hnp hpend hst hgo h => rw [hI.init] at hni; cases hni
    | cfc hI hop hrm hnp hfl => rw [hI.init] at hni; cases hni
    | fastFlush hI hfm hrm hnp hpend hst hop1 hz => rw [hI.init] at hni; cases hni
    | fastBlock hI hfm hop hrm hnp hpend hst hgo hnf hcap hin hfit => rw [hI.init] at hni; cases hni
    | mdEnter hI hop hentry => rw [hI.init] at hni; cases hni
    | mdEnc hM hop hpend hne h => rw [hM.inv.init] at hni; cases hni
    | mdHead hM hop hpend hlf hst hok => rw [hM.inv.init] at hni; cases hni
    | mdDone hM hop hpend hlf hst hz => rw [hM.inv.init] at hni; cases hni
    | mdOut hM hop hpend hlf hst hnz hao hle => rw [hM.inv.init] at hni; cases hni
    | mdTiny hM hop hpend hlf hst hnz hao hle => rw [hM.inv.init] at hni; cases hni
  | start W =>
    obtain ⟨hB, hfm, hst0, hlf0, hW⟩ := ha
    have hnfl : s.streamState ≠ .flushRequested := by rw [hst0]; simp
    cases h with
    | init hf => have := hB.init; rw [isFreshInit hf] at this; cases this
    | copy hI hw hop' hnf hst hrm hc hn h =>
      obtain ⟨c1, _, _, _, c5, c6, _, _, _, _, c11, _, _, _, c15, _⟩ := copy_fields hI.init h
      exact ⟨.start W, ⟨nfBase_of_params c1 hi' hB, c15.trans hfm, c5.trans hst0, c6.trans hlf0, c11.trans hW⟩, rfl, trivial⟩
    | pad hI hc hz h => exact absurd hc.1 hnfl
    | push hI hc h =>
      obtain ⟨f, a2, _, _, _, a6, _⟩ := push_frame h
      rw [St.frame_eq_iff] at f
      exact ⟨.start W, ⟨nfBase_of_params f.1 hi' hB, a6.trans hfm, f.2.2.2.1.trans hst0, a2.trans hlf0, (push_lbb hc h).trans hW⟩, rfl, trivial⟩
    | cfc hI hop' hrm hnp hfl =>
      rw [checkFlushComplete_id hnfl]
      exact ⟨.start W, ⟨hB, hfm, hst0, hlf0, hW⟩, rfl, trivial⟩
    | fastFlush hI hfm' hrm hnp hpend hst hop1 hz => have := hB.q; rw [q01_of_fastMode hfm'] at this; cases this
    | fastBlock hI hfm' hop' hrm hnp hpend hst hgo hnf hcap hin hfit => have := hB.q; rw [q01_of_fastMode hfm'] at this; cases this
    | mdEnter hI hop' hentry => exact absurd hop' hop3
    | mdEnc hM hop' hpend hne h => exact absurd hop' hop3
    | mdHead hM hop' hpend hlf hst hok => exact absurd hop' hop3
    | mdDone hM hop' hpend hlf hst hz => exact absurd hop' hop3
    | mdOut hM hop' hpend hlf hst hnz hao hle => exact absurd hop' hop3
    | mdTiny hM hop' hpend hlf hst hnz hao hle => exact absurd hop' hop3
    | encSlow hI hop' hnf hrm hnc hnp hpend hst hgo h =>
      rename_i s2 req
      obtain ⟨ev, hboth⟩ := enc_event_start hB hfm hlf0 hW h
      obtain ⟨b1, b2, b3⟩ := after_enc hB hop hst0 h hi'
      refine ⟨nextPh (slowIl op io), ?_, ev⟩
      cases hil : slowIl op io with
      | true =>
        rw [hil] at b1 b2 b3
        exact ⟨b1, b3⟩
      | false =>
        rw [hil] at b1 b2 b3
        exact ⟨b1, b2.trans (hboth (nonfinal_two_bytes hI hB hop hnc hgo hil)), b3⟩
  | mid =>
    obtain ⟨hB, hfm, hst0⟩ := ha
    have hnfl : s.streamState ≠ .flushRequested := by rw [hst0]; simp
    cases h with
    | init hf => have := hB.init; rw [isFreshInit hf] at this; cases this
    | copy hI hw hop' hnf hst hrm hc hn h =>
      obtain ⟨c1, _, _, _, c5, _, _, _, _, _, _, _, _, _, c15, _⟩ := copy_fields hI.init h
      exact ⟨.mid, ⟨nfBase_of_params c1 hi' hB, c15.trans hfm, c5.trans hst0⟩, rfl, trivial⟩
    | pad hI hc hz h => exact absurd hc.1 hnfl
    | push hI hc h =>
      obtain ⟨f, _, _, _, _, a6, _⟩ := push_frame h
      rw [St.frame_eq_iff] at f
      exact ⟨.mid, ⟨nfBase_of_params f.1 hi' hB, a6.trans hfm, f.2.2.2.1.trans hst0⟩, rfl, trivial⟩
    | cfc hI hop' hrm hnp hfl =>
      rw [checkFlushComplete_id hnfl]
      exact ⟨.mid, ⟨hB, hfm, hst0⟩, rfl, trivial⟩
    | fastFlush hI hfm' hrm hnp hpend hst hop1 hz => have := hB.q; rw [q01_of_fastMode hfm'] at this; cases this
    | fastBlock hI hfm' hop' hrm hnp hpend hst hgo hnf hcap hin hfit => have := hB.q; rw [q01_of_fastMode hfm'] at this; cases this
    | mdEnter hI hop' hentry => exact absurd hop' hop3
    | mdEnc hM hop' hpend hne h => exact absurd hop' hop3
    | mdHead hM hop' hpend hlf hst hok => exact absurd hop' hop3
    | mdDone hM hop' hpend hlf hst hz => exact absurd hop' hop3
    | mdOut hM hop' hpend hlf hst hnz hao hle => exact absurd hop' hop3
    | mdTiny hM hop' hpend hlf hst hnz hao hle => exact absurd hop' hop3
    | encSlow hI hop' hnf hrm hnc hnp hpend hst hgo h =>
      rename_i s2 req
      obtain ⟨ev, hboth⟩ := enc_event_mid hB hfm h
      obtain ⟨b1, b2, b3⟩ := after_enc hB hop hst0 h hi'
      refine ⟨nextPh (slowIl op io), ?_, ev⟩
      cases hil : slowIl op io with
      | true =>
        rw [hil] at b1 b2 b3
        exact ⟨b1, b3⟩
      | false =>
        rw [hil] at b1 b2 b3
        exact ⟨b1, b2.trans hboth, b3⟩
  | done =>
    obtain ⟨hB, hst0⟩ := ha
    have hnfl : s.streamState ≠ .flushRequested := by rw [hst0]; simp
    have hnp : s.streamState ≠ .processing := by rw [hst0]; simp
    cases h with
    | init hf => have := hB.init; rw [isFreshInit hf] at this; cases this
    | copy hI hw hop' hnf hst hrm hc hn h => exact absurd hst hnp
    | pad hI hc hz h => exact absurd hc.1 hnfl
    | push hI hc h =>
      obtain ⟨f, _⟩ := push_frame h
      rw [St.frame_eq_iff] at f
      exact ⟨.done, ⟨nfBase_of_params f.1 hi' hB, f.2.2.2.1.trans hst0⟩, rfl⟩
    | cfc hI hop' hrm hnp' hfl =>
      rw [checkFlushComplete_id hnfl]
      exact ⟨.done, ⟨hB, hst0⟩, rfl⟩
    | fastFlush hI hfm' hrm hnp' hpend hst hop1 hz => exact absurd hst hnp
    | fastBlock hI hfm' hop' hrm hnp' hpend hst hgo hnf hcap hin hfit => exact absurd hst hnp
    | mdEnter hI hop' hentry => exact absurd hop' hop3
    | mdEnc hM hop' hpend hne h => exact absurd hop' hop3
    | mdHead hM hop' hpend hlf hst hok => exact absurd hop' hop3
    | mdDone hM hop' hpend hlf hst hz => exact absurd hop' hop3
    | mdOut hM hop' hpend hlf hst hnz hao hle => exact absurd hop' hop3
    | mdTiny hM hop' hpend hlf hst hnz hao hle => exact absurd hop' hop3
    | encSlow hI hop' hnf hrm hnc hnp' hpend hst hgo h => exact absurd hst hnp

theorem takeOutput_nfl {s s' : St} {size : Nat} {out : Bytes} (hnfl : s.streamState ≠ .flushRequested)
    (h : takeOutput s size = .ok (s', out)) : s' = s ∨ s' = takeAdvance s (takeCount s size) := by
  unfold takeOutput at h
  split at h
  · simp at h
  · split at h
    · simp only [Out.ok.injEq, Prod.mk.injEq] at h
      obtain ⟨rfl, _⟩ := h
      right
      exact checkFlushComplete_id (s := takeAdvance s (takeCount s size)) hnfl
    · simp only [Out.ok.injEq, Prod.mk.injEq] at h
      obtain ⟨rfl, _⟩ := h
      exact Or.inl rfl

theorem setParameter_sizeHint (s : St) (id v : Nat) (h : s.params.sizeHint < 2 ^ 35) :
    (setParameter s id v).1.params.sizeHint < 2 ^ 35 := by
  unfold setParameter
  split
  · exact h
  · split
    · rename_i p hp
      show p.sizeHint < 2 ^ 35
      unfold setParamRaw at hp
      have hm : v % two32 < 2 ^ 35 := by
        have : v % two32 < two32 := Nat.mod_lt _ (by decide)
        unfold two32 at this ⊢
        omega
      split at hp
      all_goals (try split at hp)
      all_goals first
        | (cases hp; done)
        | (simp only [Option.some.injEq] at hp; subst hp; first | exact h | exact hm)
    · exact h

theorem nf_take {s s' : St} {size : Nat} {out : Bytes} {a : NFPh} (ha : nfR a s)
    (h : takeOutput s size = .ok (s', out)) : nfR a s' := by
  cases a with
  | fresh =>
    obtain ⟨_, hp0, _, hno, _⟩ := isFresh_fields ha.1
    have : takeOutput s size = .ok (s, []) := by
      unfold takeOutput takeSliceOk takeCount
      rw [hno, hp0]
      simp
    rw [this] at h
    simp only [Out.ok.injEq, Prod.mk.injEq] at h
    rw [← h.1]; exact ha
  | junk =>
    obtain ⟨p1, p2⟩ := takeOutput_params h
    exact ⟨p2.trans ha.1, by unfold St.q01; rw [p1]; exact ha.2⟩
  | start W =>
    rcases takeOutput_nfl (by rw [ha.2.2.1]; simp) h with rfl | rfl
    · exact ha
    · exact ⟨nfBase_of_params (s := s) rfl ha.1.init ha.1, ha.2.1, ha.2.2.1, ha.2.2.2.1, ha.2.2.2.2⟩
  | mid =>
    rcases takeOutput_nfl (by rw [ha.2.2]; simp) h with rfl | rfl
    · exact ha
    · exact ⟨nfBase_of_params (s := s) rfl ha.1.init ha.1, ha.2.1, ha.2.2⟩
  | done =>
    rcases takeOutput_nfl (by rw [ha.2]; simp) h with rfl | rfl
    · exact ha
    · exact ⟨nfBase_of_params (s := s) rfl ha.1.init ha.1, ha.2⟩

theorem nf_setp {s : St} {id v : Nat} {a : NFPh} (ha : nfR a s) : nfR a (setParameter s id v).1 := by
  have hini : s.isInitialized = true → setParameter s id v = (s, false) := fun hi => by simp [setParameter, hi]
  cases a with
  | fresh => exact ⟨setParameter_fresh ha.1 id v, setParameter_sizeHint s id v ha.2⟩
  | junk => rw [hini ha.1]; exact ha
  | start W => rw [hini ha.1.init]; exact ha
  | mid => rw [hini ha.1.init]; exact ha
  | done => rw [hini ha.1.init]; exact ha

theorem nf_hint {s : St} {a : NFPh} (ha : nfR a s) : nfR a (updateSizeHint s 0) := by
  obtain ⟨_, u2, _, _, _, _, _, u8, u9, u10, _, _, _, u14, _⟩ := updateSizeHint_fields s 0
  cases a with
  | fresh =>
    refine ⟨?_, sizeHint_updateSizeHint s 0 ha.2⟩
    obtain ⟨p, rfl⟩ := ha.1
    unfold updateSizeHint
    split
    · exact ⟨_, rfl⟩
    · exact ⟨p, rfl⟩
  | junk => exact ⟨u8.trans ha.1, (q01_congr u2).trans ha.2⟩
  | start W =>
    exact ⟨nfBase_updateSizeHint 0 ha.1, (isFirstMb_updateSizeHint s 0).trans ha.2.1, u9.trans ha.2.2.1, u10.trans ha.2.2.2.1, u14.trans ha.2.2.2.2⟩
  | mid => exact ⟨nfBase_updateSizeHint 0 ha.1, (isFirstMb_updateSizeHint s 0).trans ha.2.1, u9.trans ha.2.2⟩
  | done => exact ⟨nfBase_updateSizeHint 0 ha.1, u9.trans ha.2⟩

/-- the phased never-flushed simulation -/
def nfSim (o : Oracle) : Sim o NFPh where
  T := nfT
  R := nfR
  opOK := fun op => op = 0 ∨ op = 2
  step := fun hop ha h => nf_step hop ha h
  take := fun ha h => nf_take ha h
  setp := fun ha => nf_setp ha
  hint := fun ha => nf_hint ha

/-! ### both simulations on ONE log -/

/-- product of two simulations: both abstractions are threaded through the same log -/
def Sim.prod {o : Oracle} {α β : Type} (S1 : Sim o α) (S2 : Sim o β) : Sim o (α × β) where
  T := fun a e b => S1.T a.1 e b.1 ∧ S2.T a.2 e b.2
  R := fun a s => S1.R a.1 s ∧ S2.R a.2 s
  opOK := fun op => S1.opOK op ∧ S2.opOK op
  step := fun hop ha h => by
    obtain ⟨a1, r1, t1⟩ := S1.step hop.1 ha.1 h
    obtain ⟨a2, r2, t2⟩ := S2.step hop.2 ha.2 h
    exact ⟨(a1, a2), ⟨r1, r2⟩, t1, t2⟩
  take := fun ha h => ⟨S1.take ha.1 h, S2.take ha.2 h⟩
  setp := fun ha => ⟨S1.setp ha.1, S2.setp ha.2⟩
  hint := fun ha => ⟨S1.hint ha.1, S2.hint ha.2⟩

theorem path_prod {o : Oracle} {α β : Type} (S1 : Sim o α) (S2 : Sim o β) {log : List Ev} {a b : α × β}
    (h : Path (S1.prod S2).T a log b) : Path S1.T a.1 log b.1 ∧ Path S2.T a.2 log b.2 := by
  induction log generalizing a with
  | nil =>
    have : a = b := h
    subst this
    exact ⟨rfl, rfl⟩
  | cons e es ih =>
    obtain ⟨a1, ⟨t1, t2⟩, p⟩ := h
    obtain ⟨p1, p2⟩ := ih p
    exact ⟨⟨a1.1, t1, p1⟩, ⟨a1.2, t2, p2⟩⟩

theorem histOp_mono {P Q : Nat → Prop} (hPQ : ∀ op, P op → Q op) {calls : List Call} (h : HistOp P calls) : HistOp Q calls := by
  induction calls with
  | nil => trivial
  | cons c cs ih =>
    cases c with
    | stream op chunk cap => exact ⟨hPQ op h.1, ih h.2⟩
    | setParam id v => exact ⟨trivial, ih h.2⟩
    | take n => exact ⟨trivial, ih h.2⟩

/-- growth bound of the payload piece of an emitted meta-block: `P` = bit position where it starts
(behind the skeleton), `len` its input bytes, `m` its bits, `last` = is_last.  `Guard` (what
`guard_holds` proves of `WriteMetaBlockInternal`) for the data-carrying part ending at `body`, an empty
block writes nothing there, and behind `body` comes at most the padded 2-bit empty last block. -/
def PieceGuard (P len m : Nat) (last : Bool) : Prop :=
  ∃ body, P ≤ body ∧ (len = 0 → body = P) ∧ (len ≠ 0 → BV.Header.Guard P len body) ∧ body ≤ P + m
    ∧ P + m ≤ (if last then (body + 2 + 7) / 8 * 8 else body)

/-- every emitted payload piece of a log obeys the growth bound (`P` = bits emitted so far) -/
def LogGuard (o : Oracle) : Nat → Pos → List Ev → Prop
  | _, _, [] => True
  | P, p, e :: es =>
    (match e with
     | .enc k req pre skel taken =>
       taken = true → PieceGuard (P + skel.length) (p.ip - (p.lf + pre)) ((o k req).bits.drop skel.length).length req.isLast
     | _ => True)
    ∧ LogGuard o (P + (e.bits o).length) (e.step p) es

/-- THE ARITHMETIC STILL TO BE PROVED, as a statement about abstract logs only (no state machine): a log
with the grammar of a never-flushed quality ≥ 2 run (`nfT` from `fresh` to `done`), whose requests are the
ones the positions dictate, whose non-final requests see ≥ 2^14 bytes and whose payload pieces obey the
growth bound, has at most `8 * Max(total input)` bits.  (Proof plan: `Run`/`BlocksOK` from the log,
`run_bound`, the head arithmetic of `stream_total_bound`.) -/
def NFLogArith (o : Oracle) : Prop :=
  ∀ log : List Ev, Path nfT .fresh log .done → LogOK ⟨0, 0, 0, 0⟩ log →
    (∀ e ∈ log, (∃ w, e = .window w) ∨ EvFull e) → LogGuard o 0 ⟨0, 0, 0, 0⟩ log →
    (logPos ⟨0, 0, 0, 0⟩ log).ip < 2 ^ 54 →
    (logBits o log).length / 8 ≤ BV.Stored.maxCompressedSize (logPos ⟨0, 0, 0, 0⟩ log).ip

/-- **structure of a never-flushed quality ≥ 2 run**: the log of the history (the one that determines the
delivered bits, the requests and the positions) is a path of the phased abstraction from `fresh` to
`done`, and every event but the stream header obeys `EvFull` -/
theorem nf_run_structure {o : Oracle} {fuel : Nat} {calls : List Call} {s0 s : St} {t : Trace}
    (hf : IsFresh s0) (hh : s0.params.sizeHint < 2 ^ 35) (hnf : NeverFlushed calls) (hw : histLen calls < two64)
    (h : run o fuel calls s0 {} = .ok (s, t)) (hq : s.q01 = false) (hfin : isFinished s = true) :
    ∃ log : List Ev, deliveredBits t s = logBits o log ∧ logReqs log = t.reqs ∧ LogOK ⟨0, 0, 0, 0⟩ log
      ∧ s.pos = logPos ⟨0, 0, 0, 0⟩ log ∧ Path nfT .fresh log .done
      ∧ (∀ e ∈ log, (∃ w, e = .window w) ∨ EvFull e) := by
  obtain ⟨hk1, hk2⟩ := histOK_of_neverFlushed hnf
  have hk3 : HistOp ((nfqSim o).prod (nfSim o)).opOK calls := histOp_mono (fun op hop => ⟨hop, hop⟩) hk2
  have hip : s0.inputPos = 0 := (isFresh_fields hf).2.2.1
  obtain ⟨log, hsim, f⟩ := run_sim ((nfqSim o).prod (nfSim o)) (fuel := fuel) (t0 := {}) (runOK_fresh hf) hk1 hk3 (by rw [hip]; omega) h
  obtain ⟨b, ⟨hb1, hb2⟩, hpath⟩ := hsim (.pre, .fresh) ⟨hf, hf, hh⟩
  obtain ⟨p1, p2⟩ := path_prod (nfqSim o) (nfSim o) hpath
  have hst : s.streamState = .finished := by
    have : s.streamState = .finished ∧ s.pending.length = 0 := by simpa [isFinished] using hfin
    exact this.1
  -- the final phases
  have hb2' : b.2 = .done := by
    rcases hbb : b.2 with _ | _ | W | _ | _
    · rw [hbb] at hb2
      obtain ⟨p, rfl⟩ := hb2.1
      cases hst
    · rw [hbb] at hb2
      have : s.q01 = true := hb2.2
      rw [hq] at this; cases this
    · rw [hbb] at hb2
      have : s.streamState = .processing := hb2.2.2.1
      rw [hst] at this; cases this
    · rw [hbb] at hb2
      have : s.streamState = .processing := hb2.2.2
      rw [hst] at this; cases this
    · rfl
  rw [hb2'] at p2
  have hp0 := pos_fresh hf
  refine ⟨log, ?_, ?_, by rw [← hp0]; exact f.lok, by rw [← hp0]; exact f.pos, p2, ?_⟩
  · have := f.bits
    rw [deliveredBits_fresh hf, List.nil_append] at this
    exact this
  · have := f.reqs
    simp only [List.nil_append] at this
    exact this.symm
  · rcases path_pre p1 with ⟨_, hl⟩ | hj | ⟨_, w, rest, hl, hfull⟩
    · subst hl; intro e he; cases he
    · have : s.q01 = true := by
        have := hb1
        rw [hj] at this
        exact this.2
      rw [hq] at this; cases this
    · subst hl
      intro e he
      rcases List.mem_cons.mp he with rfl | he2
      · exact Or.inl ⟨w, rfl⟩
      · exact Or.inr (hfull e he2)

end BV.Stream
