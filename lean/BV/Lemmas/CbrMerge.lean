/-
Several `CreateBackwardReferences` calls MERGED into one meta-block (w-compose).  encode.rs keeps appending the commands
of successive input blocks to `commands_` until it decides to emit the meta-block; the `last_insert_len` pending after
one call becomes the insert length of the first command of the next call (or of the closing insert-only command).

Each call is covered by the loop theorem in its LOCAL view: history `hist ++ M[..c]`, meta-block
`M[c .. c + last_insert_len + num_bytes]` (`cbr_open`).  `decStep_embed` / `openSteps_embed` move an open run from that
local view into the whole meta-block `M`; `Merged` records a sequence of calls; `merged_inv` is the resulting invariant
and `merged_close` the statement about the closed command array.
-/
import BV.Lemmas.CbrOpen

namespace BV.Cbr
open BV.Hasher BV.MatchFinder BV.Recoder BV.PrefixArith BV.MetaBlock

theorem drop_take_drop (M : Bytes) (a n c : Nat) : ((M.drop a).take n).drop c = (M.drop (a + c)).take (n - c) := by
  rw [List.drop_take, List.drop_drop]

/-- a command the decoder accepts inserts at most the rest of the meta-block -/
theorem decStep_insert_le (w : WordOracle) (np nd window : Nat) (mb : Bytes) (s : DecSt) (x : Cmd) (s' : DecSt)
    (h : decStep w np nd window mb s x = some s') : s.cursor + x.insertLen ≤ mb.length := by
  unfold decStep at h
  simp only [] at h
  by_cases h1 : mb.length - s.cursor = 0
  · rw [if_pos h1] at h; cases h
  rw [if_neg h1] at h
  by_cases h2 : x.insertLen > mb.length - s.cursor
  · rw [if_pos h2] at h; cases h
  omega

/-- one open command: from the local view `B = M[a .. a+n]` to the whole meta-block `M` -/
theorem decStep_embed (w : WordOracle) (np nd window : Nat) (M : Bytes) (a n : Nat) (han : a + n ≤ M.length)
    (out : Bytes) (ring : List Int) (c : Nat) (cmd : Cmd) (d' : DecSt)
    (hopen : c + cmd.insertLen ≠ n)
    (h : decStep w np nd window ((M.drop a).take n) ⟨out, ring, c⟩ cmd = some d') :
    decStep w np nd window M ⟨out, ring, a + c⟩ cmd = some ⟨d'.out, d'.ring, a + d'.cursor⟩ := by
  have hlen : ((M.drop a).take n).length = n := by simp; omega
  unfold decStep at h ⊢
  simp only [hlen] at h
  simp only []
  by_cases h1 : n - c = 0
  · rw [if_pos h1] at h; cases h
  rw [if_neg h1] at h
  rw [if_neg (by omega)]
  by_cases h2 : cmd.insertLen > n - c
  · rw [if_pos h2] at h; cases h
  rw [if_neg h2] at h
  rw [if_neg (by omega)]
  rw [if_neg hopen] at h
  rw [if_neg (by omega)]
  have hlit : (M.drop (a + c)).take cmd.insertLen = (((M.drop a).take n).drop c).take cmd.insertLen := by
    rw [drop_take_drop, List.take_take, Nat.min_eq_left (by omega)]
  rw [hlit]
  cases hr : rfcDistance np nd ring (cmd.distPrefix % 1024) cmd.distExtra with
  | none => rw [hr] at h; cases h
  | some du =>
    obtain ⟨d, upd⟩ := du
    rw [hr] at h
    simp only [] at h ⊢
    by_cases h4 : d ≤ 0
    · rw [if_pos h4] at h; cases h
    rw [if_neg h4] at h ⊢
    split at h
    · rename_i hle
      rw [if_pos hle]
      by_cases h6 : c + cmd.insertLen + copyLenCode cmd.copyLenField > n
      · rw [if_pos h6] at h; cases h
      rw [if_neg h6] at h
      rw [if_neg (by omega)]
      simp only [Option.some.injEq] at h
      subst h
      simp only [Option.some.injEq, DecSt.mk.injEq, true_and]
      omega
    · rename_i hle
      rw [if_neg hle]
      split at h
      · cases h
      · rename_i hcl
        rw [if_neg hcl]
        split at h
        · cases h
        · rename_i word hw
          by_cases h7 : c + cmd.insertLen + word.length > n
          · rw [if_pos h7] at h; cases h
          rw [if_neg h7] at h
          rw [if_neg (by omega)]
          simp only [Option.some.injEq] at h
          subst h
          simp only [Option.some.injEq, DecSt.mk.injEq, true_and]
          omega

/-- an open run: from the local view to the whole meta-block -/
theorem openSteps_embed (w : WordOracle) (np nd window : Nat) (M : Bytes) (a n : Nat) (han : a + n ≤ M.length) :
    ∀ (cmds : List Cmd) (out : Bytes) (ring : List Int) (c : Nat) (d' : DecSt),
      openSteps w np nd window ((M.drop a).take n) ⟨out, ring, c⟩ cmds = some d' →
      openSteps w np nd window M ⟨out, ring, a + c⟩ cmds = some ⟨d'.out, d'.ring, a + d'.cursor⟩ := by
  have hlen : ((M.drop a).take n).length = n := by simp; omega
  intro cmds
  induction cmds with
  | nil =>
    intro out ring c d' h
    simp only [openSteps, Option.some.injEq] at h ⊢
    subst h; rfl
  | cons x xs ih =>
    intro out ring c d' h
    simp only [openSteps, hlen] at h ⊢
    split at h
    · rename_i hc
      cases hd : decStep w np nd window ((M.drop a).take n) ⟨out, ring, c⟩ x with
      | none => rw [hd] at h; cases h
      | some s1 =>
        rw [hd] at h
        simp only at h
        split at h
        · rename_i hcur
          have hb := decStep_insert_le w np nd window _ _ x s1 hd
          simp only [hlen] at hb
          have he := decStep_embed w np nd window M a n han out ring c x s1 hc.1 hd
          rw [if_pos ⟨by omega, hc.2⟩, he]
          simp only
          rw [if_pos (by omega)]
          obtain ⟨o1, r1, c1⟩ := s1
          exact ih o1 r1 c1 d' h
        · cases h
    · cases h

/-! ### `extend_last_command`: the last copy grows over the new input -/

theorem copyBytes_add : ∀ (a b d : Nat) (out : Bytes), copyBytes (a + b) d out = copyBytes b d (copyBytes a d out) := by
  intro a
  induction a with
  | zero => intro b d out; simp [copyBytes]
  | succ a ih =>
    intro b d out
    rw [show a + 1 + b = (a + b) + 1 by omega]
    simp only [copyBytes]
    exact ih b d _

/-- a command executed as an LZ77 copy at distance `D`, re-read with a copy length code `n` larger (all other fields
equal): the decoder copies `n` more bytes from the same distance -/
theorem decStep_extend (w : WordOracle) (np nd window : Nat) (M : Bytes) (s s1 : DecSt) (c c' : Cmd) (n : Nat)
    (D : Int) (upd : Bool)
    (hi : c'.insertLen = c.insertLen) (hp : c'.distPrefix = c.distPrefix) (he : c'.distExtra = c.distExtra)
    (hl : copyLenCode c'.copyLenField = copyLenCode c.copyLenField + n)
    (hne : s.cursor + c.insertLen ≠ M.length)
    (hr : rfcDistance np nd s.ring (c.distPrefix % 1024) c.distExtra = some (D, upd)) (hD : 0 < D)
    (hlz : D.toNat ≤ min (s.out ++ (M.drop s.cursor).take c.insertLen).length window)
    (h : decStep w np nd window M s c = some s1) (hn : s1.cursor + n ≤ M.length) :
    decStep w np nd window M s c' = some ⟨copyBytes n D.toNat s1.out, s1.ring, s1.cursor + n⟩ := by
  unfold decStep at h ⊢
  simp only [hi, hp, he, hl] at h ⊢
  by_cases h1 : M.length - s.cursor = 0
  · rw [if_pos h1] at h; cases h
  rw [if_neg h1] at h ⊢
  by_cases h2 : c.insertLen > M.length - s.cursor
  · rw [if_pos h2] at h; cases h
  rw [if_neg h2, if_neg hne] at h ⊢
  rw [hr] at h ⊢
  simp only [] at h ⊢
  rw [if_neg (by omega), if_pos hlz] at h ⊢
  by_cases h6 : s.cursor + c.insertLen + copyLenCode c.copyLenField > M.length
  · rw [if_pos h6] at h; cases h
  rw [if_neg h6] at h
  simp only [Option.some.injEq] at h
  subst h
  simp only at hn
  rw [if_neg (by omega)]
  simp only [Option.some.injEq, DecSt.mk.injEq]
  exact ⟨copyBytes_add _ _ _ _, trivial, by omega⟩

theorem openSteps_snoc (w : WordOracle) (np nd window : Nat) (mb : Bytes) :
    ∀ (xs : List Cmd) (c : Cmd) (d d' : DecSt), openSteps w np nd window mb d (xs ++ [c]) = some d' →
      ∃ s, openSteps w np nd window mb d xs = some s ∧ openSteps w np nd window mb s [c] = some d' := by
  intro xs
  induction xs with
  | nil => intro c d d' h; exact ⟨d, rfl, h⟩
  | cons x xs ih =>
    intro c d d' h
    simp only [List.cons_append, openSteps] at h ⊢
    split at h
    · rename_i hc
      rw [if_pos hc]
      cases hx : decStep w np nd window mb d x with
      | none => rw [hx] at h; cases h
      | some d1 =>
        rw [hx] at h
        simp only at h ⊢
        split at h
        · rename_i hcur; rw [if_pos hcur]; exact ih c d1 d' h
        · cases h
    · cases h

/-- "after `cmds`, the decoder executes `c` as an LZ77 copy at distance `D`" (`D` = the distance its symbol denotes
under the ring of that moment, positive and within `min(produced, window)`) -/
def LastCopy (w : WordOracle) (p : Params) (hist M : Bytes) (cache0 : List Int) (cmds : List Cmd) (c : Cmd) (D : Nat) : Prop :=
  ∀ s, openSteps w p.npostfix p.ndirect (maxBackwardLimit p) M ⟨hist, cache0.take 4, 0⟩ cmds = some s →
    ∃ Dz upd, rfcDistance p.npostfix p.ndirect s.ring (c.distPrefix % 1024) c.distExtra = some (Dz, upd) ∧ 0 < Dz ∧
      Dz.toNat = D ∧ D ≤ min (s.out ++ (M.drop s.cursor).take c.insertLen).length (maxBackwardLimit p)

/-- the record of the `CreateBackwardReferences` calls whose commands have been appended to the meta-block `M`
(history `hist`, first distance cache `cache0`) so far:  `Merged … cmds c cache lil written` — commands so far, decoder
cursor after them, current distance cache, pending `last_insert_len`, bytes of `M` searched so far -/
inductive Merged (slotOK : DictItem → Prop) (w : WordOracle) (p : Params) (Good : Cmd → Prop) (hist M : Bytes) (cache0 : List Int) :
    List Cmd → Nat → List Int → Nat → Nat → Prop
  | start : Merged slotOK w p Good hist M cache0 [] 0 cache0 0 0
  | call {H : Type} (ops : HasherOps H) (data : ByteArray) (k lo : Nat)
      (cmds : List Cmd) (c : Nat) (cache : List Int) (lil written numBytes position numLiterals : Nat) (h0 : H)
      (res : Result H) :
      Merged slotOK w p Good hist M cache0 cmds c cache lil written →
      written + numBytes ≤ M.length →
      position = hist.length + written →
      OpsOK slotOK ops p data k →
      EmitHyp slotOK ⟨w, data, k, hist ++ M.take c, (M.drop c).take (lil + numBytes), lo⟩ p Good →
      createBackwardReferences ops p numBytes position h0 cache lil numLiterals = some res →
      Merged slotOK w p Good hist M cache0 (cmds ++ res.cmds) (written + numBytes - res.lastInsertLen) res.cache
        res.lastInsertLen (written + numBytes)
  /-- `extend_last_command` (run by `encode_data` before a call when `num_commands_ != 0 && last_insert_len_ == 0`):
  the last command `c`, an LZ77 copy at distance `D`, is replaced by `c'` = the same command with copy length and copy
  length code `n` larger (`n = 0`: only `cmd_prefix_` is recomputed) because the next `n` input bytes continue the copy -/
  | extend (cmds : List Cmd) (c c' : Cmd) (cur : Nat) (cache : List Int) (n D : Nat) :
      Merged slotOK w p Good hist M cache0 (cmds ++ [c]) cur cache 0 cur →
      cur + n ≤ M.length →
      c'.insertLen = c.insertLen → c'.distPrefix = c.distPrefix → c'.distExtra = c.distExtra →
      copyLenCode c'.copyLenField = copyLenCode c.copyLenField + n → copyLen c' = copyLen c + n →
      Good c' →
      LastCopy w p hist M cache0 cmds c D →
      copyBytes n D (hist ++ M.take cur) = hist ++ M.take (cur + n) →
      Merged slotOK w p Good hist M cache0 (cmds ++ [c']) (cur + n) cache 0 (cur + n)

/-- **the invariant of a merged meta-block**: after any sequence of calls the RFC decoder, started at the beginning of
the meta-block, has executed all commands so far as open commands, stands at `written − last_insert_len`, has produced
`hist ++ M[..cursor]`, and its ring is the current distance cache -/
theorem merged_inv {slotOK : DictItem → Prop} {w : WordOracle} {p : Params} {Good : Cmd → Prop} {hist M : Bytes}
    {cache0 : List Int} (h64 : hist.length + M.length < 2 ^ 64) (hc0 : CacheI32 cache0) (hcl0 : 4 ≤ cache0.length)
    {cmds : List Cmd} {c : Nat} {cache : List Int} {lil written : Nat}
    (hm : Merged slotOK w p Good hist M cache0 cmds c cache lil written) :
    openSteps w p.npostfix p.ndirect (maxBackwardLimit p) M ⟨hist, cache0.take 4, 0⟩ cmds
      = some ⟨hist ++ M.take c, cache.take 4, c⟩ ∧
    c + lil = written ∧ written ≤ M.length ∧ CacheI32 cache ∧ 4 ≤ cache.length ∧ ∀ x ∈ cmds, Good x := by
  induction hm with
  | start => exact ⟨by simp [openSteps], rfl, Nat.zero_le _, hc0, hcl0, fun _ hx => by cases hx⟩
  | call ops data k lo cmds c cache lil written numBytes position numLiterals h0 res _ hle hpos hops hemit hrun ih =>
    obtain ⟨hopen, hcl, hw, hci, hcl4, hgood⟩ := ih
    have hloclen : ((M.drop c).take (lil + numBytes)).length = lil + numBytes := by simp; omega
    obtain ⟨d', ho, hout, hcur, hring, hci', hcl', hg'⟩ :=
      cbr_open (C := ⟨w, data, k, hist ++ M.take c, (M.drop c).take (lil + numBytes), lo⟩) hops hemit numBytes position h0
        cache lil numLiterals res (by simp only [List.length_append, List.length_take]; omega) (by simp only [hloclen])
        (by simp only [List.length_append, List.length_take, hloclen]; omega) hci hcl4 hrun
    simp only [hloclen] at hcur
    have he := openSteps_embed w p.npostfix p.ndirect (maxBackwardLimit p) M c (lil + numBytes) (by omega) res.cmds
      (hist ++ M.take c) (cache.take 4) 0 d' ho
    simp only [Nat.add_zero] at he
    refine ⟨?_, by omega, by omega, hci', hcl', ?_⟩
    · rw [openSteps_append _ _ _ _ _ _ _ _ _ hopen, he]
      have hcc : c + d'.cursor = written + numBytes - res.lastInsertLen := by omega
      simp only [Option.some.injEq, DecSt.mk.injEq]
      refine ⟨?_, hring, hcc⟩
      rw [hout, List.append_assoc]
      congr 1
      simp only []
      rw [← hcc, List.take_take, Nat.min_eq_left (by omega), ← List.take_add]
    · intro x hx
      rcases List.mem_append.mp hx with h1 | h2
      · exact hgood x h1
      · exact hg' x h2
  | extend cmds c c' cur cache n D _ hle hi hp he hl hcl hg hlast hcopy ih =>
    obtain ⟨hopen, _, _, hci, hcl4, hgood⟩ := ih
    obtain ⟨s, hs, hc1⟩ := openSteps_snoc _ _ _ _ _ _ _ _ _ hopen
    obtain ⟨Dz, upd, hr, hD, hDz, hlz⟩ := hlast s hs
    simp only [openSteps] at hc1
    split at hc1
    · rename_i hcond
      cases hd : decStep w p.npostfix p.ndirect (maxBackwardLimit p) M s c with
      | none => rw [hd] at hc1; cases hc1
      | some s1 =>
        rw [hd] at hc1
        simp only at hc1
        split at hc1
        · rename_i hcur
          simp only [Option.some.injEq] at hc1
          subst hc1
          have hx := decStep_extend w p.npostfix p.ndirect (maxBackwardLimit p) M s _ c c' n Dz upd hi hp he hl hcond.1 hr hD
            (by rw [hDz]; exact hlz) hd (by simpa using hle)
          simp only [hDz, hcopy] at hx
          refine ⟨?_, by omega, hle, hci, hcl4, ?_⟩
          · rw [openSteps_append _ _ _ _ _ _ _ _ _ hs]
            simp only [openSteps, hi]
            rw [if_pos ⟨hcond.1, by omega⟩, hx]
            simp only
            rw [if_pos (by simp only at hcur; omega)]
          · intro x hx'
            rcases List.mem_append.mp hx' with h1 | h2
            · exact hgood x (List.mem_append.mpr (Or.inl h1))
            · simp only [List.mem_singleton] at h2; subst h2; exact hg
        · cases hc1
    · cases hc1

/-- **closing a merged meta-block**: once all of `M` has been searched, the command array closed by the insert-only
command satisfies `lockstep`, every command is `Good`, and the RFC decoder replays it to `hist ++ M` -/
theorem merged_close {slotOK : DictItem → Prop} {w : WordOracle} {p : Params} {Good : Cmd → Prop} {hist M : Bytes}
    {cache0 : List Int} (h64 : hist.length + M.length < 2 ^ 64) (h32 : M.length < 2 ^ 32)
    (hc0 : CacheI32 cache0) (hcl0 : 4 ≤ cache0.length)
    (hgi : ∀ l, 0 < l → l ≤ M.length → Good (initInsert l))
    {cmds : List Cmd} {c : Nat} {cache : List Int} {lil : Nat}
    (hm : Merged slotOK w p Good hist M cache0 cmds c cache lil M.length) :
    lockstep w p.npostfix p.ndirect (maxBackwardLimit p) M ⟨hist, cache0.take 4, 0⟩ 0 (closeMetaBlock cmds lil) = true ∧
    (∀ x ∈ closeMetaBlock cmds lil, Good x) ∧
    replayCommands w p.npostfix p.ndirect (maxBackwardLimit p) M (cache0.take 4) hist (closeMetaBlock cmds lil)
      = some (hist ++ M) := by
  obtain ⟨hopen, hcl, _, _, _, hgood⟩ := merged_inv h64 hc0 hcl0 hm
  have hlil : lil = M.length - c := by omega
  have hle : c ≤ M.length := by omega
  obtain ⟨hlk, hdec⟩ := lockstep_close w p.npostfix p.ndirect (maxBackwardLimit p) hist M ⟨hist ++ M.take c, cache.take 4, c⟩
    rfl hle h32
  refine ⟨?_, ?_, ?_⟩
  · rw [closeMetaBlock_split, hlil]
    have := lockstep_open w p.npostfix p.ndirect (maxBackwardLimit p) M cmds (closeMetaBlock [] (M.length - c)) _ _ hopen
    simp only [] at this
    rw [this]; exact hlk
  · intro x hx
    rw [closeMetaBlock_split] at hx
    rcases List.mem_append.mp hx with h1 | h2
    · exact hgood x h1
    · unfold closeMetaBlock at h2
      by_cases hl0 : lil > 0
      · rw [if_pos hl0] at h2
        simp only [List.nil_append, List.mem_singleton] at h2
        subst h2
        exact hgi _ hl0 (by omega)
      · rw [if_neg hl0] at h2; cases h2
  · unfold replayCommands
    rw [closeMetaBlock_split, hlil, decSteps_append _ _ _ _ _ _ _ _ _ (openSteps_dec _ _ _ _ _ _ _ _ hopen)]
    exact hdec

end BV.Cbr
