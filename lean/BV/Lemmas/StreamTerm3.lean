import BV.Lemmas.StreamTerm2
/-
Termination of the quality 0/1 loop and of the metadata loop.
-/
namespace BV.Stream
open BV.Bits

/-! ### quality 0/1 loop -/

def fastPot (M : Nat) (s : St) (io : Io) : Nat :=
  (io.availIn + (if s.streamState = .processing then 1 else 0)) * (M + 8) + padB s + s.pending.length

theorem fastStep_ne_fuel (o : Oracle) (op : Nat) (s : St) (io : Io) : fastStep o op s io ≠ .fuel := by
  intro h
  unfold fastStep at h
  split at h
  · simp at h
  · rename_i hq; exact absurd hq (push_ne_fuel _ _)
  · simp at h
  · split at h
    · simp only at h
      split_all h
      all_goals simp at h
    · simp at h

theorem fastEncode_pending_le (s : St) (io : Io) (ans : Ans) (req : Req) (bs : Nat) (ip il ff : Bool) :
    (fastEncode s io ans req bs ip il ff).1.pending.length ≤ s.pending.length + (s.lastBytesBits + ans.bits.length) / 8
    ∧ (fastEncode s io ans req bs ip il ff).1.lastBytesBits < 8 := by
  unfold fastEncode
  cases ip
  · simp only [Bool.false_eq_true, ↓reduceIte]
    refine ⟨?_, (carryOf_lt _).2⟩
    have := wholeBytes_length (bitsOf s.lastBytesBits s.lastBytes ++ ans.bits)
    simp only [List.length_append, bitsOf_length] at this
    omega
  · simp only [↓reduceIte]
    exact ⟨by omega, (carryOf_lt _).2⟩

theorem pot_arith {A bs i X pb pb' pend' M : Nat} (hX : X = M + 8) (hpb' : pb' ≤ 4) (hp : pend' ≤ M)
    (hcase : (A = 0 ∧ bs = 0 ∧ i = 0) ∨ (1 ≤ bs ∧ bs ≤ A ∧ i ≤ 1)) :
    (A - bs + i) * X + pb' + pend' < (A + 1) * X + pb + 0 := by
  rcases hcase with ⟨rfl, rfl, rfl⟩ | ⟨h1, h2, h3⟩
  · simp only [Nat.sub_self, Nat.add_zero, Nat.zero_mul, Nat.zero_add, Nat.one_mul]
    omega
  · have hle : A - bs + i ≤ A := by omega
    have h4 := Nat.mul_le_mul_right X hle
    have h5 : (A + 1) * X = A * X + X := by rw [Nat.add_mul, Nat.one_mul]
    rw [h5]
    generalize (A - bs + i) * X = L at *
    generalize A * X = R at *
    omega

theorem fastStep_decreases {o : Oracle} {op B M : Nat} {s s' : St} {io io' : Io}
    (hB : OracleBounded o B) (hM : (14 + 176 + B) / 8 ≤ M) (hl : s.lastBytesBits ≤ 14) (hop : op ≤ 2)
    (h : fastStep o op s io = .ok (s', io', true)) :
    fastPot M s' io' < fastPot M s io ∧ s'.lastBytesBits ≤ 14 := by
  unfold fastStep at h
  split at h
  · simp at h
  · simp at h
  · rename_i s1 io1 hp
    simp only [Out.ok.injEq, Prod.mk.injEq] at h
    obtain ⟨rfl, rfl, _⟩ := h
    obtain ⟨f, _, _, _, _, _, _, _, fa, _⟩ := push_frame hp
    rw [St.frame_eq_iff] at f
    obtain ⟨l1, l2⟩ := push_lowers hl hp
    refine ⟨?_, Nat.le_trans l2 hl⟩
    unfold fastPot
    rw [fa, f.2.2.2.1]
    omega
  · rename_i s1 io1 hp
    obtain ⟨e1, e2, _, _⟩ := push_false hp
    have e1' := e1.symm; have e2' := e2.symm
    subst e1' e2'
    split at h
    · rename_i hcond
      simp only at h
      split at h
      · -- flush with nothing offered
        simp only [Out.ok.injEq, Prod.mk.injEq] at h
        obtain ⟨rfl, rfl, _⟩ := h
        refine ⟨?_, hl⟩
        unfold fastPot padB
        simp only [hcond.2.1, reduceCtorEq, ↓reduceIte, Nat.add_zero]
        rw [Nat.add_mul, Nat.one_mul]
        generalize io.availIn * (M + 8) = T
        omega
      · rename_i hnff
        split at h
        · simp at h
        · split at h
          · simp at h
          · split at h
            · simp at h
            · simp only [Out.ok.injEq, Prod.mk.injEq] at h
              obtain ⟨rfl, rfl, _⟩ := h
              generalize hbs : min (2 ^ s.params.lgwin.toNat) io.availIn = bs at *
              generalize hil : decide (io.availIn = bs ∧ op = 2) = il at *
              generalize hfl : decide (io.availIn = bs ∧ op = 1) = ffl at *
              generalize hipl : decide ((2 * bs + 503) % two64 ≤ io.availOut) = ipl at *
              have hs1 : (fastStorage s ipl ((2 * bs + 503) % two64)).pending = s.pending
                  ∧ (fastStorage s ipl ((2 * bs + 503) % two64)).lastBytesBits = s.lastBytesBits
                  ∧ (fastStorage s ipl ((2 * bs + 503) % two64)).streamState = s.streamState := by
                unfold fastStorage
                split
                · exact ⟨rfl, rfl, rfl⟩
                · obtain ⟨g1, _, _, _, g5, _, _, _, g9, _⟩ := growStorage_frame s ((2 * bs + 503) % two64)
                  rw [St.frame_eq_iff] at g1
                  exact ⟨g5, g9, g1.2.2.2.1⟩
              generalize fastStorage s ipl ((2 * bs + 503) % two64) = s1 at *
              obtain ⟨g5, g9, gst⟩ := hs1
              obtain ⟨_, _, _, _, _, _, _, e8, e9⟩ :=
                fastEncode_fields s1 io (o s.nEnc { site := 2, lo := bs, hi := s.inputPos, isLast := il, forceFlush := ffl })
                  { site := 2, lo := bs, hi := s.inputPos, isLast := il, forceFlush := ffl } bs ipl il ffl
              obtain ⟨p1, p2⟩ := fastEncode_pending_le s1 io (o s.nEnc { site := 2, lo := bs, hi := s.inputPos, isLast := il, forceFlush := ffl })
                  { site := 2, lo := bs, hi := s.inputPos, isLast := il, forceFlush := ffl } bs ipl il ffl
              have hb := hB s.nEnc { site := 2, lo := bs, hi := s.inputPos, isLast := il, forceFlush := ffl }
              refine ⟨?_, by omega⟩
              rw [g5, g9] at p1
              have hp0 : s.pending.length = 0 := hcond.1
              have hplM : (fastEncode s1 io (o s.nEnc { site := 2, lo := bs, hi := s.inputPos, isLast := il, forceFlush := ffl })
                  { site := 2, lo := bs, hi := s.inputPos, isLast := il, forceFlush := ffl } bs ipl il ffl).1.pending.length ≤ M := by
                refine Nat.le_trans p1 ?_
                rw [hp0, Nat.zero_add]
                exact Nat.le_trans (Nat.div_le_div_right (by omega)) hM
              have hpad : ∀ t : St, padB t ≤ 4 := by intro t; unfold padB; split <;> omega
              have hpad' := hpad (fastEncode s1 io (o s.nEnc { site := 2, lo := bs, hi := s.inputPos, isLast := il, forceFlush := ffl })
                  { site := 2, lo := bs, hi := s.inputPos, isLast := il, forceFlush := ffl } bs ipl il ffl).1
              unfold fastPot
              rw [e8, e9, gst, hcond.2.1, hp0]
              simp only [↓reduceIte]
              refine pot_arith rfl hpad' hplM ?_
              by_cases hz : io.availIn = 0
              · -- nothing offered: this is the FINISH block
                have hbs0 : bs = 0 := by rw [← hbs, hz]; simp
                have hopne : op ≠ 0 := by
                  rcases hcond.2.2 with h0 | h0
                  · exact absurd hz h0
                  · exact h0
                have hilt : il = true := by
                  rw [← hil]
                  have : op = 2 := by
                    have : op = 1 ∨ op = 2 := by omega
                    rcases this with h1 | h1
                    · exfalso; apply hnff
                      rw [← hfl]
                      exact ⟨by simp [hz, hbs0, h1], hbs0⟩
                    · exact h1
                  simp [hz, hbs0, this]
                left
                refine ⟨hz, hbs0, ?_⟩
                rw [hilt]; simp
              · right
                have hbs1 : 1 ≤ bs := by
                  rw [← hbs]
                  have : 0 < 2 ^ s.params.lgwin.toNat := Nat.pow_pos (by omega)
                  omega
                have hbsle : bs ≤ io.availIn := by rw [← hbs]; exact Nat.min_le_right _ _
                refine ⟨hbs1, hbsle, ?_⟩
                generalize (if il = true then SState.finished else if ffl = true then SState.flushRequested else SState.processing) = st
                by_cases hst : st = SState.processing
                · rw [if_pos hst]; exact Nat.le_refl _
                · rw [if_neg hst]; exact Nat.zero_le _
    · simp at h

theorem fastLoop_terminates {o : Oracle} {op B M : Nat}
    (hB : OracleBounded o B) (hM : (14 + 176 + B) / 8 ≤ M) (hop : op ≤ 2) :
    ∀ fuel s io, s.lastBytesBits ≤ 14 → fastPot M s io < fuel → fastLoop o op fuel s io ≠ .fuel := by
  intro fuel
  induction fuel with
  | zero => intro s io _ h; omega
  | succ k ih =>
    intro s io hl hpot
    unfold fastLoop
    have hnf := fastStep_ne_fuel o op s io
    split
    · simp
    · rename_i hh; exact absurd hh hnf
    · rename_i s1 io1 hs
      obtain ⟨d1, d2⟩ := fastStep_decreases hB hM hl hop hs
      exact ih s1 io1 d2 (by omega)
    · simp

end BV.Stream
