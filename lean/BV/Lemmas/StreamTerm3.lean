import BV.Lemmas.StreamTerm2
/-
Termination of the quality 0/1 loop and of the metadata loop.
-/
namespace BV.Stream
open BV.Bits

/-! ### quality 0/1 loop -/

def fastPot (M : Nat) (s : St) (io : Io) : Nat :=
  (io.availIn + (if s.streamState = .processing then 1 else 0)) * (M + 8) + padB s + s.pending.length

theorem fastStep_ne_fuel (o : Oracle) (op : Nat) (s : St) (io : Io) : fastStep o op s io ≠ .fuel := by
  intro h
  unfold fastStep at h
  split at h
  · simp at h
  · rename_i hq; exact absurd hq (push_ne_fuel _ _)
  · simp at h
  · split at h
    · simp only at h
      split_all h
      all_goals simp at h
    · simp at h

theorem fastEncode_pending_le (s : St) (io : Io) (ans : Ans) (req : Req) (bs : Nat) (ip il ff : Bool) :
    (fastEncode s io ans req bs ip il ff).1.pending.length ≤ s.pending.length + (s.lastBytesBits + ans.bits.length) / 8
    ∧ (fastEncode s io ans req bs ip il ff).1.lastBytesBits < 8 := by
  unfold fastEncode
  cases ip
  · simp only [Bool.false_eq_true, ↓reduceIte]
    refine ⟨?_, (carryOf_lt _).2⟩
    have := wholeBytes_length (bitsOf s.lastBytesBits s.lastBytes ++ ans.bits)
    simp only [List.length_append, bitsOf_length] at this
    omega
  · simp only [↓reduceIte]
    exact ⟨by omega, (carryOf_lt _).2⟩

theorem pot_arith {A bs i X pb pb' pend' M : Nat} (hX : X = M + 8) (hpb' : pb' ≤ 4) (hp : pend' ≤ M)
    (hcase : (A = 0 ∧ bs = 0 ∧ i = 0) ∨ (1 ≤ bs ∧ bs ≤ A ∧ i ≤ 1)) :
    (A - bs + i) * X + pb' + pend' < (A + 1) * X + pb + 0 := by
  rcases hcase with ⟨rfl, rfl, rfl⟩ | ⟨h1, h2, h3⟩
  · simp only [Nat.sub_self, Nat.add_zero, Nat.zero_mul, Nat.zero_add, Nat.one_mul]
    omega
  · have hle : A - bs + i ≤ A := by omega
    have h4 := Nat.mul_le_mul_right X hle
    have h5 : (A + 1) * X = A * X + X := by rw [Nat.add_mul, Nat.one_mul]
    rw [h5]
    generalize (A - bs + i) * X = L at *
    generalize A * X = R at *
    omega

theorem fastEncode_store_fields (s : St) (io : Io) (ans : Ans) (req : Req) (bs : Nat) (ip il ff : Bool) :
    (fastEncode s io ans req bs ip il ff).1.storageSize = s.storageSize
    ∧ (fastEncode s io ans req bs ip il ff).1.inputPos = s.inputPos
    ∧ (fastEncode s io ans req bs ip il ff).1.lastFlushPos = s.lastFlushPos
    ∧ (ip = true → (fastEncode s io ans req bs ip il ff).1.pending = s.pending) := by
  unfold fastEncode
  cases ip <;> simp

theorem fastStep_decreases {o : Oracle} {op M : Nat} {s s' : St} {io io' : Io}
    (hl : s.lastBytesBits ≤ 14) (hop : op ≤ 2)
    (h : fastStep o op s io = .ok (s', io', true)) :
    (Cap M s io → fastPot M s' io' < fastPot M s io ∧ Cap M s' io') ∧
    (MCap M s → io'.availIn = io.availIn → MCap M s') ∧ s'.lastBytesBits ≤ 14 := by
  unfold fastStep at h
  split at h
  · simp at h
  · simp at h
  · rename_i s1 io1 hp
    simp only [Out.ok.injEq, Prod.mk.injEq] at h
    obtain ⟨rfl, rfl, _⟩ := h
    obtain ⟨f, a1, _, _, a5, _, _, _, fa, _⟩ := push_frame hp
    rw [St.frame_eq_iff] at f
    obtain ⟨l1, l2⟩ := push_lowers hl hp
    refine ⟨?_, fun hK _ => by unfold MCap at hK ⊢; rw [a5, f.2.1, a1]; exact hK, Nat.le_trans l2 hl⟩
    intro hC
    refine ⟨?_, by unfold Cap at hC ⊢; rw [a5, f.2.1, fa, a1]; exact hC⟩
    unfold fastPot
    rw [fa, f.2.2.2.1]
    omega
  · rename_i s1 io1 hp
    obtain ⟨e1, e2, _, _⟩ := push_false hp
    have e1' := e1.symm; have e2' := e2.symm
    subst e1' e2'
    split at h
    · rename_i hcond
      simp only at h
      split at h
      · -- flush with nothing offered
        simp only [Out.ok.injEq, Prod.mk.injEq] at h
        obtain ⟨rfl, rfl, _⟩ := h
        refine ⟨?_, fun hK _ => hK, hl⟩
        intro hC
        refine ⟨?_, hC⟩
        unfold fastPot padB
        simp only [hcond.2.1, reduceCtorEq, ↓reduceIte, Nat.add_zero]
        rw [Nat.add_mul, Nat.one_mul]
        generalize io.availIn * (M + 8) = T
        omega
      · rename_i hnff
        split at h
        · simp at h
        · split at h
          · simp at h
          · split at h
            · simp at h
            · simp only [Out.ok.injEq, Prod.mk.injEq] at h
              obtain ⟨rfl, rfl, _⟩ := h
              generalize hbs : min (2 ^ s.params.lgwin.toNat) io.availIn = bs at *
              generalize hil : decide (io.availIn = bs ∧ op = 2) = il at *
              generalize hfl : decide (io.availIn = bs ∧ op = 1) = ffl at *
              generalize hipl : decide ((2 * bs + 503) % two64 ≤ io.availOut) = ipl at *
              have hs1 : (fastStorage s ipl ((2 * bs + 503) % two64)).pending = s.pending
                  ∧ (fastStorage s ipl ((2 * bs + 503) % two64)).lastBytesBits = s.lastBytesBits
                  ∧ (fastStorage s ipl ((2 * bs + 503) % two64)).streamState = s.streamState
                  ∧ (fastStorage s ipl ((2 * bs + 503) % two64)).storageSize ≤ max s.storageSize (2 * bs + 503)
                  ∧ (fastStorage s ipl ((2 * bs + 503) % two64)).inputPos = s.inputPos
                  ∧ (fastStorage s ipl ((2 * bs + 503) % two64)).lastFlushPos = s.lastFlushPos := by
                unfold fastStorage
                split
                · exact ⟨rfl, rfl, rfl, Nat.le_max_left _ _, rfl, rfl⟩
                · obtain ⟨g1, g2, _, _, g5, _, _, _, g9, _⟩ := growStorage_frame s ((2 * bs + 503) % two64)
                  rw [St.frame_eq_iff] at g1
                  refine ⟨g5, g9, g1.2.2.2.1, ?_, g1.2.1, g2⟩
                  unfold growStorage
                  have := Nat.mod_le (2 * bs + 503) two64
                  split
                  · exact Nat.le_trans this (Nat.le_max_right _ _)
                  · exact Nat.le_max_left _ _
              rename_i hfitg
              generalize fastStorage s ipl ((2 * bs + 503) % two64) = s1 at *
              obtain ⟨g5, g9, gst, gsz, gip, glf⟩ := hs1
              obtain ⟨_, _, _, _, _, _, _, e8, e9⟩ :=
                fastEncode_fields s1 io (o s.nEnc { site := 2, lo := bs, hi := s.inputPos, isLast := il, forceFlush := ffl })
                  { site := 2, lo := bs, hi := s.inputPos, isLast := il, forceFlush := ffl } bs ipl il ffl
              obtain ⟨p1, p2⟩ := fastEncode_pending_le s1 io (o s.nEnc { site := 2, lo := bs, hi := s.inputPos, isLast := il, forceFlush := ffl })
                  { site := 2, lo := bs, hi := s.inputPos, isLast := il, forceFlush := ffl } bs ipl il ffl
              have hbsle' : bs ≤ io.availIn := by rw [← hbs]; exact Nat.min_le_right _ _
              obtain ⟨x1, x2, x3, x4⟩ := fastEncode_store_fields s1 io (o s.nEnc { site := 2, lo := bs, hi := s.inputPos, isLast := il, forceFlush := ffl })
                  { site := 2, lo := bs, hi := s.inputPos, isLast := il, forceFlush := ffl } bs ipl il ffl
              refine ⟨?_, fun hK hav => by
                obtain ⟨q1, q2⟩ := hK
                have hb0 : bs = 0 := by rw [e9] at hav; omega
                exact ⟨by rw [x1]; exact Nat.le_trans gsz (Nat.max_le.mpr ⟨q1, by omega⟩), by rw [x2, x3, gip, glf]; exact q2⟩, by omega⟩
              intro hC
              obtain ⟨q1, q2, q3⟩ := hC
              rw [g5, g9] at p1
              have hp0 : s.pending.length = 0 := hcond.1
              have hs1M : s1.storageSize ≤ M := Nat.le_trans gsz (Nat.max_le.mpr ⟨q1, by omega⟩)
              have hplM : (fastEncode s1 io (o s.nEnc { site := 2, lo := bs, hi := s.inputPos, isLast := il, forceFlush := ffl })
                  { site := 2, lo := bs, hi := s.inputPos, isLast := il, forceFlush := ffl } bs ipl il ffl).1.pending.length ≤ M := by
                cases ipl
                · -- staged: the `storage[1 + (storage_ix >> 3)]` check bounds it by the staging buffer
                  have hfit' : ¬ (s.lastBytesBits + (o s.nEnc { site := 2, lo := bs, hi := s.inputPos, isLast := il, forceFlush := ffl }).bits.length) / 8 + 2 > s1.storageSize := hfitg
                  omega
                · rw [x4 rfl, g5, hp0]; exact Nat.zero_le _
              refine ⟨?_, ⟨by rw [x1]; exact hs1M, by rw [x2, x3, e9, gip, glf]; omega, by rw [e9]; omega⟩⟩
              have hpad : ∀ t : St, padB t ≤ 4 := by intro t; unfold padB; split <;> omega
              have hpad' := hpad (fastEncode s1 io (o s.nEnc { site := 2, lo := bs, hi := s.inputPos, isLast := il, forceFlush := ffl })
                  { site := 2, lo := bs, hi := s.inputPos, isLast := il, forceFlush := ffl } bs ipl il ffl).1
              unfold fastPot
              rw [e8, e9, gst, hcond.2.1, hp0]
              simp only [↓reduceIte]
              refine pot_arith rfl hpad' hplM ?_
              by_cases hz : io.availIn = 0
              · -- nothing offered: this is the FINISH block
                have hbs0 : bs = 0 := by rw [← hbs, hz]; simp
                have hopne : op ≠ 0 := by
                  rcases hcond.2.2 with h0 | h0
                  · exact absurd hz h0
                  · exact h0
                have hilt : il = true := by
                  rw [← hil]
                  have : op = 2 := by
                    have : op = 1 ∨ op = 2 := by omega
                    rcases this with h1 | h1
                    · exfalso; apply hnff
                      rw [← hfl]
                      exact ⟨by simp [hz, hbs0, h1], hbs0⟩
                    · exact h1
                  simp [hz, hbs0, this]
                left
                refine ⟨hz, hbs0, ?_⟩
                rw [hilt]; simp
              · right
                have hbs1 : 1 ≤ bs := by
                  rw [← hbs]
                  have : 0 < 2 ^ s.params.lgwin.toNat := Nat.pow_pos (by omega)
                  omega
                have hbsle : bs ≤ io.availIn := by rw [← hbs]; exact Nat.min_le_right _ _
                refine ⟨hbs1, hbsle, ?_⟩
                generalize (if il = true then SState.finished else if ffl = true then SState.flushRequested else SState.processing) = st
                by_cases hst : st = SState.processing
                · rw [if_pos hst]; exact Nat.le_refl _
                · rw [if_neg hst]; exact Nat.zero_le _
    · simp at h

theorem fastLoop_terminates {o : Oracle} {op M : Nat} (hop : op ≤ 2) :
    ∀ fuel s io, s.lastBytesBits ≤ 14 → Cap M s io → fastPot M s io < fuel → fastLoop o op fuel s io ≠ .fuel := by
  intro fuel
  induction fuel with
  | zero => intro s io _ _ h; omega
  | succ k ih =>
    intro s io hl hC hpot
    unfold fastLoop
    have hnf := fastStep_ne_fuel o op s io
    split
    · simp
    · rename_i hh; exact absurd hh hnf
    · rename_i s1 io1 hs
      obtain ⟨d1, _, d2⟩ := fastStep_decreases (M := M) hl hop hs
      obtain ⟨d3, d4⟩ := d1 hC
      exact ih s1 io1 d2 d4 (by omega)
    · simp

end BV.Stream
