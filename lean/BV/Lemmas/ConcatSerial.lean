/-
Serialisation round trip of the concatenator state (`serialize_to_buffer` /
`deserialize_from_buffer`, and the 120-byte `BroccoliState` of the C ABI).
-/
import BV.Lemmas.ConcatBasic
namespace BV.Concat
open Outcome BV.Gen

theorem exists_cons (l : List Nat) (n : Nat) (h : n + 1 ≤ l.length) : ∃ a t, l = a :: t ∧ n ≤ t.length := by
  cases l with
  | nil => simp at h
  | cons a t => exact ⟨a, t, rfl, by simpa using h⟩

theorem exists21 (l : List Nat) (h : 21 ≤ l.length) :
    ∃ a0 a1 a2 a3 a4 a5 a6 a7 a8 a9 a10 a11 a12 a13 a14 a15 a16 a17 a18 a19 a20 tl,
      l = a0 :: a1 :: a2 :: a3 :: a4 :: a5 :: a6 :: a7 :: a8 :: a9 :: a10 :: a11 :: a12 :: a13 :: a14 :: a15 ::
          a16 :: a17 :: a18 :: a19 :: a20 :: tl := by
  obtain ⟨a0, t0, rfl, h0⟩ := exists_cons l 20 h
  obtain ⟨a1, t1, rfl, h1⟩ := exists_cons t0 19 h0
  obtain ⟨a2, t2, rfl, h2⟩ := exists_cons t1 18 h1
  obtain ⟨a3, t3, rfl, h3⟩ := exists_cons t2 17 h2
  obtain ⟨a4, t4, rfl, h4⟩ := exists_cons t3 16 h3
  obtain ⟨a5, t5, rfl, h5⟩ := exists_cons t4 15 h4
  obtain ⟨a6, t6, rfl, h6⟩ := exists_cons t5 14 h5
  obtain ⟨a7, t7, rfl, h7⟩ := exists_cons t6 13 h6
  obtain ⟨a8, t8, rfl, h8⟩ := exists_cons t7 12 h7
  obtain ⟨a9, t9, rfl, h9⟩ := exists_cons t8 11 h8
  obtain ⟨a10, t10, rfl, h10⟩ := exists_cons t9 10 h9
  obtain ⟨a11, t11, rfl, h11⟩ := exists_cons t10 9 h10
  obtain ⟨a12, t12, rfl, h12⟩ := exists_cons t11 8 h11
  obtain ⟨a13, t13, rfl, h13⟩ := exists_cons t12 7 h12
  obtain ⟨a14, t14, rfl, h14⟩ := exists_cons t13 6 h13
  obtain ⟨a15, t15, rfl, h15⟩ := exists_cons t14 5 h14
  obtain ⟨a16, t16, rfl, h16⟩ := exists_cons t15 4 h15
  obtain ⟨a17, t17, rfl, h17⟩ := exists_cons t16 3 h16
  obtain ⟨a18, t18, rfl, h18⟩ := exists_cons t17 2 h17
  obtain ⟨a19, t19, rfl, h19⟩ := exists_cons t18 1 h18
  obtain ⟨a20, t20, rfl, h20⟩ := exists_cons t19 0 h19
  exact ⟨a0, a1, a2, a3, a4, a5, a6, a7, a8, a9, a10, a11, a12, a13, a14, a15, a16, a17, a18, a19, a20, t20, rfl⟩

theorem flags_decode (a b c d : Bool) :
    (decide ((if d then b2n a ||| (b2n b <<< 6) ||| (b2n c <<< 5) ||| (1 <<< 7) else b2n a ||| (b2n b <<< 6) ||| (b2n c <<< 5)) &&& 1 ≠ 0) = a) ∧
    (decide ((if d then b2n a ||| (b2n b <<< 6) ||| (b2n c <<< 5) ||| (1 <<< 7) else b2n a ||| (b2n b <<< 6) ||| (b2n c <<< 5)) &&& (1 <<< 6) ≠ 0) = b) ∧
    (decide ((if d then b2n a ||| (b2n b <<< 6) ||| (b2n c <<< 5) ||| (1 <<< 7) else b2n a ||| (b2n b <<< 6) ||| (b2n c <<< 5)) &&& (1 <<< 5) ≠ 0) = c) ∧
    (decide ((if d then b2n a ||| (b2n b <<< 6) ||| (b2n c <<< 5) ||| (1 <<< 7) else b2n a ||| (b2n b <<< 6) ||| (b2n c <<< 5)) &&& (1 <<< 7) ≠ 0) = d) := by
  cases a <;> cases b <;> cases c <;> cases d <;> decide

/-- the flag byte written by `serialize_to_buffer` -/
def flagByte (s : State) : Nat :=
  let f := b2n s.last_byte_sanitized ||| (b2n s.new_stream_pending.isSome <<< 6) ||| (b2n s.any_bytes_emitted <<< 5)
  match s.new_stream_pending with
  | some d => if d.num_bytes_written.isSome then f ||| (1 <<< 7) else f
  | none => f

/-- explicit result of `serialize_to_buffer` on a buffer of ≥ 21 bytes -/
def serialized (s : State) (a2 a3 a4 a5 a6 a7 a12 a13 a14 a15 a16 a17 a18 a19 a20 : Nat) (tl : List Nat) : List Nat :=
  match s.new_stream_pending with
  | none => s.last_bytes.1 :: s.last_bytes.2 :: a2 :: a3 :: a4 :: a5 :: a6 :: a7 :: s.last_bytes_len :: flagByte s ::
      s.last_byte_bit_offset :: s.window_size :: a12 :: a13 :: a14 :: a15 :: a16 :: a17 :: a18 :: a19 :: a20 :: tl
  | some d => s.last_bytes.1 :: s.last_bytes.2 :: a2 :: a3 :: a4 :: a5 :: a6 :: a7 :: s.last_bytes_len :: flagByte s ::
      s.last_byte_bit_offset :: s.window_size :: d.num_bytes_read :: d.num_bytes_written.getD 0 :: a14 :: a15 ::
      d.bytes_so_far.b0 :: d.bytes_so_far.b1 :: d.bytes_so_far.b2 :: d.bytes_so_far.b3 :: d.bytes_so_far.b4 :: tl

theorem serialize_explicit (s : State) (a0 a1 a2 a3 a4 a5 a6 a7 a8 a9 a10 a11 a12 a13 a14 a15 a16 a17 a18 a19 a20 : Nat)
    (tl : List Nat) :
    serializeToBuffer s (a0 :: a1 :: a2 :: a3 :: a4 :: a5 :: a6 :: a7 :: a8 :: a9 :: a10 :: a11 :: a12 :: a13 :: a14 ::
      a15 :: a16 :: a17 :: a18 :: a19 :: a20 :: tl)
      = ok (some (serialized s a2 a3 a4 a5 a6 a7 a12 a13 a14 a15 a16 a17 a18 a19 a20 tl)) := by
  unfold serializeToBuffer
  rw [if_neg (by simp [hdr5]), if_neg (by simp)]
  obtain ⟨⟨l0, l1⟩, len, san, any, off, ws, pend⟩ := s
  cases pend with
  | none => simp [setB, setAt, serialized, flagByte]
  | some d =>
    obtain ⟨⟨b0, b1, b2, b3, b4⟩, rd, wr⟩ := d
    cases wr with
    | none => simp [setB, setAt, serialized, flagByte, hdr5, B5.toList]
    | some w => simp [setB, setAt, serialized, flagByte, hdr5, B5.toList]

theorem deserialize_explicit (s : State) (a2 a3 a4 a5 a6 a7 a12 a13 a14 a15 a16 a17 a18 a19 a20 : Nat) (tl : List Nat) :
    deserializeFromBuffer (serialized s a2 a3 a4 a5 a6 a7 a12 a13 a14 a15 a16 a17 a18 a19 a20 tl) = ok (some s) := by
  obtain ⟨⟨l0, l1⟩, len, san, any, off, ws, pend⟩ := s
  cases pend with
  | none =>
    cases san <;> cases any <;>
      simp +arith [deserializeFromBuffer, serialized, flagByte, idx, hdr5, B5.ofList?, b2n]
  | some d =>
    obtain ⟨⟨b0, b1, b2, b3, b4⟩, rd, wr⟩ := d
    cases wr with
    | none =>
      cases san <;> cases any <;>
        simp +arith [deserializeFromBuffer, serialized, flagByte, idx, hdr5, B5.ofList?, b2n]
    | some w =>
      cases san <;> cases any <;>
        simp +arith [deserializeFromBuffer, serialized, flagByte, idx, hdr5, B5.ofList?, b2n]

theorem serialized_length (s : State) (a2 a3 a4 a5 a6 a7 a12 a13 a14 a15 a16 a17 a18 a19 a20 : Nat) (tl : List Nat) :
    (serialized s a2 a3 a4 a5 a6 a7 a12 a13 a14 a15 a16 a17 a18 a19 a20 tl).length = 21 + tl.length := by
  unfold serialized
  cases s.new_stream_pending <;> simp +arith

/-- `deserialize (serialize s) = s` for EVERY state and every buffer of ≥ 21 bytes,
whatever the buffer held before (all 7 fields, both `NewStreamData` options) -/
theorem serialize_roundtrip_gen (s : State) (buf : List Nat) (h : 21 ≤ buf.length) :
    ∃ buf', serializeToBuffer s buf = ok (some buf') ∧ buf'.length = buf.length ∧
      deserializeFromBuffer buf' = ok (some s) := by
  obtain ⟨a0, a1, a2, a3, a4, a5, a6, a7, a8, a9, a10, a11, a12, a13, a14, a15, a16, a17, a18, a19, a20, tl, rfl⟩ :=
    exists21 buf h
  refine ⟨_, serialize_explicit s _ _ _ _ _ _ _ _ _ _ _ _ _ _ _ _ _ _ _ _ _ _, ?_, deserialize_explicit s _ _ _ _ _ _ _ _ _ _ _ _ _ _ _ _⟩
  rw [serialized_length]; simp +arith

/-- a buffer shorter than 21 bytes is refused by both directions (`Err(())`, no panic) -/
theorem serialize_short (s : State) (buf : List Nat) (h : buf.length < 21) :
    serializeToBuffer s buf = ok none ∧ deserializeFromBuffer buf = ok none := by
  unfold serializeToBuffer deserializeFromBuffer
  rw [hdr5, if_pos (by omega), if_pos (by omega)]
  exact ⟨rfl, rfl⟩

/-- what the C ABI does between any two calls is the identity -/
theorem saveRestore_id (s : State) : saveRestore s = ok s := by
  obtain ⟨buf', h1, _, h3⟩ := serialize_roundtrip_gen s zeroBuf120 (by decide)
  simp [saveRestore, toBroccoli, fromBroccoli, h1, h3]

theorem toBroccoli_ok (s : State) : ∃ cur, toBroccoli s = ok cur ∧ fromBroccoli cur = ok s ∧ cur.length = 120 := by
  obtain ⟨buf', h1, h2, h3⟩ := serialize_roundtrip_gen s zeroBuf120 (by decide)
  refine ⟨buf', by simp [toBroccoli, h1], by simp [fromBroccoli, h3], ?_⟩
  rw [h2]; decide

end BV.Concat
