/-
Composition of `concat_bits` with the RFC framing reader (`BV.HeaderSpec`): members made of
a window header, metadata / uncompressed meta-blocks and the empty last meta-block
(C03 `concat_stored_decodes`).
-/
import BV.Lemmas.ConcatFraming
import BV.Lemmas.ConcatChain

namespace BV.Concat
open Outcome BV.Gen BV.HeaderSpec BV.Framing

/-! ### the two `bitsOf` agree; bytes ↔ bits -/

theorem bitsOf_eq (n v : Nat) : BV.Bits.bitsOf n v = bitsOf n v := by
  induction n generalizing v with
  | zero => rfl
  | succ n ih =>
    simp only [BV.Bits.bitsOf, bitsOf, ih]
    by_cases h : v % 2 = 1 <;> simp [h]

theorem flatMap_bits_eq (m : List Nat) : m.flatMap (BV.Bits.bitsOf 8) = bytesToBits m := by
  have : BV.Bits.bitsOf 8 = bitsOf 8 := funext (bitsOf_eq 8)
  rw [this]; rfl

theorem bytesToBits_length (m : List Nat) : (bytesToBits m).length = 8 * m.length := by
  induction m with
  | nil => rfl
  | cons a t ih =>
    show (bitsOf 8 a ++ bytesToBits t).length = _
    rw [List.length_append, bitsOf_length, ih, List.length_cons]; omega

theorem bytesToBits_cons (a : Nat) (t : List Nat) : bytesToBits (a :: t) = bitsOf 8 a ++ bytesToBits t := rfl

theorem bytesToBits_drop (m : List Nat) (j : Nat) : bytesToBits (m.drop j) = (bytesToBits m).drop (8 * j) := by
  induction m generalizing j with
  | nil => simp [bytesToBits]
  | cons a t ih =>
    cases j with
    | zero => simp
    | succ j =>
      rw [List.drop_succ_cons, bytesToBits_cons, ih j]
      have : 8 * (j + 1) = (bitsOf 8 a).length + 8 * j := by rw [bitsOf_length]; omega
      rw [this, List.drop_append]
      simp [bitsOf_length]

theorem bytesToBits_take (m : List Nat) (j : Nat) : bytesToBits (m.take j) = (bytesToBits m).take (8 * j) := by
  induction m generalizing j with
  | nil => simp [bytesToBits]
  | cons a t ih =>
    cases j with
    | zero => simp [bytesToBits]
    | succ j =>
      rw [List.take_succ_cons, bytesToBits_cons, bytesToBits_cons, ih j]
      have : 8 * (j + 1) = (bitsOf 8 a).length + 8 * j := by rw [bitsOf_length]; omega
      rw [this, List.take_append]
      simp only [bitsOf_length, Nat.add_sub_cancel_left]
      rw [List.take_of_length_le (l := bitsOf 8 a) (by rw [bitsOf_length]; omega)]

/-! ### `valOf` -/

theorem valOf_append (X Y : List Bool) : BV.Bits.valOf (X ++ Y) = BV.Bits.valOf X + 2 ^ X.length * BV.Bits.valOf Y := by
  induction X with
  | nil => simp [BV.Bits.valOf]
  | cons b t ih =>
    simp only [List.cons_append, BV.Bits.valOf, ih, List.length_cons, Nat.pow_succ]
    rw [Nat.mul_add, Nat.add_assoc]
    congr 2
    rw [← Nat.mul_assoc, Nat.mul_comm 2]

theorem valOf_zeros (k : Nat) : BV.Bits.valOf (zeros k) = 0 := by
  induction k with
  | zero => rfl
  | succ k ih => simp [zeros, List.replicate_succ, BV.Bits.valOf] at ih ⊢; omega

theorem valOf_lt (X : List Bool) : BV.Bits.valOf X < 2 ^ X.length := by
  induction X with
  | nil => simp [BV.Bits.valOf]
  | cons b t ih =>
    simp only [BV.Bits.valOf, List.length_cons, Nat.pow_succ]
    cases b <;> simp <;> omega

theorem bitsOf_valOf (X : List Bool) : bitsOf X.length (BV.Bits.valOf X) = X := by
  induction X with
  | nil => rfl
  | cons b t ih =>
    simp only [List.length_cons, bitsOf, BV.Bits.valOf]
    cases b
    · simp only [Bool.false_eq_true, if_false, Nat.zero_add, Nat.mul_mod_right]
      rw [Nat.mul_div_cancel_left _ (by decide : 0 < 2), ih]
      simp
    · simp only [if_true]
      have h1 : (1 + 2 * BV.Bits.valOf t) % 2 = 1 := by omega
      have h2 : (1 + 2 * BV.Bits.valOf t) / 2 = BV.Bits.valOf t := by omega
      rw [h1, h2, ih]
      simp

theorem valOf_bitsOf' (n v : Nat) : BV.Bits.valOf (bitsOf n v) = v % 2 ^ n := by
  rw [← bitsOf_eq]; exact BV.Header.valOf_bitsOf n v

/-- a 16-bit tail that reads `X ++ [1,1] ++ 0…0` carries its end marker on `|X|` data bits -/
theorem marked_of_bits (T : Nat) (X : List Bool) (k : Nat) (hT : T < 2 ^ 16)
    (h : bitsOf 16 T = X ++ [true, true] ++ zeros k) : Marked T X.length (BV.Bits.valOf X) := by
  have hv := congrArg BV.Bits.valOf h
  rw [valOf_bitsOf', Nat.mod_eq_of_lt hT, List.append_assoc, valOf_append, valOf_append] at hv
  have h3 : BV.Bits.valOf [true, true] = 3 := by decide
  rw [h3, valOf_zeros] at hv
  refine ⟨by rw [hv]; simp; rw [Nat.mul_comm], valOf_lt X⟩

/-! ### a member made of stored / metadata meta-blocks -/

/-- reader-level description (only `BV.HeaderSpec` functions): the member's bits are a window
field, then the meta-blocks `bl` (all metadata / uncompressed), then the empty last meta-block,
and NOTHING after its padding -/
def StoredBytes (m : List Nat) (w : Nat) (lg : Bool) (bl : List MetaBlock) : Prop :=
  (∀ y, y ∈ m → y < 256) ∧
  ∃ r p' r' p'', readWbits (m.flatMap (BV.Bits.bitsOf 8)) = some (w, lg, r) ∧
    FramesTo ((m.flatMap (BV.Bits.bitsOf 8)).length - r.length) r bl p' r' ∧
    readMetaBlock p' r' = some (MetaBlock.lastEmpty, p'', [])

/-- the same, decomposed: window bits `wb`, block bits `F`, marker, `k` padding bits -/
structure StoredMember (m : List Nat) (w : Nat) (lg : Bool) (bl : List MetaBlock) (wb F : List Bool) (k : Nat) :
    Prop where
  bytes : ∀ y, y ∈ m → y < 256
  bits : bytesToBits m = wb ++ F ++ [true, true] ++ zeros k
  wread : ∀ X, readWbits (wb ++ X) = some (w, lg, X)
  wlen : wb.length = 1 ∨ wb.length = 4 ∨ wb.length = 7 ∨ wb.length = 14
  lgiff : lg = true ↔ wb.length = 14
  frames0 : FramesTo wb.length (F ++ [true, true] ++ zeros k) bl (wb.length + F.length) ([true, true] ++ zeros k)
  frames : ∀ q X, q % 8 = wb.length % 8 → FramesTo q (F ++ X) bl (q + F.length) X
  kdef : k = padLen (wb.length + F.length + 2)

theorem storedMember_of_bytes (m : List Nat) (w : Nat) (lg : Bool) (bl : List MetaBlock)
    (h : StoredBytes m w lg bl) : ∃ wb F k, StoredMember m w lg bl wb F k := by
  obtain ⟨hb, r, p', r', p'', hr, hf, hl⟩ := h
  rw [flatMap_bits_eq] at hr hf
  obtain ⟨wb, e1, hw, hwl, hlg⟩ := readWbits_local _ w lg r hr
  have hlen : (bytesToBits m).length - r.length = wb.length := by rw [e1]; simp
  rw [hlen] at hf
  obtain ⟨F, e2, e3, hmove⟩ := framesTo_move _ _ _ _ _ hf
  obtain ⟨H, B, hs⟩ := readMetaBlock_shape p' r' _ p'' [] hl (by intro m l; simp)
  have hH : H = [true, true] := hs.last.mp rfl
  have hB : B = [] := hs.lastB rfl
  have hr' : r' = [true, true] ++ zeros (padLen (p' + 2)) := by
    have := hs.split
    rw [hH, hB] at this
    simpa using this
  refine ⟨wb, F, padLen (wb.length + F.length + 2), hb, ?_, hw, hwl, hlg, ?_, fun q X hq => hmove q X hq, rfl⟩
  · rw [e1, e2, hr', e3]; simp [List.append_assoc]
  · have := hf
    rw [e2, hr', e3] at this
    simpa [List.append_assoc] using this

/-- the member itself is decoded by `decodeFraming` -/
theorem storedMember_decodes (m : List Nat) (w : Nat) (lg : Bool) (bl : List MetaBlock) (wb F : List Bool) (k : Nat)
    (h : StoredMember m w lg bl wb F k) :
    readWbits (bytesToBits m) = some (w, lg, F ++ [true, true] ++ zeros k) ∧
    decodeFraming (bl.length + 1) wb.length (F ++ [true, true] ++ zeros k) = some (bl ++ [MetaBlock.lastEmpty]) := by
  refine ⟨by rw [h.bits, List.append_assoc, List.append_assoc]; rw [← List.append_assoc F]; exact h.wread _, ?_⟩
  have := rm_last (wb.length + F.length) []
  rw [← h.kdef] at this
  exact decodeFraming_of_frames _ _ _ _ _ h.frames0 _ [] (by simpa using this)

theorem padLen_lt (p : Nat) : padLen p < 8 := by unfold padLen; omega

theorem zeros_length (k : Nat) : (zeros k).length = k := by simp [zeros]

/-- the member's end marker, located from its framing: it sits on `14 - k` data bits of the last two bytes -/
theorem StoredMember.marker {m : List Nat} {w : Nat} {lg : Bool} {bl : List MetaBlock} {wb F : List Bool} {k : Nat}
    (h : StoredMember m w lg bl wb F k) (h2 : 2 ≤ m.length) :
    ∃ pre a b D, m = pre ++ [a, b] ∧ Marked (a + (b <<< 8)) (14 - k) D ∧ k ≤ 7 ∧
      bytesToBits pre ++ bitsOf (14 - k) D = wb ++ F := by
  have hk : k ≤ 7 := by rw [h.kdef]; have := padLen_lt (wb.length + F.length + 2); omega
  obtain ⟨a, b, hab⟩ := list_len2 (m.drop (m.length - 2)) (by rw [List.length_drop]; omega)
  have hm : m = m.take (m.length - 2) ++ [a, b] := by rw [← hab, List.take_append_drop]
  have ha : a < 256 := h.bytes a (by rw [hm]; simp)
  have hb : b < 256 := h.bytes b (by rw [hm]; simp)
  have hT : a + (b <<< 8) < 2 ^ 16 := by rw [Nat.shiftLeft_eq]; omega
  have hbits16 : bytesToBits [a, b] = bitsOf 16 (a + (b <<< 8)) := by
    have := bits_le2 (a + (b <<< 8))
    rw [Nat.shiftLeft_eq] at this ⊢
    have e1 : (a + b * 2 ^ 8) % 256 = a := by omega
    have e2 : (a + b * 2 ^ 8) / 256 = b := by omega
    rw [e1, e2] at this
    exact this
  have htot := h.bits
  rw [hm, bytesToBits_append, hbits16] at htot
  -- lengths
  have hlen := congrArg List.length htot
  simp only [List.length_append, bytesToBits_length, bitsOf_length, List.length_cons, List.length_nil,
    zeros_length] at hlen
  have hZ : (wb ++ F) = ((wb ++ F).take (8 * (m.take (m.length - 2)).length)) ++
      ((wb ++ F).drop (8 * (m.take (m.length - 2)).length)) := (List.take_append_drop _ _).symm
  have hZl : (wb ++ F).length = 8 * (m.take (m.length - 2)).length + (14 - k) := by
    simp only [List.length_append]; omega
  have htake : (wb ++ F).take (8 * (m.take (m.length - 2)).length) = bytesToBits (m.take (m.length - 2)) := by
    have := congrArg (List.take (8 * (m.take (m.length - 2)).length)) htot
    rw [List.take_left' (bytesToBits_length _), List.append_assoc, List.append_assoc, ← List.append_assoc wb,
      List.take_append_of_le_length (by omega)] at this
    exact this.symm
  have hdrop : bitsOf 16 (a + (b <<< 8)) =
      (wb ++ F).drop (8 * (m.take (m.length - 2)).length) ++ [true, true] ++ zeros k := by
    have := congrArg (List.drop (8 * (m.take (m.length - 2)).length)) htot
    rw [List.drop_left' (bytesToBits_length _), List.append_assoc, List.append_assoc, ← List.append_assoc wb,
      List.drop_append_of_le_length (by omega)] at this
    rw [this]; simp [List.append_assoc]
  have hXl : ((wb ++ F).drop (8 * (m.take (m.length - 2)).length)).length = 14 - k := by
    rw [List.length_drop, hZl]; omega
  have hmk := marked_of_bits _ _ k hT hdrop
  rw [hXl] at hmk
  refine ⟨_, a, b, _, hm, hmk, hk, ?_⟩
  have := bitsOf_valOf ((wb ++ F).drop (8 * (m.take (m.length - 2)).length))
  rw [hXl] at this
  rw [this, ← htake, List.take_append_drop]

/-- first block / remaining blocks of a member that has at least one block -/
theorem StoredMember.first {m : List Nat} {w : Nat} {lg : Bool} {b1 : MetaBlock} {bl' : List MetaBlock}
    {wb F : List Bool} {k : Nat} (h : StoredMember m w lg (b1 :: bl') wb F k) :
    ∃ H B C, F = H ++ zeros (padLen (wb.length + H.length)) ++ B ++ C ∧ B.length % 8 = 0 ∧ 2 ≤ H.length ∧
      ((∀ mm l, b1 ≠ MetaBlock.compressed mm l) ∧ b1 ≠ MetaBlock.lastEmpty) ∧
      (∀ q X, readMetaBlock q (H ++ zeros (padLen (q + H.length)) ++ B ++ X)
        = some (b1, q + H.length + padLen (q + H.length) + B.length, X)) ∧
      (∀ q X, q % 8 = 0 → FramesTo q (C ++ X) bl' (q + C.length) X) ∧
      BlockShape wb.length (F ++ [true, true] ++ zeros k) b1
        (wb.length + H.length + padLen (wb.length + H.length) + B.length) (C ++ ([true, true] ++ zeros k)) H B := by
  cases h.frames0 with
  | cons _ _ _ p1 r1 _ _ _ hread hkind hrest =>
    obtain ⟨H, B, hs⟩ := readMetaBlock_shape _ _ _ _ _ hread hkind.1
    obtain ⟨C, e1, e2, hmove⟩ := framesTo_move _ _ _ _ _ hrest
    have hp1 : p1 % 8 = 0 := by
      rw [hs.pos_eq]; have := hs.body8; unfold padLen; omega
    have hF : F = H ++ zeros (padLen (wb.length + H.length)) ++ B ++ C := by
      have := hs.split
      rw [e1] at this
      have h2 : F ++ ([true, true] ++ zeros k) =
          (H ++ zeros (padLen (wb.length + H.length)) ++ B ++ C) ++ ([true, true] ++ zeros k) := by
        rw [← List.append_assoc F] ; rw [this]; simp [List.append_assoc]
      exact List.append_cancel_right h2
    refine ⟨H, B, C, hF, hs.body8, hs.hdr2, hkind, hs.anywhere, fun q X hq => hmove q X (by omega), ?_⟩
    have hs' := hs
    rw [e1, hs.pos_eq] at hs'
    exact hs'

theorem take_drop_take (L : List Bool) (N a h : Nat) (hle : a + h ≤ N) :
    ((L.take N).drop a).take h = (L.drop a).take h := by
  rw [List.drop_take, List.take_take]
  congr 1
  omega

theorem pad_arith (k' h : Nat) : 8 * ((k' + (h + 0) + 7) / 8) - k' - h = padLen (k' + h) := by
  unfold padLen; omega

/-! ### reading the later members in the output -/

/-- the bits a later member contributes when it starts at bit position `q` -/
def chunkBits (q : Nat) (H B C : List Bool) : List Bool := H ++ zeros (padLen (q + H.length)) ++ B ++ C

/-- reader-side facts about a later member's pieces: first block (`H`, `B`) readable at any
position, remaining blocks (`C`) readable at any byte boundary; `n` = alignment of its end marker -/
structure ChunkSpec (bl : List MetaBlock) (H B C : List Bool) (n : Nat) : Prop where
  first : ∃ b1 bl', bl = b1 :: bl' ∧ ((∀ mm l, b1 ≠ MetaBlock.compressed mm l) ∧ b1 ≠ MetaBlock.lastEmpty) ∧
    (∀ q X, readMetaBlock q (H ++ zeros (padLen (q + H.length)) ++ B ++ X)
      = some (b1, q + H.length + padLen (q + H.length) + B.length, X)) ∧
    (∀ q X, q % 8 = 0 → FramesTo q (C ++ X) bl' (q + C.length) X)
  b8 : B.length % 8 = 0
  cmod : (C.length + 2 + (14 - n)) % 8 = 0
  nrange : 7 ≤ n ∧ n ≤ 14

theorem chunk_frames (bl : List MetaBlock) (H B C : List Bool) (n : Nat) (h : ChunkSpec bl H B C n)
    (q : Nat) (X : List Bool) :
    FramesTo q (chunkBits q H B C ++ X) bl (q + (chunkBits q H B C).length) X ∧
    (q + (chunkBits q H B C).length) % 8 = n % 8 := by
  obtain ⟨b1, bl', rfl, hkind, hany, hrest⟩ := h.first
  have hlen : (chunkBits q H B C).length = H.length + padLen (q + H.length) + B.length + C.length := by
    simp [chunkBits, zeros]; omega
  have hq1 : (q + H.length + padLen (q + H.length) + B.length) % 8 = 0 := by
    have := h.b8; unfold padLen; omega
  constructor
  · refine FramesTo.cons q _ b1 (q + H.length + padLen (q + H.length) + B.length) (C ++ X) bl' _ X ?_ hkind ?_
    · have := hany q (C ++ X)
      simpa [chunkBits, List.append_assoc] using this
    · have := hrest _ X hq1
      rw [hlen]
      have e : q + (H.length + padLen (q + H.length) + B.length + C.length)
          = q + H.length + padLen (q + H.length) + B.length + C.length := by omega
      rw [e]; exact this
  · rw [hlen]
    have := h.cmod; have := h.nrange
    omega

/-- all later members, with their block lists -/
inductive LaterAll (ws : Nat) : List MemberData → List (List MetaBlock) → Prop where
  | nil : LaterAll ws [] []
  | cons (d : MemberData) (ds : List MemberData) (bl : List MetaBlock) (bls : List (List MetaBlock))
      (H B C : List Bool) (hok : MemberOK ws d)
      (hbits : ∀ nprev, gapBits nprev d ++ restData d = chunkBits (if nprev < 8 then nprev else nprev - 8) H B C)
      (hspec : ChunkSpec bl H B C d.n) (hrest : LaterAll ws ds bls) : LaterAll ws (d :: ds) (bl :: bls)

theorem later_frames (ws : Nat) (ds : List MemberData) (bls : List (List MetaBlock)) (h : LaterAll ws ds bls) :
    ∀ nprev q X, q % 8 = nprev % 8 → 7 ≤ nprev ∧ nprev ≤ 14 →
      FramesTo q (laterBits nprev ds ++ X) bls.flatten (q + (laterBits nprev ds).length) X ∧
      (q + (laterBits nprev ds).length) % 8 = (lastN nprev ds) % 8 ∧
      (7 ≤ lastN nprev ds ∧ lastN nprev ds ≤ 14) ∧
      (∀ d, d ∈ ds → MemberOK ws d) := by
  induction h with
  | nil =>
    intro nprev q X hq hn
    simp only [laterBits, lastN, List.flatten_nil, List.nil_append, List.length_nil, Nat.add_zero]
    exact ⟨FramesTo.nil q X, hq, hn, fun d hd => by simp at hd⟩
  | cons d ds bl bls H B C hok hbits hspec _ ih =>
    intro nprev q X hq hn
    have hpad : chunkBits (if nprev < 8 then nprev else nprev - 8) H B C = chunkBits q H B C := by
      unfold chunkBits
      rw [padLen_mod ((if nprev < 8 then nprev else nprev - 8) + H.length) (q + H.length) (by split <;> omega)]
    have hb := hbits nprev
    rw [hpad] at hb
    obtain ⟨f1, f2⟩ := chunk_frames bl H B C d.n hspec q (laterBits d.n ds ++ X)
    obtain ⟨g1, g2, g3, g4⟩ := ih d.n (q + (chunkBits q H B C).length) X f2 hspec.nrange
    have hlb : laterBits nprev (d :: ds) = chunkBits q H B C ++ laterBits d.n ds := by
      simp only [laterBits]; rw [hb]
    refine ⟨?_, ?_, g3, fun d' hd' => ?_⟩
    · rw [hlb, List.flatten_cons, List.append_assoc]
      have e : q + (chunkBits q H B C ++ laterBits d.n ds).length
          = q + (chunkBits q H B C).length + (laterBits d.n ds).length := by
        rw [List.length_append]; omega
      rw [e]
      exact framesTo_append _ _ _ _ _ _ _ _ f1 g1
    · rw [hlb, List.length_append]
      simp only [lastN]
      rw [← g2]; congr 1; omega
    · rcases List.mem_cons.mp hd' with e | e
      · rw [e]; exact hok
      · exact g4 d' e

/-- a later stored member provides everything `concat_bits` and the reader need -/
theorem later_of_stored (ws : Nat) (m : List Nat) (w : Nat) (lg : Bool) (b1 : MetaBlock) (bl' : List MetaBlock)
    (wb F : List Bool) (k : Nat) (h : StoredMember m w lg (b1 :: bl') wb F k)
    (hlong : need (m.headD 0) + 2 ≤ m.length)
    (hparse : parseWindowSize (m.take (need (m.headD 0))) = ok (some (w, wb.length)))
    (hwle : ¬ w > (ws &&& NOT_LARGE_WINDOW_FLAG))
    (hform : ¬ (decide (wb.length = 14)) ≠ (decide ((ws &&& LARGE_WINDOW_FLAG) ≠ 0)))
    (hdet : ∀ H B p1 r1, BlockShape wb.length (F ++ [true, true] ++ zeros k) b1 p1 r1 H B →
      detectVarlenOffset (m.take (need (m.headD 0))) = ok (some (wb.length + H.length)) ∧
      (wb.length + H.length + 7) / 8 ≤ need (m.headD 0)) :
    ∃ d H B C, d.m = m ∧ MemberOK ws d ∧
      (∀ nprev, gapBits nprev d ++ restData d = chunkBits (if nprev < 8 then nprev else nprev - 8) H B C) ∧
      ChunkSpec (b1 :: bl') H B C d.n := by
  obtain ⟨H, B, C, hF, hb8, hH2, hkind, hany, hrestf, hshape⟩ := h.first
  obtain ⟨hdetv, hfit⟩ := hdet H B _ _ hshape
  have h4 : 4 ≤ need (m.headD 0) := by unfold need; split <;> omega
  obtain ⟨pre, a, b, D, hm, hmark, hk7, hdata⟩ := h.marker (by omega)
  have hla : need (m.headD 0) ≤ m.length := by omega
  -- positions
  have hsrc8 : 8 * ((wb.length + H.length + 7) / 8) = wb.length + H.length + padLen (wb.length + H.length) := by
    unfold padLen; omega
  have hpre : pre.length + 2 = m.length := by rw [hm]; simp
  have hsrcpre : (wb.length + H.length + 7) / 8 ≤ pre.length := by omega
  have htot := congrArg List.length h.bits
  rw [hF] at htot
  simp only [List.length_append, bytesToBits_length, zeros_length, List.length_cons, List.length_nil] at htot
  refine ⟨⟨m, wb.length, wb.length + H.length, 14 - k, D⟩, H, B, C, rfl, ?_, ?_, ?_⟩
  · exact ⟨h.bytes, by show need (m.headD 0) + 1 ≤ m.length; omega, ⟨w, hparse, hwle⟩, hform, hdetv, hfit,
      by show (wb.length + H.length + 7) / 8 + 2 ≤ m.length; omega, ⟨pre, a, b, hm, hmark⟩⟩
  · intro nprev
    unfold gapBits restData chunkBits
    dsimp only
    have hv : wb.length + H.length - wb.length = H.length := by omega
    -- the header bits
    have hE1 : ((bytesToBits (m.take (need (m.headD 0)))).drop wb.length).take H.length = H := by
      rw [bytesToBits_take, take_drop_take _ _ _ _ (by omega), h.bits, hF]
      simp only [List.append_assoc]
      rw [List.drop_left' rfl, List.take_left' rfl]
    -- the padding
    have hE2 : 8 * (((if nprev < 8 then nprev else nprev - 8) + (wb.length + H.length) - wb.length + 7) / 8) -
        (if nprev < 8 then nprev else nprev - 8) - H.length
        = padLen ((if nprev < 8 then nprev else nprev - 8) + H.length) := by
      unfold padLen; split <;> omega
    -- the rest of the member
    have hdrop : m.drop ((wb.length + H.length + 7) / 8) = pre.drop ((wb.length + H.length + 7) / 8) ++ [a, b] := by
      rw [hm, List.drop_append_of_le_length hsrcpre]
    have hE3 : bytesToBits ((m.drop ((wb.length + H.length + 7) / 8)).take
          ((m.drop ((wb.length + H.length + 7) / 8)).length - 2)) ++ bitsOf (14 - k) D = B ++ C := by
      rw [hdrop]
      simp only [List.length_append, List.length_cons, List.length_nil, Nat.add_sub_cancel]
      rw [List.take_left' rfl, bytesToBits_drop]
      have h1 : (bytesToBits pre).drop (8 * ((wb.length + H.length + 7) / 8)) ++ bitsOf (14 - k) D
          = (bytesToBits pre ++ bitsOf (14 - k) D).drop (8 * ((wb.length + H.length + 7) / 8)) := by
        rw [List.drop_append_of_le_length (by rw [bytesToBits_length]; omega)]
      rw [h1, hdata, hF, hsrc8]
      have : wb ++ (H ++ zeros (padLen (wb.length + H.length)) ++ B ++ C)
          = (wb ++ H ++ zeros (padLen (wb.length + H.length))) ++ (B ++ C) := by simp [List.append_assoc]
      rw [this, List.drop_left' (by simp [zeros_length]; omega)]
    rw [hv, hE1, hE2, hE3]
    simp [List.append_assoc, zeros]
  · refine ⟨⟨b1, bl', rfl, hkind, hany, hrestf⟩, hb8, ?_, by dsimp only; omega⟩
    dsimp only
    have := padLen_lt (wb.length + H.length)
    unfold padLen at htot this
    omega

/-- The whole output read back by the RFC framing reader. -/
theorem stored_output_decodes (fuel : Nat) (s : State) (m0 : List Nat) (w0 : Nat) (lg0 : Bool)
    (bl0 : List MetaBlock) (wb0 F0 : List Bool) (k0 : Nat) (bufs0 : List (List Nat)) (caps0 : List Nat)
    (ds : List MemberData) (bls : List (List MetaBlock)) (rest : List (List (List Nat) × List Nat)) (R : Run)
    (cap : Nat) (hI : Inv s) (hws : s.window_size = 0)
    (h0 : StoredMember m0 w0 lg0 bl0 wb0 F0 k0) (hlong0 : need (m0.headD 0) + 1 ≤ m0.length)
    (hparse0 : parseWindowSize (m0.take (need (m0.headD 0))) = ok (some (w0, wb0.length)))
    (hne0 : bufs0 ≠ []) (hfl0 : bufs0.flatten = m0)
    (hlater : LaterAll (w0 ||| (if wb0.length = 14 then LARGE_WINDOW_FLAG else 0)) ds bls)
    (hfed : Fed ds rest) (hcap : 2 ≤ cap)
    (hrun : concatAll fuel s ((bufs0, caps0) :: rest) [] = some R) :
    R.code = NEEDS_MORE_INPUT ∧
    ∃ st p r, finish R.st cap = ok ⟨st, SUCCESS, 0, p⟩ ∧
      readWbits (bytesToBits (R.emitted ++ p)) = some (w0, lg0, r) ∧
      bytesToBits (R.emitted ++ p) = wb0 ++ r ∧
      decodeFraming (bl0.length + bls.flatten.length + 1) wb0.length r
        = some (bl0 ++ bls.flatten ++ [MetaBlock.lastEmpty]) := by
  have h4 : 4 ≤ need (m0.headD 0) := by unfold need; split <;> omega
  obtain ⟨pre0, a0, b0, D0, hm0, hmark0, hk7, hdata0⟩ := h0.marker (by omega)
  -- the run (as in `concat_bits`)
  unfold concatAll at hrun
  cases hr : runAll fuel (newBrotliFile s) bufs0 caps0 [] with
  | none => rw [hr] at hrun; simp at hrun
  | some r0 =>
    rw [hr] at hrun
    dsimp only at hrun
    obtain ⟨hcode0, hwsr, hB⟩ := first_boundary fuel s m0 pre0 a0 b0 (14 - k0) D0 w0 wb0.length bufs0 caps0 r0 hI hws
      h0.bytes hlong0 hparse0 hm0 hmark0 hne0 hfl0 hr
    have hnt : isTerminal r0.code = false := by rw [hcode0]; rfl
    rw [hnt] at hrun
    simp only [Bool.false_eq_true, if_false] at hrun
    -- positions
    have htot := congrArg List.length h0.bits
    simp only [List.length_append, bytesToBits_length, zeros_length, List.length_cons, List.length_nil] at htot
    have hq : (wb0.length + F0.length) % 8 = (14 - k0) % 8 := by omega
    obtain ⟨g1, g2, g3, g4⟩ := later_frames _ ds bls hlater (14 - k0) (wb0.length + F0.length)
      ([true, true] ++ zeros (14 - lastN (14 - k0) ds)) hq (by omega)
    obtain ⟨hc, D', hfin⟩ := later_members fuel ds rest hfed r0.st r0.emitted (14 - k0) D0 _ R hB
      (fun d hd => by rw [hwsr]; exact g4 d hd) hrun
    obtain ⟨st, p, hf, hbits⟩ := finish_boundary R.st R.emitted _ D' _ cap hfin hcap
    -- the output bits
    have hO : bytesToBits (R.emitted ++ p) = wb0 ++ (F0 ++ (laterBits (14 - k0) ds ++
        ([true, true] ++ zeros (14 - lastN (14 - k0) ds)))) := by
      rw [hbits, hdata0]; simp [List.append_assoc, zeros]
    refine ⟨hc, st, p, _, hf, by rw [hO]; exact h0.wread _, hO, ?_⟩
    have f0 := h0.frames wb0.length (laterBits (14 - k0) ds ++ ([true, true] ++ zeros (14 - lastN (14 - k0) ds))) rfl
    have fall := framesTo_append _ _ _ _ _ _ _ _ f0 g1
    have hlast := rm_last (wb0.length + F0.length + (laterBits (14 - k0) ds).length) []
    have hpad : padLen (wb0.length + F0.length + (laterBits (14 - k0) ds).length + 2) = 14 - lastN (14 - k0) ds := by
      unfold padLen; omega
    rw [hpad] at hlast
    have := decodeFraming_of_frames _ _ _ _ _ fall _ [] (by simpa using hlast)
    rw [List.length_append] at this
    exact this

end BV.Concat
