/-
The exact final decoder state of one `CreateBackwardReferences` call under the chain's hypotheses, and `faithful`
(the additional command hypothesis of the quality ≥ 4 writer theorems `full_metablock_roundtrip` / `wmbi_full_roundtrip`)
for its command array (w-compose).  `BlockOK` is BV/Props/C01Chain.lean's.
-/
import BV.Props.C01Chain
import BV.Lemmas.CbrOpen
import BV.Lemmas.ReplayFaithful

namespace BV.Props.C01Chain
open BV.Hasher BV.MatchFinder BV.Recoder BV.PrefixArith BV.MetaBlock BV.Cbr BV.Catable

/-- **`cbr_final_state`** — after the closed command array of one call the RFC decoder has produced `hist ++ mb`, stands
at the end of the meta-block, and its distance ring is the first four entries of the `dist_cache` the call RETURNS
(the statement `commands_lockstep` leaves to the harness oracle) -/
theorem cbr_final_state {H : Type} (ops : HasherOps H) (p : Params) (large : Bool) (wo : WordOracle)
    (data : ByteArray) (k tail : Nat) (hist mb : Bytes) (lo : Nat)
    (hb : BlockOK p large data k tail hist mb lo) (hops : OpsOK (SlotOK wo) ops p data k)
    (numBytes position : Nat) (h0 : H) (cache : List Int) (lastInsertLen numLiterals : Nat) (res : Result H)
    (hpos : position = hist.length + lastInsertLen) (hmb : mb.length = lastInsertLen + numBytes)
    (hc : CacheI32 cache) (hcl : 4 ≤ cache.length)
    (h : createBackwardReferences ops p numBytes position h0 cache lastInsertLen numLiterals = some res) :
    decSteps wo 0 0 (maxBackwardLimit p) mb ⟨hist, cache.take 4, 0⟩ (closeMetaBlock res.cmds res.lastInsertLen)
      = some ⟨hist ++ mb, res.cache.take 4, mb.length⟩ ∧ CacheI32 res.cache ∧ 4 ≤ res.cache.length := by
  have h32 : mb.length < 2 ^ 32 := by have := hb.len; omega
  obtain ⟨d', hopen, hout, hcur, hring, hci, hcl', _⟩ := cbr_open (C := ⟨wo, data, k, hist, mb, lo⟩) hops
    (emitHyp_all ⟨wo, data, k, hist, mb, lo⟩ p large hb.np hb.nd tail hb.ring hb.tail_le hb.block_le hb.lo_le hb.window
      hb.std hb.dist hb.len)
    numBytes position h0 cache lastInsertLen numLiterals res hpos hmb hb.total hc hcl h
  simp only [hb.np, hb.nd] at hopen
  have hdec := openSteps_dec _ _ _ _ _ _ _ _ hopen
  have hlast : res.lastInsertLen = mb.length - d'.cursor := by simp only at hcur; omega
  have hclose := decSteps_close wo 0 0 (maxBackwardLimit p) hist mb d' hout (by simp only at hcur; omega) h32
  refine ⟨?_, hci, hcl'⟩
  rw [closeMetaBlock_split, decSteps_append _ _ _ _ _ _ _ _ _ hdec, hlast, hclose, hring]

/-- **`cbr_faithful`** — the command array of one call is `faithful`: after every command the decoder's output is
`hist ++` a prefix of the block -/
theorem cbr_faithful {H : Type} (ops : HasherOps H) (p : Params) (large : Bool) (wo : WordOracle)
    (data : ByteArray) (k tail : Nat) (hist mb : Bytes) (lo : Nat)
    (hb : BlockOK p large data k tail hist mb lo) (hops : OpsOK (SlotOK wo) ops p data k)
    (numBytes position : Nat) (h0 : H) (cache : List Int) (lastInsertLen numLiterals : Nat) (res : Result H)
    (hpos : position = hist.length + lastInsertLen) (hmb : mb.length = lastInsertLen + numBytes)
    (hc : CacheI32 cache) (hcl : 4 ≤ cache.length)
    (h : createBackwardReferences ops p numBytes position h0 cache lastInsertLen numLiterals = some res) :
    faithful wo 0 0 (maxBackwardLimit p) mb hist ⟨hist, cache.take 4, 0⟩ (closeMetaBlock res.cmds res.lastInsertLen) :=
  faithful_of_final wo 0 0 (maxBackwardLimit p) mb hist _ ⟨hist, cache.take 4, 0⟩ (res.cache.take 4) (by simp)
    (cbr_final_state ops p large wo data k tail hist mb lo hb hops numBytes position h0 cache lastInsertLen numLiterals
      res hpos hmb hc hcl h).1

end BV.Props.C01Chain
