/-
C08: the hypothesis `Guard` of the stream bound, PROVED from a model of the size decision of
`WriteMetaBlockInternal` (`BV.Stored.writeMetaBlockInternal`): the verdict of `should_compress`
and the bits of the compressed attempt are arbitrary; the "stored when bigger than input + 4"
fallback (and the header size of `store_uncompressed_meta_block`: 4/5/6 MLEN nibbles +
ISUNCOMPRESSED + alignment) bound the growth of the whole-byte position by `len + 4`
(`len + 5` above 2^20).
-/
import BV.Lemmas.HeaderStreamBound
namespace BV.Stored
open BV.Bits BV.Header BV.Bits.Out BV.HeaderSpec

/-- number of MLEN nibbles of a meta-block of `len` bytes -/
def nibsOf (len : Nat) : Nat := if len ≤ 2 ^ 16 then 4 else if len ≤ 2 ^ 20 then 5 else 6

theorem log2_range (n k : Nat) (hn : n ≠ 0) : (Nat.log2 n + 1 ≤ k ↔ n < 2 ^ k) := by
  rw [← Nat.log2_lt hn]; omega

theorem encodeMlen_spec (len : Nat) (h1 : 1 ≤ len) (h2 : len ≤ 2 ^ 24) :
    encodeMlen (len % 2 ^ 32) = ok (len - 1, 4 * nibsOf len, nibsOf len - 4) := by
  have hm : len % 2 ^ 32 = len := Nat.mod_eq_of_lt (by omega)
  rw [hm]
  by_cases hone : len = 1
  · subst hone; decide
  · have hne : len - 1 ≠ 0 := by omega
    have hw : (len + 2 ^ 32 - 1) % 2 ^ 32 = len - 1 := by omega
    have k16 := log2_range (len - 1) 16 hne
    have k20 := log2_range (len - 1) 20 hne
    have k24 := log2_range (len - 1) 24 hne
    have k15 := log2_range (len - 1) 15 hne
    simp only [encodeMlen, hone, if_false, hw, log2Floor]
    generalize Nat.log2 (len - 1) + 1 = lg at *
    have hlg24 : lg ≤ 24 := k24.mpr (by omega)
    have g1 : ¬ ¬ len > 0 := by omega
    have g2 : ¬ ¬ len ≤ 2 ^ 24 := by omega
    have g3 : ¬ ¬ lg ≤ 24 := by omega
    simp only [g1, g2, g3, if_false]
    have hmn : (if lg < 16 then 16 else lg + 3) / 4 = nibsOf len := by
      simp only [nibsOf]
      by_cases c16 : len ≤ 2 ^ 16
      · have : lg ≤ 16 := k16.mpr (by omega)
        simp only [c16, if_true]
        split <;> omega
      · have a : ¬ lg ≤ 16 := fun h => by have := k16.mp h; omega
        have : ¬ lg < 16 := by omega
        simp only [c16, this, if_false]
        by_cases c20 : len ≤ 2 ^ 20
        · have b : lg ≤ 20 := k20.mpr (by omega)
          simp only [c20, if_true]; omega
        · have a : ¬ lg ≤ 20 := fun h => by have := k20.mp h; omega
          simp only [c20, if_false]; omega
    rw [hmn, Nat.mul_comm]

theorem nibsOf_range (len : Nat) : 4 ≤ nibsOf len ∧ nibsOf len ≤ 6 := by
  simp only [nibsOf]; split <;> try split
  all_goals omega

/-- `store_uncompressed_meta_block(false, data)`: exact form and length -/
theorem storeUncompressed_false (data : List Nat) (w : Writer) (h1 : 1 ≤ data.length) (h2 : data.length ≤ 2 ^ 24) :
    ∃ b, storeUncompressedMetaBlock false data w = ok b ∧
      b.length = (w.length + (4 + 4 * nibsOf data.length) + 7) / 8 * 8 + 8 * data.length := by
  obtain ⟨n4, n6⟩ := nibsOf_range data.length
  have hx : data.length - 1 < 2 ^ (4 * nibsOf data.length) := by
    simp only [nibsOf]
    split
    · show _ < 2 ^ 16; omega
    · split
      · show _ < 2 ^ 20; omega
      · show _ < 2 ^ 24; omega
  simp only [storeUncompressedMetaBlock, storeUncompressedMetaBlockHeader, lit, litsUnc,
    BV.Gen.lits_StoreUncompressedMetaBlockHeader, List.getD_cons_zero, List.getD_cons_succ,
    encodeMlen_spec data.length h1 h2]
  rw [writeBits_ok 1 0 w (by decide) (by decide)]
  simp only [Out.bind_ok]
  rw [writeBits_ok 2 (nibsOf data.length - 4) _ (by omega) (by decide)]
  simp only [Out.bind_ok]
  have hm : 4 * nibsOf data.length % 256 = 4 * nibsOf data.length := by omega
  rw [hm, writeBits_ok (4 * nibsOf data.length) (data.length - 1) _ hx (by omega)]
  simp only [Out.bind_ok]
  rw [writeBits_ok 1 1 _ (by decide) (by decide)]
  simp only [Out.bind_ok, Bool.false_eq_true, if_false]
  refine ⟨_, rfl, ?_⟩
  rw [appendBytes_length, jump_length]
  simp
  omega

/-- with `is_final_block` the same block is followed by bits `1,1` and padding: one more byte -/
theorem storeUncompressed_true (data : List Nat) (w b : Writer)
    (hb : storeUncompressedMetaBlock false data w = ok b) (h8 : b.length % 8 = 0) :
    ∃ f, storeUncompressedMetaBlock true data w = ok f ∧ f.length = b.length + 8 := by
  simp only [storeUncompressedMetaBlock] at hb ⊢
  cases hh : storeUncompressedMetaBlockHeader data.length w with
  | panic => rw [hh] at hb; simp at hb
  | fuel => rw [hh] at hb; simp at hb
  | ok a =>
    rw [hh] at hb
    simp only [Out.bind_ok, Bool.false_eq_true, if_false] at hb
    cases hb
    simp only [Out.bind_ok, if_true, lit, BV.Gen.lits_store_uncompressed_meta_block, List.getD_cons_zero,
      List.getD_cons_succ]
    rw [writeBits_ok 1 1 _ (by decide) (by decide)]
    simp only [Out.bind_ok]
    rw [writeBits_ok 1 1 _ (by decide) (by decide)]
    simp only [Out.bind_ok]
    refine ⟨_, rfl, ?_⟩
    rw [jump_length]
    simp [bitsOf]
    omega

theorem writeEmptyLast_length (w : Writer) :
    ∃ f, writeEmptyLastMetaBlock w = ok f ∧ f.length = (w.length + 2 + 7) / 8 * 8 := by
  simp only [writeEmptyLastMetaBlock, lit, BV.Gen.lits_WriteEmptyLastMetaBlock, List.getD_cons_zero,
    List.getD_cons_succ]
  rw [writeBits_ok 1 1 w (by decide) (by decide)]
  simp only [Out.bind_ok]
  rw [writeBits_ok 1 1 _ (by decide) (by decide)]
  simp only [Out.bind_ok]
  exact ⟨_, rfl, by rw [jump_length]; simp [bitsOf]⟩

set_option linter.unusedSimpArgs false in
/-- **guard**: whatever `should_compress` says and whatever bits the compressed attempt
produced, `WriteMetaBlockInternal` on a meta-block of `1 ≤ len ≤ 2^24` bytes started at a storage
position below 256 bits does not panic, and the data-carrying block ends at a whole-byte position
at most `len + 4` (`len + 5` above 2^20) beyond the one it started in; what follows it is at most
the empty last meta-block (2 bits, padded). -/
theorem wmbi_guard (appendable catable actualIsLast : Bool) (data : List Nat) (o : MbOracle) (w : Writer)
    (hcat : catable = true → appendable = true)
    (h1 : 1 ≤ data.length) (h2 : data.length ≤ 2 ^ 24) (hw : w.length < 256) :
    ∃ r, writeMetaBlockInternal appendable catable actualIsLast data o w = ok r ∧
      Guard w.length data.length r.body.length ∧
      w.length ≤ r.body.length ∧
      r.body.length ≤ r.fin.length ∧ r.fin.length ≤ (r.body.length + 2 + 7) / 8 * 8 ∧
      True := by
  obtain ⟨n4, n6⟩ := nibsOf_range data.length
  have hnz : ¬ data.length = 0 := by omega
  have hpan : (!appendable && catable) = false := by
    cases appendable <;> cases catable <;> simp_all
  -- the stored representation
  obtain ⟨b, hb, hbl⟩ := storeUncompressed_false data w h1 h2
  have hb8 : b.length % 8 = 0 := by rw [hbl]; omega
  have hbg : Guard w.length data.length b.length ∧ w.length ≤ b.length := by
    simp only [Guard, hbl, nibsOf]
    split
    · have : ¬ data.length > 2 ^ 20 := by omega
      simp only [this, if_false]; omega
    · split
      · have : ¬ data.length > 2 ^ 20 := by omega
        simp only [this, if_false]; omega
      · have : data.length > 2 ^ 20 := by omega
        simp only [this, if_true]; omega
  obtain ⟨f1, hf1, hf1l⟩ := storeUncompressed_true data w b hb hb8
  obtain ⟨e, he, hel⟩ := writeEmptyLast_length b
  have hstored : ∃ r, ((storeUncompressedMetaBlock false data w).bind fun b =>
        (storeUncompressedMetaBlock (if appendable then false else actualIsLast) data w).bind fun f =>
        if (if appendable then false else actualIsLast) = true then ok { body := b, fin := f }
        else (if (actualIsLast != (if appendable then false else actualIsLast)) = true then
                (writeEmptyLastMetaBlock f).bind fun f' => ok { body := f, fin := f' }
              else ok { body := f, fin := f } : Out MbOut)) = ok r ∧
      Guard w.length data.length r.body.length ∧ w.length ≤ r.body.length ∧
      r.body.length ≤ r.fin.length ∧ r.fin.length ≤ (r.body.length + 2 + 7) / 8 * 8 := by
    rw [hb]
    simp only [Out.bind]
    cases appendable <;> cases actualIsLast <;>
      simp only [if_true, if_false, Bool.false_eq_true, hb, hf1, he, Out.bind, bne_self_eq_false, Bool.true_bne,
        Bool.bne_true, Bool.not_false, Bool.not_true, bne_iff_ne, ne_eq] <;>
      first
        | exact ⟨_, rfl, hbg.1, hbg.2, by simp only []; omega, by simp only []; omega⟩
        | exact ⟨_, rfl, hbg.1, hbg.2, Nat.le_refl _, by omega⟩
  simp only [writeMetaBlockInternal, hpan, Bool.false_eq_true, if_false, lit, litsWmbi,
    BV.Gen.lits_WriteMetaBlockInternal, List.getD_cons_zero, List.getD_cons_succ, hnz, Nat.shiftRight_eq_div_pow]
  cases hsc : o.shouldCompress
  · simp only [Bool.not_false, if_true]
    obtain ⟨r, hr, g1, g2, g3, g4⟩ := hstored
    exact ⟨r, hr, g1, g2, g3, g4, trivial⟩
  · simp only [Bool.not_true, Bool.false_eq_true, if_false]
    by_cases hbig : data.length + 4 + w.length / 2 ^ 3 < (w ++ o.attempt).length / 2 ^ 3
    · simp only [hbig, if_true]
      have : ¬ (w.length % 256 ≠ w.length) := by
        rw [Nat.mod_eq_of_lt hw]; simp
      simp only [this, if_false]
      obtain ⟨r, hr, g1, g2, g3, g4⟩ := hstored
      exact ⟨r, hr, g1, g2, g3, g4, trivial⟩
    · simp only [hbig, if_false]
      have hg : Guard w.length data.length (w ++ o.attempt).length := by
        simp only [Guard]
        have : (2 : Nat) ^ 3 = 8 := rfl
        rw [this] at hbig
        split <;> omega
      obtain ⟨e2, he2, he2l⟩ := writeEmptyLast_length (w ++ o.attempt)
      cases appendable <;> cases actualIsLast <;>
        simp only [if_true, if_false, Bool.false_eq_true, he2, Out.bind, bne_self_eq_false, Bool.true_bne,
          Bool.bne_true, Bool.not_false, Bool.not_true] <;>
        first
          | exact ⟨_, rfl, hg, by simp, Nat.le_refl _, by omega, trivial⟩
          | exact ⟨_, rfl, hg, by simp, by simp only []; omega, by simp only []; omega, trivial⟩

/-- `Guard` only looks at whole-byte positions: it is invariant under the bytes already delivered -/
theorem guard_shift (D a len b : Nat) (h : Guard a len b) : Guard (8 * D + a) len (8 * D + b) := by
  simp only [Guard] at h ⊢
  split at h <;> split <;> omega

/-- a never-flushed run of meta-blocks written by `WriteMetaBlockInternal`: each element is
the block's data, the payload coder's free choices, and the `is_last` flag; `P` is the global bit
position, `D` the bytes already handed out, `w` the staging storage of that `encode_data` call
(carry bits, on the first call preceded by the stream head) -/
inductive RunW (app cat : Bool) : Nat → List (List Nat × MbOracle × Bool) → Nat → Prop
  | nil (P : Nat) : RunW app cat P [] P
  | cons {P D P'' : Nat} {w : Writer} {data : List Nat} {o : MbOracle} {last : Bool} {r : MbOut}
      {rest : List (List Nat × MbOracle × Bool)} :
      P = 8 * D + w.length → w.length < 256 →
      writeMetaBlockInternal app cat last data o w = ok r →
      RunW app cat (8 * D + r.body.length) rest P'' →
      RunW app cat P ((data, o, last) :: rest) P''

/-- every `RunW` is a `Run`: `Guard` holds of each step by `wmbi_guard`, whatever the oracle values -/
theorem runW_run {app cat : Bool} (hcat : cat = true → app = true) {P P' : Nat}
    {steps : List (List Nat × MbOracle × Bool)} (h : RunW app cat P steps P')
    (hlen : ∀ st ∈ steps, 1 ≤ st.1.length ∧ st.1.length ≤ 2 ^ 24) :
    Run P (steps.map (·.1.length)) P' := by
  induction h with
  | nil P => exact Run.nil P
  | @cons P D P'' w data o last r rest hP hw hr _ ih =>
    obtain ⟨l1, l2⟩ := hlen (data, o, last) (by simp)
    obtain ⟨r', hr', g, _⟩ := wmbi_guard app cat last data o w hcat l1 l2 hw
    rw [hr] at hr'
    cases hr'
    simp only [List.map_cons]
    refine Run.cons ?_ (ih (fun st hst => hlen st (by simp [hst])))
    rw [hP]
    exact guard_shift D _ _ _ g

/-- the head of a stream (window bits, magic block with ≤ 10 size-hint bytes, catable
prelude) is shorter than 256 bits, so the `storage_ix as u8` of the rewind is exact -/
theorem headLen_lt_256 (W k pre : Nat) (magic : Bool) (hW : W ≤ 14) (hk : k ≤ 10) (hp : pre ≤ 2) :
    headLen W magic k pre < 256 := by
  simp only [headLen]
  cases magic <;> simp only [if_true, if_false, Bool.false_eq_true] <;> split <;> omega

end BV.Stored
