/-
The RFC framing reader of `BV.HeaderSpec` (written by another worker, imported unchanged) on
re-aligned meta-block headers: locality and re-alignment of `readMetaBlock` (C03
`concat_stored_decodes`).  Nothing here mentions the concatenator.
-/
import BV.Lemmas.HeaderBits

namespace BV.Framing
open BV.Bits BV.HeaderSpec

/-- zero padding from bit position `p` to the next byte boundary -/
def padLen (p : Nat) : Nat := (8 - p % 8) % 8
def zeros (k : Nat) : List Bool := List.replicate k false

theorem takeVal_some {n : Nat} {bs : List Bool} {v : Nat} {r : List Bool} (h : takeVal n bs = some (v, r)) :
    bs = bs.take n ++ r ∧ (bs.take n).length = n ∧ v = valOf (bs.take n) := by
  unfold takeVal at h
  split at h
  · simp only [Option.some.injEq, Prod.mk.injEq] at h
    obtain ⟨rfl, rfl⟩ := h
    exact ⟨(List.take_append_drop n bs).symm, by simp; omega, rfl⟩
  · simp at h

theorem takeVal_app (A X : List Bool) : takeVal A.length (A ++ X) = some (valOf A, X) := by
  unfold takeVal
  simp

theorem skipPad_some {pos : Nat} {bs r : List Bool} (h : skipPad pos bs = some r) :
    bs = zeros (padLen pos) ++ r := by
  unfold skipPad at h
  dsimp only at h
  split at h
  · rename_i hc
    simp only [Option.some.injEq] at h
    subst h
    have hz : List.take ((8 - pos % 8) % 8) bs = zeros (padLen pos) := by
      unfold zeros padLen
      apply List.eq_replicate_iff.mpr
      refine ⟨by simp; omega, fun b hb => ?_⟩
      have := List.all_eq_true.mp hc.2 b hb
      simpa using this
    rw [← hz, List.take_append_drop]
  · simp at h

theorem skipPad_zeros (pos : Nat) (r : List Bool) : skipPad pos (zeros (padLen pos) ++ r) = some r :=
  BV.Header.skipPad_pad pos r

theorem takeBytes_some : ∀ (n : Nat) (bs : List Bool) (l : List Nat) (r : List Bool),
    takeBytes n bs = some (l, r) →
    ∃ B, bs = B ++ r ∧ B.length = 8 * n ∧ ∀ X, takeBytes n (B ++ X) = some (l, X) := by
  intro n
  induction n with
  | zero =>
    intro bs l r h
    simp only [takeBytes, Option.some.injEq, Prod.mk.injEq] at h
    obtain ⟨rfl, rfl⟩ := h
    exact ⟨[], rfl, rfl, fun X => rfl⟩
  | succ n ih =>
    intro bs l r h
    unfold takeBytes at h
    cases hv : takeVal 8 bs with
    | none => rw [hv] at h; simp at h
    | some p =>
      obtain ⟨b, r1⟩ := p
      rw [hv] at h
      dsimp only at h
      cases ht : takeBytes n r1 with
      | none => rw [ht] at h; simp at h
      | some p2 =>
        obtain ⟨l2, r2⟩ := p2
        rw [ht] at h
        simp only [Option.some.injEq, Prod.mk.injEq] at h
        obtain ⟨rfl, rfl⟩ := h
        obtain ⟨e1, e2, e3⟩ := takeVal_some hv
        obtain ⟨B, eB, lB, hB⟩ := ih r1 l2 r2 ht
        refine ⟨bs.take 8 ++ B, by rw [List.append_assoc, ← eB]; exact e1, by simp [e2, lB]; omega, fun X => ?_⟩
        unfold takeBytes
        have : takeVal 8 (List.take 8 bs ++ B ++ X) = some (b, B ++ X) := by
          have := takeVal_app (bs.take 8) (B ++ X)
          rw [e2, ← e3, ← List.append_assoc] at this
          exact this
        rw [this]
        dsimp only
        rw [hB X]

/-- what a successful read of a meta-block that needs no entropy decoding looks like: header
bits `H`, zero padding to the byte boundary, whole-byte body `B`; and the same block is read at
ANY other position `q` when the padding is re-computed for `q`, whatever follows. -/
structure BlockShape (pos : Nat) (bs : List Bool) (b : MetaBlock) (pos' : Nat) (r' : List Bool)
    (H B : List Bool) : Prop where
  split : bs = H ++ zeros (padLen (pos + H.length)) ++ B ++ r'
  body8 : B.length % 8 = 0
  pos_eq : pos' = pos + H.length + padLen (pos + H.length) + B.length
  hdr2 : 2 ≤ H.length
  last : b = MetaBlock.lastEmpty ↔ H = [true, true]
  lastB : b = MetaBlock.lastEmpty → B = []
  first : ∀ x, H.head? = some x → (x = true ↔ b = MetaBlock.lastEmpty)
  anywhere : ∀ q X, readMetaBlock q (H ++ zeros (padLen (q + H.length)) ++ B ++ X)
    = some (b, q + H.length + padLen (q + H.length) + B.length, X)

theorem padLen_congr (a b : Nat) (h : a = b) : padLen a = padLen b := by rw [h]

/-- evaluation: the empty last meta-block -/
theorem rm_last (q : Nat) (X : List Bool) :
    readMetaBlock q ([true, true] ++ zeros (padLen (q + 2)) ++ [] ++ X)
      = some (MetaBlock.lastEmpty, q + 2 + padLen (q + 2) + 0, X) := by
  have e : q + 1 + 1 = q + 2 := by omega
  simp only [readMetaBlock, List.cons_append, List.nil_append, List.append_nil, if_true, e, skipPad_zeros,
    Option.map_some]
  rfl

/-- evaluation: a metadata meta-block -/
theorem rm_meta (q : Nat) (s0 s1 : Bool) (XB B : List Bool) (l : List Nat) (X : List Bool)
    (hXB : XB.length = 8 * valOf [s0, s1])
    (hchk : ¬ (valOf [s0, s1] > 1 ∧ valOf XB / 2 ^ (8 * (valOf [s0, s1] - 1)) = 0))
    (hB : ∀ Y, takeBytes (if valOf [s0, s1] = 0 then 0 else valOf XB + 1) (B ++ Y) = some (l, Y)) :
    readMetaBlock q (([false, true, true, false, s0, s1] ++ XB) ++
        zeros (padLen (q + ([false, true, true, false, s0, s1] ++ XB).length)) ++ B ++ X)
      = some (MetaBlock.metadata l, q + ([false, true, true, false, s0, s1] ++ XB).length +
          padLen (q + ([false, true, true, false, s0, s1] ++ XB).length) + B.length, X) := by
  have hlen : ([false, true, true, false, s0, s1] ++ XB).length = 6 + 8 * valOf [s0, s1] := by
    simp [hXB]; omega
  rw [hlen]
  have hpos : q + 1 + 2 + 3 + 8 * valOf [s0, s1] = q + (6 + 8 * valOf [s0, s1]) := by omega
  have h2 : takeVal 2 (true :: true :: false :: s0 :: s1 :: (XB ++ (zeros (padLen (q + (6 + 8 * valOf [s0, s1]))) ++ (B ++ X))))
      = some (3, false :: s0 :: s1 :: (XB ++ (zeros (padLen (q + (6 + 8 * valOf [s0, s1]))) ++ (B ++ X)))) := by
    simp [takeVal, valOf]
  have h3 : takeVal 2 (s0 :: s1 :: (XB ++ (zeros (padLen (q + (6 + 8 * valOf [s0, s1]))) ++ (B ++ X))))
      = some (valOf [s0, s1], XB ++ (zeros (padLen (q + (6 + 8 * valOf [s0, s1]))) ++ (B ++ X))) := by
    simp [takeVal]
  have h4 : takeVal (8 * valOf [s0, s1]) (XB ++ (zeros (padLen (q + (6 + 8 * valOf [s0, s1]))) ++ (B ++ X)))
      = some (valOf XB, zeros (padLen (q + (6 + 8 * valOf [s0, s1]))) ++ (B ++ X)) := by
    rw [← hXB]; exact takeVal_app XB _
  simp only [readMetaBlock, List.cons_append, List.nil_append, List.append_assoc, Bool.false_eq_true, if_false, h2,
    if_true, h3, h4, hpos, hchk, skipPad_zeros, hB, Option.map_some]
  have hBl : B.length = 8 * (if valOf [s0, s1] = 0 then 0 else valOf XB + 1) := by
    have := hB []
    rw [List.append_nil] at this
    obtain ⟨B', e1, e2, _⟩ := takeBytes_some _ _ _ _ this
    rw [List.append_nil] at e1
    rw [e1]; exact e2
  rw [hBl]
  rfl

end BV.Framing
