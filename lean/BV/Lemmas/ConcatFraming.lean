/-
The RFC framing reader of `BV.HeaderSpec` (written by another worker, imported unchanged) on
re-aligned meta-block headers: locality and re-alignment of `readMetaBlock` (C03
`concat_stored_decodes`).  Nothing here mentions the concatenator.
-/
import BV.Lemmas.HeaderBits

namespace BV.Framing
open BV.Bits BV.HeaderSpec

/-- zero padding from bit position `p` to the next byte boundary -/
def padLen (p : Nat) : Nat := (8 - p % 8) % 8
def zeros (k : Nat) : List Bool := List.replicate k false

theorem takeVal_some {n : Nat} {bs : List Bool} {v : Nat} {r : List Bool} (h : takeVal n bs = some (v, r)) :
    bs = bs.take n ++ r ∧ (bs.take n).length = n ∧ v = valOf (bs.take n) := by
  unfold takeVal at h
  split at h
  · simp only [Option.some.injEq, Prod.mk.injEq] at h
    obtain ⟨rfl, rfl⟩ := h
    exact ⟨(List.take_append_drop n bs).symm, by simp; omega, rfl⟩
  · simp at h

theorem takeVal_app (A X : List Bool) : takeVal A.length (A ++ X) = some (valOf A, X) := by
  unfold takeVal
  simp

theorem skipPad_some {pos : Nat} {bs r : List Bool} (h : skipPad pos bs = some r) :
    bs = zeros (padLen pos) ++ r := by
  unfold skipPad at h
  dsimp only at h
  split at h
  · rename_i hc
    simp only [Option.some.injEq] at h
    subst h
    have hz : List.take ((8 - pos % 8) % 8) bs = zeros (padLen pos) := by
      unfold zeros padLen
      apply List.eq_replicate_iff.mpr
      refine ⟨by simp; omega, fun b hb => ?_⟩
      have := List.all_eq_true.mp hc.2 b hb
      simpa using this
    rw [← hz, List.take_append_drop]
  · simp at h

theorem skipPad_zeros (pos : Nat) (r : List Bool) : skipPad pos (zeros (padLen pos) ++ r) = some r :=
  BV.Header.skipPad_pad pos r

theorem takeBytes_some : ∀ (n : Nat) (bs : List Bool) (l : List Nat) (r : List Bool),
    takeBytes n bs = some (l, r) →
    ∃ B, bs = B ++ r ∧ B.length = 8 * n ∧ ∀ X, takeBytes n (B ++ X) = some (l, X) := by
  intro n
  induction n with
  | zero =>
    intro bs l r h
    simp only [takeBytes, Option.some.injEq, Prod.mk.injEq] at h
    obtain ⟨rfl, rfl⟩ := h
    exact ⟨[], rfl, rfl, fun X => rfl⟩
  | succ n ih =>
    intro bs l r h
    unfold takeBytes at h
    cases hv : takeVal 8 bs with
    | none => rw [hv] at h; simp at h
    | some p =>
      obtain ⟨b, r1⟩ := p
      rw [hv] at h
      dsimp only at h
      cases ht : takeBytes n r1 with
      | none => rw [ht] at h; simp at h
      | some p2 =>
        obtain ⟨l2, r2⟩ := p2
        rw [ht] at h
        simp only [Option.some.injEq, Prod.mk.injEq] at h
        obtain ⟨rfl, rfl⟩ := h
        obtain ⟨e1, e2, e3⟩ := takeVal_some hv
        obtain ⟨B, eB, lB, hB⟩ := ih r1 l2 r2 ht
        refine ⟨bs.take 8 ++ B, by rw [List.append_assoc, ← eB]; exact e1, by simp [e2, lB]; omega, fun X => ?_⟩
        unfold takeBytes
        have : takeVal 8 (List.take 8 bs ++ B ++ X) = some (b, B ++ X) := by
          have := takeVal_app (bs.take 8) (B ++ X)
          rw [e2, ← e3, ← List.append_assoc] at this
          exact this
        rw [this]
        dsimp only
        rw [hB X]

/-- what a successful read of a meta-block that needs no entropy decoding looks like: header
bits `H`, zero padding to the byte boundary, whole-byte body `B`; and the same block is read at
ANY other position `q` when the padding is re-computed for `q`, whatever follows. -/
structure BlockShape (pos : Nat) (bs : List Bool) (b : MetaBlock) (pos' : Nat) (r' : List Bool)
    (H B : List Bool) : Prop where
  split : bs = H ++ zeros (padLen (pos + H.length)) ++ B ++ r'
  body8 : B.length % 8 = 0
  pos_eq : pos' = pos + H.length + padLen (pos + H.length) + B.length
  hdr2 : 2 ≤ H.length
  last : b = MetaBlock.lastEmpty ↔ H = [true, true]
  lastB : b = MetaBlock.lastEmpty → B = []
  first : ∀ x, H.head? = some x → (x = true ↔ b = MetaBlock.lastEmpty)
  /-- the three header forms: empty-last; metadata (reserved bit 0, 2 bits MSKIPBYTES, the length
  bytes); uncompressed (2 bits MNIBBLES ≠ 3, the length nibbles, ISUNCOMPRESSED = 1) -/
  form : H = [true, true] ∨
    (∃ s0 s1 XB, H = [false, true, true, false, s0, s1] ++ XB ∧ XB.length = 8 * valOf [s0, s1]) ∨
    (∃ c0 c1 XB, H = [false, c0, c1] ++ XB ++ [true] ∧ valOf [c0, c1] ≠ 3 ∧ XB.length = 4 * (4 + valOf [c0, c1]))
  anywhere : ∀ q X, readMetaBlock q (H ++ zeros (padLen (q + H.length)) ++ B ++ X)
    = some (b, q + H.length + padLen (q + H.length) + B.length, X)

theorem padLen_congr (a b : Nat) (h : a = b) : padLen a = padLen b := by rw [h]

/-- evaluation: the empty last meta-block -/
theorem rm_last (q : Nat) (X : List Bool) :
    readMetaBlock q ([true, true] ++ zeros (padLen (q + 2)) ++ [] ++ X)
      = some (MetaBlock.lastEmpty, q + 2 + padLen (q + 2) + 0, X) := by
  have e : q + 1 + 1 = q + 2 := by omega
  simp only [readMetaBlock, List.cons_append, List.nil_append, List.append_nil, if_true, e, skipPad_zeros,
    Option.map_some]
  rfl

/-- evaluation: a metadata meta-block -/
theorem rm_meta (q : Nat) (s0 s1 : Bool) (XB B : List Bool) (l : List Nat) (X : List Bool)
    (hXB : XB.length = 8 * valOf [s0, s1])
    (hchk : ¬ (valOf [s0, s1] > 1 ∧ valOf XB / 2 ^ (8 * (valOf [s0, s1] - 1)) = 0))
    (hB : ∀ Y, takeBytes (if valOf [s0, s1] = 0 then 0 else valOf XB + 1) (B ++ Y) = some (l, Y)) :
    readMetaBlock q (([false, true, true, false, s0, s1] ++ XB) ++
        zeros (padLen (q + ([false, true, true, false, s0, s1] ++ XB).length)) ++ B ++ X)
      = some (MetaBlock.metadata l, q + ([false, true, true, false, s0, s1] ++ XB).length +
          padLen (q + ([false, true, true, false, s0, s1] ++ XB).length) + B.length, X) := by
  have hlen : ([false, true, true, false, s0, s1] ++ XB).length = 6 + 8 * valOf [s0, s1] := by
    simp [hXB]; omega
  rw [hlen]
  have hpos : q + 1 + 2 + 3 + 8 * valOf [s0, s1] = q + (6 + 8 * valOf [s0, s1]) := by omega
  have h2 : takeVal 2 (true :: true :: false :: s0 :: s1 :: (XB ++ (zeros (padLen (q + (6 + 8 * valOf [s0, s1]))) ++ (B ++ X))))
      = some (3, false :: s0 :: s1 :: (XB ++ (zeros (padLen (q + (6 + 8 * valOf [s0, s1]))) ++ (B ++ X)))) := by
    simp [takeVal, valOf]
  have h3 : takeVal 2 (s0 :: s1 :: (XB ++ (zeros (padLen (q + (6 + 8 * valOf [s0, s1]))) ++ (B ++ X))))
      = some (valOf [s0, s1], XB ++ (zeros (padLen (q + (6 + 8 * valOf [s0, s1]))) ++ (B ++ X))) := by
    simp [takeVal]
  have h4 : takeVal (8 * valOf [s0, s1]) (XB ++ (zeros (padLen (q + (6 + 8 * valOf [s0, s1]))) ++ (B ++ X)))
      = some (valOf XB, zeros (padLen (q + (6 + 8 * valOf [s0, s1]))) ++ (B ++ X)) := by
    rw [← hXB]; exact takeVal_app XB _
  simp only [readMetaBlock, List.cons_append, List.nil_append, List.append_assoc, Bool.false_eq_true, if_false, h2,
    if_true, h3, h4, hpos, hchk, skipPad_zeros, hB, Option.map_some]
  have hBl : B.length = 8 * (if valOf [s0, s1] = 0 then 0 else valOf XB + 1) := by
    have := hB []
    rw [List.append_nil] at this
    obtain ⟨B', e1, e2, _⟩ := takeBytes_some _ _ _ _ this
    rw [List.append_nil] at e1
    rw [e1]; exact e2
  rw [hBl]
  rfl

/-- evaluation: an uncompressed meta-block -/
theorem rm_raw (q : Nat) (c0 c1 : Bool) (XB B : List Bool) (l : List Nat) (X : List Bool)
    (hmn : valOf [c0, c1] ≠ 3) (hXB : XB.length = 4 * (4 + valOf [c0, c1]))
    (hchk : ¬ (4 + valOf [c0, c1] > 4 ∧ valOf XB / 2 ^ (4 * (4 + valOf [c0, c1] - 1)) = 0))
    (hB : ∀ Y, takeBytes (valOf XB + 1) (B ++ Y) = some (l, Y)) :
    readMetaBlock q (([false, c0, c1] ++ XB ++ [true]) ++
        zeros (padLen (q + ([false, c0, c1] ++ XB ++ [true]).length)) ++ B ++ X)
      = some (MetaBlock.raw l, q + ([false, c0, c1] ++ XB ++ [true]).length +
          padLen (q + ([false, c0, c1] ++ XB ++ [true]).length) + B.length, X) := by
  have hlen : ([false, c0, c1] ++ XB ++ [true]).length = 4 + 4 * (4 + valOf [c0, c1]) := by
    simp [hXB]; omega
  rw [hlen]
  have hpos : q + 1 + 2 + 4 * (4 + valOf [c0, c1]) + 1 = q + (4 + 4 * (4 + valOf [c0, c1])) := by omega
  have h2 : takeVal 2 (c0 :: c1 :: (XB ++ (true :: (zeros (padLen (q + (4 + 4 * (4 + valOf [c0, c1])))) ++ (B ++ X)))))
      = some (valOf [c0, c1], XB ++ (true :: (zeros (padLen (q + (4 + 4 * (4 + valOf [c0, c1])))) ++ (B ++ X)))) := by
    simp [takeVal]
  have h4 : takeVal (4 * (4 + valOf [c0, c1])) (XB ++ (true :: (zeros (padLen (q + (4 + 4 * (4 + valOf [c0, c1])))) ++ (B ++ X))))
      = some (valOf XB, true :: (zeros (padLen (q + (4 + 4 * (4 + valOf [c0, c1])))) ++ (B ++ X))) := by
    rw [← hXB]; exact takeVal_app XB _
  simp only [readMetaBlock, List.cons_append, List.nil_append, List.append_assoc, Bool.false_eq_true, if_false, h2,
    hmn, h4, hpos, hchk, skipPad_zeros, hB, Option.map_some]
  have hBl : B.length = 8 * (valOf XB + 1) := by
    have := hB []
    rw [List.append_nil] at this
    obtain ⟨B', e1, e2, _⟩ := takeBytes_some _ _ _ _ this
    rw [List.append_nil] at e1
    rw [e1]; exact e2
  rw [hBl]
  rfl

theorem shape_of_eval (pos : Nat) (bs : List Bool) (b : MetaBlock) (pos' : Nat) (r' : List Bool) (H B : List Bool)
    (b0 : MetaBlock)
    (h : readMetaBlock pos bs = some (b, pos', r'))
    (hsplit : bs = H ++ zeros (padLen (pos + H.length)) ++ B ++ r')
    (heval : ∀ q X, readMetaBlock q (H ++ zeros (padLen (q + H.length)) ++ B ++ X)
      = some (b0, q + H.length + padLen (q + H.length) + B.length, X))
    (hB8 : B.length % 8 = 0) (h2 : 2 ≤ H.length) (hlast : b0 = MetaBlock.lastEmpty ↔ H = [true, true])
    (hlastB : b0 = MetaBlock.lastEmpty → B = [])
    (hfirst : ∀ x, H.head? = some x → (x = true ↔ b0 = MetaBlock.lastEmpty))
    (hform : H = [true, true] ∨
      (∃ s0 s1 XB, H = [false, true, true, false, s0, s1] ++ XB ∧ XB.length = 8 * valOf [s0, s1]) ∨
      (∃ c0 c1 XB, H = [false, c0, c1] ++ XB ++ [true] ∧ valOf [c0, c1] ≠ 3 ∧ XB.length = 4 * (4 + valOf [c0, c1]))) :
    BlockShape pos bs b pos' r' H B := by
  have := heval pos r'
  rw [← hsplit, h] at this
  simp only [Option.some.injEq, Prod.mk.injEq] at this
  obtain ⟨rfl, rfl, _⟩ := this
  exact ⟨hsplit, hB8, rfl, h2, hlast, hlastB, hfirst, hform, heval⟩

theorem takeBytes_len8 {n : Nat} {B : List Bool} {l : List Nat} (hB : ∀ Y, takeBytes n (B ++ Y) = some (l, Y)) :
    B.length % 8 = 0 := by
  have := hB []
  rw [List.append_nil] at this
  obtain ⟨B', e1, e2, _⟩ := takeBytes_some _ _ _ _ this
  rw [List.append_nil] at e1
  rw [e1, e2]; omega

/-- every meta-block the reader accepts without entropy decoding has this shape -/
theorem readMetaBlock_shape (pos : Nat) (bs : List Bool) (b : MetaBlock) (pos' : Nat) (r' : List Bool)
    (h : readMetaBlock pos bs = some (b, pos', r')) (hb : ∀ m l, b ≠ MetaBlock.compressed m l) :
    ∃ H B, BlockShape pos bs b pos' r' H B := by
  have h0 := h
  cases bs with
  | nil => simp [readMetaBlock] at h
  | cons isLast r1 =>
    cases isLast with
    | true =>
      cases r1 with
      | nil => simp [readMetaBlock] at h
      | cons e r =>
        cases e with
        | true =>
          simp only [readMetaBlock, if_true, Option.map_eq_some_iff] at h
          obtain ⟨rr, hsk, hrr⟩ := h
          simp only [Prod.mk.injEq] at hrr
          obtain ⟨_, _, rfl⟩ := hrr
          have hsp := skipPad_some hsk
          have e2 : pos + 1 + 1 = pos + 2 := by omega
          rw [e2] at hsp
          refine ⟨[true, true], [], shape_of_eval pos _ b pos' rr _ _ MetaBlock.lastEmpty h0 ?_ rm_last rfl
            (by simp) (by simp) (fun _ => rfl) (by simp) (Or.inl rfl)⟩
          simp [hsp]
        | false =>
          exfalso
          simp only [readMetaBlock, if_true] at h
          cases hv : takeVal 2 r with
          | none => rw [hv] at h; simp at h
          | some p =>
            obtain ⟨mn, rr⟩ := p
            rw [hv] at h
            dsimp only at h
            by_cases h3 : mn = 3
            · simp [h3] at h
            · rw [if_neg h3] at h
              cases hv2 : takeVal (4 * (4 + mn)) rr with
              | none => rw [hv2] at h; simp at h
              | some p2 =>
                obtain ⟨x, r2⟩ := p2
                rw [hv2] at h
                dsimp only at h
                split at h
                · simp at h
                · simp only [Option.some.injEq, Prod.mk.injEq] at h
                  exact hb _ _ h.1.symm
    | false =>
      simp only [readMetaBlock, Bool.false_eq_true, if_false] at h
      cases hv : takeVal 2 r1 with
      | none => rw [hv] at h; simp at h
      | some p =>
        obtain ⟨mn, rr⟩ := p
        rw [hv] at h
        dsimp only at h
        obtain ⟨e1, e2, e3⟩ := takeVal_some hv
        -- the two MNIBBLES bits
        obtain ⟨c0, c1, hc⟩ : ∃ c0 c1, r1.take 2 = [c0, c1] := by
          match hl : r1.take 2, e2 with
          | [c0, c1], _ => exact ⟨c0, c1, rfl⟩
        rw [hc] at e1 e3
        by_cases h3 : mn = 3
        · -- metadata
          rw [if_pos h3] at h
          cases rr with
          | nil => simp at h
          | cons rsv r2 =>
            cases rsv with
            | true => simp at h
            | false =>
              dsimp only at h
              cases hv2 : takeVal 2 r2 with
              | none => rw [hv2] at h; simp at h
              | some p2 =>
                obtain ⟨sb, r3⟩ := p2
                rw [hv2] at h
                dsimp only at h
                obtain ⟨f1, f2, f3⟩ := takeVal_some hv2
                obtain ⟨s0, s1, hs⟩ : ∃ s0 s1, r2.take 2 = [s0, s1] := by
                  match hl : r2.take 2, f2 with
                  | [s0, s1], _ => exact ⟨s0, s1, rfl⟩
                rw [hs] at f1 f3
                cases hv3 : takeVal (8 * sb) r3 with
                | none => rw [hv3] at h; simp at h
                | some p3 =>
                  obtain ⟨x, r4⟩ := p3
                  rw [hv3] at h
                  dsimp only at h
                  obtain ⟨g1, g2, g3⟩ := takeVal_some hv3
                  by_cases hchk : sb > 1 ∧ x / 2 ^ (8 * (sb - 1)) = 0
                  · rw [if_pos hchk] at h; simp at h
                  rw [if_neg hchk] at h
                  cases hsk : skipPad (pos + 1 + 2 + 3 + 8 * sb) r4 with
                  | none => rw [hsk] at h; simp at h
                  | some r5 =>
                    rw [hsk] at h
                    dsimp only at h
                    simp only [Option.map_eq_some_iff] at h
                    obtain ⟨pr, htb, hpr⟩ := h
                    obtain ⟨l, r6⟩ := pr
                    simp only [Prod.mk.injEq] at hpr
                    obtain ⟨_, _, rfl⟩ := hpr
                    obtain ⟨B, eB, lB, hB⟩ := takeBytes_some _ _ _ _ htb
                    have hsp := skipPad_some hsk
                    have hc01 : c0 = true ∧ c1 = true := by
                      rw [e3] at h3
                      cases c0 <;> cases c1 <;> simp [valOf] at h3 ⊢
                    obtain ⟨rfl, rfl⟩ := hc01
                    generalize hXdef : r3.take (8 * sb) = XB at g1 g2 g3
                    have hXBl : XB.length = 8 * valOf [s0, s1] := by rw [g2, f3]
                    have hHl : ([false, true, true, false, s0, s1] ++ XB).length = 6 + 8 * sb := by
                      simp [g2]; omega
                    refine ⟨[false, true, true, false, s0, s1] ++ XB, B,
                      shape_of_eval pos _ b pos' r6 _ _ (MetaBlock.metadata l) h0 ?_ ?_ (takeBytes_len8 hB)
                        (by simp) (by simp) (by simp) (by simp) (Or.inr (Or.inl ⟨s0, s1, XB, rfl, hXBl⟩))⟩
                    · have hp : pos + 1 + 2 + 3 + 8 * sb = pos + (6 + 8 * sb) := by omega
                      rw [hp] at hsp
                      rw [hHl, e1, f1, g1, hsp, eB]
                      simp [List.append_assoc]
                    · intro q X
                      refine rm_meta q s0 s1 _ B l X hXBl ?_ ?_
                      · rw [← f3, ← g3]; exact hchk
                      · rw [← f3, ← g3]; exact hB
        · -- uncompressed (or compressed: excluded)
          rw [if_neg h3] at h
          cases hv2 : takeVal (4 * (4 + mn)) rr with
          | none => rw [hv2] at h; simp at h
          | some p2 =>
            obtain ⟨x, r2⟩ := p2
            rw [hv2] at h
            dsimp only at h
            obtain ⟨g1, g2, g3⟩ := takeVal_some hv2
            by_cases hchk : 4 + mn > 4 ∧ x / 2 ^ (4 * (4 + mn - 1)) = 0
            · rw [if_pos hchk] at h; simp at h
            rw [if_neg hchk] at h
            try simp only [Bool.false_eq_true, if_false] at h
            cases r2 with
            | nil => simp at h
            | cons u r3 =>
              cases u with
              | false =>
                exfalso
                simp only [Option.some.injEq, Prod.mk.injEq] at h
                exact hb _ _ h.1.symm
              | true =>
                dsimp only at h
                cases hsk : skipPad (pos + 1 + 2 + 4 * (4 + mn) + 1) r3 with
                | none => rw [hsk] at h; simp at h
                | some r5 =>
                  rw [hsk] at h
                  dsimp only at h
                  simp only [Option.map_eq_some_iff] at h
                  obtain ⟨pr, htb, hpr⟩ := h
                  obtain ⟨l, r6⟩ := pr
                  simp only [Prod.mk.injEq] at hpr
                  obtain ⟨_, _, rfl⟩ := hpr
                  obtain ⟨B, eB, lB, hB⟩ := takeBytes_some _ _ _ _ htb
                  have hsp := skipPad_some hsk
                  have hmn : valOf [c0, c1] ≠ 3 := by rw [← e3]; exact h3
                  generalize hXdef : rr.take (4 * (4 + mn)) = XB at g1 g2 g3
                  have hXBl : XB.length = 4 * (4 + valOf [c0, c1]) := by rw [g2, e3]
                  have hHl : ([false, c0, c1] ++ XB ++ [true]).length = 4 + 4 * (4 + mn) := by
                    simp [g2]; omega
                  refine ⟨[false, c0, c1] ++ XB ++ [true], B,
                    shape_of_eval pos _ b pos' r6 _ _ (MetaBlock.raw l) h0 ?_ ?_ (takeBytes_len8 hB)
                      (by simp) (by simp) (by simp) (by simp) (Or.inr (Or.inr ⟨c0, c1, XB, rfl, hmn, hXBl⟩))⟩
                  · have hp : pos + 1 + 2 + 4 * (4 + mn) + 1 = pos + (4 + 4 * (4 + mn)) := by omega
                    rw [hp] at hsp
                    rw [hHl, e1, g1, hsp, eB]
                    simp [List.append_assoc]
                  · intro q X
                    refine rm_raw q c0 c1 _ B l X hmn hXBl ?_ ?_
                    · rw [← e3, ← g3]; exact hchk
                    · rw [← g3]; exact hB

/-! ### the window field -/

/-- `readWbits` consumes a prefix `wb` of 1, 4, 7 or 14 bits and does not look further -/
theorem readWbits_local (bs : List Bool) (w : Nat) (lg : Bool) (r : List Bool)
    (h : readWbits bs = some (w, lg, r)) :
    ∃ wb, bs = wb ++ r ∧ (∀ X, readWbits (wb ++ X) = some (w, lg, X)) ∧
      (wb.length = 1 ∨ wb.length = 4 ∨ wb.length = 7 ∨ wb.length = 14) ∧ (lg = true ↔ wb.length = 14) := by
  match bs, h with
  | false :: r0, h =>
    simp only [readWbits, Option.some.injEq, Prod.mk.injEq] at h
    obtain ⟨rfl, rfl, rfl⟩ := h
    exact ⟨[false], rfl, fun X => rfl, Or.inl rfl, by simp⟩
  | true :: b1 :: b2 :: b3 :: r0, h =>
    by_cases hn : valOf [b1, b2, b3] ≠ 0
    · simp only [readWbits, hn, ne_eq, not_false_eq_true, if_true, Option.some.injEq, Prod.mk.injEq] at h
      obtain ⟨rfl, rfl, rfl⟩ := h
      refine ⟨[true, b1, b2, b3], rfl, fun X => ?_, Or.inr (Or.inl rfl), by simp⟩
      simp [readWbits, hn]
    · have hn0 : valOf [b1, b2, b3] = 0 := by simpa using hn
      rcases r0 with _ | ⟨c1, _ | ⟨c2, _ | ⟨c3, r1⟩⟩⟩
      · simp [readWbits, hn0] at h
      · simp [readWbits, hn0] at h
      · simp [readWbits, hn0] at h
      by_cases hm0 : valOf [c1, c2, c3] = 0
      · simp only [readWbits, hn0, ne_eq, not_true_eq_false, if_false, hm0, if_true, Option.some.injEq,
          Prod.mk.injEq] at h
        obtain ⟨rfl, rfl, rfl⟩ := h
        refine ⟨[true, b1, b2, b3, c1, c2, c3], rfl, fun X => ?_, Or.inr (Or.inr (Or.inl rfl)), by simp⟩
        simp [readWbits, hn0, hm0]
      · by_cases hm1 : valOf [c1, c2, c3] = 1
        · rcases r1 with _ | ⟨x0, _ | ⟨d0, _ | ⟨d1, _ | ⟨d2, _ | ⟨d3, _ | ⟨d4, _ | ⟨d5, r2⟩⟩⟩⟩⟩⟩⟩
          all_goals try (cases x0 <;> simp [readWbits, hn0, hm1] at h <;> done)
          · simp [readWbits, hn0, hm1] at h
          cases x0 with
          | true => simp [readWbits, hn0, hm1] at h
          | false =>
            simp only [readWbits, hn0, ne_eq, not_true_eq_false, if_false, hm1, if_true] at h
            by_cases hw : 10 ≤ valOf [d0, d1, d2, d3, d4, d5] ∧ valOf [d0, d1, d2, d3, d4, d5] ≤ 30
            · rw [if_pos hw] at h
              injection h with h
              injection h with h1 h2
              injection h2 with h2 h3
              subst h1 h2 h3
              refine ⟨[true, b1, b2, b3, c1, c2, c3, false, d0, d1, d2, d3, d4, d5], rfl, fun X => ?_,
                Or.inr (Or.inr (Or.inr rfl)), by simp⟩
              simp [readWbits, hn0, hm1, hw]
            · rw [if_neg hw] at h; simp at h
        · simp only [readWbits, hn0, ne_eq, not_true_eq_false, if_false, hm0, hm1, Option.some.injEq,
            Prod.mk.injEq] at h
          obtain ⟨rfl, rfl, rfl⟩ := h
          refine ⟨[true, b1, b2, b3, c1, c2, c3], rfl, fun X => ?_, Or.inr (Or.inr (Or.inl rfl)), by simp⟩
          simp [readWbits, hn0, hm0, hm1]
  | [true], h => simp [readWbits] at h
  | [true, _], h => simp [readWbits] at h
  | [true, _, _], h => simp [readWbits] at h
  | [], h => simp [readWbits] at h

/-! ### sequences of meta-blocks -/

/-- the blocks `bl` (metadata / uncompressed only) are read one after the other from `bs`
starting at bit position `pos`, ending at `pos'` with `r'` left -/
inductive FramesTo : Nat → List Bool → List MetaBlock → Nat → List Bool → Prop where
  | nil (pos : Nat) (bs : List Bool) : FramesTo pos bs [] pos bs
  | cons (pos : Nat) (bs : List Bool) (b : MetaBlock) (p1 : Nat) (r1 : List Bool) (bl : List MetaBlock)
      (p' : Nat) (r' : List Bool)
      (hread : readMetaBlock pos bs = some (b, p1, r1))
      (hkind : (∀ m l, b ≠ MetaBlock.compressed m l) ∧ b ≠ MetaBlock.lastEmpty)
      (hrest : FramesTo p1 r1 bl p' r') : FramesTo pos bs (b :: bl) p' r'

theorem padLen_mod (a b : Nat) (h : a % 8 = b % 8) : padLen a = padLen b := by
  unfold padLen; rw [h]

/-- the same blocks are read from the same bits at any position that is congruent mod 8,
whatever follows them -/
theorem framesTo_move (pos : Nat) (bs : List Bool) (bl : List MetaBlock) (p' : Nat) (r' : List Bool)
    (h : FramesTo pos bs bl p' r') :
    ∃ C, bs = C ++ r' ∧ p' = pos + C.length ∧
      ∀ q X, q % 8 = pos % 8 → FramesTo q (C ++ X) bl (q + C.length) X := by
  induction h with
  | nil pos bs => exact ⟨[], rfl, rfl, fun q X _ => FramesTo.nil q X⟩
  | cons pos bs b p1 r1 bl p' r' hread hkind _ ih =>
    obtain ⟨C1, e1, e2, hmove⟩ := ih
    obtain ⟨H, B, hs⟩ := readMetaBlock_shape pos bs b p1 r1 hread hkind.1
    refine ⟨H ++ zeros (padLen (pos + H.length)) ++ B ++ C1, ?_, ?_, fun q X hq => ?_⟩
    · rw [hs.split, e1]; simp [List.append_assoc]
    · rw [e2, hs.pos_eq]; simp [zeros]; omega
    · have hpad : padLen (pos + H.length) = padLen (q + H.length) := padLen_mod _ _ (by omega)
      have hp1 : p1 % 8 = 0 := by
        rw [hs.pos_eq]
        have := hs.body8
        unfold padLen; omega
      have hq1 : (q + H.length + padLen (q + H.length) + B.length) % 8 = p1 % 8 := by
        rw [hp1]; have := hs.body8; unfold padLen; omega
      have hr := hs.anywhere q (C1 ++ X)
      rw [← hpad] at hr
      have := hmove (q + H.length + padLen (q + H.length) + B.length) X hq1
      refine FramesTo.cons q _ b _ (C1 ++ X) bl _ X (by
        rw [hpad]; rw [hpad] at hr
        simpa [List.append_assoc] using hr) hkind ?_
      have e : q + (H ++ zeros (padLen (pos + H.length)) ++ B ++ C1).length
          = q + H.length + padLen (q + H.length) + B.length + C1.length := by
        simp [zeros, hpad]; omega
      rw [e]; exact this

theorem framesTo_append (pos : Nat) (bs : List Bool) (bl1 bl2 : List MetaBlock) (p1 : Nat) (r1 : List Bool)
    (p2 : Nat) (r2 : List Bool) (h1 : FramesTo pos bs bl1 p1 r1) (h2 : FramesTo p1 r1 bl2 p2 r2) :
    FramesTo pos bs (bl1 ++ bl2) p2 r2 := by
  induction h1 with
  | nil => exact h2
  | cons pos bs b p1' r1' bl p' r' hread hkind _ ih => exact FramesTo.cons pos bs b p1' r1' _ p2 r2 hread hkind (ih h2)

/-- the reader's answer for a framed stream that ends with the empty last meta-block -/
theorem decodeFraming_of_frames (pos : Nat) (bs : List Bool) (bl : List MetaBlock) (p' : Nat) (r' : List Bool)
    (h : FramesTo pos bs bl p' r') (p'' : Nat) (r'' : List Bool)
    (hlast : readMetaBlock p' r' = some (MetaBlock.lastEmpty, p'', r'')) :
    decodeFraming (bl.length + 1) pos bs = some (bl ++ [MetaBlock.lastEmpty]) := by
  induction h with
  | nil pos bs => simp [decodeFraming, hlast]
  | cons pos bs b p1 r1 bl p' r' hread hkind _ ih =>
    have := ih hlast
    rw [List.length_cons]
    unfold decodeFraming
    rw [hread]
    cases b with
    | lastEmpty => exact absurd rfl hkind.2
    | compressed m l => exact absurd rfl (hkind.1 m l)
    | metadata pl => simp [this]
    | raw pl => simp [this]

end BV.Framing
