import BV.Lemmas.StreamEncSpec
/-
Framing, atom by atom: every atomic step appends exactly the bits of its event to the emitted
bit stream `bits(delivered ++ pending) ++ carry` — nothing is dropped, duplicated or reordered.
-/
namespace BV.Stream
open BV.Bits

/-! ### the padding block for any carry -/

theorem bitsOf_mod (n v : Nat) : bitsOf n (v % 2 ^ n) = bitsOf n v := by
  induction n generalizing v with
  | zero => rfl
  | succ k ih =>
    simp only [bitsOf]
    have h1 : v % 2 ^ (k + 1) % 2 = v % 2 := by
      rw [Nat.pow_succ, Nat.mul_comm]
      exact Nat.mod_mul_right_mod v 2 (2 ^ k)
    have h2 : v % 2 ^ (k + 1) / 2 = (v / 2) % 2 ^ k := by
      rw [Nat.pow_succ, Nat.mul_comm, Nat.mod_mul_right_div_self]
    rw [h1, h2, ih]

theorem bitsOf_zero (n : Nat) : bitsOf n 0 = List.replicate n false := by
  induction n with
  | zero => rfl
  | succ k ih => simp [bitsOf, ih, List.replicate_succ]

theorem sealBytes_succ (v n : Nat) : sealBytes v (n + 1) = (v % 256) :: sealBytes (v / 256) n := by
  unfold sealBytes
  rw [List.range_succ_eq_map]
  simp only [List.map_cons, List.map_map, Nat.pow_zero, Nat.div_one, List.cons.injEq, true_and]
  apply List.map_congr_left
  intro i _
  simp only [Function.comp]
  rw [Nat.pow_succ, Nat.mul_comm, Nat.div_div_eq_div_mul]

theorem sealBytes_bits (v n : Nat) : bytesBits (sealBytes v n) = bitsOf (8 * n) v := by
  induction n generalizing v with
  | zero => rfl
  | succ k ih =>
    rw [sealBytes_succ]
    simp only [bytesBits]
    rw [ih]
    have : 8 * (k + 1) = 8 + 8 * k := by omega
    rw [this, bitsOf_add]
    have h8 : bitsOf 8 (v % 256) = bitsOf 8 v := bitsOf_mod 8 v
    rw [h8]

/-- the padding block for ANY carry: `c` carry bits of value `lb < 2^c`, the six sync bits, zero fill -/
theorem seal_bits (c lb : Nat) (h : lb < 2 ^ c) :
    bytesBits (sealBytes (lb ||| (6 * 2 ^ c)) ((c + 6 + 7) / 8)) = bitsOf c lb ++ padBits c := by
  unfold padBits
  rw [sealBytes_bits]
  have hv : lb ||| (6 * 2 ^ c) = 2 ^ c * 6 + lb := by
    rw [Nat.two_pow_add_eq_or_of_lt h, Nat.or_comm, Nat.mul_comm]
  rw [hv]
  have hn : 8 * ((c + 6 + 7) / 8) = c + (6 + (8 * ((c + 6 + 7) / 8) - c - 6)) := by omega
  generalize 8 * ((c + 6 + 7) / 8) - c - 6 = k at hn ⊢
  rw [hn, bitsOf_add, bitsOf_add]
  have h1 : bitsOf c (2 ^ c * 6 + lb) = bitsOf c lb := by
    rw [← bitsOf_mod c (2 ^ c * 6 + lb), Nat.mul_add_mod, Nat.mod_eq_of_lt h]
  have h2 : (2 ^ c * 6 + lb) / 2 ^ c = 6 := by
    rw [Nat.mul_add_div (Nat.pow_pos (by omega)), Nat.div_eq_of_lt h]
  rw [h1, h2]
  have h3 : bitsOf 6 6 = syncBits := by decide
  have h4 : (6 : Nat) / 2 ^ 6 = 0 := by decide
  rw [h3, h4, bitsOf_zero]

/-! ### the invariant framing needs -/

/-- the carry is a proper value, and inside a metadata body there is no carry and nothing buffered -/
structure FrameInv (s : St) : Prop where
  carry : CarryOK s
  body : s.streamState = .metadataBody → s.lastBytesBits = 0 ∧ s.inputPos = s.lastFlushPos

theorem frameInv_of_eq {s s' : St} (hF : FrameInv s) (h1 : s'.lastBytes = s.lastBytes) (h2 : s'.lastBytesBits = s.lastBytesBits)
    (h3 : s'.streamState = s.streamState) (h4 : s'.inputPos = s.inputPos) (h5 : s'.lastFlushPos = s.lastFlushPos) :
    FrameInv s' := by
  refine ⟨?_, ?_⟩
  · unfold CarryOK; rw [h1, h2]; exact hF.carry
  · intro hb; rw [h2, h4, h5]; exact hF.body (h3 ▸ hb)

/-- `emitted` only looks at pending bytes and carry -/
theorem emitted_eq {d d' : Bytes} {s s' : St} (h0 : d' = d) (h1 : s'.pending = s.pending) (h2 : s'.lastBytes = s.lastBytes)
    (h3 : s'.lastBytesBits = s.lastBytesBits) : emitted d' s' = emitted d s := by
  subst h0; exact emitted_congr h1 h2 h3

/-! ### `encode_data` -/

/-- **framing of one `encode_data`**, sharp: with nothing pending, a successful invocation appends
exactly the bits of its event — the skeleton's bits and, if `taken`, the oracle's bits behind them -/
theorem emitted_encode {o : Oracle} {d : Bytes} {s s' : St} {site : Nat} {il ff : Bool} {req : Req}
    (h : encodeData o s site il ff = .ok (s', true, req)) (hpend : s.pending = []) :
    emitted d s' = emitted d s ++ (encEv o s site il ff).bits o := by
  obtain ⟨hreq, _, hdr, hM, hpay⟩ := encodeData_spec h
  obtain ⟨_, _, hcase⟩ := encPayload_spec hpay
  have hem : emitted d s = bytesBits d ++ s.carry := by
    unfold emitted; rw [hpend, List.append_nil]
  have hp2 : (encMid s il).1.pending = [] := by rw [hM.pending, hpend]
  have hskel := hM.skel
  have hev : (encEv o s site il ff).bits o =
      (encMid s il).2.drop s.carry.length ++ (if encTakes (encMid s il).1 (o s.nEnc (reqOf s site il ff)) il ff then
        (o s.nEnc (reqOf s site il ff)).bits.drop ((encMid s il).2.drop s.carry.length).length else []) := rfl
  generalize hw : (encMid s il).2 = w at *
  generalize hs2 : (encMid s il).1 = s2 at *
  -- the part the skeleton wrote
  have hhead : ∀ t : St, t.pending = (wholeBytes w).take hdr → t.lastBytes = s2.lastBytes → t.lastBytesBits = s2.lastBytesBits →
      emitted d t = bytesBits d ++ w := by
    intro t h1 h2 h3
    have e0 : emitted d t = bytesBits (d ++ t.pending) ++ bitsOf t.lastBytesBits t.lastBytes := rfl
    rw [e0, h1, h2, h3, bytesBits_append, List.append_assoc]
    refine congrArg (fun x => bytesBits d ++ x) ?_
    rcases hM.coh with ⟨e1, e2, e3⟩ | ⟨e1, e2⟩
    · rw [e1, e2, e3]
      have : (wholeBytes w).take (w.length / 8) = wholeBytes w := by
        apply List.take_of_length_le
        unfold wholeBytes; rw [List.length_take]; omega
      rw [this, pack_unpack]
    · rw [e1, List.take_zero, e2]
      show [] ++ bitsOf s2.lastBytesBits s2.lastBytes = s2.carry
      rw [List.nil_append]
      rfl
  rw [hev, hem]
  rcases hcase with ⟨ht, c1, c2, c3, _⟩ | ⟨ht, c1, c2, c3, _⟩
  · rw [ht]
    simp only [Bool.false_eq_true, ↓reduceIte, List.append_nil]
    rw [hhead s' c1 c2 c3, List.append_assoc, ← hskel]
  · rw [ht]
    simp only [↓reduceIte]
    have e0 : emitted d s' = bytesBits (d ++ s'.pending) ++ bitsOf s'.lastBytesBits s'.lastBytes := rfl
    rw [e0, c1, c2, c3, bytesBits_append, List.append_assoc, pack_unpack]
    unfold wFullOf
    rw [List.append_assoc]
    refine congrArg (fun x => bytesBits d ++ x) ?_
    rw [← List.append_assoc, ← hskel]

/-! ### the carry stays a proper value -/

theorem carryOK_of_carryOf {s : St} {w : Writer} (h1 : s.lastBytes = (carryOf w).1) (h2 : s.lastBytesBits = (carryOf w).2) :
    CarryOK s := by
  unfold CarryOK; rw [h1, h2]; exact (carryOf_lt w).1

theorem carryOK_eq {s s' : St} (h : CarryOK s) (h1 : s'.lastBytes = s.lastBytes) (h2 : s'.lastBytesBits = s.lastBytesBits) :
    CarryOK s' := by
  unfold CarryOK; rw [h1, h2]; exact h

theorem encMagic_carryOK {s : St} (w0 : Writer) (h : CarryOK s) : CarryOK (encMagic s w0).1 := by
  unfold encMagic
  split
  · exact carryOK_of_carryOf rfl rfl
  · exact h

theorem encPrelude_carryOK {s s' : St} {w w' : Writer} {hdr hdr' bytes : Nat} (hc : CarryOK s)
    (h : encPrelude s w hdr bytes = .ok (s', w', hdr')) : CarryOK s' := by
  unfold encPrelude at h
  simp only at h
  split_all h
  all_goals first
    | (simp at h; done)
    | (simp only [Out.ok.injEq, Prod.mk.injEq] at h; obtain ⟨rfl, rfl, rfl⟩ := h; exact hc)
    | (simp only [Out.ok.injEq, Prod.mk.injEq] at h; obtain ⟨rfl, rfl, rfl⟩ := h; exact carryOK_of_carryOf rfl rfl)

theorem encodeData_carryOK {o : Oracle} {s s' : St} {site : Nat} {il ff : Bool} {req : Req} (hc : CarryOK s)
    (h : encodeData o s site il ff = .ok (s', true, req)) : CarryOK s' := by
  obtain ⟨_, hcases⟩ := encodeData_ok_cases h
  rcases hcases with ⟨_, hh, _⟩ | ⟨_, _, hh, _⟩ | ⟨_, _, hrest⟩
  · simp at hh
  · simp at hh
  · obtain ⟨s2, w, hdr, hpre3, hpay⟩ := encRest_split hrest
    obtain ⟨_, _, _, _, _, _, _, e8, e9, _⟩ := encEntry_fields s il
    have h1 : CarryOK (encEntry s il) := carryOK_eq hc e8 e9
    have h2 := encMagic_carryOK s.carry h1
    have h3 : CarryOK s2 := encPrelude_carryOK h2 hpre3
    obtain ⟨_, _, hcase⟩ := encPayload_spec hpay
    rcases hcase with ⟨_, _, c2, c3, _⟩ | ⟨_, _, c2, c3, _⟩
    · exact carryOK_eq h3 c2 c3
    · exact carryOK_of_carryOf c2 c3

theorem encodeWindowBits_ok (w : Int) (l : Bool) (h1 : 10 ≤ w) (h2 : l = false → w ≤ 24) :
    (encodeWindowBits w l).1 < 2 ^ (encodeWindowBits w l).2 := by
  unfold encodeWindowBits
  split
  · simp only
    refine Nat.lt_of_le_of_lt (Nat.mod_le _ _) ?_
    apply Nat.or_lt_two_pow
    · have : w.toNat % 64 < 64 := Nat.mod_lt _ (by omega)
      omega
    · omega
  · rename_i hl
    have hw := h2 (by simpa using hl)
    split
    · simp
    · split
      · simp
      · split
        · simp only
          refine Nat.lt_of_le_of_lt (Nat.mod_le _ _) ?_
          apply Nat.or_lt_two_pow
          · omega
          · omega
        · simp only
          refine Nat.lt_of_le_of_lt (Nat.mod_le _ _) ?_
          apply Nat.or_lt_two_pow
          · omega
          · omega

theorem sanitize_lgwin (p : Params) : 10 ≤ (sanitize p).lgwin ∧ ((sanitize p).largeWindow = false → (sanitize p).lgwin ≤ 24) := by
  unfold sanitize
  simp only
  split
  · exact ⟨by omega, fun _ => by omega⟩
  · split
    · split
      · rename_i hl
        split
        · exact ⟨by omega, fun hh => by rw [hl] at hh; cases hh⟩
        · exact ⟨by omega, fun hh => by rw [hl] at hh; cases hh⟩
      · exact ⟨by omega, fun _ => by omega⟩
    · exact ⟨by omega, fun _ => by omega⟩

theorem frameInv_fresh {s : St} (h : IsFresh s) : FrameInv (ensureInitialized s) := by
  obtain ⟨p, rfl⟩ := h
  obtain ⟨g1, g2⟩ := sanitize_lgwin p
  refine ⟨?_, ?_⟩
  · unfold CarryOK
    simp only [ensureInitialized, St.new, Bool.false_eq_true, ↓reduceIte]
    apply encodeWindowBits_ok
    · split <;> omega
    · intro hl
      have := g2 hl
      split <;> omega
  · intro hb
    simp [ensureInitialized, St.new] at hb

end BV.Stream
