import BV.Lemmas.StreamStore
/-
The capacity checks on `storage_` never fire: `get_brotli_storage` asks for enough
(`2 * span + 527` for a meta-block over `span` bytes, `2 * block + 503` for a one-shot block) for
every answer within the `OracleOK` size bound, and under `StoreOK` the padding block, the push and
`take_output` stay inside.
-/
namespace BV.Stream
open BV.Bits

/-- arithmetic of the two `storage_` checks of `encode_data` -/
theorem storage_arith {wl w0l bl span st : Nat} (hw0 : w0l ≤ 14) (hw0le : w0l ≤ wl) (hwl : wl ≤ w0l + 176)
    (hb : bl ≤ 8 * (2 * span + 500)) (hst : 2 * span + 527 ≤ st) :
    wl / 8 + 2 ≤ st ∧ (wl + (bl - (wl - w0l))) / 8 + 2 ≤ st := by
  constructor
  · omega
  · omega

/-- **the payload part of `encode_data` never runs out of `storage_`** when the answer respects the
`OracleOK` size bound and `storage_` has the size `get_brotli_storage` is asked for -/
theorem encPayload_no_panic {s : St} {ans : Ans} {w0 w : Writer} {hdr span : Nat} {il ff : Bool}
    (hw0 : w0.length ≤ 14) (hw0le : w0.length ≤ w.length) (hwl : w.length ≤ w0.length + 176)
    (hb : ans.bits.length ≤ 8 * (2 * span + 500)) (hst : 2 * span + 527 ≤ s.storageSize) :
    encPayload s ans w0 w hdr il ff ≠ .panic := by
  obtain ⟨a1, a2⟩ := storage_arith hw0 hw0le hwl hb hst
  have a2' : ¬ ((w ++ ans.bits.drop (w.drop w0.length).length).length / 8 + 2 > s.storageSize) := by
    simp only [List.length_append, List.length_drop]
    omega
  have a1' : ¬ (w.length / 8 + 2 > s.storageSize) := by omega
  unfold encPayload
  simp only
  rw [if_neg a1']
  repeat' split
  all_goals first
    | (intro hh; cases hh; done)
    | (rename_i hbad; exact absurd hbad a2')

/-- what `get_brotli_storage` is asked for, without wrap-around -/
theorem wantStorage_eq {s : St} (hI : Inv s) (hsmall : s.inputPos < 4611686018427387904) :
    wantStorage s = 2 * (s.inputPos - s.lastFlushPos) + 527 := by
  unfold wantStorage
  have h1 := hI.fl_le
  have h2 := hI.lp_le
  have hu := hI.unprocessed
  have hf : wsub64 s.inputPos s.lastFlushPos = s.inputPos - s.lastFlushPos := wsub64_eq (by omega) hI.ip_lt
  have hb : s.unprocessed % two32 ≤ s.unprocessed := Nat.mod_le _ _
  rw [hf]
  generalize s.unprocessed % two32 = m at hb
  have hmax : max m (s.inputPos - s.lastFlushPos) = s.inputPos - s.lastFlushPos := by
    apply Nat.max_eq_right; omega
  rw [hmax]
  apply Nat.mod_eq_of_lt
  unfold two64
  omega

/-- the two ways `encode_data` can panic -/
theorem encodeData_panic_cases {o : Oracle} {s : St} {site : Nat} {il ff : Bool}
    (h : encodeData o s site il ff = .panic) :
    (encEntry s il).storageSize < 2 ∨
    encRest (encMagic (encEntry s il) s.carry) (o s.nEnc (reqOf s site il ff)) s.carry (s.unprocessed % two32) il ff = .panic := by
  unfold encodeData at h
  split at h
  · simp at h
  · split at h
    · simp at h
    · split at h
      · rename_i hlt
        exact Or.inl hlt
      · split at h
        · rename_i hrest
          exact Or.inr hrest
        · simp at h
        · simp at h

theorem encRest_panic {m : St × Writer × Nat} {ans : Ans} {w0 : Writer} {bytes : Nat} {il ff : Bool}
    (h : encRest m ans w0 bytes il ff = .panic) :
    encPre3 m bytes = .panic ∨ ∃ s2 w hdr, encPre3 m bytes = .ok (s2, w, hdr) ∧ encPayload s2 ans w0 w hdr il ff = .panic := by
  unfold encRest at h
  split at h
  · rename_i hp
    exact Or.inl hp
  · simp at h
  · rename_i s2 w hdr hp
    exact Or.inr ⟨s2, w, hdr, hp, h⟩

/-- **`encode_data` can only panic in its catable-prelude assertion** — never on `storage_` — for an
oracle within the `OracleOK` size bound, a carry of at most 14 bits and positions below 2^62 -/
theorem encodeData_panic_only_prelude {o : Oracle} {s : St} {site : Nat} {il ff : Bool} (hO : OracleOK o) (hsite : site ≠ 2)
    (hI : Inv s) (hl : s.lastBytesBits ≤ 14) (hsmall : s.inputPos < 4611686018427387904)
    (h : encodeData o s site il ff = .panic) :
    encPre3 (encMagic (encEntry s il) s.carry) (s.unprocessed % two32) = .panic := by
  have hwant := wantStorage_eq hI hsmall
  have hent : wantStorage s ≤ (encEntry s il).storageSize := (encEntry_fields s il).2.2.2.2.2.2.2.2.2.2.2.2
  rcases encodeData_panic_cases h with hlt | hrest
  · omega
  · rcases encRest_panic hrest with hp | ⟨s2, w, hdr, hpre3, hpay⟩
    · exact hp
    · exfalso
      have hpre' : encPrelude (encMagic (encEntry s il) s.carry).1 (encMagic (encEntry s il) s.carry).2.1
          (encMagic (encEntry s il) s.carry).2.2 (s.unprocessed % two32) = .ok (s2, w, hdr) := hpre3
      have hcl : s.carry.length = s.lastBytesBits := by unfold St.carry; exact bitsOf_length _ _
      have hml := encMagic_wlen (encEntry s il) s.carry
      have hpl := encPrelude_wlen hpre'
      have hcar : (encEntry s il).carry = s.carry := by
        obtain ⟨_, _, _, _, _, _, _, e8, e9, _⟩ := encEntry_fields s il
        unfold St.carry; rw [e8, e9]
      have hsh := encMagic_coh' (encEntry s il)
      rw [hcar] at hsh
      obtain ⟨hcoh, x1, hx1⟩ := hsh
      obtain ⟨_, x2, hx2⟩ := encPrelude_coh' hcoh hpre'
      have hwle : s.carry.length ≤ w.length := by
        rw [hx2, hx1, List.length_append, List.length_append]; omega
      have hss : s2.storageSize = (encEntry s il).storageSize := by
        rw [(encPrelude_frame hpre').2.2.2.1, (encMagic_frame (encEntry s il) s.carry).2.2.2.2.2.1]
      have hfit := hO.fits s.nEnc (reqOf s site il ff)
      have hsite' : (reqOf s site il ff).site = site := rfl
      rw [hsite', if_neg hsite] at hfit
      have hspan : max ((reqOf s site il ff).hi - (reqOf s site il ff).lo) ((reqOf s site il ff).hi - (reqOf s site il ff).lf)
          = s.inputPos - s.lastFlushPos := by
        show max (s.inputPos - s.lastProcessedPos) (s.inputPos - s.lastFlushPos) = s.inputPos - s.lastFlushPos
        have := hI.fl_le
        apply Nat.max_eq_right; omega
      rw [hspan] at hfit
      refine encPayload_no_panic (span := s.inputPos - s.lastFlushPos) (by rw [hcl]; exact hl) hwle ?_ hfit ?_ hpay
      · rw [hcl] at hml ⊢; omega
      · rw [hss]; omega

/-- under `StoreOK` the padding block, the push and `take_output` stay inside `storage_` -/
theorem storage_sites_safe {s : St} (hS : StoreOK s) {off : Nat} (hno : s.nextOut = .dyn off) :
    (s.lastBytesBits ≠ 0 → s.pending.length ≠ 0 → off + s.pending.length + (s.lastBytesBits + 6 + 7) / 8 ≤ s.storageSize)
    ∧ (∀ avail, off + min s.pending.length avail ≤ s.storageSize)
    ∧ takeSliceOk s = true := by
  have hf := hS.fits off hno
  have hc := hS.carry off hno
  refine ⟨?_, ?_, ?_⟩
  · intro h1 h2
    rw [if_neg (by intro hh; rcases hh with hh | hh; exact h1 hh; exact h2 hh)] at hf
    omega
  · intro avail
    have : min s.pending.length avail ≤ s.pending.length := Nat.min_le_left _ _
    split at hf <;> omega
  · unfold takeSliceOk
    rw [hno]
    simp only [decide_eq_true_eq]
    split at hf <;> omega

/-- **the one-shot path never runs out of room**: in place only when the caller's buffer has
`2 * block + 503` bytes, else staged in `storage_` grown to that size -/
theorem fast_block_fits {o : Oracle} (hO : OracleOK o) {op : Nat} {s : St} {io : Io} (hl : s.lastBytesBits ≤ 14)
    (hin : io.availIn = io.input.length) (hsmall : io.availIn < 4611686018427387904) :
    ¬ fastCap (fastS1 s io) io (fastInplace s io) < 2 ∧ ¬ fastBs s io > io.input.length
    ∧ ¬ (s.lastBytesBits + (o s.nEnc (fastReq op s io)).bits.length) / 8 + 2 > fastCap (fastS1 s io) io (fastInplace s io) := by
  have hbs : fastBs s io ≤ io.availIn := Nat.min_le_right _ _
  have hmax : fastMaxOut s io = 2 * fastBs s io + 503 := by
    unfold fastMaxOut
    apply Nat.mod_eq_of_lt
    unfold two64; omega
  have hcap : fastMaxOut s io ≤ fastCap (fastS1 s io) io (fastInplace s io) := by
    unfold fastCap
    cases hip : fastInplace s io
    · simp only [Bool.false_eq_true, ↓reduceIte]
      have := (fastStorage_fields s false (fastMaxOut s io)).2.2.2.2.2.2.2.2 rfl
      unfold fastS1; rw [hip]; exact this
    · simp only [↓reduceIte]
      unfold fastInplace at hip
      simpa using hip
  have hfit := hO.fits s.nEnc (fastReq op s io)
  have hsite : (fastReq op s io).site = 2 := rfl
  have hlo : (fastReq op s io).lo = fastBs s io := rfl
  rw [hsite, if_pos rfl, hlo] at hfit
  refine ⟨by omega, by omega, by omega⟩

end BV.Stream
