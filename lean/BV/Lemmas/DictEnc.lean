/-
C10, encoder side: what `set_custom_dictionary` (model `BV.Dict.setCustomDictionary`, mirrored from
`src/enc/encode.rs`) leaves behind, in closed form.  The two paths of `RingBufferWrite` for the very first
write (small first allocation / full allocation with tail mirror) both put byte `i` of the written
string at `data_mo[2 + i]`, i.e. at stream position `i`.
-/
import BV.Model.Dict
import BV.Lemmas.Header

namespace BV.Dict
open BV.Header


structure Fresh (rb : Ring) (wb tb : Nat) : Prop where
  size : rb.size = 2 ^ wb
  mask : rb.mask = 2 ^ wb - 1
  tail : rb.tailSize = 2 ^ tb
  total : rb.totalSize = 2 ^ wb + 2 ^ tb
  cur : rb.curSize = 0
  pos : rb.pos = 0
  dlen : rb.dataLen = 0
  bound : 2 ^ wb + 2 ^ tb + 9 < 2 ^ 32

theorem ringBufferWrite_small (rb : Ring) (wb tb : Nat) (F : Fresh rb wb tb) (bytes : Nat → Nat) (blen n : Nat)
    (hn : n < 2 ^ tb) (hb : n ≤ blen) :
    ∃ rb', ringBufferWrite bytes blen n rb = some rb' ∧ rb'.pos = n ∧ rb'.mask = rb.mask ∧ rb'.bufferIndex = 2 ∧
      2 + n + 7 ≤ rb'.dataLen ∧ ∀ i, i < n → rb'.data (2 + i) = bytes i := by
  have hB := F.bound
  have hw0 : 0 < 2 ^ wb := Nat.two_pow_pos wb
  have h32 : n < 2 ^ 32 := by omega
  have hmod : n % 2 ^ 32 = n := Nat.mod_eq_of_lt h32
  have hmod2 : (2 + n) % 2 ^ 32 = 2 + n := Nat.mod_eq_of_lt (by omega)
  unfold ringBufferWrite
  rw [if_pos ⟨F.pos, by rw [F.tail]; exact hn⟩]
  simp only [ringBufferInitBuffer, hmod, hmod2, F.dlen, ne_eq, not_true_eq_false, false_and, ite_false]
  simp only [show ¬ (2 + n + 7 > 2 + n + 7) by omega, if_false]
  simp only [show ¬ (2 + n > 2 + n + 7 ∨ n > blen) by omega, if_false]
  refine ⟨_, rfl, rfl, rfl, rfl, by simp, ?_⟩
  intro i hi
  simp [blit, hi]

theorem ringBufferWrite_full (rb : Ring) (wb tb : Nat) (F : Fresh rb wb tb) (bytes : Nat → Nat) (blen n : Nat)
    (hn : 2 ^ tb ≤ n) (hs : n ≤ 2 ^ wb) (h30 : n ≤ 2 ^ 30) (hb : n ≤ blen) :
    ∃ rb', ringBufferWrite bytes blen n rb = some rb' ∧ rb'.pos = n ∧ rb'.mask = rb.mask ∧ rb'.bufferIndex = 2 ∧
      2 + n + 7 ≤ rb'.dataLen ∧ ∀ i, i < n → rb'.data (2 + i) = bytes i := by
  have hB := F.bound
  have hw0 : 0 < 2 ^ wb := Nat.two_pow_pos wb
  have ht0 : 0 < 2 ^ tb := Nat.two_pow_pos tb
  have hmod : n % 2 ^ 32 = n := Nat.mod_eq_of_lt (by omega)
  have hmodT : (2 + (2 ^ wb + 2 ^ tb)) % 2 ^ 32 = 2 + (2 ^ wb + 2 ^ tb) := Nat.mod_eq_of_lt (by omega)
  unfold ringBufferWrite
  rw [if_neg (by rw [F.tail]; omega)]
  simp only [F.cur, F.total, show (0 : Nat) < 2 ^ wb + 2 ^ tb by omega, if_true]
  simp only [ringBufferInitBuffer, F.dlen, ne_eq, not_true_eq_false, false_and, ite_false, hmodT,
    show ¬ (2 + (2 ^ wb + 2 ^ tb) + 7 > 2 + (2 ^ wb + 2 ^ tb) + 7) by omega, F.size]
  simp only [show ¬ (2 + 2 ^ wb < 2 ∨ 2 + 2 ^ wb - 1 ≥ 2 + (2 ^ wb + 2 ^ tb) + 7) by omega, if_false]
  simp only [F.pos, Nat.zero_and, ringBufferWriteTail, F.tail, ht0, if_true, Nat.sub_zero,
    Nat.add_zero, Nat.min_eq_right hn]
  simp only [show ¬ (2 + 2 ^ wb + 2 ^ tb > 2 + (2 ^ wb + 2 ^ tb) + 7 ∨ 2 ^ tb > blen) by omega, if_false]
  simp only [Nat.zero_add, hs, if_true, show ¬ (2 + n > 2 + (2 ^ wb + 2 ^ tb) + 7 ∨ n > blen) by omega, if_false]
  simp only [show ¬ ((2 : Nat) < 2 ∨ 2 + 2 ^ wb - 1 ≥ 2 + (2 ^ wb + 2 ^ tb) + 7 ∨ 2 + 2 ^ wb < 2) by omega, if_false,
    hmod, show ¬ (n > 2 ^ 30) by omega]
  refine ⟨_, rfl, rfl, rfl, rfl, by simp; omega, ?_⟩
  intro i hi
  simp only [blit]
  simp [hi]
  omega

theorem lgblock_range (p : Params) :
    10 ≤ (ensureInitialized true p).params.lgblock ∧ (ensureInitialized true p).params.lgblock ≤ 30 := by
  have h1 := sanitized_lgwin_range p
  have h2 := sanitize_quality true p
  simp only [ensureInitialized, computeLgBlock, lit, litsLgb, BV.Gen.lits_ComputeLgBlock, List.getD_cons_zero,
    List.getD_cons_succ]
  generalize (sanitizeParams true p).lgwin = w at *
  generalize (sanitizeParams true p).quality = q at *
  generalize (sanitizeParams true p).lgblock = b at *
  split
  · omega
  · split
    · omega
    · split
      · split <;> omega
      · omega

/-- sanitised window and block bits as naturals -/
def encL (p0 : Params) : Nat := (ensureInitialized true p0).params.lgwin.toNat
def encB (p0 : Params) : Nat := (ensureInitialized true p0).params.lgblock.toNat
def encQ (p0 : Params) : Int := (ensureInitialized true p0).params.quality

theorem encL_range (p0 : Params) : 10 ≤ encL p0 ∧ encL p0 ≤ 30 ∧ (p0.largeWindow = false → encL p0 ≤ 24) := by
  have h := sanitized_lgwin_range p0
  unfold encL
  rw [init_params_lgwin]
  exact ⟨by omega, by omega, fun hlw => by have := h.2.2 hlw; omega⟩

theorem encInit_zero (p0 : Params) (s : Enc) (h : encInit p0 = some s) :
    s.lastFlushPos = 0 ∧ s.lastProcessedPos = 0 ∧ s.customDictionary = false ∧ s.recoderPos = 0 := by
  unfold encInit at h
  simp only at h
  cases hr : ringBufferSetup (ensureInitialized true p0).params with
  | none => rw [hr] at h; cases h
  | some rb => rw [hr] at h; cases h; exact ⟨rfl, rfl, rfl, rfl⟩

theorem encInit_fresh (p0 : Params) :
    ∃ s, encInit p0 = some s ∧ s.params = (ensureInitialized true p0).params ∧
      Fresh s.ring (1 + max (encL p0) (encB p0)) (encB p0) ∧ s.inputPos = 0 ∧ s.prevByte = 0 ∧ s.prevByte2 = 0 := by
  have hL := encL_range p0
  have hB := lgblock_range p0
  have hl := sanitized_lgwin_range p0
  unfold encInit ringBufferSetup computeRbBits
  simp only [lit, BV.Gen.lits_ComputeRbBits, List.getD_cons_zero]
  unfold encL encB at *
  rw [init_params_lgwin] at *
  generalize (ensureInitialized true p0).params.lgblock = b at *
  generalize (sanitizeParams true p0).lgwin = w at *
  have hwb : ((1 : Nat) : Int) + max w b = ((1 + max w.toNat b.toNat : Nat) : Int) := by omega
  rw [if_neg (by omega)]
  refine ⟨_, rfl, rfl, ?_, rfl, rfl, rfl⟩
  have e1 : (((1 : Nat) : Int) + max w b).toNat = 1 + max w.toNat b.toNat := by omega
  have hp1 : 2 ^ (1 + max w.toNat b.toNat) ≤ 2 ^ 31 := Nat.pow_le_pow_right (by decide) (by omega)
  have hp2 : 2 ^ b.toNat ≤ 2 ^ 30 := Nat.pow_le_pow_right (by decide) (by omega)
  have hw0 : 0 < 2 ^ (1 + max w.toNat b.toNat) := Nat.two_pow_pos _
  have hb0 : 0 < 2 ^ b.toNat := Nat.two_pow_pos _
  refine { size := ?_, mask := ?_, tail := ?_, total := ?_, cur := rfl, pos := rfl, dlen := rfl, bound := by omega }
  · show 2 ^ _ = _; rw [e1]
  · show 2 ^ _ - 1 = _; rw [e1]
  · rfl
  · show (2 ^ _ + 2 ^ _) % 2 ^ 32 = _; rw [e1, Nat.mod_eq_of_lt]; omega

/-- effective dictionary length of the encoder: the tail that fits the window -/
def encDEff (L size : Nat) : Nat := min size (2 ^ L - 16)

theorem ringBufferWrite_first (rb : Ring) (wb tb : Nat) (F : Fresh rb wb tb) (bytes : Nat → Nat) (blen n : Nat)
    (hs : n ≤ 2 ^ wb) (h30 : n ≤ 2 ^ 30) (hb : n ≤ blen) :
    ∃ rb', ringBufferWrite bytes blen n rb = some rb' ∧ rb'.pos = n ∧ rb'.mask = rb.mask ∧ rb'.bufferIndex = 2 ∧
      2 + n + 7 ≤ rb'.dataLen ∧ ∀ i, i < n → rb'.data (2 + i) = bytes i := by
  by_cases h : n < 2 ^ tb
  · exact ringBufferWrite_small rb wb tb F bytes blen n h hb
  · exact ringBufferWrite_full rb wb tb F bytes blen n (by omega) hs h30 hb

theorem copyInput_first (s : Enc) (wb tb : Nat) (F : Fresh s.ring wb tb) (bytes : Nat → Nat) (blen n : Nat)
    (hs : n ≤ 2 ^ wb) (h30 : n ≤ 2 ^ 30) (hb : n ≤ blen) (h0 : s.inputPos = 0) :
    ∃ s', copyInputToRingBuffer bytes blen n s = some s' ∧ s'.inputPos = n ∧ s'.ring.pos = n ∧
      s'.ring.mask = 2 ^ wb - 1 ∧ s'.ring.bufferIndex = 2 ∧ s'.params = s.params ∧ s'.prevByte = s.prevByte ∧
      s'.prevByte2 = s.prevByte2 ∧ s'.customDictionary = s.customDictionary ∧
      ∀ i, i < n → s'.ring.data (2 + i) = bytes i := by
  obtain ⟨rb', hw, hpos, hmask, hbi, hlen, hdata⟩ := ringBufferWrite_first s.ring wb tb F bytes blen n hs h30 hb
  unfold copyInputToRingBuffer
  rw [hw]
  have hmod : (s.inputPos + n) % 2 ^ 64 = n := by rw [h0, Nat.zero_add]; exact Nat.mod_eq_of_lt (by omega)
  simp only [hmod]
  by_cases hle : rb'.pos ≤ rb'.mask
  · rw [if_pos hle, if_neg (by rw [hbi, hpos]; omega)]
    refine ⟨_, rfl, rfl, hpos, by rw [← F.mask]; exact hmask, hbi, rfl, rfl, rfl, rfl, ?_⟩
    intro i hi
    show (if rb'.bufferIndex + rb'.pos ≤ 2 + i ∧ 2 + i < rb'.bufferIndex + rb'.pos + 7 then 0 else rb'.data (2 + i)) = bytes i
    rw [if_neg (by rw [hbi, hpos]; omega)]
    exact hdata i hi
  · rw [if_neg hle]
    exact ⟨_, rfl, rfl, hpos, by rw [← F.mask]; exact hmask, hbi, rfl, rfl, rfl, rfl, hdata⟩


/-- **encoder book-keeping, dictionary used** (quality ≥ 2, non-empty dictionary): every position
field equals the effective length `d' = min size (2^lgwin − 16)` (lgwin = the SANITISED window),
the context bytes are the dictionary's last two bytes (0 where the dictionary is shorter), and the ring
buffer holds the dictionary tail at stream positions `[0, d')`. -/
theorem setCustomDictionary_used (p0 : Params) (size : Nat) (dict : Nat → Nat)
    (hsz : 0 < size) (hq : 2 ≤ encQ p0) :
    ∃ s, setCustomDictionary p0 size dict size = some s ∧
      s.params = (ensureInitialized true p0).params ∧ s.customDictionary = true ∧
      s.inputPos = encDEff (encL p0) size ∧ s.lastFlushPos = encDEff (encL p0) size ∧
      s.lastProcessedPos = encDEff (encL p0) size ∧ s.recoderPos = encDEff (encL p0) size ∧
      s.ring.pos = encDEff (encL p0) size ∧
      s.prevByte = dict (size - 1) ∧
      s.prevByte2 = (if 2 ≤ encDEff (encL p0) size then dict (size - 2) else 0) ∧
      ∀ i, i < encDEff (encL p0) size → s.ring.at i = dict (size - encDEff (encL p0) size + i) := by
  obtain ⟨s0, hinit, hpar, hF, hip, hpb, hpb2⟩ := encInit_fresh p0
  have hL := encL_range p0
  unfold setCustomDictionary
  rw [hinit]
  have hlw : ¬ (s0.params.lgwin < 0 ∨ s0.params.lgwin ≥ 64) := by
    rw [hpar]; unfold encL at hL; omega
  simp only [hlw, if_false]
  have hqq : ¬ (size = 0 ∨ s0.params.quality = 0 ∨ s0.params.quality = 1) := by
    rw [hpar]; unfold encQ at hq; omega
  simp only [hqq, if_false]
  have hLeq : s0.params.lgwin.toNat = encL p0 := by rw [hpar]; rfl
  rw [hLeq]
  have hpow : 2 ^ 10 ≤ 2 ^ encL p0 := Nat.pow_le_pow_right (by decide) hL.1
  have hpow2 : 2 ^ encL p0 ≤ 2 ^ 30 := Nat.pow_le_pow_right (by decide) hL.2.1
  have hwbL : 2 ^ encL p0 ≤ 2 ^ (1 + max (encL p0) (encB p0)) := Nat.pow_le_pow_right (by decide) (by omega)
  unfold encDEff
  by_cases hcut : size > 2 ^ encL p0 - 16
  · -- truncated to the tail
    simp only [hcut, if_true, show ¬ (size - (2 ^ encL p0 - 16) > size) by omega, if_false]
    have hmin : min size (2 ^ encL p0 - 16) = 2 ^ encL p0 - 16 := by omega
    obtain ⟨s1, hc, h1, h2, h3, h4, h5, h6, h7, h8, h9⟩ :=
      copyInput_first { s0 with customDictionary := true } _ _ hF (fun i => dict (size - (2 ^ encL p0 - 16) + i))
        (size - (size - (2 ^ encL p0 - 16))) (2 ^ encL p0 - 16) (by omega) (by omega) (by omega) hip
    simp only [hc, hmin]
    rw [if_neg (by omega)]
    have hd0 : 2 ^ encL p0 - 16 > 0 := by omega
    have hd1 : 2 ^ encL p0 - 16 > 1 := by omega
    simp only [hd0, hd1, if_true]
    refine ⟨_, rfl, ?_, h8, h1, rfl, rfl, rfl, h2, ?_, ?_, ?_⟩
    · rw [h5]; exact hpar
    · show dict (size - (2 ^ encL p0 - 16) + (2 ^ encL p0 - 16 - 1)) = _
      congr 1; omega
    · rw [if_pos (by omega)]
      show dict (size - (2 ^ encL p0 - 16) + (2 ^ encL p0 - 16 - 2)) = _
      congr 1; omega
    · intro i hi
      show s1.ring.data (s1.ring.bufferIndex + (i &&& s1.ring.mask)) = _
      rw [h3, h4, Nat.and_two_pow_sub_one_eq_mod, Nat.mod_eq_of_lt (by omega)]
      exact h9 i hi
  · simp only [hcut, if_false]
    have hmin : min size (2 ^ encL p0 - 16) = size := by omega
    obtain ⟨s1, hc, h1, h2, h3, h4, h5, h6, h7, h8, h9⟩ :=
      copyInput_first { s0 with customDictionary := true } _ _ hF (fun i => dict (0 + i))
        size size (by omega) (by omega) (by omega) hip
    simp only [hc, hmin]
    rw [if_neg (by omega)]
    simp only [hsz, if_true]
    by_cases h2' : size > 1
    · simp only [h2', if_true]
      refine ⟨_, rfl, ?_, h8, h1, rfl, rfl, rfl, h2, ?_, ?_, ?_⟩
      · rw [h5]; exact hpar
      · show dict (0 + (size - 1)) = _; rw [Nat.zero_add]
      · rw [if_pos (by omega)]; show dict (0 + (size - 2)) = _; rw [Nat.zero_add]
      · intro i hi
        show s1.ring.data (s1.ring.bufferIndex + (i &&& s1.ring.mask)) = _
        rw [h3, h4, Nat.and_two_pow_sub_one_eq_mod, Nat.mod_eq_of_lt (by omega), h9 i hi]
        congr 1; omega
    · simp only [h2', if_false]
      refine ⟨_, rfl, ?_, h8, h1, rfl, rfl, rfl, h2, ?_, ?_, ?_⟩
      · rw [h5]; exact hpar
      · show dict (0 + (size - 1)) = _; rw [Nat.zero_add]
      · rw [if_neg (by omega)]; show s1.prevByte2 = 0; rw [h7]; exact hpb2
      · intro i hi
        show s1.ring.data (s1.ring.bufferIndex + (i &&& s1.ring.mask)) = _
        rw [h3, h4, Nat.and_two_pow_sub_one_eq_mod, Nat.mod_eq_of_lt (by omega), h9 i hi]
        congr 1; omega

end BV.Dict
