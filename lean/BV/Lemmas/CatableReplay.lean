/-
C03 (catable), decoder level: POSITION INDEPENDENCE of a command array under RFC 7932 semantics.

Decoder A ("the member alone"): history `ha`, distance ring `ra`, window `window`, NO static dictionary
(`noWords`: every distance beyond `max_distance` is an error).  Decoder B ("the member inside a concatenation"):
history `h' ++ ha` for an arbitrary foreign prefix `h'`, distance ring `rb` that agrees with `ra` wherever `ra` is not
*poisoned* (an entry `x` with `window + 3 < x`: no short distance code built on it can denote a distance inside the
window), window `window' ≥ window`, ANY static-dictionary oracle.

If A accepts a command then B accepts it too, appends the same bytes, ends at the same cursor, and the rings are again
related (`decStep_indep`); hence whole arrays (`decSteps_indep`) and the writers' `lockstep` predicate
(`lockstep_indep`).  The proof shows that A can only have executed LZ77 copies (`distance ≤ min(|out|, window)`) whose
distance came from an explicit code or from a NON-poisoned ring entry — exactly the entries B shares.

Spec side only: `decStep` / `decSteps` / `rfcDistance` are BV/Model/Recoder.lean (C14), `lockstep` is BV/Model/MetaBlock.lean.
-/
import BV.Model.MetaBlock

namespace BV.Catable
open BV.Recoder BV.PrefixArith BV.MetaBlock

/-- the decoder of a self-contained member: no static dictionary -/
def noWords : WordOracle := fun _ _ _ => none

/-- a ring entry on which no short code (`entry − 3 … entry + 3`) can denote a distance inside the window -/
def Poisoned (window : Nat) (x : Int) : Prop := (window : Int) + 3 < x

/-- ring `rb` carries every non-poisoned entry of ring `ra` at the same index -/
def RingRel (window : Nat) (ra rb : List Int) : Prop :=
  ra.length = rb.length ∧ ∀ (i : Nat) (a : Int), ra[i]? = some a → Poisoned window a ∨ rb[i]? = some a

theorem RingRel.refl (window : Nat) (r : List Int) : RingRel window r r := ⟨rfl, fun _ _ h => Or.inr h⟩

/-- a ring all of whose entries are poisoned is related to EVERY ring of the same length -/
theorem RingRel.of_poisoned (window : Nat) (ra rb : List Int) (hl : ra.length = rb.length)
    (hp : ∀ a ∈ ra, Poisoned window a) : RingRel window ra rb :=
  ⟨hl, fun _ a h => Or.inl (hp a (List.mem_of_getElem? h))⟩

theorem RingRel.push {window : Nat} {ra rb : List Int} (h : RingRel window ra rb) (d : Int) :
    RingRel window (d :: ra.take 3) (d :: rb.take 3) := by
  refine ⟨by simp [List.length_take, h.1], ?_⟩
  intro i a hi
  cases i with
  | zero => right; simpa using hi
  | succ j =>
    simp only [List.getElem?_cons_succ, List.getElem?_take] at hi ⊢
    by_cases hj : j < 3
    · rw [if_pos hj] at hi ⊢
      exact h.2 j a hi
    · rw [if_neg hj] at hi; cases hi

/-- one ring read through a short code: a result inside the window is shared -/
theorem ring_read {window : Nat} {ra rb : List Int} (h : RingRel window ra rb) (i : Nat) (f : Int → Int × Bool)
    (hf : ∀ x, (f x).1 ≤ window → x ≤ (window : Int) + 3) (d : Int) (upd : Bool) (hd : d ≤ window)
    (hr : (ra[i]?).map f = some (d, upd)) : (rb[i]?).map f = some (d, upd) := by
  cases ha : ra[i]? with
  | none => rw [ha] at hr; cases hr
  | some a =>
    rw [ha] at hr
    simp only [Option.map_some, Option.some.injEq] at hr
    rcases h.2 i a ha with hp | hb
    · have := hf a (by rw [hr]; exact hd)
      unfold Poisoned at hp; omega
    · rw [hb]; simp [hr]

theorem rfcDistance_explicit (np nd : Nat) (r : List Int) (sym extra : Nat) (h : 16 ≤ sym) :
    rfcDistance np nd r sym extra = some (((rfcDistDecode np nd sym extra : Nat) : Int), true) := by
  unfold rfcDistance
  split <;> first | omega | rfl

/-- the distance a symbol denotes is the same in both rings as long as it lies inside A's window -/
theorem rfcDistance_indep {window : Nat} {ra rb : List Int} (h : RingRel window ra rb) (np nd sym extra : Nat)
    (d : Int) (upd : Bool) (hd : d ≤ window) (hr : rfcDistance np nd ra sym extra = some (d, upd)) :
    rfcDistance np nd rb sym extra = some (d, upd) := by
  by_cases h16 : 16 ≤ sym
  · rw [rfcDistance_explicit _ _ _ _ _ h16] at hr ⊢; exact hr
  · have hs : sym = 0 ∨ sym = 1 ∨ sym = 2 ∨ sym = 3 ∨ sym = 4 ∨ sym = 5 ∨ sym = 6 ∨ sym = 7 ∨ sym = 8 ∨ sym = 9 ∨
        sym = 10 ∨ sym = 11 ∨ sym = 12 ∨ sym = 13 ∨ sym = 14 ∨ sym = 15 := by omega
    rcases hs with rfl | rfl | rfl | rfl | rfl | rfl | rfl | rfl | rfl | rfl | rfl | rfl | rfl | rfl | rfl | rfl
    · exact ring_read h 0 (·, false) (fun x hx => by simp only at hx; omega) d upd hd hr
    · exact ring_read h 1 (·, true) (fun x hx => by simp only at hx; omega) d upd hd hr
    · exact ring_read h 2 (·, true) (fun x hx => by simp only at hx; omega) d upd hd hr
    · exact ring_read h 3 (·, true) (fun x hx => by simp only at hx; omega) d upd hd hr
    · exact ring_read h 0 (· - 1, true) (fun x hx => by simp only at hx; omega) d upd hd hr
    · exact ring_read h 0 (· + 1, true) (fun x hx => by simp only at hx; omega) d upd hd hr
    · exact ring_read h 0 (· - 2, true) (fun x hx => by simp only at hx; omega) d upd hd hr
    · exact ring_read h 0 (· + 2, true) (fun x hx => by simp only at hx; omega) d upd hd hr
    · exact ring_read h 0 (· - 3, true) (fun x hx => by simp only at hx; omega) d upd hd hr
    · exact ring_read h 0 (· + 3, true) (fun x hx => by simp only at hx; omega) d upd hd hr
    · exact ring_read h 1 (· - 1, true) (fun x hx => by simp only at hx; omega) d upd hd hr
    · exact ring_read h 1 (· + 1, true) (fun x hx => by simp only at hx; omega) d upd hd hr
    · exact ring_read h 1 (· - 2, true) (fun x hx => by simp only at hx; omega) d upd hd hr
    · exact ring_read h 1 (· + 2, true) (fun x hx => by simp only at hx; omega) d upd hd hr
    · exact ring_read h 1 (· - 3, true) (fun x hx => by simp only at hx; omega) d upd hd hr
    · exact ring_read h 1 (· + 3, true) (fun x hx => by simp only at hx; omega) d upd hd hr

/-- an LZ77 copy that stays inside `out` is blind to whatever precedes `out` -/
theorem copyBytes_prefix (h' : Bytes) : ∀ (n dist : Nat) (out : Bytes), dist ≤ out.length →
    copyBytes n dist (h' ++ out) = h' ++ copyBytes n dist out := by
  intro n
  induction n with
  | zero => intro dist out _; rfl
  | succ n ih =>
    intro dist out hd
    simp only [copyBytes]
    have e : (h' ++ out).getD ((h' ++ out).length - dist) 0 = out.getD (out.length - dist) 0 := by
      simp only [List.getD_eq_getElem?_getD, List.length_append]
      rw [List.getElem?_append_right (by omega)]
      congr 2
      omega
    rw [e, List.append_assoc]
    exact ih dist (out ++ [out.getD (out.length - dist) 0]) (by simp; omega)

/-- **one command**: what A accepts, B accepts, with the same effect behind the foreign prefix -/
theorem decStep_indep (w' : WordOracle) (np nd window window' : Nat) (hw : window ≤ window') (mb h' : Bytes)
    (sa sa' : DecSt) (rb : List Int) (c : Cmd) (hrel : RingRel window sa.ring rb)
    (h : decStep noWords np nd window mb sa c = some sa') :
    ∃ rb', decStep w' np nd window' mb ⟨h' ++ sa.out, rb, sa.cursor⟩ c = some ⟨h' ++ sa'.out, rb', sa'.cursor⟩ ∧
      RingRel window sa'.ring rb' := by
  unfold decStep at h ⊢
  simp only [] at h ⊢
  by_cases h1 : mb.length - sa.cursor = 0
  · rw [if_pos h1] at h; cases h
  rw [if_neg h1] at h ⊢
  by_cases h2 : c.insertLen > mb.length - sa.cursor
  · rw [if_pos h2] at h; cases h
  rw [if_neg h2] at h ⊢
  by_cases h3 : sa.cursor + c.insertLen = mb.length
  · rw [if_pos h3] at h ⊢
    simp only [Option.some.injEq] at h
    subst h
    exact ⟨rb, by simp [List.append_assoc], hrel⟩
  rw [if_neg h3] at h ⊢
  cases hr : rfcDistance np nd sa.ring (c.distPrefix % 1024) c.distExtra with
  | none => rw [hr] at h; cases h
  | some du =>
    obtain ⟨d, upd⟩ := du
    rw [hr] at h
    simp only [] at h
    by_cases h4 : d ≤ 0
    · rw [if_pos h4] at h; cases h
    rw [if_neg h4] at h
    by_cases h5 : d.toNat ≤ min (sa.out ++ (mb.drop sa.cursor).take c.insertLen).length window
    · rw [if_pos h5] at h
      by_cases h6 : sa.cursor + c.insertLen + copyLenCode c.copyLenField > mb.length
      · rw [if_pos h6] at h; cases h
      rw [if_neg h6] at h
      simp only [Option.some.injEq] at h
      subst h
      have hdw : d ≤ window := by omega
      rw [rfcDistance_indep hrel np nd _ _ d upd hdw hr]
      simp only []
      rw [if_neg h4, if_pos (by simp only [List.length_append] at h5 ⊢; omega), if_neg h6]
      refine ⟨if upd then d :: rb.take 3 else rb, ?_, ?_⟩
      · simp only [Option.some.injEq, DecSt.mk.injEq, and_true, true_and]
        rw [List.append_assoc]
        exact copyBytes_prefix h' _ _ _ (by omega)
      · cases upd with
        | true => exact hrel.push d
        | false => exact hrel
    · rw [if_neg h5] at h
      split at h
      · cases h
      · simp only [noWords] at h; cases h

/-- **whole arrays** -/
theorem decSteps_indep (w' : WordOracle) (np nd window window' : Nat) (hw : window ≤ window') (mb h' : Bytes) :
    ∀ (cmds : List Cmd) (sa sa' : DecSt) (rb : List Int), RingRel window sa.ring rb →
      decSteps noWords np nd window mb sa cmds = some sa' →
      ∃ rb', decSteps w' np nd window' mb ⟨h' ++ sa.out, rb, sa.cursor⟩ cmds = some ⟨h' ++ sa'.out, rb', sa'.cursor⟩ ∧
        RingRel window sa'.ring rb' := by
  intro cmds
  induction cmds with
  | nil =>
    intro sa sa' rb hrel h
    simp only [decSteps, Option.some.injEq] at h
    subst h
    exact ⟨rb, rfl, hrel⟩
  | cons c cs ih =>
    intro sa sa' rb hrel h
    simp only [decSteps] at h ⊢
    cases h1 : decStep noWords np nd window mb sa c with
    | none => rw [h1] at h; cases h
    | some s1 =>
      rw [h1] at h
      obtain ⟨rb1, e1, hrel1⟩ := decStep_indep w' np nd window window' hw mb h' sa s1 rb c hrel h1
      rw [e1]
      exact ih s1 sa' rb1 hrel1 h

/-- **the writers' `lockstep` hypothesis** carries over (its position bookkeeping does not look at the history) -/
theorem lockstep_indep (w' : WordOracle) (np nd window window' : Nat) (hw : window ≤ window') (mb h' : Bytes) :
    ∀ (cmds : List Cmd) (sa : DecSt) (rb : List Int) (pos : Nat), RingRel window sa.ring rb →
      lockstep noWords np nd window mb sa pos cmds = true →
      lockstep w' np nd window' mb ⟨h' ++ sa.out, rb, sa.cursor⟩ pos cmds = true := by
  intro cmds
  induction cmds with
  | nil => intro sa rb pos _ h; simpa [lockstep] using h
  | cons c cs ih =>
    intro sa rb pos hrel h
    rw [lockstep] at h ⊢
    simp only [Bool.and_eq_true, decide_eq_true_eq] at h ⊢
    obtain ⟨hc, hm⟩ := h
    refine ⟨hc, ?_⟩
    cases h1 : decStep noWords np nd window mb sa c with
    | none => rw [h1] at hm; cases hm
    | some s1 =>
      rw [h1] at hm
      obtain ⟨rb1, e1, hrel1⟩ := decStep_indep w' np nd window window' hw mb h' sa s1 rb c hrel h1
      rw [e1]
      simp only [] at hm ⊢
      split
      · rename_i hfin; rw [if_pos hfin] at hm; exact hm
      · rename_i hfin
        rw [if_neg hfin] at hm
        simp only [Bool.and_eq_true, decide_eq_true_eq] at hm ⊢
        exact ⟨hm.1, ih s1 rb1 _ hrel1 hm.2⟩

end BV.Catable
