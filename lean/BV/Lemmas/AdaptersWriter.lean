import BV.Lemmas.AdaptersInner
import BV.Lemmas.AdaptersHyp
/-
C11, writer half: `CompressorWriterCustomIo::{write, flush_or_close, flush, into_inner}` and the
std layer, over an arbitrary encoder oracle and an arbitrary script of the wrapped writer.
-/
namespace BV.Adapters
variable {σ : Type}

/-- both stock error values are present -/
def Writer.armed (w : Writer σ) : Prop := w.errInvalid = true ∧ w.errZero = true

/-- one encoder call + hand-over, described -/
theorem encodeAndHandOver_spec (E : Enc σ) (w w' : Writer σ) (op : Op) (input : Bytes) (ans : EncAns)
    (r : Except Err Unit) (h : w.encodeAndHandOver E op input = some (w', ans, r)) :
    w'.enc = (E.step w.enc op input w.bufSize).1 ∧ ans = (E.step w.enc op input w.bufSize).2 ∧
    w'.bufSize = w.bufSize ∧
    w'.elog = ⟨op, input, w.bufSize, ans, E.hasMore w'.enc, E.isFinished w'.enc⟩ :: w.elog ∧
    ans.consumed ≤ input.length ∧ ans.produced.length ≤ w.bufSize ∧
    ∃ (new : List LogE) (p : Bytes),
      w'.sink.log = new ++ w.sink.log ∧ w'.sink.got = w.sink.got ++ p ∧ p <+: ans.produced ∧
      w'.sink.tail = w.sink.tail ∧ w'.sink.fscript = w.sink.fscript ∧
      (r = .ok () → (w.errZero = true ∨ w.errInvalid = true) →
        p = ans.produced ∧ (∀ e ∈ new, e.faulty = false) ∧
        w'.errZero = w.errZero ∧ w'.errInvalid = w.errInvalid) := by
  unfold Writer.encodeAndHandOver at h
  simp only at h
  split at h
  · simp at h
  · next hsane =>
    have hs1 : (E.step w.enc op input w.bufSize).2.consumed ≤ input.length := Nat.le_of_not_lt (not_or.mp hsane).1
    have hs2 : (E.step w.enc op input w.bufSize).2.produced.length ≤ w.bufSize := Nat.le_of_not_lt (not_or.mp hsane).2
    split at h
    · next hpos =>
      obtain ⟨new, p, s1, s2, s3, s4, s5, _, _, s6⟩ :=
        writeAll_spec w.errZero w.errInvalid w.sink (E.step w.enc op input w.bufSize).2.produced
      generalize hwa : writeAll w.errZero w.errInvalid w.sink (E.step w.enc op input w.bufSize).2.produced = wa at h s1 s2 s3 s4 s5 s6
      obtain ⟨ez, ei, s', rr⟩ := wa
      simp only [Option.some.injEq, Prod.mk.injEq] at h
      obtain ⟨hw, ha, hr⟩ := h
      subst hw ha hr
      refine ⟨rfl, rfl, rfl, rfl, hs1, hs2, new, p, s1, s2, s3, s4, s5, ?_⟩
      intro hok harm
      obtain ⟨j1, j2, j3, j4⟩ := s6 hok harm
      exact ⟨j1, j2, j3, j4⟩
    · next hz =>
      simp only [Option.some.injEq, Prod.mk.injEq] at h
      obtain ⟨hw, ha, hr⟩ := h
      subst hw ha hr
      refine ⟨rfl, rfl, rfl, rfl, hs1, hs2, [], [], by simp, by simp, List.nil_prefix, rfl, rfl, ?_⟩
      intro _ _
      refine ⟨?_, by simp, rfl, rfl⟩
      have : (E.step w.enc op input w.bufSize).2.produced.length = 0 := Nat.eq_zero_of_not_pos hz
      exact (List.eq_nil_of_length_eq_zero this).symm
/-! ### `write` -/

theorem writeLoop_ok (E : Enc σ) (n : Nat) : ∀ (fuel : Nat) (w w' : Writer σ) (rest : Bytes) (m : Nat),
    w.armed → Writer.writeLoop E n fuel w rest = (w', .done (.ok m)) →
    m = n ∧ w'.armed ∧ w'.bufSize = w.bufSize ∧ w'.sink.tail = w.sink.tail ∧
    ∃ (newE : List ERec) (newL : List LogE),
      w'.elog = newE ++ w.elog ∧ w'.sink.log = newL ++ w.sink.log ∧
      w'.sink.got = w.sink.got ++ emitted newE ∧ fed newE = rest ∧
      (∀ e ∈ newL, e.faulty = false) ∧
      (∀ r ∈ newE, r.op = .process ∧ r.ans.ok = true ∧ r.cap = w.bufSize) := by
  intro fuel
  induction fuel with
  | zero => intro w w' rest m _ h; simp [Writer.writeLoop] at h
  | succ fuel ih =>
    intro w w' rest m harm h
    simp only [Writer.writeLoop] at h
    split at h
    · next hz =>
      simp only [Prod.mk.injEq, Out.done.injEq, Except.ok.injEq] at h
      obtain ⟨hw, hm⟩ := h
      subst hw
      refine ⟨hm.symm, harm, rfl, rfl, [], [], by simp, by simp, by simp, ?_, by simp, by simp⟩
      simp [(List.eq_nil_of_length_eq_zero hz)]
    · next hnz =>
      split at h
      · simp at h
      · simp at h
      · next w1 ans heq =>
        obtain ⟨e1, e2, e3, e4, e5, e6, new, p, l1, l2, l3, l4, l5, l6⟩ := encodeAndHandOver_spec E w w1 .process rest ans _ heq
        obtain ⟨j1, j2, j3, j4⟩ := l6 rfl (Or.inl harm.2)
        split at h
        · split at h <;> simp at h
        · next hok =>
          have harm1 : w1.armed := ⟨by rw [j4]; exact harm.1, by rw [j3]; exact harm.2⟩
          obtain ⟨i1, i2, i3, i4, newE, newL, k1, k2, k3, k4, k5, k6⟩ := ih w1 w' (rest.drop ans.consumed) m harm1 h
          refine ⟨i1, i2, by rw [i3, e3], by rw [i4, l4], newE ++ [⟨.process, rest, w.bufSize, ans, E.hasMore w1.enc, E.isFinished w1.enc⟩], newL ++ new, ?_, ?_, ?_, ?_, ?_, ?_⟩
          · rw [k1, e4]; simp
          · rw [k2, l1]; simp
          · rw [k3, l2, j1, emitted_append]; simp [emitted]
          · rw [fed_append, k4]; simp [fed]
          · intro e he
            rcases List.mem_append.mp he with h' | h'
            · exact k5 e h'
            · exact j2 e h'
          · intro r hr
            rcases List.mem_append.mp hr with h' | h'
            · have := k6 r h'; rw [e3] at this; exact this
            · simp at h'; subst h'; simpa using hok
theorem encodeAndHandOver_some (E : Enc σ) (hs : EncSane E) (w : Writer σ) (op : Op) (input : Bytes) :
    ∃ x, w.encodeAndHandOver E op input = some x := by
  unfold Writer.encodeAndHandOver
  simp only
  have h1 := hs.consumed_le w.enc op input w.bufSize
  have h2 := hs.produced_le w.enc op input w.bufSize
  split
  · next h => rcases h with h | h
              · exact absurd h (Nat.not_lt.mpr h1)
              · exact absurd h (Nat.not_lt.mpr h2)
  · split
    · exact ⟨_, rfl⟩
    · exact ⟨_, rfl⟩

/-- with the error values in stock, what reached the sink is always a prefix of what the encoder
produced during the call (whatever the outcome) -/
theorem writeLoop_prefix (E : Enc σ) (n : Nat) : ∀ (fuel : Nat) (w : Writer σ) (rest : Bytes),
    w.armed →
    ∃ (newE : List ERec) (newL : List LogE) (p : Bytes),
      (Writer.writeLoop E n fuel w rest).1.elog = newE ++ w.elog ∧
      (Writer.writeLoop E n fuel w rest).1.sink.log = newL ++ w.sink.log ∧
      (Writer.writeLoop E n fuel w rest).1.sink.got = w.sink.got ++ p ∧ p <+: emitted newE := by
  intro fuel
  induction fuel with
  | zero => intro w rest _; exact ⟨[], [], [], by simp [Writer.writeLoop]⟩
  | succ fuel ih =>
    intro w rest harm
    simp only [Writer.writeLoop]
    split
    · exact ⟨[], [], [], by simp⟩
    · split
      · exact ⟨[], [], [], by simp⟩
      · next w1 ans e heq =>
        obtain ⟨e1, e2, e3, e4, e5, e6, new, p, l1, l2, l3, l4, l5, l6⟩ := encodeAndHandOver_spec E w w1 .process rest ans _ heq
        exact ⟨[⟨.process, rest, w.bufSize, ans, E.hasMore w1.enc, E.isFinished w1.enc⟩], new, p, by simp [e4], l1, l2, by simpa [emitted] using l3⟩
      · next w1 ans heq =>
        obtain ⟨e1, e2, e3, e4, e5, e6, new, p, l1, l2, l3, l4, l5, l6⟩ := encodeAndHandOver_spec E w w1 .process rest ans _ heq
        obtain ⟨j1, j2, j3, j4⟩ := l6 rfl (Or.inl harm.2)
        split
        · split
          · exact ⟨[⟨.process, rest, w.bufSize, ans, E.hasMore w1.enc, E.isFinished w1.enc⟩], new, p, by simp [e4], l1, l2, by simpa [emitted] using l3⟩
          · exact ⟨[⟨.process, rest, w.bufSize, ans, E.hasMore w1.enc, E.isFinished w1.enc⟩], new, p, by simp [e4], l1, l2, by simpa [emitted] using l3⟩
        · have harm1 : w1.armed := ⟨by rw [j4]; exact harm.1, by rw [j3]; exact harm.2⟩
          obtain ⟨newE, newL, p', k1, k2, k3, k4⟩ := ih w1 (rest.drop ans.consumed) harm1
          refine ⟨newE ++ [⟨.process, rest, w.bufSize, ans, E.hasMore w1.enc, E.isFinished w1.enc⟩], newL ++ new, ans.produced ++ p', ?_, ?_, ?_, ?_⟩
          · rw [k1, e4]; simp
          · rw [k2, l1]; simp
          · rw [k3, l2, j1]; simp
          · rw [emitted_append]; simp only [emitted, List.reverse_cons, List.reverse_nil, List.nil_append, List.map_cons, List.map_nil, List.flatten_cons, List.flatten_nil, List.append_nil]
            exact (List.prefix_append_right_inj _).mpr k4

/-- under a sane encoder and stocked error values `write` does not panic -/
theorem writeLoop_no_panic (E : Enc σ) (hs : EncSane E) (n : Nat) : ∀ (fuel : Nat) (w : Writer σ) (rest : Bytes),
    w.armed → (Writer.writeLoop E n fuel w rest).2 ≠ .panic := by
  intro fuel
  induction fuel with
  | zero => intro w rest _; simp [Writer.writeLoop]
  | succ fuel ih =>
    intro w rest harm
    simp only [Writer.writeLoop]
    split
    · simp
    · split
      · next heq => obtain ⟨x, hx⟩ := encodeAndHandOver_some E hs w .process rest; rw [hx] at heq; simp at heq
      · simp
      · next w1 ans heq =>
        obtain ⟨e1, e2, e3, e4, e5, e6, new, p, l1, l2, l3, l4, l5, l6⟩ := encodeAndHandOver_spec E w w1 .process rest ans _ heq
        obtain ⟨j1, j2, j3, j4⟩ := l6 rfl (Or.inl harm.2)
        have harm1 : w1.armed := ⟨by rw [j4]; exact harm.1, by rw [j3]; exact harm.2⟩
        split
        · rw [if_pos harm1.1]; simp
        · exact ih w1 _ harm1

theorem writeLoop_terminates (E : Enc σ) (ops : Op → Prop) (rank : σ → Nat) (hp : EncProgress E ops rank) (hops : ops .process) (n : Nat) :
    ∀ (L R : Nat) (w : Writer σ) (rest : Bytes), rest.length = L → rank w.enc = R → 0 < w.bufSize →
      ∃ N, ∀ fuel, N ≤ fuel → (Writer.writeLoop E n fuel w rest).2 ≠ .livelock := by
  intro L
  induction L using Nat.strongRecOn with
  | ind L ihL =>
    intro R
    induction R using Nat.strongRecOn with
    | ind R ihR =>
      intro w rest hL hR hB
      by_cases hz : rest.length = 0
      · refine ⟨1, ?_⟩
        intro fuel hf
        obtain ⟨f, rfl⟩ : ∃ f, fuel = f + 1 := ⟨fuel - 1, by omega⟩
        simp [Writer.writeLoop, hz]
      · cases hE : w.encodeAndHandOver E .process rest with
        | none =>
          refine ⟨1, ?_⟩
          intro fuel hf
          obtain ⟨f, rfl⟩ : ∃ f, fuel = f + 1 := ⟨fuel - 1, by omega⟩
          simp [Writer.writeLoop, hz, hE]
        | some x =>
          obtain ⟨w1, ans, r⟩ := x
          cases r with
          | error e =>
            refine ⟨1, ?_⟩
            intro fuel hf
            obtain ⟨f, rfl⟩ : ∃ f, fuel = f + 1 := ⟨fuel - 1, by omega⟩
            simp [Writer.writeLoop, hz, hE]
          | ok u =>
            cases u
            obtain ⟨e1, e2, e3, e4, e5, e6, _⟩ := encodeAndHandOver_spec E w w1 .process rest ans _ hE
            by_cases hok : ans.ok = true
            · -- the loop goes on with `rest.drop ans.consumed`
              have hnext : ∃ N, ∀ fuel, N ≤ fuel → (Writer.writeLoop E n fuel w1 (rest.drop ans.consumed)).2 ≠ .livelock := by
                by_cases hc : ans.consumed = 0
                · have hlt : rank w1.enc < R := by
                    rw [← hR, e1]
                    apply hp.stall w.enc .process rest w.bufSize hops hB
                    · rw [← e2]; exact hok
                    · rw [← e2]; exact hc
                    · exact Or.inl ⟨rfl, fun h => hz (by simp [h])⟩
                  have := ihR (rank w1.enc) hlt w1 (rest.drop ans.consumed) (by simp [hc, hL]) rfl (by rw [e3]; exact hB)
                  exact this
                · have hlt : (rest.drop ans.consumed).length < L := by simp [List.length_drop]; omega
                  exact ihL _ hlt (rank w1.enc) w1 _ rfl rfl (by rw [e3]; exact hB)
              obtain ⟨N, hN⟩ := hnext
              refine ⟨N + 1, ?_⟩
              intro fuel hf
              obtain ⟨f, rfl⟩ : ∃ f, fuel = f + 1 := ⟨fuel - 1, by omega⟩
              simp only [Writer.writeLoop, hz, hE, if_false, hok]
              exact hN f (by omega)
            · refine ⟨1, ?_⟩
              intro fuel hf
              obtain ⟨f, rfl⟩ : ∃ f, fuel = f + 1 := ⟨fuel - 1, by omega⟩
              have : ans.ok = false := by simpa using hok
              simp only [Writer.writeLoop, hz, hE, if_false, this]
              simp only [Bool.not_false, if_true]
              split <;> simp
/-! ### `flush_or_close` -/

theorem flushOrClose_ok (E : Enc σ) (op : Op) : ∀ (fuel : Nat) (w w' : Writer σ),
    w.armed → Writer.flushOrClose E op fuel w = (w', .done (.ok ())) →
    w'.armed ∧ w'.bufSize = w.bufSize ∧ w'.sink.tail = w.sink.tail ∧ w'.sink.fscript = w.sink.fscript ∧
    (if op = .flush then E.hasMore w'.enc = false else E.isFinished w'.enc = true) ∧
    ∃ (newE : List ERec) (newL : List LogE),
      w'.elog = newE ++ w.elog ∧ w'.sink.log = newL ++ w.sink.log ∧
      w'.sink.got = w.sink.got ++ emitted newE ∧ fed newE = [] ∧ newE ≠ [] ∧
      (∀ e ∈ newL, e.faulty = false) ∧
      (∀ r ∈ newE, r.op = op ∧ r.input = [] ∧ r.ans.ok = true ∧ r.cap = w.bufSize) := by
  intro fuel
  induction fuel with
  | zero => intro w w' _ h; simp [Writer.flushOrClose] at h
  | succ fuel ih =>
    intro w w' harm h
    simp only [Writer.flushOrClose] at h
    split at h
    · simp at h
    · simp at h
    · next w1 ans heq =>
      obtain ⟨e1, e2, e3, e4, e5, e6, new, p, l1, l2, l3, l4, l5, l6⟩ := encodeAndHandOver_spec E w w1 op [] ans _ heq
      obtain ⟨j1, j2, j3, j4⟩ := l6 rfl (Or.inl harm.2)
      have harm1 : w1.armed := ⟨by rw [j4]; exact harm.1, by rw [j3]; exact harm.2⟩
      have hfed : ([] : Bytes).take ans.consumed = [] := by simp
      -- what one finished iteration contributes
      have one : ∀ (hok : ans.ok = true), w1.armed ∧ w1.bufSize = w.bufSize ∧ w1.sink.tail = w.sink.tail ∧ w1.sink.fscript = w.sink.fscript ∧
          ∃ (newE : List ERec) (newL : List LogE),
            w1.elog = newE ++ w.elog ∧ w1.sink.log = newL ++ w.sink.log ∧
            w1.sink.got = w.sink.got ++ emitted newE ∧ fed newE = [] ∧ newE ≠ [] ∧
            (∀ e ∈ newL, e.faulty = false) ∧
            (∀ r ∈ newE, r.op = op ∧ r.input = [] ∧ r.ans.ok = true ∧ r.cap = w.bufSize) := by
        intro hok
        refine ⟨harm1, e3, l4, l5, [⟨op, [], w.bufSize, ans, E.hasMore w1.enc, E.isFinished w1.enc⟩], new, by simp [e4], l1, by simp [l2, j1, emitted], by simp [fed], by simp, j2, ?_⟩
        intro r hr; simp at hr; subst hr; exact ⟨rfl, rfl, hok, rfl⟩
      -- what a further successful run contributes on top
      have more : ∀ (hok : ans.ok = true), Writer.flushOrClose E op fuel w1 = (w', .done (.ok ())) →
          w'.armed ∧ w'.bufSize = w.bufSize ∧ w'.sink.tail = w.sink.tail ∧ w'.sink.fscript = w.sink.fscript ∧
          (if op = .flush then E.hasMore w'.enc = false else E.isFinished w'.enc = true) ∧
          ∃ (newE : List ERec) (newL : List LogE),
            w'.elog = newE ++ w.elog ∧ w'.sink.log = newL ++ w.sink.log ∧
            w'.sink.got = w.sink.got ++ emitted newE ∧ fed newE = [] ∧ newE ≠ [] ∧
            (∀ e ∈ newL, e.faulty = false) ∧
            (∀ r ∈ newE, r.op = op ∧ r.input = [] ∧ r.ans.ok = true ∧ r.cap = w.bufSize) := by
        intro hok hrec
        obtain ⟨i1, i2, i3, i3', i4, newE, newL, k1, k2, k3, k4, k4', k5, k6⟩ := ih w1 w' harm1 hrec
        refine ⟨i1, by rw [i2, e3], by rw [i3, l4], by rw [i3', l5], i4, newE ++ [⟨op, [], w.bufSize, ans, E.hasMore w1.enc, E.isFinished w1.enc⟩], newL ++ new, ?_, ?_, ?_, ?_, by simp, ?_, ?_⟩
        · rw [k1, e4]; simp
        · rw [k2, l1]; simp
        · rw [k3, l2, j1, emitted_append]; simp [emitted]
        · rw [fed_append, k4]; simp [fed]
        · intro e he
          rcases List.mem_append.mp he with h' | h'
          · exact k5 e h'
          · exact j2 e h'
        · intro r hr
          rcases List.mem_append.mp hr with h' | h'
          · have := k6 r h'; rw [e3] at this; exact this
          · simp at h'; subst h'; exact ⟨rfl, rfl, hok, rfl⟩
      split at h
      · split at h <;> simp at h
      · next hok =>
        have hok' : ans.ok = true := by simpa using hok
        split at h
        · next hop =>
          split at h
          · exact more hok' h
          · next hm =>
            simp only [Prod.mk.injEq] at h
            obtain ⟨hw, _⟩ := h
            subst hw
            obtain ⟨a1, a2, a3, a4, a5⟩ := one hok'
            exact ⟨a1, a2, a3, a4, by simpa [hop] using hm, a5⟩
        · next hop =>
          split at h
          · next hfin =>
            simp only [Prod.mk.injEq] at h
            obtain ⟨hw, _⟩ := h
            subst hw
            obtain ⟨a1, a2, a3, a4, a5⟩ := one hok'
            exact ⟨a1, a2, a3, a4, by simpa [hop] using hfin, a5⟩
          · exact more hok' h
theorem flushOrClose_prefix (E : Enc σ) (op : Op) : ∀ (fuel : Nat) (w : Writer σ),
    w.armed →
    ∃ (newE : List ERec) (newL : List LogE) (p : Bytes),
      (Writer.flushOrClose E op fuel w).1.elog = newE ++ w.elog ∧
      (Writer.flushOrClose E op fuel w).1.sink.log = newL ++ w.sink.log ∧
      (Writer.flushOrClose E op fuel w).1.sink.got = w.sink.got ++ p ∧ p <+: emitted newE := by
  intro fuel
  induction fuel with
  | zero => intro w _; exact ⟨[], [], [], by simp [Writer.flushOrClose]⟩
  | succ fuel ih =>
    intro w harm
    simp only [Writer.flushOrClose]
    split
    · exact ⟨[], [], [], by simp⟩
    · next w1 ans e heq =>
      obtain ⟨e1, e2, e3, e4, e5, e6, new, p, l1, l2, l3, l4, l5, l6⟩ := encodeAndHandOver_spec E w w1 op [] ans _ heq
      exact ⟨[⟨op, [], w.bufSize, ans, E.hasMore w1.enc, E.isFinished w1.enc⟩], new, p, by simp [e4], l1, l2, by simpa [emitted] using l3⟩
    · next w1 ans heq =>
      obtain ⟨e1, e2, e3, e4, e5, e6, new, p, l1, l2, l3, l4, l5, l6⟩ := encodeAndHandOver_spec E w w1 op [] ans _ heq
      obtain ⟨j1, j2, j3, j4⟩ := l6 rfl (Or.inl harm.2)
      have harm1 : w1.armed := ⟨by rw [j4]; exact harm.1, by rw [j3]; exact harm.2⟩
      have one : ∃ (newE : List ERec) (newL : List LogE) (p : Bytes),
          w1.elog = newE ++ w.elog ∧ w1.sink.log = newL ++ w.sink.log ∧ w1.sink.got = w.sink.got ++ p ∧ p <+: emitted newE :=
        ⟨[⟨op, [], w.bufSize, ans, E.hasMore w1.enc, E.isFinished w1.enc⟩], new, p, by simp [e4], l1, l2, by simpa [emitted] using l3⟩
      have more : ∃ (newE : List ERec) (newL : List LogE) (p : Bytes),
          (Writer.flushOrClose E op fuel w1).1.elog = newE ++ w.elog ∧
          (Writer.flushOrClose E op fuel w1).1.sink.log = newL ++ w.sink.log ∧
          (Writer.flushOrClose E op fuel w1).1.sink.got = w.sink.got ++ p ∧ p <+: emitted newE := by
        obtain ⟨newE, newL, p', k1, k2, k3, k4⟩ := ih w1 harm1
        refine ⟨newE ++ [⟨op, [], w.bufSize, ans, E.hasMore w1.enc, E.isFinished w1.enc⟩], newL ++ new, ans.produced ++ p', ?_, ?_, ?_, ?_⟩
        · rw [k1, e4]; simp
        · rw [k2, l1]; simp
        · rw [k3, l2, j1]; simp
        · rw [emitted_append]; simp only [emitted, List.reverse_cons, List.reverse_nil, List.nil_append, List.map_cons, List.map_nil, List.flatten_cons, List.flatten_nil, List.append_nil]
          exact (List.prefix_append_right_inj _).mpr k4
      split
      · split
        · exact one
        · exact one
      · split
        · split
          · exact more
          · exact one
        · split
          · exact one
          · exact more

theorem flushOrClose_no_panic (E : Enc σ) (hs : EncSane E) (op : Op) : ∀ (fuel : Nat) (w : Writer σ),
    w.armed → (Writer.flushOrClose E op fuel w).2 ≠ .panic := by
  intro fuel
  induction fuel with
  | zero => intro w _; simp [Writer.flushOrClose]
  | succ fuel ih =>
    intro w harm
    simp only [Writer.flushOrClose]
    split
    · next heq => obtain ⟨x, hx⟩ := encodeAndHandOver_some E hs w op []; rw [hx] at heq; simp at heq
    · simp
    · next w1 ans heq =>
      obtain ⟨e1, e2, e3, e4, e5, e6, new, p, l1, l2, l3, l4, l5, l6⟩ := encodeAndHandOver_spec E w w1 op [] ans _ heq
      obtain ⟨j1, j2, j3, j4⟩ := l6 rfl (Or.inl harm.2)
      have harm1 : w1.armed := ⟨by rw [j4]; exact harm.1, by rw [j3]; exact harm.2⟩
      split
      · rw [if_pos harm1.1]; simp
      · split
        · split
          · exact ih w1 harm1
          · simp
        · split
          · simp
          · exact ih w1 harm1

theorem flushOrClose_terminates (E : Enc σ) (ops : Op → Prop) (rank : σ → Nat) (hp : EncProgress E ops rank) (op : Op) (hops : ops op) (hop : op ≠ .process) :
    ∀ (R : Nat) (w : Writer σ), rank w.enc = R → 0 < w.bufSize →
      ∃ N, ∀ fuel, N ≤ fuel → (Writer.flushOrClose E op fuel w).2 ≠ .livelock := by
  intro R
  induction R using Nat.strongRecOn with
  | ind R ihR =>
    intro w hR hB
    cases hE : w.encodeAndHandOver E op [] with
    | none =>
      refine ⟨1, ?_⟩
      intro fuel hf
      obtain ⟨f, rfl⟩ : ∃ f, fuel = f + 1 := ⟨fuel - 1, by omega⟩
      simp [Writer.flushOrClose, hE]
    | some x =>
      obtain ⟨w1, ans, r⟩ := x
      cases r with
      | error e =>
        refine ⟨1, ?_⟩
        intro fuel hf
        obtain ⟨f, rfl⟩ : ∃ f, fuel = f + 1 := ⟨fuel - 1, by omega⟩
        simp [Writer.flushOrClose, hE]
      | ok u =>
        cases u
        obtain ⟨e1, e2, e3, e4, e5, e6, _⟩ := encodeAndHandOver_spec E w w1 op [] ans _ hE
        have hc : ans.consumed = 0 := by simpa using e5
        by_cases hok : ans.ok = true
        · -- does the loop go on?
          by_cases hgo : (op = .flush ∧ E.hasMore w1.enc = true) ∨ (op ≠ .flush ∧ E.isFinished w1.enc = false)
          · have hdem : Demanded E w1.enc op [] := by
              rcases hgo with ⟨h1, h2⟩ | ⟨h1, h2⟩
              · exact Or.inr (Or.inr ⟨h1, rfl, h2⟩)
              · refine Or.inr (Or.inl ⟨?_, rfl, h2⟩)
                cases op <;> simp_all
            have hlt : rank w1.enc < R := by
              rw [← hR, e1]
              apply hp.stall w.enc op [] w.bufSize hops hB
              · rw [← e2]; exact hok
              · rw [← e2]; exact hc
              · rw [← e1]; exact hdem
            obtain ⟨N, hN⟩ := ihR (rank w1.enc) hlt w1 rfl (by rw [e3]; exact hB)
            refine ⟨N + 1, ?_⟩
            intro fuel hf
            obtain ⟨f, rfl⟩ : ∃ f, fuel = f + 1 := ⟨fuel - 1, by omega⟩
            simp only [Writer.flushOrClose, hE, hok]
            have hf' : N ≤ f := by omega
            rcases hgo with ⟨h1, h2⟩ | ⟨h1, h2⟩
            · subst h1; simp only [h2]; simpa using hN f hf'
            · simp only [h1, h2]; simpa using hN f hf'
          · refine ⟨1, ?_⟩
            intro fuel hf
            obtain ⟨f, rfl⟩ : ∃ f, fuel = f + 1 := ⟨fuel - 1, by omega⟩
            simp only [Writer.flushOrClose, hE, hok]
            by_cases h1 : op = .flush
            · have h2 : E.hasMore w1.enc = false := by
                cases hm : E.hasMore w1.enc
                · rfl
                · exact absurd (Or.inl ⟨h1, hm⟩) hgo
              simp [h1, h2]
            · have h2 : E.isFinished w1.enc = true := by
                cases hm : E.isFinished w1.enc
                · exact absurd (Or.inr ⟨h1, hm⟩) hgo
                · rfl
              simp [h1, h2]
        · refine ⟨1, ?_⟩
          intro fuel hf
          obtain ⟨f, rfl⟩ : ∃ f, fuel = f + 1 := ⟨fuel - 1, by omega⟩
          have : ans.ok = false := by simpa using hok
          simp only [Writer.flushOrClose, hE, this]
          simp only [Bool.not_false, if_true]
          split <;> simp
end BV.Adapters
