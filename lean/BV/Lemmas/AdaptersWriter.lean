import BV.Lemmas.AdaptersInner
import BV.Lemmas.AdaptersHyp
/-
C11, writer half: `CompressorWriterCustomIo::{write, flush_or_close, flush, into_inner}` and the
std layer, over an arbitrary encoder oracle and an arbitrary script of the wrapped writer.
-/
namespace BV.Adapters
variable {σ : Type}

/-- both stock error values are present -/
def Writer.armed (w : Writer σ) : Prop := w.errInvalid = true ∧ w.errZero = true

/-- one encoder call + hand-over, described -/
theorem encodeAndHandOver_spec (E : Enc σ) (w w' : Writer σ) (op : Op) (input : Bytes) (ans : EncAns)
    (r : Except Err Unit) (h : w.encodeAndHandOver E op input = some (w', ans, r)) :
    w'.enc = (E.step w.enc op input w.bufSize).1 ∧ ans = (E.step w.enc op input w.bufSize).2 ∧
    w'.bufSize = w.bufSize ∧
    w'.elog = ⟨op, input, w.bufSize, ans, E.hasMore w'.enc, E.isFinished w'.enc⟩ :: w.elog ∧
    ans.consumed ≤ input.length ∧ ans.produced.length ≤ w.bufSize ∧
    ∃ (new : List LogE) (p : Bytes),
      w'.sink.log = new ++ w.sink.log ∧ w'.sink.got = w.sink.got ++ p ∧ p <+: ans.produced ∧
      w'.sink.tail = w.sink.tail ∧ w'.sink.fscript = w.sink.fscript ∧
      (r = .ok () → (w.errZero = true ∨ w.errInvalid = true) →
        p = ans.produced ∧ (∀ e ∈ new, e.faulty = false) ∧
        w'.errZero = w.errZero ∧ w'.errInvalid = w.errInvalid) := by
  unfold Writer.encodeAndHandOver at h
  simp only at h
  split at h
  · simp at h
  · next hsane =>
    have hs1 : (E.step w.enc op input w.bufSize).2.consumed ≤ input.length := Nat.le_of_not_lt (not_or.mp hsane).1
    have hs2 : (E.step w.enc op input w.bufSize).2.produced.length ≤ w.bufSize := Nat.le_of_not_lt (not_or.mp hsane).2
    split at h
    · next hpos =>
      obtain ⟨new, p, s1, s2, s3, s4, s5, _, _, s6⟩ :=
        writeAll_spec w.errZero w.errInvalid w.sink (E.step w.enc op input w.bufSize).2.produced
      generalize hwa : writeAll w.errZero w.errInvalid w.sink (E.step w.enc op input w.bufSize).2.produced = wa at h s1 s2 s3 s4 s5 s6
      obtain ⟨ez, ei, s', rr⟩ := wa
      simp only [Option.some.injEq, Prod.mk.injEq] at h
      obtain ⟨hw, ha, hr⟩ := h
      subst hw ha hr
      refine ⟨rfl, rfl, rfl, rfl, hs1, hs2, new, p, s1, s2, s3, s4, s5, ?_⟩
      intro hok harm
      obtain ⟨j1, j2, j3, j4⟩ := s6 hok harm
      exact ⟨j1, j2, j3, j4⟩
    · next hz =>
      simp only [Option.some.injEq, Prod.mk.injEq] at h
      obtain ⟨hw, ha, hr⟩ := h
      subst hw ha hr
      refine ⟨rfl, rfl, rfl, rfl, hs1, hs2, [], [], by simp, by simp, List.nil_prefix, rfl, rfl, ?_⟩
      intro _ _
      refine ⟨?_, by simp, rfl, rfl⟩
      have : (E.step w.enc op input w.bufSize).2.produced.length = 0 := Nat.eq_zero_of_not_pos hz
      exact (List.eq_nil_of_length_eq_zero this).symm
/-! ### `write` -/

theorem writeLoop_ok (E : Enc σ) (n : Nat) : ∀ (fuel : Nat) (w w' : Writer σ) (rest : Bytes) (m : Nat),
    w.armed → Writer.writeLoop E n fuel w rest = (w', .done (.ok m)) →
    m = n ∧ w'.armed ∧ w'.bufSize = w.bufSize ∧ w'.sink.tail = w.sink.tail ∧
    ∃ (newE : List ERec) (newL : List LogE),
      w'.elog = newE ++ w.elog ∧ w'.sink.log = newL ++ w.sink.log ∧
      w'.sink.got = w.sink.got ++ emitted newE ∧ fed newE = rest ∧
      (∀ e ∈ newL, e.faulty = false) ∧
      (∀ r ∈ newE, r.op = .process ∧ r.ans.ok = true ∧ r.cap = w.bufSize) := by
  intro fuel
  induction fuel with
  | zero => intro w w' rest m _ h; simp [Writer.writeLoop] at h
  | succ fuel ih =>
    intro w w' rest m harm h
    simp only [Writer.writeLoop] at h
    split at h
    · next hz =>
      simp only [Prod.mk.injEq, Out.done.injEq, Except.ok.injEq] at h
      obtain ⟨hw, hm⟩ := h
      subst hw
      refine ⟨hm.symm, harm, rfl, rfl, [], [], by simp, by simp, by simp, ?_, by simp, by simp⟩
      simp [(List.eq_nil_of_length_eq_zero hz)]
    · next hnz =>
      split at h
      · simp at h
      · simp at h
      · next w1 ans heq =>
        obtain ⟨e1, e2, e3, e4, e5, e6, new, p, l1, l2, l3, l4, l5, l6⟩ := encodeAndHandOver_spec E w w1 .process rest ans _ heq
        obtain ⟨j1, j2, j3, j4⟩ := l6 rfl (Or.inl harm.2)
        split at h
        · split at h <;> simp at h
        · next hok =>
          have harm1 : w1.armed := ⟨by rw [j4]; exact harm.1, by rw [j3]; exact harm.2⟩
          obtain ⟨i1, i2, i3, i4, newE, newL, k1, k2, k3, k4, k5, k6⟩ := ih w1 w' (rest.drop ans.consumed) m harm1 h
          refine ⟨i1, i2, by rw [i3, e3], by rw [i4, l4], newE ++ [⟨.process, rest, w.bufSize, ans, E.hasMore w1.enc, E.isFinished w1.enc⟩], newL ++ new, ?_, ?_, ?_, ?_, ?_, ?_⟩
          · rw [k1, e4]; simp
          · rw [k2, l1]; simp
          · rw [k3, l2, j1, emitted_append]; simp [emitted]
          · rw [fed_append, k4]; simp [fed]
          · intro e he
            rcases List.mem_append.mp he with h' | h'
            · exact k5 e h'
            · exact j2 e h'
          · intro r hr
            rcases List.mem_append.mp hr with h' | h'
            · have := k6 r h'; rw [e3] at this; exact this
            · simp at h'; subst h'; simpa using hok
theorem encodeAndHandOver_some (E : Enc σ) (hs : EncSane E) (w : Writer σ) (op : Op) (input : Bytes) :
    ∃ x, w.encodeAndHandOver E op input = some x := by
  unfold Writer.encodeAndHandOver
  simp only
  have h1 := hs.consumed_le w.enc op input w.bufSize
  have h2 := hs.produced_le w.enc op input w.bufSize
  split
  · next h => rcases h with h | h
              · exact absurd h (Nat.not_lt.mpr h1)
              · exact absurd h (Nat.not_lt.mpr h2)
  · split
    · exact ⟨_, rfl⟩
    · exact ⟨_, rfl⟩

/-- with the error values in stock, what reached the sink is always a prefix of what the encoder
produced during the call (whatever the outcome) -/
theorem writeLoop_prefix (E : Enc σ) (n : Nat) : ∀ (fuel : Nat) (w : Writer σ) (rest : Bytes),
    w.armed →
    ∃ (newE : List ERec) (newL : List LogE) (p : Bytes),
      (Writer.writeLoop E n fuel w rest).1.elog = newE ++ w.elog ∧
      (Writer.writeLoop E n fuel w rest).1.sink.log = newL ++ w.sink.log ∧
      (Writer.writeLoop E n fuel w rest).1.sink.got = w.sink.got ++ p ∧ p <+: emitted newE := by
  intro fuel
  induction fuel with
  | zero => intro w rest _; exact ⟨[], [], [], by simp [Writer.writeLoop]⟩
  | succ fuel ih =>
    intro w rest harm
    simp only [Writer.writeLoop]
    split
    · exact ⟨[], [], [], by simp⟩
    · split
      · exact ⟨[], [], [], by simp⟩
      · next w1 ans e heq =>
        obtain ⟨e1, e2, e3, e4, e5, e6, new, p, l1, l2, l3, l4, l5, l6⟩ := encodeAndHandOver_spec E w w1 .process rest ans _ heq
        exact ⟨[⟨.process, rest, w.bufSize, ans, E.hasMore w1.enc, E.isFinished w1.enc⟩], new, p, by simp [e4], l1, l2, by simpa [emitted] using l3⟩
      · next w1 ans heq =>
        obtain ⟨e1, e2, e3, e4, e5, e6, new, p, l1, l2, l3, l4, l5, l6⟩ := encodeAndHandOver_spec E w w1 .process rest ans _ heq
        obtain ⟨j1, j2, j3, j4⟩ := l6 rfl (Or.inl harm.2)
        split
        · split
          · exact ⟨[⟨.process, rest, w.bufSize, ans, E.hasMore w1.enc, E.isFinished w1.enc⟩], new, p, by simp [e4], l1, l2, by simpa [emitted] using l3⟩
          · exact ⟨[⟨.process, rest, w.bufSize, ans, E.hasMore w1.enc, E.isFinished w1.enc⟩], new, p, by simp [e4], l1, l2, by simpa [emitted] using l3⟩
        · have harm1 : w1.armed := ⟨by rw [j4]; exact harm.1, by rw [j3]; exact harm.2⟩
          obtain ⟨newE, newL, p', k1, k2, k3, k4⟩ := ih w1 (rest.drop ans.consumed) harm1
          refine ⟨newE ++ [⟨.process, rest, w.bufSize, ans, E.hasMore w1.enc, E.isFinished w1.enc⟩], newL ++ new, ans.produced ++ p', ?_, ?_, ?_, ?_⟩
          · rw [k1, e4]; simp
          · rw [k2, l1]; simp
          · rw [k3, l2, j1]; simp
          · rw [emitted_append]; simp only [emitted, List.reverse_cons, List.reverse_nil, List.nil_append, List.map_cons, List.map_nil, List.flatten_cons, List.flatten_nil, List.append_nil]
            exact (List.prefix_append_right_inj _).mpr k4

/-- under a sane encoder and stocked error values `write` does not panic -/
theorem writeLoop_no_panic (E : Enc σ) (hs : EncSane E) (n : Nat) : ∀ (fuel : Nat) (w : Writer σ) (rest : Bytes),
    w.armed → (Writer.writeLoop E n fuel w rest).2 ≠ .panic := by
  intro fuel
  induction fuel with
  | zero => intro w rest _; simp [Writer.writeLoop]
  | succ fuel ih =>
    intro w rest harm
    simp only [Writer.writeLoop]
    split
    · simp
    · split
      · next heq => obtain ⟨x, hx⟩ := encodeAndHandOver_some E hs w .process rest; rw [hx] at heq; simp at heq
      · simp
      · next w1 ans heq =>
        obtain ⟨e1, e2, e3, e4, e5, e6, new, p, l1, l2, l3, l4, l5, l6⟩ := encodeAndHandOver_spec E w w1 .process rest ans _ heq
        obtain ⟨j1, j2, j3, j4⟩ := l6 rfl (Or.inl harm.2)
        have harm1 : w1.armed := ⟨by rw [j4]; exact harm.1, by rw [j3]; exact harm.2⟩
        split
        · rw [if_pos harm1.1]; simp
        · exact ih w1 _ harm1

theorem writeLoop_terminates (E : Enc σ) (rank : σ → Nat) (hp : EncProgress E rank) (n : Nat) :
    ∀ (L R : Nat) (w : Writer σ) (rest : Bytes), rest.length = L → rank w.enc = R → 0 < w.bufSize →
      ∃ N, ∀ fuel, N ≤ fuel → (Writer.writeLoop E n fuel w rest).2 ≠ .livelock := by
  intro L
  induction L using Nat.strongRecOn with
  | ind L ihL =>
    intro R
    induction R using Nat.strongRecOn with
    | ind R ihR =>
      intro w rest hL hR hB
      by_cases hz : rest.length = 0
      · refine ⟨1, ?_⟩
        intro fuel hf
        obtain ⟨f, rfl⟩ : ∃ f, fuel = f + 1 := ⟨fuel - 1, by omega⟩
        simp [Writer.writeLoop, hz]
      · cases hE : w.encodeAndHandOver E .process rest with
        | none =>
          refine ⟨1, ?_⟩
          intro fuel hf
          obtain ⟨f, rfl⟩ : ∃ f, fuel = f + 1 := ⟨fuel - 1, by omega⟩
          simp [Writer.writeLoop, hz, hE]
        | some x =>
          obtain ⟨w1, ans, r⟩ := x
          cases r with
          | error e =>
            refine ⟨1, ?_⟩
            intro fuel hf
            obtain ⟨f, rfl⟩ : ∃ f, fuel = f + 1 := ⟨fuel - 1, by omega⟩
            simp [Writer.writeLoop, hz, hE]
          | ok u =>
            cases u
            obtain ⟨e1, e2, e3, e4, e5, e6, _⟩ := encodeAndHandOver_spec E w w1 .process rest ans _ hE
            by_cases hok : ans.ok = true
            · -- the loop goes on with `rest.drop ans.consumed`
              have hnext : ∃ N, ∀ fuel, N ≤ fuel → (Writer.writeLoop E n fuel w1 (rest.drop ans.consumed)).2 ≠ .livelock := by
                by_cases hc : ans.consumed = 0
                · have hlt : rank w1.enc < R := by
                    rw [← hR, e1]
                    apply hp.stall w.enc .process rest w.bufSize hB
                    · rw [← e2]; exact hok
                    · rw [← e2]; exact hc
                    · exact Or.inl ⟨rfl, fun h => hz (by simp [h])⟩
                  have := ihR (rank w1.enc) hlt w1 (rest.drop ans.consumed) (by simp [hc, hL]) rfl (by rw [e3]; exact hB)
                  exact this
                · have hlt : (rest.drop ans.consumed).length < L := by simp [List.length_drop]; omega
                  exact ihL _ hlt (rank w1.enc) w1 _ rfl rfl (by rw [e3]; exact hB)
              obtain ⟨N, hN⟩ := hnext
              refine ⟨N + 1, ?_⟩
              intro fuel hf
              obtain ⟨f, rfl⟩ : ∃ f, fuel = f + 1 := ⟨fuel - 1, by omega⟩
              simp only [Writer.writeLoop, hz, hE, if_false, hok]
              exact hN f (by omega)
            · refine ⟨1, ?_⟩
              intro fuel hf
              obtain ⟨f, rfl⟩ : ∃ f, fuel = f + 1 := ⟨fuel - 1, by omega⟩
              have : ans.ok = false := by simpa using hok
              simp only [Writer.writeLoop, hz, hE, if_false, this]
              simp only [Bool.not_false, if_true]
              split <;> simp
end BV.Adapters
