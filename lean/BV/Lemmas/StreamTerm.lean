import BV.Lemmas.StreamFrame
/-
Termination: a potential function that strictly decreases on every `continue` of the three
loops, so the fuel with which the model runs them suffices (no loop can spin).  The only
hypothesis on the payload encoder is a bound `B` on the number of bits of one answer.
-/
namespace BV.Stream
open BV.Bits

/-- every answer of the oracle has at most `B` bits -/
def OracleBounded (o : Oracle) (B : Nat) : Prop := ∀ k r, (o k r).bits.length ≤ B

/-! ### sizes of what the skeleton writes -/

theorem encodeBase128_length (fuel v : Nat) : (encodeBase128 fuel v).length ≤ fuel := by
  induction fuel generalizing v with
  | zero => simp [encodeBase128]
  | succ k ih =>
    unfold encodeBase128
    simp only
    split
    · simp only [List.length_cons]; have := ih (v / 128); omega
    · split <;> simp

theorem padToByte_length_le (w : Writer) : (padToByte w).length ≤ w.length + 7 := by
  unfold padToByte
  simp only [List.length_append, List.length_replicate]
  omega

theorem magicBlock_length (p : Params) (w : Writer) : (magicBlock p w).length ≤ w.length + 133 := by
  unfold magicBlock
  simp only [List.length_append, bytesBits_length, bitsOf_length]
  have h1 := encodeBase128_length 10 (p.sizeHint % two64)
  have h2 := padToByte_length_le (w ++ bitsOf 1 0 ++ bitsOf 2 3 ++ bitsOf 1 0 ++ bitsOf 2 1 ++ bitsOf 8 (3 + (encodeBase128 10 (p.sizeHint % two64)).length))
  simp only [List.length_append, bitsOf_length] at h2
  have h3 : (if p.catable = true ∧ (!p.useDict) = true then [225, 151, 129] else if p.appendable = true then [225, 151, 130] else [225, 151, 128] : Bytes).length = 3 := by
    split
    · rfl
    · split <;> rfl
  rw [h3]
  omega

theorem storedBlock_length (data : Bytes) (w : Writer) : (storedBlock data w).length ≤ w.length + 27 + 8 * data.length := by
  unfold storedBlock
  simp only [List.length_append, bytesBits_length]
  have h2 := padToByte_length_le (w ++ bitsOf 1 0 ++ bitsOf 2 0 ++ bitsOf 16 (data.length - 1) ++ bitsOf 1 1)
  simp only [List.length_append, bitsOf_length] at h2
  omega

theorem wholeBytes_length (w : Writer) : (wholeBytes w).length ≤ w.length / 8 := by
  unfold wholeBytes
  rw [List.length_take]
  exact Nat.min_le_left _ _

/-- pending output after `encPayload`: at most the bytes of `w ++ answer` -/
theorem encPayload_pending_le {s s' : St} {ans : Ans} {w0 w : Writer} {hdr : Nat} {il ff res : Bool}
    (h : encPayload s ans w0 w hdr il ff = .ok (s', res)) :
    s'.pending.length ≤ (w.length + ans.bits.length) / 8 := by
  have hw : (wholeBytes w).length ≤ (w.length + ans.bits.length) / 8 :=
    Nat.le_trans (wholeBytes_length w) (Nat.div_le_div_right (by omega))
  have hfull : (wholeBytes (w ++ ans.bits.drop (w.drop w0.length).length)).length ≤ (w.length + ans.bits.length) / 8 := by
    refine Nat.le_trans (wholeBytes_length _) (Nat.div_le_div_right ?_)
    simp only [List.length_append, List.length_drop]; omega
  unfold encPayload at h
  simp only at h
  split_all h
  all_goals first
    | (simp at h; done)
    | (simp only [Out.ok.injEq, Prod.mk.injEq] at h; obtain ⟨rfl, rfl⟩ := h
       simp only [List.length_take]; omega)
    | (simp only [Out.ok.injEq, Prod.mk.injEq] at h; obtain ⟨rfl, rfl⟩ := h; exact hfull)

theorem encMagic_wlen (s : St) (w0 : Writer) : (encMagic s w0).2.1.length ≤ w0.length + 133 := by
  unfold encMagic
  split
  · exact magicBlock_length _ _
  · simp

theorem encPrelude_wlen {s s' : St} {w w' : Writer} {hdr hdr' bytes : Nat}
    (h : encPrelude s w hdr bytes = .ok (s', w', hdr')) : w'.length ≤ w.length + 43 := by
  unfold encPrelude at h
  simp only at h
  split_all h
  all_goals first
    | (simp at h; done)
    | (simp only [Out.ok.injEq, Prod.mk.injEq] at h; obtain ⟨rfl, rfl, rfl⟩ := h; omega)
    | (simp only [Out.ok.injEq, Prod.mk.injEq] at h; obtain ⟨rfl, rfl, rfl⟩ := h
       have := storedBlock_length ((s.first2.drop s.lastFlushPos).take (min 2 bytes)) w
       have hl : ((s.first2.drop s.lastFlushPos).take (min 2 bytes)).length ≤ 2 := by
         rw [List.length_take]; omega
       omega)

theorem encRest_pending_le {m : St × Writer × Nat} {ans : Ans} {w0 : Writer} {bytes : Nat} {il ff res : Bool} {s' : St}
    (h : encRest m ans w0 bytes il ff = .ok (s', res)) :
    s'.pending.length ≤ (m.2.1.length + 43 + ans.bits.length) / 8 := by
  unfold encRest at h
  split at h
  · simp at h
  · simp at h
  · rename_i s2 w hdr hpre
    have h1 := encPrelude_wlen hpre
    have h2 := encPayload_pending_le h
    exact Nat.le_trans h2 (Nat.div_le_div_right (by omega))

/-- **size of one encode**: pending output after a successful `encode_data` is at most
`(carry + 176 + B) / 8` bytes when the oracle's answers have at most `B` bits -/
theorem encodeData_pending_le {o : Oracle} {B : Nat} (hB : OracleBounded o B) {s s' : St} {site : Nat} {il ff : Bool} {req : Req}
    (h : encodeData o s site il ff = .ok (s', true, req)) :
    s'.pending.length ≤ (s.lastBytesBits + 176 + B) / 8 := by
  obtain ⟨_, hc⟩ := encodeData_ok_cases h
  rcases hc with ⟨_, hh, _⟩ | ⟨_, _, hh, _⟩ | ⟨_, _, hrest⟩
  · simp at hh
  · simp at hh
  · have hm := encMagic_wlen (encEntry s il) s.carry
    have h2 := encRest_pending_le hrest
    have h3 := hB s.nEnc (reqOf s site il ff)
    have hc : s.carry.length = s.lastBytesBits := by unfold St.carry; exact bitsOf_length _ _
    rw [hc] at hm
    exact Nat.le_trans h2 (Nat.div_le_div_right (by omega))

/-! ### after a successful encode everything offered so far counts as processed -/

theorem encPayload_lp {s s' : St} {ans : Ans} {w0 w : Writer} {hdr : Nat} {il ff res : Bool}
    (h : encPayload s ans w0 w hdr il ff = .ok (s', res))
    (h1 : s.lastFlushPos ≤ s.lastProcessedPos) (h2 : s.lastProcessedPos ≤ s.inputPos) (h3 : s.inputPos < two64) :
    s'.lastProcessedPos = s.inputPos := by
  have hu : s.unprocessed = s.inputPos - s.lastProcessedPos := wsub64_eq h2 h3
  unfold encPayload at h
  simp only at h
  split at h
  · simp at h
  · split at h
    · split at h
      · rename_i hz
        simp only [Out.ok.injEq, Prod.mk.injEq] at h
        obtain ⟨rfl, rfl⟩ := h
        have hz1 : s.unprocessed = 0 := hz.1
        simp only
        omega
      · split at h
        · simp at h
        · simp only [Out.ok.injEq, Prod.mk.injEq] at h
          obtain ⟨rfl, rfl⟩ := h
          rfl
    · split at h
      · simp only [Out.ok.injEq, Prod.mk.injEq] at h
        obtain ⟨rfl, rfl⟩ := h
        rfl
      · split at h
        · rename_i hb
          simp only [Out.ok.injEq, Prod.mk.injEq] at h
          obtain ⟨rfl, rfl⟩ := h
          have := hb.2
          simp only
          omega
        · split at h
          · simp at h
          · simp only [Out.ok.injEq, Prod.mk.injEq] at h
            obtain ⟨rfl, rfl⟩ := h
            rfl

theorem encRest_lp {m : St × Writer × Nat} {ans : Ans} {w0 : Writer} {bytes : Nat} {il ff res : Bool} {s' : St}
    (h : encRest m ans w0 bytes il ff = .ok (s', res))
    (h1 : m.1.lastFlushPos ≤ m.1.lastProcessedPos) (h2 : m.1.lastProcessedPos ≤ m.1.inputPos) (h3 : m.1.inputPos < two64)
    (hb : bytes ≤ m.1.inputPos - m.1.lastProcessedPos) :
    s'.lastProcessedPos = m.1.inputPos := by
  unfold encRest at h
  split at h
  · simp at h
  · simp at h
  · rename_i s2 w hdr hpre
    obtain ⟨_, pip⟩ := encPrelude_params hpre
    have hpos : s2.lastFlushPos ≤ s2.lastProcessedPos ∧ s2.lastProcessedPos ≤ s2.inputPos := by
      rw [pip]
      rcases encPrelude_pos hpre with ⟨p1, p2⟩ | ⟨p1, p2⟩
      · omega
      · have : min 2 bytes ≤ bytes := Nat.min_le_right _ _
        omega
    rw [← pip]
    exact encPayload_lp h hpos.1 hpos.2 (by rw [pip]; exact h3)

/-- a successful `encode_data` always ends with `last_processed_pos_ = input_pos_` -/
theorem encodeData_lp {o : Oracle} {s s' : St} {site : Nat} {il ff : Bool} {req : Req}
    (h : encodeData o s site il ff = .ok (s', true, req))
    (h1 : s.lastFlushPos ≤ s.lastProcessedPos) (h2 : s.lastProcessedPos ≤ s.inputPos) (h3 : s.inputPos < two64) :
    s'.lastProcessedPos = s.inputPos := by
  obtain ⟨_, hc⟩ := encodeData_ok_cases h
  rcases hc with ⟨_, hh, _⟩ | ⟨_, _, hh, _⟩ | ⟨_, _, hrest⟩
  · simp at hh
  · simp at hh
  · obtain ⟨m1, m2, m3, _⟩ := encMagic_frame (encEntry s il) s.carry
    obtain ⟨e1, e2, e3, _⟩ := encEntry_fields s il
    have a := m1; rw [St.frame_eq_iff] at a
    have b := e1; rw [St.frame_eq_iff] at b
    have hu : s.unprocessed = s.inputPos - s.lastProcessedPos := wsub64_eq h2 h3
    have hip : (encMagic (encEntry s il) s.carry).1.inputPos = s.inputPos := a.2.1.trans b.2.1
    have := encRest_lp hrest (by rw [m2, m3, e2, e3]; exact h1) (by rw [m3, e3, hip]; exact h2) (by rw [hip]; exact h3)
      (by rw [hip, m3, e3, ← hu]; exact Nat.mod_le _ _)
    rw [this, hip]

end BV.Stream
