import BV.Lemmas.StreamFrame
/-
Termination: a potential function that strictly decreases on every `continue` of the three
loops, so the fuel with which the model runs them suffices (no loop can spin).  The only
hypothesis on the payload encoder is a bound `B` on the number of bits of one answer.
-/
namespace BV.Stream
open BV.Bits

/-- every answer of the oracle has at most `B` bits -/
def OracleBounded (o : Oracle) (B : Nat) : Prop := ∀ k r, (o k r).bits.length ≤ B

/-! ### sizes of what the skeleton writes -/

theorem encodeBase128_length (fuel v : Nat) : (encodeBase128 fuel v).length ≤ fuel := by
  induction fuel generalizing v with
  | zero => simp [encodeBase128]
  | succ k ih =>
    unfold encodeBase128
    simp only
    split
    · simp only [List.length_cons]; have := ih (v / 128); omega
    · split <;> simp

theorem padToByte_length_le (w : Writer) : (padToByte w).length ≤ w.length + 7 := by
  unfold padToByte
  simp only [List.length_append, List.length_replicate]
  omega

theorem magicBlock_length (p : Params) (w : Writer) : (magicBlock p w).length ≤ w.length + 133 := by
  unfold magicBlock
  simp only [List.length_append, bytesBits_length, bitsOf_length]
  have h1 := encodeBase128_length 10 (p.sizeHint % two64)
  have h2 := padToByte_length_le (w ++ bitsOf 1 0 ++ bitsOf 2 3 ++ bitsOf 1 0 ++ bitsOf 2 1 ++ bitsOf 8 (3 + (encodeBase128 10 (p.sizeHint % two64)).length))
  simp only [List.length_append, bitsOf_length] at h2
  have h3 : (if p.catable = true ∧ (!p.useDict) = true then [225, 151, 129] else if p.appendable = true then [225, 151, 130] else [225, 151, 128] : Bytes).length = 3 := by
    split
    · rfl
    · split <;> rfl
  rw [h3]
  omega

theorem storedBlock_length (data : Bytes) (w : Writer) : (storedBlock data w).length ≤ w.length + 27 + 8 * data.length := by
  unfold storedBlock
  simp only [List.length_append, bytesBits_length]
  have h2 := padToByte_length_le (w ++ bitsOf 1 0 ++ bitsOf 2 0 ++ bitsOf 16 (data.length - 1) ++ bitsOf 1 1)
  simp only [List.length_append, bitsOf_length] at h2
  omega

theorem wholeBytes_length (w : Writer) : (wholeBytes w).length ≤ w.length / 8 := by
  unfold wholeBytes
  rw [List.length_take]
  exact Nat.min_le_left _ _

/-- pending output after `encPayload`: at most the bytes of `w ++ answer` -/
theorem encPayload_pending_le {s s' : St} {ans : Ans} {w0 w : Writer} {hdr : Nat} {il ff res : Bool}
    (h : encPayload s ans w0 w hdr il ff = .ok (s', res)) :
    s'.pending.length ≤ (w.length + ans.bits.length) / 8 := by
  have hw : (wholeBytes w).length ≤ (w.length + ans.bits.length) / 8 :=
    Nat.le_trans (wholeBytes_length w) (Nat.div_le_div_right (by omega))
  have hfull : (wholeBytes (w ++ ans.bits.drop (w.drop w0.length).length)).length ≤ (w.length + ans.bits.length) / 8 := by
    refine Nat.le_trans (wholeBytes_length _) (Nat.div_le_div_right ?_)
    simp only [List.length_append, List.length_drop]; omega
  unfold encPayload at h
  simp only at h
  split_all h
  all_goals first
    | (simp at h; done)
    | (simp only [Out.ok.injEq, Prod.mk.injEq] at h; obtain ⟨rfl, rfl⟩ := h
       simp only [List.length_take]; omega)
    | (simp only [Out.ok.injEq, Prod.mk.injEq] at h; obtain ⟨rfl, rfl⟩ := h; exact hfull)

theorem encMagic_wlen (s : St) (w0 : Writer) : (encMagic s w0).2.1.length ≤ w0.length + 133 := by
  unfold encMagic
  split
  · exact magicBlock_length _ _
  · simp

theorem encPrelude_wlen {s s' : St} {w w' : Writer} {hdr hdr' bytes : Nat}
    (h : encPrelude s w hdr bytes = .ok (s', w', hdr')) : w'.length ≤ w.length + 43 := by
  unfold encPrelude at h
  simp only at h
  split_all h
  all_goals first
    | (simp at h; done)
    | (simp only [Out.ok.injEq, Prod.mk.injEq] at h; obtain ⟨rfl, rfl, rfl⟩ := h; omega)
    | (simp only [Out.ok.injEq, Prod.mk.injEq] at h; obtain ⟨rfl, rfl, rfl⟩ := h
       have := storedBlock_length ((s.first2.drop s.lastFlushPos).take (min 2 bytes)) w
       have hl : ((s.first2.drop s.lastFlushPos).take (min 2 bytes)).length ≤ 2 := by
         rw [List.length_take]; omega
       omega)

theorem encRest_pending_le {m : St × Writer × Nat} {ans : Ans} {w0 : Writer} {bytes : Nat} {il ff res : Bool} {s' : St}
    (h : encRest m ans w0 bytes il ff = .ok (s', res)) :
    s'.pending.length ≤ (m.2.1.length + 43 + ans.bits.length) / 8 := by
  unfold encRest at h
  split at h
  · simp at h
  · simp at h
  · rename_i s2 w hdr hpre
    have h1 := encPrelude_wlen hpre
    have h2 := encPayload_pending_le h
    exact Nat.le_trans h2 (Nat.div_le_div_right (by omega))

/-- **size of one encode**: pending output after a successful `encode_data` is at most
`(carry + 176 + B) / 8` bytes when the oracle's answers have at most `B` bits -/
theorem encodeData_pending_le {o : Oracle} {B : Nat} (hB : OracleBounded o B) {s s' : St} {site : Nat} {il ff : Bool} {req : Req}
    (h : encodeData o s site il ff = .ok (s', true, req)) :
    s'.pending.length ≤ (s.lastBytesBits + 176 + B) / 8 := by
  obtain ⟨_, hc⟩ := encodeData_ok_cases h
  rcases hc with ⟨_, hh, _⟩ | ⟨_, _, hh, _⟩ | ⟨_, _, hrest⟩
  · simp at hh
  · simp at hh
  · have hm := encMagic_wlen (encEntry s il) s.carry
    have h2 := encRest_pending_le hrest
    have h3 := hB s.nEnc (reqOf s site il ff)
    have hc : s.carry.length = s.lastBytesBits := by unfold St.carry; exact bitsOf_length _ _
    rw [hc] at hm
    exact Nat.le_trans h2 (Nat.div_le_div_right (by omega))

/-! ### what the storage sizing of the machine itself guarantees (no hypothesis on the oracle) -/

/-- a bound `M` valid for one whole call: the staging buffer as it is, and as `get_brotli_storage` can
make it in this call (`2 * span + 527` with `span ≤ input_pos_ + available_in − last_flush_pos_`;
`2 * block + 503` on the one-shot path) -/
def Cap (M : Nat) (s : St) (io : Io) : Prop :=
  s.storageSize ≤ M ∧ 2 * (s.inputPos + io.availIn - s.lastFlushPos) + 527 ≤ M ∧ 2 * io.availIn + 527 ≤ M

/-- the part of `Cap` that does not look at the input still on offer: preserved by every step that
consumes no input -/
def MCap (M : Nat) (s : St) : Prop := s.storageSize ≤ M ∧ 2 * (s.inputPos - s.lastFlushPos) + 527 ≤ M

theorem mcap_of_cap {M : Nat} {s : St} {io : Io} (h : Cap M s io) : MCap M s := ⟨h.1, by have := h.2.1; omega⟩

/-- the two `storage[1 + (storage_ix >> 3)]` checks of `encPayload`: what is left pending fits the
staging buffer with two bytes to spare — whatever the oracle answered -/
theorem encPayload_pending_store {s s' : St} {ans : Ans} {w0 w : Writer} {hdr : Nat} {il ff res : Bool}
    (h : encPayload s ans w0 w hdr il ff = .ok (s', res)) : s'.pending.length + 2 ≤ s.storageSize := by
  have hw := wholeBytes_length w
  have hfull := wholeBytes_length (w ++ ans.bits.drop (w.drop w0.length).length)
  unfold encPayload at h
  simp only at h
  split_all h
  all_goals first
    | (simp at h; done)
    | (simp only [Out.ok.injEq, Prod.mk.injEq] at h; obtain ⟨rfl, rfl⟩ := h
       simp only [List.length_take] at *; omega)

theorem encRest_pending_store {m : St × Writer × Nat} {ans : Ans} {w0 : Writer} {bytes : Nat} {il ff res : Bool} {s' : St}
    (h : encRest m ans w0 bytes il ff = .ok (s', res)) : s'.pending.length + 2 ≤ m.1.storageSize := by
  unfold encRest at h
  split at h
  · simp at h
  · simp at h
  · rename_i s2 w hdr hpre
    have := encPayload_pending_store h
    rw [(encPrelude_frame hpre).2.2.2.1] at this
    exact this

theorem wantStorage_le {s : St} (h1 : s.lastFlushPos ≤ s.lastProcessedPos) (h2 : s.lastProcessedPos ≤ s.inputPos)
    (h3 : s.inputPos < two64) : wantStorage s ≤ 2 * (s.inputPos - s.lastFlushPos) + 527 := by
  unfold wantStorage St.unprocessed
  rw [wsub64_eq h2 h3, wsub64_eq (Nat.le_trans h1 h2) h3]
  refine Nat.le_trans (Nat.mod_le _ _) ?_
  have := Nat.mod_le (s.inputPos - s.lastProcessedPos) two32
  omega

/-- **size of one encode, from the machine's own storage sizing**: after a successful `encode_data` the
pending bytes fit the staging buffer, which is the old one or the `get_brotli_storage` request -/
theorem encodeData_store {o : Oracle} {s s' : St} {site : Nat} {il ff : Bool} {req : Req}
    (h : encodeData o s site il ff = .ok (s', true, req))
    (h1 : s.lastFlushPos ≤ s.lastProcessedPos) (h2 : s.lastProcessedPos ≤ s.inputPos) (h3 : s.inputPos < two64) :
    s'.pending.length + 2 ≤ s'.storageSize ∧
    s'.storageSize ≤ max s.storageSize (2 * (s.inputPos - s.lastFlushPos) + 527) ∧
    s.lastFlushPos ≤ s'.lastFlushPos ∧ s'.inputPos = s.inputPos := by
  have hpos := (encodeData_pos h h1 h2 h3).2.2.2
  obtain ⟨f, _⟩ := encodeData_frame h
  rw [St.frame_eq_iff] at f
  obtain ⟨_, hc⟩ := encodeData_ok_cases h
  rcases hc with ⟨_, hh, _⟩ | ⟨_, _, hh, _⟩ | ⟨_, _, hrest⟩
  · simp at hh
  · simp at hh
  · have hp := encRest_pending_store hrest
    have hst : s'.storageSize = (encEntry s il).storageSize := by
      rw [(encRest_frame hrest).2.2.2.1, (encMagic_frame (encEntry s il) s.carry).2.2.2.2.2.1]
    rw [(encMagic_frame (encEntry s il) s.carry).2.2.2.2.2.1] at hp
    have hgrow : (encEntry s il).storageSize ≤ max s.storageSize (wantStorage s) := by
      unfold encEntry growStorage
      split
      · exact Nat.le_max_right _ _
      · exact Nat.le_max_left _ _
    have hwant := wantStorage_le h1 h2 h3
    refine ⟨by rw [hst]; exact hp, ?_, hpos, f.2.1⟩
    rw [hst]
    refine Nat.le_trans hgrow ?_
    omega

/-! ### after a successful encode everything offered so far counts as processed -/

theorem encPayload_lp {s s' : St} {ans : Ans} {w0 w : Writer} {hdr : Nat} {il ff res : Bool}
    (h : encPayload s ans w0 w hdr il ff = .ok (s', res))
    (h1 : s.lastFlushPos ≤ s.lastProcessedPos) (h2 : s.lastProcessedPos ≤ s.inputPos) (h3 : s.inputPos < two64) :
    s'.lastProcessedPos = s.inputPos := by
  have hu : s.unprocessed = s.inputPos - s.lastProcessedPos := wsub64_eq h2 h3
  unfold encPayload at h
  simp only at h
  split at h
  · simp at h
  · split at h
    · split at h
      · rename_i hz
        simp only [Out.ok.injEq, Prod.mk.injEq] at h
        obtain ⟨rfl, rfl⟩ := h
        have hz1 : s.unprocessed = 0 := hz.1
        simp only
        omega
      · split at h
        · simp at h
        · simp only [Out.ok.injEq, Prod.mk.injEq] at h
          obtain ⟨rfl, rfl⟩ := h
          rfl
    · split at h
      · simp only [Out.ok.injEq, Prod.mk.injEq] at h
        obtain ⟨rfl, rfl⟩ := h
        rfl
      · split at h
        · rename_i hb
          simp only [Out.ok.injEq, Prod.mk.injEq] at h
          obtain ⟨rfl, rfl⟩ := h
          have := hb.2
          simp only
          omega
        · split at h
          · simp at h
          · simp only [Out.ok.injEq, Prod.mk.injEq] at h
            obtain ⟨rfl, rfl⟩ := h
            rfl

theorem encRest_lp {m : St × Writer × Nat} {ans : Ans} {w0 : Writer} {bytes : Nat} {il ff res : Bool} {s' : St}
    (h : encRest m ans w0 bytes il ff = .ok (s', res))
    (h1 : m.1.lastFlushPos ≤ m.1.lastProcessedPos) (h2 : m.1.lastProcessedPos ≤ m.1.inputPos) (h3 : m.1.inputPos < two64)
    (hb : bytes ≤ m.1.inputPos - m.1.lastProcessedPos) :
    s'.lastProcessedPos = m.1.inputPos := by
  unfold encRest at h
  split at h
  · simp at h
  · simp at h
  · rename_i s2 w hdr hpre
    obtain ⟨_, pip⟩ := encPrelude_params hpre
    have hpos : s2.lastFlushPos ≤ s2.lastProcessedPos ∧ s2.lastProcessedPos ≤ s2.inputPos := by
      rw [pip]
      rcases encPrelude_pos hpre with ⟨p1, p2⟩ | ⟨p1, p2⟩
      · omega
      · have : min 2 bytes ≤ bytes := Nat.min_le_right _ _
        omega
    rw [← pip]
    exact encPayload_lp h hpos.1 hpos.2 (by rw [pip]; exact h3)

/-- a successful `encode_data` always ends with `last_processed_pos_ = input_pos_` -/
theorem encodeData_lp {o : Oracle} {s s' : St} {site : Nat} {il ff : Bool} {req : Req}
    (h : encodeData o s site il ff = .ok (s', true, req))
    (h1 : s.lastFlushPos ≤ s.lastProcessedPos) (h2 : s.lastProcessedPos ≤ s.inputPos) (h3 : s.inputPos < two64) :
    s'.lastProcessedPos = s.inputPos := by
  obtain ⟨_, hc⟩ := encodeData_ok_cases h
  rcases hc with ⟨_, hh, _⟩ | ⟨_, _, hh, _⟩ | ⟨_, _, hrest⟩
  · simp at hh
  · simp at hh
  · obtain ⟨m1, m2, m3, _⟩ := encMagic_frame (encEntry s il) s.carry
    obtain ⟨e1, e2, e3, _⟩ := encEntry_fields s il
    have a := m1; rw [St.frame_eq_iff] at a
    have b := e1; rw [St.frame_eq_iff] at b
    have hu : s.unprocessed = s.inputPos - s.lastProcessedPos := wsub64_eq h2 h3
    have hip : (encMagic (encEntry s il) s.carry).1.inputPos = s.inputPos := a.2.1.trans b.2.1
    have := encRest_lp hrest (by rw [m2, m3, e2, e3]; exact h1) (by rw [m3, e3, hip]; exact h2) (by rw [hip]; exact h3)
      (by rw [hip, m3, e3, ← hu]; exact Nat.mod_le _ _)
    rw [this, hip]

/-! ### the carry after an encode -/

theorem encPayload_lbb {s s' : St} {ans : Ans} {w0 w : Writer} {hdr : Nat} {il ff res : Bool}
    (h : encPayload s ans w0 w hdr il ff = .ok (s', res)) :
    s'.lastBytesBits < 8 ∨ s'.lastBytesBits = s.lastBytesBits := by
  unfold encPayload at h
  simp only at h
  split_all h
  all_goals first
    | (simp at h; done)
    | (simp only [Out.ok.injEq, Prod.mk.injEq] at h; obtain ⟨rfl, rfl⟩ := h; right; rfl)
    | (simp only [Out.ok.injEq, Prod.mk.injEq] at h; obtain ⟨rfl, rfl⟩ := h; left; exact (carryOf_lt _).2)

theorem encPrelude_lbb {s s' : St} {w w' : Writer} {hdr hdr' bytes : Nat}
    (h : encPrelude s w hdr bytes = .ok (s', w', hdr')) :
    s'.lastBytesBits < 8 ∨ s'.lastBytesBits = s.lastBytesBits := by
  unfold encPrelude at h
  simp only at h
  split_all h
  all_goals first
    | (simp at h; done)
    | (simp only [Out.ok.injEq, Prod.mk.injEq] at h; obtain ⟨rfl, rfl, rfl⟩ := h; right; rfl)
    | (simp only [Out.ok.injEq, Prod.mk.injEq] at h; obtain ⟨rfl, rfl, rfl⟩ := h; left; exact (carryOf_lt _).2)

theorem encMagic_lbb (s : St) (w0 : Writer) :
    (encMagic s w0).1.lastBytesBits < 8 ∨ (encMagic s w0).1.lastBytesBits = s.lastBytesBits := by
  unfold encMagic
  split
  · left; exact (carryOf_lt _).2
  · right; rfl

theorem encRest_lbb {m : St × Writer × Nat} {ans : Ans} {w0 : Writer} {bytes : Nat} {il ff res : Bool} {s' : St}
    (h : encRest m ans w0 bytes il ff = .ok (s', res)) :
    s'.lastBytesBits < 8 ∨ s'.lastBytesBits = m.1.lastBytesBits := by
  unfold encRest at h
  split at h
  · simp at h
  · simp at h
  · rename_i s2 w hdr hpre
    rcases encPayload_lbb h with h1 | h1
    · exact Or.inl h1
    · rcases encPrelude_lbb hpre with h2 | h2
      · left; omega
      · right; omega

/-- the carry after `encode_data` has fewer than 8 bits, or is the carry it started with -/
theorem encodeData_lbb {o : Oracle} {s s' : St} {site : Nat} {il ff res : Bool} {req : Req}
    (h : encodeData o s site il ff = .ok (s', res, req)) :
    s'.lastBytesBits < 8 ∨ s'.lastBytesBits = s.lastBytesBits := by
  obtain ⟨_, hc⟩ := encodeData_ok_cases h
  rcases hc with ⟨_, _, rfl⟩ | ⟨_, _, _, rfl⟩ | ⟨_, _, hrest⟩
  · right; exact (encFail_fields _ _ _).2.2.2.2.2.2.1
  · right; exact (encFail_fields _ _ _).2.2.2.2.2.2.1
  · have e9 := (encEntry_fields s il).2.2.2.2.2.2.2.2.1
    rcases encRest_lbb hrest with h1 | h1
    · exact Or.inl h1
    · rcases encMagic_lbb (encEntry s il) s.carry with h2 | h2
      · left; omega
      · right; omega

theorem rbs_full {s : St} (h : s.lastProcessedPos = s.inputPos) (h3 : s.inputPos < two64) :
    remainingInputBlockSize s = s.blockSize := by
  unfold remainingInputBlockSize St.unprocessed
  rw [h, wsub64_eq (Nat.le_refl _) h3]
  have := Nat.pow_pos (n := s.params.lgblock.toNat) (by omega : 0 < 2)
  simp only [Nat.sub_self]
  unfold St.blockSize
  split <;> omega

/-! ### the potential of the main loop -/

/-- an encode can happen before any further input is consumed -/
def canEnc (op : Nat) (s : St) (io : Io) : Prop :=
  s.streamState = .processing ∧ (remainingInputBlockSize s = 0 ∨ (op ≠ 0 ∧ io.availIn = 0))

instance (op : Nat) (s : St) (io : Io) : Decidable (canEnc op s io) := by unfold canEnc; exact inferInstance

/-- bytes a pending padding block may still add (+1) -/
def padB (s : St) : Nat := if s.lastBytesBits ≠ 0 then 4 else 0

/-- potential of the main loop: lexicographic in (input left, an encode is due, bytes to hand out) -/
def slowPot (op M : Nat) (s : St) (io : Io) : Nat :=
  (2 * io.availIn + (if canEnc op s io then 1 else 0)) * (M + 8) + padB s + s.pending.length

/-- output side: a step that did something strictly lowers `padB + pending`, keeps everything the
potential reads otherwise, and leaves at most the old carry -/
theorem push_lowers {s s' : St} {io io' : Io} (hl : s.lastBytesBits ≤ 14)
    (h : injectFlushOrPushOutput s io = .ok (s', io', true)) :
    padB s' + s'.pending.length < padB s + s.pending.length ∧ s'.lastBytesBits ≤ s.lastBytesBits := by
  unfold injectFlushOrPushOutput at h
  split at h
  · rename_i hc
    split at h
    · rename_i s1 hp
      simp only [Out.ok.injEq, Prod.mk.injEq] at h
      obtain ⟨rfl, rfl, _⟩ := h
      have hpp := pad_pending hp
      have hz := (pad_frame hp).2.2.2.2.1
      have hn : (s.lastBytesBits + 6 + 7) / 8 ≤ 3 := by omega
      unfold padB
      rw [hz, hpp]
      simp only [ne_eq, not_true_eq_false, ↓reduceIte, List.length_append, sealBytes, List.length_map, List.length_range]
      rw [if_pos hc.2]
      omega
    · simp at h
    · simp at h
  · simp only at h
    split_all h
    all_goals first
      | (simp at h; done)
      | (rename_i hpush _ _ _ _
         simp only [Out.ok.injEq, Prod.mk.injEq] at h; obtain ⟨rfl, rfl, _⟩ := h
         unfold padB
         simp only [List.length_drop]
         have := hpush.1; have := hpush.2
         omega)
      | (rename_i hpush _ _ _
         simp only [Out.ok.injEq, Prod.mk.injEq] at h; obtain ⟨rfl, rfl, _⟩ := h
         unfold padB
         simp only [List.length_drop]
         have := hpush.1; have := hpush.2
         omega)

theorem blockSize_pos (s : St) : 0 < s.blockSize := by
  unfold St.blockSize; exact Nat.pow_pos (by omega)

theorem canEnc_congr {op : Nat} {s s' : St} {io io' : Io} (h1 : s'.streamState = s.streamState)
    (h2 : s'.params.lgblock = s.params.lgblock) (h3 : s'.inputPos = s.inputPos)
    (h4 : s'.lastProcessedPos = s.lastProcessedPos) (h5 : io'.availIn = io.availIn) :
    canEnc op s' io' ↔ canEnc op s io := by
  unfold canEnc remainingInputBlockSize St.unprocessed
  rw [h1, blockSize_congr h2, h3, h4, h5]

theorem slowStep_decreases {o : Oracle} {op M : Nat} {s s' : St} {io io' : Io} (hI : Inv s)
    (hw : s.inputPos + io.availIn < two64) (hnp : s.streamState ≠ .processing → io.availIn = 0)
    (hl : s.lastBytesBits ≤ 14) (hop : op ≤ 2)
    (h : slowStep o op s io = .ok (s', io', .cont)) :
    (Cap M s io → slowPot op M s' io' < slowPot op M s io ∧ Cap M s' io') ∧
    (MCap M s → io'.availIn = io.availIn → MCap M s') ∧ s'.lastBytesBits ≤ 14 := by
  unfold slowStep at h
  simp only at h
  split at h
  · -- copy input
    rename_i hc
    split at h
    · simp at h
    · split at h
      · rename_i s1 hcp
        simp only [Out.ok.injEq, Prod.mk.injEq] at h
        obtain ⟨rfl, rfl, _⟩ := h
        obtain ⟨c1, c2, c3, c4, c5, c6, c7, c8, c9, c10, c11, _, c13, _⟩ := copy_fields hI.init hcp
        have hn : 1 ≤ min (remainingInputBlockSize s) io.availIn := by
          have := hc.1; have := hc.2; omega
        have hle : min (remainingInputBlockSize s) io.availIn ≤ io.availIn := Nat.min_le_right _ _
        refine ⟨?_, fun _ hav => by exfalso; simp only at hav; omega, by rw [c11]; exact hl⟩
        intro hC
        rename_i hnle
        have hcap : Cap M s1 { input := io.input.drop (min (remainingInputBlockSize s) io.availIn), availIn := io.availIn - min (remainingInputBlockSize s) io.availIn, availOut := io.availOut, out := io.out, reqs := io.reqs } := by
          obtain ⟨q1, q2, q3⟩ := hC
          have hlen : (io.input.take (min (remainingInputBlockSize s) io.availIn)).length = min (remainingInputBlockSize s) io.availIn := by
            rw [List.length_take]; omega
          have hip : s1.inputPos = s.inputPos + min (remainingInputBlockSize s) io.availIn := by
            rw [c2, hlen]; exact Nat.mod_eq_of_lt (by omega)
          refine ⟨by rw [c13]; exact q1, ?_, ?_⟩
          · show 2 * (s1.inputPos + (io.availIn - min (remainingInputBlockSize s) io.availIn) - s1.lastFlushPos) + 527 ≤ M
            rw [hip, c6]; omega
          · show 2 * (io.availIn - min (remainingInputBlockSize s) io.availIn) + 527 ≤ M
            omega
        refine ⟨?_, hcap⟩
        unfold slowPot padB
        rw [c9, c11]
        simp only
        have hA : 2 * (io.availIn - min (remainingInputBlockSize s) io.availIn) + 1 ≤ 2 * io.availIn - 1 := by omega
        have h1 : (2 * (io.availIn - min (remainingInputBlockSize s) io.availIn) + (if canEnc op s1 { input := io.input.drop (min (remainingInputBlockSize s) io.availIn), availIn := io.availIn - min (remainingInputBlockSize s) io.availIn, availOut := io.availOut, out := io.out, reqs := io.reqs } then 1 else 0)) ≤ 2 * io.availIn - 1 := by
          split <;> omega
        have h2 : (2 * io.availIn - 1) * (M + 8) + (M + 8) ≤ (2 * io.availIn + (if canEnc op s io then 1 else 0)) * (M + 8) := by
          have : 2 * io.availIn - 1 + 1 ≤ 2 * io.availIn + (if canEnc op s io then 1 else 0) := by split <;> omega
          calc (2 * io.availIn - 1) * (M + 8) + (M + 8) = (2 * io.availIn - 1 + 1) * (M + 8) := by rw [Nat.add_mul, Nat.one_mul]
            _ ≤ _ := Nat.mul_le_mul_right _ this
        have h3 := Nat.mul_le_mul_right (M + 8) h1
        omega
      · simp at h
      · simp at h
  · rename_i hnc
    split at h
    · simp at h
    · simp at h
    · -- output pushed / padding injected
      rename_i s1 io1 hp
      simp only [Out.ok.injEq, Prod.mk.injEq] at h
      obtain ⟨rfl, rfl, _⟩ := h
      obtain ⟨f, a1, a2, _, a5, _, _, _, fa, _⟩ := push_frame hp
      rw [St.frame_eq_iff] at f
      obtain ⟨l1, l2⟩ := push_lowers hl hp
      refine ⟨?_, fun hK _ => by unfold MCap at hK ⊢; rw [a5, f.2.1, a1]; exact hK, Nat.le_trans l2 hl⟩
      intro hC
      refine ⟨?_, by unfold Cap at hC ⊢; rw [a5, f.2.1, fa, a1]; exact hC⟩
      unfold slowPot
      have hce : canEnc op s1 io1 ↔ canEnc op s io := canEnc_congr f.2.2.2.1 (by rw [f.1]) f.2.1 a2 fa
      rw [fa]
      simp only [hce]
      omega
    · rename_i s1 io1 hp
      obtain ⟨e1, e2, _, _⟩ := push_false hp
      have e1' := e1.symm; have e2' := e2.symm
      subst e1' e2'
      split at h
      · rename_i hcond
        split at h
        · simp at h
        · simp at h
        · rename_i s2 res req henc
          have hI2 := inv_updateSizeHint hI io.availIn
          obtain ⟨u1, _, _, _, _, u6, u7, u8, u9, u10, u11, _, u13, u14, _⟩ := updateSizeHint_fields s io.availIn
          have hst : (updateSizeHint s io.availIn).streamState = .processing := by rw [u9]; exact hcond.2.1
          have hres : res = true := encodeData_succeeds hI2 (by rw [hst]; simp) henc
          subst hres
          simp only [Bool.not_true, Bool.false_eq_true, ↓reduceIte, Out.ok.injEq, Prod.mk.injEq] at h
          obtain ⟨rfl, rfl, _⟩ := h
          obtain ⟨f, _, _, _, _⟩ := encodeData_frame henc
          rw [St.frame_eq_iff] at f
          obtain ⟨k1, k2, k3, _, k5, k6, _, k8, k9, k10⟩ := markAfterEncode_fields s2 (decide (io.availIn = 0 ∧ op = 2)) (decide (io.availIn = 0 ∧ op = 1))
          have hsto := encodeData_store henc hI2.fl_le hI2.lp_le hI2.ip_lt
          have hus : (updateSizeHint s io.availIn).storageSize = s.storageSize := by
            unfold updateSizeHint; split <;> rfl
          have hms : (markAfterEncode s2 (decide (io.availIn = 0 ∧ op = 2)) (decide (io.availIn = 0 ∧ op = 1))).storageSize = s2.storageSize := by
            unfold markAfterEncode
            split
            · rfl
            · split <;> rfl
          have hlp := encodeData_lp henc hI2.fl_le hI2.lp_le hI2.ip_lt
          have hlbb : s2.lastBytesBits ≤ 14 := by
            rcases encodeData_lbb henc with h8 | h8
            · omega
            · rw [h8, u14]; exact hl
          obtain ⟨t1, t2, t3, t4⟩ := hsto
          rw [hus, u6, u10] at t2
          rw [u10] at t3
          have hmc : MCap M s → MCap M (markAfterEncode s2 (decide (io.availIn = 0 ∧ op = 2)) (decide (io.availIn = 0 ∧ op = 1))) := by
            intro hK
            obtain ⟨q1, q2⟩ := hK
            refine ⟨by rw [hms]; exact Nat.le_trans t2 (Nat.max_le.mpr ⟨q1, q2⟩), ?_⟩
            rw [k2, k5, t4, u6]; omega
          refine ⟨?_, fun hK _ => hmc hK, by rw [k9]; exact hlbb⟩
          intro hC
          obtain ⟨q1, q2, q3⟩ := hC
          have hs2M : s2.storageSize ≤ M := by
            refine Nat.le_trans t2 (Nat.max_le.mpr ⟨q1, ?_⟩)
            omega
          have hplM : s2.pending.length ≤ M := by omega
          refine ⟨?_, ⟨by rw [hms]; exact hs2M, by show 2 * ((markAfterEncode s2 _ _).inputPos + io.availIn - (markAfterEncode s2 _ _).lastFlushPos) + 527 ≤ M; rw [k2, k5, t4, u6]; omega, q3⟩⟩
          -- before: an encode was due; after: not any more
          have hbefore : canEnc op s io := by
            refine ⟨hcond.2.1, ?_⟩
            rcases hcond.2.2 with h0 | h0
            · exact Or.inl h0
            · by_cases hr : remainingInputBlockSize s = 0
              · exact Or.inl hr
              · right
                refine ⟨h0, ?_⟩
                by_cases hz : io.availIn = 0
                · exact hz
                · exact absurd ⟨hr, hz⟩ hnc
          have hafter : ¬ canEnc op (markAfterEncode s2 (decide (io.availIn = 0 ∧ op = 2)) (decide (io.availIn = 0 ∧ op = 1))) { io with reqs := io.reqs ++ [req] } := by
            intro ⟨hs, hr⟩
            rw [k10] at hs
            by_cases h2 : io.availIn = 0 ∧ op = 2
            · rw [decide_eq_true h2] at hs; cases hs
            · rw [decide_eq_false h2] at hs
              by_cases h1 : io.availIn = 0 ∧ op = 1
              · rw [decide_eq_true h1] at hs; cases hs
              · rcases hr with hr | ⟨hr1, hr2⟩
                · -- remaining block size is the whole block again
                  have hfull : remainingInputBlockSize (markAfterEncode s2 (decide (io.availIn = 0 ∧ op = 2)) (decide (io.availIn = 0 ∧ op = 1)))
                      = (markAfterEncode s2 (decide (io.availIn = 0 ∧ op = 2)) (decide (io.availIn = 0 ∧ op = 1))).blockSize :=
                    rbs_full (by rw [k6, k2, hlp, f.2.1]) (by rw [k2, f.2.1]; exact hI2.ip_lt)
                  rw [hfull] at hr
                  have := blockSize_pos (markAfterEncode s2 (decide (io.availIn = 0 ∧ op = 2)) (decide (io.availIn = 0 ∧ op = 1)))
                  omega
                · simp only at hr2
                  have : op = 1 ∨ op = 2 := by omega
                  rcases this with h | h
                  · exact h1 ⟨hr2, h⟩
                  · exact h2 ⟨hr2, h⟩
          unfold slowPot
          rw [if_pos hbefore, if_neg hafter, k8]
          have hpad : padB (markAfterEncode s2 (decide (io.availIn = 0 ∧ op = 2)) (decide (io.availIn = 0 ∧ op = 1))) ≤ 4 := by
            unfold padB; split <;> omega
          have hp0 : s.pending.length = 0 := hcond.1
          have e2 : (2 * io.availIn + 1) * (M + 8) = 2 * io.availIn * (M + 8) + (M + 8) := by
            rw [Nat.add_mul, Nat.one_mul]
          simp only [Nat.add_zero]
          rw [e2]
          generalize 2 * io.availIn * (M + 8) = T
          omega
      · simp at h

end BV.Stream
