import BV.Lemmas.StreamRing
/-
The ring-buffer invariant through `copy_input_to_ring_buffer`, initialisation and every atomic step.
-/
namespace BV.Stream
open BV.Bits

theorem getD_replicate_zero (n i : Nat) : (List.replicate n (0 : Nat)).getD i 0 = 0 := by
  induction n generalizing i with
  | zero => simp
  | succ k ih =>
    cases i with
    | zero => simp [List.replicate_succ]
    | succ j => simp only [List.replicate_succ, List.getD_cons_succ]; exact ih j

/-- **`copy_input_to_ring_buffer` keeps the ring-buffer invariant** and leaves 7 zero bytes behind
the write position while the first lap lasts -/
theorem copy_ring_ok {s s' : St} {chunk input : Bytes} {avail : Nat} (hi : s.isInitialized = true)
    (hR : RingOK s.ring input) (hn : chunk.length ≤ s.ring.tailSize)
    (h : copyInputToRingBuffer s chunk avail = .ok s') :
    RingOK s'.ring (input ++ chunk)
    ∧ (s'.ring.pos ≤ s'.ring.mask → ∀ i, i < 7 → s'.ring.get (2 + s'.ring.pos + i) = 0) := by
  unfold copyInputToRingBuffer at h
  rw [ensureInitialized_id hi] at h
  simp only at h
  split at h
  · rename_i rb hw
    have hR' := ringWrite_ok hR hn hw
    split at h
    · simp at h
    · simp only [Out.ok.injEq] at h
      subst h
      simp only
      by_cases hfl : rb.pos ≤ rb.mask
      · rw [if_pos hfl]
        have g := hR'.geom
        obtain ⟨_, _, hsl, _, _, _⟩ := g.lap_facts
        have hmask := g.mask
        -- first lap: the position is the number of bytes written
        have hP : rb.pos = (input ++ chunk).length := by
          by_cases hc : (input ++ chunk).length ≤ rb.lap
          · exact hR'.posSmall hc
          · have := (hR'.posBig (by omega)).1
            omega
        refine ⟨⟨geom_of_eq g rfl rfl rfl rfl, hR'.posSmall, hR'.posBig, hR'.alloc, ?_, ?_⟩, ?_⟩
        · intro p hp hw'
          have hps : p % rb.size = p := Nat.mod_eq_of_lt (by omega)
          have hm := hR'.main p hp hw'
          show cellsGet (cellsWrite rb.cells (2 + rb.pos) (List.replicate 7 0)) (2 + p % rb.size) = _
          rw [cellsGet_write, List.length_replicate]
          have a1 : ¬ (2 + rb.pos ≤ 2 + p % rb.size ∧ 2 + p % rb.size < 2 + rb.pos + 7) := by rw [hps]; omega
          rw [if_neg a1]
          exact hm
        · intro p hp hps _ _
          have : rb.size ≤ p := hps
          omega
        · intro _ i hi7
          show cellsGet (cellsWrite rb.cells (2 + rb.pos) (List.replicate 7 0)) (2 + rb.pos + i) = 0
          rw [cellsGet_write, List.length_replicate]
          have a1 : 2 + rb.pos ≤ 2 + rb.pos + i ∧ 2 + rb.pos + i < 2 + rb.pos + 7 := by omega
          rw [if_pos a1]
          exact getD_replicate_zero 7 _
      · rw [if_neg hfl]
        exact ⟨hR', fun hh => absurd hh hfl⟩
  · simp at h
  · simp at h


theorem computeLgBlock_bounds (p : Params) (h1 : 10 ≤ p.lgwin) (h2 : p.lgwin ≤ 30) :
    10 ≤ computeLgBlock p ∧ computeLgBlock p ≤ 30 := by
  unfold computeLgBlock
  split
  · exact ⟨h1, h2⟩
  · split
    · omega
    · split
      · split <;> omega
      · omega

theorem sanitize_lgwin30 (p : Params) : 10 ≤ (sanitize p).lgwin ∧ (sanitize p).lgwin ≤ 30 := by
  unfold sanitize
  simp only
  split
  · omega
  · split
    · split
      · split <;> omega
      · omega
    · omega

/-- **a freshly initialised ring buffer satisfies the invariant** (nothing written yet), and its tail
is one input block -/
theorem ring_ok_fresh {s : St} (h : IsFresh s) :
    RingOK (ensureInitialized s).ring [] ∧ (ensureInitialized s).ring.tailSize = (ensureInitialized s).blockSize := by
  obtain ⟨p, rfl⟩ := h
  obtain ⟨w1, w2⟩ := sanitize_lgwin30 p
  obtain ⟨b1, b2⟩ := computeLgBlock_bounds (sanitize p) w1 w2
  simp only [ensureInitialized, St.new, Bool.false_eq_true, ↓reduceIte, ringSetup, St.blockSize]
  generalize hL : computeLgBlock (sanitize p) = lb at b1 b2
  generalize (sanitize p).lgwin = lw at w1 w2
  have hwb : (1 + max lw lb).toNat = 1 + (max lw lb).toNat := by omega
  have hmx : (max lw lb).toNat ≤ 30 := by omega
  have hmx10 : 10 ≤ (max lw lb).toNat := by omega
  have hlb : lb.toNat ≤ (max lw lb).toNat := by omega
  rw [hwb]
  generalize (max lw lb).toNat = m at *
  generalize lb.toNat = t at *
  have hp31 : 2 ^ (1 + m) ≤ 2 ^ 31 := Nat.pow_le_pow_right (by omega) (by omega)
  have hpt : 2 ^ t ≤ 2 ^ m := Nat.pow_le_pow_right (by omega) hlb
  have hdbl : 2 ^ (1 + m) = 2 * 2 ^ m := by rw [Nat.add_comm, Nat.pow_succ, Nat.mul_comm]
  have hpos : 0 < 2 ^ m := Nat.pow_pos (by omega)
  have h31v : (2 : Nat) ^ 31 = 2147483648 := by decide
  refine ⟨⟨⟨?_, ?_, ?_, ⟨1 + m, rfl, by omega, by omega⟩⟩, ?_, ?_, Or.inr ⟨rfl, ?_⟩, ?_, ?_⟩, trivial⟩
  · show 2 ^ (1 + m) - 1 + 1 = 2 ^ (1 + m)
    omega
  · show (2 ^ (1 + m) + 2 ^ t) % two32 = 2 ^ (1 + m) + 2 ^ t
    apply Nat.mod_eq_of_lt
    unfold two32; omega
  · show 2 * 2 ^ t ≤ 2 ^ (1 + m)
    omega
  · intro _; rfl
  · intro hh; simp at hh
  · show 0 < 2 ^ t
    exact Nat.pow_pos (by omega)
  · intro p hp; simp at hp
  · intro p hp; simp at hp


theorem ringGrow_geom {rb rb' : Ring} (h : ringGrow rb = .ok rb') :
    rb'.size = rb.size ∧ rb'.mask = rb.mask ∧ rb'.tailSize = rb.tailSize ∧ rb'.totalSize = rb.totalSize := by
  unfold ringGrow at h
  split at h
  · split at h
    · rename_i rbi hinit
      split at h
      · simp at h
      · simp only [Out.ok.injEq] at h
        subst h
        obtain ⟨_, i2, i3, i4, i5, _⟩ := initBuffer_get hinit
        exact ⟨i2, i3, i4, i5⟩
    · rename_i hno; exact absurd h (hno _)
  · simp only [Out.ok.injEq] at h
    subst h
    exact ⟨rfl, rfl, rfl, rfl⟩

theorem ringWrite_geom {rb rb' : Ring} {bytes : Bytes} {avail : Nat} (h : ringWrite rb bytes avail = .ok rb') :
    rb'.size = rb.size ∧ rb'.mask = rb.mask ∧ rb'.tailSize = rb.tailSize ∧ rb'.totalSize = rb.totalSize := by
  unfold ringWrite at h
  simp only at h
  split at h
  · split at h
    · rename_i rbi hinit
      split at h
      · simp at h
      · simp only [Out.ok.injEq] at h
        subst h
        obtain ⟨_, i2, i3, i4, i5, _⟩ := initBuffer_get hinit
        exact ⟨i2, i3, i4, i5⟩
    · rename_i hno; exact absurd h (hno _)
  · split at h
    · rename_i rbg hg
      obtain ⟨g1, g2, g3, g4⟩ := ringGrow_geom hg
      have hres : rb' = { rbg with pos := ringPosAfter rbg bytes.length, cells := ringWriteCells rbg bytes } := by
        unfold ringWriteMain at h
        simp only at h
        split_all h
        all_goals first
          | (simp at h; done)
          | (simp only [Out.ok.injEq] at h; exact h.symm)
      subst hres
      exact ⟨g1, g2, g3, g4⟩
    · rename_i hno; exact absurd h (hno _)

theorem copy_ring_geom {s s' : St} {chunk : Bytes} {avail : Nat} (hi : s.isInitialized = true)
    (h : copyInputToRingBuffer s chunk avail = .ok s') : s'.ring.tailSize = s.ring.tailSize := by
  unfold copyInputToRingBuffer at h
  rw [ensureInitialized_id hi] at h
  simp only at h
  split at h
  · rename_i rb hw
    split at h
    · simp at h
    · simp only [Out.ok.injEq] at h
      subst h
      simp only
      split
      · exact (ringWrite_geom hw).2.2.1
      · exact (ringWrite_geom hw).2.2.1
  · simp at h
  · simp at h

/-! ### no slice of `data_mo` is out of bounds -/

/-- `data_mo` is as long as `RingBufferInitBuffer` made it: nothing yet, or `2 + cur_size_ + 7` -/
def AllocOK (rb : Ring) : Prop := (rb.allocLen = 0 ∧ rb.curSize = 0) ∨ rb.allocLen = 2 + rb.curSize + 7

theorem initBuffer_no_panic {rb : Ring} {buflen : Nat} (hA : AllocOK rb) (h1 : rb.curSize ≤ buflen) (h2 : buflen < 4294967000) :
    ∃ rb', ringInitBuffer rb buflen = .ok rb' ∧ rb'.allocLen = 2 + buflen + 7 := by
  unfold ringInitBuffer
  simp only
  have e1 : (2 + buflen) % two32 = 2 + buflen := Nat.mod_eq_of_lt (by unfold two32; omega)
  have e2 : (2 + rb.curSize) % two32 = 2 + rb.curSize := Nat.mod_eq_of_lt (by unfold two32; omega)
  rw [e1, e2]
  have c1 : ¬ (rb.allocLen ≠ 0 ∧ (2 + rb.curSize + 7 > 2 + buflen + 7 ∨ 2 + rb.curSize + 7 > rb.allocLen)) := by
    intro ⟨hne, hh⟩
    rcases hA with ⟨ha, _⟩ | ha
    · exact hne ha
    · omega
  have c2 : ¬ (2 + buflen + 7 > 2 + buflen + 7) := by omega
  rw [if_neg c1, if_neg c2]
  exact ⟨_, rfl, rfl⟩


theorem geom_bounds {rb : Ring} (g : RingGeom rb) : rb.size ≤ 2147483648 ∧ rb.totalSize ≤ 3221225472 ∧ 4 ≤ rb.size := by
  obtain ⟨_, _, hsl, _, h31, hs4⟩ := g.lap_facts
  have := g.tail
  have := g.total
  omega

/-- **`RingBufferWrite` never indexes `data_mo` out of range** (writes of at most one block from a
slice that is long enough), and leaves `data_mo` with the length it allocated -/
theorem ringWrite_no_panic {rb : Ring} {input bytes : Bytes} {avail : Nat} (hR : RingOK rb input) (hA : AllocOK rb)
    (hz : input = [] → rb.curSize = 0) (hn : bytes.length ≤ rb.tailSize) (hav : bytes.length ≤ avail) :
    ∃ rb', ringWrite rb bytes avail = .ok rb' ∧ rb'.allocLen = 2 + rb'.curSize + 7 ∧ ((input ++ bytes) = [] → rb'.curSize = 0) := by
  have g := hR.geom
  obtain ⟨hs31, ht3, hs4⟩ := geom_bounds g
  have htail := g.tail
  have htot := g.total
  have hmask := g.mask
  unfold ringWrite
  simp only
  by_cases hfirst : rb.pos = 0 ∧ bytes.length < rb.tailSize
  · rw [if_pos hfirst]
    have hin : input = [] := hR.pos_zero hfirst.1
    have hc0 := hz hin
    have hA' : AllocOK { rb with pos := bytes.length } := hA
    obtain ⟨rbi, hi, hal⟩ := initBuffer_no_panic (rb := { rb with pos := bytes.length }) (buflen := bytes.length) hA'
      (by show rb.curSize ≤ bytes.length; omega) (by omega)
    rw [hi]
    simp only
    have hc : ¬ (2 + bytes.length > rbi.allocLen ∨ bytes.length > avail) := by omega
    rw [if_neg hc]
    obtain ⟨i1, _⟩ := initBuffer_get hi
    refine ⟨_, rfl, (by show rbi.allocLen = 2 + rbi.curSize + 7; rw [hal, i1]), ?_⟩
    intro hnil
    show rbi.curSize = 0
    rw [i1]
    have : bytes = [] := by
      rw [hin] at hnil; simpa using hnil
    rw [this]; rfl
  · rw [if_neg hfirst]
    -- growth
    have hgrow : ∃ rbg, ringGrow rb = .ok rbg ∧ rbg.allocLen = 2 + rbg.totalSize + 7 ∧ rbg.curSize = rbg.totalSize
        ∧ rbg.size = rb.size ∧ rbg.mask = rb.mask ∧ rbg.tailSize = rb.tailSize ∧ rbg.totalSize = rb.totalSize ∧ rbg.pos = rb.pos := by
      unfold ringGrow
      by_cases hlt : rb.curSize < rb.totalSize
      · rw [if_pos hlt]
        obtain ⟨rbi, hi, hal⟩ := initBuffer_no_panic (buflen := rb.totalSize) hA (by omega) (by omega)
        rw [hi]
        simp only
        obtain ⟨i1, i2, i3, i4, i5, i6, _⟩ := initBuffer_get hi
        have hc : ¬ (2 + rbi.size - 1 ≥ rbi.allocLen ∨ rbi.size < 2) := by rw [hal, i2]; omega
        rw [if_neg hc]
        exact ⟨_, rfl, by show rbi.allocLen = 2 + rbi.totalSize + 7; rw [hal, i5], by show rbi.curSize = rbi.totalSize; rw [i1, i5], i2, i3, i4, i5, i6⟩
      · rw [if_neg hlt]
        have hfull : rb.curSize = rb.totalSize := by
          rcases hR.alloc with ha | ha
          · exact ha
          · omega
        refine ⟨rb, rfl, ?_, hfull, rfl, rfl, rfl, rfl, rfl⟩
        rcases hA with ⟨_, ha⟩ | ha
        · omega
        · rw [ha, hfull]
    obtain ⟨rbg, hg, gal, gcur, e1, e2, e3, e4, e5⟩ := hgrow
    rw [hg]
    simp only
    unfold ringWriteMain
    simp only
    rw [e2, hmask, e5, e3, e1, e4, gal, e4]
    have hmp : rb.pos % rb.size < rb.size := Nat.mod_lt _ (by omega)
    generalize rb.pos % rb.size = mp at hmp
    generalize hnn : bytes.length = n at *
    have c1 : (if mp < rb.tailSize then decide (2 + (rb.size + mp) + min n (rb.tailSize - mp) ≤ 2 + rb.totalSize + 7 ∧ min n (rb.tailSize - mp) ≤ avail) else true) = true := by
      split
      · simp only [decide_eq_true_eq]; omega
      · rfl
    rw [c1]
    simp only [Bool.not_true, Bool.false_eq_true, ↓reduceIte]
    have c2 : (if mp + n ≤ rb.size then decide (2 + mp + n ≤ 2 + rb.totalSize + 7 ∧ n ≤ avail)
        else decide (rb.totalSize ≥ mp ∧ 2 + mp + min n (rb.totalSize - mp) ≤ 2 + rb.totalSize + 7 ∧ min n (rb.totalSize - mp) ≤ avail ∧
              rb.size ≥ mp ∧ n ≥ rb.size - mp ∧ 2 + (n - (rb.size - mp)) ≤ 2 + rb.totalSize + 7 ∧ rb.size - mp + (n - (rb.size - mp)) ≤ avail)) = true := by
      split
      · simp only [decide_eq_true_eq]; omega
      · simp only [decide_eq_true_eq]; omega
    rw [c2]
    simp only [Bool.not_true, Bool.false_eq_true, ↓reduceIte]
    have c3 : ¬ (2 + rb.size - 1 ≥ 2 + rb.totalSize + 7 ∨ rb.size < 2) := by omega
    rw [if_neg c3]
    refine ⟨_, rfl, (by show _ = 2 + rbg.curSize + 7; rw [gcur, e4]), ?_⟩
    intro hnil
    exfalso
    -- a non-first write of nothing onto nothing cannot happen: `pos_ = 0` and `0 < tail_size_`
    have hin : input = [] := by
      cases input with
      | nil => rfl
      | cons a as => simp at hnil
    have hb : n = 0 := by
      rw [hin] at hnil
      have : bytes = [] := by simpa using hnil
      rw [← hnn, this]; rfl
    have hp0 : rb.pos = 0 := by
      have := hR.posSmall (by rw [hin]; simp)
      rw [hin] at this; simpa using this
    have htpos : 0 < rb.tailSize := by
      rcases hR.alloc with ha | ha
      · have := hz hin; omega
      · omega
    exact hfirst ⟨hp0, by omega⟩


/-- **`copy_input_to_ring_buffer` never panics** under the ring-buffer invariants -/
theorem copy_no_panic {s : St} {chunk input : Bytes} {avail : Nat} (hi : s.isInitialized = true)
    (hR : RingOK s.ring input) (hA : AllocOK s.ring) (hz : input = [] → s.ring.curSize = 0)
    (hn : chunk.length ≤ s.ring.tailSize) (hav : chunk.length ≤ avail) :
    ∃ s', copyInputToRingBuffer s chunk avail = .ok s' ∧ AllocOK s'.ring ∧ ((input ++ chunk) = [] → s'.ring.curSize = 0) := by
  obtain ⟨rb, hw, hal, hz'⟩ := ringWrite_no_panic hR hA hz hn hav
  have hR' := ringWrite_ok hR hn hw
  unfold copyInputToRingBuffer
  rw [ensureInitialized_id hi]
  simp only
  rw [hw]
  simp only
  have g := hR'.geom
  obtain ⟨_, _, hsl, _, _, _⟩ := g.lap_facts
  have hmask := g.mask
  have htot := g.total
  have hc : ¬ (rb.pos ≤ rb.mask ∧ 2 + rb.pos + 7 > rb.allocLen) := by
    intro ⟨hfl, hbad⟩
    have hP : rb.pos = (input ++ chunk).length := by
      by_cases hc : (input ++ chunk).length ≤ rb.lap
      · exact hR'.posSmall hc
      · have := (hR'.posBig (by omega)).1
        omega
    rcases hR'.alloc with ha | ha
    · omega
    · omega
  rw [if_neg hc]
  refine ⟨_, rfl, ?_, ?_⟩
  · simp only
    split
    · exact Or.inr hal
    · exact Or.inr hal
  · intro hnil
    simp only
    split
    · exact hz' hnil
    · exact hz' hnil


/-- the bytes a log copies into the ring buffer -/
def logCopy : List Ev → Bytes
  | [] => []
  | .copy c :: es => c ++ logCopy es
  | _ :: es => logCopy es

def Ev.copied : Ev → Bytes
  | .copy c => c
  | _ => []

/-- the ring-buffer invariant of an initialised encoder: `inp` = the bytes copied in so far -/
structure RingInv (s : St) (inp : Bytes) : Prop where
  init : s.isInitialized = true
  ok : RingOK s.ring inp
  tail : s.ring.tailSize = s.blockSize
  alloc : AllocOK s.ring ∧ (inp = [] → s.ring.curSize = 0)

theorem ringInv_of_eq {s s' : St} {inp : Bytes} (h : RingInv s inp) (h1 : s'.ring = s.ring) (h2 : s'.params.lgblock = s.params.lgblock)
    (h3 : s'.isInitialized = s.isInitialized) : RingInv s' inp := by
  refine ⟨h3.trans h.init, by rw [h1]; exact h.ok, ?_, by rw [h1]; exact h.alloc⟩
  rw [h1, blockSize_congr h2]; exact h.tail


theorem rbs_le_block (s : St) : remainingInputBlockSize s ≤ s.blockSize := by
  unfold remainingInputBlockSize
  simp only
  split <;> omega

set_option maxRecDepth 4000 in
/-- **the ring-buffer invariant through every atomic step**: only `copy` touches the ring buffer,
and it appends its chunk -/
theorem step_ring {o : Oracle} {op : Nat} {s s' : St} {io io' : Io} {e : Ev} {inp : Bytes} (hR : RingInv s inp)
    (h : Step o op (s, io) e (s', io')) : RingInv s' (inp ++ e.copied) := by
  cases h with
  | init hf =>
    have := hR.init
    rw [isFreshInit hf] at this
    cases this
  | copy hI hw hop hnf hst hrm hc hn h =>
    have hlen : (io.input.take (copyN s io)).length ≤ s.ring.tailSize := by
      rw [List.length_take, hR.tail]
      have := rbs_le_block s
      unfold copyN
      omega
    obtain ⟨r1, _⟩ := copy_ring_ok hI.init hR.ok hlen h
    obtain ⟨c1, _, _, c4, _⟩ := copy_fields hI.init h
    have hav : (io.input.take (copyN s io)).length ≤ io.input.length := by
      rw [List.length_take]; exact Nat.min_le_right _ _
    obtain ⟨s'', hs'', a1, a2⟩ := copy_no_panic hI.init hR.ok hR.alloc.1 hR.alloc.2 hlen hav
    rw [h] at hs''
    cases hs''
    refine ⟨c4.trans hI.init, r1, ?_, a1, a2⟩
    rw [copy_ring_geom hI.init h, hR.tail]
    exact (blockSize_congr (s := s) (s' := s') (by rw [c1])).symm
  | pad hI hc hz h =>
    obtain ⟨f, _⟩ := pad_frame h
    rw [St.frame_eq_iff] at f
    simp only [Ev.copied, List.append_nil]
    exact ringInv_of_eq hR f.2.2.2.2.2.1 (by rw [f.1]) f.2.2.2.2.1
  | push hI hc h =>
    obtain ⟨f, _⟩ := push_frame h
    rw [St.frame_eq_iff] at f
    simp only [Ev.copied, List.append_nil]
    exact ringInv_of_eq hR f.2.2.2.2.2.1 (by rw [f.1]) f.2.2.2.2.1
  | encSlow hI hop hnf hrm hnc hnp hpend hst hgo h =>
    rename_i s2 req
    obtain ⟨f, _⟩ := encodeData_frame h
    rw [St.frame_eq_iff] at f
    obtain ⟨k1, _, _, k4, _⟩ := markAfterEncode_fields s2 (slowIl op io) (slowFf op io)
    obtain ⟨u1, _, _, _, _, _, _, u8, _⟩ := updateSizeHint_fields s io.availIn
    have hur : (updateSizeHint s io.availIn).ring = s.ring := by
      by_cases hh : s.params.sizeHint = 0 <;> simp [updateSizeHint, hh]
    have hmr : (markAfterEncode s2 (slowIl op io) (slowFf op io)).ring = s2.ring := by
      unfold markAfterEncode; cases slowIl op io <;> cases slowFf op io <;> rfl
    have : (encEv o (updateSizeHint s io.availIn) 0 (slowIl op io) (slowFf op io)).copied = [] := rfl
    rw [this, List.append_nil]
    exact ringInv_of_eq hR (hmr.trans (f.2.2.2.2.2.1.trans hur)) (by rw [k1, f.1, u1]) (k4.trans (f.2.2.2.2.1.trans u8))
  | cfc hI hop hrm hnp hfl =>
    obtain ⟨c1, _, _, c4, _⟩ := checkFlushComplete_frame s
    have hcr : (checkFlushComplete s).ring = s.ring := by unfold checkFlushComplete; split <;> rfl
    simp only [Ev.copied, List.append_nil]
    exact ringInv_of_eq hR hcr (by rw [c1]) c4
  | fastFlush hI hfm hrm hnp hpend hst hop1 hz =>
    simp only [Ev.copied, List.append_nil]
    exact ringInv_of_eq hR rfl rfl rfl
  | fastBlock hI hfm hop hrm hnp hpend hst hgo hnf hcap hin hfit =>
    obtain ⟨e1, _, _, e4, _⟩ := fastEncode_fields (fastS1 s io) io (o s.nEnc (fastReq op s io)) (fastReq op s io) (fastBs s io) (fastInplace s io)
        (fastReq op s io).isLast (fastReq op s io).forceFlush
    have hfr : (fastRes o op s io).1.ring = s.ring := by
      unfold fastRes fastEncode fastS1 fastStorage growStorage
      split <;> split <;> (try split) <;> rfl
    simp only [Ev.copied, List.append_nil]
    refine ringInv_of_eq (s' := (fastRes o op s io).1) hR hfr ?_ ?_
    · unfold fastRes; rw [e1]; unfold fastS1; rw [fastStorage_params]
    · unfold fastRes; rw [e4]; unfold fastS1; rw [fastStorage_init]
  | mdEnter hI hop hentry =>
    obtain ⟨u1, _, _, _, _, _, _, u8, _⟩ := updateSizeHint_fields s 0
    have hur : (mdEnter (updateSizeHint s 0) io.availIn).ring = s.ring := by
      unfold mdEnter
      by_cases hh : s.params.sizeHint = 0 <;> split <;> simp [updateSizeHint, hh]
    simp only [Ev.copied, List.append_nil]
    exact ringInv_of_eq hR hur (by rw [mdEnter_params, u1]) ((mdEnter_init _ _).trans u8)
  | mdEnc hM hop hpend hne h =>
    obtain ⟨f, _⟩ := encodeData_frame h
    rw [St.frame_eq_iff] at f
    have : (encEv o s 1 false true).copied = [] := rfl
    rw [this, List.append_nil]
    exact ringInv_of_eq hR f.2.2.2.2.2.1 (by rw [f.1]) f.2.2.2.2.1
  | mdHead hM hop hpend hlf hst hok => simp only [Ev.copied, List.append_nil]; exact ringInv_of_eq hR rfl rfl rfl
  | mdDone hM hop hpend hlf hst hz => simp only [Ev.copied, List.append_nil]; exact ringInv_of_eq hR rfl rfl rfl
  | mdOut hM hop hpend hlf hst hnz hao hle => simp only [Ev.copied, List.append_nil]; exact ringInv_of_eq hR rfl rfl rfl
  | mdTiny hM hop hpend hlf hst hnz hao hle => simp only [Ev.copied, List.append_nil]; exact ringInv_of_eq hR rfl rfl rfl

/-- a freshly initialised ring buffer has nothing allocated -/
theorem ring_alloc_fresh {s : St} (h : IsFresh s) :
    AllocOK (ensureInitialized s).ring ∧ (([] : Bytes) = [] → (ensureInitialized s).ring.curSize = 0) := by
  obtain ⟨p, rfl⟩ := h
  exact ⟨Or.inl ⟨rfl, rfl⟩, fun _ => rfl⟩

theorem logCopy_cons (e : Ev) (es : List Ev) : logCopy (e :: es) = e.copied ++ logCopy es := by
  cases e <;> simp [logCopy, Ev.copied]

theorem steps_ring {o : Oracle} {op : Nat} {c c' : St × Io} {evs : List Ev} (h : Steps o op c evs c') :
    ∀ {inp : Bytes}, RingInv c.1 inp → RingInv c'.1 (inp ++ logCopy evs) := by
  induction h with
  | nil c => intro inp hR; simpa [logCopy] using hR
  | @cons c c1 c2 e es hs _ ih =>
    intro inp hR
    obtain ⟨s, io⟩ := c
    obtain ⟨s1, io1⟩ := c1
    have := ih (step_ring hR hs)
    rw [logCopy_cons, ← List.append_assoc]
    exact this

end BV.Stream
