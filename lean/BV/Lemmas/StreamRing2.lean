import BV.Lemmas.StreamRing
/-
The ring-buffer invariant through `copy_input_to_ring_buffer`, initialisation and every atomic step.
-/
namespace BV.Stream
open BV.Bits

theorem getD_replicate_zero (n i : Nat) : (List.replicate n (0 : Nat)).getD i 0 = 0 := by
  induction n generalizing i with
  | zero => simp
  | succ k ih =>
    cases i with
    | zero => simp [List.replicate_succ]
    | succ j => simp only [List.replicate_succ, List.getD_cons_succ]; exact ih j

/-- **`copy_input_to_ring_buffer` keeps the ring-buffer invariant** and leaves 7 zero bytes behind
the write position while the first lap lasts -/
theorem copy_ring_ok {s s' : St} {chunk input : Bytes} {avail : Nat} (hi : s.isInitialized = true)
    (hR : RingOK s.ring input) (hn : chunk.length ≤ s.ring.tailSize)
    (h : copyInputToRingBuffer s chunk avail = .ok s') :
    RingOK s'.ring (input ++ chunk)
    ∧ (s'.ring.pos ≤ s'.ring.mask → ∀ i, i < 7 → s'.ring.get (2 + s'.ring.pos + i) = 0) := by
  unfold copyInputToRingBuffer at h
  rw [ensureInitialized_id hi] at h
  simp only at h
  split at h
  · rename_i rb hw
    have hR' := ringWrite_ok hR hn hw
    split at h
    · simp at h
    · simp only [Out.ok.injEq] at h
      subst h
      simp only
      by_cases hfl : rb.pos ≤ rb.mask
      · rw [if_pos hfl]
        have g := hR'.geom
        obtain ⟨_, _, hsl, _, _, _⟩ := g.lap_facts
        have hmask := g.mask
        -- first lap: the position is the number of bytes written
        have hP : rb.pos = (input ++ chunk).length := by
          by_cases hc : (input ++ chunk).length ≤ rb.lap
          · exact hR'.posSmall hc
          · have := (hR'.posBig (by omega)).1
            omega
        refine ⟨⟨geom_of_eq g rfl rfl rfl rfl, hR'.posSmall, hR'.posBig, hR'.alloc, ?_, ?_⟩, ?_⟩
        · intro p hp hw'
          have hps : p % rb.size = p := Nat.mod_eq_of_lt (by omega)
          have hm := hR'.main p hp hw'
          show cellsGet (cellsWrite rb.cells (2 + rb.pos) (List.replicate 7 0)) (2 + p % rb.size) = _
          rw [cellsGet_write, List.length_replicate]
          have a1 : ¬ (2 + rb.pos ≤ 2 + p % rb.size ∧ 2 + p % rb.size < 2 + rb.pos + 7) := by rw [hps]; omega
          rw [if_neg a1]
          exact hm
        · intro p hp hps _ _
          have : rb.size ≤ p := hps
          omega
        · intro _ i hi7
          show cellsGet (cellsWrite rb.cells (2 + rb.pos) (List.replicate 7 0)) (2 + rb.pos + i) = 0
          rw [cellsGet_write, List.length_replicate]
          have a1 : 2 + rb.pos ≤ 2 + rb.pos + i ∧ 2 + rb.pos + i < 2 + rb.pos + 7 := by omega
          rw [if_pos a1]
          exact getD_replicate_zero 7 _
      · rw [if_neg hfl]
        exact ⟨hR', fun hh => absurd hh hfl⟩
  · simp at h
  · simp at h


theorem computeLgBlock_bounds (p : Params) (h1 : 10 ≤ p.lgwin) (h2 : p.lgwin ≤ 30) :
    10 ≤ computeLgBlock p ∧ computeLgBlock p ≤ 30 := by
  unfold computeLgBlock
  split
  · exact ⟨h1, h2⟩
  · split
    · omega
    · split
      · split <;> omega
      · omega

theorem sanitize_lgwin30 (p : Params) : 10 ≤ (sanitize p).lgwin ∧ (sanitize p).lgwin ≤ 30 := by
  unfold sanitize
  simp only
  split
  · omega
  · split
    · split
      · split <;> omega
      · omega
    · omega

/-- **a freshly initialised ring buffer satisfies the invariant** (nothing written yet), and its tail
is one input block -/
theorem ring_ok_fresh {s : St} (h : IsFresh s) :
    RingOK (ensureInitialized s).ring [] ∧ (ensureInitialized s).ring.tailSize = (ensureInitialized s).blockSize := by
  obtain ⟨p, rfl⟩ := h
  obtain ⟨w1, w2⟩ := sanitize_lgwin30 p
  obtain ⟨b1, b2⟩ := computeLgBlock_bounds (sanitize p) w1 w2
  simp only [ensureInitialized, St.new, Bool.false_eq_true, ↓reduceIte, ringSetup, St.blockSize]
  generalize hL : computeLgBlock (sanitize p) = lb at b1 b2
  generalize (sanitize p).lgwin = lw at w1 w2
  have hwb : (1 + max lw lb).toNat = 1 + (max lw lb).toNat := by omega
  have hmx : (max lw lb).toNat ≤ 30 := by omega
  have hmx10 : 10 ≤ (max lw lb).toNat := by omega
  have hlb : lb.toNat ≤ (max lw lb).toNat := by omega
  rw [hwb]
  generalize (max lw lb).toNat = m at *
  generalize lb.toNat = t at *
  have hp31 : 2 ^ (1 + m) ≤ 2 ^ 31 := Nat.pow_le_pow_right (by omega) (by omega)
  have hpt : 2 ^ t ≤ 2 ^ m := Nat.pow_le_pow_right (by omega) hlb
  have hdbl : 2 ^ (1 + m) = 2 * 2 ^ m := by rw [Nat.add_comm, Nat.pow_succ, Nat.mul_comm]
  have hpos : 0 < 2 ^ m := Nat.pow_pos (by omega)
  have h31v : (2 : Nat) ^ 31 = 2147483648 := by decide
  refine ⟨⟨⟨?_, ?_, ?_, ⟨1 + m, rfl, by omega, by omega⟩⟩, ?_, ?_, Or.inr ⟨rfl, ?_⟩, ?_, ?_⟩, trivial⟩
  · show 2 ^ (1 + m) - 1 + 1 = 2 ^ (1 + m)
    omega
  · show (2 ^ (1 + m) + 2 ^ t) % two32 = 2 ^ (1 + m) + 2 ^ t
    apply Nat.mod_eq_of_lt
    unfold two32; omega
  · show 2 * 2 ^ t ≤ 2 ^ (1 + m)
    omega
  · intro _; rfl
  · intro hh; simp at hh
  · show 0 < 2 ^ t
    exact Nat.pow_pos (by omega)
  · intro p hp; simp at hp
  · intro p hp; simp at hp


theorem ringGrow_geom {rb rb' : Ring} (h : ringGrow rb = .ok rb') :
    rb'.size = rb.size ∧ rb'.mask = rb.mask ∧ rb'.tailSize = rb.tailSize ∧ rb'.totalSize = rb.totalSize := by
  unfold ringGrow at h
  split at h
  · split at h
    · rename_i rbi hinit
      split at h
      · simp at h
      · simp only [Out.ok.injEq] at h
        subst h
        obtain ⟨_, i2, i3, i4, i5, _⟩ := initBuffer_get hinit
        exact ⟨i2, i3, i4, i5⟩
    · rename_i hno; exact absurd h (hno _)
  · simp only [Out.ok.injEq] at h
    subst h
    exact ⟨rfl, rfl, rfl, rfl⟩

theorem ringWrite_geom {rb rb' : Ring} {bytes : Bytes} {avail : Nat} (h : ringWrite rb bytes avail = .ok rb') :
    rb'.size = rb.size ∧ rb'.mask = rb.mask ∧ rb'.tailSize = rb.tailSize ∧ rb'.totalSize = rb.totalSize := by
  unfold ringWrite at h
  simp only at h
  split at h
  · split at h
    · rename_i rbi hinit
      split at h
      · simp at h
      · simp only [Out.ok.injEq] at h
        subst h
        obtain ⟨_, i2, i3, i4, i5, _⟩ := initBuffer_get hinit
        exact ⟨i2, i3, i4, i5⟩
    · rename_i hno; exact absurd h (hno _)
  · split at h
    · rename_i rbg hg
      obtain ⟨g1, g2, g3, g4⟩ := ringGrow_geom hg
      have hres : rb' = { rbg with pos := ringPosAfter rbg bytes.length, cells := ringWriteCells rbg bytes } := by
        unfold ringWriteMain at h
        simp only at h
        split_all h
        all_goals first
          | (simp at h; done)
          | (simp only [Out.ok.injEq] at h; exact h.symm)
      subst hres
      exact ⟨g1, g2, g3, g4⟩
    · rename_i hno; exact absurd h (hno _)

theorem copy_ring_geom {s s' : St} {chunk : Bytes} {avail : Nat} (hi : s.isInitialized = true)
    (h : copyInputToRingBuffer s chunk avail = .ok s') : s'.ring.tailSize = s.ring.tailSize := by
  unfold copyInputToRingBuffer at h
  rw [ensureInitialized_id hi] at h
  simp only at h
  split at h
  · rename_i rb hw
    split at h
    · simp at h
    · simp only [Out.ok.injEq] at h
      subst h
      simp only
      split
      · exact (ringWrite_geom hw).2.2.1
      · exact (ringWrite_geom hw).2.2.1
  · simp at h
  · simp at h

/-- the bytes a log copies into the ring buffer -/
def logCopy : List Ev → Bytes
  | [] => []
  | .copy c :: es => c ++ logCopy es
  | _ :: es => logCopy es

def Ev.copied : Ev → Bytes
  | .copy c => c
  | _ => []

/-- the ring-buffer invariant of an initialised encoder: `inp` = the bytes copied in so far -/
structure RingInv (s : St) (inp : Bytes) : Prop where
  init : s.isInitialized = true
  ok : RingOK s.ring inp
  tail : s.ring.tailSize = s.blockSize

theorem ringInv_of_eq {s s' : St} {inp : Bytes} (h : RingInv s inp) (h1 : s'.ring = s.ring) (h2 : s'.params.lgblock = s.params.lgblock)
    (h3 : s'.isInitialized = s.isInitialized) : RingInv s' inp := by
  refine ⟨h3.trans h.init, by rw [h1]; exact h.ok, ?_⟩
  rw [h1, blockSize_congr h2]; exact h.tail


theorem rbs_le_block (s : St) : remainingInputBlockSize s ≤ s.blockSize := by
  unfold remainingInputBlockSize
  simp only
  split <;> omega

set_option maxRecDepth 4000 in
/-- **the ring-buffer invariant through every atomic step**: only `copy` touches the ring buffer,
and it appends its chunk -/
theorem step_ring {o : Oracle} {op : Nat} {s s' : St} {io io' : Io} {e : Ev} {inp : Bytes} (hR : RingInv s inp)
    (h : Step o op (s, io) e (s', io')) : RingInv s' (inp ++ e.copied) := by
  cases h with
  | init hf =>
    have := hR.init
    rw [isFreshInit hf] at this
    cases this
  | copy hI hw hop hnf hst hrm hc hn h =>
    have hlen : (io.input.take (copyN s io)).length ≤ s.ring.tailSize := by
      rw [List.length_take, hR.tail]
      have := rbs_le_block s
      unfold copyN
      omega
    obtain ⟨r1, _⟩ := copy_ring_ok hI.init hR.ok hlen h
    obtain ⟨c1, _, _, c4, _⟩ := copy_fields hI.init h
    refine ⟨c4.trans hI.init, r1, ?_⟩
    rw [copy_ring_geom hI.init h, hR.tail]
    exact (blockSize_congr (s := s) (s' := s') (by rw [c1])).symm
  | pad hI hc hz h =>
    obtain ⟨f, _⟩ := pad_frame h
    rw [St.frame_eq_iff] at f
    simp only [Ev.copied, List.append_nil]
    exact ringInv_of_eq hR f.2.2.2.2.2.1 (by rw [f.1]) f.2.2.2.2.1
  | push hI hc h =>
    obtain ⟨f, _⟩ := push_frame h
    rw [St.frame_eq_iff] at f
    simp only [Ev.copied, List.append_nil]
    exact ringInv_of_eq hR f.2.2.2.2.2.1 (by rw [f.1]) f.2.2.2.2.1
  | encSlow hI hop hnf hrm hnc hnp hpend hst hgo h =>
    rename_i s2 req
    obtain ⟨f, _⟩ := encodeData_frame h
    rw [St.frame_eq_iff] at f
    obtain ⟨k1, _, _, k4, _⟩ := markAfterEncode_fields s2 (slowIl op io) (slowFf op io)
    obtain ⟨u1, _, _, _, _, _, _, u8, _⟩ := updateSizeHint_fields s io.availIn
    have hur : (updateSizeHint s io.availIn).ring = s.ring := by
      by_cases hh : s.params.sizeHint = 0 <;> simp [updateSizeHint, hh]
    have hmr : (markAfterEncode s2 (slowIl op io) (slowFf op io)).ring = s2.ring := by
      unfold markAfterEncode; cases slowIl op io <;> cases slowFf op io <;> rfl
    have : (encEv o (updateSizeHint s io.availIn) 0 (slowIl op io) (slowFf op io)).copied = [] := rfl
    rw [this, List.append_nil]
    exact ringInv_of_eq hR (hmr.trans (f.2.2.2.2.2.1.trans hur)) (by rw [k1, f.1, u1]) (k4.trans (f.2.2.2.2.1.trans u8))
  | cfc hI hop hrm hnp hfl =>
    obtain ⟨c1, _, _, c4, _⟩ := checkFlushComplete_frame s
    have hcr : (checkFlushComplete s).ring = s.ring := by unfold checkFlushComplete; split <;> rfl
    simp only [Ev.copied, List.append_nil]
    exact ringInv_of_eq hR hcr (by rw [c1]) c4
  | fastFlush hI hfm hrm hnp hpend hst hop1 hz =>
    simp only [Ev.copied, List.append_nil]
    exact ringInv_of_eq hR rfl rfl rfl
  | fastBlock hI hfm hop hrm hnp hpend hst hgo hnf hcap hin hfit =>
    obtain ⟨e1, _, _, e4, _⟩ := fastEncode_fields (fastS1 s io) io (o s.nEnc (fastReq op s io)) (fastReq op s io) (fastBs s io) (fastInplace s io)
        (fastReq op s io).isLast (fastReq op s io).forceFlush
    have hfr : (fastRes o op s io).1.ring = s.ring := by
      unfold fastRes fastEncode fastS1 fastStorage growStorage
      split <;> split <;> (try split) <;> rfl
    simp only [Ev.copied, List.append_nil]
    refine ringInv_of_eq (s' := (fastRes o op s io).1) hR hfr ?_ ?_
    · unfold fastRes; rw [e1]; unfold fastS1; rw [fastStorage_params]
    · unfold fastRes; rw [e4]; unfold fastS1; rw [fastStorage_init]
  | mdEnter hI hop hentry =>
    obtain ⟨u1, _, _, _, _, _, _, u8, _⟩ := updateSizeHint_fields s 0
    have hur : (mdEnter (updateSizeHint s 0) io.availIn).ring = s.ring := by
      unfold mdEnter
      by_cases hh : s.params.sizeHint = 0 <;> split <;> simp [updateSizeHint, hh]
    simp only [Ev.copied, List.append_nil]
    exact ringInv_of_eq hR hur (by rw [mdEnter_params, u1]) ((mdEnter_init _ _).trans u8)
  | mdEnc hM hop hpend hne h =>
    obtain ⟨f, _⟩ := encodeData_frame h
    rw [St.frame_eq_iff] at f
    have : (encEv o s 1 false true).copied = [] := rfl
    rw [this, List.append_nil]
    exact ringInv_of_eq hR f.2.2.2.2.2.1 (by rw [f.1]) f.2.2.2.2.1
  | mdHead hM hop hpend hlf hst hok => simp only [Ev.copied, List.append_nil]; exact ringInv_of_eq hR rfl rfl rfl
  | mdDone hM hop hpend hlf hst hz => simp only [Ev.copied, List.append_nil]; exact ringInv_of_eq hR rfl rfl rfl
  | mdOut hM hop hpend hlf hst hnz hao hle => simp only [Ev.copied, List.append_nil]; exact ringInv_of_eq hR rfl rfl rfl
  | mdTiny hM hop hpend hlf hst hnz hao hle => simp only [Ev.copied, List.append_nil]; exact ringInv_of_eq hR rfl rfl rfl

theorem logCopy_cons (e : Ev) (es : List Ev) : logCopy (e :: es) = e.copied ++ logCopy es := by
  cases e <;> simp [logCopy, Ev.copied]

theorem steps_ring {o : Oracle} {op : Nat} {c c' : St × Io} {evs : List Ev} (h : Steps o op c evs c') :
    ∀ {inp : Bytes}, RingInv c.1 inp → RingInv c'.1 (inp ++ logCopy evs) := by
  induction h with
  | nil c => intro inp hR; simpa [logCopy] using hR
  | @cons c c1 c2 e es hs _ ih =>
    intro inp hR
    obtain ⟨s, io⟩ := c
    obtain ⟨s1, io1⟩ := c1
    have := ih (step_ring hR hs)
    rw [logCopy_cons, ← List.append_assoc]
    exact this

end BV.Stream
