import BV.Lemmas.StreamRunStep
/-
Positions per atomic step: what every event does to (`input_pos_`, `last_processed_pos_`,
`last_flush_pos_`, invocation counter) — as a FUNCTION of the event (`Ev.step`), together with the
side condition tying the event's request to the positions before it (`Ev.ok`).  Also: which
requests and how much input a step accounts for.
-/
namespace BV.Stream
open BV.Bits

structure Pos where
  ip : Nat
  lp : Nat
  lf : Nat
  k : Nat
deriving Repr, DecidableEq

def St.pos (s : St) : Pos := ⟨s.inputPos, s.lastProcessedPos, s.lastFlushPos, s.nEnc⟩

/-- what an event does to the positions -/
def Ev.step : Ev → Pos → Pos
  | .copy c, p => { p with ip := p.ip + c.length }
  | .enc _ _ pre _ taken, p => { p with lp := p.ip, lf := if taken then p.ip else p.lf + pre, k := p.k + 1 }
  | .fast _ _, p => { p with k := p.k + 1 }
  | _, p => p

/-- the event's request is the one the positions dictate -/
def Ev.ok : Ev → Pos → Prop
  | .enc k req pre _ _, p => k = p.k ∧ req.lo = p.lp ∧ req.hi = p.ip ∧ req.lf = p.lf ∧ req.site ≠ 2 ∧ p.lf + pre ≤ p.ip ∧ p.lp ≤ p.ip
  | .fast k req, p => k = p.k ∧ req.hi = p.ip ∧ req.site = 2
  | _, _ => True

/-- input bytes an event consumes from the caller's buffer -/
def Ev.used : Ev → Nat
  | .copy c => c.length
  | .fast _ r => r.lo
  | .mdBody b => b.length
  | _ => 0

theorem encMid_pre {o : Oracle} {s s' : St} {site : Nat} {il ff : Bool} {req : Req} (hI : Inv s)
    (h : encodeData o s site il ff = .ok (s', true, req)) :
    (encMid s il).1.lastFlushPos = s.lastFlushPos + ((encMid s il).1.lastFlushPos - s.lastFlushPos)
    ∧ s.lastFlushPos + ((encMid s il).1.lastFlushPos - s.lastFlushPos) ≤ s.inputPos
    ∧ (encMid s il).1.inputPos = s.inputPos := by
  obtain ⟨_, _, hdr, hM, _⟩ := encodeData_spec h
  have hf := hM.frame
  rw [St.frame_eq_iff] at hf
  have hu := hI.unprocessed
  have hb : s.unprocessed % two32 ≤ s.unprocessed := Nat.mod_le _ _
  have h1 := hI.fl_le
  have h2 := hI.lp_le
  have hpos := hM.pos
  generalize s.unprocessed % two32 = m at hb hpos
  rcases hpos with ⟨p1, _⟩ | ⟨p1, _⟩
  · refine ⟨by omega, by omega, hf.2.1⟩
  · have : min 2 m ≤ m := Nat.min_le_right _ _
    refine ⟨by omega, by omega, hf.2.1⟩

/-- positions after a successful `encode_data`, as a function of its event -/
theorem encodeData_posEv {o : Oracle} {s s' : St} {site : Nat} {il ff : Bool} {req : Req} (hI : Inv s) (hsite : site ≠ 2)
    (h : encodeData o s site il ff = .ok (s', true, req)) :
    s'.pos = (encEv o s site il ff).step s.pos ∧ (encEv o s site il ff).ok s.pos := by
  obtain ⟨hreq, _, hdr, hM, hpay⟩ := encodeData_spec h
  obtain ⟨q1, q2, q3⟩ := encMid_pre hI h
  have hlp := encodeData_lp h hI.fl_le hI.lp_le hI.ip_lt
  obtain ⟨f, _, _, hn, _⟩ := encodeData_frame h
  rw [St.frame_eq_iff] at f
  obtain ⟨_, _, hcase⟩ := encPayload_spec hpay
  have hlf : s'.lastFlushPos = if encTakes (encMid s il).1 (o s.nEnc (reqOf s site il ff)) il ff then s.inputPos
      else s.lastFlushPos + ((encMid s il).1.lastFlushPos - s.lastFlushPos) := by
    rcases hcase with ⟨ht, _, _, _, c5, _⟩ | ⟨ht, _, _, _, c5, _⟩
    · rw [ht]; simp only [Bool.false_eq_true, ↓reduceIte]; rw [c5]; exact q1
    · rw [ht]; simp only [↓reduceIte]; rw [c5, q3]
  refine ⟨?_, ?_⟩
  · unfold St.pos encEv Ev.step
    simp only [Pos.mk.injEq]
    exact ⟨f.2.1, hlp, hlf, hn⟩
  · unfold encEv Ev.ok St.pos
    exact ⟨rfl, rfl, rfl, rfl, hsite, q2, hI.lp_le⟩

theorem updateSizeHint_pos (s : St) (n : Nat) : (updateSizeHint s n).pos = s.pos := by
  unfold updateSizeHint St.pos
  split <;> rfl

theorem markAfterEncode_pos (s : St) (a b : Bool) : (markAfterEncode s a b).pos = s.pos := by
  unfold markAfterEncode St.pos
  cases a <;> cases b <;> rfl

theorem checkFlushComplete_pos (s : St) : (checkFlushComplete s).pos = s.pos := by
  unfold checkFlushComplete St.pos
  split <;> rfl

theorem mdEnter_pos (s : St) (n : Nat) : (mdEnter s n).pos = s.pos := by
  unfold mdEnter St.pos
  split <;> rfl

theorem fastStorage_pos (s : St) (ip : Bool) (n : Nat) : (fastStorage s ip n).pos = s.pos := by
  unfold fastStorage growStorage St.pos
  split
  · rfl
  · split <;> rfl

theorem fastEncode_io (s : St) (io : Io) (ans : Ans) (req : Req) (bs : Nat) (ip il ff : Bool) :
    (fastEncode s io ans req bs ip il ff).1.pos = { s.pos with k := s.pos.k + 1 }
    ∧ (fastEncode s io ans req bs ip il ff).2.reqs = io.reqs ++ [req]
    ∧ (fastEncode s io ans req bs ip il ff).2.input = io.input.drop bs
    ∧ (fastEncode s io ans req bs ip il ff).2.availIn = io.availIn - bs := by
  unfold fastEncode St.pos
  cases ip <;> simp

set_option maxRecDepth 4000 in
/-- **positions, requests and input consumption of one atomic step** -/
theorem step_pos {o : Oracle} {op : Nat} {s s' : St} {io io' : Io} {e : Ev}
    (h : Step o op (s, io) e (s', io')) :
    s'.pos = e.step s.pos ∧ e.ok s.pos ∧ io'.reqs = io.reqs ++ e.req.toList
    ∧ io'.input = io.input.drop e.used ∧ e.used ≤ io.input.length := by
  cases h with
  | init hf =>
    obtain ⟨p, rfl⟩ := hf
    refine ⟨?_, trivial, by simp [Ev.req], by simp [Ev.used], by simp [Ev.used]⟩
    simp [St.pos, ensureInitialized, St.new, Ev.step]
  | copy hI hw hop hnf hst hrm hc hn h =>
    have hlen : (io.input.take (copyN s io)).length = copyN s io := by rw [List.length_take]; omega
    have hnfl : s.streamState ≠ .flushRequested := by rw [hst]; simp
    obtain ⟨_, i2, _, _⟩ := inv_copy hI hnfl (by rw [hlen]; exact Nat.min_le_left _ _)
      (by rw [hlen]; exact Nat.min_le_right _ _) hw h
    obtain ⟨_, _, _, _, _, c6, c7, _, _, _, _, _, _, _, _, c16⟩ := copy_fields hI.init h
    refine ⟨?_, trivial, by simp [Ev.req], by simp [Ev.used, hlen], by simp [Ev.used, hlen]; omega⟩
    unfold St.pos Ev.step
    simp only [Pos.mk.injEq]
    exact ⟨i2, c7, c6, c16⟩
  | pad hI hc hz h =>
    obtain ⟨f, a1, a2, _, _, _, _, _, a9⟩ := pad_frame h
    rw [St.frame_eq_iff] at f
    refine ⟨?_, trivial, by simp [Ev.req], by simp [Ev.used], by simp [Ev.used]⟩
    unfold St.pos Ev.step
    simp only [Pos.mk.injEq]
    exact ⟨f.2.1, a2, a1, a9⟩
  | push hI hc h =>
    obtain ⟨f, a1, a2, _, _, _, a7, a8, _, a10⟩ := push_frame h
    rw [St.frame_eq_iff] at f
    refine ⟨?_, trivial, by simp [Ev.req, a10], by simp [Ev.used, a8], by simp [Ev.used]⟩
    unfold St.pos Ev.step
    simp only [Pos.mk.injEq]
    exact ⟨f.2.1, a2, a1, a7⟩
  | encSlow hI hop hnf hrm hnc hnp hpend hst hgo h =>
    have hI2 := inv_updateSizeHint hI io.availIn
    obtain ⟨p1, p2⟩ := encodeData_posEv hI2 (by omega : (0 : Nat) ≠ 2) h
    rw [updateSizeHint_pos] at p1 p2
    have hreq := (encodeData_frame h).2.1
    refine ⟨by rw [markAfterEncode_pos]; exact p1, p2, ?_, by simp [Ev.used, encEv], by simp [Ev.used, encEv]⟩
    simp [encEv, Ev.req, hreq]
  | cfc hI hop hrm hnp hfl =>
    refine ⟨by rw [checkFlushComplete_pos]; rfl, trivial, by simp [Ev.req], by simp [Ev.used], by simp [Ev.used]⟩
  | fastFlush hI hfm hrm hnp hpend hst hop1 hz =>
    exact ⟨rfl, trivial, by simp [Ev.req], by simp [Ev.used], by simp [Ev.used]⟩
  | fastBlock hI hfm hop hrm hnp hpend hst hgo hnf hcap hin hfit =>
    obtain ⟨e1, e2, e3, _⟩ := fastEncode_io (fastS1 s io) io (o s.nEnc (fastReq op s io)) (fastReq op s io) (fastBs s io) (fastInplace s io)
      (fastReq op s io).isLast (fastReq op s io).forceFlush
    have hs1 : (fastS1 s io).pos = s.pos := fastStorage_pos _ _ _
    rw [hs1] at e1
    refine ⟨e1, ⟨rfl, rfl, rfl⟩, by simp [Ev.req]; exact e2, ?_, ?_⟩
    · simp only [Ev.used]; exact e3
    · simp only [Ev.used]
      have : (fastReq op s io).lo = fastBs s io := rfl
      rw [this]; omega
  | mdEnter hI hop hentry =>
    refine ⟨by rw [mdEnter_pos, updateSizeHint_pos]; rfl, trivial, by simp [Ev.req], by simp [Ev.used], by simp [Ev.used]⟩
  | mdEnc hM hop hpend hne h =>
    obtain ⟨p1, p2⟩ := encodeData_posEv hM.inv (by omega : (1 : Nat) ≠ 2) h
    have hreq := (encodeData_frame h).2.1
    refine ⟨p1, p2, ?_, by simp [Ev.used, encEv], by simp [Ev.used, encEv]⟩
    simp [encEv, Ev.req, hreq]
  | mdHead hM hop hpend hlf hst hok =>
    exact ⟨rfl, trivial, by simp [Ev.req], by simp [Ev.used], by simp [Ev.used]⟩
  | mdDone hM hop hpend hlf hst hz =>
    exact ⟨rfl, trivial, by simp [Ev.req], by simp [Ev.used], by simp [Ev.used]⟩
  | mdOut hM hop hpend hlf hst hnz hao hle =>
    have hlen : (io.input.take (mdOutN s io)).length = mdOutN s io := by rw [List.length_take]; omega
    refine ⟨rfl, trivial, by simp [Ev.req, mdOutIo], ?_, by simp [Ev.used, hlen]; omega⟩
    simp only [Ev.used, hlen]; rfl
  | mdTiny hM hop hpend hlf hst hnz hao hle =>
    have hlen : (io.input.take (mdTinyN s)).length = mdTinyN s := by rw [List.length_take]; omega
    refine ⟨rfl, trivial, by simp [Ev.req, mdTinyIo], ?_, by simp [Ev.used, hlen]; omega⟩
    simp only [Ev.used, hlen]; rfl

theorem fastStorage_init (s : St) (ip : Bool) (n : Nat) : (fastStorage s ip n).isInitialized = s.isInitialized := by
  unfold fastStorage growStorage
  split
  · rfl
  · split <;> rfl

theorem mdEnter_init (s : St) (n : Nat) : (mdEnter s n).isInitialized = s.isInitialized := by
  unfold mdEnter
  split <;> rfl

set_option maxRecDepth 4000 in
/-- only the `init` atom emits the stream header, and every atom leaves an initialised encoder -/
theorem step_initialized {o : Oracle} {op : Nat} {s s' : St} {io io' : Io} {e : Ev}
    (h : Step o op (s, io) e (s', io')) :
    s'.isInitialized = true ∧ (∀ b, e = .window b → s.isInitialized = false) := by
  cases h with
  | init hf =>
    refine ⟨?_, fun _ _ => (isFreshInit hf)⟩
    obtain ⟨p, rfl⟩ := hf
    simp [ensureInitialized, St.new]
  | copy hI hw hop hnf hst hrm hc hn h =>
    obtain ⟨_, _, _, c4, _⟩ := copy_fields hI.init h
    exact ⟨c4.trans hI.init, fun _ hh => by cases hh⟩
  | pad hI hc hz h =>
    obtain ⟨f, _⟩ := pad_frame h
    rw [St.frame_eq_iff] at f
    exact ⟨f.2.2.2.2.1.trans hI.init, fun _ hh => by cases hh⟩
  | push hI hc h =>
    obtain ⟨f, _⟩ := push_frame h
    rw [St.frame_eq_iff] at f
    exact ⟨f.2.2.2.2.1.trans hI.init, fun _ hh => by cases hh⟩
  | encSlow hI hop hnf hrm hnc hnp hpend hst hgo h =>
    obtain ⟨f, _⟩ := encodeData_frame h
    rw [St.frame_eq_iff] at f
    obtain ⟨_, _, _, k4, _⟩ := markAfterEncode_fields _ (slowIl op io) (slowFf op io)
    have u8 := (updateSizeHint_fields s io.availIn).2.2.2.2.2.2.2.1
    refine ⟨k4.trans (f.2.2.2.2.1.trans (u8.trans hI.init)), ?_⟩
    intro b hh
    unfold encEv at hh
    cases hh
  | cfc hI hop hrm hnp hfl =>
    obtain ⟨_, _, _, c4, _⟩ := checkFlushComplete_frame s
    exact ⟨c4.trans hI.init, fun _ hh => by cases hh⟩
  | fastFlush hI hfm hrm hnp hpend hst hop1 hz => exact ⟨hI.init, fun _ hh => by cases hh⟩
  | fastBlock hI hfm hop hrm hnp hpend hst hgo hnf hcap hin hfit =>
    have e4 := (fastEncode_fields (fastS1 s io) io (o s.nEnc (fastReq op s io)) (fastReq op s io) (fastBs s io) (fastInplace s io)
        (fastReq op s io).isLast (fastReq op s io).forceFlush).2.2.2.1
    refine ⟨?_, fun _ hh => by cases hh⟩
    show (fastRes o op s io).1.isInitialized = true
    unfold fastRes
    rw [e4]
    unfold fastS1
    rw [fastStorage_init]
    exact hI.init
  | mdEnter hI hop hentry =>
    have u8 := (updateSizeHint_fields s 0).2.2.2.2.2.2.2.1
    exact ⟨(mdEnter_init _ _).trans (u8.trans hI.init), fun _ hh => by cases hh⟩
  | mdEnc hM hop hpend hne h =>
    obtain ⟨f, _⟩ := encodeData_frame h
    rw [St.frame_eq_iff] at f
    refine ⟨f.2.2.2.2.1.trans hM.inv.init, ?_⟩
    intro b hh
    unfold encEv at hh
    cases hh
  | mdHead hM hop hpend hlf hst hok => exact ⟨hM.inv.init, fun _ hh => by cases hh⟩
  | mdDone hM hop hpend hlf hst hz => exact ⟨hM.inv.init, fun _ hh => by cases hh⟩
  | mdOut hM hop hpend hlf hst hnz hao hle => exact ⟨hM.inv.init, fun _ hh => by cases hh⟩
  | mdTiny hM hop hpend hlf hst hnz hao hle => exact ⟨hM.inv.init, fun _ hh => by cases hh⟩

end BV.Stream
