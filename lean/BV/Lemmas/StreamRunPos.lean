import BV.Lemmas.StreamRunStep
/-
Positions per atomic step: what every event does to (`input_pos_`, `last_processed_pos_`,
`last_flush_pos_`, invocation counter) — as a FUNCTION of the event (`Ev.step`), together with the
side condition tying the event's request to the positions before it (`Ev.ok`).  Also: which
requests and how much input a step accounts for.
-/
namespace BV.Stream
open BV.Bits

structure Pos where
  ip : Nat
  lp : Nat
  lf : Nat
  k : Nat
deriving Repr, DecidableEq

def St.pos (s : St) : Pos := ⟨s.inputPos, s.lastProcessedPos, s.lastFlushPos, s.nEnc⟩

/-- what an event does to the positions -/
def Ev.step : Ev → Pos → Pos
  | .copy c, p => { p with ip := p.ip + c.length }
  | .enc _ _ pre _ taken, p => { p with lp := p.ip, lf := if taken then p.ip else p.lf + pre, k := p.k + 1 }
  | .fast _ _, p => { p with k := p.k + 1 }
  | _, p => p

/-- the event's request is the one the positions dictate -/
def Ev.ok : Ev → Pos → Prop
  | .enc k req pre _ _, p => k = p.k ∧ req.lo = p.lp ∧ req.hi = p.ip ∧ req.lf = p.lf ∧ req.site ≠ 2 ∧ p.lf + pre ≤ p.ip ∧ p.lp ≤ p.ip
  | .fast k req, p => k = p.k ∧ req.hi = p.ip ∧ req.site = 2
  | _, _ => True

/-- input bytes an event consumes from the caller's buffer -/
def Ev.used : Ev → Nat
  | .copy c => c.length
  | .fast _ r => r.lo
  | .mdBody b => b.length
  | _ => 0

theorem encMid_pre {o : Oracle} {s s' : St} {site : Nat} {il ff : Bool} {req : Req} (hI : Inv s)
    (h : encodeData o s site il ff = .ok (s', true, req)) :
    (encMid s il).1.lastFlushPos = s.lastFlushPos + ((encMid s il).1.lastFlushPos - s.lastFlushPos)
    ∧ s.lastFlushPos + ((encMid s il).1.lastFlushPos - s.lastFlushPos) ≤ s.inputPos
    ∧ (encMid s il).1.inputPos = s.inputPos := by
  obtain ⟨_, _, hdr, hM, _⟩ := encodeData_spec h
  have hf := hM.frame
  rw [St.frame_eq_iff] at hf
  have hu := hI.unprocessed
  have hb : s.unprocessed % two32 ≤ s.unprocessed := Nat.mod_le _ _
  have h1 := hI.fl_le
  have h2 := hI.lp_le
  have hpos := hM.pos
  generalize s.unprocessed % two32 = m at hb hpos
  rcases hpos with ⟨p1, _⟩ | ⟨p1, _⟩
  · refine ⟨by omega, by omega, hf.2.1⟩
  · have : min 2 m ≤ m := Nat.min_le_right _ _
    refine ⟨by omega, by omega, hf.2.1⟩

/-- positions after a successful `encode_data`, as a function of its event -/
theorem encodeData_posEv {o : Oracle} {s s' : St} {site : Nat} {il ff : Bool} {req : Req} (hI : Inv s) (hsite : site ≠ 2)
    (h : encodeData o s site il ff = .ok (s', true, req)) :
    s'.pos = (encEv o s site il ff).step s.pos ∧ (encEv o s site il ff).ok s.pos := by
  obtain ⟨hreq, _, hdr, hM, hpay⟩ := encodeData_spec h
  obtain ⟨q1, q2, q3⟩ := encMid_pre hI h
  have hlp := encodeData_lp h hI.fl_le hI.lp_le hI.ip_lt
  obtain ⟨f, _, _, hn, _⟩ := encodeData_frame h
  rw [St.frame_eq_iff] at f
  obtain ⟨_, _, hcase⟩ := encPayload_spec hpay
  have hlf : s'.lastFlushPos = if encTakes (encMid s il).1 (o s.nEnc (reqOf s site il ff)) il ff then s.inputPos
      else s.lastFlushPos + ((encMid s il).1.lastFlushPos - s.lastFlushPos) := by
    rcases hcase with ⟨ht, _, _, _, c5, _⟩ | ⟨ht, _, _, _, c5, _⟩
    · rw [ht]; simp only [Bool.false_eq_true, ↓reduceIte]; rw [c5]; exact q1
    · rw [ht]; simp only [↓reduceIte]; rw [c5, q3]
  refine ⟨?_, ?_⟩
  · unfold St.pos encEv Ev.step
    simp only [Pos.mk.injEq]
    exact ⟨f.2.1, hlp, hlf, hn⟩
  · unfold encEv Ev.ok St.pos
    simp only [reqOf]
    exact ⟨rfl, rfl, rfl, rfl, hsite, q2, hI.lp_le⟩

end BV.Stream
