/-
Helper lemmas for C07, part 5: result routing and exactly-once execution
(invariant `InvR`, on top of `Inv`).
-/
import BV.Lemmas.PoolReach

set_option linter.unusedSimpArgs false
set_option linter.unnecessarySimpa false
set_option linter.unusedVariables false

namespace BV.Lemmas.Pool
open BV.Gen BV.FixedQueue BV.Pool BV.Lemmas.FixedQueue

theorem forall_set {P : WPc → Prop} {ws : List WPc} (h : ∀ p, p ∈ ws → P p) (i : Nat) {p' : WPc}
    (hp' : P p') : ∀ p, p ∈ ws.set i p' → P p := by
  intro p hp
  rcases List.mem_or_eq_of_mem_set hp with h1 | h1
  · exact h p h1
  · subst h1; exact hp'

theorem forall_map_wake {P : WPc → Prop} {ws : List WPc} (h : ∀ p, p ∈ ws → P p)
    (hw : ∀ p, P p → P p.wake) : ∀ p, p ∈ ws.map WPc.wake → P p := by
  intro p hp
  obtain ⟨q, hq, rfl⟩ := List.mem_map.mp hp
  exact hw q (h q hq)

/-- the job a worker holds was spawned with exactly this (work id, index) pair -/
def okW (sp : List Job) : WPc → Prop
  | .atRun j => j ∈ sp
  | .atLockB r => Job.mk r.workId r.value ∈ sp
  | _ => True

theorem okW_wake {sp : List Job} (p : WPc) (h : okW sp p) : okW sp p.wake := by
  cases p <;> simpa [WPc.wake, okW] using h

theorem okW_mono {sp : List Job} (x : Job) (p : WPc) (h : okW sp p) : okW (sp ++ [x]) p := by
  cases p <;> simp only [okW] at h ⊢ <;> exact List.mem_append_left _ h

/-- the `index` arguments of the spawn ops of a program, in order -/
def spawnIdxs : List Op → List Nat
  | [] => []
  | .spawn i :: r => i :: spawnIdxs r
  | _ :: r => spawnIdxs r

structure InvR (p0 : List Op) (s : State) : Prop where
  routeJ : ∀ j, j ∈ s.jobs.items → j ∈ s.spawned
  routeW : ∀ p, p ∈ s.workers → okW s.spawned p
  routeR : ∀ r, r ∈ s.results.items → Job.mk r.workId r.value ∈ s.spawned
  routeH : ∀ t id v, (t, Ev.join id v) ∈ s.hist → Job.mk id v ∈ s.spawned
  /-- a job has been run once iff it is past `atRun`: at `atLockB`, in results, or joined -/
  runs : ∀ id, runCount id s.hist
      = wsum (hasIdB id) s.workers + cntR id s.results.items + (joinedIds s.hist).count id
  progIdx : spawnIdxs p0 = s.spawned.map Job.index ++ spawnIdxs s.prog

theorem invR_init (n : Nat) (p : List Op) : InvR p (init n p) := by
  refine ⟨?_, ?_, ?_, ?_, ?_, ?_⟩
  · intro j hj; simp [init, items_new] at hj
  · intro q hq
    simp only [init, List.mem_replicate] at hq
    rw [hq.2]; trivial
  · intro r hr; simp [init, items_new] at hr
  · intro t id v h; simp [init] at h
  · intro id; simp [init, items_new, runCount, wsum_replicate, hasIdB, cntR, joinedIds]
  · simp [init]

theorem invR_step {p0 : List Op} {s s' : State} {c : Choice} (I : Inv s) (R : InvR p0 s)
    (h : step s c = .ok s') : InvR p0 s' := by
  apply step_elim h
  · -- exitA
    intro i _ hw _ hs'
    have hB := fun id => wsum_set (hasIdB id) .exited hw
    simp only [hasIdB] at hB
    subst hs'
    refine ⟨R.routeJ, ?_, R.routeR, ?_, ?_, R.progIdx⟩
    · exact forall_set R.routeW i trivial
    · intro t id v hm; simp at hm; exact R.routeH t id v hm
    · intro id; simp; have := R.runs id; have := hB id; omega
  · -- pop
    intro i j jobs' _ hw _ hpop hs'
    obtain ⟨w', hit, hsz⟩ := pop_some_spec I.wfJ hpop
    have hB := fun id => wsum_set_wake (hasIdB id) (hasIdB_wake id) (.atRun j) hw
    simp only [hasIdB] at hB
    subst hs'
    refine ⟨?_, ?_, R.routeR, ?_, ?_, R.progIdx⟩
    · intro x hx; exact R.routeJ x (by rw [hit]; exact List.mem_cons_of_mem _ hx)
    · exact forall_set (forall_map_wake R.routeW okW_wake) i
        (R.routeJ j (by rw [hit]; exact List.mem_cons_self))
    · intro t id v hm; simp at hm; exact R.routeH t id v hm
    · intro id; simp; have := R.runs id; have := hB id; omega
  · -- exitS
    intro i jobs' _ hw _ hpop hsd hs'
    rw [I.noShutdown] at hsd; cases hsd
  · -- waitW
    intro i jobs' _ hw _ hpop _ hs'
    obtain ⟨rfl, _⟩ := pop_none_spec I.wfJ hpop
    have hB := fun id => wsum_set (hasIdB id) .waiting hw
    simp only [hasIdB] at hB
    subst hs'
    refine ⟨R.routeJ, ?_, R.routeR, ?_, ?_, R.progIdx⟩
    · exact forall_set R.routeW i trivial
    · intro t id v hm; simp at hm; exact R.routeH t id v hm
    · intro id; simp; have := R.runs id; have := hB id; omega
  · -- run
    intro i j _ hw hs'
    have hB := fun id => wsum_set (hasIdB id) (.atLockB ⟨j.workId, j.index⟩) hw
    simp only [hasIdB] at hB
    have hj : okW s.spawned (.atRun j) := R.routeW _ (List.mem_iff_getElem?.mpr ⟨i, hw⟩)
    subst hs'
    refine ⟨R.routeJ, ?_, R.routeR, ?_, ?_, R.progIdx⟩
    · exact forall_set R.routeW i hj
    · intro t id v hm; simp at hm; exact R.routeH t id v hm
    · intro id; simp; have := R.runs id; have := hB id; omega
  · -- publish
    intro i r results' _ hw hn hpush hs'
    have hB := fun id => wsum_set_wake (hasIdB id) (hasIdB_wake id) .atLockA hw
    simp only [hasIdB] at hB
    have hlt : s.results.size < MAX_THREADS := by
      have := I.total; have := I.bound; omega
    obtain ⟨q', e1, w', hit, hsz, _⟩ := push_spec I.wfR r hlt
    rw [hpush] at e1; cases e1
    have hr : okW s.spawned (.atLockB r) := R.routeW _ (List.mem_iff_getElem?.mpr ⟨i, hw⟩)
    subst hs'
    refine ⟨R.routeJ, ?_, ?_, ?_, ?_, R.progIdx⟩
    · exact forall_set (forall_map_wake R.routeW okW_wake) i trivial
    · intro x hx
      simp only [log_results, setW_results, notifyAll_results, hit, List.mem_append,
        List.mem_singleton] at hx
      rcases hx with hx | rfl
      · exact R.routeR x hx
      · exact hr
    · intro t id v hm; simp at hm; exact R.routeH t id v hm
    · intro id; simp [hit, cntR_append]; have := R.runs id; have := hB id; omega
  · -- wake
    intro i _ hw hs'
    have hB := fun id => wsum_set (hasIdB id) .atLockA hw
    simp only [hasIdB] at hB
    subst hs'
    refine ⟨R.routeJ, ?_, R.routeR, ?_, ?_, R.progIdx⟩
    · exact forall_set R.routeW i trivial
    · intro t id v hm; simp at hm; exact R.routeH t id v hm
    · intro id; simp; have := R.runs id; have := hB id; omega
  · -- spawn
    intro idx rest jobs' _ _ hp _ hpush hs'
    have hB := fun id => wsum_map_wake (hasIdB id) (hasIdB_wake id) s.workers
    have hlt' : s.jobs.size < MAX_THREADS := by
      have hc := I.contr
      rw [hp] at hc
      simp only [contractFrom, Bool.and_eq_true, decide_eq_true_eq] at hc
      have := I.total; omega
    obtain ⟨q', e1, w', hit, hsz, _⟩ := push_spec I.wfJ ⟨s.curWorkId, idx⟩ hlt'
    rw [hpush] at e1; cases e1
    have hpi := R.progIdx
    rw [hp] at hpi
    subst hs'
    refine ⟨?_, ?_, ?_, ?_, ?_, ?_⟩
    · intro x hx
      simp only [log_jobs, setSpc_jobs, notifyAll_jobs, hit, List.mem_append,
        List.mem_singleton] at hx
      simp only [log_spawned, setSpc_spawned, notifyAll_spawned, List.mem_append,
        List.mem_singleton]
      rcases hx with hx | rfl
      · exact .inl (R.routeJ x hx)
      · exact .inr rfl
    · exact forall_map_wake (fun p hp => okW_mono _ p (R.routeW p hp)) okW_wake
    · intro x hx; exact List.mem_append_left _ (R.routeR x hx)
    · intro t id v hm; simp at hm; exact List.mem_append_left _ (R.routeH t id v hm)
    · intro id; simp; have := R.runs id; have := hB id; omega
    · simpa [spawnIdxs] using hpi
  · -- spawnWait
    intro idx rest _ _ hp _ hs'
    subst hs'
    refine ⟨R.routeJ, R.routeW, R.routeR, ?_, ?_, R.progIdx⟩
    · intro t id v hm; simp at hm; exact R.routeH t id v hm
    · intro id; simpa using R.runs id
  · -- join
    intro n rest j r results' _ _ hp hsp hrm hs'
    rcases remove_spec I.wfR (matchId j.workId) with ⟨_, h2⟩ | ⟨k, x, q', h1, h2, _, h4, h5, h6, h7⟩
    · rw [hrm] at h2; cases h2
    rw [hrm] at h4; cases h4
    have hk : k < s.results.items.length := by
      rcases Nat.lt_or_ge k s.results.items.length with h | h
      · exact h
      · rw [List.getElem?_eq_none h] at h1; cases h1
    have hperm := removeAbs_perm s.results.items k hk
    rw [List.getElem?_eq_getElem hk] at h1
    cases h1
    rw [← h6] at hperm
    have hid : s.results.items[k].workId = j.workId := by simpa [matchId] using h2
    have hpi := R.progIdx
    rw [hp] at hpi
    subst hs'
    refine ⟨R.routeJ, R.routeW, ?_, ?_, ?_, ?_⟩
    · intro x hx
      exact R.routeR x (hperm.subset (List.mem_cons_of_mem _ hx))
    · intro t id v hm
      simp only [log_hist, List.mem_cons, Prod.mk.injEq, Ev.join.injEq] at hm
      rcases hm with ⟨_, rfl, rfl⟩ | hm
      · have := R.routeR _ (List.getElem_mem hk)
        rwa [hid] at this
      · exact R.routeH t id v hm
    · intro id
      have := R.runs id
      rw [← cntR_perm id hperm, cntR_cons, hid] at this
      simp [count_cons_nat]; omega
    · simpa [spawnIdxs] using hpi
  · -- joinWait
    intro n rest j results' _ _ hp hsp hrm hs'
    rcases remove_spec I.wfR (matchId j.workId) with ⟨_, h2⟩ | ⟨k, x, q', _, _, _, h4, _⟩
    · rw [hrm] at h2; cases h2
      subst hs'
      refine ⟨R.routeJ, R.routeW, R.routeR, ?_, ?_, R.progIdx⟩
      · intro t id v hm; simp at hm; exact R.routeH t id v hm
      · intro id; simpa using R.runs id
    · rw [hrm] at h4; cases h4
  · -- unwrap
    intro rest _ _ hp hs'
    have hpi := R.progIdx
    rw [hp] at hpi
    subst hs'
    refine ⟨R.routeJ, R.routeW, R.routeR, ?_, ?_, by simpa [spawnIdxs] using hpi⟩
    · intro t id v hm; simp at hm; exact R.routeH t id v hm
    · intro id; simpa using R.runs id
  · -- drop
    intro rest _ _ hp hs'
    have hB := fun id => wsum_map_wake (hasIdB id) (hasIdB_wake id) s.workers
    have hpi := R.progIdx
    rw [hp] at hpi
    rcases joinFrom_cases ({ s with immediateShutdown := true }.notifyAll) 1 rest true
      (Nat.le_refl _) with ⟨t, _, _, _, _, _, e⟩ | ⟨_, e⟩
    · rw [e] at hs'; subst hs'
      refine ⟨R.routeJ, forall_map_wake R.routeW okW_wake, R.routeR, ?_, ?_, ?_⟩
      · intro t id v hm; simp at hm; exact R.routeH t id v hm
      · intro id; simp; have := R.runs id; have := hB id; omega
      · simpa [hp, spawnIdxs] using hpi
    · rw [e] at hs'; subst hs'
      refine ⟨R.routeJ, forall_map_wake R.routeW okW_wake, R.routeR, ?_, ?_, ?_⟩
      · intro t id v hm; simp at hm; exact R.routeH t id v hm
      · intro id; simp; have := R.runs id; have := hB id; omega
      · simpa [spawnIdxs] using hpi
  · -- joinW
    intro t rest _ _ hp _ hs'
    have hpi := R.progIdx
    rw [hp] at hpi
    rcases joinFrom_cases s (t + 1) rest false (by omega) with ⟨t', _, _, _, _, _, e⟩ | ⟨_, e⟩
    · rw [e] at hs'; subst hs'
      refine ⟨R.routeJ, R.routeW, R.routeR, ?_, ?_, ?_⟩
      · intro t id v hm; simp at hm; exact R.routeH t id v hm
      · intro id; simpa using R.runs id
      · simpa [hp, spawnIdxs] using hpi
    · rw [e] at hs'; subst hs'
      refine ⟨R.routeJ, R.routeW, R.routeR, ?_, ?_, ?_⟩
      · intro t id v hm; simp at hm; exact R.routeH t id v hm
      · intro id; simpa using R.runs id
      · simpa [spawnIdxs] using hpi
  · -- spurS
    intro _ _ hs'
    subst hs'
    refine ⟨R.routeJ, R.routeW, R.routeR, ?_, ?_, R.progIdx⟩
    · intro t id v hm; simp at hm; exact R.routeH t id v hm
    · intro id; simpa using R.runs id
  · -- spurW
    intro tid _ _ hw hs'
    have hB := fun id => wsum_set (hasIdB id) .woken hw
    simp only [hasIdB] at hB
    subst hs'
    refine ⟨R.routeJ, ?_, R.routeR, ?_, ?_, R.progIdx⟩
    · exact forall_set R.routeW _ trivial
    · intro t id v hm; simp at hm; exact R.routeH t id v hm
    · intro id; simp; have := R.runs id; have := hB id; omega

theorem invR_reachable {n : Nat} {p : List Op} (hc : contract p = true) {s : State}
    (hr : Reachable n p s) : InvR p s := by
  induction hr with
  | init => exact invR_init n p
  | step hr' hs ih => exact invR_step (inv_reachable hc hr') ih hs

/-! ### consequences -/

theorem hasIdB_le_hasId (id : Nat) (p : WPc) : hasIdB id p ≤ hasId id p := by
  cases p <;> simp [hasIdB, hasId]

/-- at most one execution of each job; exactly one for a joined job -/
theorem run_once_of_inv {p0 : List Op} {s : State} (I : Inv s) (R : InvR p0 s) (id : Nat) :
    runCount id s.hist ≤ 1 ∧ (id ∈ joinedIds s.hist → runCount id s.hist = 1) := by
  have h1 := R.runs id
  have h2 := I.part id
  have h3 := wsum_le (hasIdB id) (hasId id) (hasIdB_le_hasId id) s.workers
  have h4 := below_le id s.curWorkId
  refine ⟨by omega, fun hm => ?_⟩
  have : 0 < (joinedIds s.hist).count id := List.count_pos_iff.mpr hm
  omega

/-- a pair (id, v) recorded in `spawned` sits at position `id` -/
theorem spawned_at {s : State} (I : Inv s) {id v : Nat} (h : Job.mk id v ∈ s.spawned) :
    s.spawned[id]? = some ⟨id, v⟩ := by
  obtain ⟨k, hk, hkv⟩ := List.mem_iff_getElem.mp h
  have h1 : (s.spawned.map Job.workId)[k]? = some id := by
    simp [List.getElem?_eq_getElem hk, hkv]
  rw [I.spawnedIds] at h1
  have hk' : k < s.curWorkId := by
    have := congrArg List.length I.spawnedIds
    simp at this; omega
  rw [List.getElem?_range hk'] at h1
  cases h1
  rw [List.getElem?_eq_getElem hk, hkv]

theorem join_value_of_inv {p0 : List Op} {s : State} (I : Inv s) (R : InvR p0 s) {t id v : Nat}
    (h : (t, Ev.join id v) ∈ s.hist) : (spawnIdxs p0)[id]? = some v := by
  have h1 := spawned_at I (R.routeH t id v h)
  have hlt : id < s.spawned.length := by
    rcases Nat.lt_or_ge id s.spawned.length with h | h
    · exact h
    · rw [List.getElem?_eq_none h] at h1; cases h1
  rw [R.progIdx, List.getElem?_append_left (by simpa using hlt)]
  simp [h1]

end BV.Lemmas.Pool
