/-
Helper definitions for C07, part 1b: operation sequences on `FixedQueue` and their
abstract (list) specification.
-/
import BV.Lemmas.PoolFixedQueue

namespace BV.Lemmas.FixedQueue
open BV.Gen BV.FixedQueue

variable {α : Type}

/-- the public mutating operations of `FixedQueue` -/
inductive QOp (α : Type) where
  | push (x : α)
  | pop
  | remove (f : Option α → Bool)

/-- what an operation returned -/
inductive QOut (α : Type) where
  | pushed (ok : Bool)          -- `Ok(())` / `Err(())`
  | got (r : Option α)          -- result of `pop` / `remove`

/-- run an operation sequence on the model; `none` = `remove`'s assertion fired -/
def runQ (q : FixedQueue α) : List (QOp α) → Option (List (QOut α) × FixedQueue α)
  | [] => some ([], q)
  | .push x :: ops =>
    match q.push x with
    | some q' => (runQ q' ops).map fun (o, r) => (.pushed true :: o, r)
    | none => (runQ q ops).map fun (o, r) => (.pushed false :: o, r)
  | .pop :: ops => (runQ q.pop.2 ops).map fun (o, r) => (.got q.pop.1 :: o, r)
  | .remove f :: ops =>
    match q.remove f with
    | some (x, q') => (runQ q' ops).map fun (o, r) => (.got x :: o, r)
    | none => none

/-- position and value of the first element satisfying `p` -/
def firstMatch (p : α → Bool) : List α → Option (Nat × α)
  | [] => none
  | a :: t => if p a then some (0, a) else (firstMatch p t).map fun (k, x) => (k + 1, x)

theorem firstMatch_none (p : α → Bool) (l : List α) (h : ∀ x, x ∈ l → p x = false) :
    firstMatch p l = none := by
  induction l with
  | nil => rfl
  | cons a t ih =>
    simp [firstMatch, h a List.mem_cons_self, ih (fun x hx => h x (List.mem_cons_of_mem _ hx))]

theorem firstMatch_some (p : α → Bool) (l : List α) (k : Nat) (x : α) (h1 : l[k]? = some x)
    (h2 : p x = true) (h3 : ∀ i y, i < k → l[i]? = some y → p y = false) :
    firstMatch p l = some (k, x) := by
  induction l generalizing k with
  | nil => simp at h1
  | cons a t ih =>
    cases k with
    | zero =>
      simp only [List.getElem?_cons_zero, Option.some.injEq] at h1
      subst h1
      simp [firstMatch, h2]
    | succ k =>
      have ha : p a = false := h3 0 a (by omega) (by simp)
      simp only [List.getElem?_cons_succ] at h1
      have := ih k h1 (fun i y hi hy => h3 (i + 1) y (by omega) (by simpa using hy))
      simp [firstMatch, ha, this]

/-- the abstract queue: a list of at most `MAX_THREADS` items.  `push` appends unless
full, `pop` takes the head, `remove f` takes the first item matching `f` and moves the
head into its place (`removeAbs`). -/
def specStep (l : List α) : QOp α → QOut α × List α
  | .push x => if l.length = MAX_THREADS then (.pushed false, l) else (.pushed true, l ++ [x])
  | .pop => (.got l.head?, l.tail)
  | .remove f =>
    match firstMatch (fun x => f (some x)) l with
    | none => (.got none, l)
    | some (k, x) => (.got (some x), removeAbs l k)

def specRun (l : List α) : List (QOp α) → List (QOut α) × List α
  | [] => ([], l)
  | op :: ops => ((specStep l op).1 :: (specRun (specStep l op).2 ops).1, (specRun (specStep l op).2 ops).2)

theorem runQ_refines (q : FixedQueue α) (w : WF q) (ops : List (QOp α)) :
    ∃ q', runQ q ops = some ((specRun q.items ops).1, q') ∧ WF q' ∧
      q'.items = (specRun q.items ops).2 := by
  induction ops generalizing q with
  | nil => exact ⟨q, rfl, w, rfl⟩
  | cons op ops ih =>
    cases op with
    | push x =>
      by_cases hfull : q.size = MAX_THREADS
      · obtain ⟨q', h1, h2, h3⟩ := ih q w
        refine ⟨q', ?_, h2, ?_⟩
        · simp [runQ, push_full q x hfull, h1, specRun, specStep, w.length_items, hfull]
        · simp [specRun, specStep, w.length_items, hfull, h3]
      · have hlt : q.size < MAX_THREADS := by have := w.size_le; omega
        obtain ⟨q1, e1, w1, i1, _, _⟩ := push_spec w x hlt
        obtain ⟨q', h1, h2, h3⟩ := ih q1 w1
        refine ⟨q', ?_, h2, ?_⟩
        · simp [runQ, e1, h1, specRun, specStep, w.length_items, hfull, i1]
        · simp [specRun, specStep, w.length_items, hfull, h3, i1]
    | pop =>
      obtain ⟨p1, p2, p3, _⟩ := pop_spec w
      obtain ⟨q', h1, h2, h3⟩ := ih q.pop.2 p2
      refine ⟨q', ?_, h2, ?_⟩
      · simp [runQ, h1, specRun, specStep, p1, p3]
      · simp [specRun, specStep, h3, p3]
    | remove f =>
      rcases remove_spec w f with ⟨h1, h2⟩ | ⟨k, x, q1, h1, h2, h3, h4, h5, h6, _⟩
      · have fm := firstMatch_none (fun x => f (some x)) q.items h1
        obtain ⟨q', g1, g2, g3⟩ := ih q w
        refine ⟨q', ?_, g2, ?_⟩
        · simp [runQ, h2, g1, specRun, specStep, fm]
        · simp [specRun, specStep, fm, g3]
      · have fm := firstMatch_some (fun x => f (some x)) q.items k x h1 h2 h3
        obtain ⟨q', g1, g2, g3⟩ := ih q1 h5
        refine ⟨q', ?_, g2, ?_⟩
        · simp [runQ, h4, g1, specRun, specStep, fm, h6]
        · simp [specRun, specStep, fm, g3, h6]

end BV.Lemmas.FixedQueue
