/-
`faithful` (hypothesis of the quality ≥ 4 writer theorems, BV/Model/MetaBlockFull.lean: after every command the
decoder's output is `hist ++` a prefix of the meta-block) is a CONSEQUENCE of the final state alone (w-compose): the RFC
decoder only appends, and output length − cursor is constant, so if the run ends with `hist ++ mb` at cursor `|mb|`
every intermediate output is the prefix of `hist ++ mb` of length `|hist| + cursor`.
-/
import BV.Model.MetaBlockFull

namespace BV.Catable
open BV.Recoder BV.PrefixArith BV.MetaBlock

theorem copyBytes_grows : ∀ (n dist : Nat) (out : Bytes), ∃ X, copyBytes n dist out = out ++ X ∧ X.length = n := by
  intro n
  induction n with
  | zero => intro dist out; exact ⟨[], by simp [copyBytes], rfl⟩
  | succ n ih =>
    intro dist out
    obtain ⟨X, e, l⟩ := ih dist (out ++ [out.getD (out.length - dist) 0])
    exact ⟨out.getD (out.length - dist) 0 :: X, by simp only [copyBytes]; rw [e]; simp, by simp [l]⟩

/-- one accepted command appends exactly as many bytes as the cursor advances -/
theorem decStep_grows (w : WordOracle) (np nd window : Nat) (mb : Bytes) (s s' : DecSt) (c : Cmd)
    (h : decStep w np nd window mb s c = some s') : ∃ X, s'.out = s.out ++ X ∧ s'.cursor = s.cursor + X.length := by
  unfold decStep at h
  simp only [] at h
  by_cases h1 : mb.length - s.cursor = 0
  · rw [if_pos h1] at h; cases h
  rw [if_neg h1] at h
  by_cases h2 : c.insertLen > mb.length - s.cursor
  · rw [if_pos h2] at h; cases h
  rw [if_neg h2] at h
  have hl : ((mb.drop s.cursor).take c.insertLen).length = c.insertLen := by simp; omega
  by_cases h3 : s.cursor + c.insertLen = mb.length
  · rw [if_pos h3] at h
    simp only [Option.some.injEq] at h
    subst h
    exact ⟨_, rfl, by simp only [hl]⟩
  rw [if_neg h3] at h
  cases hr : rfcDistance np nd s.ring (c.distPrefix % 1024) c.distExtra with
  | none => rw [hr] at h; cases h
  | some du =>
    obtain ⟨d, upd⟩ := du
    rw [hr] at h
    simp only [] at h
    by_cases h4 : d ≤ 0
    · rw [if_pos h4] at h; cases h
    rw [if_neg h4] at h
    split at h
    · split at h
      · cases h
      · simp only [Option.some.injEq] at h
        subst h
        obtain ⟨X, e, l⟩ := copyBytes_grows (copyLenCode c.copyLenField) d.toNat (s.out ++ (mb.drop s.cursor).take c.insertLen)
        exact ⟨(mb.drop s.cursor).take c.insertLen ++ X, by simp only [e, List.append_assoc],
          by simp only [List.length_append, hl, l]; omega⟩
    · split at h
      · cases h
      · split at h
        · cases h
        · rename_i word _
          split at h
          · cases h
          · simp only [Option.some.injEq] at h
            subst h
            exact ⟨(mb.drop s.cursor).take c.insertLen ++ word, by simp only [List.append_assoc],
              by simp only [List.length_append, hl]; omega⟩

theorem decSteps_grows (w : WordOracle) (np nd window : Nat) (mb : Bytes) :
    ∀ (cmds : List Cmd) (s s' : DecSt), decSteps w np nd window mb s cmds = some s' →
      ∃ X, s'.out = s.out ++ X ∧ s'.cursor = s.cursor + X.length := by
  intro cmds
  induction cmds with
  | nil => intro s s' h; simp only [decSteps, Option.some.injEq] at h; subst h; exact ⟨[], by simp, by simp⟩
  | cons c cs ih =>
    intro s s' h
    simp only [decSteps] at h
    cases h1 : decStep w np nd window mb s c with
    | none => rw [h1] at h; cases h
    | some s1 =>
      rw [h1] at h
      obtain ⟨X, e, l⟩ := decStep_grows w np nd window mb s s1 c h1
      obtain ⟨Y, e2, l2⟩ := ih s1 s' h
      exact ⟨X ++ Y, by rw [e2, e, List.append_assoc], by rw [l2, l, List.length_append]; omega⟩

/-- **`faithful_of_final`** — a run that starts with `|out| = |hist| + cursor` and ends in `⟨hist ++ mb, _, |mb|⟩` is
`faithful` -/
theorem faithful_of_final (w : WordOracle) (np nd window : Nat) (mb hist : Bytes) :
    ∀ (cmds : List Cmd) (s : DecSt) (r : List Int), s.out.length = hist.length + s.cursor →
      decSteps w np nd window mb s cmds = some ⟨hist ++ mb, r, mb.length⟩ →
      faithful w np nd window mb hist s cmds := by
  intro cmds
  induction cmds with
  | nil => intro s r _ _; trivial
  | cons c cs ih =>
    intro s r hlen h
    simp only [decSteps] at h
    simp only [faithful]
    cases h1 : decStep w np nd window mb s c with
    | none => rw [h1] at h; cases h
    | some s1 =>
      rw [h1] at h
      simp only
      obtain ⟨X, e, l⟩ := decStep_grows w np nd window mb s s1 c h1
      obtain ⟨Y, e2, l2⟩ := decSteps_grows w np nd window mb cs s1 _ h
      simp only at e2 l2
      have hlen1 : s1.out.length = hist.length + s1.cursor := by rw [e, l, List.length_append]; omega
      refine ⟨?_, ih s1 r hlen1 h⟩
      have ht : s1.out = (hist ++ mb).take s1.out.length := by rw [e2]; simp
      rw [ht, hlen1, List.take_append, List.take_of_length_le (by omega)]
      simp

end BV.Catable
