import BV.Lemmas.AdaptersFill
import BV.Lemmas.AdaptersHyp
/-
C11, copy function: `BrotliCompressCustomIoCustomDict` over an arbitrary encoder oracle and
arbitrary scripts of the wrapped reader and writer.
-/
namespace BV.Adapters
variable {σ : Type}

/-! ### the drain loop -/

theorem copyDrain_spec (s : Sink) (rest : Bytes) :
    ∃ (new : List LogE) (p : Bytes),
      (copyDrain s rest).1.log = new ++ s.log ∧ (copyDrain s rest).1.got = s.got ++ p ∧ p <+: rest ∧
      (copyDrain s rest).1.tail = s.tail ∧
      ((copyDrain s rest).2 = .ok () → p = rest ∧ ∀ e ∈ new, e.faulty = false) ∧
      (∀ de, (copyDrain s rest).2 = .error de → ∃ e ∈ new, e.faulty = true) := by
  fun_induction copyDrain s rest
  case case1 s => exact ⟨[], [], by simp⟩
  case case2 s rest hb s' c hx =>
    obtain ⟨ht, hf, ⟨pre, hl, hp⟩, hg⟩ := Sink.write_cases _ _ _ _ hx
    refine ⟨⟨0, rest.length, .err c⟩ :: pre, [], by simpa [exceptToRes] using hl, by simpa using hg, List.nil_prefix, ht, by simp, ?_⟩
    intro de _; exact ⟨_, List.mem_cons_self .., rfl⟩
  case case3 s rest hb s' k hx hk ih =>
    obtain ⟨ht, hf, ⟨pre, hl, hp⟩, hle, hg⟩ := Sink.write_cases _ _ _ _ hx
    obtain ⟨new', p', i1, i2, i3, i4, i5, i6⟩ := ih
    refine ⟨new' ++ ⟨0, rest.length, .n k⟩ :: pre, rest.take k ++ p', ?_, ?_, ?_, by rw [i4, ht], ?_, ?_⟩
    · rw [i1, hl]; simp [exceptToRes]
    · rw [i2, hg]; simp
    · have : rest = rest.take k ++ rest.drop k := (List.take_append_drop k rest).symm
      conv => rhs; rw [this]
      exact (List.prefix_append_right_inj _).mpr i3
    · intro hok
      obtain ⟨j1, j2⟩ := i5 hok
      refine ⟨by rw [j1, List.take_append_drop], ?_⟩
      intro e he
      rcases List.mem_append.mp he with h | h
      · exact j2 e h
      · rcases List.mem_cons.mp h with h | h
        · subst h; exact faulty_n_pos _ _ _ hk
        · rw [hp e h]; rfl
    · intro de hde
      obtain ⟨e, he, hf'⟩ := i6 de hde
      exact ⟨e, List.mem_append_left _ he, hf'⟩
  case case4 s rest hb s' k hx hk =>
    obtain ⟨ht, hf, ⟨pre, hl, hp⟩, hle, hg⟩ := Sink.write_cases _ _ _ _ hx
    have hk0 : k = 0 := by simpa using hk
    subst hk0
    have hpos : rest.length ≠ 0 := by
      intro h0; exact hb (List.eq_nil_of_length_eq_zero h0)
    refine ⟨⟨0, rest.length, .n 0⟩ :: pre, [], by simpa [exceptToRes] using hl, by simpa using hg, List.nil_prefix, ht, by simp, ?_⟩
    intro de _
    refine ⟨_, List.mem_cons_self .., ?_⟩
    simp [LogE.faulty, hpos]

/-! ### one iteration of the copy loop -/

/-- invariant of the copy loop at the head of an iteration: cursors inside the buffers, staged
output not full, and a recorded read error has ended the input -/
def Copy.WF (c : Copy σ) : Prop :=
  c.nextIn + c.availableIn ≤ c.ibuf.length ∧ c.pending.length < c.obufSize ∧ (c.readErr ≠ none → c.eof = true)

/-- input bytes read and not yet consumed -/
def Copy.window (c : Copy σ) : Bytes := (c.ibuf.drop c.nextIn).take c.availableIn

def Copy.nextOp (c : Copy σ) : Op := if c.availableIn = 0 then Op.finish else Op.process

theorem Copy.window_length (c : Copy σ) (h : c.nextIn + c.availableIn ≤ c.ibuf.length) :
    c.window.length = c.availableIn := by
  simp [Copy.window, List.length_take, List.length_drop]; omega

/-- the refill step -/
theorem Copy.refill_spec (c : Copy σ) (h : c.WF) :
    c.refill.WF ∧ c.refill.enc = c.enc ∧ c.refill.elog = c.elog ∧ c.refill.pending = c.pending ∧
    c.refill.obufSize = c.obufSize ∧ c.refill.sink = c.sink ∧ c.refill.totalOut = c.totalOut ∧
    (c.eof = true → c.refill.eof = true) ∧
    (∀ e, c.readErr = some e → c.refill.readErr = some e) ∧
    ∃ (moved : Bytes) (newL : List LogE),
      c.refill.window = c.window ++ moved ∧ c.src.data = moved ++ c.refill.src.data ∧
      c.refill.availableIn = c.availableIn + moved.length ∧
      c.refill.src.log = newL ++ c.src.log ∧
      (c.readErr = none →
        (c.refill.readErr = none ∧ ∀ e ∈ newL, ∀ k, e.res ≠ .err k) ∨
        (∃ k, c.refill.readErr = some (.inner k) ∧ ∃ e ∈ newL, e.res = .err k)) := by
  obtain ⟨h1, h2, h3⟩ := h
  unfold Copy.refill
  split
  · next hc =>
    obtain ⟨ha, he⟩ := hc
    have hre : c.readErr = none := by
      cases hr : c.readErr with
      | none => rfl
      | some e => have := h3 (by simp [hr]); rw [he] at this; simp at this
    obtain ⟨f1, f2, f3, f4, f5, moved, newL, k1, k2, k3, k4, k5, k6⟩ := fillBuf_spec c.ibuf 0 c.eof c.src 0 (Nat.zero_le _)
    have hw0 : c.window = [] := by simp [Copy.window, ha]
    unfold Copy.fill
    simp only [ha]
    cases herr : (fillBuf c.ibuf 0 c.eof c.src 0).err with
    | some e =>
      refine ⟨⟨?_, h2, fun _ => rfl⟩, rfl, rfl, rfl, rfl, rfl, rfl, fun _ => rfl, ?_, moved, newL, ?_, k3, ?_, k4, ?_⟩
      · show 0 + (fillBuf c.ibuf 0 c.eof c.src 0).len ≤ (fillBuf c.ibuf 0 c.eof c.src 0).buf.length
        rw [f1]; omega
      · intro e' he'; rw [hre] at he'; simp at he'
      · rw [hw0]; show ((fillBuf c.ibuf 0 c.eof c.src 0).buf.drop 0).take (fillBuf c.ibuf 0 c.eof c.src 0).len = _
        rw [List.drop_zero, k2]; simp
      · show (fillBuf c.ibuf 0 c.eof c.src 0).len = 0 + moved.length
        exact k1
      · intro _
        refine Or.inr ⟨e, rfl, ?_⟩
        exact ⟨_, k5 e herr, rfl⟩
    | none =>
      refine ⟨⟨?_, h2, ?_⟩, rfl, rfl, rfl, rfl, rfl, rfl, ?_, ?_, moved, newL, ?_, k3, ?_, k4, ?_⟩
      · show 0 + (fillBuf c.ibuf 0 c.eof c.src 0).len ≤ (fillBuf c.ibuf 0 c.eof c.src 0).buf.length
        rw [f1]; omega
      · intro hne; exact absurd hre hne
      · intro he'; rw [he] at he'; simp at he'
      · intro e' he'; rw [hre] at he'; simp at he'
      · rw [hw0]; show ((fillBuf c.ibuf 0 c.eof c.src 0).buf.drop 0).take (fillBuf c.ibuf 0 c.eof c.src 0).len = _
        rw [List.drop_zero, k2]; simp
      · show (fillBuf c.ibuf 0 c.eof c.src 0).len = 0 + moved.length
        exact k1
      · intro _
        exact Or.inl ⟨hre, k6 herr⟩
  · next hc =>
    refine ⟨⟨h1, h2, h3⟩, rfl, rfl, rfl, rfl, rfl, rfl, fun h' => h', fun e h' => h', [], [], by simp, by simp, by simp, by simp, ?_⟩
    intro hn
    exact Or.inl ⟨hn, by simp⟩
/-- the state after the encoder call, described -/
theorem Copy.afterStep_spec (E : Enc σ) (c1 : Copy σ) (st : σ × EncAns)
    (hst : st = E.step c1.enc c1.nextOp c1.window (c1.obufSize - c1.pending.length)) :
    (c1.afterStep E).enc = st.1 ∧
    (c1.afterStep E).elog = ⟨c1.nextOp, c1.window, c1.obufSize - c1.pending.length, st.2, E.hasMore st.1, E.isFinished st.1⟩ :: c1.elog ∧
    (c1.afterStep E).nextIn = c1.nextIn + st.2.consumed ∧ (c1.afterStep E).availableIn = c1.availableIn - st.2.consumed ∧
    (c1.afterStep E).pending = c1.pending ++ st.2.produced ∧ (c1.afterStep E).ibuf = c1.ibuf ∧
    (c1.afterStep E).obufSize = c1.obufSize ∧ (c1.afterStep E).src = c1.src ∧ (c1.afterStep E).sink = c1.sink ∧
    (c1.afterStep E).eof = c1.eof ∧ (c1.afterStep E).readErr = c1.readErr := by
  subst hst
  exact ⟨rfl, rfl, rfl, rfl, rfl, rfl, rfl, rfl, rfl, rfl, rfl⟩

/-- facts about an iteration of the copy loop that goes round again -/
theorem Copy.iter_cont (E : Enc σ) (c c' : Copy σ) (h : c.WF) (hi : Copy.iter E c = .cont c') :
    ∃ st : σ × EncAns, st = E.step c.refill.enc c.refill.nextOp c.refill.window (c.refill.obufSize - c.refill.pending.length) ∧
      st.2.consumed ≤ c.refill.availableIn ∧ st.2.ok = true ∧ E.isFinished st.1 = false ∧
      c'.WF ∧ c'.enc = st.1 ∧ c'.availableIn = c.refill.availableIn - st.2.consumed ∧
      c'.src = c.refill.src ∧ c'.eof = c.refill.eof ∧ c'.readErr = c.refill.readErr ∧ c'.obufSize = c.refill.obufSize ∧
      c'.elog = ⟨c.refill.nextOp, c.refill.window, c.refill.obufSize - c.refill.pending.length, st.2, E.hasMore st.1, E.isFinished st.1⟩ :: c.refill.elog ∧
      c'.window = c.refill.window.drop st.2.consumed ∧
      ∃ newW : List LogE, c'.sink.log = newW ++ c.refill.sink.log ∧ (∀ e ∈ newW, e.faulty = false) ∧
        c'.sink.got ++ c'.pending = c.refill.sink.got ++ c.refill.pending ++ st.2.produced := by
  obtain ⟨wf1, _⟩ := Copy.refill_spec c h
  obtain ⟨w1, w2, w3⟩ := wf1
  have hwl := Copy.window_length c.refill w1
  unfold Copy.iter at hi
  simp only at hi
  obtain ⟨a1, a2, a3, a4, a5, a6, a7, a8, a9, a10, a11⟩ := Copy.afterStep_spec E c.refill _ rfl
  generalize hc1 : c.refill = c1 at *
  generalize hst : E.step c1.enc c1.nextOp c1.window (c1.obufSize - c1.pending.length) = st at *
  have hst' : E.step c1.enc (if c1.availableIn = 0 then Op.finish else Op.process) (List.take c1.availableIn (List.drop c1.nextIn c1.ibuf)) (c1.obufSize - c1.pending.length) = st := hst
  simp only [hst'] at hi
  have hwl' : (List.take c1.availableIn (List.drop c1.nextIn c1.ibuf)).length = c1.availableIn := hwl
  split at hi
  · simp at hi
  · next hsane =>
    have s1 : st.2.consumed ≤ c1.availableIn := by rw [hwl'] at hsane; omega
    have s2 : st.2.produced.length ≤ c1.obufSize - c1.pending.length := by omega
    generalize hc2 : c1.afterStep E = c2 at *
    have hp2 : c2.pending.length ≤ c2.obufSize := by rw [a5, a7]; simp; omega
    refine ⟨st, rfl, s1, ?_⟩
    -- the drain
    split at hi
    · next c3 e hd => simp at hi
    · next c3 hd =>
      split at hi
      · simp at hi
      · next hok =>
        split at hi
        · split at hi <;> simp at hi
        · next hfin =>
          simp only [CIter.cont.injEq] at hi
          subst hi
          have hok' : st.2.ok = true := by simpa using hok
          have hfin' : E.isFinished st.1 = false := by rw [← a1]; simpa using hfin
          -- which way did the staged bytes go?
          split at hd
          · next hfull =>
            split at hd
            · next s' hdr =>
              simp only [Prod.mk.injEq] at hd
              obtain ⟨hd1, _⟩ := hd
              subst hd1
              obtain ⟨new, p, d1, d2, d3, d4, d5, d6⟩ := copyDrain_spec c2.sink c2.pending
              rw [hdr] at d1 d2 d5
              obtain ⟨e1, e2⟩ := d5 rfl
              refine ⟨hok', hfin', ⟨?_, ?_, ?_⟩, a1, a4, a8, a10, a11, a7, a2, ?_, new, ?_, e2, ?_⟩
              · show c2.nextIn + c2.availableIn ≤ c2.ibuf.length
                rw [a3, a4, a6]; omega
              · show ([] : Bytes).length < c2.obufSize
                rw [a7]; simp; omega
              · show c2.readErr ≠ none → c2.eof = true
                rw [a11, a10]; exact w3
              · show (c2.ibuf.drop c2.nextIn).take c2.availableIn = _
                rw [a6, a3, a4, Copy.window, List.drop_take, List.drop_drop]
              · show s'.log = new ++ c1.sink.log
                rw [d1, a9]
              · show s'.got ++ [] = _
                rw [d2, e1, a9, a5]; simp
            · next s' de hdr => simp at hd
          · next hnf =>
            simp only [Prod.mk.injEq] at hd
            obtain ⟨hd1, _⟩ := hd
            subst hd1
            refine ⟨hok', hfin', ⟨?_, ?_, ?_⟩, a1, a4, a8, a10, a11, a7, a2, ?_, [], by rw [a9]; simp, by simp, ?_⟩
            · rw [a3, a4, a6]; omega
            · have : ¬ (c2.pending.length = c2.obufSize) := fun hh => hnf (Or.inl hh)
              omega
            · rw [a11, a10]; exact w3
            · show (c2.ibuf.drop c2.nextIn).take c2.availableIn = _
              rw [a6, a3, a4, Copy.window, List.drop_take, List.drop_drop]
            · rw [a9, a5]; simp
/-- facts about an iteration of the copy loop that ends the call -/
theorem Copy.iter_stop (E : Enc σ) (c c' : Copy σ) (o : Out (Except Err Nat)) (h : c.WF)
    (hi : Copy.iter E c = .stop c' o) :
    ∃ st : σ × EncAns, st = E.step c.refill.enc c.refill.nextOp c.refill.window (c.refill.obufSize - c.refill.pending.length) ∧
      c'.readErr = c.refill.readErr ∧ o ≠ .livelock ∧
      (o = .panic → ¬(st.2.consumed ≤ c.refill.availableIn ∧ st.2.produced.length ≤ c.refill.obufSize - c.refill.pending.length)) ∧
      ∀ res, o = .done res →
        (∀ e, c.refill.readErr = some e → res = .error e) ∧
        (∀ n, res = .ok n →
          c.refill.readErr = none ∧ st.2.consumed ≤ c.refill.availableIn ∧ st.2.ok = true ∧ E.isFinished st.1 = true ∧
          c'.enc = st.1 ∧ c'.pending = [] ∧ n = c'.totalOut ∧ c'.src = c.refill.src ∧ c'.eof = c.refill.eof ∧
          c'.elog = ⟨c.refill.nextOp, c.refill.window, c.refill.obufSize - c.refill.pending.length, st.2, E.hasMore st.1, E.isFinished st.1⟩ :: c.refill.elog ∧
          c'.window = c.refill.window.drop st.2.consumed ∧ c'.availableIn = c.refill.availableIn - st.2.consumed ∧
          ∃ newW : List LogE, c'.sink.log = newW ++ c.refill.sink.log ∧ (∀ e ∈ newW, e.faulty = false) ∧
            c'.sink.got = c.refill.sink.got ++ c.refill.pending ++ st.2.produced) := by
  obtain ⟨wf1, _⟩ := Copy.refill_spec c h
  obtain ⟨w1, w2, w3⟩ := wf1
  have hwl := Copy.window_length c.refill w1
  unfold Copy.iter at hi
  simp only at hi
  obtain ⟨a1, a2, a3, a4, a5, a6, a7, a8, a9, a10, a11⟩ := Copy.afterStep_spec E c.refill _ rfl
  generalize hc1 : c.refill = c1 at *
  generalize hst : E.step c1.enc c1.nextOp c1.window (c1.obufSize - c1.pending.length) = st at *
  have hst' : E.step c1.enc (if c1.availableIn = 0 then Op.finish else Op.process) (List.take c1.availableIn (List.drop c1.nextIn c1.ibuf)) (c1.obufSize - c1.pending.length) = st := hst
  simp only [hst'] at hi
  have hwl' : (List.take c1.availableIn (List.drop c1.nextIn c1.ibuf)).length = c1.availableIn := hwl
  refine ⟨st, rfl, ?_⟩
  split at hi
  · next hins =>
    simp only [CIter.stop.injEq] at hi
    obtain ⟨h1, h2⟩ := hi
    subst h1 h2
    refine ⟨a11, by simp, ?_, by intro res hr; simp at hr⟩
    intro _ hsane
    rw [hwl'] at hins
    omega
  · next hsane =>
    have s1 : st.2.consumed ≤ c1.availableIn := by rw [hwl'] at hsane; omega
    generalize hc2 : c1.afterStep E = c2 at *
    split at hi
    · next c3 e hd =>
      -- the drain failed
      simp only [CIter.stop.injEq] at hi
      obtain ⟨h1, h2⟩ := hi
      subst h1 h2
      split at hd
      · split at hd
        · simp at hd
        · next s' de hdr =>
          simp only [Prod.mk.injEq, Option.some.injEq] at hd
          obtain ⟨hd1, hd2⟩ := hd
          subst hd1
          refine ⟨a11, by simp, by simp, ?_⟩
          intro res hr
          simp only [Out.done.injEq] at hr
          subst hr
          refine ⟨?_, by intro n hn; simp at hn⟩
          intro e' he'
          rw [← hd2, a11, he']
      · simp at hd
    · next c3 hd =>
      have hro : c3.readErr = c1.readErr ∧ c3.enc = c2.enc ∧ c3.elog = c2.elog ∧ c3.src = c2.src ∧ c3.eof = c2.eof ∧
          c3.totalOut = c2.totalOut ∧ c3.ibuf = c2.ibuf ∧ c3.nextIn = c2.nextIn ∧ c3.availableIn = c2.availableIn := by
        split at hd
        · split at hd
          · simp only [Prod.mk.injEq] at hd; obtain ⟨hd1, _⟩ := hd; subst hd1; exact ⟨a11, rfl, rfl, rfl, rfl, rfl, rfl, rfl, rfl⟩
          · simp at hd
        · simp only [Prod.mk.injEq] at hd; obtain ⟨hd1, _⟩ := hd; subst hd1; exact ⟨a11, rfl, rfl, rfl, rfl, rfl, rfl, rfl, rfl⟩
      obtain ⟨r1, r2, r3, r4, r5, r6, r7, r8, r9⟩ := hro
      split at hi
      · next hnok =>
        simp only [CIter.stop.injEq] at hi
        obtain ⟨h1, h2⟩ := hi
        subst h1 h2
        refine ⟨r1, by simp, by simp, ?_⟩
        intro res hr
        simp only [Out.done.injEq] at hr
        subst hr
        refine ⟨?_, by intro n hn; simp at hn⟩
        intro e' he'
        rw [r1, he']
      · next hok =>
        have hok' : st.2.ok = true := by simpa using hok
        split at hi
        · next hfin =>
          have hfin' : E.isFinished st.1 = true := by rw [← a1]; exact hfin
          -- the drain ran (fin) and succeeded
          have hdr : ∃ s', copyDrain c2.sink c2.pending = (s', .ok ()) ∧ c3 = { c2 with sink := s', pending := [] } := by
            rw [if_pos (Or.inr hfin)] at hd
            split at hd
            · next s' hh => simp only [Prod.mk.injEq] at hd; exact ⟨s', hh, hd.1.symm⟩
            · simp at hd
          obtain ⟨s', hdr1, hdr2⟩ := hdr
          obtain ⟨new, p, d1, d2, d3, d4, d5, d6⟩ := copyDrain_spec c2.sink c2.pending
          rw [hdr1] at d1 d2 d5
          obtain ⟨e1, e2⟩ := d5 rfl
          split at hi
          · next re hre =>
            simp only [CIter.stop.injEq] at hi
            obtain ⟨h1, h2⟩ := hi
            subst h1 h2
            refine ⟨r1, by simp, by simp, ?_⟩
            intro res hr
            simp only [Out.done.injEq] at hr
            subst hr
            refine ⟨?_, by intro n hn; simp at hn⟩
            intro e' he'
            rw [r1, he'] at hre
            simp at hre
            rw [hre]
          · next hre =>
            simp only [CIter.stop.injEq] at hi
            obtain ⟨h1, h2⟩ := hi
            subst h1 h2
            refine ⟨r1, by simp, by simp, ?_⟩
            intro res hr
            simp only [Out.done.injEq] at hr
            subst hr
            refine ⟨?_, ?_⟩
            · intro e' he'; rw [r1, he'] at hre; simp at hre
            · intro n hn
              simp only [Except.ok.injEq] at hn
              refine ⟨by rw [← r1]; exact hre, s1, hok', hfin', by rw [r2, a1], by rw [hdr2], hn.symm, by rw [r4, a8], by rw [r5, a10], by rw [r3, a2], ?_, by rw [r9, a4], new, ?_, e2, ?_⟩
              · show (c3.ibuf.drop c3.nextIn).take c3.availableIn = _
                rw [r7, r8, r9, a6, a3, a4, Copy.window, List.drop_take, List.drop_drop]
              · rw [hdr2]; show s'.log = _; rw [d1, a9]
              · rw [hdr2]; show s'.got = _; rw [d2, e1, a9, a5]; simp
        · simp at hi
/-! ### the loop -/

def Copy.todo (c : Copy σ) : Nat := c.src.data.length + c.availableIn
def Copy.eofFlag (c : Copy σ) : Nat := if c.eof then 0 else 1

theorem Copy.iter_cont_measure (E : Enc σ) (ops : Op → Prop) (rank : σ → Nat) (hp : EncProgress E ops rank)
    (hops : ops .process ∧ ops .finish)
    (c c' : Copy σ) (h : c.WF) (hi : Copy.iter E c = .cont c') :
    c'.WF ∧ (c'.todo < c.todo ∨ (c'.todo = c.todo ∧ c'.eofFlag < c.eofFlag) ∨
      (c'.todo = c.todo ∧ c'.eofFlag = c.eofFlag ∧ rank c'.enc < rank c.enc)) := by
  obtain ⟨st, hst, s1, s2, s3, k1, k2, k3, k4, k5, k6, k7, k8, k9, _⟩ := Copy.iter_cont E c c' h hi
  obtain ⟨wf1, f1, f2, f3, f4, f5, f6, f7, f8, moved, newL, m1, m2, m3, m4, m5⟩ := Copy.refill_spec c h
  refine ⟨k1, ?_⟩
  have ht1 : c.refill.todo = c.todo := by simp only [Copy.todo, m3, m2, List.length_append]; omega
  have hf1 : c.refill.eofFlag ≤ c.eofFlag := by
    simp only [Copy.eofFlag]
    cases he : c.eof
    · split <;> simp
    · simp [f7 he]
  have ht' : c'.todo = c.refill.todo - st.2.consumed := by simp only [Copy.todo, k3, k4]; omega
  have hf' : c'.eofFlag = c.refill.eofFlag := by simp only [Copy.eofFlag, k5]
  by_cases hc : st.2.consumed = 0
  · have hwl := Copy.window_length c.refill wf1.1
    have hcap : 0 < c.refill.obufSize - c.refill.pending.length := by have := wf1.2.1; omega
    have hdem : Demanded E st.1 c.refill.nextOp c.refill.window := by
      unfold Copy.nextOp
      split
      · next hz0 =>
        refine Or.inr (Or.inl ⟨rfl, ?_, s3⟩)
        exact List.eq_nil_of_length_eq_zero (by rw [hwl]; exact hz0)
      · next hne =>
        refine Or.inl ⟨rfl, ?_⟩
        intro hnil; rw [hnil] at hwl; simp at hwl; omega
    have hlt : rank c'.enc < rank c.enc := by
      rw [k2, ← f1, hst]
      apply hp.stall c.refill.enc c.refill.nextOp c.refill.window _ (by unfold Copy.nextOp; split; exact hops.2; exact hops.1) hcap
      · rw [← hst]; exact s2
      · rw [← hst]; exact hc
      · rw [← hst]; exact hdem
    have : c'.todo = c.todo := by rw [ht', hc, ht1]; simp
    rcases Nat.lt_or_ge c'.eofFlag c.eofFlag with hlt' | hge
    · exact Or.inr (Or.inl ⟨this, hlt'⟩)
    · exact Or.inr (Or.inr ⟨this, by omega, hlt⟩)
  · left
    have : st.2.consumed ≤ c.refill.todo := by simp only [Copy.todo]; omega
    omega

/-- `copy_terminates`: the loop of the copy function ends for every script of both wrapped
streams (zero-length writes included: they end it with an error) -/
theorem Copy.loop_terminates (E : Enc σ) (ops : Op → Prop) (rank : σ → Nat) (hp : EncProgress E ops rank)
    (hops : ops .process ∧ ops .finish) :
    ∀ (T F R : Nat) (c : Copy σ), c.WF → c.todo = T → c.eofFlag = F → rank c.enc = R →
      ∃ N, ∀ fuel, N ≤ fuel → (Copy.loop E fuel c).2 ≠ .livelock := by
  intro T
  induction T using Nat.strongRecOn with
  | ind T ihT =>
    intro F
    induction F using Nat.strongRecOn with
    | ind F ihF =>
      intro R
      induction R using Nat.strongRecOn with
      | ind R ihR =>
        intro c hwf hT hF hR
        cases hi : Copy.iter E c with
        | stop c' o =>
          refine ⟨1, ?_⟩
          intro fuel hf
          obtain ⟨f, rfl⟩ : ∃ f, fuel = f + 1 := ⟨fuel - 1, by omega⟩
          simp only [Copy.loop, hi]
          obtain ⟨st, _, _, hne, _⟩ := Copy.iter_stop E c c' o hwf hi
          exact hne
        | cont c' =>
          obtain ⟨wf', hm⟩ := Copy.iter_cont_measure E ops rank hp hops c c' hwf hi
          have hnext : ∃ N, ∀ fuel, N ≤ fuel → (Copy.loop E fuel c').2 ≠ .livelock := by
            rcases hm with h1 | ⟨h1, h2⟩ | ⟨h1, h2, h3⟩
            · exact ihT c'.todo (by omega) c'.eofFlag (rank c'.enc) c' wf' rfl rfl rfl
            · exact ihF c'.eofFlag (by omega) (rank c'.enc) c' wf' (by omega) rfl rfl
            · exact ihR (rank c'.enc) (by omega) c' wf' (by omega) (by omega) rfl
          obtain ⟨N, hN⟩ := hnext
          refine ⟨N + 1, ?_⟩
          intro fuel hf
          obtain ⟨f, rfl⟩ : ∃ f, fuel = f + 1 := ⟨fuel - 1, by omega⟩
          simp only [Copy.loop, hi]
          exact hN f (by omega)

theorem Copy.loop_no_panic (E : Enc σ) (hs : EncSane E) : ∀ (fuel : Nat) (c : Copy σ), c.WF →
    (Copy.loop E fuel c).2 ≠ .panic := by
  intro fuel
  induction fuel with
  | zero => intro c _; simp [Copy.loop]
  | succ fuel ih =>
    intro c hwf
    simp only [Copy.loop]
    cases hi : Copy.iter E c with
    | cont c' =>
      obtain ⟨st, _, _, _, _, k1, _⟩ := Copy.iter_cont E c c' hwf hi
      exact ih c' k1
    | stop c' o =>
      simp only
      obtain ⟨st, hst, _, _, hp, _⟩ := Copy.iter_stop E c c' o hwf hi
      intro ho
      apply hp ho
      obtain ⟨wf1, _⟩ := Copy.refill_spec c hwf
      have hwl := Copy.window_length c.refill wf1.1
      rw [hst]
      exact ⟨by rw [← hwl]; exact hs.consumed_le _ _ _ _, hs.produced_le _ _ _ _⟩
def CIter.state : CIter σ → Copy σ
  | .stop c _ => c
  | .cont c => c

/-- whatever an iteration does, the ghost logs only grow and the source is only touched by the refill -/
theorem Copy.iter_logs (E : Enc σ) (c : Copy σ) :
    ∃ (newE : List ERec) (newW : List LogE),
      (Copy.iter E c).state.elog = newE ++ c.refill.elog ∧
      (Copy.iter E c).state.sink.log = newW ++ c.refill.sink.log ∧
      (Copy.iter E c).state.src = c.refill.src := by
  unfold Copy.iter
  simp only
  generalize c.refill = c1
  have hd := copyDrain_spec (c1.afterStep E).sink (c1.afterStep E).pending
  obtain ⟨new, p, d1, _⟩ := hd
  have hs : (c1.afterStep E).sink = c1.sink := rfl
  have he : ∃ newE, (c1.afterStep E).elog = newE ++ c1.elog := ⟨[_], rfl⟩
  obtain ⟨newE, he⟩ := he
  have hsrc : (c1.afterStep E).src = c1.src := rfl
  generalize (if c1.availableIn = 0 then Op.finish else Op.process) = op
  generalize E.step c1.enc op (List.take c1.availableIn (List.drop c1.nextIn c1.ibuf)) (c1.obufSize - c1.pending.length) = st
  split
  · exact ⟨newE, [], he, by simp [CIter.state, hs], hsrc⟩
  · split
    · next c3 e hdr =>
      split at hdr
      · split at hdr
        · simp at hdr
        · next s' de hh =>
          simp only [Prod.mk.injEq] at hdr
          obtain ⟨h1, _⟩ := hdr
          subst h1
          refine ⟨newE, new, he, ?_, hsrc⟩
          show s'.log = _
          rw [hh] at d1; rw [d1, hs]
      · simp at hdr
    · next c3 hdr =>
      have hc3 : ∃ newW, c3.elog = newE ++ c1.elog ∧ c3.sink.log = newW ++ c1.sink.log ∧ c3.src = c1.src := by
        split at hdr
        · split at hdr
          · next s' hh =>
            simp only [Prod.mk.injEq] at hdr
            obtain ⟨h1, _⟩ := hdr
            subst h1
            refine ⟨new, he, ?_, hsrc⟩
            show s'.log = _
            rw [hh] at d1; rw [d1, hs]
          · simp at hdr
        · simp only [Prod.mk.injEq] at hdr
          obtain ⟨h1, _⟩ := hdr
          subst h1
          exact ⟨[], he, by simp [hs], hsrc⟩
      obtain ⟨newW, q1, q2, q3⟩ := hc3
      split
      · exact ⟨newE, newW, q1, q2, q3⟩
      · split
        · split
          · exact ⟨newE, newW, q1, q2, q3⟩
          · exact ⟨newE, newW, q1, q2, q3⟩
        · exact ⟨newE, newW, q1, q2, q3⟩
/-- everything a returning copy loop guarantees -/
theorem Copy.loop_done (E : Enc σ) : ∀ (fuel : Nat) (c c' : Copy σ) (res : Except Err Nat), c.WF →
    Copy.loop E fuel c = (c', .done res) →
    ∃ (newE : List ERec) (newR newW : List LogE),
      c'.elog = newE ++ c.elog ∧ c'.src.log = newR ++ c.src.log ∧ c'.sink.log = newW ++ c.sink.log ∧
      (∀ e, c'.readErr = some e → res = .error e) ∧
      (∀ e, c.readErr = some e → c'.readErr = some e) ∧
      (c.readErr = none →
        (c'.readErr = none ∧ ∀ e ∈ newR, ∀ k, e.res ≠ .err k) ∨
        (∃ k, c'.readErr = some (.inner k) ∧ ∃ e ∈ newR, e.res = .err k)) ∧
      (∀ n, res = .ok n →
        (∀ e ∈ newW, e.faulty = false) ∧ E.isFinished c'.enc = true ∧ n = c'.totalOut ∧ c'.pending = [] ∧
        c'.sink.got = c.sink.got ++ c.pending ++ emitted newE ∧
        fed newE ++ c'.window ++ c'.src.data = c.window ++ c.src.data ∧
        (∀ r ∈ newE, r.ans.ok = true)) := by
  intro fuel
  induction fuel with
  | zero => intro c c' res _ h; simp [Copy.loop] at h
  | succ fuel ih =>
    intro c c' res hwf h
    simp only [Copy.loop] at h
    obtain ⟨wf1, f1, f2, f3, f4, f5, f6, f7, f8, moved, newR0, m1, m2, m3, m4, m5⟩ := Copy.refill_spec c hwf
    split at h
    · next c2 o hi =>
      simp only [Prod.mk.injEq] at h
      obtain ⟨h1, h2⟩ := h
      subst h1 h2
      obtain ⟨st, hst, g1, g2, g3, g4⟩ := Copy.iter_stop E c c2 _ hwf hi
      obtain ⟨g5, g6⟩ := g4 res rfl
      -- the encoder record of this iteration (only needed when the call succeeded)
      by_cases hok : ∃ n, res = .ok n
      · obtain ⟨n, hn⟩ := hok
        obtain ⟨o1, o2, o3, o4, o5, o6, o7, o8, o9, o10, o11, o12, newW, o13, o14, o15⟩ := g6 n hn
        refine ⟨[⟨c.refill.nextOp, c.refill.window, c.refill.obufSize - c.refill.pending.length, st.2, E.hasMore st.1, E.isFinished st.1⟩], newR0, newW, ?_, ?_, ?_, ?_, ?_, ?_, ?_⟩
        · rw [o10, f2]; simp
        · rw [o8, m4]
        · rw [o13, f5]
        · intro e he; rw [g1] at he; exact g5 e he
        · intro e he; rw [g1]; exact f8 e he
        · intro hn'; rw [g1]; exact m5 hn'
        · intro n' hn'
          refine ⟨o14, by rw [o5]; exact o4, ?_, o6, ?_, ?_, ?_⟩
          · rw [hn] at hn'; simp at hn'; rw [← hn']; exact o7
          · rw [o15, f5, f3]; simp [emitted]
          · rw [o11, o8]
            simp only [fed, List.reverse_cons, List.reverse_nil, List.nil_append, List.map_cons, List.map_nil, List.flatten_cons, List.flatten_nil, List.append_nil]
            rw [List.take_append_drop, m1, m2]; simp
          · intro r hr; simp at hr; subst hr; exact o3
      · obtain ⟨newE, newW, q1, q2, q3⟩ := Copy.iter_logs E c
        rw [hi] at q1 q2 q3
        simp only [CIter.state] at q1 q2 q3
        refine ⟨newE, newR0, newW, by rw [q1, f2], by rw [q3, m4], by rw [q2, f5], ?_, ?_, ?_, ?_⟩
        · intro e he; rw [g1] at he; exact g5 e he
        · intro e he; rw [g1]; exact f8 e he
        · intro hn'; rw [g1]; exact m5 hn'
        · intro n hn; exact absurd ⟨n, hn⟩ hok
    · next c2 hi =>
      obtain ⟨st, hst, s1, s2, s3, k1, k2, k3, k4, k5, k6, k7, k8, k9, newW0, k10, k11, k12⟩ := Copy.iter_cont E c c2 hwf hi
      obtain ⟨newE, newR, newW, i1, i2, i3, i4, i5, i6, i7⟩ := ih c2 c' res k1 h
      refine ⟨newE ++ [⟨c.refill.nextOp, c.refill.window, c.refill.obufSize - c.refill.pending.length, st.2, E.hasMore st.1, E.isFinished st.1⟩], newR ++ newR0, newW ++ newW0, ?_, ?_, ?_, i4, ?_, ?_, ?_⟩
      · rw [i1, k8, f2]; simp
      · rw [i2, k4, m4]; simp
      · rw [i3, k10, f5]; simp
      · intro e he; exact i5 e (by rw [k6]; exact f8 e he)
      · intro hn
        rcases m5 hn with ⟨ha, hb⟩ | ⟨k, ha, e, he, hk⟩
        · rcases i6 (by rw [k6]; exact ha) with ⟨hc, hd⟩ | ⟨k, hc, e, he, hk⟩
          · refine Or.inl ⟨hc, ?_⟩
            intro e he k
            rcases List.mem_append.mp he with h' | h'
            · exact hd e h' k
            · exact hb e h' k
          · exact Or.inr ⟨k, hc, e, List.mem_append_left _ he, hk⟩
        · exact Or.inr ⟨k, i5 _ (by rw [k6]; exact ha), e, List.mem_append_right _ he, hk⟩
      · intro n hn
        obtain ⟨j1, j2, j3, j4, j5, j6, j7⟩ := i7 n hn
        refine ⟨?_, j2, j3, j4, ?_, ?_, ?_⟩
        · intro e he
          rcases List.mem_append.mp he with h' | h'
          · exact j1 e h'
          · exact k11 e h'
        · rw [j5, k12, f5, f3, emitted_append]; simp [emitted]
        · have hsingle : fed [⟨c.refill.nextOp, c.refill.window, c.refill.obufSize - c.refill.pending.length, st.2, E.hasMore st.1, E.isFinished st.1⟩]
              = c.refill.window.take st.2.consumed := by simp [fed]
          rw [fed_append, hsingle]
          have hre : c.refill.window.take st.2.consumed ++ fed newE ++ c'.window ++ c'.src.data
              = c.refill.window.take st.2.consumed ++ (fed newE ++ c'.window ++ c'.src.data) := by simp [List.append_assoc]
          rw [hre, j6, k9, k4, ← List.append_assoc, List.take_append_drop, m1, m2]; simp
        · intro r hr
          rcases List.mem_append.mp hr with h' | h'
          · exact j7 r h'
          · simp at h'; subst h'; exact s2

/-- over a wrapped reader that never fails, what the refill of the copy function leaves behind
depends on the source bytes only, not on the script (the step that makes the sequence of encoder
calls independent of short reads) -/
theorem Copy.fill_faultFree (c : Copy σ) (hlen : c.availableIn ≤ c.ibuf.length) (hf : c.src.faultFree) :
    c.fill.readErr = c.readErr ∧ c.fill.ibuf.length = c.ibuf.length ∧
    c.fill.availableIn = c.availableIn + fillAmount c.ibuf.length c.availableIn c.eof c.src.data.length ∧
    c.fill.ibuf.take c.fill.availableIn
      = c.ibuf.take c.availableIn ++ c.src.data.take (fillAmount c.ibuf.length c.availableIn c.eof c.src.data.length) ∧
    c.fill.src.data = c.src.data.drop (fillAmount c.ibuf.length c.availableIn c.eof c.src.data.length) ∧
    c.fill.eof = (c.eof || decide (c.src.data.length < c.ibuf.length - c.availableIn)) ∧ c.fill.src.faultFree := by
  obtain ⟨a1, a2, a3, a4, a5, a6, a7⟩ := fillBuf_faultFree c.ibuf c.availableIn c.eof c.src 0 hlen hf
  have hfill : c.fill = { c with ibuf := (fillBuf c.ibuf c.availableIn c.eof c.src 0).buf, availableIn := (fillBuf c.ibuf c.availableIn c.eof c.src 0).len, src := (fillBuf c.ibuf c.availableIn c.eof c.src 0).src, eof := (fillBuf c.ibuf c.availableIn c.eof c.src 0).eof } := by
    unfold Copy.fill
    simp only [a1]
  rw [hfill]
  exact ⟨rfl, a2, a3, a4, a5, a6, a7⟩

end BV.Adapters
