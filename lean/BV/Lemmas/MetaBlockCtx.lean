/-
C01 / meta-block writers, part 16: contexts.  `Context(p1, p2, mode)` against the §7.1 context id,
`Command::distance_context` against the §7.2 context id, the trivial context map, and one symbol of a
context-mapped category (either writer branch) against the reader's tree selection.
-/
import BV.Lemmas.MetaBlockEnc

namespace BV.MetaBlock
open BV.Gen BV.Bits BV.Huffman BV.PrefixArith BV.Recoder

/-! ### literal contexts -/

theorem utf8_table : kUTF8ContextLookup.length = 512 ∧ kUTF8ContextLookup.all (· < 64) = true := by
  decide +kernel

theorem signed_table : kSigned3BitContextLookup.length = 256 ∧ kSigned3BitContextLookup.all (· < 8) = true := by
  decide +kernel

theorem utf8_lt (i : Nat) (h : i < 512) : kUTF8ContextLookup.getD i 0 < 64 := by
  have hm := getD_mem kUTF8ContextLookup i (by rw [utf8_table.1]; exact h)
  have := List.all_eq_true.mp utf8_table.2 _ hm
  simpa using this

theorem signed_lt (i : Nat) (h : i < 256) : kSigned3BitContextLookup.getD i 0 < 8 := by
  have hm := getD_mem kSigned3BitContextLookup i (by rw [signed_table.1]; exact h)
  have := List.all_eq_true.mp signed_table.2 _ hm
  simpa using this

/-- **`Context(p1, p2, mode)` is the §7.1 context id** (a value below 64), for bytes and the four modes -/
theorem contextOf_eq (p1 p2 mode : Nat) (h1 : p1 < 256) (h2 : p2 < 256) :
    contextOf p1 p2 mode = .ok (rfcLiteralContext mode p1 p2) ∧ rfcLiteralContext mode p1 p2 < 64 := by
  unfold contextOf rfcLiteralContext
  by_cases m0 : mode = 0
  · rw [if_pos m0, if_pos m0]; exact ⟨rfl, Nat.mod_lt _ (by decide)⟩
  · rw [if_neg m0, if_neg m0]
    by_cases m1 : mode = 1
    · rw [if_pos m1, if_pos m1]
      have : p1 / 4 < 64 := by omega
      exact ⟨by rw [Nat.mod_eq_of_lt (by omega), Nat.mod_eq_of_lt this], Nat.mod_lt _ (by decide)⟩
    · rw [if_neg m1, if_neg m1]
      by_cases m2 : mode = 2
      · rw [if_pos m2, if_pos m2]
        have a := utf8_lt p1 (by omega)
        have b := utf8_lt (p2 + 256) (by omega)
        have hor : kUTF8ContextLookup.getD p1 0 ||| kUTF8ContextLookup.getD (p2 + 256) 0 < 2 ^ 6 :=
          Nat.or_lt_two_pow a b
        rw [getAt_getD _ _ (by rw [utf8_table.1]; omega), Out.bind_ok,
          getAt_getD _ _ (by rw [utf8_table.1]; omega), Out.bind_ok, Nat.add_comm 256 p2]
        have p6 : (2 : Nat) ^ 6 = 64 := by decide
        exact ⟨by rw [Nat.mod_eq_of_lt (by omega)], by omega⟩
      · rw [if_neg m2, if_neg m2]
        have a := signed_lt p1 h1
        have b := signed_lt p2 h2
        rw [getAt_getD _ _ (by rw [signed_table.1]; omega), Out.bind_ok,
          getAt_getD _ _ (by rw [signed_table.1]; omega), Out.bind_ok]
        exact ⟨by rw [Nat.mod_eq_of_lt (by omega)], by omega⟩

/-! ### distance contexts -/

theorem distCtx_sym : ∀ sym : Fin 704,
    (if (sym.val / 64 = 0 ∨ sym.val / 64 = 2 ∨ sym.val / 64 = 4 ∨ sym.val / 64 = 7) ∧ sym.val % 8 ≤ 2
      then sym.val % 8 else 3) = (if (rfcCmdDecode sym.val).2.1 < 3 then (rfcCmdDecode sym.val).2.1 else 3) := by
  decide +kernel

theorem copyTable_small : ∀ i : Fin 24, (i.val < 3 → kCopyBase.getD i.val 0 = i.val + 2 ∧ kCopyExtra.getD i.val 0 = 0) ∧
    (3 ≤ i.val → 5 ≤ kCopyBase.getD i.val 0) := by decide

/-- **`Command::distance_context` is the §7.2 context id** of the copy length the reader decodes -/
theorem distanceContext_eq (c : Cmd) (cc cb ce clc : Nat) (hsym : c.cmdPrefix < 704)
    (hcc : (rfcCmdDecode c.cmdPrefix).2.1 = cc) (hct : rfcCopyTable[cc]? = some (cb, ce))
    (hcb : cb ≤ clc) (hce : clc - cb < 2 ^ ce) : distanceContext c = rfcDistanceContext clc := by
  have h1 := distCtx_sym ⟨c.cmdPrefix, hsym⟩
  simp only at h1
  have hcc24 : cc < 24 := by
    rcases Nat.lt_or_ge cc 24 with h | h
    · exact h
    · rw [List.getElem?_eq_none (by show 24 ≤ cc; exact h)] at hct; cases hct
  have h2 := rfcCopy_get ⟨cc, hcc24⟩
  simp only at h2
  rw [hct] at h2
  injection h2 with h2
  injection h2 with hb he
  obtain ⟨s1, s2⟩ := copyTable_small ⟨cc, hcc24⟩
  simp only at s1 s2
  unfold distanceContext rfcDistanceContext
  simp only
  rw [h1, hcc]
  by_cases h3 : cc < 3
  · obtain ⟨t1, t2⟩ := s1 h3
    rw [if_pos h3]
    rw [← hb] at t1
    rw [← he] at t2
    rw [t2] at hce
    have : clc = cc + 2 := by omega
    rw [this]
    have : cc = 0 ∨ cc = 1 ∨ cc = 2 := by omega
    rcases this with h | h | h <;> rw [h] <;> rfl
  · have t1 := s2 (by omega)
    rw [← hb] at t1
    rw [if_neg h3, if_neg (by omega), if_neg (by omega), if_neg (by omega)]

/-! ### the trivial context map -/

/-- what `StoreTrivialContextMap` describes: every context of block type `t` uses tree `t` -/
def trivialMap (n m : Nat) : List Nat := (List.range n).flatMap (fun t => List.replicate m t)

theorem trivialMap_succ (n m : Nat) : trivialMap (n + 1) m = trivialMap n m ++ List.replicate m n := by
  unfold trivialMap
  rw [List.range_succ, List.flatMap_append]
  simp

theorem trivialMap_length (n m : Nat) : (trivialMap n m).length = n * m := by
  induction n with
  | zero => simp [trivialMap]
  | succ n ih => rw [trivialMap_succ, List.length_append, ih, List.length_replicate, Nat.add_mul, Nat.one_mul]

theorem trivialMap_get (n m t ctx : Nat) (ht : t < n) (hc : ctx < m) : (trivialMap n m).getD (t * m + ctx) 0 = t := by
  induction n with
  | zero => omega
  | succ n ih =>
    rw [trivialMap_succ, List.getD_eq_getElem?_getD]
    rcases Nat.lt_or_ge t n with h | h
    · have : t * m + ctx < n * m := by
        have : t * m + ctx < (t + 1) * m := by rw [Nat.add_mul, Nat.one_mul]; omega
        have : (t + 1) * m ≤ n * m := Nat.mul_le_mul_right _ (by omega)
        omega
      rw [List.getElem?_append_left (by rw [trivialMap_length]; exact this), ← List.getD_eq_getElem?_getD]
      exact ih h
    · have htn : t = n := by omega
      subst htn
      rw [List.getElem?_append_right (by rw [trivialMap_length]; omega), trivialMap_length,
        List.getElem?_replicate, Nat.add_sub_cancel_left, if_pos hc]
      rfl

/-- the context map as the reader holds it -/
def effMap (cmap : List Nat) (cmapSize numTypes m : Nat) : List Nat :=
  if cmapSize = 0 then trivialMap numTypes m else cmap

/-! ### one symbol of a context-mapped category -/

/-- **literal / distance symbol, either branch** (`context_map_size == 0`: `store_symbol`, else
`store_symbol_with_context`): the reader's tree is `effMap[2^cb · type + context]` -/
theorem ctxSymbol_step (s : BSplit) (h : SplitOK s) (e : BEnc) (cat : Cat) (j H cb : Nat) (codes : List Code)
    (histos : List (List Nat)) (cmap : List Nat) (cmapSize size sym ctx t : Nat) (tl : List Nat) (hH : e.histLen = H)
    (hE : EncInv s (if cmapSize = 0 then H else 2 ^ cb) e cat j) (hcb : cb ≤ 6) (hH704 : H ≤ 704)
    (hrem : remTypes s j e.blockLen = t :: tl) (hsym : sym < H) (hctx : ctx < 2 ^ cb)
    (hio : ∀ i, i < size → ∀ sy, sy < H → (histos.getD i []).getD sy 0 ≠ 0 →
      SymIOAt e.depths e.bits (i * H) (codes.getD i (Code.single 0)) sy)
    (hsz : size ≤ 256) (h0 : cmapSize = 0 → s.numTypes ≤ size)
    (hcl : cmapSize ≠ 0 → s.numTypes * 2 ^ cb ≤ cmap.length)
    (hcm : cmapSize ≠ 0 → ∀ k, k < s.numTypes * 2 ^ cb → cmap.getD k 0 < size)
    (hcov : (histos.getD ((effMap cmap cmapSize s.numTypes (2 ^ cb)).getD (t * 2 ^ cb + ctx) 0) []).getD sym 0 ≠ 0) :
    ∃ b1 b2 e' cat' j', (∀ w, (if cmapSize = 0 then e.storeSymbol sym w else e.storeSymbolCtx sym ctx cmap cb w)
        = .ok (e', w ++ b1 ++ b2)) ∧
      (∀ rest, cat.next (b1 ++ rest) = some (cat', rest)) ∧ cat'.btype = t ∧ t < s.numTypes ∧
      (∀ rest, (codes.getD ((effMap cmap cmapSize s.numTypes (2 ^ cb)).getD (t * 2 ^ cb + ctx) 0) (Code.single 0)).read
        (b2 ++ rest) = some (sym, rest)) ∧
      EncInv s (if cmapSize = 0 then H else 2 ^ cb) e' cat' j' ∧ remTypes s j' e'.blockLen = tl ∧
      e'.depths = e.depths ∧ e'.bits = e.bits ∧ e'.histLen = H := by
  have hpow : 2 ^ cb ≤ 2 ^ 6 := Nat.pow_le_pow_right (by decide) hcb
  have p6 : (2 : Nat) ^ 6 = 64 := by decide
  by_cases hz : cmapSize = 0
  · rw [if_pos hz] at hE
    simp only [hz, if_true] at hcov ⊢
    -- the block type of this symbol, to evaluate the trivial map
    have htlt : t < s.numTypes := by
      have hb : 1 ≤ budget s j e.blockLen := by rw [← remTypes_length s h, hrem]; simp
      obtain ⟨_, e', _, j', _, _, a3, _, a5, _⟩ := adv_step s h H e cat j none hE
        (fun cb hcb => by cases hcb) (fun _ => hH.symm) (by unfold two64; omega) hb
      rw [hrem] at a5
      injection a5 with a5 _
      rw [a5]; exact h.tlt j' a3.ci.jlt
    have hg : (effMap cmap 0 s.numTypes (2 ^ cb)).getD (t * 2 ^ cb + ctx) 0 = t := by
      unfold effMap; rw [if_pos rfl]; exact trivialMap_get _ _ _ _ htlt hctx
    rw [hg] at hcov ⊢
    exact storeSymbol_step s h e cat j H codes histos size sym t tl hH hE (by unfold two64; omega) hrem hsym hio
      (h0 hz) hcov
  · rw [if_neg hz] at hE
    simp only [hz, if_false] at hcov ⊢
    have hg : effMap cmap cmapSize s.numTypes (2 ^ cb) = cmap := by unfold effMap; rw [if_neg hz]
    rw [hg] at hcov ⊢
    exact storeSymbolCtx_step s h e cat j H cb codes histos cmap size sym ctx t tl hH hE (by unfold two64; omega) hH704
      hrem hsym hctx hio hsz (hcl hz) (hcm hz) hcov

end BV.MetaBlock
