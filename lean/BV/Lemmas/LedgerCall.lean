import BV.Lemmas.LedgerEntry
/-!
`replace_frees_old` for a whole call: a `compress_stream` call is any number of `encode_data` rounds,
each round reaches the growth sites in a fixed order; whatever block sits in a field when a round
re-allocates that field is freed through the instance's allocator.
-/
namespace BV.Ledger

def Act.writes (s : Slot) : Act → Bool
  | .free t => decide (t = s)
  | .alloc _ t _ => decide (t = s)
  | .lose t => decide (t = s)
  | .move src dst => decide (src = s) || decide (dst = s)

theorem act_frame (w : W) (a : Act) (s : Slot) (h : a.writes s = false) : (w.act a).enc.get s = w.enc.get s := by
  cases a with
  | free t => simp [Act.writes] at h; simp [W.act, Enc.get_set_ne _ _ h]
  | alloc x t k => simp [Act.writes] at h; simp [W.act, Enc.get_set_ne _ _ h]
  | lose t => simp [Act.writes] at h; simp [W.act, Enc.get_set_ne _ _ h]
  | move src dst =>
    simp [Act.writes] at h
    by_cases hsd : src = dst
    · simp [W.act, hsd]
    · simp [W.act, hsd, Enc.get_set_ne _ _ h.1, Enc.get_set_ne _ _ h.2]

theorem acts_frame (w : W) (as : List Act) (s : Slot) (h : ∀ a ∈ as, a.writes s = false) :
    (w.acts as).enc.get s = w.enc.get s := by
  induction as generalizing w with
  | nil => rfl
  | cons a as ih =>
    rw [acts_cons, ih _ (fun x hx => h x (by simp [hx])), act_frame w a s (h a (by simp))]

/-- does the round re-allocate this field? -/
def CsDelta.grows (d : CsDelta) : Slot → Bool
  | .storage => d.storage.isSome
  | .table => d.table.isSome
  | .ring => d.ring.isSome
  | .commands => d.commands.isSome
  | _ => false

/-- the sites of one `encode_data` round -/
def roundActs (m8 : Nat) (d : CsDelta) : List Act :=
  csActs m8 d.storage.isSome d.q1bufs.isSome d.table.isSome d.ring.isSome d.commands.isSome d.hasher.length d.temps

theorem roundActs_eq_opActs (fl : Flags) (m8 : Nat) (d : CsDelta) : opActs fl m8 (.cs d) = roundActs m8 d := rfl

/-- a call = any number of rounds -/
def callActs (m8 : Nat) (ds : List CsDelta) : List Act := ds.flatMap (roundActs m8)

/-- the first action that writes slot `s` is `free s` -/
def freesFirst (s : Slot) : List Act → Bool
  | [] => false
  | a :: as => if a = .free s then true else if a.writes s then false else freesFirst s as

theorem acts_freesFirst (s : Slot) (b : BlockId) : ∀ (as : List Act) (w : W), freesFirst s as = true →
    b ∈ w.enc.get s → Ev.free w.m8 b ∈ (w.acts as).log := by
  intro as
  induction as with
  | nil => intro w h; simp [freesFirst] at h
  | cons a as ih =>
    intro w h hb
    rw [acts_cons]
    by_cases ha : a = .free s
    · subst ha
      obtain ⟨suf, hsuf⟩ := acts_log_prefix (w.act (.free s)) as
      rw [hsuf]
      apply List.mem_append_left
      simp only [W.act, List.mem_append, List.mem_map]
      exact Or.inr ⟨b, hb, rfl⟩
    · simp only [freesFirst, ha, if_false] at h
      cases hw : a.writes s
      · simp [hw] at h
        have := ih (w.act a) h (by rw [act_frame w a s hw]; exact hb)
        rwa [act_m8] at this
      · simp [hw] at h

/-- a round that re-allocates a field frees what the field held -/
theorem round_freesFirst (m8 : Nat) (d : CsDelta) (s : Slot) (hs : d.grows s = true) :
    freesFirst s (roundActs m8 d) = true := by
  unfold roundActs
  cases s <;> simp [CsDelta.grows] at hs <;>
    by_cases h1 : d.hasher.length = 0 <;> by_cases h2 : d.temps = 0 <;>
    cases h3 : d.storage.isSome <;> cases h4 : d.q1bufs.isSome <;> cases h5 : d.table.isSome <;>
    cases h6 : d.ring.isSome <;> cases h7 : d.commands.isSome <;>
    simp_all [csActs, storageGrowActs, tableGrowActs, ringOpt, ringInitActs, commandsGrowActs, scopedActs,
      freesFirst, Act.writes]

theorem callActs_append (m8 : Nat) (as bs : List CsDelta) : callActs m8 (as ++ bs) = callActs m8 as ++ callActs m8 bs := by
  simp [callActs]

theorem callActs_owned (m8 : Nat) (ds : List CsDelta) : ∀ a ∈ callActs m8 ds, a.owned m8 := by
  intro a ha
  simp only [callActs, List.mem_flatMap] at ha
  obtain ⟨d, _, had⟩ := ha
  exact (ownedB_iff m8 a).mp (List.all_eq_true.mp (csActs_owned m8 _ _ _ _ _ _ _) a had)

end BV.Ledger
