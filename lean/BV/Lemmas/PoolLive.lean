/-
Helper lemmas for C07, part 6: no lost wake-up, deadlock freedom
(invariant `InvL`, on top of `Inv`).
-/
import BV.Lemmas.PoolRoute

set_option linter.unusedSimpArgs false
set_option linter.unnecessarySimpa false
set_option linter.unusedVariables false

namespace BV.Lemmas.Pool
open BV.Gen BV.FixedQueue BV.Pool BV.Lemmas.FixedQueue

theorem no_waiting_wake (ws : List WPc) : ∀ p, p ∈ ws.map WPc.wake → p ≠ .waiting := by
  intro p hp
  obtain ⟨q, _, rfl⟩ := List.mem_map.mp hp
  exact wake_ne_waiting q

theorem exited_prefix_set {ws : List WPc} {i : Nat} {q : WPc} (p' : WPc) {t : Nat}
    (hw : ws[i]? = some q) (hq : q ≠ .exited)
    (h : ∀ k, 1 ≤ k → k < t → ws[k - 1]? = some .exited) :
    ∀ k, 1 ≤ k → k < t → (ws.set i p')[k - 1]? = some .exited := by
  intro k h1 h2
  have hk := h k h1 h2
  have hne : i ≠ k - 1 := by
    intro e; rw [e, hk] at hw; cases hw; exact hq rfl
  rw [List.getElem?_set]
  simp [hne, hk]

theorem exited_prefix_wake {ws : List WPc} {t : Nat}
    (h : ∀ k, 1 ≤ k → k < t → ws[k - 1]? = some .exited) :
    ∀ k, 1 ≤ k → k < t → (ws.map WPc.wake)[k - 1]? = some .exited := by
  intro k h1 h2
  simp [h k h1 h2, WPc.wake]

theorem wsum_pos_exists (g : WPc → Nat) {ws : List WPc} (h : 0 < wsum g ws) :
    ∃ p, p ∈ ws ∧ 0 < g p := by
  induction ws with
  | nil => simp at h
  | cons a t ih =>
    simp only [wsum_cons] at h
    by_cases c : 0 < g a
    · exact ⟨a, List.mem_cons_self, c⟩
    · obtain ⟨p, hp, hg⟩ := ih (by omega)
      exact ⟨p, List.mem_cons_of_mem _ hp, hg⟩

/-- the no-lost-wake-up invariant -/
structure InvL (s : State) : Prop where
  /-- a worker parked in `cvar.wait` has seen an empty jobs queue and no shutdown flag, and
  nothing has been pushed / no flag set since without a `notify_all` -/
  waitW : ∀ p, p ∈ s.workers → p = .waiting → s.jobs.size = 0 ∧ s.immediateShutdown = false
  /-- the submitter parks only in `join`, and its result has not been published since -/
  subWait : s.spc = .waiting → ∃ n rest, s.prog = .join n :: rest ∧ cntR n s.results.items = 0
  subWoken : s.spc = .woken → ∃ n rest, s.prog = .join n :: rest
  /-- workers exit only after `immediate_shutdown` -/
  noExit : s.immediateShutdown = false → ∀ p, p ∈ s.workers → p ≠ .exited
  joining : ∀ t, s.spc = .joining t → 1 ≤ t ∧ t ≤ s.workers.length ∧
    (∃ rest, s.prog = .dropPool :: rest) ∧ ∀ k, 1 ≤ k → k < t → s.workers[k - 1]? = some .exited
  /-- once `drop` has returned every worker has exited -/
  afterDrop : dropped s = true → ∀ p, p ∈ s.workers → p = .exited

theorem invL_init (n : Nat) (p : List Op) : InvL (init n p) := by
  refine ⟨?_, by simp [init], by simp [init], ?_, by simp [init], by simp [init, dropped]⟩
  · intro q hq hw
    simp only [init, List.mem_replicate] at hq
    rw [hq.2] at hw; cases hw
  · intro _ q hq
    simp only [init, List.mem_replicate] at hq
    rw [hq.2]; simp

theorem invL_step {s s' : State} {c : Choice} (I : Inv s) (L : InvL s)
    (h : step s c = .ok s') : InvL s' := by
  apply step_elim h
  · -- exitA
    intro i _ hw himm hs'
    have hmem : WPc.atLockA ∈ s.workers := List.mem_iff_getElem?.mpr ⟨i, hw⟩
    subst hs'
    refine ⟨?_, by simpa using L.subWait, by simpa using L.subWoken, ?_, ?_, ?_⟩
    · exact forall_set (P := fun p => p = .waiting → _) L.waitW i (by simp)
    · intro h0; simp [himm] at h0
    · intro t ht
      obtain ⟨h1, h2, h3, h4⟩ := L.joining t (by simpa using ht)
      exact ⟨h1, by simpa using h2, by simpa using h3,
        by simpa using exited_prefix_set .exited hw (by simp) h4⟩
    · intro hd
      have := L.afterDrop (by simpa using hd) _ hmem
      cases this
  · -- pop
    intro i j jobs' _ hw himm hpop hs'
    have hmem : WPc.atLockA ∈ s.workers := List.mem_iff_getElem?.mpr ⟨i, hw⟩
    subst hs'
    refine ⟨?_, ?_, ?_, ?_, ?_, ?_⟩
    · intro p hp hpw
      rcases List.mem_or_eq_of_mem_set hp with h1 | h1
      · exact absurd hpw (no_waiting_wake _ p h1)
      · rw [h1] at hpw; cases hpw
    · intro hs; cases hspc : s.spc <;> simp [hspc, SPc.wake] at hs
    · intro hs
      cases hspc : s.spc with
      | waiting => obtain ⟨n, rest, h1, _⟩ := L.subWait hspc; exact ⟨n, rest, h1⟩
      | woken => exact L.subWoken hspc
      | _ => simp [hspc, SPc.wake] at hs
    · intro h0 p hp
      rcases List.mem_or_eq_of_mem_set hp with h1 | h1
      · obtain ⟨q, hq, rfl⟩ := List.mem_map.mp h1
        intro e
        exact L.noExit (by simpa using h0) q hq (wake_eq_exited e)
      · rw [h1]; simp
    · intro t ht
      have ht' : s.spc = .joining t := by
        cases hspc : s.spc <;> simp [hspc, SPc.wake] at ht ⊢
        exact ht
      obtain ⟨h1, h2, h3, h4⟩ := L.joining t ht'
      refine ⟨h1, by simpa using h2, by simpa using h3, ?_⟩
      have hw' : (s.workers.map WPc.wake)[i]? = some .atLockA := by simp [hw, WPc.wake]
      simpa using exited_prefix_set (.atRun j) hw' (by simp) (exited_prefix_wake h4)
    · intro hd
      have := L.afterDrop (by simpa [dropped] using hd) _ hmem
      cases this
  · -- exitS
    intro i jobs' _ hw _ hpop hsd hs'
    rw [I.noShutdown] at hsd; cases hsd
  · -- waitW
    intro i jobs' _ hw himm hpop _ hs'
    obtain ⟨rfl, hsz⟩ := pop_none_spec I.wfJ hpop
    have hmem : WPc.atLockA ∈ s.workers := List.mem_iff_getElem?.mpr ⟨i, hw⟩
    subst hs'
    refine ⟨?_, by simpa using L.subWait, by simpa using L.subWoken, ?_, ?_, ?_⟩
    · exact forall_set (P := fun p => p = .waiting → _) L.waitW i (fun _ => ⟨hsz, himm⟩)
    · intro h0
      exact forall_set (L.noExit (by simpa using h0)) i (by simp)
    · intro t ht
      obtain ⟨h1, h2, h3, h4⟩ := L.joining t (by simpa using ht)
      exact ⟨h1, by simpa using h2, by simpa using h3,
        by simpa using exited_prefix_set .waiting hw (by simp) h4⟩
    · intro hd
      have := L.afterDrop (by simpa [dropped] using hd) _ hmem
      cases this
  · -- run
    intro i j _ hw hs'
    have hmem : WPc.atRun j ∈ s.workers := List.mem_iff_getElem?.mpr ⟨i, hw⟩
    subst hs'
    refine ⟨?_, by simpa using L.subWait, by simpa using L.subWoken, ?_, ?_, ?_⟩
    · exact forall_set (P := fun p => p = .waiting → _) L.waitW i (by simp)
    · intro h0
      exact forall_set (L.noExit (by simpa using h0)) i (by simp)
    · intro t ht
      obtain ⟨h1, h2, h3, h4⟩ := L.joining t (by simpa using ht)
      exact ⟨h1, by simpa using h2, by simpa using h3,
        by simpa using exited_prefix_set _ hw (by simp) h4⟩
    · intro hd
      have := L.afterDrop (by simpa [dropped] using hd) _ hmem
      cases this
  · -- publish
    intro i r results' _ hw hn hpush hs'
    have hmem : WPc.atLockB r ∈ s.workers := List.mem_iff_getElem?.mpr ⟨i, hw⟩
    subst hs'
    refine ⟨?_, ?_, ?_, ?_, ?_, ?_⟩
    · intro p hp hpw
      rcases List.mem_or_eq_of_mem_set hp with h1 | h1
      · exact absurd hpw (no_waiting_wake _ p h1)
      · rw [h1] at hpw; cases hpw
    · intro hs; cases hspc : s.spc <;> simp [hspc, SPc.wake] at hs
    · intro hs
      cases hspc : s.spc with
      | waiting => obtain ⟨n, rest, h1, _⟩ := L.subWait hspc; exact ⟨n, rest, h1⟩
      | woken => exact L.subWoken hspc
      | _ => simp [hspc, SPc.wake] at hs
    · intro h0 p hp
      rcases List.mem_or_eq_of_mem_set hp with h1 | h1
      · obtain ⟨q, hq, rfl⟩ := List.mem_map.mp h1
        intro e
        exact L.noExit (by simpa using h0) q hq (wake_eq_exited e)
      · rw [h1]; simp
    · intro t ht
      have ht' : s.spc = .joining t := by
        cases hspc : s.spc <;> simp [hspc, SPc.wake] at ht ⊢
        exact ht
      obtain ⟨h1, h2, h3, h4⟩ := L.joining t ht'
      refine ⟨h1, by simpa using h2, by simpa using h3, ?_⟩
      have hw' : (s.workers.map WPc.wake)[i]? = some (.atLockB r) := by simp [hw, WPc.wake]
      simpa using exited_prefix_set .atLockA hw' (by simp) (exited_prefix_wake h4)
    · intro hd
      have := L.afterDrop (by simpa [dropped] using hd) _ hmem
      cases this
  · -- wake
    intro i _ hw hs'
    have hmem : WPc.woken ∈ s.workers := List.mem_iff_getElem?.mpr ⟨i, hw⟩
    subst hs'
    refine ⟨?_, by simpa using L.subWait, by simpa using L.subWoken, ?_, ?_, ?_⟩
    · exact forall_set (P := fun p => p = .waiting → _) L.waitW i (by simp)
    · intro h0
      exact forall_set (L.noExit (by simpa using h0)) i (by simp)
    · intro t ht
      obtain ⟨h1, h2, h3, h4⟩ := L.joining t (by simpa using ht)
      exact ⟨h1, by simpa using h2, by simpa using h3,
        by simpa using exited_prefix_set _ hw (by simp) h4⟩
    · intro hd
      have := L.afterDrop (by simpa using hd) _ hmem
      cases this
  · -- spawn
    intro idx rest jobs' _ hspc hp _ hpush hs'
    have hc := I.contr
    rw [hp, dropped_of_spc hspc] at hc
    simp only [contractFrom, Bool.and_eq_true, Bool.not_eq_true', decide_eq_true_eq] at hc
    obtain ⟨⟨himm, _⟩, _⟩ := hc
    subst hs'
    refine ⟨?_, by simp, by simp, ?_, by simp, ?_⟩
    · intro p hp' hpw
      exact absurd hpw (no_waiting_wake _ p (by simpa using hp'))
    · intro _ p hp'
      obtain ⟨q, hq, rfl⟩ := List.mem_map.mp (by simpa using hp')
      intro e
      exact L.noExit himm q hq (wake_eq_exited e)
    · intro hd
      simp [dropped, isJoining, himm] at hd
  · -- spawnWait: unreachable under the contract
    intro idx rest _ _ hp hnc hs'
    exact absurd (spawn_cond_of_inv I) hnc
  · -- join
    intro n rest j r results' _ hspc hp hsp hrm hs'
    have hc := I.contr
    rw [hp, dropped_of_spc hspc] at hc
    simp only [contractFrom, Bool.and_eq_true, Bool.not_eq_true', decide_eq_true_eq] at hc
    obtain ⟨⟨⟨himm, _⟩, _⟩, _⟩ := hc
    subst hs'
    refine ⟨by simpa using L.waitW, by simp, by simp, by simpa using L.noExit, by simp, ?_⟩
    intro hd
    simp [dropped, isJoining, himm] at hd
  · -- joinWait
    intro n rest j results' _ hspc hp hsp hrm hs'
    have hc := I.contr
    rw [hp, dropped_of_spc hspc] at hc
    simp only [contractFrom, Bool.and_eq_true, Bool.not_eq_true', decide_eq_true_eq] at hc
    obtain ⟨⟨⟨himm, hn⟩, _⟩, _⟩ := hc
    have hjn : j.workId = n := by
      have h1 : (s.spawned.map Job.workId)[n]? = some j.workId := by simp [hsp]
      rw [I.spawnedIds, List.getElem?_range hn] at h1
      cases h1; rfl
    rcases remove_spec I.wfR (matchId j.workId) with ⟨h1, h2⟩ | ⟨k, x, q', _, _, _, h4, _⟩
    · rw [hrm] at h2; cases h2
      have hcnt : cntR n s.results.items = 0 := by
        unfold cntR
        rw [List.countP_eq_zero]
        intro x hx
        have := h1 x hx
        simpa [matchId, hjn] using this
      subst hs'
      refine ⟨by simpa using L.waitW, ?_, by simp, by simpa using L.noExit, by simp, ?_⟩
      · intro _; exact ⟨n, rest, by simpa using hp, by simpa using hcnt⟩
      · intro hd
        simp [dropped, isJoining, himm] at hd
    · rw [hrm] at h4; cases h4
  · -- unwrap
    intro rest _ hspc hp hs'
    have hd0 := dropped_of_spc hspc
    subst hs'
    refine ⟨by simpa using L.waitW, by simp, by simp, by simpa using L.noExit, by simp, ?_⟩
    intro hd
    exact L.afterDrop (by rw [hd0]; simpa [dropped, isJoining] using hd)
  · -- drop
    intro rest _ hspc hp hs'
    rcases joinFrom_cases ({ s with immediateShutdown := true }.notifyAll) 1 rest true
      (Nat.le_refl _) with ⟨t, ht1, ht2, _, _, ht5, e⟩ | ⟨hall, e⟩
    · rw [e] at hs'; subst hs'
      refine ⟨?_, by simp, by simp, by simp, ?_, by simp [dropped, isJoining]⟩
      · intro p hp' hpw
        exact absurd hpw (no_waiting_wake _ p (by simpa using hp'))
      · intro t' ht'
        simp only [log_spc, SPc.joining.injEq] at ht'
        subst ht'
        exact ⟨ht1, by simpa using ht2, ⟨rest, by simpa using hp⟩, by simpa using ht5⟩
    · rw [e] at hs'; subst hs'
      refine ⟨?_, by simp, by simp, by simp, by simp, ?_⟩
      · intro p hp' hpw
        exact absurd hpw (no_waiting_wake _ p (by simpa using hp'))
      · intro _ p hp'
        obtain ⟨k, hk⟩ := List.mem_iff_getElem?.mp hp'
        have hlt : k < (s.workers.map WPc.wake).length := by
          rcases Nat.lt_or_ge k (s.workers.map WPc.wake).length with h | h
          · exact h
          · simp only [log_workers, notifyAll_workers] at hk
            rw [List.getElem?_eq_none h] at hk; cases hk
        have := hall (k + 1) (by omega) (by simp at hlt ⊢; omega)
        simp only [Nat.add_sub_cancel, notifyAll_workers] at this
        simp only [log_workers, notifyAll_workers] at hk
        rw [this] at hk; cases hk; rfl
  · -- joinW
    intro t rest _ hspc hp hex hs'
    obtain ⟨g1, g2, g3, g4⟩ := L.joining t hspc
    have himm := I.joinImm (by simp [hspc, isJoining])
    rcases joinFrom_cases s (t + 1) rest false (by omega) with ⟨t', ht1, ht2, _, _, ht5, e⟩ | ⟨hall, e⟩
    · rw [e] at hs'; subst hs'
      refine ⟨by simpa using L.waitW, by simp, by simp, by simp [himm], ?_,
        by simp [dropped, isJoining]⟩
      intro t'' ht''
      simp only [log_spc, SPc.joining.injEq] at ht''
      subst ht''
      refine ⟨by omega, by simpa using ht2, ⟨rest, by simpa using hp⟩, ?_⟩
      intro k hk1 hk2
      simp only [log_workers]
      by_cases c : k < t
      · exact g4 k hk1 c
      · by_cases c2 : k = t
        · rw [c2]; exact hex
        · exact ht5 k (by omega) hk2
    · rw [e] at hs'; subst hs'
      refine ⟨by simpa using L.waitW, by simp, by simp, by simp [himm], by simp, ?_⟩
      intro _ p hp'
      obtain ⟨k, hk⟩ := List.mem_iff_getElem?.mp hp'
      simp only [log_workers] at hk
      have hlt : k < s.workers.length := by
        rcases Nat.lt_or_ge k s.workers.length with h | h
        · exact h
        · rw [List.getElem?_eq_none h] at hk; cases hk
      have hex' : s.workers[k]? = some .exited := by
        by_cases c : k + 1 < t
        · simpa using g4 (k + 1) (by omega) c
        · by_cases c2 : k + 1 = t
          · rw [← c2] at hex; simpa using hex
          · simpa using hall (k + 1) (by omega) (by omega)
      rw [hex'] at hk; cases hk; rfl
  · -- spurS
    intro _ hspc hs'
    obtain ⟨n, rest, h1, _⟩ := L.subWait hspc
    have hd0 : dropped s = s.immediateShutdown := by simp [dropped, hspc, isJoining]
    subst hs'
    refine ⟨by simpa using L.waitW, by simp, ?_, by simpa using L.noExit, by simp, ?_⟩
    · intro _; exact ⟨n, rest, by simpa using h1⟩
    · intro hd
      exact L.afterDrop (by rw [hd0]; simpa [dropped, isJoining] using hd)
  · -- spurW
    intro tid _ _ hw hs'
    have hmem : WPc.waiting ∈ s.workers := List.mem_iff_getElem?.mpr ⟨_, hw⟩
    subst hs'
    refine ⟨?_, by simpa using L.subWait, by simpa using L.subWoken, ?_, ?_, ?_⟩
    · exact forall_set (P := fun p => p = .waiting → _) L.waitW _ (by simp)
    · intro h0
      exact forall_set (L.noExit (by simpa using h0)) _ (by simp)
    · intro t ht
      obtain ⟨h1, h2, h3, h4⟩ := L.joining t (by simpa using ht)
      exact ⟨h1, by simpa using h2, by simpa using h3,
        by simpa using exited_prefix_set _ hw (by simp) h4⟩
    · intro hd
      have := L.afterDrop (by simpa using hd) _ hmem
      cases this

theorem invL_reachable {n : Nat} {p : List Op} (hc : contract p = true) {s : State}
    (hr : Reachable n p s) : InvL s := by
  induction hr with
  | init => exact invL_init n p
  | step hr' hs ih => exact invL_step (inv_reachable hc hr') ih hs

/-! ### deadlock freedom -/

theorem runnable_of_not {p : WPc} (h1 : p ≠ .waiting) (h2 : p ≠ .exited) : p.runnable = true := by
  cases p <;> simp [WPc.runnable] at h1 h2 ⊢

/-- whenever the run is not complete, some thread can be scheduled — without the help of a
spurious wake-up -/
theorem runnable_of_inv {s : State} (I : Inv s) (L : InvL s) (hn : 1 ≤ s.workers.length)
    (hnd : s.done = false) : s.anyRunnable = true := by
  unfold State.anyRunnable
  rw [Bool.or_eq_true, List.any_eq_true]
  cases hspc : s.spc with
  | ready =>
    cases hp : s.prog with
    | cons op rest => left; simp [State.subRunnable, hspc, hp]
    | nil =>
      -- finished: then `done` unless dropped with live workers, which `afterDrop` excludes
      exfalso
      simp only [State.done, State.finished, hspc, hp, List.isEmpty_nil, beq_self_eq_true,
        Bool.and_self, Bool.true_and, Bool.or_eq_false_iff, Bool.not_eq_false',
        List.all_eq_false] at hnd
      obtain ⟨himm, q, hq, hne⟩ := hnd
      have := L.afterDrop (by simp [dropped, hspc, isJoining, himm]) q hq
      simp [this] at hne
  | woken =>
    obtain ⟨n, rest, hp⟩ := L.subWoken hspc
    left; simp [State.subRunnable, hspc, hp]
  | waiting =>
    right
    obtain ⟨n, rest, hp, hcnt⟩ := L.subWait hspc
    have hc := I.contr
    have hd0 : dropped s = s.immediateShutdown := by simp [dropped, hspc, isJoining]
    rw [hp, hd0] at hc
    simp only [contractFrom, Bool.and_eq_true, Bool.not_eq_true', decide_eq_true_eq,
      List.contains_eq_mem, decide_eq_false_iff_not] at hc
    obtain ⟨⟨⟨himm, hlt⟩, hnj⟩, _⟩ := hc
    have hpart := I.part n
    rw [hcnt, below_of_lt hlt, List.count_eq_zero_of_not_mem hnj] at hpart
    by_cases cj : 0 < cntJ n s.jobs.items
    · -- still queued: nobody sleeps on a non-empty queue, and worker 1 is alive
      have hsz : 0 < s.jobs.size := by
        rw [← I.wfJ.length_items]
        cases hi : s.jobs.items with
        | nil => rw [hi] at cj; simp [cntJ] at cj
        | cons _ _ => simp
      have hmem : s.workers[0] ∈ s.workers := List.getElem_mem hn
      refine ⟨s.workers[0], hmem, runnable_of_not ?_ (L.noExit himm _ hmem)⟩
      intro hw
      have := (L.waitW _ hmem hw).1
      omega
    · -- popped: the worker that holds it is runnable
      obtain ⟨q, hq, hg⟩ := wsum_pos_exists (hasId n) (ws := s.workers) (by omega)
      refine ⟨q, hq, ?_⟩
      cases q <;> simp [hasId, WPc.runnable] at hg ⊢
  | joining t =>
    obtain ⟨h1, h2, _, _⟩ := L.joining t hspc
    have himm := I.joinImm (by simp [hspc, isJoining])
    have hlt : t - 1 < s.workers.length := by omega
    by_cases hex : s.workers[t - 1] = .exited
    · left
      simp [State.subRunnable, hspc, List.getElem?_eq_getElem hlt, hex]
    · right
      have hmem : s.workers[t - 1] ∈ s.workers := List.getElem_mem hlt
      refine ⟨_, hmem, runnable_of_not ?_ hex⟩
      intro hw
      have := (L.waitW _ hmem hw).2
      rw [himm] at this; cases this

end BV.Lemmas.Pool
