import BV.Model.FFIStream
import BV.Lemmas.FFI
import BV.Lemmas.AdaptersStream
/-
C13 over the stream-machine model: the un-wrapped entry points are total, and the stream wrapper
issues the very request of the Rust call and hands back its cursors.
-/
namespace BV.FFI
open BV.Stream BV.Bits

/-- the pending bytes lie inside the buffer `next_out_` points into -/
def OutOk (s : St) : Prop :=
  match s.nextOut with
  | .dyn off => off + s.pending.length ≤ s.storageSize
  | .tiny off => off + s.pending.length ≤ 16
  | .none => True

theorem takeSliceOk_of_outOk {s : St} (h : OutOk s) : takeSliceOk s = true := by
  unfold OutOk at h
  unfold takeSliceOk
  split at h <;> simp_all <;> omega

theorem outOk_checkFlushComplete {t : St} (h : OutOk t) : OutOk (checkFlushComplete t) := by
  unfold checkFlushComplete
  split
  · simp [OutOk]
  · exact h

theorem outOk_takeAdvance {s : St} (c : Nat) (h : OutOk s) (hc : c ≤ s.pending.length) : OutOk (takeAdvance s c) := by
  unfold OutOk at h ⊢
  cases hn : s.nextOut with
  | dyn off =>
    rw [hn] at h
    simp only [takeAdvance, hn, nextOutIncrement, List.length_drop] at h ⊢
    have := Nat.mod_le (off + c) two32
    omega
  | tiny off =>
    rw [hn] at h
    simp only [takeAdvance, hn, nextOutIncrement, List.length_drop] at h ⊢
    have := Nat.mod_le (off + c) two32
    omega
  | none => simp [takeAdvance, hn, nextOutIncrement]

/-- `take_output` keeps the pending bytes inside their buffer -/
theorem takeOutput_outOk {s s' : St} {size : Nat} {out : List Nat} (h : OutOk s)
    (ht : BV.Stream.takeOutput s size = .ok (s', out)) : OutOk s' := by
  unfold BV.Stream.takeOutput at ht
  split at ht
  · simp at ht
  · split at ht
    · simp only [Out.ok.injEq, Prod.mk.injEq] at ht
      obtain ⟨rfl, _⟩ := ht
      have hc : takeCount s size ≤ s.pending.length := by
        unfold takeCount; split <;> omega
      exact outOk_checkFlushComplete (outOk_takeAdvance _ h hc)
    · simp only [Out.ok.injEq, Prod.mk.injEq] at ht
      obtain ⟨rfl, _⟩ := ht
      exact h

theorem takeOutput_ne_fuel (s : St) (size : Nat) : BV.Stream.takeOutput s size ≠ .fuel := by
  unfold BV.Stream.takeOutput
  split
  · simp
  · split <;> simp

theorem ffiTakeOutput_ne_fuel (s : St) (size : Nat) : ffiTakeOutput s size ≠ .fuel := by
  unfold ffiTakeOutput
  have := takeOutput_ne_fuel s size
  split <;> simp_all

theorem takeOutput_panic_iff (s : St) (size : Nat) : BV.Stream.takeOutput s size = .panic ↔ takeSliceOk s = false := by
  unfold BV.Stream.takeOutput
  cases h : takeSliceOk s
  · simp
  · simp only [Bool.not_true, Bool.false_eq_true, if_false]
    constructor
    · intro hh; split at hh <;> simp at hh
    · intro hh; cases hh

/-- for PROCESS / FLUSH / FINISH from a good state the modelled `compress_stream` moves each offset
together with its counter: the hypothesis `CursorsAgree` of `ffi_cursor_exact` is a theorem here -/
theorem cursorsAgree_of_stream {o : Oracle} {B fuel op : Nat} {s s' : St} {io' : Io} {r : Bool} {input : List Nat}
    (c : StreamCall) (hop : op ≤ 2) (hG : Good s) (hlen : input.length = c.availIn)
    (hw : s.inputPos + input.length < two64) (hB : OracleBounded o B)
    (h : BV.Stream.compressStream o fuel s op input c.availOut = .ok (s', io', r)) :
    CursorsAgree c (ansOfStream c.availIn c.availOut (.ok (s', io', r))) := by
  obtain ⟨q1, q2, _, _⟩ := call_good hop hG hw hB (Nat.le_refl _) h
  constructor
  · show c.availIn - io'.availIn + io'.availIn = c.availIn
    omega
  · show io'.out.length + io'.availOut = c.availOut
    exact q1

end BV.FFI
