import BV.Model.FFIStream
import BV.Lemmas.FFI
import BV.Lemmas.AdaptersStream
import BV.Lemmas.StreamTotal
import BV.Lemmas.StreamTinyFree
/-
C13 over the stream-machine model: the un-wrapped entry points are total, and the stream wrapper
issues the very request of the Rust call and hands back its cursors.
-/
namespace BV.FFI
open BV.Stream BV.Bits

/-- the pending bytes lie inside the buffer `next_out_` points into -/
def OutOk (s : St) : Prop :=
  match s.nextOut with
  | .dyn off => off + s.pending.length ≤ s.storageSize
  | .tiny off => off + s.pending.length ≤ 16
  | .none => True

theorem takeSliceOk_of_outOk {s : St} (h : OutOk s) : takeSliceOk s = true := by
  unfold OutOk at h
  unfold takeSliceOk
  split at h <;> simp_all <;> omega

theorem outOk_checkFlushComplete {t : St} (h : OutOk t) : OutOk (checkFlushComplete t) := by
  unfold checkFlushComplete
  split
  · simp [OutOk]
  · exact h

theorem outOk_takeAdvance {s : St} (c : Nat) (h : OutOk s) (hc : c ≤ s.pending.length) : OutOk (takeAdvance s c) := by
  unfold OutOk at h ⊢
  cases hn : s.nextOut with
  | dyn off =>
    rw [hn] at h
    simp only [takeAdvance, hn, nextOutIncrement, List.length_drop] at h ⊢
    have := Nat.mod_le (off + c) two32
    omega
  | tiny off =>
    rw [hn] at h
    simp only [takeAdvance, hn, nextOutIncrement, List.length_drop] at h ⊢
    have := Nat.mod_le (off + c) two32
    omega
  | none => simp [takeAdvance, hn, nextOutIncrement]

/-- `take_output` keeps the pending bytes inside their buffer -/
theorem takeOutput_outOk {s s' : St} {size : Nat} {out : List Nat} (h : OutOk s)
    (ht : BV.Stream.takeOutput s size = .ok (s', out)) : OutOk s' := by
  unfold BV.Stream.takeOutput at ht
  split at ht
  · simp at ht
  · split at ht
    · simp only [Out.ok.injEq, Prod.mk.injEq] at ht
      obtain ⟨rfl, _⟩ := ht
      have hc : takeCount s size ≤ s.pending.length := by
        unfold takeCount; split <;> omega
      exact outOk_checkFlushComplete (outOk_takeAdvance _ h hc)
    · simp only [Out.ok.injEq, Prod.mk.injEq] at ht
      obtain ⟨rfl, _⟩ := ht
      exact h

theorem takeOutput_ne_fuel (s : St) (size : Nat) : BV.Stream.takeOutput s size ≠ .fuel := by
  unfold BV.Stream.takeOutput
  split
  · simp
  · split <;> simp

theorem ffiTakeOutput_ne_fuel (s : St) (size : Nat) : ffiTakeOutput s size ≠ .fuel := by
  unfold ffiTakeOutput
  have := takeOutput_ne_fuel s size
  split <;> simp_all

theorem takeOutput_panic_iff (s : St) (size : Nat) : BV.Stream.takeOutput s size = .panic ↔ takeSliceOk s = false := by
  unfold BV.Stream.takeOutput
  cases h : takeSliceOk s
  · simp
  · simp only [Bool.not_true, Bool.false_eq_true, if_false]
    constructor
    · intro hh; split at hh <;> simp at hh
    · intro hh; cases hh

/-- for PROCESS / FLUSH / FINISH from a good state the modelled `compress_stream` moves each offset
together with its counter (kept for reference; `cursorsAgree_of_stream_all` below covers all four
operations from any invariant-satisfying state) -/
theorem cursorsAgree_of_stream {o : Oracle} {fuel op : Nat} {s s' : St} {io' : Io} {r : Bool} {input : List Nat}
    (c : StreamCall) (hop : op ≤ 2) (hG : Good s) (hlen : input.length = c.availIn)
    (hw : s.inputPos + input.length < two64)
    (h : BV.Stream.compressStream o fuel s op input c.availOut = .ok (s', io', r)) :
    CursorsAgree c (ansOfStream c.availIn c.availOut (.ok (s', io', r))) := by
  obtain ⟨q1, q2, _, _⟩ := call_good hop hG hw h
  constructor
  · show c.availIn - io'.availIn + io'.availIn = c.availIn
    omega
  · show io'.out.length + io'.availOut = c.availOut
    exact q1

/-! ### all four operations, no hypothesis on the payload encoder (byte ledger, `Lemmas/StreamTotal`) -/

/-- `CursorsAgree` is a theorem of the modelled `compress_stream` for PROCESS / FLUSH / FINISH /
EMIT_METADATA, accepted or refused, from a fresh or an invariant-satisfying state — and the slice
still to be read is the offered slice minus its first `offered - available_in` bytes -/
theorem cursorsAgree_of_stream_all {o : Oracle} {fuel op : Nat} {s s' : St} {io' : Io} {r : Bool} {input : List Nat}
    (c : StreamCall) (hop : op ≤ 3) (hR : IsFresh s ∨ Inv s) (hlen : input.length = c.availIn)
    (hw : s.inputPos + input.length < two64)
    (h : BV.Stream.compressStream o fuel s op input c.availOut = .ok (s', io', r)) :
    CursorsAgree c (ansOfStream c.availIn c.availOut (.ok (s', io', r))) ∧
    io'.input = input.drop (c.availIn - io'.availIn) := by
  have hL := call_ledger_run 0 hop hR hw h
  have h1 := hL.outBal
  have h2 := hL.inLe
  have h3 := hL.inEq
  simp only at h1 h2 h3
  refine ⟨⟨?_, ?_⟩, by rw [← hlen]; exact h3⟩
  · show c.availIn - io'.availIn + io'.availIn = c.availIn
    omega
  · show io'.out.length + io'.availOut = c.availOut
    exact h1

/-- what `compress_stream` leaves in `total_out_`: the total at entry plus the bytes it stored at
`next_out`, wrapping at 2^64 (`T0`: any number the total at entry is congruent to) -/
theorem totalOut_of_stream {o : Oracle} {fuel op cap : Nat} (T0 : Nat) {s s' : St} {io' : Io} {r : Bool} {input : List Nat}
    (hop : op ≤ 3) (hR : IsFresh s ∨ Inv s) (hw : s.inputPos + input.length < two64) (hT : s.totalOut = T0 % two64)
    (h : BV.Stream.compressStream o fuel s op input cap = .ok (s', io', r)) :
    s'.totalOut = (T0 + io'.out.length) % two64 :=
  (call_ledger_run T0 hop hR hw h).total hT

/-- `TotalTracks` is a theorem of the modelled `compress_stream` as long as the 64-bit counter does
not wrap (fewer than 2^64 bytes delivered) -/
theorem totalTracks_of_stream {o : Oracle} {fuel op : Nat} {s s' : St} {io' : Io} {r : Bool} {input : List Nat}
    (c : StreamCall) (hop : op ≤ 3) (hR : IsFresh s ∨ Inv s) (hw : s.inputPos + input.length < two64)
    (hnw : s.totalOut + c.availOut < two64)
    (h : BV.Stream.compressStream o fuel s op input c.availOut = .ok (s', io', r)) :
    TotalTracks { c with encTotal := s.totalOut } (ansOfStream c.availIn c.availOut (.ok (s', io', r))) := by
  have hL := call_ledger_run s.totalOut hop hR hw h
  have h1 := hL.outBal
  have h2 := hL.total (Nat.mod_eq_of_lt (by omega)).symm
  simp only at h1 h2
  have hlt : s.totalOut + io'.out.length < two64 := by omega
  rw [Nat.mod_eq_of_lt hlt] at h2
  unfold TotalTracks
  simp only [ansOfStream]
  by_cases h0 : io'.out.length = 0 <;> simp [h0, h2]

/-! ### a history of C ABI calls on one instance -/

/-- the history is within the contract: operation codes in range, every input pointer really
addresses `available_in` bytes (pointer validity is the caller's obligation) -/
def FfiHistOK (mem : Mem) : List FfiCall → Prop
  | [] => True
  | .stream op c :: cs => op ≤ 3 ∧ (inputSlice mem c.nextIn c.availIn).length = c.availIn ∧ FfiHistOK mem cs
  | _ :: cs => FfiHistOK mem cs

/-- bytes offered by the stream calls of a history -/
def ffiHistLen : List FfiCall → Nat
  | [] => 0
  | .stream _ c :: cs => c.availIn + ffiHistLen cs
  | _ :: cs => ffiHistLen cs

theorem ffiSetParameter_fst (s : St) (id v : Nat) : (ffiSetParameter s id v).1 = (setParameter s id v).1 := by
  unfold ffiSetParameter
  cases h : setParameter s id v with
  | mk s' b => cases b <;> rfl

/-- the value a stream call leaves in `*total_out` (non-null pointer, no unwinding) is the
instance's `total_out_` after the call -/
theorem ffi_cell_is_total (o : Oracle) (fuel : Nat) (s : St) (mem : Mem) (op : Nat) (c : StreamCall)
    (s' : St) (io' : Io) (r : Bool) (hptr : c.totalOutPtr = true) (hT : s.totalOut < two64)
    (hR : IsFresh s ∨ Inv s) (hop : op ≤ 3) (hw : s.inputPos + (inputSlice mem c.nextIn c.availIn).length < two64)
    (h : BV.Stream.compressStream o fuel s op (inputSlice mem c.nextIn c.availIn) c.availOut = .ok (s', io', r)) :
    (ffiCompressStream o fuel s mem op c).2.1.totalOutCell = s'.totalOut := by
  unfold ffiCompressStream
  simp only [h]
  simp only [BV.FFI.compressStream, ansOfStream, Bool.false_eq_true, if_false, hptr, if_true]
  by_cases h0 : io'.out.length = 0
  · rw [if_pos h0]
    simp only
    have := totalOut_of_stream s.totalOut hop hR hw (Nat.mod_eq_of_lt hT).symm h
    rw [this, h0, Nat.add_zero, Nat.mod_eq_of_lt hT]
  · rw [if_neg h0]

theorem ffiCompressStream_ok (o : Oracle) (fuel : Nat) (s : St) (mem : Mem) (op : Nat) (c : StreamCall)
    {s' : St} {io' : Io} {r : Bool}
    (h : BV.Stream.compressStream o fuel s op (inputSlice mem c.nextIn c.availIn) c.availOut = .ok (s', io', r)) :
    (ffiCompressStream o fuel s mem op c).1 = s' ∧ (ffiCompressStream o fuel s mem op c).2.2 = io'.out := by
  simp [ffiCompressStream, h]

theorem ffiTakeOutput_ok {s s' : St} {size n : Nat} {bytes : List Nat} (h : ffiTakeOutput s size = .ok (s', n, bytes)) :
    BV.Stream.takeOutput s size = .ok (s', bytes) := by
  unfold ffiTakeOutput at h
  split at h
  · rename_i s1 b1 h1
    simp only [Out.ok.injEq, Prod.mk.injEq] at h
    obtain ⟨rfl, _, rfl⟩ := h
    exact h1
  · simp at h
  · simp at h

/-- **`total_out` along a whole history of C ABI calls**: the instance's `total_out_` is the number
of bytes delivered so far — stored at `*next_out` by the stream calls (all four operations, accepted
or refused) AND handed out by pointer through `BrotliEncoderTakeOutput` — modulo 2^64, and every
value a stream call stored through a non-null `total_out` pointer is that number at that moment -/
theorem ffiRun_total {o : Oracle} {fuel : Nat} {mem : Mem} {calls : List FfiCall} {s0 s : St} {seen0 seen : FfiSeen}
    (hR : RunOK s0) (hok : FfiHistOK mem calls) (hw : s0.inputPos + ffiHistLen calls < two64)
    (hT : s0.totalOut = seen0.delivered.length % two64) (hC : ∀ x ∈ seen0.cells, x.1 = x.2 % two64)
    (h : ffiRun o fuel mem calls s0 seen0 = some (s, seen)) :
    s.totalOut = seen.delivered.length % two64 ∧ ∀ x ∈ seen.cells, x.1 = x.2 % two64 := by
  induction calls generalizing s0 seen0 with
  | nil =>
    simp only [ffiRun, Option.some.injEq, Prod.mk.injEq] at h
    obtain ⟨rfl, rfl⟩ := h
    exact ⟨hT, hC⟩
  | cons c cs ih =>
    cases c with
    | setParam id v =>
      simp only [ffiRun] at h
      have hrc : runCall o fuel s0 {} (.setParam id v) = .ok ((setParameter s0 id v).1, { results := [(setParameter s0 id v).2] }) := rfl
      obtain ⟨hip, _, f1⟩ := runCall_facts (c := .setParam id v) hR (by trivial) hrc
      rw [ffiSetParameter_fst] at h
      refine ih f1.ok hok ?_ ?_ hC h
      · simp only [Call.len, ffiHistLen] at hip hw ⊢; omega
      · rw [setParameter_totalOut]; exact hT
    | hasMore => simp only [ffiRun] at h; exact ih hR hok hw hT hC h
    | isFinished => simp only [ffiRun] at h; exact ih hR hok hw hT hC h
    | stream op c =>
      simp only [ffiRun] at h
      obtain ⟨hop, hlen, hok'⟩ := hok
      simp only [ffiHistLen] at hw
      split at h
      · rename_i x hcs
        obtain ⟨s1, io1, r1⟩ := x
        obtain ⟨e1, e2⟩ := ffiCompressStream_ok o fuel s0 mem op c hcs
        have hw0 : s0.inputPos + (inputSlice mem c.nextIn c.availIn).length < two64 := by rw [hlen]; omega
        have hrc : runCall o fuel s0 {} (.stream op (inputSlice mem c.nextIn c.availIn) c.availOut)
            = .ok (s1, Trace.afterStream o {} (ensureInitialized s0) op (inputSlice mem c.nextIn c.availIn) io1 r1) := by
          simp only [runCall, hcs]
        obtain ⟨hip, _, f1⟩ := runCall_facts (c := .stream op (inputSlice mem c.nextIn c.availIn) c.availOut) hR (show op ≤ 3 ∧ _ from ⟨hop, hw0⟩) hrc
        have htot := totalOut_of_stream seen0.delivered.length hop hR.inv hw0 hT hcs
        have hlt : s0.totalOut < two64 := by rw [hT]; exact Nat.mod_lt _ (by unfold two64; omega)
        rw [e1, e2] at h
        refine ih f1.ok hok' ?_ ?_ ?_ h
        · simp only [Call.len] at hip; rw [hlen] at hip; omega
        · simp only [List.length_append]; exact htot
        · intro x hx
          simp only at hx
          by_cases hp : c.totalOutPtr = true
          · rw [if_pos hp] at hx
            rcases List.mem_append.mp hx with hx | hx
            · exact hC x hx
            · simp only [List.mem_singleton] at hx
              subst hx
              simp only [List.length_append]
              rw [ffi_cell_is_total o fuel s0 mem op c s1 io1 r1 hp hlt hR.inv hop hw0 hcs]
              exact htot
          · rw [if_neg hp] at hx; exact hC x hx
      · simp at h
    | take size =>
      simp only [ffiRun] at h
      split at h
      · rename_i s1 n1 b1 hts
        have ht := ffiTakeOutput_ok hts
        have hrc : runCall o fuel s0 {} (.take size) = .ok (s1, { delivered := b1 }) := by
          simp only [runCall, ht]; rfl
        obtain ⟨hip, _, f1⟩ := runCall_facts (c := .take size) hR (by trivial) hrc
        refine ih (seen0 := { seen0 with delivered := seen0.delivered ++ b1 }) f1.ok hok ?_ ?_ (fun x hx => hC x hx) h
        · simp only [Call.len, ffiHistLen] at hip hw ⊢; omega
        · simp only [List.length_append]; exact take_total' hT ht
      · simp at h

/-! ### `TakeOutput` cannot panic anywhere in a history (no hypothesis on the payload encoder) -/

/-- what every state of a history satisfies: the run invariant, the `storage_` discipline and — once
the instance has been used — the `tiny_buf_` discipline with the carry bound -/
structure HistInv (s : St) : Prop where
  run : RunOK s
  store : StoreOK s
  tiny : IsFresh s ∨ TinyL s

theorem histInv_fresh {s : St} (h : IsFresh s) : HistInv s := ⟨runOK_fresh h, storeOK_fresh h, Or.inl h⟩

/-- under the history invariant the pending bytes lie inside the buffer `next_out_` points into -/
theorem outOk_of_histInv {s : St} (h : HistInv s) : OutOk s := by
  rcases h.tiny with hf | hT
  · obtain ⟨_, _, _, hno, _⟩ := isFresh_fields hf
    unfold OutOk; rw [hno]; trivial
  · have := pendingInBuffer_of h.store hT.1
    unfold PendingInBuffer at this
    unfold OutOk
    exact this

theorem takeOutput_fresh {s : St} (hf : IsFresh s) (size : Nat) : BV.Stream.takeOutput s size = .ok (s, []) := by
  obtain ⟨_, hp, _, hno, _⟩ := isFresh_fields hf
  unfold BV.Stream.takeOutput takeSliceOk takeCount
  rw [hno, hp]
  simp

/-- **the history invariant is kept by every call of a history**; so after any history of C ABI calls
on a fresh instance in which no Rust call unwound, `OutOk` holds: `BrotliEncoderTakeOutput` — which is
NOT behind `catch_panic` — cannot panic at any point of any such history -/
theorem ffiRun_histInv {o : Oracle} {fuel : Nat} {mem : Mem} {calls : List FfiCall} {s0 s : St} {seen0 seen : FfiSeen}
    (hJ : HistInv s0) (hok : FfiHistOK mem calls) (hw : s0.inputPos + ffiHistLen calls < two64)
    (h : ffiRun o fuel mem calls s0 seen0 = some (s, seen)) : HistInv s := by
  induction calls generalizing s0 seen0 with
  | nil =>
    simp only [ffiRun, Option.some.injEq, Prod.mk.injEq] at h
    obtain ⟨rfl, _⟩ := h
    exact hJ
  | cons c cs ih =>
    cases c with
    | setParam id v =>
      simp only [ffiRun] at h
      rw [ffiSetParameter_fst] at h
      by_cases hi : s0.isInitialized = true
      · have : (setParameter s0 id v).1 = s0 := by simp [setParameter, hi]
        rw [this] at h
        exact ih hJ hok (by simpa [ffiHistLen] using hw) h
      · have hf : IsFresh s0 := by
          rcases hJ.run.inv with hf | hI
          · exact hf
          · exact absurd hI.init hi
        have hf' := setParameter_fresh hf id v
        refine ih (histInv_fresh hf') hok ?_ h
        rw [(isFresh_fields hf').2.2.1]
        simp only [ffiHistLen] at hw
        omega
    | hasMore => simp only [ffiRun] at h; exact ih hJ hok (by simpa [ffiHistLen] using hw) h
    | isFinished => simp only [ffiRun] at h; exact ih hJ hok (by simpa [ffiHistLen] using hw) h
    | stream op c =>
      simp only [ffiRun] at h
      obtain ⟨hop, hlen, hok'⟩ := hok
      simp only [ffiHistLen] at hw
      split at h
      · rename_i x hcs
        obtain ⟨s1, io1, r1⟩ := x
        obtain ⟨e1, _⟩ := ffiCompressStream_ok o fuel s0 mem op c hcs
        have hw0 : s0.inputPos + (inputSlice mem c.nextIn c.availIn).length < two64 := by rw [hlen]; omega
        have hrc : runCall o fuel s0 {} (.stream op (inputSlice mem c.nextIn c.availIn) c.availOut)
            = .ok (s1, Trace.afterStream o {} (ensureInitialized s0) op (inputSlice mem c.nextIn c.availIn) io1 r1) := by
          simp only [runCall, hcs]
        obtain ⟨hip, _, f1⟩ := runCall_facts (c := .stream op (inputSlice mem c.nextIn c.availIn) c.availOut) hJ.run
          (show op ≤ 3 ∧ _ from ⟨hop, hw0⟩) hrc
        rw [e1] at h
        refine ih ⟨f1.ok, storeOK_call hop hJ.run.inv hw0 hJ.store hcs, Or.inr (tinyL_call_run hop hJ.run.inv hw0 hJ.tiny hcs)⟩ hok' ?_ h
        simp only [Call.len] at hip; rw [hlen] at hip; omega
      · simp at h
    | take size =>
      simp only [ffiRun] at h
      split at h
      · rename_i s1 n1 b1 hts
        have ht := ffiTakeOutput_ok hts
        have hrc : runCall o fuel s0 {} (.take size) = .ok (s1, { delivered := b1 }) := by
          simp only [runCall, ht]; rfl
        obtain ⟨hip, _, f1⟩ := runCall_facts (c := .take size) hJ.run (by trivial) hrc
        have htiny : IsFresh s1 ∨ TinyL s1 := by
          rcases hJ.tiny with hf | hT
          · rw [takeOutput_fresh hf size] at ht
            simp only [Out.ok.injEq, Prod.mk.injEq] at ht
            obtain ⟨rfl, _⟩ := ht
            exact Or.inl hf
          · exact Or.inr (tinyL_take hT ht)
        refine ih ⟨f1.ok, storeOK_take hJ.store ht, htiny⟩ hok ?_ h
        simp only [Call.len, ffiHistLen] at hip hw ⊢; omega
      · simp at h

end BV.FFI
