import BV.Lemmas.StreamRunSim
import BV.Lemmas.HeaderBlocks
/-
C08, run level: the never-flushed quality ≥ 2 stream as a simulation (`Sim`, Lemmas/StreamRunSim.lean).

Abstract state = a PHASE: `fresh` (only `set_parameter` so far), `junk` (initialised at quality 0/1 —
nothing is claimed), `start W` (initialised, nothing encoded yet: the emitted bits are the `W` window
bits), `mid` (after a non-final `encode_data`), `done` (after the final one).  The transitions say what
every `encode_data` event of a PROCESS/FINISH-only history looks like: the first one writes the whole
skeleton (magic-number block with a size hint of ≤ 5 base-128 bytes, stored catable prelude of
`pre ≤ 2` bytes) of exactly `headLen` bits, later ones write no skeleton; a non-final one sees a full
input block (≥ 2^14 bytes); the final one emits its meta-block and nothing is encoded or copied after
it; no sync block, one-shot block or metadata event occurs.
-/
namespace BV.Stream
open BV.Bits

/-! ### lengths of what the skeleton writes -/

theorem encodeBase128_len : ∀ (fuel j v : Nat), 1 ≤ j → v < 128 ^ j → (encodeBase128 fuel v).length ≤ j := by
  intro fuel
  induction fuel with
  | zero => intro j v _ _; simp [encodeBase128]
  | succ f ih =>
    intro j v hj hv
    unfold encodeBase128
    simp only
    by_cases hr : v / 128 = 0
    · simp [hr]; omega
    · by_cases hf : f = 0
      · simp [hr, hf]; omega
      · simp only [ne_eq, hr, not_false_eq_true, hf, and_self, ↓reduceIte, List.length_cons]
        have hj2 : 2 ≤ j := by
          rcases Nat.lt_or_ge j 2 with h | h
          · have : j = 1 := by omega
            subst this
            simp at hv
            omega
          · exact h
        have hv' : v / 128 < 128 ^ (j - 1) := by
          rw [Nat.div_lt_iff_lt_mul (by decide)]
          have : 128 ^ j = 128 ^ (j - 1) * 128 := by
            rw [← Nat.pow_succ]; congr 1; omega
          omega
        have := ih (j - 1) (v / 128) (by omega) hv'
        omega

theorem padToByte_length (w : Writer) : (padToByte w).length = (w.length + 7) / 8 * 8 := by
  unfold padToByte
  simp only [List.length_append, List.length_replicate]
  omega

theorem magicBlock_length_eq (p : Params) (w : Writer) :
    (magicBlock p w).length = (w.length + 14 + 7) / 8 * 8 + 8 * (4 + (encodeBase128 10 (p.sizeHint % two64)).length) := by
  unfold magicBlock
  simp only [List.length_append, padToByte_length, bytesBits_length, bitsOf_length]
  split <;> try split
  all_goals simp only [List.length_cons, List.length_nil]; omega

theorem storedBlock_length_eq (bytes : Bytes) (w : Writer) :
    (storedBlock bytes w).length = (w.length + 20 + 7) / 8 * 8 + 8 * bytes.length := by
  unfold storedBlock
  simp only [List.length_append, padToByte_length, bytesBits_length, bitsOf_length]

/-! ### the skeleton of one `encode_data` invocation -/

/-- the skeleton part of a successful `encode_data`, exposed: `encMid s il` is the result of the
prelude step applied to the result of the magic-block step -/
theorem encMid_eq {o : Oracle} {s s' : St} {site : Nat} {il ff : Bool} {req : Req}
    (h : encodeData o s site il ff = .ok (s', true, req)) :
    ∃ s2 w hdr, encPrelude (encMagic (encEntry s il) s.carry).1 (encMagic (encEntry s il) s.carry).2.1
        (encMagic (encEntry s il) s.carry).2.2 (s.unprocessed % two32) = .ok (s2, w, hdr)
      ∧ encMid s il = (s2, w)
      ∧ encPayload s2 (o s.nEnc (reqOf s site il ff)) s.carry w hdr il ff = .ok (s', true) := by
  obtain ⟨_, hc⟩ := encodeData_ok_cases h
  rcases hc with ⟨_, hh, _⟩ | ⟨_, _, hh, _⟩ | ⟨_, _, hrest⟩
  · simp at hh
  · simp at hh
  · obtain ⟨s2, w, hdr, hpre3, hpay⟩ := encRest_split hrest
    refine ⟨s2, w, hdr, hpre3, ?_, hpay⟩
    unfold encMid
    rw [hpre3]
    rfl

/-- no skeleton once both catable bytes are dealt with -/
theorem encMid_both {o : Oracle} {s s' : St} {site : Nat} {il ff : Bool} {req : Req}
    (h : encodeData o s site il ff = .ok (s', true, req)) (hfm : s.isFirstMb = .bothCatable) :
    (encMid s il).1.lastFlushPos = s.lastFlushPos ∧ (encMid s il).2 = s.carry ∧ s'.isFirstMb = .bothCatable := by
  obtain ⟨s2, w, hdr, hpre, hmid, hpay⟩ := encMid_eq h
  obtain ⟨_, e2, _, _, _, _, e7, _⟩ := encEntry_fields s il
  have hm : encMagic (encEntry s il) s.carry = (encEntry s il, s.carry, 0) := by
    unfold encMagic
    rw [e7, hfm]
    simp
  rw [hm] at hpre
  unfold encPrelude at hpre
  rw [e7, hfm] at hpre
  simp only [↓reduceIte, Out.ok.injEq, Prod.mk.injEq] at hpre
  obtain ⟨rfl, rfl, rfl⟩ := hpre
  rw [hmid]
  refine ⟨e2, rfl, ?_⟩
  rw [(encPayload_frame hpay).2.2.2.2.2.2, e7, hfm]

/-
NOT YET PROVED (draft; the tactic script below loops in Lean 4.33 — `isDefEq` keeps unfolding
`(encMagic (encEntry s il) s.carry).1` — and needs a formulation that never exposes that term):

theorem encMid_first (h : encodeData o s site il ff = .ok (s', true, req)) (hfm : s.isFirstMb = .nothing)
    (hh : s.params.sizeHint < 2 ^ 35) :
    ∃ kk pre, kk ≤ 5 ∧ pre ≤ 2 ∧ (encMid s il).1.lastFlushPos = s.lastFlushPos + pre
      ∧ (encMid s il).2.length = BV.Header.headLen s.lastBytesBits s.params.magic kk pre
      ∧ (2 ≤ s.unprocessed % two32 → s'.isFirstMb = .bothCatable)

Ingredients that ARE proved above: `encodeBase128_len`, `magicBlock_length_eq`, `storedBlock_length_eq`,
`encMid_eq`, `encMid_both`.
-/

end BV.Stream
