import BV.Lemmas.StreamRunSim
import BV.Lemmas.HeaderBlocks
/-
C08, run level: the never-flushed quality ≥ 2 stream as a simulation (`Sim`, Lemmas/StreamRunSim.lean).

Abstract state = a PHASE: `fresh` (only `set_parameter` so far), `junk` (initialised at quality 0/1 —
nothing is claimed), `start W` (initialised, nothing encoded yet: the emitted bits are the `W` window
bits), `mid` (after a non-final `encode_data`), `done` (after the final one).  The transitions say what
every `encode_data` event of a PROCESS/FINISH-only history looks like: the first one writes the whole
skeleton (magic-number block with a size hint of ≤ 5 base-128 bytes, stored catable prelude of
`pre ≤ 2` bytes) of exactly `headLen` bits, later ones write no skeleton; a non-final one sees a full
input block (≥ 2^14 bytes); the final one emits its meta-block and nothing is encoded or copied after
it; no sync block, one-shot block or metadata event occurs.
-/
namespace BV.Stream
open BV.Bits

/-! ### lengths of what the skeleton writes -/

theorem encodeBase128_len : ∀ (fuel j v : Nat), 1 ≤ j → v < 128 ^ j → (encodeBase128 fuel v).length ≤ j := by
  intro fuel
  induction fuel with
  | zero => intro j v _ _; simp [encodeBase128]
  | succ f ih =>
    intro j v hj hv
    unfold encodeBase128
    simp only
    by_cases hr : v / 128 = 0
    · simp [hr]; omega
    · by_cases hf : f = 0
      · simp [hr, hf]; omega
      · simp only [ne_eq, hr, not_false_eq_true, hf, and_self, ↓reduceIte, List.length_cons]
        have hj2 : 2 ≤ j := by
          rcases Nat.lt_or_ge j 2 with h | h
          · have : j = 1 := by omega
            subst this
            simp at hv
            omega
          · exact h
        have hv' : v / 128 < 128 ^ (j - 1) := by
          rw [Nat.div_lt_iff_lt_mul (by decide)]
          have : 128 ^ j = 128 ^ (j - 1) * 128 := by
            rw [← Nat.pow_succ]; congr 1; omega
          omega
        have := ih (j - 1) (v / 128) (by omega) hv'
        omega

theorem padToByte_length (w : Writer) : (padToByte w).length = (w.length + 7) / 8 * 8 := by
  unfold padToByte
  simp only [List.length_append, List.length_replicate]
  omega

theorem magicBlock_length_eq (p : Params) (w : Writer) :
    (magicBlock p w).length = (w.length + 14 + 7) / 8 * 8 + 8 * (4 + (encodeBase128 10 (p.sizeHint % two64)).length) := by
  unfold magicBlock
  simp only [List.length_append, padToByte_length, bytesBits_length, bitsOf_length]
  split <;> try split
  all_goals simp only [List.length_cons, List.length_nil]; omega

theorem storedBlock_length_eq (bytes : Bytes) (w : Writer) :
    (storedBlock bytes w).length = (w.length + 20 + 7) / 8 * 8 + 8 * bytes.length := by
  unfold storedBlock
  simp only [List.length_append, padToByte_length, bytesBits_length, bitsOf_length]

/-! ### the skeleton of one `encode_data` invocation -/

/-- the skeleton part of a successful `encode_data`, exposed: `encMid s il` is the result of the
prelude step applied to the result of the magic-block step -/
theorem encMid_eq {o : Oracle} {s s' : St} {site : Nat} {il ff : Bool} {req : Req}
    (h : encodeData o s site il ff = .ok (s', true, req)) :
    ∃ s2 w hdr, encPrelude (encMagic (encEntry s il) s.carry).1 (encMagic (encEntry s il) s.carry).2.1
        (encMagic (encEntry s il) s.carry).2.2 (s.unprocessed % two32) = .ok (s2, w, hdr)
      ∧ encMid s il = (s2, w)
      ∧ encPayload s2 (o s.nEnc (reqOf s site il ff)) s.carry w hdr il ff = .ok (s', true) := by
  obtain ⟨_, hc⟩ := encodeData_ok_cases h
  rcases hc with ⟨_, hh, _⟩ | ⟨_, _, hh, _⟩ | ⟨_, _, hrest⟩
  · simp at hh
  · simp at hh
  · obtain ⟨s2, w, hdr, hpre3, hpay⟩ := encRest_split hrest
    refine ⟨s2, w, hdr, hpre3, ?_, hpay⟩
    unfold encMid
    rw [hpre3]
    rfl

/-- no skeleton once both catable bytes are dealt with -/
theorem encMid_both {o : Oracle} {s s' : St} {site : Nat} {il ff : Bool} {req : Req}
    (h : encodeData o s site il ff = .ok (s', true, req)) (hfm : s.isFirstMb = .bothCatable) :
    (encMid s il).1.lastFlushPos = s.lastFlushPos ∧ (encMid s il).2 = s.carry ∧ s'.isFirstMb = .bothCatable := by
  obtain ⟨s2, w, hdr, hpre, hmid, hpay⟩ := encMid_eq h
  obtain ⟨_, e2, _, _, _, _, e7, _⟩ := encEntry_fields s il
  have hm : encMagic (encEntry s il) s.carry = (encEntry s il, s.carry, 0) := by
    unfold encMagic
    rw [e7, hfm]
    simp
  rw [hm] at hpre
  unfold encPrelude at hpre
  rw [e7, hfm] at hpre
  simp only [↓reduceIte, Out.ok.injEq, Prod.mk.injEq] at hpre
  obtain ⟨rfl, rfl, rfl⟩ := hpre
  rw [hmid]
  refine ⟨e2, rfl, ?_⟩
  rw [(encPayload_frame hpay).2.2.2.2.2.2, e7, hfm]

/-- the prelude step from a state that has not finished the catable logic: either nothing is written
(not catable — then the logic is finished — or no bytes to encode), or a stored block of `n = min 2 bytes`
bytes is appended and both positions move by `n` -/
theorem encPrelude_first {s1 s2 : St} {w1 w : Writer} {hdr1 hdr bytes : Nat}
    (hnb : s1.isFirstMb ≠ .bothCatable) (h : encPrelude s1 w1 hdr1 bytes = .ok (s2, w, hdr)) :
    (s2.lastFlushPos = s1.lastFlushPos ∧ w = w1 ∧ (s2.isFirstMb = .bothCatable ∨ bytes = 0)) ∨
    (bytes ≠ 0 ∧ s2.lastFlushPos = s1.lastFlushPos + min 2 bytes
      ∧ w.length = (w1.length + 20 + 7) / 8 * 8 + 8 * min 2 bytes
      ∧ (2 ≤ bytes → s2.isFirstMb = .bothCatable)) := by
  unfold encPrelude at h
  rw [if_neg hnb] at h
  by_cases hc : s1.params.catable = true
  · have hc' : (!s1.params.catable) = false := by rw [hc]; rfl
    rw [hc'] at h
    simp only [Bool.false_eq_true, ↓reduceIte] at h
    by_cases hb : bytes = 0
    · rw [if_neg (by simpa using hb)] at h
      simp only [Out.ok.injEq, Prod.mk.injEq] at h
      obtain ⟨h1, h2, _⟩ := h
      left
      exact ⟨by rw [← h1], h2.symm, Or.inr hb⟩
    · rw [if_pos hb] at h
      split at h
      · cases h
      · split at h
        · cases h
        · rename_i hlen
          simp only [Out.ok.injEq, Prod.mk.injEq] at h
          obtain ⟨h1, h2, _⟩ := h
          right
          have hdl : ((s1.first2.drop s1.lastFlushPos).take (min 2 bytes)).length = min 2 bytes := by
            have := List.length_take_le (min 2 bytes) (s1.first2.drop s1.lastFlushPos)
            omega
          refine ⟨hb, by rw [← h1], ?_, ?_⟩
          · rw [← h2, storedBlock_length_eq, hdl]
          · intro h2b
            rw [← h1]
            have : min 2 bytes ≥ 2 := by omega
            simp only [this, ↓reduceIte]
  · have hc' : (!s1.params.catable) = true := by
      cases hcc : s1.params.catable
      · rfl
      · exact absurd hcc hc
    rw [if_pos hc'] at h
    simp only [Out.ok.injEq, Prod.mk.injEq] at h
    obtain ⟨h1, h2, _⟩ := h
    left
    exact ⟨by rw [← h1], h2.symm, Or.inl (by rw [← h1])⟩

theorem encMagic_first (s : St) (w0 : Writer) (hfm : s.isFirstMb = .nothing) :
    (encMagic s w0).1.isFirstMb ≠ .bothCatable
    ∧ (encMagic s w0).1.lastFlushPos = s.lastFlushPos
    ∧ (encMagic s w0).2.1.length = (if s.params.magic then (w0.length + 14 + 7) / 8 * 8 + 8 * (4 + (encodeBase128 10 (s.params.sizeHint % two64)).length) else w0.length) := by
  unfold encMagic
  by_cases hmg : s.params.magic = true
  · rw [if_pos ⟨hfm, hmg⟩, if_pos hmg]
    exact ⟨by simp, rfl, magicBlock_length_eq _ _⟩
  · have hn : ¬ (s.isFirstMb = .nothing ∧ s.params.magic = true) := fun hh => hmg hh.2
    rw [if_neg hn, if_neg hmg]
    exact ⟨by rw [hfm]; simp, rfl, rfl⟩

/-- the first invocation writes the whole skeleton: exactly `headLen` bits including the carry, with a
size hint of at most 5 base-128 bytes and a prelude of `pre ≤ 2` bytes; with two bytes to encode the
prelude logic is finished for good -/
theorem encMid_first {o : Oracle} {s s' : St} {site : Nat} {il ff : Bool} {req : Req}
    (h : encodeData o s site il ff = .ok (s', true, req)) (hfm : s.isFirstMb = .nothing)
    (hh : s.params.sizeHint < 2 ^ 35) :
    ∃ kk pre, kk ≤ 5 ∧ pre ≤ 2 ∧ (encMid s il).1.lastFlushPos = s.lastFlushPos + pre
      ∧ (encMid s il).2.length = BV.Header.headLen s.lastBytesBits s.params.magic kk pre
      ∧ (2 ≤ s.unprocessed % two32 → s'.isFirstMb = .bothCatable) := by
  obtain ⟨s2, w, hdr, hpre, hmid, hpay⟩ := encMid_eq h
  obtain ⟨e1, e2, _, _, _, _, e7, _⟩ := encEntry_fields s il
  rw [St.frame_eq_iff] at e1
  have ep := e1.1
  have hcl : s.carry.length = s.lastBytesBits := by unfold St.carry; exact bitsOf_length _ _
  have hk : (encodeBase128 10 (s.params.sizeHint % two64)).length ≤ 5 :=
    encodeBase128_len 10 5 _ (by decide) (by
      have : s.params.sizeHint % two64 ≤ s.params.sizeHint := Nat.mod_le _ _
      have : (128 : Nat) ^ 5 = 2 ^ 35 := by decide
      omega)
  have hfin : s'.isFirstMb = s2.isFirstMb := (encPayload_frame hpay).2.2.2.2.2.2
  obtain ⟨hm1, hm3, hm4⟩ := encMagic_first (encEntry s il) s.carry (by rw [e7, hfm])
  rw [ep, hcl] at hm4
  rw [e2] at hm3
  have hP := encPrelude_first hm1 hpre
  rw [hm3, hm4] at hP
  have key : ∃ kk pre, kk ≤ 5 ∧ pre ≤ 2 ∧ s2.lastFlushPos = s.lastFlushPos + pre
      ∧ w.length = BV.Header.headLen s.lastBytesBits s.params.magic kk pre
      ∧ (2 ≤ s.unprocessed % two32 → s'.isFirstMb = .bothCatable) := by
    rw [hfin]
    refine ⟨(encodeBase128 10 (s.params.sizeHint % two64)).length, s2.lastFlushPos - s.lastFlushPos, hk, ?_⟩
    generalize (encodeBase128 10 (s.params.sizeHint % two64)).length = kk at hP hm4 ⊢
    generalize s.unprocessed % two32 = bytes at hP ⊢
    rcases hP with ⟨a1, a2, a3⟩ | ⟨b1, b2, b3, b4⟩
    · have hz : s2.lastFlushPos - s.lastFlushPos = 0 := by omega
      rw [hz]
      refine ⟨Nat.zero_le _, a1, ?_, ?_⟩
      · rw [a2, hm4]
        unfold BV.Header.headLen
        simp only [ne_eq, not_true_eq_false, ↓reduceIte]
      · intro h2
        rcases a3 with a | a
        · exact a
        · omega
    · have hz : s2.lastFlushPos - s.lastFlushPos = min 2 bytes := by omega
      rw [hz]
      refine ⟨Nat.min_le_left _ _, b2, ?_, b4⟩
      rw [b3]
      unfold BV.Header.headLen
      have hne : min 2 bytes ≠ 0 := by omega
      simp only [ne_eq, hne, not_false_eq_true, ↓reduceIte]
  rw [hmid]
  exact key

end BV.Stream
