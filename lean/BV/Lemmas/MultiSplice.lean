/-
Helper lemmas for C02 `multi_succeeds_when_sized`: `CompressMulti` gives every member to the
concatenator in ONE `stream` call with all the room that is left.  On well-formed members
(`MemberOK`, lean-concat's `concat_bits` hypotheses) that call cannot answer `NeedsMoreOutput`
when the buffer has room for the bytes of all members: the closed forms of C03/C12 fix the
number of bytes every complete run emits, `stream_growth` makes the retry of a stalled call
complete, and a stalled call would already have filled more than that.
-/
import BV.Lemmas.MultiConcatGrowth
import BV.Lemmas.MultiSound
import BV.Lemmas.ConcatChain

namespace BV.Lemmas.Multi
open BV.Concat BV.Concat.Outcome

theorem bytesToBits_len (l : List Nat) : (bytesToBits l).length = 8 * l.length := by
  induction l with
  | nil => rfl
  | cons a t ih =>
    show (bitsOf 8 a ++ bytesToBits t).length = _
    rw [List.length_append, bitsOf_length, ih, List.length_cons]; omega

theorem nmi_not_terminal : isTerminal NEEDS_MORE_INPUT = false := by decide
theorem nmo_not_terminal : isTerminal NEEDS_MORE_OUTPUT = false := by decide

/-- ONE call with `c` bytes of room from a state all of whose complete runs over `inp` end with
`NeedsMoreInput` after emitting `E` bytes in total: if `E < |acc| + c` the call itself is such a
run (it consumes `inp` and answers `NeedsMoreInput`). -/
theorem single_call (s : State) (inp acc : List Nat) (c E : Nat) (hI : Inv s) (hS : Started s)
    (hruns : ∀ fuel caps R, runAll fuel s [inp] caps acc = some R → R.code = NEEDS_MORE_INPUT ∧ R.emitted.length = E)
    (hroom : E < acc.length + c) :
    ∃ r, stream s inp c = ok r ∧ r.code = NEEDS_MORE_INPUT ∧
      runAll 1 s [inp] [c] acc = some ⟨r.st, NEEDS_MORE_INPUT, acc ++ r.produced⟩ := by
  obtain ⟨r, hr⟩ := BV.Props.C16.no_panic_stream s inp c hI hS
  obtain ⟨hprog, _⟩ := BV.Props.C16.protocol_progress s inp c hI hS r hr
  refine ⟨r, hr, ?_⟩
  rcases hprog with ⟨hc, hcons⟩ | ⟨hc, hfull⟩ | hterm
  · -- the call is a complete run
    refine ⟨hc, ?_⟩
    simp only [runAll, feedBuffer, List.headD, hr, hc, nmi_not_terminal, hcons, List.drop_length,
      Bool.false_eq_true, if_false, and_self, if_true]
  · -- stalled: retry with the protocol's ample room
    exfalso
    obtain ⟨hI2, hS2⟩ := BV.Props.C16.inv_stream s inp c hI hS r hr
    obtain ⟨r2, hr2⟩ := BV.Props.C16.no_panic_stream r.st (inp.drop r.consumed) ((inp.drop r.consumed).length + 8) hI2 hS2
    obtain ⟨hprog2, _⟩ := BV.Props.C16.protocol_progress _ _ _ hI2 hS2 r2 hr2
    have hne : ¬ (NEEDS_MORE_OUTPUT = NEEDS_MORE_INPUT ∧ inp.drop r.consumed = []) := by
      intro h; exact absurd h.1 (by decide)
    have hfeed1 : ∀ R, feedBuffer 1 r.st (inp.drop r.consumed) [] (acc ++ r.produced) = some R →
        feedBuffer 2 s inp [c] acc = some R := by
      intro R h
      simp only [feedBuffer, List.headD, hr, hc, nmo_not_terminal, Bool.false_eq_true, if_false, hne,
        List.tail_cons] at h ⊢
      exact h
    rcases hprog2 with ⟨hc2, hcons2⟩ | ⟨hc2, hfull2⟩ | hterm2
    · have h1 : feedBuffer 1 r.st (inp.drop r.consumed) [] (acc ++ r.produced)
          = some ⟨r2.st, NEEDS_MORE_INPUT, acc ++ r.produced ++ r2.produced⟩ := by
        simp only [feedBuffer, List.headD, hr2, hc2, nmi_not_terminal, hcons2, List.drop_length,
          Bool.false_eq_true, if_false, and_self, if_true]
      have h2 := hfeed1 _ h1
      have hrun : runAll 2 s [inp] [c] acc = some ⟨r2.st, NEEDS_MORE_INPUT, acc ++ r.produced ++ r2.produced⟩ := by
        simp only [runAll, h2, nmi_not_terminal, Bool.false_eq_true, if_false]
      have := (hruns 2 [c] _ hrun).2
      simp only [List.length_append] at this
      omega
    · have := stream_growth _ _ _ r2 hr2
      omega
    · have h1 : feedBuffer 1 r.st (inp.drop r.consumed) [] (acc ++ r.produced)
          = some ⟨r2.st, r2.code, acc ++ r.produced ++ r2.produced⟩ := by
        simp only [feedBuffer, List.headD, hr2, hterm2, if_true]
      have h2 := hfeed1 _ h1
      have hrun : runAll 2 s [inp] [c] acc = some ⟨r2.st, r2.code, acc ++ r.produced ++ r2.produced⟩ := by
        simp only [runAll, h2, hterm2, if_true]
      have := (hruns 2 [c] _ hrun).1
      dsimp only at this
      rw [this] at hterm2
      exact absurd hterm2 (by decide)
  · exfalso
    have hrun : runAll 1 s [inp] [c] acc = some ⟨r.st, r.code, acc ++ r.produced⟩ := by
      simp only [runAll, feedBuffer, List.headD, hr, hterm, if_true]
    have := (hruns 1 [c] _ hrun).1
    dsimp only at this
    rw [this] at hterm
    exact absurd hterm (by decide)

/-- bytes a later member adds to the output: the completed byte of the stripped marker (if the
marker sat in the second tail byte), the realigned first meta-block header, the member's whole
bytes after that header minus the two bytes that stay in the tail -/
def memberAdds (n : Nat) (d : MemberData) : Nat :=
  (if n < 8 then 0 else 1) + ((if n < 8 then n else n - 8) + d.v - d.wo + 7) / 8 + (d.m.length - d.src - 2)

theorem memberOK_arith (ws : Nat) (d : MemberData) (hok : MemberOK ws d) :
    1 ≤ d.wo ∧ d.wo + 2 ≤ d.v ∧ d.src + 2 ≤ d.m.length := by
  obtain ⟨wsz, hparse, _⟩ := hok.parse
  have hla : d.la ≤ d.m.length := by have := hok.long; omega
  have hl2 : 2 ≤ (d.m.take d.la).length := by
    rw [List.length_take]; have : 4 ≤ d.la := by unfold MemberData.la need; split <;> omega
    omega
  have hl8 : (d.m.take d.la).length ≤ 8 := by
    rw [List.length_take]; have : d.la ≤ 5 := by unfold MemberData.la need; split <;> omega
    omega
  have h1 := detectVarlenOffset_sat _ hl2 hl8
  rw [hok.det, sat_ok] at h1
  obtain ⟨w, o, hp, hpw, hv⟩ := h1 d.v rfl
  rw [hparse] at hp
  simp only [Outcome.ok.injEq, Option.some.injEq, Prod.mk.injEq] at hp
  obtain ⟨_, rfl⟩ := hp
  refine ⟨?_, hv, hok.room⟩
  rcases hpw.2.2 with h | h | h | h <;> omega

/-- the byte count of a later member's run, read off the bit-level closed form -/
theorem member_emitted (s : State) (acc : List Nat) (n D : Nat) (data : List Bool) (d : MemberData)
    (R : Run) (hB : Boundary s acc n D data) (hok : MemberOK s.window_size d)
    (hB' : Boundary R.st R.emitted d.n d.D (data ++ gapBits n d ++ restData d)) :
    R.emitted.length = acc.length + memberAdds n d ∧ memberAdds n d ≤ d.m.length := by
  obtain ⟨hwo, hv, hroom⟩ := memberOK_arith _ d hok
  have hn16 : n + 2 ≤ 16 := marked_fits hB.marked (by
    have h1 := hB.lo; have h2 := hB.hi
    rw [Nat.shiftLeft_eq]; omega)
  have e1 := congrArg List.length hB.data
  have e2 := congrArg List.length hB'.data
  simp only [List.length_append, bytesToBits_len, bitsOf_length] at e1 e2
  have hgap : (gapBits n d).length = 8 * (((if n < 8 then n else n - 8) + d.v - d.wo + 7) / 8)
      - (if n < 8 then n else n - 8) := by
    unfold gapBits
    simp only [List.length_append, List.length_take, List.length_drop, List.length_replicate, bytesToBits_len]
    have hla : d.la ≤ d.m.length := by have := hok.long; omega
    have hfit := hok.fit
    have hsrc : d.src = (d.v + 7) / 8 := rfl
    rw [Nat.min_eq_left hla]
    split <;> omega
  have hrest : (restData d).length = 8 * (d.m.length - d.src - 2) + d.n := by
    unfold restData
    simp only [List.length_append, bytesToBits_len, bitsOf_length, List.length_take, List.length_drop]
    omega
  have hsrc : d.src = (d.v + 7) / 8 := rfl
  unfold memberAdds
  constructor
  · split at hgap <;> rename_i hn8 <;> simp only [hn8, if_true, if_false] <;> omega
  · split <;> omega

end BV.Lemmas.Multi

namespace BV.Lemmas.Multi
open BV.Concat BV.Concat.Outcome

theorem good_nmi : goodCode NEEDS_MORE_INPUT := Or.inr rfl

/-- the later members, each in one call with all the room left: nothing stalls while the buffer
has room for `S` (a bound on what is out or held so far, + 2) plus the members' own bytes -/
theorem later_single (cap : Nat) : ∀ (ds : List MemberData) (s : State) (acc : List Nat) (n D : Nat)
    (data : List Bool) (S : Nat), Boundary s acc n D data → (∀ d, d ∈ ds → MemberOK s.window_size d) →
    acc.length + 2 ≤ S → S + (ds.map fun d => d.m.length).sum ≤ cap →
    ∃ s' out' D', spliceMembers cap (ds.map fun d => d.m) s acc = some (s', out') ∧
      Boundary s' out' (lastN n ds) D' (data ++ laterBits n ds) ∧
      out'.length + 2 ≤ S + (ds.map fun d => d.m.length).sum := by
  intro ds
  induction ds with
  | nil =>
    intro s acc n D data S hB _ hS _
    exact ⟨s, acc, D, rfl, by simpa [lastN, laterBits] using hB, by simpa using hS⟩
  | cons d ds ih =>
    intro s acc n D data S hB hok hS hcap
    simp only [List.map_cons, List.sum_cons] at hcap ⊢
    have hokd := hok d List.mem_cons_self
    obtain ⟨hI', hS'⟩ := BV.Props.C16.inv_new_brotli_file s hB.inv
    have hruns : ∀ fuel caps R, runAll fuel (newBrotliFile s) [d.m] caps acc = some R →
        R.code = NEEDS_MORE_INPUT ∧ R.emitted.length = acc.length + memberAdds n d := by
      intro fuel caps R h
      obtain ⟨hc, _, hB'⟩ := boundary_step fuel s acc n D data d [d.m] caps R hB hokd (by simp) (by simp) h
      exact ⟨hc, (member_emitted s acc n D data d R hB hokd hB').1⟩
    -- any run gives the size facts; take the one-call run
    have hadds : memberAdds n d ≤ d.m.length := by
      -- from the arithmetic alone
      obtain ⟨hwo, hv, hroom⟩ := memberOK_arith _ d hokd
      have hn16 : n + 2 ≤ 16 := marked_fits hB.marked (by
        have h1 := hB.lo; have h2 := hB.hi
        rw [Nat.shiftLeft_eq]; omega)
      have hsrc : d.src = (d.v + 7) / 8 := rfl
      unfold memberAdds
      split <;> omega
    obtain ⟨r, hr, hcode, hrun⟩ := single_call (newBrotliFile s) d.m acc (cap - acc.length)
      (acc.length + memberAdds n d) hI' hS' hruns (by omega)
    obtain ⟨_, hws, hB'⟩ := boundary_step 1 s acc n D data d [d.m] [cap - acc.length] _ hB hokd (by simp) (by simp) hrun
    dsimp only at hws hB'
    have hlen := (hruns 1 [cap - acc.length] _ hrun).2
    dsimp only at hlen
    obtain ⟨s', out', D', hsp, hBf, hout⟩ := ih r.st (acc ++ r.produced) d.n d.D _ (S + d.m.length) hB'
      (fun d' hd' => by rw [hws]; exact hok d' (List.mem_cons_of_mem _ hd')) (by omega) (by omega)
    refine ⟨s', out', D', ?_, ?_, by omega⟩
    · simp only [spliceMembers, hr, hcode, if_pos good_nmi]
      exact hsp
    · simpa [lastN, laterBits, List.append_assoc] using hBf

/-- `splice_sized`: the members `m₀, d₁.m, …` (lean-concat's `concat_bits` hypotheses: `m₀` has a
parsable window field, more bytes than the look-ahead and ends with its end marker; every later
member is `MemberOK` behind `m₀`'s header), pushed through the concatenator the way
`CompressMulti` does it, into a buffer with room for all their bytes: the reference splice
SUCCEEDS, its output is not longer than the members together, and as a bit string it is the
closed form of `concat_bits`. -/
theorem splice_sized (cap : Nat) (m0 pre0 : List Nat) (a0 b0 n0 D0 wsz0 wo0 : Nat) (ds : List MemberData)
    (hbytes : ∀ y, y ∈ m0 → y < 256) (hlong : need (m0.headD 0) + 1 ≤ m0.length)
    (hparse : parseWindowSize (m0.take (need (m0.headD 0))) = ok (some (wsz0, wo0)))
    (hm0 : m0 = pre0 ++ [a0, b0]) (hmark : Marked (a0 + (b0 <<< 8)) n0 D0)
    (hok : ∀ d, d ∈ ds → MemberOK (wsz0 ||| (if wo0 = 14 then LARGE_WINDOW_FLAG else 0)) d)
    (hcap : m0.length + (ds.map fun d => d.m.length).sum ≤ cap) :
    ∃ out, spliceAll cap (m0 :: ds.map fun d => d.m) = some out ∧
      out.length ≤ m0.length + (ds.map fun d => d.m.length).sum ∧
      bytesToBits out = bytesToBits pre0 ++ bitsOf n0 D0 ++ laterBits n0 ds ++ [true, true] ++
        List.replicate (14 - lastN n0 ds) false := by
  have hI0 := BV.Props.C16.inv_new.1
  obtain ⟨hI', hS'⟩ := BV.Props.C16.inv_new_brotli_file State.new hI0
  have hlen0 : m0.length = pre0.length + 2 := by rw [hm0]; simp
  have hruns : ∀ fuel caps R, runAll fuel (newBrotliFile State.new) [m0] caps [] = some R →
      R.code = NEEDS_MORE_INPUT ∧ R.emitted.length = ([] : List Nat).length + pre0.length := by
    intro fuel caps R h
    obtain ⟨hc, _, hB⟩ := first_boundary fuel State.new m0 pre0 a0 b0 n0 D0 wsz0 wo0 [m0] caps R hI0 rfl hbytes
      hlong hparse hm0 hmark (by simp) (by simp) h
    have e := congrArg List.length hB.data
    simp only [List.length_append, bytesToBits_len, bitsOf_length] at e
    exact ⟨hc, by simp; omega⟩
  obtain ⟨r, hr, hcode, hrun⟩ := single_call (newBrotliFile State.new) m0 [] (cap - 0) _ hI' hS' hruns
    (by simp; omega)
  obtain ⟨_, hws, hB⟩ := first_boundary 1 State.new m0 pre0 a0 b0 n0 D0 wsz0 wo0 [m0] [cap - 0] _ hI0 rfl hbytes
    hlong hparse hm0 hmark (by simp) (by simp) hrun
  dsimp only at hws hB
  have hlen := (hruns 1 [cap - 0] _ hrun).2
  dsimp only at hlen
  simp only [List.nil_append, List.length_nil, Nat.zero_add] at hlen hB
  obtain ⟨s', out', D', hsp, hBf, hout⟩ := later_single cap ds r.st r.produced n0 D0 _ m0.length hB
    (fun d hd => by rw [hws]; exact hok d hd) (by omega) hcap
  obtain ⟨st, p, hf, hbits⟩ := finish_boundary s' out' _ D' _ (cap - out'.length) hBf (by omega)
  have hplen : p.length = 2 := by
    have e := congrArg List.length hbits
    have e2 := congrArg List.length hBf.data
    have hn16 : lastN n0 ds + 2 ≤ 16 := marked_fits hBf.marked (by
      have h1 := hBf.lo; have h2 := hBf.hi
      rw [Nat.shiftLeft_eq]; omega)
    simp only [List.length_append, bytesToBits_len, bitsOf_length, List.length_replicate, List.length_cons,
      List.length_nil] at e e2
    omega
  refine ⟨out' ++ p, ?_, by rw [List.length_append]; omega, by rw [hbits]⟩
  unfold spliceAll
  have hfirst : spliceMembers cap (m0 :: ds.map fun d => d.m) State.new [] = some (s', out') := by
    simp only [spliceMembers, List.length_nil, hr, hcode, if_pos good_nmi, List.nil_append]
    exact hsp
  rw [hfirst]
  simp only [spliceFinish, hf, if_true]

end BV.Lemmas.Multi
