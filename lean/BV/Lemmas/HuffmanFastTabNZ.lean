/-
C17: the precomputed table `kNonZeroRepsDepth/Bits` of the fast builder is, entry by
entry, a chain of repeat codes 16 written with the static code-length code
(kernel-checked for all 704 entries).
-/
import BV.Lemmas.HuffmanFastTabZ

namespace BV.Lemmas.HuffmanFastTab
open BV.Gen BV.Bits BV.Huffman

def nzEntriesF (r : Nat) : List (Nat × Nat) := (repDigitsF 2 10 r).reverse.map fun e => (16, e)

theorem nzEntriesF_eq (r : Nat) (h : r < 1024) :
    nzEntriesF r = (repDigits 2 r).reverse.map fun e => (16, e) := by
  have hp : (2:Nat) ^ 10 = 1024 := by decide
  unfold nzEntriesF
  rw [repDigitsF_eq 2 (by decide) 10 r (by omega)]

theorem nonzero_table_chk : chkTab nzEntriesF (kNonZeroRepsDepth.zip kNonZeroRepsBits) 0 = true := by
  decide +kernel

end BV.Lemmas.HuffmanFastTab
