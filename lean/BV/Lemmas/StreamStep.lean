import BV.Lemmas.StreamInv
/-
One iteration of the `compress_stream` loop (`slowStep`): invariant, what it may do to the
stream state and to the caller's cursors.
-/
namespace BV.Stream
open BV.Bits

/-- everything `copy_input_to_ring_buffer` leaves alone -/
theorem copy_fields {s s' : St} {chunk : Bytes} {avail : Nat} (hi : s.isInitialized = true)
    (h : copyInputToRingBuffer s chunk avail = .ok s') :
    s'.params = s.params ∧ s'.inputPos = (s.inputPos + chunk.length) % two64
    ∧ s'.remainingMetadata = s.remainingMetadata ∧ s'.isInitialized = s.isInitialized
    ∧ s'.streamState = s.streamState ∧ s'.lastFlushPos = s.lastFlushPos
    ∧ s'.lastProcessedPos = s.lastProcessedPos ∧ s'.isLastBlockEmitted = s.isLastBlockEmitted
    ∧ s'.pending = s.pending ∧ s'.lastBytes = s.lastBytes ∧ s'.lastBytesBits = s.lastBytesBits
    ∧ s'.nextOut = s.nextOut ∧ s'.storageSize = s.storageSize ∧ s'.totalOut = s.totalOut
    ∧ s'.isFirstMb = s.isFirstMb ∧ s'.nEnc = s.nEnc := by
  unfold copyInputToRingBuffer at h
  rw [ensureInitialized_id hi] at h
  simp only at h
  split at h
  · split at h
    · simp at h
    · simp only [Out.ok.injEq] at h
      subst h
      simp
  · simp at h
  · simp at h

theorem rbs_eq {s : St} (hI : Inv s) :
    remainingInputBlockSize s = s.blockSize - (s.inputPos - s.lastProcessedPos) := by
  unfold remainingInputBlockSize
  simp only [hI.unprocessed]
  split <;> omega

/-- pure arithmetic of the copy step -/
theorem copy_arith {ip lp bs n avail : Nat} (hlp : lp ≤ ip) (hblk : ip - lp ≤ bs)
    (hn : n ≤ bs - (ip - lp)) (_hn2 : n ≤ avail) (hw : ip + avail < two64) :
    (ip + n) % two64 = ip + n ∧ lp ≤ ip + n ∧ (ip + n) - lp ≤ bs := by
  have : ip + n < two64 := by omega
  rw [Nat.mod_eq_of_lt this]
  omega

theorem inv_copy {s s' : St} {chunk : Bytes} {avail availIn : Nat} (hI : Inv s)
    (hnf : s.streamState ≠ .flushRequested)
    (hn : chunk.length ≤ remainingInputBlockSize s) (hn2 : chunk.length ≤ availIn)
    (hw : s.inputPos + availIn < two64)
    (h : copyInputToRingBuffer s chunk avail = .ok s') :
    Inv s' ∧ s'.inputPos = s.inputPos + chunk.length ∧ s'.streamState = s.streamState
    ∧ s'.remainingMetadata = s.remainingMetadata := by
  obtain ⟨c1, c2, c3, c4, c5, c6, c7, c8, _⟩ := copy_fields hI.init h
  rw [rbs_eq hI] at hn
  obtain ⟨a1, a2, a3⟩ := copy_arith hI.lp_le hI.blk hn hn2 hw
  rw [a1] at c2
  refine ⟨⟨c4.trans hI.init, ?_, ?_, ?_, ?_, ?_, ?_, ?_, ?_, ?_⟩, c2, c5, c3⟩
  · rw [c6, c7]; exact hI.fl_le
  · rw [c7, c2]; exact a2
  · rw [c2]; omega
  · rw [blockSize_congr (s := s) (s' := s') (by rw [c1]), c2, c7]; exact a3
  · rw [c8, c5]; exact hI.lastFin
  · rw [c5, c3]; exact hI.mdIff
  · rw [c3]; exact hI.mdLe
  · rw [c1, c6, c7]; exact hI.q01
  · rw [c5]; exact fun hfl => absurd hfl hnf

/-- what one iteration may do to the stream state -/
def StateMove (op : Nat) (s s' : St) (io' : Io) : Prop :=
  s'.streamState = s.streamState ∨
  (s.streamState = .processing ∧ io'.availIn = 0 ∧
    ((op = 1 ∧ s'.streamState = .flushRequested) ∨ (op = 2 ∧ s'.streamState = .finished)))

theorem slowStep_spec {o : Oracle} {op : Nat} {s s' : St} {io io' : Io} {c : Ctl} (hI : Inv s)
    (hw : s.inputPos + io.availIn < two64) (hnp : s.streamState ≠ .processing → io.availIn = 0)
    (h : slowStep o op s io = .ok (s', io', c)) :
    Inv s' ∧ s'.inputPos + io'.availIn = s.inputPos + io.availIn ∧ c ≠ .fail
    ∧ s'.remainingMetadata = s.remainingMetadata ∧ io'.availIn ≤ io.availIn ∧ StateMove op s s' io' := by
  unfold slowStep at h
  simp only at h
  split at h
  · -- copy input
    rename_i hc
    split at h
    · simp at h
    · split at h
      · rename_i s1 hcp
        simp only [Out.ok.injEq, Prod.mk.injEq] at h
        obtain ⟨rfl, rfl, rfl⟩ := h
        have hlen : (io.input.take (min (remainingInputBlockSize s) io.availIn)).length = min (remainingInputBlockSize s) io.availIn := by
          rw [List.length_take]; omega
        have hnfl : s.streamState ≠ .flushRequested := by
          intro hfl
          exact hc.2 (hnp (by rw [hfl]; simp))
        obtain ⟨i1, i2, i3, i4⟩ := inv_copy hI hnfl (by rw [hlen]; exact Nat.min_le_left _ _) (by rw [hlen]; exact Nat.min_le_right _ _) hw hcp
        rw [hlen] at i2
        refine ⟨i1, ?_, by simp, i4, ?_, Or.inl i3⟩
        · simp only [i2]; omega
        · simp only; omega
      · simp at h
      · simp at h
  · split at h
    · simp at h
    · simp at h
    · -- output pushed / padding injected
      rename_i s1 io1 hp
      simp only [Out.ok.injEq, Prod.mk.injEq] at h
      obtain ⟨rfl, rfl, rfl⟩ := h
      obtain ⟨f, _, _, _, _, _, _, _, fa, _⟩ := push_frame hp
      rw [St.frame_eq_iff] at f
      refine ⟨inv_push hI hp, by rw [f.2.1, fa], by simp, f.2.2.1, by rw [fa]; exact Nat.le_refl _, Or.inl f.2.2.2.1⟩
    · rename_i s1 io1 hp
      obtain ⟨e1, e2, _, _⟩ := push_false hp
      have e1' := e1.symm; have e2' := e2.symm
      subst e1' e2'
      split at h
      · rename_i hcond
        split at h
        · simp at h
        · simp at h
        · rename_i s2 res req henc
          have hI2 := inv_updateSizeHint hI io.availIn
          obtain ⟨u1, _, _, _, _, u6, u7, u8, u9, _⟩ := updateSizeHint_fields s io.availIn
          have hst : (updateSizeHint s io.availIn).streamState = .processing := by rw [u9]; exact hcond.2.1
          have hres : res = true := encodeData_succeeds hI2 (by rw [hst]; simp) henc
          subst hres
          simp only [Bool.not_true, Bool.false_eq_true, ↓reduceIte, Out.ok.injEq, Prod.mk.injEq] at h
          obtain ⟨rfl, rfl, rfl⟩ := h
          have hIm := inv_encode_mark hI2 hst henc
          obtain ⟨f, _, _, _, _⟩ := encodeData_frame henc
          rw [St.frame_eq_iff] at f
          obtain ⟨k1, k2, k3, _, _, _, _, _, _, k10⟩ := markAfterEncode_fields s2 (decide (io.availIn = 0 ∧ op = 2)) (decide (io.availIn = 0 ∧ op = 1))
          refine ⟨hIm, ?_, by simp, ?_, Nat.le_refl _, ?_⟩
          · simp only [k2, f.2.1, u6]
          · rw [k3, f.2.2.1, u7]
          · unfold StateMove
            rw [k10, f.2.2.2.1, hst]
            by_cases h2 : io.availIn = 0 ∧ op = 2
            · rw [decide_eq_true h2]
              exact Or.inr ⟨hcond.2.1, h2.1, Or.inr ⟨h2.2, rfl⟩⟩
            · rw [decide_eq_false h2]
              by_cases h1 : io.availIn = 0 ∧ op = 1
              · rw [decide_eq_true h1]
                exact Or.inr ⟨hcond.2.1, h1.1, Or.inl ⟨h1.2, rfl⟩⟩
              · rw [decide_eq_false h1]
                exact Or.inl hcond.2.1.symm
      · simp only [Out.ok.injEq, Prod.mk.injEq] at h
        obtain ⟨rfl, rfl, rfl⟩ := h
        exact ⟨hI, rfl, by simp, rfl, Nat.le_refl _, Or.inl rfl⟩

end BV.Stream
