/-
C01 / meta-block writers, part 5: `BuildHistograms`.  Over a command array whose literal runs lie inside
the meta-block, the three histograms count exactly the literal bytes, the command symbols and the
distance symbols the data loop will write; no `u32` counter wraps while the totals stay below 2^32.
-/
import BV.Lemmas.MetaBlockSim

namespace BV.MetaBlock
open BV.Gen BV.Bits BV.Huffman BV.PrefixArith BV.Recoder

/-- a histogram over `n` symbols that counts exactly the list `items` -/
structure HistoInv (h : Histo) (n : Nat) (items : List Nat) : Prop where
  len : h.data.length = n
  sum : h.data.sum = items.length
  total : h.total = items.length
  mem : ∀ s, h.data.getD s 0 ≠ 0 ↔ s ∈ items

theorem histoInv_zero (n : Nat) : HistoInv (Histo.zero n) n [] := by
  refine ⟨by simp [Histo.zero], ?_, rfl, ?_⟩
  · simp [Histo.zero]
  · intro s
    simp only [Histo.zero, List.getD_eq_getElem?_getD, List.getElem?_replicate]
    split <;> simp

theorem getElem_le_sum (l : List Nat) (i : Nat) (h : i < l.length) : l[i] ≤ l.sum := by
  induction l generalizing i with
  | nil => simp at h
  | cons x xs ih =>
    cases i with
    | zero => simp
    | succ i => simp only [List.getElem_cons_succ, List.sum_cons]; have := ih i (by simpa using h); omega

theorem sum_set (l : List Nat) (i x : Nat) (h : i < l.length) : (l.set i x).sum + l[i] = l.sum + x := by
  induction l generalizing i with
  | nil => simp at h
  | cons y ys ih =>
    cases i with
    | zero => simp only [List.set_cons_zero, List.sum_cons, List.getElem_cons_zero]; omega
    | succ i =>
      simp only [List.set_cons_succ, List.sum_cons, List.getElem_cons_succ]
      have := ih i (by simpa using h)
      omega

/-- the data part of `HistoInv` (the `≤ 128` commands branch of the fast writer keeps no total) -/
structure DataInv (d : List Nat) (n : Nat) (items : List Nat) : Prop where
  len : d.length = n
  sum : d.sum = items.length
  mem : ∀ s, d.getD s 0 ≠ 0 ↔ s ∈ items

theorem HistoInv.toData {h : Histo} {n : Nat} {items : List Nat} (hi : HistoInv h n items) :
    DataInv h.data n items := ⟨hi.len, hi.sum, hi.mem⟩

theorem HistoInv.ofData {h : Histo} {n : Nat} {items : List Nat} (hd : DataInv h.data n items)
    (ht : h.total = items.length) : HistoInv h n items := ⟨hd.len, hd.sum, ht, hd.mem⟩

theorem histoAdd_data (h : Histo) (n : Nat) (items : List Nat) (v : Nat) (hi : DataInv h.data n items) (hv : v < n)
    (hb : items.length + 1 < two32) :
    ∃ h', histoAdd h v = .ok h' ∧ DataInv h'.data n (items ++ [v]) ∧ h'.total = (h.total + 1) % two64 := by
  have hvl : v < h.data.length := by rw [hi.len]; exact hv
  have hle := getElem_le_sum h.data v hvl
  rw [hi.sum] at hle
  unfold histoAdd
  rw [List.getElem?_eq_getElem hvl]
  have e1 : (h.data[v] + 1) % two32 = h.data[v] + 1 := Nat.mod_eq_of_lt (by omega)
  refine ⟨_, rfl, ⟨by simp [hi.len], ?_, ?_⟩, rfl⟩
  · simp only [e1]
    have := sum_set h.data v (h.data[v] + 1) hvl
    rw [hi.sum] at this
    simp only [List.length_append, List.length_singleton]
    omega
  · intro s
    simp only [List.getD_eq_getElem?_getD, List.getElem?_set, e1, List.mem_append, List.mem_singleton]
    by_cases hsv : v = s
    · subst hsv
      simp [hvl]
    · simp only [hsv, if_false]
      have := hi.mem s
      rw [List.getD_eq_getElem?_getD] at this
      rw [this]
      constructor
      · intro h; exact Or.inl h
      · rintro (h | h)
        · exact h
        · exact absurd h.symm hsv

theorem histoAdd_inv (h : Histo) (n : Nat) (items : List Nat) (v : Nat) (hi : HistoInv h n items) (hv : v < n)
    (hb : items.length + 1 < two32) :
    ∃ h', histoAdd h v = .ok h' ∧ HistoInv h' n (items ++ [v]) := by
  obtain ⟨h', e, d, t⟩ := histoAdd_data h n items v hi.toData hv hb
  refine ⟨h', e, HistoInv.ofData d ?_⟩
  rw [t, hi.total]
  simp only [List.length_append, List.length_singleton]
  exact Nat.mod_eq_of_lt (by unfold two64; unfold two32 at hb; omega)

/-- `copy_len() ≠ 0 && cmd_prefix_ ≥ 128`: the command carries an explicit distance symbol -/
def hasDist (c : Cmd) : Bool := decide (copyLen c ≠ 0) && decide (c.cmdPrefix ≥ 128)

/-- the distance symbols the writers emit -/
def distsOf (cmds : List Cmd) : List Nat := (cmds.filter hasDist).map fun c => c.distPrefix % 1024

/-- every literal run of the array lies inside the meta-block -/
def InRange (mb : Bytes) : Nat → List Cmd → Prop
  | _, [] => True
  | k, c :: cs => k + c.insertLen ≤ mb.length ∧ InRange mb (k + c.insertLen + copyLen c) cs

theorem histoLits_data (ring : Bytes) (mask start : Nat) (mb : Bytes) (hR : RingHolds ring mask start mb)
    (h256 : ∀ b ∈ mb, b < 256) :
    ∀ (n k : Nat) (h : Histo) (items : List Nat), DataInv h.data 256 items → h.total < two64 → k + n ≤ mb.length →
      items.length + n < two32 →
      ∃ h', histoLits ring mask n (posOf start k) h = .ok (h', posOf start (k + n)) ∧
        DataInv h'.data 256 (items ++ (mb.drop k).take n) ∧ h'.total = (h.total + n) % two64 := by
  intro n
  induction n with
  | zero =>
    intro k h items hi ht _ hb
    refine ⟨h, by simp [histoLits], by simpa using hi, ?_⟩
    rw [Nat.add_zero, Nat.mod_eq_of_lt ht]
  | succ n ih =>
    intro k h items hi ht hk hb
    have hk' : k < mb.length := by omega
    obtain ⟨h1, e1, i1, t1⟩ := histoAdd_data h 256 items (mb.getD k 0) hi (h256 _ (getD_mem mb k hk')) (by omega)
    obtain ⟨h2, e2, i2, t2⟩ := ih (k + 1) h1 _ i1 (by rw [t1]; exact Nat.mod_lt _ (by decide)) (by omega) (by simp; omega)
    refine ⟨h2, ?_, ?_, ?_⟩
    · unfold histoLits
      rw [hR k hk', Out.bind_ok, e1, Out.bind_ok, posOf_add, e2, show k + 1 + n = k + (n + 1) by omega]
    · rw [drop_take_succ mb k n hk']
      simpa [List.append_assoc] using i2
    · rw [t2, t1, Nat.mod_add_mod, Nat.add_assoc, Nat.add_comm 1 n]

theorem histoLits_inv (ring : Bytes) (mask start : Nat) (mb : Bytes) (hR : RingHolds ring mask start mb)
    (h256 : ∀ b ∈ mb, b < 256) (n k : Nat) (h : Histo) (items : List Nat) (hi : HistoInv h 256 items)
    (hk : k + n ≤ mb.length) (hb : items.length + n < two32) :
    ∃ h', histoLits ring mask n (posOf start k) h = .ok (h', posOf start (k + n)) ∧
      HistoInv h' 256 (items ++ (mb.drop k).take n) := by
  have h64 : two32 < two64 := by decide
  obtain ⟨h', e, d, t⟩ := histoLits_data ring mask start mb hR h256 n k h items hi.toData
    (by rw [hi.total]; omega) hk hb
  refine ⟨h', e, HistoInv.ofData d ?_⟩
  rw [t, hi.total, List.length_append, List.length_take, List.length_drop, Nat.min_eq_left (by omega)]
  exact Nat.mod_eq_of_lt (by omega)

theorem litsOf_length (mb : Bytes) : ∀ (cmds : List Cmd) (k : Nat), InRange mb k cmds →
    (litsOf mb k cmds).length ≤ mb.length - k := by
  intro cmds
  induction cmds with
  | nil => intro k _; simp [litsOf]
  | cons c cs ih =>
    intro k h
    obtain ⟨h1, h2⟩ := h
    have := ih _ h2
    simp only [litsOf, List.length_append, List.length_take, List.length_drop]
    omega

theorem buildHistograms_inv (ring : Bytes) (mask start : Nat) (mb : Bytes) (hR : RingHolds ring mask start mb)
    (h256 : ∀ b ∈ mb, b < 256) :
    ∀ (cmds : List Cmd) (k : Nat) (lit cmd dist : Histo) (L C D : List Nat),
      HistoInv lit 256 L → HistoInv cmd 704 C → HistoInv dist 544 D → InRange mb k cmds →
      (∀ c ∈ cmds, c.cmdPrefix < 704 ∧ c.distPrefix % 1024 < 544) →
      L.length + (mb.length - k) < two32 → C.length + cmds.length < two32 → D.length + cmds.length < two32 →
      ∃ lit' cmd' dist', buildHistograms ring mask cmds (posOf start k) (lit, cmd, dist) = .ok (lit', cmd', dist') ∧
        HistoInv lit' 256 (L ++ litsOf mb k cmds) ∧ HistoInv cmd' 704 (C ++ cmds.map (·.cmdPrefix)) ∧
        HistoInv dist' 544 (D ++ distsOf cmds) := by
  intro cmds
  induction cmds with
  | nil =>
    intro k lit cmd dist L C D hl hc hd _ _ _ _ _
    exact ⟨lit, cmd, dist, by simp [buildHistograms], by simpa [litsOf] using hl, by simpa using hc,
      by simpa [distsOf] using hd⟩
  | cons c cs ih =>
    intro k lit cmd dist L C D hl hc hd hr hb b1 b2 b3
    obtain ⟨hr1, hr2⟩ := hr
    obtain ⟨hb1, hb2⟩ := hb c (by simp)
    simp only [List.length_cons] at b2 b3
    obtain ⟨cmd1, e1, i1⟩ := histoAdd_inv cmd 704 C c.cmdPrefix hc hb1 (by omega)
    obtain ⟨lit1, e2, i2⟩ := histoLits_inv ring mask start mb hR h256 c.insertLen k lit L hl hr1 (by omega)
    have hdd : ∃ dist1, (if copyLen c ≠ 0 ∧ c.cmdPrefix ≥ 128 then histoAdd dist (c.distPrefix % 1024) else Out.ok dist)
        = .ok dist1 ∧ HistoInv dist1 544 (D ++ distsOf [c]) := by
      by_cases hh : copyLen c ≠ 0 ∧ c.cmdPrefix ≥ 128
      · obtain ⟨d1, e3, i3⟩ := histoAdd_inv dist 544 D (c.distPrefix % 1024) hd hb2 (by omega)
        refine ⟨d1, by rw [if_pos hh, e3], ?_⟩
        have hf : hasDist c = true := by
          unfold hasDist; simp [hh.1, hh.2]
        have : distsOf [c] = [c.distPrefix % 1024] := by
          simp [distsOf, hf]
        rw [this]; exact i3
      · refine ⟨dist, by rw [if_neg hh], ?_⟩
        have hf : hasDist c = false := by
          unfold hasDist
          rw [Bool.and_eq_false_iff]
          by_cases h0 : copyLen c ≠ 0
          · right
            have : ¬ c.cmdPrefix ≥ 128 := fun h => hh ⟨h0, h⟩
            simpa using this
          · left; simpa using h0
        have : distsOf [c] = [] := by
          simp [distsOf, hf]
        rw [this]; simpa using hd
    obtain ⟨dist1, e3, i3⟩ := hdd
    have hlen : (mb.drop k).take c.insertLen = (mb.drop k).take c.insertLen := rfl
    have hl1 : ((mb.drop k).take c.insertLen).length = c.insertLen := by
      rw [List.length_take, List.length_drop]; omega
    have hd1 : (distsOf [c]).length ≤ 1 := by
      simp only [distsOf, List.length_map]
      exact Nat.le_trans (List.length_filter_le _ _) (by simp)
    obtain ⟨lit', cmd', dist', e4, j1, j2, j3⟩ := ih (k + c.insertLen + copyLen c) lit1 cmd1 dist1 _ _ _ i2 i1 i3 hr2
      (fun x hx => hb x (List.mem_cons_of_mem _ hx))
      (by simp only [List.length_append, hl1]; omega) (by simp; omega)
      (by simp only [List.length_append]; omega)
    refine ⟨lit', cmd', dist', ?_, ?_, ?_, ?_⟩
    · unfold buildHistograms
      rw [e1, Out.bind_ok, e2, Out.bind_ok]
      simp only
      rw [e3, Out.bind_ok, posOf_add, e4]
    · simpa [litsOf, List.append_assoc] using j1
    · simpa [List.append_assoc] using j2
    · have : distsOf (c :: cs) = distsOf [c] ++ distsOf cs := by
        simp only [distsOf, List.filter_cons, List.filter_nil]
        split <;> simp
      rw [this]
      simpa [List.append_assoc] using j3

/-- the literal histogram loop of the `n_commands ≤ 128` branch of the fast writer -/
theorem fastLitHisto_inv (ring : Bytes) (mask start : Nat) (mb : Bytes) (hR : RingHolds ring mask start mb)
    (h256 : ∀ b ∈ mb, b < 256) :
    ∀ (cmds : List Cmd) (k : Nat) (d : List Nat) (L : List Nat), DataInv d 256 L → InRange mb k cmds →
      L.length + (mb.length - k) < two32 →
      ∃ d', fastLitHisto ring mask cmds (posOf start k) d L.length
          = .ok (d', L.length + (litsOf mb k cmds).length) ∧ DataInv d' 256 (L ++ litsOf mb k cmds) := by
  intro cmds
  induction cmds with
  | nil => intro k d L hd _ _; exact ⟨d, by simp [fastLitHisto, litsOf], by simpa [litsOf] using hd⟩
  | cons c cs ih =>
    intro k d L hd hr hb
    obtain ⟨hr1, hr2⟩ := hr
    obtain ⟨h1, e1, d1, _⟩ := histoLits_data ring mask start mb hR h256 c.insertLen k ⟨d, 0⟩ L hd (by show (0 : Nat) < two64; decide) hr1 (by omega)
    have hl1 : ((mb.drop k).take c.insertLen).length = c.insertLen := by
      rw [List.length_take, List.length_drop]; omega
    obtain ⟨d', e2, d2⟩ := ih (k + c.insertLen + copyLen c) h1.data (L ++ (mb.drop k).take c.insertLen) d1 hr2
      (by simp only [List.length_append, hl1]; omega)
    refine ⟨d', ?_, ?_⟩
    · unfold fastLitHisto
      rw [e1, Out.bind_ok]
      simp only
      have hmod : (L.length + c.insertLen) % two64 = L.length + c.insertLen :=
        Nat.mod_eq_of_lt (by have : two32 < two64 := by decide
                             omega)
      rw [posOf_add, hmod]
      simp only [List.length_append, hl1] at e2
      rw [e2]
      simp [litsOf, hl1]
      omega
    · simpa [litsOf, List.append_assoc] using d2

/-- a lockstep array keeps its literal runs inside the meta-block -/
theorem lockstep_inRange (wo : WordOracle) (np nd window : Nat) (mb : Bytes) :
    ∀ (cs : List Cmd) (s : DecSt) (p : Nat), lockstep wo np nd window mb s p cs = true → InRange mb p cs := by
  intro cs
  induction cs with
  | nil => intro s p _; trivial
  | cons c cs ih =>
    intro s p h
    simp only [lockstep, Bool.and_eq_true, decide_eq_true_eq] at h
    obtain ⟨hp, h⟩ := h
    cases hd : decStep wo np nd window mb s c with
    | none => rw [hd] at h; simp at h
    | some s' =>
      rw [hd] at h
      simp only at h
      rw [decStep_eq] at hd
      have hrem : ¬ (mb.length - s.cursor = 0) := by
        intro h; rw [if_pos h] at hd; cases hd
      rw [if_neg hrem] at hd
      have hins : ¬ (c.insertLen > mb.length - s.cursor) := by
        intro h; rw [if_pos h] at hd; cases hd
      refine ⟨by omega, ?_⟩
      by_cases ht : p + c.insertLen = mb.length
      · rw [if_pos ht] at h
        simp only [Bool.and_eq_true, decide_eq_true_eq, List.isEmpty_iff] at h
        rw [h.1]; trivial
      · rw [if_neg ht] at h
        simp only [Bool.and_eq_true, decide_eq_true_eq] at h
        exact ih s' _ h.2

end BV.MetaBlock
