/-
Facts about the prelude of the Rust-to-Lean translator (BV/Model/RsPrelude.lean): on values that
fit, the fixed-width signed operations are the mathematical ones.
-/
import BV.Model.RsPrelude

namespace BV.Rs

theorem wrapS32_of_range (x : Int) (h1 : -2147483648 ≤ x) (h2 : x < 2147483648) : wrapS 32 x = x := by
  unfold wrapS
  have e1 : (2 : Int) ^ (32 - 1) = 2147483648 := by decide
  have e2 : (2 : Int) ^ 32 = 4294967296 := by decide
  rw [e1, e2]
  omega

theorem toU32_ofNat (n : Nat) (h : n < 4294967296) : toU 32 (n : Int) = n := by
  unfold toU
  have e2 : (2 : Int) ^ 32 = 4294967296 := by decide
  rw [e2]
  omega

theorem toU64_ofNat (n : Nat) (h : n < 18446744073709551616) : toU 64 (n : Int) = n := by
  unfold toU
  have e2 : (2 : Int) ^ 64 = 18446744073709551616 := by decide
  rw [e2]
  omega

/-- a bitwise operation on two non-negative `i32` values whose result is below 2^31 -/
theorem sop32_ofNat (f : Nat → Nat → Nat) (a b : Nat) (ha : a < 4294967296) (hb : b < 4294967296)
    (hf : f a b < 2147483648) : sop f 32 (a : Int) (b : Int) = (f a b : Nat) := by
  unfold sop
  rw [toU32_ofNat a ha, toU32_ofNat b hb]
  exact wrapS32_of_range _ (by omega) (by omega)

theorem and_1023 (x : Nat) : x &&& 1023 = x % 1024 := Nat.and_two_pow_sub_one_eq_mod x 10

end BV.Rs
