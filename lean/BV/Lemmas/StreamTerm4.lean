import BV.Lemmas.StreamTerm3
/-
Termination of the metadata loop (`process_metadata`) — the loop in which the quality 0/1 +
catable livelock lived: the potential needs `encode_data(force_flush)` to end with
`last_flush_pos_ = input_pos_`.
-/
namespace BV.Stream
open BV.Bits

theorem mdStep_ne_fuel (o : Oracle) (s : St) (io : Io) : processMetadataStep o s io ≠ .fuel := by
  intro h
  unfold processMetadataStep at h
  split at h
  · simp at h
  · rename_i hq; exact absurd hq (push_ne_fuel _ _)
  · simp at h
  · split at h
    · simp at h
    · split at h
      · split at h
        · simp at h
        · rename_i hq; exact absurd hq (encodeData_ne_fuel _ _ _ _ _)
        · split at h <;> simp at h
      · simp only at h
        split_all h
        all_goals simp at h

theorem packBytes_length : ∀ (k : Nat) (v : List Bool), v.length ≤ k → (packBytes k v).length = (v.length + 7) / 8 := by
  intro k
  induction k with
  | zero => intro v hv; simp at hv; subst hv; rfl
  | succ k ih =>
    intro v hv
    match v with
    | [] => rfl
    | b :: bs =>
      simp only [packBytes, List.length_cons]
      rw [ih _ (by rw [List.length_drop]; simp only [List.length_cons] at hv ⊢; omega)]
      rw [List.length_drop]
      simp only [List.length_cons]
      omega

theorem toBytes_length (w : Writer) : (toBytes w).length = (w.length + 7) / 8 :=
  packBytes_length w.length w (Nat.le_refl _)

theorem metadataHeaderBits_length_le (n : Nat) (hn : n ≤ 16777216) (carry : Writer) :
    (metadataHeaderBits n carry).length ≤ carry.length + 37 := by
  rw [metadataHeaderBits_eq n hn]
  have h1 := padToByte_length_le (carry ++ mdHeader n)
  have h2 := mdHeader_length n
  rw [List.length_append] at h1
  by_cases h0 : n = 0
  · rw [if_pos h0] at h2; omega
  · rw [if_neg h0] at h2
    have := (mdNbytes_spec (by omega) hn).2.1
    omega

/-- potential of the metadata loop -/
def mdPot (M : Nat) (s : St) : Nat :=
  (if s.inputPos ≠ s.lastFlushPos then 1 else 0) * (M + 8) + (if s.streamState = .metadataHead then 8 else 0)
    + 17 * s.remainingMetadata + s.pending.length

/-- a push (no padding possible) strictly shortens `pending` -/
theorem push_strict {s s' : St} {io io' : Io} (hst : s.streamState ≠ .flushRequested)
    (h : injectFlushOrPushOutput s io = .ok (s', io', true)) : s'.pending.length < s.pending.length := by
  unfold injectFlushOrPushOutput at h
  split at h
  · rename_i hc; exact absurd hc.1 hst
  · simp only at h
    split_all h
    all_goals first
      | (simp at h; done)
      | (rename_i hpush _ _ _ _
         simp only [Out.ok.injEq, Prod.mk.injEq] at h; obtain ⟨rfl, rfl, _⟩ := h
         simp only [List.length_drop]
         have := hpush.1; have := hpush.2
         omega)
      | (rename_i hpush _ _ _
         simp only [Out.ok.injEq, Prod.mk.injEq] at h; obtain ⟨rfl, rfl, _⟩ := h
         simp only [List.length_drop]
         have := hpush.1; have := hpush.2
         omega)

theorem mdStep_decreases {o : Oracle} {n M : Nat} {s s' : St} {io io' : Io} (hP : MdInv n s io)
    (hl : s.lastBytesBits ≤ 14)
    (h : processMetadataStep o s io = .ok (s', io', .cont)) :
    (MCap M s → mdPot M s' < mdPot M s ∧ MCap M s') ∧ s'.lastBytesBits ≤ 14 := by
  have hI := hP.inv
  have hnf : s.streamState ≠ .finished := by rcases hP.st with h1 | h1 <;> rw [h1] <;> simp
  have hnfl : s.streamState ≠ .flushRequested := by rcases hP.st with h1 | h1 <;> rw [h1] <;> simp
  unfold processMetadataStep at h
  split at h
  · simp at h
  · simp at h
  · rename_i s1 io1 hp
    simp only [Out.ok.injEq, Prod.mk.injEq] at h
    obtain ⟨rfl, rfl, _⟩ := h
    obtain ⟨f, a1, _, _, a5, _, _, _, _, _⟩ := push_frame hp
    rw [St.frame_eq_iff] at f
    have hlt := push_strict hnfl hp
    have hlb := (push_conserve hnfl hp).2.2.2.2.1
    refine ⟨?_, by rw [hlb]; exact hl⟩
    intro hC
    refine ⟨?_, by unfold MCap at hC ⊢; rw [a5, f.2.1, a1]; exact hC⟩
    unfold mdPot
    rw [f.2.1, a1, f.2.2.2.1, f.2.2.1]
    omega
  · rename_i s1 io1 hp
    obtain ⟨e1, e2, _, _⟩ := push_false hp
    have e1' := e1.symm; have e2' := e2.symm
    subst e1' e2'
    split at h
    · simp at h
    · rename_i hpend
      have hp0 : s.pending.length = 0 := by simpa using hpend
      split at h
      · -- flush what has been buffered first
        rename_i hne
        split at h
        · simp at h
        · simp at h
        · rename_i s2 res req henc
          have hres : res = true := encodeData_succeeds hI hnf henc
          subst hres
          simp only [Bool.not_true, Bool.false_eq_true, ↓reduceIte, Out.ok.injEq, Prod.mk.injEq] at h
          obtain ⟨rfl, rfl, _⟩ := h
          obtain ⟨f, _, _, _, _⟩ := encodeData_frame henc
          rw [St.frame_eq_iff] at f
          have hlf := encodeData_forced henc (Or.inr rfl) hI.fl_le hI.lp_le hI.ip_lt hI.q01
          have hsto := encodeData_store henc hI.fl_le hI.lp_le hI.ip_lt
          have hlbb : s2.lastBytesBits ≤ 14 := by
            rcases encodeData_lbb henc with h8 | h8
            · omega
            · rw [h8]; exact hl
          refine ⟨?_, hlbb⟩
          intro hC
          obtain ⟨q1, q2⟩ := hC
          obtain ⟨t1, t2, t3, t4⟩ := hsto
          have hs2M : s2.storageSize ≤ M := Nat.le_trans t2 (Nat.max_le.mpr ⟨q1, q2⟩)
          refine ⟨?_, ⟨hs2M, by rw [t4]; omega⟩⟩
          unfold mdPot
          rw [f.2.1, hlf, f.2.2.2.1, f.2.2.1]
          simp only [ne_eq, not_true_eq_false, ↓reduceIte, Nat.zero_mul, Nat.zero_add]
          rw [if_pos hne, Nat.one_mul, hp0]
          have : s2.pending.length ≤ M := by omega
          omega
      · rename_i heq
        have hlfe : s.inputPos = s.lastFlushPos := by
          by_cases hh : s.inputPos = s.lastFlushPos
          · exact hh
          · exact absurd hh heq
        split at h
        · -- header
          rename_i hhead
          simp only at h
          split at h
          · simp at h
          · simp only [Out.ok.injEq, Prod.mk.injEq] at h
            obtain ⟨rfl, rfl, _⟩ := h
            refine ⟨?_, by simp⟩
            intro hC
            refine ⟨?_, hC⟩
            unfold mdPot
            simp only [hhead, ↓reduceIte, reduceCtorEq]
            have h1 := metadataHeaderBits_length_le s.remainingMetadata hP.rmLe (bitsOf s.lastBytesBits s.lastBytes)
            rw [bitsOf_length] at h1
            have h2 := toBytes_length (metadataHeaderBits s.remainingMetadata (bitsOf s.lastBytesBits s.lastBytes))
            rw [h2, hp0]
            omega
        · rename_i hnhead
          split at h
          · simp at h
          · rename_i hnz
            have hrm32 := lt_two32_of_le hP.rmLe
            split at h
            · rename_i havail
              simp only at h
              split at h
              · simp at h
              · simp only [Out.ok.injEq, Prod.mk.injEq] at h
                obtain ⟨rfl, rfl, _⟩ := h
                have hcopy : (min s.remainingMetadata io.availOut) % two32 = min s.remainingMetadata io.availOut :=
                  Nat.mod_eq_of_lt (Nat.lt_of_le_of_lt (Nat.min_le_left _ _) hrm32)
                have e1 : (s.remainingMetadata + two32 - min s.remainingMetadata io.availOut % two32) % two32 = s.remainingMetadata - min s.remainingMetadata io.availOut := by
                  rw [hcopy]; exact sub_mod_two32 (Nat.min_le_left _ _) hrm32
                refine ⟨?_, hl⟩
                intro hC
                refine ⟨?_, hC⟩
                unfold mdPot
                simp only [e1, hnhead, ↓reduceIte]
                have : 1 ≤ min s.remainingMetadata io.availOut := by omega
                have : min s.remainingMetadata io.availOut ≤ s.remainingMetadata := Nat.min_le_left _ _
                omega
            · simp only at h
              split at h
              · simp at h
              · simp only [Out.ok.injEq, Prod.mk.injEq] at h
                obtain ⟨rfl, rfl, _⟩ := h
                have e1 : (s.remainingMetadata + two32 - min s.remainingMetadata 16) % two32 = s.remainingMetadata - min s.remainingMetadata 16 :=
                  sub_mod_two32 (Nat.min_le_left _ _) hrm32
                refine ⟨?_, hl⟩
                intro hC
                refine ⟨?_, hC⟩
                unfold mdPot
                simp only [e1, hnhead, ↓reduceIte, List.length_take]
                have : 1 ≤ min s.remainingMetadata 16 := by omega
                have : min s.remainingMetadata 16 ≤ s.remainingMetadata := Nat.min_le_left _ _
                rw [hp0]
                omega

theorem mdLoop_terminates {o : Oracle} {n M : Nat} :
    ∀ fuel s io, MdInv n s io → s.lastBytesBits ≤ 14 → MCap M s → mdPot M s < fuel →
      processMetadataLoop o fuel s io ≠ .fuel := by
  intro fuel
  induction fuel with
  | zero => intro s io _ _ _ h; omega
  | succ k ih =>
    intro s io hP hl hC hpot
    unfold processMetadataLoop
    have hnf := mdStep_ne_fuel o s io
    split
    · simp
    · rename_i hh; exact absurd hh hnf
    · simp
    · rename_i s1 io1 hs
      obtain ⟨d1, d2⟩ := mdStep_decreases (M := M) hP hl hs
      obtain ⟨d3, d4⟩ := d1 hC
      rcases (mdStep_spec hP hs).2 with h1 | ⟨h1, _⟩
      · exact ih s1 io1 h1 d2 d4 (by omega)
      · cases h1
    · simp

end BV.Stream
