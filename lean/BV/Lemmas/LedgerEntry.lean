import BV.Lemmas.LedgerOps
/-!
Entry points: a generic "prefix ++ arbitrary body ++ suffix releases everything" theorem, the log only
grows, and the freed-blocks-stay-dead lemma of the judge.
-/
namespace BV.Ledger

theorem W.init_m8 (m8 q : Nat) : (W.init m8 q).m8 = m8 := rfl

/-- **generic entry-point theorem**: a history `pre ++ body ++ post` where `body` is an arbitrary list of
    body calls; for every slot either the suffix empties it whatever its state, or it is a non-field slot
    that prefix and suffix leave empty.  Then every accepted run ends with a clean, balanced ledger. -/
theorem ep_releases {fl : Flags} (hfl : fl.sitesOk = true) (m8 q : Nat) (pre body post : List Op)
    (hb : ∀ op ∈ body, op.isBody = true)
    (hslots : ∀ s : Slot, (∀ b, flagAfter fl m8 s b post = true) ∨
      (s.isField = false ∧ flagAfter fl m8 s true pre = true ∧ flagAfter fl m8 s true post = true))
    {w' : W} (h : run fl (W.init m8 q) (pre ++ body ++ post) = .ok w') :
    (judge w'.log).clean = true ∧ (judge w'.log).live = [] := by
  obtain ⟨hi, hl, _⟩ := run_inv hfl _ _ _ (Inv.init m8 q) h
  have hempty : ∀ s, w'.enc.get s = [] := by
    intro s
    apply run_empty s _ _ _ true (fun _ => by cases s <;> rfl) h
    rw [W.init_m8, flagAfter_append, flagAfter_append]
    rcases hslots s with h1 | ⟨hs, h1, h2⟩
    · exact h1 _
    · rw [h1, body_flag fl m8 s hs body hb, h2]
  refine ⟨(clean_iff_bad _).mpr hi.bad, live_nil hi (held_nil_of_slots _ hempty) ?_⟩
  rw [hl]; rfl

/-- the same, for a chosen set of slots `P`: the invariant holds at the end, nothing was lost, and every
    slot in `P` is empty (used when an entry point legitimately leaves something behind) -/
theorem ep_empty_slots {fl : Flags} (hfl : fl.sitesOk = true) (m8 q : Nat) (pre body post : List Op)
    (hb : ∀ op ∈ body, op.isBody = true) (P : Slot → Prop)
    (hslots : ∀ s : Slot, P s → (∀ b, flagAfter fl m8 s b post = true) ∨
      (s.isField = false ∧ flagAfter fl m8 s true pre = true ∧ flagAfter fl m8 s true post = true))
    {w' : W} (h : run fl (W.init m8 q) (pre ++ body ++ post) = .ok w') :
    Inv w' ∧ w'.lost = [] ∧ ∀ s, P s → w'.enc.get s = [] := by
  obtain ⟨hi, hl, _⟩ := run_inv hfl _ _ _ (Inv.init m8 q) h
  refine ⟨hi, by rw [hl]; rfl, ?_⟩
  intro s hs
  apply run_empty s _ _ _ true (fun _ => by cases s <;> rfl) h
  rw [W.init_m8, flagAfter_append, flagAfter_append]
  rcases hslots s hs with h1 | ⟨hs', h1, h2⟩
  · exact h1 _
  · rw [h1, body_flag fl m8 s hs' body hb, h2]

/-! ### the log only grows -/

theorem act_log_prefix (w : W) (a : Act) : ∃ suf, (w.act a).log = w.log ++ suf := by
  cases a with
  | free s => exact ⟨_, rfl⟩
  | alloc x s k => exact ⟨_, rfl⟩
  | lose s => exact ⟨[], by simp [W.act]⟩
  | move src dst =>
    refine ⟨[], ?_⟩
    simp only [W.act]
    split <;> simp

theorem acts_log_prefix (w : W) (as : List Act) : ∃ suf, (w.acts as).log = w.log ++ suf := by
  induction as generalizing w with
  | nil => exact ⟨[], by simp [acts_nil]⟩
  | cons a as ih =>
    obtain ⟨s1, h1⟩ := act_log_prefix w a
    obtain ⟨s2, h2⟩ := ih (w.act a)
    exact ⟨s1 ++ s2, by rw [acts_cons, h2, h1, List.append_assoc]⟩

theorem step_log_prefix {fl : Flags} {w w' : W} {op : Op} (h : step fl w op = .ok w') :
    ∃ suf, w'.log = w.log ++ suf := by
  obtain ⟨_, rfl⟩ := step_ok h
  rw [opBook_log]
  exact acts_log_prefix _ _

theorem run_log_prefix {fl : Flags} : ∀ (ops : List Op) (w w' : W), run fl w ops = .ok w' →
    ∃ suf, w'.log = w.log ++ suf := by
  intro ops
  induction ops with
  | nil => intro w w' h; cases h; exact ⟨[], by simp⟩
  | cons op ops ih =>
    intro w w' h
    obtain ⟨w1, h1, h2⟩ := run_cons_ok h
    obtain ⟨s1, e1⟩ := step_log_prefix h1
    obtain ⟨s2, e2⟩ := ih w1 w' h2
    exact ⟨s1 ++ s2, by rw [e2, e1, List.append_assoc]⟩

/-! ### a freed block stays dead (in a clean log) -/

theorem step_bad_mono (j : Judge) (ev : Ev) : j.bad ≤ (j.step ev).bad := by
  cases ev with
  | alloc x => simp only [Judge.step]; split <;> simp [Judge.bad]
  | free via x =>
    simp only [Judge.step]
    split
    · split <;> simp [Judge.bad] <;> omega
    · split <;> simp [Judge.bad] <;> omega
  | drop x => simp [Judge.step, Judge.bad]

theorem foldl_bad_mono (evs : List Ev) (j : Judge) : j.bad ≤ (evs.foldl Judge.step j).bad := by
  induction evs generalizing j with
  | nil => exact Nat.le_refl _
  | cons e es ih => exact Nat.le_trans (step_bad_mono j e) (ih (j.step e))

/-- `b` is dead in `j`: it was handed out once and is not live (or the log is already bad) -/
def Dead (b : BlockId) (j : Judge) : Prop := (b ∈ j.seen ∧ b ∉ j.live) ∨ 0 < j.bad

theorem step_dead (b : BlockId) (j : Judge) (ev : Ev) (h : Dead b j) : Dead b (j.step ev) := by
  rcases h with ⟨hs, hl⟩ | hbad
  · cases ev with
    | alloc x =>
      by_cases hx : x ∈ j.seen
      · right; simp [Judge.step, hx, Judge.bad]; omega
      · left
        have hxb : x ≠ b := fun e => hx (e ▸ hs)
        simp [Judge.step, hx, hs, hl]
        exact fun e => hxb e.symm
    | free via x =>
      simp only [Judge.step]
      split
      · split
        · left; exact ⟨hs, fun hm => hl (List.mem_of_mem_erase hm)⟩
        · left; exact ⟨hs, fun hm => hl (List.mem_of_mem_erase hm)⟩
      · split
        · right; simp [Judge.bad]; omega
        · right; simp [Judge.bad]; omega
    | drop x => left; exact ⟨hs, hl⟩
  · right
    exact Nat.lt_of_lt_of_le hbad (step_bad_mono j ev)

theorem foldl_dead (b : BlockId) (evs : List Ev) (j : Judge) (h : Dead b j) : Dead b (evs.foldl Judge.step j) := by
  induction evs generalizing j with
  | nil => exact h
  | cons e es ih => exact ih (j.step e) (step_dead b j e h)

theorem step_nodup (j : Judge) (ev : Ev) (hs : ∀ b ∈ j.live, b ∈ j.seen) (hn : j.live.Nodup) :
    (j.step ev).live.Nodup := by
  cases ev with
  | alloc x =>
    by_cases hx : x ∈ j.seen
    · simp [Judge.step, hx]; exact hn
    · simp [Judge.step, hx]
      exact ⟨fun hm => hx (hs x hm), hn⟩
  | free via x =>
    simp only [Judge.step]
    split
    · split <;> exact hn.erase x
    · split <;> exact hn
  | drop x => exact hn

theorem foldl_nodup (evs : List Ev) : ∀ (j : Judge), (∀ b ∈ j.live, b ∈ j.seen) → j.live.Nodup →
    (evs.foldl Judge.step j).live.Nodup := by
  induction evs with
  | nil => intro j _ hn; exact hn
  | cons e es ih =>
    intro j hs hn
    exact ih (j.step e) (step_live_sub_seen j e hs) (step_nodup j e hs hn)

theorem judge_nodup (log : List Ev) : (judge log).live.Nodup :=
  foldl_nodup log {} (by simp) (by simp)

/-- in a clean log, a block for which a `free` event was recorded is not live at the end -/
theorem freed_not_live {log : List Ev} {via : Nat} {b : BlockId} (hm : Ev.free via b ∈ log)
    (hc : (judge log).bad = 0) : b ∉ (judge log).live := by
  obtain ⟨pre, post, rfl⟩ := List.append_of_mem hm
  have hj : judge (pre ++ Ev.free via b :: post) = post.foldl Judge.step ((judge pre).step (Ev.free via b)) := by
    simp [judge, List.foldl_append]
  have hd : Dead b ((judge pre).step (Ev.free via b)) := by
    have hnd := judge_nodup pre
    have hss := live_sub_seen pre
    simp only [Judge.step]
    split
    · rename_i hl
      have : b ∉ (judge pre).live.erase b := fun hmem => by
        have := (List.Nodup.mem_erase_iff hnd).mp hmem
        exact this.1 rfl
      split
      · left; exact ⟨hss b hl, this⟩
      · left; exact ⟨hss b hl, this⟩
    · split
      · right; simp [Judge.bad]; omega
      · right; simp [Judge.bad]; omega
  rw [hj] at hc ⊢
  rcases foldl_dead b post _ hd with ⟨_, h⟩ | h
  · exact h
  · omega

end BV.Ledger
