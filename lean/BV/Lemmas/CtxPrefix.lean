/-
The literal contexts of a meta-block depend on the history only through its last two bytes (w-compose): why the
catable mode stores the first two bytes of a member — behind them `prev_byte` / `prev_byte2` and every §7.1 context id
are the same for the member alone and for the member inside a concatenation.
-/
import BV.Lemmas.MetaBlockFullSim

namespace BV.MetaBlock
open BV.Recoder BV.PrefixArith

theorem lastB_prefix (h' out : Bytes) (h : 1 ≤ out.length) : lastB (h' ++ out) = lastB out := by
  unfold lastB
  rw [if_pos (by simp; omega), if_pos h]
  simp only [List.getD_eq_getElem?_getD, List.length_append]
  rw [List.getElem?_append_right (by omega)]
  congr 2
  omega

theorem last2B_prefix (h' out : Bytes) (h : 2 ≤ out.length) : last2B (h' ++ out) = last2B out := by
  unfold last2B
  rw [if_pos (by simp; omega), if_pos h]
  simp only [List.getD_eq_getElem?_getD, List.length_append]
  rw [List.getElem?_append_right (by omega)]
  congr 2
  omega

theorem litCtxs_prefix (mode : Nat) (h' : Bytes) : ∀ (bs out : Bytes), 2 ≤ out.length →
    litCtxs mode (h' ++ out) bs = litCtxs mode out bs := by
  intro bs
  induction bs with
  | nil => intro out _; rfl
  | cons b bs ih =>
    intro out h
    simp only [litCtxs]
    rw [lastB_prefix h' out (by omega), last2B_prefix h' out h, List.append_assoc]
    rw [ih (out ++ [b]) (by simp; omega)]

theorem litSymsOf_prefix (mode : Nat) (h' hist mb : Bytes) (h : 2 ≤ hist.length) : ∀ (cmds : List Cmd) (k : Nat),
    litSymsOf mode (h' ++ hist) mb k cmds = litSymsOf mode hist mb k cmds := by
  intro cmds
  induction cmds with
  | nil => intro k; rfl
  | cons c cs ih =>
    intro k
    simp only [litSymsOf]
    rw [List.append_assoc, litCtxs_prefix mode h' _ _ (by simp; omega), ih]

end BV.MetaBlock
