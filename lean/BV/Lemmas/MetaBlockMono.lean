/-
C01 / meta-block writers, part 8: the RFC 7932 §3.4/§3.5 prefix-code reader only looks at the bits it
consumes: a description that `readPrefixCode` accepts is accepted with the same result whatever follows it.
(Used for the two static code descriptions of the fast writer, which are evaluated in isolation.)
-/
import BV.Model.MetaBlock

namespace BV.MetaBlock
open BV.Gen BV.Bits BV.Huffman

theorem takeBits_append (n : Nat) (bs x : List Bool) (v : Nat) (r : List Bool)
    (h : takeBits n bs = some (v, r)) : takeBits n (bs ++ x) = some (v, r ++ x) := by
  unfold takeBits at h ⊢
  split at h
  · rename_i hn
    injection h with h
    injection h with h1 h2
    rw [if_pos (by rw [List.length_append]; omega), List.take_append_of_le_length hn,
      List.drop_append_of_le_length hn, h1, h2]
  · cases h

/-- the fixed code of the code length code lengths as a pattern match -/
def vlcPat : List Bool → Option (Nat × List Bool)
  | false :: false :: r => some (0, r)
  | true :: true :: true :: false :: r => some (1, r)
  | true :: true :: false :: r => some (2, r)
  | false :: true :: r => some (3, r)
  | true :: false :: r => some (4, r)
  | true :: true :: true :: true :: r => some (5, r)
  | _ => none

theorem readClVlc_eq (bs : List Bool) : readClVlc bs = vlcPat bs := by
  rcases bs with _ | ⟨b0, _ | ⟨b1, _ | ⟨b2, _ | ⟨b3, t⟩⟩⟩⟩
  · rfl
  · cases b0 <;> rfl
  · cases b0 <;> cases b1 <;> rfl
  · cases b0 <;> cases b1 <;> cases b2 <;> rfl
  · cases b0 <;> cases b1 <;> cases b2 <;> cases b3 <;>
      simp [readClVlc, rfcClVlc, takeBits, valOf, vlcPat]

theorem vlcPat_append (bs x : List Bool) (v : Nat) (r : List Bool) (h : vlcPat bs = some (v, r)) :
    vlcPat (bs ++ x) = some (v, r ++ x) := by
  rcases bs with _ | ⟨b0, _ | ⟨b1, _ | ⟨b2, _ | ⟨b3, t⟩⟩⟩⟩
  · simp [vlcPat] at h
  · cases b0 <;> simp [vlcPat] at h
  · cases b0 <;> cases b1 <;> simp [vlcPat] at h <;> (obtain ⟨rfl, rfl⟩ := h; simp [vlcPat])
  · cases b0 <;> cases b1 <;> cases b2 <;> simp [vlcPat] at h <;> (obtain ⟨rfl, rfl⟩ := h; simp [vlcPat])
  · cases b0 <;> cases b1 <;> cases b2 <;> cases b3 <;> simp [vlcPat] at h <;>
      (obtain ⟨rfl, rfl⟩ := h; simp [vlcPat])

theorem readClVlc_append (bs x : List Bool) (v : Nat) (r : List Bool) (h : readClVlc bs = some (v, r)) :
    readClVlc (bs ++ x) = some (v, r ++ x) := by
  rw [readClVlc_eq] at h ⊢
  exact vlcPat_append bs x v r h

theorem readClLens_append (x : List Bool) : ∀ (os : List Nat) (space : Nat) (cl : List Nat) (bs : List Bool)
    (cl' : List Nat) (r : List Bool), readClLens os space cl bs = some (cl', r) →
    readClLens os space cl (bs ++ x) = some (cl', r ++ x) := by
  intro os
  induction os with
  | nil => intro space cl bs cl' r h; simp only [readClLens] at h ⊢; injection h with h; injection h with h1 h2; rw [h1, h2]
  | cons o os ih =>
    intro space cl bs cl' r h
    unfold readClLens at h ⊢
    cases hv : readClVlc bs with
    | none => rw [hv] at h; cases h
    | some p =>
      obtain ⟨v, rest⟩ := p
      rw [hv] at h
      rw [readClVlc_append bs x v rest hv]
      simp only at h ⊢
      split at h
      · split at h
        · injection h with h; injection h with h1 h2
          rename_i c1 c2
          rw [if_pos c1, if_pos c2, h1, h2]
        · rename_i c1 c2
          rw [if_pos c1, if_neg c2]
          exact ih _ _ _ _ _ h
      · rename_i c1
        rw [if_neg c1]
        exact ih _ _ _ _ _ h

theorem readSymGo_append (lens codes : List Nat) (x : List Bool) : ∀ (f l acc : Nat) (bs : List Bool) (s : Nat)
    (r : List Bool), readSymGo lens codes f l acc bs = some (s, r) →
    readSymGo lens codes f l acc (bs ++ x) = some (s, r ++ x) := by
  intro f
  induction f with
  | zero => intro l acc bs s r h; simp [readSymGo] at h
  | succ f ih =>
    intro l acc bs s r h
    cases bs with
    | nil => simp [readSymGo] at h
    | cons b bs =>
      simp only [readSymGo, List.cons_append] at h ⊢
      split at h
      · injection h with h; injection h with h1 h2
        rw [h1, h2]
      · exact ih _ _ _ _ _ h

theorem readSym_append (lens : List Nat) (bs x : List Bool) (s : Nat) (r : List Bool)
    (h : readSym lens bs = some (s, r)) : readSym lens (bs ++ x) = some (s, r ++ x) := by
  unfold readSym at h ⊢
  split at h
  · injection h with h; injection h with h1 h2
    rw [h1, h2]
  · exact readSymGo_append _ _ _ _ _ _ _ _ _ h

theorem readLensGo_append (cl : List Nat) (A : Nat) (x : List Bool) : ∀ (f : Nat) (s : ExpandState) (bs : List Bool)
    (d : List Nat) (r : List Bool), readLensGo cl A f s bs = some (d, r) →
    readLensGo cl A f s (bs ++ x) = some (d, r ++ x) := by
  intro f
  induction f with
  | zero => intro s bs d r h; simp [readLensGo] at h
  | succ f ih =>
    intro s bs d r h
    unfold readLensGo at h ⊢
    simp only at h ⊢
    split at h
    · rename_i c1
      rw [if_pos c1]
      split at h
      · cases h
      · rename_i c2
        rw [if_neg c2]
        injection h with h; injection h with h1 h2
        rw [h1, h2]
    · rename_i c1
      rw [if_neg c1]
      cases hs : readSym cl bs with
      | none => rw [hs] at h; cases h
      | some p =>
        obtain ⟨sym, rest⟩ := p
        rw [hs] at h
        rw [readSym_append cl bs x sym rest hs]
        simp only at h ⊢
        split at h
        · rename_i c2
          rw [if_pos c2]
          exact ih _ _ _ _ h
        · rename_i c2
          rw [if_neg c2]
          cases ht : takeBits (if sym = 16 then 2 else 3) rest with
          | none => rw [ht] at h; cases h
          | some q =>
            obtain ⟨extra, rest2⟩ := q
            rw [ht] at h
            rw [takeBits_append _ rest x extra rest2 ht]
            simp only at h ⊢
            exact ih _ _ _ _ h

end BV.MetaBlock

namespace BV.MetaBlock
open BV.Gen BV.Bits BV.Huffman

/-- a complex prefix code description (HSKIP ≠ 1) that is accepted stays accepted, with the same
lengths, whatever follows it -/
theorem readPrefixCode_append (A : Nat) (bs x : List Bool) (l : List Nat) (r : List Bool)
    (h : readPrefixCode A bs = some (l, r)) (hc : ∀ r0, takeBits 2 bs ≠ some (1, r0)) :
    readPrefixCode A (bs ++ x) = some (l, r ++ x) := by
  unfold readPrefixCode at h ⊢
  cases h2 : takeBits 2 bs with
  | none => rw [h2] at h; simp at h
  | some p =>
    obtain ⟨hskip, r0⟩ := p
    have hne : hskip ≠ 1 := fun e => hc r0 (by rw [h2, e])
    rw [h2] at h
    rw [takeBits_append 2 bs x hskip r0 h2]
    simp only [Option.bind_eq_bind, Option.bind_some, hne, if_false] at h ⊢
    cases hcl : readClLens (List.drop hskip rfcClOrder) 32 (List.replicate 18 0) r0 with
    | none => rw [hcl] at h; simp at h
    | some q =>
      obtain ⟨cl, r1⟩ := q
      rw [hcl] at h
      rw [readClLens_append x _ _ _ _ _ _ hcl]
      simp only [Option.bind_some] at h ⊢
      exact readLensGo_append cl A x _ _ _ _ _ h

end BV.MetaBlock
