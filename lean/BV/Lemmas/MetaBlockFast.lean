/-
C01 / meta-block writers, part 10: assembling `BrotliStoreMetaBlockFast` (quality ≤ 2), both branches:
`n_commands ≤ 128` (literal code from the fast builder, static command and distance codes) and
`n_commands > 128` (three codes from the fast builder).
-/
import BV.Lemmas.MetaBlockTrivial
import BV.Lemmas.MetaBlockStatic

namespace BV.MetaBlock
open BV.Gen BV.Bits BV.Huffman BV.PrefixArith BV.Recoder BV.HeaderSpec
open BV.Header (skipPad_pad)

theorem dist_alphabet_bits (large : Bool) :
    log2Floor (distAlphabetSize large 0 0 - 1) + 1 = alphabetBits (distAlphabetSize large 0 0) ∧
    alphabetBits 256 = 8 ∧ alphabetBits 704 = 10 := by
  cases large <;> decide

/-- the zero padding `JumpToByteBoundary` appends behind the `W` bits written so far when `is_last` -/
def padOf (isLast : Bool) (W : List Bool) : List Bool :=
  if isLast then List.replicate ((8 - W.length % 8) % 8) false else []

/-- the reading half shared by both branches: header, 13 bits, three codes, command loop, padding -/
theorem read_assembled (wo : WordOracle) (window : Nat) (large : Bool) (mb : Bytes) (isLast : Bool)
    (hist : Bytes) (dc : List Int) (w cb1 cb2 cb3 db W : List Bool) (litC cmdC distC : Code) (fin : DecSt)
    (h1 : 1 ≤ mb.length) (h2 : mb.length ≤ 2 ^ 24)
    (hW : W = w ++ (headerBits isLast mb.length ++ (bitsOf 13 0 ++ (cb1 ++ (cb2 ++ (cb3 ++ db))))))
    (r1 : ∀ rest, readCode 256 (cb1 ++ rest) = some (litC, rest))
    (r2 : ∀ rest, readCode 704 (cb2 ++ rest) = some (cmdC, rest))
    (r3 : ∀ rest, readCode (distAlphabetSize large 0 0) (cb3 ++ rest) = some (distC, rest))
    (hrd : ∀ (rest : List Bool) (f : Nat), mb.length + 1 ≤ f →
      readCommands wo window 0 0 litC cmdC distC mb.length f 0 ⟨hist, dc⟩ (db ++ rest)
        = some (⟨fin.out, fin.ring⟩, rest))
    (rest : List Bool) :
    readMetaBlockFull wo window large w.length ⟨hist, dc⟩
      ((headerBits isLast mb.length ++ (bitsOf 13 0 ++ (cb1 ++ (cb2 ++ (cb3 ++ (db ++ padOf isLast W)))))) ++ rest)
      = some (⟨fin.out, fin.ring⟩, isLast, W.length + (padOf isLast W).length, rest) := by
  have hrd := hrd (padOf isLast W ++ rest) (mb.length + 1) (Nat.le_refl _)
  unfold readMetaBlockFull
  simp only [List.append_assoc]
  rw [readHeader_ok isLast mb.length w.length _ h1 h2]
  simp only
  rw [read13 wo window large mb.length ⟨hist, dc⟩ _ _ _ _ litC cmdC distC (r1 _) (r2 _) (r3 _), hrd]
  simp only
  have hpos : ∀ PR : List Bool, w.length + (headerBits isLast mb.length).length +
      ((bitsOf 13 0 ++ (cb1 ++ (cb2 ++ (cb3 ++ (db ++ PR))))).length - PR.length) = W.length := by
    intro PR
    rw [hW]
    simp only [List.length_append]
    omega
  rw [hpos]
  unfold padOf
  cases isLast
  · simp
  · simp only [if_true]
    rw [skipPad_pad]
    simp

/-- **assembly** for the fast writer: it does not panic, and what it appends is read back.
The static codes are used only with the 64-symbol distance alphabet (`num_distance_symbols ≤
kStaticDistanceCodeDepth.len()`), where `cmdOK` bounds every distance symbol by 64. -/
theorem fast_core (wo : WordOracle) (window : Nat) (large : Bool) (ring : Bytes) (start mask : Nat)
    (mb : Bytes) (isLast : Bool) (cmds : List Cmd) (hist : Bytes) (dc : List Int) (w : List Bool)
    (hR : RingHolds ring mask start mb) (h256 : ∀ b ∈ mb, b < 256)
    (h1 : 1 ≤ mb.length) (h2 : mb.length ≤ 2 ^ 24) (hst : start < two64)
    (hIP : inputPairCheck ring start mb.length mask = .ok ())
    (hok : ∀ c ∈ cmds, cmdOK (distAlphabetSize large 0 0) 0 0 c = true)
    (hlock : lockstep wo 0 0 window mb ⟨hist, dc, 0⟩ 0 cmds = true) :
    ∃ bits fin, storeMetaBlockFast ring start mb.length mask isLast (distAlphabetSize large 0 0) cmds w
        = .ok (w ++ bits) ∧
      decSteps wo 0 0 window mb ⟨hist, dc, 0⟩ cmds = some fin ∧ fin.cursor = mb.length ∧
      ∀ rest, readMetaBlockFull wo window large w.length ⟨hist, dc⟩ (bits ++ rest)
        = some (⟨fin.out, fin.ring⟩, isLast, (w ++ bits).length, rest) := by
  have p24 : (2 : Nat) ^ 24 = 16777216 := by decide
  have p25 : (2 : Nat) ^ 25 = 33554432 := by decide
  obtain ⟨a1, a2, a3, a4, hA140⟩ := alphabet_facts large
  obtain ⟨ab1, ab2, ab3⟩ := dist_alphabet_bits large
  have hrange := lockstep_inRange wo 0 0 window mb cmds _ _ hlock
  have hnum := lockstep_length wo 0 0 window mb cmds _ _ hlock
  have hbounds : ∀ c ∈ cmds, c.cmdPrefix < 704 ∧ c.distPrefix % 1024 < 544 := by
    intro c hc
    have hk := hok c hc
    obtain ⟨_, _, _, _, _, _, h704, _⟩ := cmd_facts _ 0 0 c hk
    simp only [cmdOK, Bool.and_eq_true, decide_eq_true_eq] at hk
    exact ⟨h704, by have := hk.1.1.2; omega⟩
  have hconst : BROTLI_NUM_LITERAL_SYMBOLS = 256 ∧ BROTLI_NUM_COMMAND_SYMBOLS = 704 ∧
      BROTLI_NUM_HISTOGRAM_DISTANCE_SYMBOLS = 544 ∧ MAX_SIMPLE_DISTANCE_ALPHABET_SIZE = 140 := by decide
  obtain ⟨c1, c2, c3, c4⟩ := hconst
  have hne0 : ¬ distAlphabetSize large 0 0 = 0 := by omega
  have hzero_of_len : ∀ (d : List Nat) (n : Nat), d.length = n → ∀ i, n ≤ i → d.getD i 0 = 0 := by
    intro d n hl i hle
    rw [List.getD_eq_getElem?_getD, List.getElem?_eq_none (by rw [hl]; exact hle)]; rfl
  have hlitlen := litsOf_length mb cmds 0 hrange
  have hsl : kStaticDistanceCodeDepth.length = 64 := by decide
  by_cases hn : cmds.length ≤ 128 ∧ distAlphabetSize large 0 0 ≤ kStaticDistanceCodeDepth.length
  · -- static command / distance codes (standard distance alphabet only)
    have hlarge : large = false := by
      cases large
      · rfl
      · exfalso; have := hn.2; rw [hsl] at this; simp [distAlphabetSize] at this
    have hstatic : ∀ c ∈ cmds, c.distPrefix % 1024 < 64 := by
      intro c hc
      have hk := hok c hc
      simp only [cmdOK, Bool.and_eq_true, decide_eq_true_eq] at hk
      have := hk.1.1.2
      have h2 := hn.2
      omega
    obtain ⟨d', ef, dinv⟩ := fastLitHisto_inv ring mask start mb hR h256 cmds 0 (List.replicate 256 0) []
      (histoInv_zero 256).toData hrange (by unfold two32; simp; omega)
    rw [posOf_zero start hst] at ef
    simp only [List.length_nil, Nat.zero_add, List.nil_append] at ef dinv
    have hsumd : d'.sum = (litsOf mb 0 cmds).length := dinv.sum
    have hdsum : d'.sum ≤ 2 ^ 25 := by rw [hsumd]; omega
    obtain ⟨litD, litB, w1, hb1⟩ := fast_total d' 256 256 (w ++ headerBits isLast mb.length ++ bitsOf 13 0)
      (by rw [dinv.len]; omega) hdsum (by omega) (by omega) (by omega) (hzero_of_len d' 256 dinv.len)
    obtain ⟨cb1, litC, e1, r1, s1⟩ := codeFacts_of_fast d' 256 256 _ w1 litD litB (by rw [dinv.len]; omega) hdsum
      (by omega) (by omega) (by omega) (hzero_of_len d' 256 dinv.len) a1 hb1
    obtain ⟨db, fin, hsd, hdec, hfin, hrd⟩ := storeData_sim wo window 0 0 (distAlphabetSize large 0 0) ring mask start mb
      litD litB kStaticCommandCodeDepth kStaticCommandCodeBits kStaticDistanceCodeDepth kStaticDistanceCodeBits
      litC (Code.lens kStaticCommandCodeDepth)
      (Code.lens (kStaticDistanceCodeDepth ++ List.replicate (if large then 76 else 0) 0)) hR cmds ⟨hist, dc, 0⟩
      (w1 ++ staticCmdBits ++ staticDistBits) hlock
      (fun b hb => s1 b (by
          have := (dinv.mem b).mpr hb
          rcases Nat.lt_or_ge b d'.length with h | h
          · exact h
          · rw [List.getD_eq_getElem?_getD, List.getElem?_eq_none h] at this; simp at this)
        ((dinv.mem b).mpr hb))
      hok
      (fun c hc => static_cmd_symIO c.cmdPrefix (hbounds c hc).1)
      (fun c hc _ _ => static_dist_symIO _ _ (hstatic c hc))
    simp only at hsd hrd
    rw [posOf_zero start hst] at hsd
    obtain ⟨W, hW⟩ : ∃ W, W = w ++ (headerBits isLast mb.length ++ (bitsOf 13 0 ++ (cb1 ++ (staticCmdBits ++
      (staticDistBits ++ db))))) := ⟨_, rfl⟩
    refine ⟨headerBits isLast mb.length ++ (bitsOf 13 0 ++ (cb1 ++ (staticCmdBits ++ (staticDistBits ++ (db ++
      padOf isLast W))))), fin, ?_, hdec, hfin, ?_⟩
    · unfold storeMetaBlockFast
      rw [hIP, Out.bind_ok, if_neg hne0, storeHeader_ok isLast mb.length w h1 h2, Out.bind_ok,
        BV.Header.writeBits_ok 13 0 _ (by decide) (by decide), Out.bind_ok, if_pos hn, ef, Out.bind_ok]
      simp only
      rw [← hsumd, ← ab2, hb1, Out.bind_ok]
      simp only
      rw [storeStaticCmd_ok, Out.bind_ok, storeStaticDist_ok, Out.bind_ok, hsd, Out.bind_ok]
      have hw3 : w1 ++ staticCmdBits ++ staticDistBits ++ db = W := by
        rw [hW, e1]; simp [List.append_assoc]
      rw [hw3]
      unfold padOf
      cases isLast
      · simp only [Bool.false_eq_true, if_false, List.append_nil]; rw [hW]
      · simp only [if_true, jumpToByteBoundary]; rw [hW]; simp [List.append_assoc]
    · intro rest
      have := read_assembled wo window large mb isLast hist dc w cb1 staticCmdBits staticDistBits db W
        litC _ _ fin h1 h2 hW r1 static_cmd_read (static_dist_read large) (fun rest f hf => hrd rest f (by omega)) rest
      rw [this]
      have hl : ∀ P : List Bool, W.length + P.length = w.length + (W.length - w.length + P.length) := by
        intro P; rw [hW]; simp only [List.length_append]; omega
      rw [hW]
      simp only [List.length_append]
      have : ∀ a b c d e f g h : Nat, a + (b + (c + (d + (e + (f + g))))) + h = a + (b + (c + (d + (e + (f + (g + h)))))) := by
        intros; omega
      rw [this]
  · -- three codes from the fast builder
    obtain ⟨lit, cmd, dist, hb, il, ic, id⟩ := buildHistograms_inv ring mask start mb hR h256 cmds 0
      (Histo.zero 256) (Histo.zero 704) (Histo.zero 544) [] [] [] (histoInv_zero _) (histoInv_zero _) (histoInv_zero _)
      hrange hbounds (by unfold two32; simp; omega) (by unfold two32; simp; omega) (by unfold two32; simp; omega)
    rw [posOf_zero start hst] at hb
    have hlsum : lit.data.sum ≤ 2 ^ 25 := by rw [il.sum]; simp at hlitlen ⊢; omega
    have hcsum : cmd.data.sum ≤ 2 ^ 25 := by rw [ic.sum]; simp; omega
    have hdlen : (distsOf cmds).length ≤ cmds.length := by
      simp only [distsOf, List.length_map]; exact List.length_filter_le _ _
    have hdsum : dist.data.sum ≤ 2 ^ 25 := by rw [id.sum]; simp; omega
    have hdmem : ∀ c ∈ cmds, copyLen c ≠ 0 → c.cmdPrefix ≥ 128 → c.distPrefix % 1024 ∈ distsOf cmds := by
      intro c hc h0 h128
      simp only [distsOf, List.mem_map, List.mem_filter]
      exact ⟨c, ⟨hc, by simp [hasDist, h0, h128]⟩, rfl⟩
    have hdzero : ∀ i, distAlphabetSize large 0 0 ≤ i → dist.data.getD i 0 = 0 := by
      intro i hle
      rcases Nat.eq_zero_or_pos (dist.data.getD i 0) with h0 | h0
      · exact h0
      · exfalso
        have hm := (id.mem i).mp (by omega)
        simp only [List.nil_append, distsOf, List.mem_map, List.mem_filter] at hm
        obtain ⟨c, ⟨hc, _⟩, rfl⟩ := hm
        have hk := hok c hc
        simp only [cmdOK, Bool.and_eq_true, decide_eq_true_eq] at hk
        have := hk.1.1.2
        omega
    have tl : lit.total = lit.data.sum := by rw [il.total, il.sum]
    have tc : cmd.total = cmd.data.sum := by rw [ic.total, ic.sum]
    have td : dist.total = dist.data.sum := by rw [id.total, id.sum]
    obtain ⟨litD, litB, w1, hb1⟩ := fast_total lit.data 256 256 (w ++ headerBits isLast mb.length ++ bitsOf 13 0)
      (by rw [il.len]; omega) hlsum (by omega) (by omega) (by omega) (hzero_of_len lit.data 256 il.len)
    obtain ⟨cb1, litC, e1, r1, s1⟩ := codeFacts_of_fast lit.data 256 256 _ w1 litD litB (by rw [il.len]; omega) hlsum
      (by omega) (by omega) (by omega) (hzero_of_len lit.data 256 il.len) a1 hb1
    obtain ⟨cmdD, cmdB, w2, hb2⟩ := fast_total cmd.data 704 704 w1
      (by rw [ic.len]; omega) hcsum (by omega) (by omega) (by omega) (hzero_of_len cmd.data 704 ic.len)
    obtain ⟨cb2, cmdC, e2, r2, s2⟩ := codeFacts_of_fast cmd.data 704 704 _ w2 cmdD cmdB (by rw [ic.len]; omega) hcsum
      (by omega) (by omega) (by omega) (hzero_of_len cmd.data 704 ic.len) a2 hb2
    obtain ⟨distD, distB, w3, hb3⟩ := fast_total dist.data (distAlphabetSize large 0 0) 140 w2
      (by rw [id.len]; omega) hdsum a4 hA140 (by omega) hdzero
    obtain ⟨cb3, distC, e3, r3, s3⟩ := codeFacts_of_fast dist.data (distAlphabetSize large 0 0) 140 _ w3 distD distB
      (by rw [id.len]; omega) hdsum a4 hA140 (by omega) hdzero a3 hb3
    obtain ⟨db, fin, hsd, hdec, hfin, hrd⟩ := storeData_sim wo window 0 0 (distAlphabetSize large 0 0) ring mask start mb
      litD litB cmdD cmdB distD distB litC cmdC distC hR cmds ⟨hist, dc, 0⟩ w3 hlock
      (fun b hb => s1 b (by rw [il.len]; exact mem_lt_of_inv lit 256 _ il b (by simpa using hb))
        (hist_mem lit 256 _ il b (by simpa using hb)))
      hok
      (fun c hc => s2 c.cmdPrefix (by rw [ic.len]; exact (hbounds c hc).1)
        (hist_mem cmd 704 _ ic _ (by simp; exact ⟨c, hc, rfl⟩)))
      (fun c hc h0 h128 => s3 (c.distPrefix % 1024) (by rw [id.len]; exact (hbounds c hc).2)
        (hist_mem dist 544 _ id _ (by simpa using hdmem c hc h0 h128)))
    simp only at hsd hrd
    rw [posOf_zero start hst] at hsd
    have hw3 : w3 ++ db = w ++ (headerBits isLast mb.length ++ (bitsOf 13 0 ++ (cb1 ++ (cb2 ++ (cb3 ++ db))))) := by
      rw [e3, e2, e1]; simp [List.append_assoc]
    obtain ⟨W, hW⟩ : ∃ W, W = w ++ (headerBits isLast mb.length ++ (bitsOf 13 0 ++ (cb1 ++ (cb2 ++ (cb3 ++ db))))) :=
      ⟨_, rfl⟩
    rw [← hW] at hw3
    refine ⟨headerBits isLast mb.length ++ (bitsOf 13 0 ++ (cb1 ++ (cb2 ++ (cb3 ++ (db ++ padOf isLast W))))),
      fin, ?_, hdec, hfin, ?_⟩
    · unfold storeMetaBlockFast
      rw [hIP, Out.bind_ok, if_neg hne0, storeHeader_ok isLast mb.length w h1 h2, Out.bind_ok,
        BV.Header.writeBits_ok 13 0 _ (by decide) (by decide), Out.bind_ok, if_neg hn, c1, c2, c3, c4, hb, Out.bind_ok]
      simp only
      rw [tl, ← ab2, hb1, Out.bind_ok]
      simp only
      rw [tc, ← ab3, hb2, Out.bind_ok]
      simp only
      rw [td, ab1, hb3, Out.bind_ok]
      simp only
      rw [hsd, Out.bind_ok, hw3]
      unfold padOf
      cases isLast
      · simp only [Bool.false_eq_true, if_false, List.append_nil]; rw [hW]
      · simp only [if_true, jumpToByteBoundary]; rw [hW]; simp [List.append_assoc]
    · intro rest
      have := read_assembled wo window large mb isLast hist dc w cb1 cb2 cb3 db W
        litC cmdC distC fin h1 h2 hW r1 r2 r3 (fun rest f hf => hrd rest f (by omega)) rest
      rw [this]
      have hl : ∀ P : List Bool, W.length + P.length = w.length + (W.length - w.length + P.length) := by
        intro P; rw [hW]; simp only [List.length_append]; omega
      rw [hW]
      simp only [List.length_append]
      have : ∀ a b c d e f g h : Nat, a + (b + (c + (d + (e + (f + g))))) + h = a + (b + (c + (d + (e + (f + (g + h)))))) := by
        intros; omega
      rw [this]

end BV.MetaBlock
