import BV.Lemmas.MatchSound
/-! `FindLongestMatch`: the loop invariants (what has been found so far is a sound copy). -/
namespace BV.MatchFinder
open BV.Hasher

/-! ### loops -/

/-- loop invariant: whatever has been found so far is a sound copy.  `m` = the mask applied to
the earlier position. -/
def Inv (data : ByteArray) (m cm curIx maxLength maxBackward : Nat) (s : LoopSt) : Prop :=
  s.out.lenXCode = 0 ∧ (s.found = true → CopyOK data m cm curIx maxLength maxBackward s.out)

theorem i32ToUsize_lt (x : Int) : i32ToUsize x < U64 := by
  unfold i32ToUsize BV.Recoder.toUsize
  have h : (0 : Int) < 2 ^ 64 := by decide
  have h2 := Int.emod_lt_of_pos x h
  have h1 := Int.emod_nonneg x (Int.ne_of_gt h)
  have e : ((x % 2 ^ 64).toNat : Int) = x % 2 ^ 64 := Int.toNat_of_nonneg h1
  have hU : ((U64 : Nat) : Int) = 2 ^ 64 := by decide
  have : ((x % 2 ^ 64).toNat : Int) < (U64 : Nat) := by rw [e, hU]; exact h2
  exact Int.ofNat_lt.mp this

/-- taking a candidate at distance `backward` with `cur - backward < cur` keeps the invariant -/
theorem Inv.take_backward {data : ByteArray} {m cm curIx maxLength maxBackward backward len : Nat}
    {s : LoopSt} (hI : Inv data m cm curIx maxLength maxBackward s)
    (hc : curIx < U64) (hb : backward < U64) (hlt : wsub curIx backward < curIx)
    (hmb : backward ≤ maxBackward) (hlen : len ≤ maxLength) (hl2 : 4 ≤ maxLength → 2 ≤ len)
    (hag : Agree data (wsub curIx backward &&& m) cm len) (score : Nat) :
    Inv data m cm curIx maxLength maxBackward (s.take len backward score) :=
  ⟨hI.1, fun _ => ⟨wsub_pos_of_lt hc hlt, hmb, hlen, hI.1, hl2, wsub curIx backward,
    (wsub_wsub hc hb).symm, hag⟩⟩

/-- taking a candidate from a table entry `prev` keeps the invariant -/
theorem Inv.take_prev {data : ByteArray} {m cm curIx maxLength maxBackward prev len : Nat}
    {s : LoopSt} (hI : Inv data m cm curIx maxLength maxBackward s)
    (h0 : wsub curIx prev ≠ 0) (hmb : ¬ wsub curIx prev > maxBackward) (hlen : len ≤ maxLength)
    (hl2 : 4 ≤ maxLength → 2 ≤ len)
    (hag : Agree data (prev &&& m) cm len) (score : Nat) :
    Inv data m cm curIx maxLength maxBackward (s.take len (wsub curIx prev) score) :=
  ⟨hI.1, fun _ => ⟨Nat.pos_of_ne_zero h0, Nat.le_of_not_gt hmb, hlen, hI.1, hl2, prev, rfl, hag⟩⟩

theorem tryAt_inv {g : Option Bool} {fml : Unit → Option Nat} {acc : Nat → LoopSt} {s s' : LoopSt}
    (h : tryAt g fml acc s = some s') : s' = s ∨ ∃ len, fml () = some len ∧ s' = acc len := by
  unfold tryAt at h
  cases g with
  | none => cases h
  | some b =>
    cases b with
    | true => left; injection h with h; exact h.symm
    | false =>
      right
      cases hf : fml () with
      | none => simp only [hf] at h; cases h
      | some len => simp only [hf, Option.some.injEq] at h; exact ⟨len, rfl, h.symm⟩

theorem Adv.cacheAccept_inv {lbs i len backward : Nat} {data : ByteArray}
    {m cm curIx maxLength maxBackward : Nat} {s : LoopSt}
    (hI : Inv data m cm curIx maxLength maxBackward s)
    (hco : ∀ score, (len ≥ 3 ∨ (len = 2 ∧ i < 2)) →
      Inv data m cm curIx maxLength maxBackward (s.take len backward score)) :
    Inv data m cm curIx maxLength maxBackward (Adv.cacheAccept lbs i len backward s) := by
  unfold Adv.cacheAccept
  by_cases h1 : len ≥ 3 ∨ (len = 2 ∧ i < 2)
  · rw [if_pos h1]
    by_cases h2 : s.bestScore < scoreLast lbs len
    · simp only [h2, if_true]
      generalize (if i ≠ 0 then wsub (scoreLast lbs len) (penaltyLast i) else scoreLast lbs len) = sc
      by_cases h3 : s.bestScore < sc
      · simp only [h3, if_true]; exact hco _ h1
      · simp only [h3, if_false]; exact hI
    · simp only [h2, if_false]; exact hI
  · rw [if_neg h1]; exact hI

theorem Adv.bucketAccept_inv {lbs len backward : Nat} {data : ByteArray}
    {m cm curIx maxLength maxBackward : Nat} {s : LoopSt}
    (hI : Inv data m cm curIx maxLength maxBackward s)
    (hco : ∀ score, len ≠ 0 → Inv data m cm curIx maxLength maxBackward (s.take len backward score)) :
    Inv data m cm curIx maxLength maxBackward (Adv.bucketAccept lbs len backward s) := by
  unfold Adv.bucketAccept
  by_cases h1 : len ≠ 0
  · rw [if_pos h1]
    by_cases h2 : s.bestScore < scoreBackward lbs len backward
    · simp only [h2, if_true]; exact hco _ h1
    · simp only [h2, if_false]; exact hI
  · rw [if_neg h1]; exact hI

theorem H9.cacheAccept_inv {lbs i len backward : Nat} {data : ByteArray}
    {m cm curIx maxLength maxBackward : Nat} {s : LoopSt}
    (hI : Inv data m cm curIx maxLength maxBackward s)
    (hco : ∀ score, (len ≥ 3 ∨ (len = 2 ∧ i < 2)) →
      Inv data m cm curIx maxLength maxBackward (s.take len backward score)) :
    Inv data m cm curIx maxLength maxBackward (H9.cacheAccept lbs i len backward s) := by
  unfold H9.cacheAccept
  by_cases h1 : len ≥ 3 ∨ (len = 2 ∧ i < 2)
  · rw [if_pos h1]
    by_cases h2 : s.bestScore < scoreLastH9 lbs len i
    · simp only [h2, if_true]; exact hco _ h1
    · simp only [h2, if_false]; exact hI
  · rw [if_neg h1]; exact hI

theorem Adv.cacheStepAt_inv {lbs : Nat} {data : ByteArray} {mask curIx cm maxLength maxBackward i backward : Nat}
    (hc : curIx < U64) (hb : backward < U64) {s s' : LoopSt}
    (hI : Inv data mask cm curIx maxLength maxBackward s)
    (h : Adv.cacheStepAt lbs data mask curIx cm maxLength maxBackward i backward s = some s') :
    Inv data mask cm curIx maxLength maxBackward s' := by
  unfold Adv.cacheStepAt at h
  by_cases hcond : wsub curIx backward ≥ curIx ∨ backward > maxBackward
  · simp only [hcond, if_true, Option.some.injEq] at h; subst h; exact hI
  · simp only [hcond, if_false] at h
    rcases tryAt_inv h with rfl | ⟨len, hf, rfl⟩
    · exact hI
    · obtain ⟨hlen, hag⟩ := findMatchLengthWithLimit_sound hf
      exact Adv.cacheAccept_inv hI (fun score hcnd => hI.take_backward hc hb
        (Nat.lt_of_not_ge (fun hh => hcond (Or.inl hh)))
        (Nat.le_of_not_gt (fun hh => hcond (Or.inr hh))) hlen (fun _ => by omega) hag score)

theorem Adv.cacheStep_inv {lbs : Nat} {data : ByteArray} {mask curIx cm maxLength maxBackward : Nat}
    (hc : curIx < U64) {cache : List Int} (i : Nat) (s s' : LoopSt)
    (hI : Inv data mask cm curIx maxLength maxBackward s)
    (h : Adv.cacheStep lbs data mask curIx cm maxLength maxBackward cache i s = some s') :
    Inv data mask cm curIx maxLength maxBackward s' := by
  unfold Adv.cacheStep at h
  cases hci : cache[i]? with
  | none => simp only [hci] at h; cases h
  | some ci =>
    simp only [hci] at h
    exact Adv.cacheStepAt_inv hc (i32ToUsize_lt ci) hI h

theorem H9.cacheStepAt_inv {lbs : Nat} {data : ByteArray} {mask curIx cm maxLength maxBackward i backward : Nat}
    (hc : curIx < U64) (hb : backward < U64) {s s' : LoopSt}
    (hI : Inv data mask cm curIx maxLength maxBackward s)
    (h : H9.cacheStepAt lbs data mask curIx cm maxLength maxBackward i backward s = some s') :
    Inv data mask cm curIx maxLength maxBackward s' := by
  unfold H9.cacheStepAt at h
  by_cases hc1 : wsub curIx backward ≥ curIx
  · simp only [hc1, if_true, Option.some.injEq] at h; subst h; exact hI
  · simp only [hc1, if_false] at h
    by_cases hc2 : backward > maxBackward
    · simp only [hc2, if_true, Option.some.injEq] at h; subst h; exact hI
    · simp only [hc2, if_false] at h
      rcases tryAt_inv h with rfl | ⟨len, hf, rfl⟩
      · exact hI
      · obtain ⟨hlen, hag⟩ := findMatchLengthWithLimit_sound hf
        exact H9.cacheAccept_inv hI (fun score hcnd => hI.take_backward hc hb
          (Nat.lt_of_not_ge hc1) (Nat.le_of_not_gt hc2) hlen (fun _ => by omega) hag score)

theorem H9.cacheStep_inv {lbs : Nat} {data : ByteArray} {mask curIx cm maxLength maxBackward : Nat}
    (hc : curIx < U64) {cache : List Int} (i : Nat) (s s' : LoopSt)
    (hI : Inv data mask cm curIx maxLength maxBackward s)
    (h : H9.cacheStep lbs data mask curIx cm maxLength maxBackward cache i s = some s') :
    Inv data mask cm curIx maxLength maxBackward s' := by
  unfold H9.cacheStep at h
  cases hci : cache[H9.kDistanceCacheIndex.getD i 0]? with
  | none => simp only [hci] at h; cases h
  | some ci =>
    simp only [hci] at h
    exact H9.cacheStepAt_inv hc (Nat.mod_lt _ (by decide)) hI h

theorem Adv.bucketStep_inv {lbs : Nat} {data : ByteArray} {mask curIx cm maxLength maxBackward prev : Nat}
    {s s' : LoopSt} {brk : Bool} (hI : Inv data mask cm curIx maxLength maxBackward s)
    (h : Adv.bucketStep lbs data mask curIx cm maxLength maxBackward prev s = some (brk, s')) :
    Inv data mask cm curIx maxLength maxBackward s' := by
  unfold Adv.bucketStep at h
  by_cases h0 : wsub curIx prev = 0
  · simp only [h0, if_true, Option.some.injEq, Prod.mk.injEq] at h; obtain ⟨_, rfl⟩ := h; exact hI
  · simp only [h0, if_false] at h
    cases hg : guard data mask cm (prev &&& mask) s.bestLen with
    | none => simp only [hg] at h; cases h
    | some g =>
      simp only [hg] at h
      by_cases hmb : wsub curIx prev > maxBackward
      · simp only [hmb, if_true, Option.some.injEq, Prod.mk.injEq] at h; obtain ⟨_, rfl⟩ := h; exact hI
      · simp only [hmb, if_false] at h
        cases g with
        | true => simp only [if_true, Option.some.injEq, Prod.mk.injEq] at h; obtain ⟨_, rfl⟩ := h; exact hI
        | false =>
          simp only [Bool.false_eq_true, if_false] at h
          cases hf : findMatchLengthWithLimitMin4 data (prev &&& mask) cm maxLength with
          | none => simp only [hf] at h; cases h
          | some len =>
            simp only [hf, Option.some.injEq, Prod.mk.injEq] at h
            obtain ⟨_, rfl⟩ := h
            obtain ⟨hlen, hag⟩ := min4_sound hf
            exact Adv.bucketAccept_inv hI (fun score hne => hI.take_prev h0 hmb hlen
              (fun h4 => by have := min4_ge4 hf hne h4; omega) hag score)

theorem loopBody_inv {σ : Type} {r : Option (Bool × σ)} {k : σ → Option σ} {s' : σ}
    (h : loopBody r k = some s') :
    ∃ brk s1, r = some (brk, s1) ∧ ((brk = true ∧ s' = s1) ∨ (brk = false ∧ k s1 = some s')) := by
  unfold loopBody at h
  cases r with
  | none => cases h
  | some p =>
    obtain ⟨brk, s1⟩ := p
    cases brk with
    | true => injection h with h; exact ⟨true, s1, rfl, Or.inl ⟨rfl, h.symm⟩⟩
    | false => exact ⟨false, s1, rfl, Or.inr ⟨rfl, h⟩⟩

theorem Adv.bucketLoop_inv {lbs : Nat} {data : ByteArray} {mask curIx cm maxLength maxBackward blockMask : Nat}
    (bucket : Nat → Option Nat) : ∀ (cnt i : Nat) (s s' : LoopSt),
    Inv data mask cm curIx maxLength maxBackward s →
    Adv.bucketLoop lbs data mask curIx cm maxLength maxBackward blockMask bucket cnt i s = some s' →
    Inv data mask cm curIx maxLength maxBackward s' := by
  intro cnt
  induction cnt with
  | zero => intro i s s' hI h; rw [Adv.bucketLoop] at h; injection h with h; subst h; exact hI
  | succ cnt ih =>
    intro i s s' hI h
    rw [Adv.bucketLoop] at h
    obtain ⟨prev, _, h⟩ := Option.bind_eq_some_iff.mp h
    obtain ⟨brk, s1, hs, hk⟩ := loopBody_inv h
    have hI1 := Adv.bucketStep_inv hI hs
    rcases hk with ⟨_, rfl⟩ | ⟨_, hk⟩
    · exact hI1
    · exact ih _ _ _ hI1 hk

/-! ### H9 bucket scan -/

theorem H9.scanAccept_inv {lbs : Nat} {data : ByteArray} {mask cm curIx maxLength maxBackward len backward : Nat}
    {t t' : H9.ScanSt} {brk : Bool} (hI : Inv data mask cm curIx maxLength maxBackward t.s)
    (hco : ∀ score, len ≥ 4 → Inv data mask cm curIx maxLength maxBackward (t.s.take len backward score))
    (h : H9.scanAccept lbs data mask cm len backward t = some (brk, t')) :
    Inv data mask cm curIx maxLength maxBackward t'.s := by
  unfold H9.scanAccept at h
  by_cases h1 : len ≥ 4
  · rw [if_pos h1] at h
    by_cases h2 : t.s.bestScore < scoreBackwardH9 lbs len backward
    · simp only [h2, if_true] at h
      by_cases h3 : cm + len > mask
      · simp only [h3, if_true, Option.some.injEq, Prod.mk.injEq] at h
        obtain ⟨_, rfl⟩ := h; exact hco _ h1
      · simp only [h3, if_false] at h
        cases hb : byteAt data (cm + len) with
        | none => simp only [hb] at h; cases h
        | some v =>
          simp only [hb, Option.some.injEq, Prod.mk.injEq] at h
          obtain ⟨_, rfl⟩ := h; exact hco _ h1
    · simp only [h2, if_false, Option.some.injEq, Prod.mk.injEq] at h
      obtain ⟨_, rfl⟩ := h; exact hI
  · rw [if_neg h1] at h
    simp only [Option.some.injEq, Prod.mk.injEq] at h
    obtain ⟨_, rfl⟩ := h; exact hI

theorem H9.scanStep_inv {lbs : Nat} {data : ByteArray} {mask curIx cm maxLength maxBackward prev : Nat}
    {t t' : H9.ScanSt} {brk : Bool} (hI : Inv data mask cm curIx maxLength maxBackward t.s)
    (h : H9.scanStep lbs data mask curIx cm maxLength maxBackward prev t = some (brk, t')) :
    Inv data mask cm curIx maxLength maxBackward t'.s := by
  unfold H9.scanStep at h
  by_cases h0 : wsub curIx prev = 0
  · simp only [h0, if_true, Option.some.injEq, Prod.mk.injEq] at h; obtain ⟨_, rfl⟩ := h; exact hI
  · simp only [h0, if_false] at h
    by_cases hmb : wsub curIx prev > maxBackward
    · simp only [hmb, if_true, Option.some.injEq, Prod.mk.injEq] at h; obtain ⟨_, rfl⟩ := h; exact hI
    · simp only [hmb, if_false] at h
      by_cases hr : (prev &&& mask) + t.s.bestLen > mask
      · simp only [hr, if_true, Option.some.injEq, Prod.mk.injEq] at h; obtain ⟨_, rfl⟩ := h; exact hI
      · simp only [hr, if_false] at h
        cases hb : byteAt data ((prev &&& mask) + t.s.bestLen) with
        | none => simp only [hb] at h; cases h
        | some b =>
          simp only [hb] at h
          by_cases hp : t.pbv ≠ b
          · rw [if_pos hp] at h
            simp only [Option.some.injEq, Prod.mk.injEq] at h
            obtain ⟨_, rfl⟩ := h; exact hI
          · rw [if_neg hp] at h
            cases hf : findMatchLengthWithLimit data (prev &&& mask) cm maxLength with
            | none => simp only [hf] at h; cases h
            | some len =>
              simp only [hf] at h
              obtain ⟨hlen, hag⟩ := findMatchLengthWithLimit_sound hf
              exact H9.scanAccept_inv hI (fun score h4 => hI.take_prev h0 hmb hlen (fun _ => by omega) hag score) h

theorem H9.bucketLoop_inv {lbs : Nat} {data : ByteArray} {mask curIx cm maxLength maxBackward : Nat}
    (bucket : Nat → Option Nat) : ∀ (cnt i : Nat) (t t' : H9.ScanSt),
    Inv data mask cm curIx maxLength maxBackward t.s →
    H9.bucketLoop lbs data mask curIx cm maxLength maxBackward bucket cnt i t = some t' →
    Inv data mask cm curIx maxLength maxBackward t'.s := by
  intro cnt
  induction cnt with
  | zero => intro i t t' hI h; rw [H9.bucketLoop] at h; injection h with h; subst h; exact hI
  | succ cnt ih =>
    intro i t t' hI h
    rw [H9.bucketLoop] at h
    obtain ⟨prev, _, h⟩ := Option.bind_eq_some_iff.mp h
    obtain ⟨brk, t1, hs, hk⟩ := loopBody_inv h
    have hI1 := H9.scanStep_inv hI hs
    rcases hk with ⟨_, rfl⟩ | ⟨_, hk⟩
    · exact hI1
    · exact ih _ _ _ hI1 hk

/-! ### BasicHasher sweep -/

theorem Basic.sweepAccept_inv {lbs : Nat} {data : ByteArray} {m cm curIx maxLength maxBackward len backward : Nat}
    {t t' : Basic.SweepSt} (hI : Inv data m cm curIx maxLength maxBackward t.s)
    (hco : ∀ score, len ≠ 0 → Inv data m cm curIx maxLength maxBackward (t.s.take len backward score))
    (h : Basic.sweepAccept lbs data cm len backward t = some t') :
    Inv data m cm curIx maxLength maxBackward t'.s := by
  unfold Basic.sweepAccept at h
  by_cases h1 : len ≠ 0
  · rw [if_pos h1] at h
    by_cases h2 : t.s.bestScore < scoreBackward lbs len backward
    · simp only [h2, if_true] at h
      cases hb : byteAt data (cm + len) with
      | none => simp only [hb] at h; cases h
      | some v => simp only [hb, Option.some.injEq] at h; subst h; exact hco _ h1
    · simp only [h2, if_false, Option.some.injEq] at h; subst h; exact hI
  · rw [if_neg h1] at h
    injection h with h; subst h; exact hI

theorem Basic.sweepStep_inv {lbs : Nat} {data : ByteArray} {mask curIx cm maxLength maxBackward prev : Nat}
    {t t' : Basic.SweepSt} (hI : Inv data (mask % U32) cm curIx maxLength maxBackward t.s)
    (h : Basic.sweepStep lbs data mask curIx cm maxLength maxBackward prev t = some t') :
    Inv data (mask % U32) cm curIx maxLength maxBackward t'.s := by
  unfold Basic.sweepStep at h
  simp only [] at h
  cases hb : byteAt data ((prev &&& (mask % U32)) + t.s.bestLen) with
  | none => simp only [hb] at h; cases h
  | some b =>
    simp only [hb] at h
    by_cases hp : t.cc ≠ b
    · rw [if_pos hp] at h; injection h with h; subst h; exact hI
    · rw [if_neg hp] at h
      by_cases hw : wsub curIx prev = 0 ∨ wsub curIx prev > maxBackward
      · simp only [hw, if_true, Option.some.injEq] at h; subst h; exact hI
      · simp only [hw, if_false] at h
        cases hf : findMatchLengthWithLimitMin4 data (prev &&& (mask % U32)) cm maxLength with
        | none => simp only [hf] at h; cases h
        | some len =>
          simp only [hf] at h
          obtain ⟨hlen, hag⟩ := min4_sound hf
          exact Basic.sweepAccept_inv hI (fun score hne => hI.take_prev (fun hh => hw (Or.inl hh))
            (fun hh => hw (Or.inr hh)) hlen (fun h4 => by have := min4_ge4 hf hne h4; omega) hag score) h

theorem Basic.sweepLoop_inv {lbs : Nat} {data : ByteArray} {mask curIx cm maxLength maxBackward : Nat}
    (b : Tab) (key : Nat) : ∀ (n j : Nat) (t t' : Basic.SweepSt),
    Inv data (mask % U32) cm curIx maxLength maxBackward t.s →
    Basic.sweepLoop lbs data mask curIx cm maxLength maxBackward b key n j t = some t' →
    Inv data (mask % U32) cm curIx maxLength maxBackward t'.s := by
  intro n
  induction n with
  | zero => intro j t t' hI h; rw [Basic.sweepLoop] at h; injection h with h; subst h; exact hI
  | succ n ih =>
    intro j t t' hI h
    rw [Basic.sweepLoop] at h
    obtain ⟨prev, _, h⟩ := Option.bind_eq_some_iff.mp h
    obtain ⟨t1, hs, h⟩ := Option.bind_eq_some_iff.mp h
    exact ih _ _ _ (Basic.sweepStep_inv hI hs) h

end BV.MatchFinder
