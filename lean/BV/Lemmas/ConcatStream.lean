/-
Specification of `stream`: total under the invariant, cursors in bounds,
protocol progress.
-/
import BV.Lemmas.ConcatShift

namespace BV.Concat
open Outcome BV.Gen

/-- what a `stream` call guarantees -/
structure StreamPost (inp : List Nat) (cap : Nat) (r : Ret) : Prop where
  inv : Inv r.st
  started : Started r.st
  consumed_le : r.consumed ≤ inp.length
  produced_le : r.produced.length ≤ cap
  /-- the call ends for a reason the caller can act on: all offered input was
  taken, or all offered output room was filled, or the stream is rejected -/
  progress : (r.code = NEEDS_MORE_INPUT ∧ r.consumed = inp.length) ∨
    (r.code = NEEDS_MORE_OUTPUT ∧ r.produced.length = cap) ∨
    (r.code = NOT_CRAFTED_FOR_APPEND ∨ r.code = INVALID_WINDOW_SIZE ∨ r.code = WINDOW_SIZE_LARGER ∨
      r.code = NOT_CRAFTED_FOR_CONCAT)

theorem Inv.set_last_bytes {s : State} (h : Inv s) (hns : s.last_byte_sanitized = false) (lb : Nat × Nat) :
    Inv { s with last_bytes := lb } :=
  ⟨h.len_le, h.off_lt, h.ws0, h.san, fun e => by rw [hns] at e; simp at e, h.pend⟩

theorem list_len2 (l : List Nat) (h : l.length = 2) : ∃ x y, l = [x, y] := by
  match l, h with
  | [x, y], _ => exact ⟨x, y, rfl⟩

theorem streamCopy_sat (s : State) (inp : List Nat) (inOff : Nat) (out : List Nat) (cap : Nat)
    (hI : Inv s) (hS : Started s) (hns : s.last_byte_sanitized = false)
    (hin : inOff ≤ inp.length) (hout : out.length ≤ cap) :
    (streamCopy s inp inOff out cap).sat (fun r => StreamPost inp cap r ∧
      r.st.new_stream_pending = s.new_stream_pending ∧ inOff ≤ r.consumed ∧ out.length ≤ r.produced.length) := by
  unfold streamCopy
  refine sat_ite (fun hc => ?_) (fun hc => ?_)
  · rw [sat_ok]
    exact ⟨⟨hI, hS, hin, hout, Or.inr (Or.inl ⟨rfl, hc.symm⟩)⟩, rfl, Nat.le_refl _, Nat.le_refl _⟩
  refine sat_ite (fun hc2 => ?_) (fun hc2 => ?_)
  · rw [sat_ok]
    exact ⟨⟨hI, hS, hin, hout, Or.inl ⟨rfl, hc2.symm⟩⟩, rfl, Nat.le_refl _, Nat.le_refl _⟩
  refine sat_ite (fun _ => by omega) (fun _ => ?_)
  refine sat_ite (fun _ => by omega) (fun _ => ?_)
  dsimp only
  refine sat_ite (fun _ => by omega) (fun _ => ?_)
  refine sat_ite (fun h1 => ?_) (fun h1 => ?_)
  · unfold push
    rw [if_pos (by omega)]
    simp only [bind_ok]
    refine sat_bind _ (idx_sat_of_lt _ inp inOff (by omega)) ?_
    intro b _
    refine sat_ite (fun hf => ?_) (fun hf => ?_)
    · rw [sat_ok]
      refine ⟨⟨hI.set_last_bytes hns _, hS, by dsimp only; omega, by simp; omega, Or.inr (Or.inl ⟨rfl, hf⟩)⟩,
        rfl, by dsimp only; omega, by simp⟩
    · rw [sat_ok]
      simp only [List.length_append, List.length_cons, List.length_nil] at hf
      refine ⟨⟨hI.set_last_bytes hns _, hS, by dsimp only; omega, by simp; omega,
        Or.inl ⟨rfl, by dsimp only; omega⟩⟩, rfl, by dsimp only; omega, by simp⟩
  · refine sat_ite (fun _ => by omega) (fun _ => ?_)
    refine sat_ite (fun _ => by omega) (fun _ => ?_)
    refine sat_ite (fun _ => by omega) (fun _ => ?_)
    have hwin : (List.take (min (cap - out.length) (inp.length - inOff)) (List.drop inOff inp)).length
        = min (cap - out.length) (inp.length - inOff) := by
      simp only [List.length_take, List.length_drop]; omega
    obtain ⟨x, y, hxy⟩ := list_len2 (List.drop (min (cap - out.length) (inp.length - inOff) - 2)
      (List.take (min (cap - out.length) (inp.length - inOff)) (List.drop inOff inp)))
      (by rw [List.length_drop, hwin]; omega)
    rw [hxy]
    dsimp only
    have hnew : (List.take (min (cap - out.length) (inp.length - inOff) - 2)
        (List.take (min (cap - out.length) (inp.length - inOff)) (List.drop inOff inp))).length
        = min (cap - out.length) (inp.length - inOff) - 2 := by
      rw [List.length_take, hwin]; omega
    refine sat_ite (fun hx => ?_) (fun _ => ?_)
    · simp only [List.length_append, List.length_cons, List.length_nil] at hx; omega
    refine sat_ite (fun hx => absurd hnew hx) (fun _ => ?_)
    refine sat_ite (fun hf => ?_) (fun hf => ?_)
    · rw [sat_ok]
      simp only [List.length_append, List.length_cons, List.length_nil, hnew] at hf
      refine ⟨⟨hI.set_last_bytes hns _, hS, by dsimp only; omega, ?_, Or.inr (Or.inl ⟨rfl, ?_⟩)⟩, rfl,
        by dsimp only; omega, ?_⟩ <;>
      · simp only [List.length_append, List.length_cons, List.length_nil, hnew]; omega
    · rw [sat_ok]
      simp only [List.length_append, List.length_cons, List.length_nil, hnew] at hf
      refine ⟨⟨hI.set_last_bytes hns _, hS, by dsimp only; omega, ?_, Or.inl ⟨rfl, by dsimp only; omega⟩⟩, rfl,
        by dsimp only; omega, ?_⟩ <;>
      · simp only [List.length_append, List.length_cons, List.length_nil, hnew]; omega

theorem Inv.bump {s : State} (h : Inv s) (hp : s.new_stream_pending = none) (hws : s.window_size ≠ 0)
    (lb : Nat × Nat) (len : Nat) (hl : len ≤ 2) : Inv { s with last_bytes := lb, last_bytes_len := len } := by
  refine ⟨hl, h.off_lt, fun e => absurd e hws, fun e => ?_, fun e => ?_, fun d hd => ?_⟩
  · have := (h.san e).1; rw [hp] at this; simp at this
  · have := (h.san e).1; rw [hp] at this; simp at this
  · exact h.pend d hd

theorem setLast_sat (lb : Nat × Nat) (i v : Nat) (h : i < 2) : (setLast lb i v).sat (fun _ => True) := by
  unfold setLast
  refine sat_ite (fun _ => by simp) (fun _ => ?_)
  refine sat_ite (fun _ => by simp) (fun _ => by omega)

theorem streamTail_sat (s : State) (inp : List Nat) (inOff : Nat) (out : List Nat) (cap : Nat)
    (hI : Inv s) (hp : s.new_stream_pending = none) (hws : s.window_size ≠ 0)
    (hin : inOff ≤ inp.length) (hout : out.length ≤ cap) :
    (streamTail s inp inOff out cap).sat (fun r => StreamPost inp cap r ∧
      inOff ≤ r.consumed ∧ out.length ≤ r.produced.length) := by
  have hS : Started s := fun e => absurd e hws
  unfold streamTail
  refine sat_ite (fun h => by rw [hp] at h; simp at h) (fun _ => ?_)
  have hns : s.last_byte_sanitized = false := by
    cases h : s.last_byte_sanitized with
    | false => rfl
    | true => have := (hI.san h).1; rw [hp] at this; simp at this
  have hcopy : ∀ (s' : State) (off' : Nat), Inv s' → s'.window_size ≠ 0 → s'.last_byte_sanitized = false →
      inOff ≤ off' → off' ≤ inp.length →
      (streamCopy s' inp off' out cap).sat (fun r => StreamPost inp cap r ∧
        inOff ≤ r.consumed ∧ out.length ≤ r.produced.length) := by
    intro s' off' hI' hws' hns' h1 h2
    refine sat_mono (streamCopy_sat s' inp off' out cap hI' (fun e => absurd e hws') hns' h2 hout) ?_
    intro r ⟨a, _, c, d⟩
    exact ⟨a, by omega, d⟩
  refine sat_ite (fun hl => ?_) (fun hl => hcopy s inOff hI hws hns (Nat.le_refl _) hin)
  refine sat_ite (fun hc => ?_) (fun hc => ?_)
  · rw [sat_ok]
    exact ⟨⟨hI, hS, hin, hout, Or.inr (Or.inl ⟨rfl, hc.symm⟩)⟩, Nat.le_refl _, Nat.le_refl _⟩
  refine sat_ite (fun hc2 => ?_) (fun hc2 => ?_)
  · rw [sat_ok]
    exact ⟨⟨hI, hS, hin, hout, Or.inl ⟨rfl, hc2.symm⟩⟩, Nat.le_refl _, Nat.le_refl _⟩
  refine sat_bind _ (idx_sat_of_lt _ inp inOff (by omega)) ?_
  intro b _
  have hlen := hI.len_le
  refine sat_bind _ (setLast_sat s.last_bytes s.last_bytes_len b (by omega)) ?_
  intro lb _
  dsimp only
  refine sat_ite (fun _ => by omega) (fun _ => ?_)
  have hI1 : Inv { s with last_bytes := lb, last_bytes_len := s.last_bytes_len + 1 } :=
    hI.bump hp hws lb _ (by omega)
  have hS1 : Started { s with last_bytes := lb, last_bytes_len := s.last_bytes_len + 1 } :=
    fun e => absurd e hws
  refine sat_ite (fun hl2 => ?_) (fun hl2 => hcopy _ (inOff + 1) hI1 hws hns (by omega) (by omega))
  refine sat_ite (fun hc => ?_) (fun hc => ?_)
  · rw [sat_ok]
    exact ⟨⟨hI1, hS1, by dsimp only; omega, hout, Or.inr (Or.inl ⟨rfl, hc.symm⟩)⟩, by dsimp only; omega,
      Nat.le_refl _⟩
  refine sat_ite (fun hc2 => ?_) (fun hc2 => ?_)
  · rw [sat_ok]
    exact ⟨⟨hI1, hS1, by dsimp only; omega, hout, Or.inl ⟨rfl, hc2.symm⟩⟩, by dsimp only; omega,
      Nat.le_refl _⟩
  refine sat_bind _ (idx_sat_of_lt _ inp (inOff + 1) (by omega)) ?_
  intro b2 _
  refine sat_bind _ (setLast_sat lb (s.last_bytes_len + 1) b2 (by omega)) ?_
  intro lb2 _
  refine sat_ite (fun _ => by omega) (fun _ => ?_)
  refine hcopy _ (inOff + 1 + 1) ?_ hws hns (by omega) (by omega)
  exact hI.bump hp hws lb2 _ (by omega)

/-- `stream` is total under the invariant (for a caller that announced a member first) -/
theorem stream_sat (s : State) (inp : List Nat) (cap : Nat) (hI : Inv s) (hS : Started s) :
    (stream s inp cap).sat (StreamPost inp cap) := by
  unfold stream
  cases hp : s.new_stream_pending with
  | none =>
    dsimp only
    have hws : s.window_size ≠ 0 := fun e => by have := hS e; rw [hp] at this; simp at this
    exact sat_mono (streamTail_sat s inp 0 [] cap hI hp hws (Nat.zero_le _) (Nat.zero_le _)) (fun _ h => h.1)
  | some nsp0 =>
    dsimp only
    refine sat_bind _ (flush_inv s [] cap hI (Nat.zero_le _) (by rw [hp]; rfl)) ?_
    intro r1 ⟨hf, hI1⟩
    obtain ⟨s1, out1, fr⟩ := r1
    dsimp only at hf hI1 ⊢
    have hp1 : s1.new_stream_pending = some nsp0 := by rw [← hp]; exact hf.pending
    have hS1 : Started s1 := fun _ => by rw [hp1]; rfl
    have hole1 : out1.length ≤ cap := hf.out_le
    have hfull1 : fr = NEEDS_MORE_OUTPUT → cap ≤ 0 := hf.full
    refine sat_ite (fun hne => ?_) (fun hne => ?_)
    · rw [sat_ok]
      refine ⟨hI1, hS1, Nat.zero_le _, hf.out_le, ?_⟩
      rcases hf.code with h | h | h
      · exact absurd h hne
      · have h1 := hfull1 h
        exact Or.inr (Or.inl ⟨h, by show out1.length = cap; omega⟩)
      · exact Or.inr (Or.inr (Or.inl h))
    have hfr : fr = SUCCESS := by simpa using hne
    have hsan1 := hf.sanit hfr
    obtain ⟨hr5, hwr⟩ := hI.pend nsp0 hp
    -- the look-ahead step
    have hstep : (if nsp0.num_bytes_written.isNone = true ∧ nsp0.num_bytes_read < NUM_STREAM_HEADER_BYTES then
          (headerLoop nsp0 inp 0).bind fun x =>
            ok (x.1, x.2, { s1 with new_stream_pending := some x.1 })
        else ok (nsp0, 0, s1)).sat (fun x =>
          Inv x.2.2 ∧ x.2.2.new_stream_pending = some x.1 ∧ x.2.1 ≤ inp.length ∧
          x.2.2.last_byte_sanitized = true ∧
          (x.1.num_bytes_written = none → x.1.sufficient = false → x.2.1 = inp.length)) := by
      refine sat_ite (fun hc => ?_) (fun hc => ?_)
      · refine sat_bind _ (headerLoop_sat inp nsp0 0 hr5) ?_
        intro x ⟨a1, a2, a3, a4, a5, a6⟩
        rw [sat_ok]
        refine ⟨⟨hI1.len_le, hI1.off_lt, hI1.ws0, fun _ => ⟨rfl, (hI1.san hsan1).2⟩, hI1.tail, ?_⟩, rfl,
          by simpa using a4, hsan1, ?_⟩
        · intro d hd
          simp only [Option.some.injEq] at hd
          subst hd
          refine ⟨a2, fun w hw => ?_⟩
          rw [a1] at hw
          rw [hw] at hc
          simp at hc
        · intro _ hns
          rcases a6 with a6 | a6
          · rw [a6] at hns; simp at hns
          · simpa using a6
      · rw [sat_ok]
        refine ⟨hI1, hp1, Nat.zero_le _, hsan1, ?_⟩
        intro hw hns
        exfalso
        apply hc
        refine ⟨by rw [hw]; rfl, ?_⟩
        rw [hdr5]
        rcases Nat.lt_or_ge nsp0.num_bytes_read 5 with h | h
        · exact h
        · have := (sufficient_iff nsp0).mpr (Or.inr (by omega))
          rw [this] at hns; simp at hns
    refine sat_bind _ hstep ?_
    intro x ⟨hI2, hp2, hoff, hsan2, hexh⟩
    obtain ⟨nsp, inOff, s2⟩ := x
    dsimp only at hI2 hp2 hoff hsan2 hexh ⊢
    have hS2 : Started s2 := fun _ => by rw [hp2]; rfl
    refine sat_ite (fun hc => ?_) (fun hc => ?_)
    · rw [sat_ok]
      refine ⟨hI2, hS2, hoff, hf.out_le, Or.inl ⟨rfl, ?_⟩⟩
      have hw : nsp.num_bytes_written = none := by
        cases h : nsp.num_bytes_written with
        | none => rfl
        | some w => rw [h] at hc; simp at hc
      exact hexh hw (by simpa using hc.2)
    refine sat_ite (fun hfull => ?_) (fun hfull => ?_)
    · rw [sat_ok]
      exact ⟨hI2, hS2, hoff, hf.out_le, Or.inr (Or.inl ⟨rfl, hfull.symm⟩)⟩
    have hsuf : nsp.num_bytes_written = none → nsp.sufficient = true := by
      intro hw
      cases hsf : nsp.sufficient with
      | true => rfl
      | false => exfalso; apply hc; rw [hw, hsf]; simp
    have hlt : out1.length < cap := by omega
    refine sat_bind _ (shiftAndCheck_sat s2 nsp out1 cap hI2 hsan2 hp2 hsuf hlt) ?_
    intro r3 h3
    obtain ⟨s3, out3, sr⟩ := r3
    dsimp only at h3 ⊢
    have herr3 : sr ≥ 124 → s3 = s2 := fun h => (h3.err h).1
    refine sat_ite (fun hne3 => ?_) (fun hne3 => ?_)
    · rw [sat_ok]
      have hcode := h3.code
      dsimp only at hcode
      refine ⟨h3.inv, ?_, hoff, h3.out_le, ?_⟩
      · show Started s3
        rcases hcode with h | h | h | h | h
        · exact absurd h hne3
        · intro e; exact absurd e (h3.wsne (by rw [h]; simp))
        · rw [herr3 (by rw [h]; simp)]; exact hS2
        · rw [herr3 (by rw [h]; simp)]; exact hS2
        · rw [herr3 (by rw [h]; simp)]; exact hS2
      · rcases hcode with h | h | h | h | h
        · exact absurd h hne3
        · exact Or.inr (Or.inl ⟨h, h3.more h⟩)
        · exact Or.inr (Or.inr (Or.inr (Or.inl h)))
        · exact Or.inr (Or.inr (Or.inr (Or.inr (Or.inl h))))
        · exact Or.inr (Or.inr (Or.inr (Or.inr (Or.inr h))))
    have hsr : sr = SUCCESS := by simpa using hne3
    have hws3 : s3.window_size ≠ 0 := h3.wsne (by rw [hsr]; simp)
    refine sat_ite (fun hfull3 => ?_) (fun hfull3 => ?_)
    · rw [sat_ok]
      exact ⟨h3.inv, fun e => absurd e hws3, hoff, h3.out_le, Or.inr (Or.inl ⟨rfl, hfull3⟩)⟩
    exact sat_mono (streamTail_sat s3 inp inOff out3 cap h3.inv (h3.done hsr).1 hws3 hoff h3.out_le)
      (fun _ h => h.1)

end BV.Concat
