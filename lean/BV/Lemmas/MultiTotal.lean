/-
Helper lemmas for C02: totality (no panic, no hang), buffer bounds and the ownership flag of
`CompressMulti`, on top of the concatenator's invariant (C16).
-/
import BV.Lemmas.MultiStitch
import BV.Props.C16

namespace BV.Lemmas.Multi
open BV.Multi BV.Multi.Res

/-- no job panics, none spins -/
def Clean (jobs : Nat → JobRes) (t : Nat) : Prop := ∀ i, i < t → jobs i ≠ .panic ∧ jobs i ≠ .spin

/-- what the loop maintains about its accumulator -/
structure AccOk (cap : Nat) (a : Acc) : Prop where
  inv : BV.Concat.Inv a.cat
  le : a.out.length ≤ cap

theorem acc0_ok (cap : Nat) : AccOk cap acc0 := ⟨BV.Props.C16.inv_new.1, Nat.zero_le _⟩

theorem stitchOk_total (cap : Nat) (a : Acc) (bytes : List Nat) (h : AccOk cap a) :
    ∃ a', stitchOk cap a bytes = ok a' ∧ AccOk cap a' := by
  obtain ⟨hI, hS⟩ := BV.Props.C16.inv_new_brotli_file a.cat h.inv
  obtain ⟨r, hr⟩ := BV.Props.C16.no_panic_stream _ bytes (cap - a.out.length) hI hS
  refine ⟨_, by unfold stitchOk; rw [hr], ?_, ?_⟩
  · exact (BV.Props.C16.inv_stream _ bytes _ hI hS r hr).1
  · have := ((BV.Props.C16.cursors_in_bounds _ hI).1 hS bytes _ r hr).2
    have := h.le
    simp only [List.length_append]; omega

theorem stitchArm_total (cap : Nat) (a : Acc) (bytes : List Nat) (h : AccOk cap a) :
    ∃ a', stitchArm cap a bytes = ok a' ∧ AccOk cap a' := by
  unfold stitchArm
  cases hr : a.res with
  | ok k => exact stitchOk_total cap a bytes h
  | error e => exact ⟨a, rfl, h⟩

theorem errArm_ok (cap : Nat) (a : Acc) (h : AccOk cap a) : AccOk cap (errArm a) := by
  unfold errArm
  cases a.res with
  | ok k => exact ⟨h.inv, h.le⟩
  | error e => exact h

def joinedFine : Joined → Prop
  | .ok _ => True
  | .err => True
  | _ => False

theorem stitch_total (cap : Nat) : ∀ (js : List Joined) (a : Acc), (∀ j, j ∈ js → joinedFine j) → AccOk cap a →
    ∃ a', stitch cap js a = ok (.inl a') ∧ AccOk cap a' := by
  intro js
  induction js with
  | nil => intro a _ h; exact ⟨a, rfl, h⟩
  | cons j js ih =>
    intro a hj h
    have hjs : ∀ j', j' ∈ js → joinedFine j' := fun j' hm => hj j' (List.mem_cons_of_mem _ hm)
    have hj0 := hj j List.mem_cons_self
    cases j with
    | never => exact absurd hj0 (by simp [joinedFine])
    | execErr => exact absurd hj0 (by simp [joinedFine])
    | ok bytes =>
      obtain ⟨a1, h1, hk1⟩ := stitchArm_total cap a bytes h
      obtain ⟨a', h2, hk2⟩ := ih a1 hjs hk1
      exact ⟨a', by simp only [stitch, h1, bind_ok, h2], hk2⟩
    | err =>
      obtain ⟨a', h2, hk2⟩ := ih (errArm a) hjs (errArm_ok cap a h)
      exact ⟨a', by simp only [stitch, h2], hk2⟩

theorem joined_fine (sp : Spawner) (r : JobRes) (h1 : r ≠ .panic) (h2 : r ≠ .spin) : joinedFine (joined sp r) := by
  cases r <;> simp_all [joined, joinedFine]

theorem onCaller_clean (i : Nat) (r : JobRes) (h1 : r ≠ .panic) (h2 : r ≠ .spin) : onCaller i r = ok r := by
  cases r <;> simp_all [onCaller]

theorem inlineSpawns_clean (jobs : Nat → JobRes) : ∀ (is : List Nat),
    (∀ i, i ∈ is → jobs i ≠ .panic ∧ jobs i ≠ .spin) → inlineSpawns jobs is = ok () := by
  intro is
  induction is with
  | nil => intro _; rfl
  | cons i is ih =>
    intro h
    have hi := h i List.mem_cons_self
    simp only [inlineSpawns, onCaller_clean i (jobs i) hi.1 hi.2, bind_ok]
    exact ih fun j hj => h j (List.mem_cons_of_mem _ hj)

theorem finishUp_total (cap : Nat) (a : Acc) (h : AccOk cap a) :
    ∃ r, finishUp cap a = ok r ∧ r.returned = true ∧ r.out.length ≤ cap := by
  unfold finishUp
  cases hr : a.res with
  | error e => exact ⟨_, rfl, rfl, h.le⟩
  | ok k =>
    obtain ⟨f, hf⟩ := BV.Props.C16.no_panic_finish a.cat (cap - a.out.length) h.inv
    have := ((BV.Props.C16.cursors_in_bounds _ h.inv).2 _ f hf).2
    have := h.le
    refine ⟨⟨finishRes f.code (a.out ++ f.produced).length, a.out ++ f.produced, true⟩, by simp only [hf], rfl, ?_⟩
    simp only [List.length_append]; omega

theorem stitchLast_total (cap : Nat) (a : Acc) (lr : JobRes) (h : AccOk cap a) :
    ∃ a', stitchLast cap a lr = ok a' ∧ AccOk cap a' := by
  cases lr with
  | ok bytes => exact stitchArm_total cap a bytes h
  | err => exact ⟨_, rfl, errArm_ok cap a h⟩
  | panic => exact ⟨_, rfl, errArm_ok cap a h⟩
  | spin => exact ⟨_, rfl, errArm_ok cap a h⟩

/-- an early `return Err(..)` from inside the loop needs a join that answered `Err` -/
theorem stitch_inr (cap : Nat) : ∀ (js : List Joined) (a : Acc) (e : TErr),
    stitch cap js a = ok (.inr e) → Joined.execErr ∈ js ∧ e = .threadExec := by
  intro js
  induction js with
  | nil => intro a e h; simp [stitch] at h
  | cons j js ih =>
    intro a e h
    cases j with
    | never => simp [stitch] at h
    | execErr => simp [stitch] at h; exact ⟨List.mem_cons_self, h.symm⟩
    | ok bytes =>
      simp only [stitch] at h
      obtain ⟨a1, _, h2⟩ := bind_eq_ok h
      obtain ⟨hm, he⟩ := ih a1 e h2
      exact ⟨List.mem_cons_of_mem _ hm, he⟩
    | err =>
      simp only [stitch] at h
      obtain ⟨hm, he⟩ := ih _ e h
      exact ⟨List.mem_cons_of_mem _ hm, he⟩

theorem joined_execErr_iff (sp : Spawner) (r : JobRes) : joined sp r = .execErr ↔ sp = .threads ∧ r = .panic := by
  cases r <;> cases sp <;> simp [joined]

end BV.Lemmas.Multi
