import BV.Model.Stream
/-
Bit-level facts about what the stream machine writes itself (sync block, metadata header),
and the spec-side reader of RFC 7932 section 9.2 for metadata meta-blocks.
-/
namespace BV.Stream
open BV.Bits

theorem bitsOf_length (n v : Nat) : (bitsOf n v).length = n := by
  induction n generalizing v with
  | zero => rfl
  | succ k ih => simp [bitsOf, ih]

theorem bitsOf_add (a b v : Nat) : bitsOf (a + b) v = bitsOf a v ++ bitsOf b (v / 2 ^ a) := by
  induction a generalizing v with
  | zero => simp [bitsOf]
  | succ k ih =>
    have : k + 1 + b = (k + b) + 1 := by omega
    rw [this]
    simp only [bitsOf, List.cons_append, List.cons.injEq, true_and]
    rw [ih, Nat.pow_succ, Nat.mul_comm, Nat.div_div_eq_div_mul]

theorem valOf_bitsOf (n v : Nat) : valOf (bitsOf n v) = v % 2 ^ n := by
  induction n generalizing v with
  | zero => simp [bitsOf, valOf, Nat.mod_one]
  | succ k ih =>
    simp only [bitsOf, valOf, ih]
    have h2 : v % 2 ^ (k + 1) = v % 2 + 2 * (v / 2 % 2 ^ k) := by
      rw [Nat.pow_succ, Nat.mul_comm, Nat.mod_mul]
    rw [h2]
    rcases Nat.mod_two_eq_zero_or_one v with h | h <;> simp [h]

theorem valOf_bitsOf_lt {n v : Nat} (h : v < 2 ^ n) : valOf (bitsOf n v) = v := by
  rw [valOf_bitsOf, Nat.mod_eq_of_lt h]

theorem bytesBits_append (a b : Bytes) : bytesBits (a ++ b) = bytesBits a ++ bytesBits b := by
  induction a with
  | nil => rfl
  | cons x xs ih => simp [bytesBits, ih]

theorem bytesBits_length (a : Bytes) : (bytesBits a).length = 8 * a.length := by
  induction a with
  | nil => rfl
  | cons x xs ih => simp [bytesBits, bitsOf_length, ih]; omega

/-! ### spec side: RFC 7932 section 9.2, metadata meta-block -/

namespace Spec

/-- the header of a metadata meta-block: `ISLAST = 0`, `MNIBBLES = 11` (the value 0),
reserved bit 0, `MSKIPBYTES` (2 bits), `MSKIPLEN - 1` in `MSKIPBYTES` bytes (an over-long
encoding — more than one byte with a zero last byte — is invalid).  Returns `MSKIPLEN` and
the bits behind the length field. -/
def parseMetadataHeader : List Bool → Option (Nat × List Bool)
  | false :: true :: true :: false :: k0 :: k1 :: rest =>
    let k := (if k0 then 1 else 0) + 2 * (if k1 then 1 else 0)
    if rest.length < 8 * k then none
    else
      let v := valOf (rest.take (8 * k))
      if k > 1 ∧ v / 2 ^ (8 * (k - 1)) = 0 then none
      else some (if k = 0 then 0 else v + 1, rest.drop (8 * k))
  | _ => none

/-- a whole metadata meta-block that starts `off` bits into a byte: header, fill bits up to the
byte boundary (must be zero), `MSKIPLEN` payload bytes.  Returns the payload (as bits) and
what follows. -/
def parseMetadataBlock (off : Nat) (bs : List Bool) : Option (List Bool × List Bool) :=
  match parseMetadataHeader bs with
  | none => none
  | some (len, rest) =>
    let used := off + (bs.length - rest.length)
    let pad := (8 - used % 8) % 8
    if rest.length < pad + 8 * len then none
    else if (rest.take pad).any id then none
    else some ((rest.drop pad).take (8 * len), rest.drop (pad + 8 * len))

end Spec

/-! ### the sync block -/

/-- the six bits of the empty metadata block (`BrotliWriteBits(6, 6)`: the value 6 LSB first) -/
def syncBits : List Bool := [false, true, true, false, false, false]

/-- checker: the bytes `inject_byte_padding_block` appends for carry (`c` bits of value `lb`)
are the carry, the six sync bits and zero fill up to the byte boundary -/
def syncOk (c lb : Nat) : Bool :=
  let nbytes := (c + 6 + 7) / 8
  bytesBits (sealBytes (lb ||| (6 * 2 ^ c)) nbytes) == bitsOf c lb ++ syncBits ++ List.replicate (8 * nbytes - c - 6) false

theorem syncOk_small : ∀ c : Fin 8, ∀ lb : Fin 128, lb.val < 2 ^ c.val → syncOk c.val lb.val = true := by
  decide

/-- the 14-bit carry of a large-window stream header -/
theorem syncOk_large : ∀ w : Fin 64, syncOk 14 ((w.val * 256) ||| 0x11) = true := by
  decide

/-- the spec reads the six sync bits followed by the fill bits as an EMPTY metadata block that ends
on the byte boundary, at every bit offset -/
def syncParses (c : Nat) : Bool :=
  Spec.parseMetadataBlock c (syncBits ++ List.replicate ((8 - (c + 6) % 8) % 8) false) == some ([], [])

theorem syncParses_all : ∀ c : Fin 16, syncParses c.val = true := by
  decide

end BV.Stream
