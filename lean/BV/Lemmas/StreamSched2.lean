import BV.Lemmas.StreamSched
/-
Schedule independence (C05), part 2: every run of a request — any sequence of `compress_stream`
calls with any capacities and `take_output` calls with any sizes — walks along the ONE trajectory
of the abstract machine; two runs of the same request that are both complete end in the same
abstract configuration: same core state, same bytes produced, same input left.
-/
namespace BV.Stream
open BV.Bits

/-- the abstract step that completes a flush: FLUSH_REQUESTED back to PROCESSING -/
def FlushStep (a a' : Abs) : Prop := a.s.streamState = .flushRequested ∧ a'.s.streamState = .processing

/-- `n` steps of the abstract machine, none of which completes a flush -/
inductive UPath (o : Oracle) (op : Nat) : Abs → Nat → Abs → Prop
  | nil (a : Abs) : UPath o op a 0 a
  | cons {a a1 b : Abs} {n : Nat} : ustep o op a = some a1 → ¬ FlushStep a a1 → UPath o op a1 n b → UPath o op a (n + 1) b

theorem UPath.append {o : Oracle} {op : Nat} {a b c : Abs} {n m : Nat} (h1 : UPath o op a n b) (h2 : UPath o op b m c) :
    UPath o op a (n + m) c := by
  induction h1 with
  | nil _ => simpa using h2
  | @cons a a1 b n hs hf _ ih =>
    have : n + 1 + m = (n + m) + 1 := by omega
    rw [this]
    exact .cons hs hf (ih h2)

theorem core_state (s : St) : (core s).streamState = s.streamState := rfl

set_option maxRecDepth 4000 in
/-- only `check_flush_complete` takes the machine from FLUSH_REQUESTED back to PROCESSING -/
theorem step_noflush {o : Oracle} {op : Nat} {s s' : St} {io io' : Io} {e : Ev}
    (h : Step o op (s, io) e (s', io')) (hne : e ≠ .tau 0) (hop2 : op ≤ 2) (del : Bytes) :
    ¬ FlushStep (absOf s io del) (absOf s' io' del) := by
  intro ⟨h1, h2⟩
  have h1' : s.streamState = .flushRequested := h1
  have h2' : s'.streamState = .processing := h2
  cases h with
  | init hf =>
    obtain ⟨p, rfl⟩ := hf
    simp [St.new] at h1'
  | copy hI hw hop hnf hst hrm hc hn h => rw [hst] at h1'; cases h1'
  | pad hI hc hz h =>
    obtain ⟨nx, rfl⟩ := pad_result h
    have : (padResult s nx).streamState = s.streamState := rfl
    rw [this, hc.1] at h2'; cases h2'
  | push hI hc h =>
    obtain ⟨f, _⟩ := push_frame h
    rw [St.frame_eq_iff] at f
    rw [f.2.2.2.1, h1'] at h2'; cases h2'
  | encSlow hI hop hnf hrm hnc hnp hpend hst hgo h => rw [hst] at h1'; cases h1'
  | cfc hI hop hrm hnp hfl => exact hne rfl
  | fastFlush hI hfm hrm hnp hpend hst hop1 hz => rw [hst] at h1'; cases h1'
  | fastBlock hI hfm hop hrm hnp hpend hst hgo hnf hcap hin hfit => rw [hst] at h1'; cases h1'
  | mdEnter hI hop hentry => omega
  | mdEnc hM hop hpend hne h => omega
  | mdHead hM hop hpend hlf hst hok => omega
  | mdDone hM hop hpend hlf hst hz => omega
  | mdOut hM hop hpend hlf hst hnz hao hle => omega
  | mdTiny hM hop hpend hlf hst hnz hao hle => omega

/-- a sequence of atomic steps without `check_flush_complete` is a path of the abstract machine -/
theorem steps_upath {o : Oracle} {op : Nat} {c c' : St × Io} {evs : List Ev} (h : Steps o op c evs c')
    (hnt : ∀ e ∈ evs, e ≠ .tau 0) (hop2 : op ≤ 2) (del : Bytes) :
    ∃ n, UPath o op (absOf c.1 c.2 del) n (absOf c'.1 c'.2 del) := by
  induction h with
  | nil c => exact ⟨0, .nil _⟩
  | @cons c c1 c2 e es hs _ ih =>
    obtain ⟨s, io⟩ := c
    obtain ⟨s1, io1⟩ := c1
    obtain ⟨n, hn⟩ := ih (fun e' he' => hnt e' (List.mem_cons_of_mem _ he'))
    have hne : e ≠ .tau 0 := hnt e List.mem_cons_self
    rcases step_abs hs hop2 del with heq | hu
    · refine ⟨n, ?_⟩
      show UPath o op (absOf s io del) n _
      rw [← heq]; exact hn
    · exact ⟨n + 1, .cons hu (step_noflush hs hne hop2 del) hn⟩

set_option maxRecDepth 4000 in
/-- the caller's input cursor stays coherent: `available_in` is the length of what is left -/
theorem step_inOK {o : Oracle} {op : Nat} {s s' : St} {io io' : Io} {e : Ev}
    (h : Step o op (s, io) e (s', io')) (hop2 : op ≤ 2) (hin : io.availIn = io.input.length) :
    io'.availIn = io'.input.length := by
  cases h with
  | init hf => exact hin
  | copy hI hw hop hnf hst hrm hc hn h =>
    simp only [List.length_drop]
    omega
  | pad hI hc hz h => exact hin
  | push hI hc h =>
    obtain ⟨_, _, _, _, _, _, _, a8, a9, _⟩ := push_frame h
    rw [a8, a9]; exact hin
  | encSlow hI hop hnf hrm hnc hnp hpend hst hgo h => exact hin
  | cfc hI hop hrm hnp hfl => exact hin
  | fastFlush hI hfm hrm hnp hpend hst hop1 hz => exact hin
  | fastBlock hI hfm hop hrm hnp hpend hst hgo hnf hcap hin' hfit =>
    obtain ⟨_, _, e3, e4⟩ := fastEncode_io (fastS1 s io) io (o s.nEnc (fastReq op s io)) (fastReq op s io) (fastBs s io) (fastInplace s io)
      (fastReq op s io).isLast (fastReq op s io).forceFlush
    show (fastRes o op s io).2.availIn = (fastRes o op s io).2.input.length
    unfold fastRes
    rw [e3, e4, List.length_drop, hin]
  | mdEnter hI hop hentry => omega
  | mdEnc hM hop hpend hne h => omega
  | mdHead hM hop hpend hlf hst hok => omega
  | mdDone hM hop hpend hlf hst hz => omega
  | mdOut hM hop hpend hlf hst hnz hao hle => omega
  | mdTiny hM hop hpend hlf hst hnz hao hle => omega

theorem steps_inOK {o : Oracle} {op : Nat} {c c' : St × Io} {evs : List Ev} (h : Steps o op c evs c')
    (hop2 : op ≤ 2) (hin : c.2.availIn = c.2.input.length) : c'.2.availIn = c'.2.input.length := by
  induction h with
  | nil c => exact hin
  | @cons c c1 c2 e es hs _ ih =>
    obtain ⟨s, io⟩ := c
    obtain ⟨s1, io1⟩ := c1
    exact ih (step_inOK hs hop2 hin)

/-! ### determinism of the abstract trajectory -/

theorem upath_det {o : Oracle} {op : Nat} {a b b' : Abs} {n : Nat} (h1 : UPath o op a n b) (h2 : UPath o op a n b') : b = b' := by
  induction h1 with
  | nil _ => cases h2; rfl
  | cons hs _ _ ih =>
    cases h2 with
    | cons hs' _ h2' =>
      rw [hs] at hs'
      cases hs'
      exact ih h2'

/-- a longer flush-free path passes through the end of a shorter one -/
theorem upath_split {o : Oracle} {op : Nat} {a b c : Abs} {n m : Nat} (h1 : UPath o op a n b) (h2 : UPath o op a (n + m) c) :
    UPath o op b m c := by
  induction h1 with
  | nil _ => simpa using h2
  | @cons a a1 b n hs _ _ ih =>
    have : n + 1 + m = (n + m) + 1 := by omega
    rw [this] at h2
    cases h2 with
    | cons hs' _ h2' =>
      rw [hs] at hs'
      cases hs'
      exact ih h2'

/-- where a run of a request stands on the trajectory from `a`: on its flush-free part (`false`),
or exactly one step past it, that step having completed the flush (`true`) -/
def RPath (o : Oracle) (op : Nat) (a b : Abs) : Bool → Prop
  | false => ∃ n, UPath o op a n b
  | true => ∃ n x, UPath o op a n x ∧ ustep o op x = some b ∧ FlushStep x b

/-- **confluence**: two positions on the trajectory from `a` that are both final — the flush has
just completed, or the abstract machine has nothing left to do — are the same configuration -/
theorem rpath_final_eq {o : Oracle} {op : Nat} {a b1 b2 : Abs} {d1 d2 : Bool}
    (h1 : RPath o op a b1 d1) (h2 : RPath o op a b2 d2)
    (f1 : d1 = true ∨ ustep o op b1 = none) (f2 : d2 = true ∨ ustep o op b2 = none) : b1 = b2 := by
  -- a flush-free path of length `m` from `a` cannot contain a flush step or run past a terminal state
  have key : ∀ (n : Nat) (x y : Abs), UPath o op a n x → ustep o op x = some y → FlushStep x y →
      ∀ (m : Nat) (c : Abs), UPath o op a m c → m ≤ n := by
    intro n x y hx hs hf m c hc
    by_cases hle : m ≤ n
    · exact hle
    · exfalso
      have hm : m = n + (m - n - 1 + 1) := by omega
      rw [hm] at hc
      have := upath_split hx hc
      cases this with
      | cons hs' hnf _ =>
        rw [hs] at hs'
        cases hs'
        exact hnf hf
  have term : ∀ (n : Nat) (x : Abs), UPath o op a n x → ustep o op x = none →
      ∀ (m : Nat) (c : Abs), UPath o op a m c → m ≤ n := by
    intro n x hx hn m c hc
    by_cases hle : m ≤ n
    · exact hle
    · exfalso
      have hm : m = n + (m - n - 1 + 1) := by omega
      rw [hm] at hc
      have := upath_split hx hc
      cases this with
      | cons hs' _ _ => rw [hn] at hs'; cases hs'
  cases d1 <;> cases d2
  · -- both terminal
    obtain ⟨n1, p1⟩ := h1
    obtain ⟨n2, p2⟩ := h2
    have t1 : ustep o op b1 = none := by rcases f1 with h | h; cases h; exact h
    have t2 : ustep o op b2 = none := by rcases f2 with h | h; cases h; exact h
    have l1 := term n1 b1 p1 t1 n2 b2 p2
    have l2 := term n2 b2 p2 t2 n1 b1 p1
    have : n1 = n2 := by omega
    subst this
    exact upath_det p1 p2
  · -- run 1 terminal, run 2 just flushed: impossible unless equal positions
    obtain ⟨n1, p1⟩ := h1
    obtain ⟨n2, x2, p2, s2, fl2⟩ := h2
    have t1 : ustep o op b1 = none := by rcases f1 with h | h; cases h; exact h
    have l1 := key n2 x2 b2 p2 s2 fl2 n1 b1 p1
    have l2 := term n1 b1 p1 t1 n2 x2 p2
    have : n1 = n2 := by omega
    subst this
    have := upath_det p1 p2
    subst this
    rw [t1] at s2; cases s2
  · obtain ⟨n1, x1, p1, s1, fl1⟩ := h1
    obtain ⟨n2, p2⟩ := h2
    have t2 : ustep o op b2 = none := by rcases f2 with h | h; cases h; exact h
    have l1 := key n1 x1 b1 p1 s1 fl1 n2 b2 p2
    have l2 := term n2 b2 p2 t2 n1 x1 p1
    have : n1 = n2 := by omega
    subst this
    have := upath_det p1 p2
    subst this
    rw [t2] at s1; cases s1
  · obtain ⟨n1, x1, p1, s1, fl1⟩ := h1
    obtain ⟨n2, x2, p2, s2, fl2⟩ := h2
    have l1 := key n1 x1 b1 p1 s1 fl1 n2 x2 p2
    have l2 := key n2 x2 b2 p2 s2 fl2 n1 x1 p1
    have : n1 = n2 := by omega
    subst this
    have := upath_det p1 p2
    subst this
    rw [s1] at s2
    cases s2
    rfl

end BV.Stream
