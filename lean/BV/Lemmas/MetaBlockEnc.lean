/-
C01 / meta-block writers, part 15: `BlockEncoder::build_and_store_entropy_codes` — one
`BuildAndStoreHuffmanTree` per histogram into the tail of the shared `depths_` / `bits_` tables — against
`readCodes` (NTREES prefix codes over the same alphabet), and the two symbol writers `store_symbol` /
`store_symbol_with_context` against `Cat.next` + the tree selected by block type (and context map).
-/
import BV.Lemmas.MetaBlockSwitch

namespace BV.MetaBlock
open BV.Gen BV.Bits BV.Huffman BV.PrefixArith BV.Recoder
open BV.Header (writeBits_ok)

/-- `SymIO` for a code stored at offset `off` of the shared tables -/
def SymIOAt (depths bits : List Nat) (off : Nat) (code : Code) (s : Nat) : Prop :=
  ∃ sb : List Bool, (∀ w, storeSym depths bits (off + s) w = .ok (w ++ sb)) ∧
    ∀ rest, code.read (sb ++ rest) = some (s, rest)

theorem storeSym_congr (d b d' b' : List Nat) (s s' : Nat) (w : Writer) (h1 : d[s]? = d'[s']?) (h2 : b[s]? = b'[s']?) :
    storeSym d b s w = storeSym d' b' s' w := by
  unfold storeSym getAt
  rw [h1, h2]

theorem zeros_of_getD (l : List Nat) (n : Nat) (hl : l.length = n) (hz : ∀ k, l.getD k 0 = 0) :
    l = List.replicate n 0 := by
  apply List.ext_getElem
  · simp [hl]
  · intro i h1 h2
    have := hz i
    rw [List.getD_eq_getElem?_getD, List.getElem?_eq_getElem h1] at this
    simp only [Option.getD_some] at this
    simp [this]

/-- the loop of `build_and_store_entropy_codes` from histogram `i` on -/
theorem entropyGo (histLen A : Nat) (histos : List (List Nat)) (T : Nat) (hl704 : histLen ≤ 704) (hA1 : 1 ≤ A)
    (hA : A ≤ histLen) : ∀ (cnt i : Nat) (d b : List Nat) (w : Writer), i + cnt ≤ histos.length →
    (i + cnt) * histLen ≤ T → T < two64 → d.length = T → b.length = T →
    (∀ k, i * histLen ≤ k → d.getD k 0 = 0) → (∀ k, i * histLen ≤ k → b.getD k 0 = 0) →
    (∀ j, i ≤ j → j < i + cnt → histLen ≤ (histos.getD j []).length ∧ (histos.getD j []).sum ≤ 2 ^ 25 ∧
      ∀ k, A ≤ k → (histos.getD j []).getD k 0 = 0) →
    ∃ d' b' bits codes, buildEntropyCodes.go histLen histos A cnt i d b w = .ok (d', b', w ++ bits) ∧
      (∀ rest, readCodes A cnt (bits ++ rest) = some (codes, rest)) ∧ codes.length = cnt ∧
      d'.length = T ∧ b'.length = T ∧
      (∀ k, k < i * histLen → d'[k]? = d[k]? ∧ b'[k]? = b[k]?) ∧
      ∀ j, i ≤ j → j < i + cnt → ∀ sym, sym < histLen → (histos.getD j []).getD sym 0 ≠ 0 →
        SymIOAt d' b' (j * histLen) (codes.getD (j - i) (Code.single 0)) sym := by
  intro cnt
  induction cnt with
  | zero =>
    intro i d b w _ _ _ hd hb _ _ _
    exact ⟨d, b, [], [], by simp [buildEntropyCodes.go], fun rest => rfl, rfl, hd, hb, fun k _ => ⟨rfl, rfl⟩,
      fun j h1 h2 => by omega⟩
  | succ cnt ih =>
    intro i d b w hsz hT hT64 hd hb hzd hzb hh
    obtain ⟨hh1, hh2, hh3⟩ := hh i (Nat.le_refl _) (by omega)
    have hA65 : A ≤ 65536 := by omega
    have hAb : A ≤ 2 ^ alphabetBits A := by
      obtain ⟨_, hb'⟩ := BV.Lemmas.HuffmanSimple.alphabetBits_facts A hA1 hA65
      have := hb' (A - 1) (by omega)
      omega
    have hmul : (i + (cnt + 1)) * histLen = i * histLen + histLen + cnt * histLen := by
      rw [Nat.add_mul, Nat.add_mul, Nat.one_mul]; omega
    have hix : (i * histLen) % two64 = i * histLen := Nat.mod_eq_of_lt (by omega)
    have hixle : i * histLen + histLen ≤ T := by omega
    -- the untouched tail of both tables is zero
    obtain ⟨N, hN⟩ : ∃ N, N = T - i * histLen := ⟨_, rfl⟩
    have hdd : d.drop (i * histLen) = List.replicate N 0 := by
      apply zeros_of_getD
      · rw [List.length_drop, hd, hN]
      · intro k
        rw [List.getD_eq_getElem?_getD, List.getElem?_drop, ← List.getD_eq_getElem?_getD]
        exact hzd _ (by omega)
    have hbd : b.drop (i * histLen) = List.replicate N 0 := by
      apply zeros_of_getD
      · rw [List.length_drop, hb, hN]
      · intro k
        rw [List.getD_eq_getElem?_getD, List.getElem?_drop, ← List.getD_eq_getElem?_getD]
        exact hzb _ (by omega)
    obtain ⟨dd, bb, w1, hbt⟩ := build_totalN (histos.getD i []) histLen A N w (by omega) hh1 hl704 hh2 hA1 hA hh3
    obtain ⟨⟨cb, code, ec, rc, sc⟩, ddl, bbl, ddz, bbz⟩ := codeFacts_of_buildN (histos.getD i []) histLen A N w w1 dd bb
      hh1 hl704 hh2 hA1 hA hh3 hAb (by omega) hbt
    have htl : (d.take (i * histLen)).length = i * histLen := by rw [List.length_take, hd]; omega
    have htlb : (b.take (i * histLen)).length = i * histLen := by rw [List.length_take, hb]; omega
    have hmul1 : (i + 1) * histLen = i * histLen + histLen := by rw [Nat.add_mul, Nat.one_mul]
    obtain ⟨d', b', bits, codes, e, r, cl, dl', bl', pres, sio⟩ := ih (i + 1) (d.take (i * histLen) ++ dd)
      (b.take (i * histLen) ++ bb) w1 (by omega) (by rw [hmul] at hT; rw [Nat.add_mul, Nat.add_mul, Nat.one_mul]; omega) hT64
      (by rw [List.length_append, htl, ddl]; omega) (by rw [List.length_append, htlb, bbl]; omega)
      (fun k hk => by
        rw [hmul1] at hk
        rw [List.getD_eq_getElem?_getD, List.getElem?_append_right (by rw [htl]; omega), htl,
          ← List.getD_eq_getElem?_getD]
        exact ddz _ (by omega))
      (fun k hk => by
        rw [hmul1] at hk
        rw [List.getD_eq_getElem?_getD, List.getElem?_append_right (by rw [htlb]; omega), htlb,
          ← List.getD_eq_getElem?_getD]
        exact bbz _ (by omega))
      (fun j h1 h2 => hh j (by omega) (by omega))
    refine ⟨d', b', cb ++ bits, code :: codes, ?_, ?_, by simp [cl], dl', bl', ?_, ?_⟩
    · unfold buildEntropyCodes.go
      have hg : getAt histos i = .ok (histos.getD i []) := by
        unfold getAt
        rw [List.getD_eq_getElem?_getD, List.getElem?_eq_getElem (by omega)]
        rfl
      rw [hg, Out.bind_ok]
      simp only [hix]
      rw [if_neg (by rw [hd]; omega), hdd, hbd, hbt, Out.bind_ok]
      simp only
      rw [e, ec, List.append_assoc]
    · intro rest
      unfold readCodes
      rw [List.append_assoc, rc]
      simp only
      rw [r]
    · intro k hk
      obtain ⟨p1, p2⟩ := pres k (by rw [hmul1]; omega)
      rw [p1, p2, List.getElem?_append_left (by rw [htl]; exact hk), List.getElem?_append_left (by rw [htlb]; exact hk),
        List.getElem?_take_of_lt hk, List.getElem?_take_of_lt hk]
      exact ⟨rfl, rfl⟩
    · intro j h1 h2 sym hs hnz
      rcases Nat.eq_or_lt_of_le h1 with heq | hlt
      · subst heq
        rw [Nat.sub_self]
        obtain ⟨sb, s1, s2⟩ := sc sym hs hnz
        refine ⟨sb, fun w' => ?_, s2⟩
        obtain ⟨p1, p2⟩ := pres (i * histLen + sym) (by rw [hmul1]; omega)
        rw [storeSym_congr d' b' dd bb (i * histLen + sym) sym w' ?_ ?_, s1]
        · rw [p1, List.getElem?_append_right (by rw [htl]; omega), htl]
          congr 1; omega
        · rw [p2, List.getElem?_append_right (by rw [htlb]; omega), htlb]
          congr 1; omega
      · have := sio j (by omega) (by omega) sym hs hnz
        have hji : j - i = (j - (i + 1)) + 1 := by omega
        rw [hji]
        exact this

/-- **`build_and_store_entropy_codes`**: `size` prefix codes behind each other, read back by `readCodes`; every
symbol a histogram counts is written from the shared tables at offset `i * histogram_length_` as the reader's
`i`-th code reads it -/
theorem buildEntropyCodes_facts (histLen A size : Nat) (histos : List (List Nat)) (w : Writer)
    (hsz : size ≤ histos.length) (hsz256 : size ≤ 256) (hl704 : histLen ≤ 704) (hA1 : 1 ≤ A) (hA : A ≤ histLen)
    (hh : ∀ i, i < size → histLen ≤ (histos.getD i []).length ∧ (histos.getD i []).sum ≤ 2 ^ 25 ∧
      ∀ k, A ≤ k → (histos.getD i []).getD k 0 = 0) :
    ∃ d b bits codes, buildEntropyCodes histLen histos size A w = .ok (d, b, w ++ bits) ∧
      (∀ rest, readCodes A size (bits ++ rest) = some (codes, rest)) ∧ codes.length = size ∧
      d.length = size * histLen ∧ b.length = size * histLen ∧
      ∀ i, i < size → ∀ sym, sym < histLen → (histos.getD i []).getD sym 0 ≠ 0 →
        SymIOAt d b (i * histLen) (codes.getD i (Code.single 0)) sym := by
  have hlt : size * histLen < two64 := by
    have : size * histLen ≤ 256 * 704 := Nat.mul_le_mul hsz256 hl704
    unfold two64; omega
  obtain ⟨d, b, bits, codes, e, r, cl, dl, bl, _, sio⟩ := entropyGo histLen A histos (size * histLen) hl704 hA1 hA size 0
    (List.replicate (size * histLen) 0) (List.replicate (size * histLen) 0) w (by omega) (by simp) hlt (by simp) (by simp)
    (fun k _ => getD_replicate_zero _ _) (fun k _ => getD_replicate_zero _ _) (fun j _ h2 => hh j (by omega))
  refine ⟨d, b, bits, codes, ?_, r, cl, dl, bl, fun i hi sym hs hnz => ?_⟩
  · unfold buildEntropyCodes
    simp only [Nat.mod_eq_of_lt hlt]
    exact e
  · have := sio i (by omega) (by omega) sym hs hnz
    rw [Nat.sub_zero] at this
    exact this

/-! ### one symbol of a category -/

/-- **`store_symbol`**: block switch if needed, then the symbol with the code of the block type -/
theorem storeSymbol_step (s : BSplit) (h : SplitOK s) (e : BEnc) (cat : Cat) (j H : Nat) (codes : List Code)
    (histos : List (List Nat)) (size sym t : Nat) (tl : List Nat) (hH : e.histLen = H)
    (hE : EncInv s H e cat j) (hm : 256 * H < two64)
    (hrem : remTypes s j e.blockLen = t :: tl) (hsym : sym < H)
    (hio : ∀ i, i < size → ∀ sy, sy < H → (histos.getD i []).getD sy 0 ≠ 0 →
      SymIOAt e.depths e.bits (i * H) (codes.getD i (Code.single 0)) sy)
    (ht : s.numTypes ≤ size) (hcov : (histos.getD t []).getD sym 0 ≠ 0) :
    ∃ b1 b2 e' cat' j', (∀ w, e.storeSymbol sym w = .ok (e', w ++ b1 ++ b2)) ∧
      (∀ rest, cat.next (b1 ++ rest) = some (cat', rest)) ∧ cat'.btype = t ∧ t < s.numTypes ∧
      (∀ rest, (codes.getD t (Code.single 0)).read (b2 ++ rest) = some (sym, rest)) ∧
      EncInv s H e' cat' j' ∧ remTypes s j' e'.blockLen = tl ∧
      e'.depths = e.depths ∧ e'.bits = e.bits ∧ e'.histLen = H := by
  have hb : 1 ≤ budget s j e.blockLen := by rw [← remTypes_length s h, hrem]; simp
  obtain ⟨b1, e', cat', j', a1, a2, a3, _, a5, a6, a7, a8⟩ := adv_step s h H e cat j none hE
    (fun cb hcb => by cases hcb) (fun _ => hH.symm) hm hb
  rw [hrem] at a5
  injection a5 with a5 a5'
  have htlt : t < s.numTypes := by rw [a5]; exact h.tlt j' a3.ci.jlt
  have hnt := h.nt
  obtain ⟨sb, s1, s2⟩ := hio t (by omega) sym hsym hcov
  have hidx : (e'.entropyIx + sym) % two64 = t * H + sym := by
    rw [a3.ent, ← a5]
    apply Nat.mod_eq_of_lt
    have : t * H + sym < (t + 1) * H := by rw [Nat.add_mul, Nat.one_mul]; omega
    have : (t + 1) * H ≤ 256 * H := Nat.mul_le_mul_right _ (by omega)
    omega
  refine ⟨b1, sb, e', cat', j', ?_, a2, by rw [a3.ci.btype, a5], htlt, s2, a3, a5'.symm, a6, a7, by rw [a8, hH]⟩
  intro w
  unfold BEnc.storeSymbol
  rw [a1 w, Out.bind_ok]
  dsimp only
  rw [hidx, a6, a7, s1, Out.bind_ok]

/-- **`store_symbol_with_context`**: block switch if needed, then the symbol with the code the context map
selects for (block type, context) -/
theorem storeSymbolCtx_step (s : BSplit) (h : SplitOK s) (e : BEnc) (cat : Cat) (j H cb : Nat) (codes : List Code)
    (histos : List (List Nat)) (cmap : List Nat) (size sym ctx t : Nat) (tl : List Nat) (hH : e.histLen = H)
    (hE : EncInv s (2 ^ cb) e cat j) (hm : 256 * 2 ^ cb < two64) (hH704 : H ≤ 704)
    (hrem : remTypes s j e.blockLen = t :: tl) (hsym : sym < H) (hctx : ctx < 2 ^ cb)
    (hio : ∀ i, i < size → ∀ sy, sy < H → (histos.getD i []).getD sy 0 ≠ 0 →
      SymIOAt e.depths e.bits (i * H) (codes.getD i (Code.single 0)) sy)
    (hsz : size ≤ 256) (hcl : s.numTypes * 2 ^ cb ≤ cmap.length)
    (hcm : ∀ k, k < s.numTypes * 2 ^ cb → cmap.getD k 0 < size)
    (hcov : (histos.getD (cmap.getD (t * 2 ^ cb + ctx) 0) []).getD sym 0 ≠ 0) :
    ∃ b1 b2 e' cat' j', (∀ w, e.storeSymbolCtx sym ctx cmap cb w = .ok (e', w ++ b1 ++ b2)) ∧
      (∀ rest, cat.next (b1 ++ rest) = some (cat', rest)) ∧ cat'.btype = t ∧ t < s.numTypes ∧
      (∀ rest, (codes.getD (cmap.getD (t * 2 ^ cb + ctx) 0) (Code.single 0)).read (b2 ++ rest) = some (sym, rest)) ∧
      EncInv s (2 ^ cb) e' cat' j' ∧ remTypes s j' e'.blockLen = tl ∧
      e'.depths = e.depths ∧ e'.bits = e.bits ∧ e'.histLen = H := by
  have hb : 1 ≤ budget s j e.blockLen := by rw [← remTypes_length s h, hrem]; simp
  obtain ⟨b1, e', cat', j', a1, a2, a3, _, a5, a6, a7, a8⟩ := adv_step s h (2 ^ cb) e cat j (some cb) hE
    (fun cb' hcb => by injection hcb with hcb; rw [hcb]) (fun hn => by cases hn) hm hb
  rw [hrem] at a5
  injection a5 with a5 a5'
  have htlt : t < s.numTypes := by rw [a5]; exact h.tlt j' a3.ci.jlt
  have hnt := h.nt
  have hk : t * 2 ^ cb + ctx < s.numTypes * 2 ^ cb := by
    have : t * 2 ^ cb + ctx < (t + 1) * 2 ^ cb := by rw [Nat.add_mul, Nat.one_mul]; omega
    have : (t + 1) * 2 ^ cb ≤ s.numTypes * 2 ^ cb := Nat.mul_le_mul_right _ (by omega)
    omega
  have hk256 : s.numTypes * 2 ^ cb ≤ 256 * 2 ^ cb := Nat.mul_le_mul_right _ hnt
  have hidx : (e'.entropyIx + ctx) % two64 = t * 2 ^ cb + ctx := by
    rw [a3.ent, ← a5]
    exact Nat.mod_eq_of_lt (by omega)
  have hhix := hcm _ hk
  obtain ⟨sb, s1, s2⟩ := hio _ hhix sym hsym hcov
  have hidx2 : (cmap.getD (t * 2 ^ cb + ctx) 0 * H + sym) % two64 = cmap.getD (t * 2 ^ cb + ctx) 0 * H + sym := by
    apply Nat.mod_eq_of_lt
    have h1 : cmap.getD (t * 2 ^ cb + ctx) 0 * H ≤ 256 * 704 := Nat.mul_le_mul (by omega) hH704
    unfold two64; omega
  refine ⟨b1, sb, e', cat', j', ?_, a2, by rw [a3.ci.btype, a5], htlt, s2, a3, a5'.symm, a6, a7, by rw [a8, hH]⟩
  intro w
  unfold BEnc.storeSymbolCtx
  rw [a1 w, Out.bind_ok]
  dsimp only
  rw [hidx, getAt_getD cmap _ (by omega), Out.bind_ok, a8, hH, hidx2, a6, a7, s1, Out.bind_ok]

end BV.MetaBlock
