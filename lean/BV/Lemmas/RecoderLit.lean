/-
C14, literals: the loop that cuts a literal run at literal block-type switches (and at the ring-buffer wrap,
through the two halves of the `InputPair`) emits literal commands that replay to exactly the bytes consumed,
for EVERY block-split description (also inconsistent ones, as long as the model does not panic).
-/
import BV.Lemmas.RecoderBasic
namespace BV.Recoder

/-- `xs` replays, from any output so far, to that output followed by `bs` -/
def Emits (w : WordOracle) (window : Nat) (mb : Bytes) (xs : List IR) (bs : Bytes) : Prop :=
  ∀ out, replayIR w window mb xs out = some (out ++ bs)

theorem Emits.nil (w : WordOracle) (window : Nat) (mb : Bytes) : Emits w window mb [] [] := by
  intro out; simp [replayIR]

theorem Emits.append {w : WordOracle} {window : Nat} {mb : Bytes} {xs ys : List IR} {a b : Bytes}
    (h1 : Emits w window mb xs a) (h2 : Emits w window mb ys b) : Emits w window mb (xs ++ ys) (a ++ b) := by
  intro out
  rw [replayIR_append_some w window mb xs ys out _ (h1 out), h2, List.append_assoc]

theorem Emits.bsl (w : WordOracle) (window : Nat) (mb : Bytes) (t : Nat) : Emits w window mb [IR.bsl t] [] := by
  intro out; simp [replayIR]
theorem Emits.bsc (w : WordOracle) (window : Nat) (mb : Bytes) (t : Nat) : Emits w window mb [IR.bsc t] [] := by
  intro out; simp [replayIR]
theorem Emits.bsd (w : WordOracle) (window : Nat) (mb : Bytes) (t : Nat) : Emits w window mb [IR.bsd t] [] := by
  intro out; simp [replayIR]

theorem Emits.pushLiterals (w : WordOracle) (window : Nat) (mb : Bytes) (he : Bool) (p : Pair) (c : Nat)
    (h : Rep mb p c) (h32 : mb.length < 2 ^ 32) : Emits w window mb (pushLiterals he p) p.bytes :=
  fun out => pushLiterals_replay w window mb he p c h h32 out

theorem pushLiterals_nil (he : Bool) (p : Pair) (h : p.len = 0) : pushLiterals he p = [] := by
  unfold Pair.len at h
  unfold pushLiterals
  have h1 : p.a.data.length = 0 := by omega
  have h2 : p.b.data.length = 0 := by omega
  simp [h1, h2]

theorem take_drop_add (l : Bytes) (c m n : Nat) :
    (l.drop c).take m ++ (l.drop (c + m)).take n = (l.drop c).take (m + n) := by
  rw [List.take_add, List.drop_drop]

theorem Rep.bytes_len {mb : Bytes} {p : Pair} {c : Nat} (_h : Rep mb p c) : p.bytes.length = p.len := by
  simp [Pair.bytes, Pair.len]

/-- the literal-splitting loop: whatever the block-split description, what it emits replays to exactly the
literal bytes it consumed, the remaining pair still carries the right offsets, and `mb_len` went down by the
number of bytes consumed -/
theorem litLoop_spec (w : WordOracle) (window : Nat) (mb : Bytes) (he : Bool) (bt : Split) (h32 : mb.length < 2 ^ 32) :
    ∀ (fuel : Nat) (tmp : Pair) (sub counter mbLen : Nat) (acc : List IR) (c : Nat)
      (tmp' : Pair) (sub' counter' mbLen' : Nat) (acc' : List IR),
      Rep mb tmp c →
      litLoop he bt fuel tmp sub counter mbLen acc = some (tmp', sub', counter', mbLen', acc') →
      ∃ lits k, acc' = acc ++ lits ∧ Rep mb tmp' (c + k) ∧ k + tmp'.len = tmp.len ∧ mbLen' + k = mbLen ∧
        tmp'.len ≤ sub' ∧ Emits w window mb lits ((mb.drop c).take k) := by
  intro fuel
  induction fuel with
  | zero => intro tmp sub counter mbLen acc c tmp' sub' counter' mbLen' acc' _ h; simp [litLoop] at h
  | succ fuel ih =>
    intro tmp sub counter mbLen acc c tmp' sub' counter' mbLen' acc' hrep h
    unfold litLoop at h
    by_cases hgt : tmp.len > sub
    · rw [if_pos hgt] at h
      simp only at h
      obtain ⟨rA, rB⟩ := hrep.splitAt sub (by omega)
      obtain ⟨lA, lB⟩ := tmp.splitAt_len sub
      have lA' : (tmp.splitAt sub).1.len = sub := by rw [lA]; omega
      by_cases hmb : mbLen < (tmp.splitAt sub).1.len
      · rw [if_pos hmb] at h; cases h
      · rw [if_neg hmb] at h
        -- what was pushed for in_a
        have hA : ∃ litsA, (if (tmp.splitAt sub).1.len ≠ 0 then acc ++ pushLiterals he (tmp.splitAt sub).1 else acc) = acc ++ litsA ∧
            Emits w window mb litsA ((mb.drop c).take sub) := by
          by_cases hz : (tmp.splitAt sub).1.len ≠ 0
          · rw [if_pos hz]
            refine ⟨_, rfl, ?_⟩
            have := Emits.pushLiterals w window mb he _ c rA h32
            rw [rA.bytes, lA'] at this
            exact this
          · rw [if_neg hz]
            refine ⟨[], by simp, ?_⟩
            have : sub = 0 := by omega
            rw [this]; simpa using Emits.nil w window mb
        obtain ⟨litsA, eA, emA⟩ := hA
        rw [eA] at h
        by_cases hty : bt.types.length > counter + 1
        · rw [if_pos hty] at h
          cases hl : bt.lengths[counter + 1]? with
          | none => rw [hl] at h; simp at h
          | some l =>
            cases ht : bt.types[counter + 1]? with
            | none => rw [hl, ht] at h; simp at h
            | some t =>
              rw [hl, ht] at h
              simp only at h
              obtain ⟨lits, k, e1, r1, k1, m1, s1, em1⟩ := ih _ _ _ _ _ (c + sub) _ _ _ _ _ rB h
              refine ⟨litsA ++ [IR.bsl t] ++ lits, sub + k, by rw [e1]; simp, by rw [← Nat.add_assoc]; exact r1, by omega, by omega, s1, ?_⟩
              have := (emA.append (Emits.bsl w window mb t)).append em1
              rw [List.append_nil, take_drop_add] at this
              exact this
        · rw [if_neg hty] at h
          obtain ⟨lits, k, e1, r1, k1, m1, s1, em1⟩ := ih _ _ _ _ _ (c + sub) _ _ _ _ _ rB h
          refine ⟨litsA ++ lits, sub + k, by rw [e1]; simp, by rw [← Nat.add_assoc]; exact r1, by omega, by omega, s1, ?_⟩
          have := emA.append em1
          rw [take_drop_add] at this
          exact this
    · rw [if_neg hgt] at h
      cases h
      exact ⟨[], 0, by simp, by simpa using hrep, by omega, by omega, by omega, by simpa using Emits.nil w window mb⟩

theorem litPart_spec (w : WordOracle) (window : Nat) (mb : Bytes) (h32 : mb.length < 2 ^ 32)
    (e : Env) (s : St) (inserts : Pair) (c : Nat) (lsub lc mbLen' : Nat) (out' : List IR)
    (hrep : Rep mb inserts c) (h : litPart e s inserts = some (lsub, lc, mbLen', out')) :
    ∃ lits, out' = s.out ++ lits ∧ mbLen' + inserts.len = s.mbLen ∧ Emits w window mb lits inserts.bytes := by
  unfold litPart at h
  by_cases hz : inserts.len ≠ 0
  · rw [if_pos hz] at h
    cases hl : litLoop e.he e.btl (inserts.len + e.btl.types.length + 2) inserts s.lsub s.lc s.mbLen s.out with
    | none => rw [hl] at h; cases h
    | some r =>
      obtain ⟨tmp, sub, counter, mbLen, out⟩ := r
      rw [hl] at h
      simp only at h
      obtain ⟨lits, k, e1, r1, k1, m1, s1, em1⟩ := litLoop_spec w window mb e.he e.btl h32 _ _ _ _ _ _ c _ _ _ _ _ hrep hl
      have emT := Emits.pushLiterals w window mb e.he tmp (c + k) r1 h32
      have hbytes : (mb.drop c).take k ++ tmp.bytes = inserts.bytes := by
        rw [r1.bytes, hrep.bytes, take_drop_add, k1]
      by_cases htz : tmp.len ≠ 0
      · rw [if_pos htz] at h
        by_cases hbad : mbLen < tmp.len ∨ sub < tmp.len % 2 ^ 32
        · rw [if_pos hbad] at h; cases h
        · rw [if_neg hbad] at h
          cases h
          refine ⟨lits ++ pushLiterals e.he tmp, by rw [e1]; simp, by omega, ?_⟩
          have := em1.append emT
          rw [hbytes] at this
          exact this
      · rw [if_neg htz] at h
        cases h
        refine ⟨lits ++ pushLiterals e.he tmp, by rw [e1]; simp, by omega, ?_⟩
        have := em1.append emT
        rw [hbytes] at this
        exact this
  · rw [if_neg hz] at h
    cases h
    have hb : inserts.bytes = [] := by
      have : inserts.bytes.length = 0 := by rw [hrep.bytes_len]; omega
      exact List.length_eq_zero_iff.mp this
    exact ⟨[], by simp, by omega, by rw [hb]; exact Emits.nil w window mb⟩


/-- with the fuel `litPart` passes, the literal loop never stops for lack of fuel: one more unit of fuel does not
change its result (so `none` always is a real panic site of the Rust loop, and the Rust `while` terminates) -/
theorem litLoop_fuel_succ (he : Bool) (bt : Split) :
    ∀ (fuel : Nat) (tmp : Pair) (sub counter mbLen : Nat) (acc : List IR),
      tmp.len ≤ 2 ^ 31 → fuel ≥ tmp.len + (bt.types.length - counter) + 1 →
      litLoop he bt (fuel + 1) tmp sub counter mbLen acc = litLoop he bt fuel tmp sub counter mbLen acc := by
  intro fuel
  induction fuel with
  | zero => intro tmp sub counter mbLen acc _ h; omega
  | succ f ih =>
    intro tmp sub counter mbLen acc h31 hf
    rw [litLoop, litLoop]
    by_cases hgt : tmp.len > sub
    · rw [if_pos hgt, if_pos hgt]
      simp only
      obtain ⟨lA, lB⟩ := tmp.splitAt_len sub
      by_cases hmb : mbLen < (tmp.splitAt sub).1.len
      · rw [if_pos hmb, if_pos hmb]
      · rw [if_neg hmb, if_neg hmb]
        by_cases hty : bt.types.length > counter + 1
        · rw [if_pos hty, if_pos hty]
          cases bt.lengths[counter + 1]? with
          | none => rfl
          | some l =>
            cases bt.types[counter + 1]? with
            | none => rfl
            | some t =>
              simp only
              apply ih
              · rw [lB]; omega
              · rw [lB]
                by_cases hs0 : sub = 0
                · omega
                · omega
        · rw [if_neg hty, if_neg hty]
          -- the next iteration exits at once: remaining length ≤ 2^31
          have hle : ¬ ((tmp.splitAt sub).2.len > 2 ^ 31) := by rw [lB]; omega
          have hf1 : f ≥ 1 := by omega
          obtain ⟨g, rfl⟩ : ∃ g, f = g + 1 := ⟨f - 1, by omega⟩
          rw [litLoop, litLoop, if_neg hle, if_neg hle]
    · rw [if_neg hgt, if_neg hgt]

theorem litLoop_fuel_enough (he : Bool) (bt : Split) (k fuel : Nat) (tmp : Pair) (sub counter mbLen : Nat) (acc : List IR)
    (h31 : tmp.len ≤ 2 ^ 31) (hf : fuel ≥ tmp.len + (bt.types.length - counter) + 1) :
    litLoop he bt (fuel + k) tmp sub counter mbLen acc = litLoop he bt fuel tmp sub counter mbLen acc := by
  induction k with
  | zero => rfl
  | succ k ih =>
    rw [← Nat.add_assoc, litLoop_fuel_succ he bt (fuel + k) tmp sub counter mbLen acc h31 (by omega), ih]


end BV.Recoder
