/-
Helper lemmas for the concatenator model (C16 / C12 / C03): the `sat`
(weakest-precondition style) predicate on outcomes and specifications of the
small building blocks.
-/
import BV.Model.Concat

namespace BV.Concat
open Outcome BV.Gen

theorem hdr5 : NUM_STREAM_HEADER_BYTES = 5 := rfl

attribute [simp] SUCCESS NEEDS_MORE_INPUT NEEDS_MORE_OUTPUT NOT_CRAFTED_FOR_APPEND INVALID_WINDOW_SIZE
  WINDOW_SIZE_LARGER NOT_CRAFTED_FOR_CONCAT

@[simp] theorem bind_ok {α β} (v : α) (f : α → Outcome β) : (ok v).bind f = f v := rfl
@[simp] theorem bind_panic {α β} (t : Site) (f : α → Outcome β) :
    (Outcome.panic t : Outcome α).bind f = Outcome.panic t := rfl

/-- `x.sat P`: `x` is not a panic and its value satisfies `P` -/
def Outcome.sat {α} (x : Outcome α) (P : α → Prop) : Prop :=
  match x with
  | .ok v => P v
  | .panic _ => False

@[simp] theorem sat_ok {α} (v : α) (P : α → Prop) : (ok v).sat P ↔ P v := Iff.rfl
@[simp] theorem sat_panic {α} (t : Site) (P : α → Prop) : ¬ (Outcome.panic t : Outcome α).sat P := fun h => h

theorem sat_iff {α} {x : Outcome α} {P : α → Prop} : x.sat P ↔ ∃ v, x = ok v ∧ P v := by
  cases x with
  | panic t => simp [Outcome.sat]
  | ok v => simp [Outcome.sat]

theorem sat_bind {α β} {x : Outcome α} {f : α → Outcome β} {P : β → Prop} (Q : α → Prop)
    (hx : x.sat Q) (hf : ∀ v, Q v → (f v).sat P) : (x.bind f).sat P := by
  cases x with
  | panic t => exact absurd hx (sat_panic t Q)
  | ok v => exact hf v hx

theorem sat_mono {α} {x : Outcome α} {P Q : α → Prop} (hx : x.sat P) (h : ∀ v, P v → Q v) : x.sat Q := by
  cases x with
  | panic t => exact absurd hx (sat_panic t P)
  | ok v => exact h v hx

theorem sat_and {α} {x : Outcome α} {P Q : α → Prop} (h1 : x.sat P) (h2 : x.sat Q) :
    x.sat (fun v => P v ∧ Q v) := by
  cases x with
  | panic t => exact absurd h1 (sat_panic t P)
  | ok v => exact ⟨h1, h2⟩

theorem not_panic_of_sat {α} {x : Outcome α} {P : α → Prop} (h : x.sat P) (t : Site) : x ≠ Outcome.panic t := by
  intro e; rw [e] at h; exact h

/-! ### generic loop rule -/

theorem forRange_sat {α} (f : Nat → α → Outcome α) (I : Nat → α → Prop) :
    ∀ n start a, I start a →
      (∀ i a, start ≤ i → i < start + n → I i a → (f i a).sat (I (i + 1))) →
      (forRange f n start a).sat (I (start + n)) := by
  intro n
  induction n with
  | zero => intro start a h _; simpa [forRange] using h
  | succ n ih =>
    intro start a h hstep
    unfold forRange
    refine sat_bind (I (start + 1)) (hstep start a (Nat.le_refl _) (by omega) h) ?_
    intro a' ha'
    have := ih (start + 1) a' ha' (fun i a hi1 hi2 hI => hstep i a (by omega) (by omega) hI)
    have e : start + 1 + n = start + (n + 1) := by omega
    rw [e] at this
    exact this

/-! ### header parsers -/

/-- the (window, bits) pairs `parse_window_size` can return -/
def PwOk (w o : Nat) : Prop := 10 ≤ w ∧ w ≤ 30 ∧ (o = 1 ∨ o = 4 ∨ o = 7 ∨ o = 14)

theorem idx_sat_of_lt (site : Site) (l : List Nat) (i : Nat) (h : i < l.length) :
    (idx site l i).sat (fun v => v = l[i]) := by
  unfold idx
  rw [List.getElem?_eq_getElem h]
  simp

theorem and63_le (b : Nat) : b &&& 0x3f ≤ 63 := Nat.and_le_right

theorem sat_ite {α} {c : Prop} [Decidable c] {a b : Outcome α} {P : α → Prop}
    (h1 : c → a.sat P) (h2 : ¬ c → b.sat P) : (if c then a else b).sat P := by
  by_cases hc : c
  · rw [if_pos hc]; exact h1 hc
  · rw [if_neg hc]; exact h2 hc

/-- `parse_window_size` does not panic on slices of length ≥ 2, and its answers are in range -/
theorem parseWindowSize_sat (bs : List Nat) (h : 2 ≤ bs.length) :
    (parseWindowSize bs).sat (fun r => ∀ w o, r = some (w, o) → PwOk w o) := by
  unfold parseWindowSize
  refine sat_bind _ (idx_sat_of_lt _ bs 0 (by omega)) ?_
  intro b0 _
  dsimp only
  iterate 15 (refine sat_ite (fun _ => by simp [PwOk]) (fun _ => ?_))
  refine sat_ite (fun _ => by simp) (fun _ => ?_)
  refine sat_bind _ (idx_sat_of_lt _ bs 1 (by omega)) ?_
  intro b1 _
  refine sat_ite (fun _ => by simp) (fun hr => ?_)
  simp [PwOk]
  omega

theorem byte_class : ∀ b : Fin 256, b.val ≠ 17 → ¬ (b.val &&& 1 = 0) → ¬ (b.val &&& 15 = 3) → ¬ (b.val &&& 15 = 5) →
    ¬ (b.val &&& 15 = 7) → ¬ (b.val &&& 15 = 9) → ¬ (b.val &&& 15 = 11) → ¬ (b.val &&& 15 = 13) →
    ¬ (b.val &&& 15 = 15) → ¬ (b.val &&& 127 = 0x71) → ¬ (b.val &&& 127 = 0x61) → ¬ (b.val &&& 127 = 0x51) →
    ¬ (b.val &&& 127 = 0x41) → ¬ (b.val &&& 127 = 0x31) → ¬ (b.val &&& 127 = 0x21) → ¬ (b.val &&& 127 = 1) →
    ¬ (b.val &&& 0x80 ≠ 0) → False := by decide +kernel

/-- `parse_window_size` reads only `bs[0]` unless `bs[0] = 0x11` exactly (then `bs[1]` too):
it does not panic on a 1-byte slice whose byte is not 0x11 -/
theorem parseWindowSize_sat_one (bs : List Nat) (b0 : Nat) (hb0 : bs[0]? = some b0) (hlt : b0 < 256)
    (hne : b0 ≠ 17) : (parseWindowSize bs).sat (fun _ => True) := by
  unfold parseWindowSize
  simp only [idx, hb0, bind_ok]
  iterate 15 (refine sat_ite (fun _ => by simp) (fun _ => ?_))
  refine sat_ite (fun _ => by simp) (fun _ => ?_)
  exfalso
  rename_i h1 h3 h5 h7 h9 hb hd hf g71 g61 g51 g41 g31 g21 g1 g80
  exact byte_class ⟨b0, hlt⟩ hne h1 h3 h5 h7 h9 hb hd hf g71 g61 g51 g41 g31 g21 g1 g80

theorem packLE_sat (site : Site) : ∀ (l : List Nat) (index acc : Nat), index + l.length ≤ 8 →
    (packLE site l index acc).sat (fun _ => True) := by
  intro l
  induction l with
  | nil => intro index acc _; simp [packLE]
  | cons a t ih =>
    intro index acc h
    unfold packLE
    simp only [List.length_cons] at h
    refine sat_ite (fun hc => by omega) (fun _ => ?_)
    exact ih _ _ (by omega)

/-- `detect_varlen_offset` does not panic on slices of 2..8 bytes; an accepted
offset lies at least 2 bits behind the window field -/
theorem detectVarlenOffset_sat (bs : List Nat) (h2 : 2 ≤ bs.length) (h8 : bs.length ≤ 8) :
    (detectVarlenOffset bs).sat (fun r => ∀ v, r = some v →
      ∃ w o, parseWindowSize bs = ok (some (w, o)) ∧ PwOk w o ∧ o + 2 ≤ v) := by
  unfold detectVarlenOffset
  have hp := parseWindowSize_sat bs h2
  obtain ⟨pw, hpw, hpw2⟩ := sat_iff.mp hp
  rw [hpw]
  simp only [bind_ok]
  cases pw with
  | none => simp
  | some wo =>
    obtain ⟨w, o⟩ := wo
    have hok := hpw2 w o rfl
    dsimp only
    refine sat_bind _ (packLE_sat _ bs 0 0 (by omega)) ?_
    intro bytes0 _
    refine sat_ite (fun hc => ?_) (fun _ => ?_)
    · simp only [sat_ok]
      intro v hv
      refine ⟨w, o, rfl, hok, ?_⟩
      simp only [Option.some.injEq] at hv
      rw [if_pos hc.1] at hv
      omega
    refine sat_ite (fun _ => ?_) (fun _ => ?_)
    · refine sat_ite (fun _ => by simp) (fun _ => ?_)
      simp only [sat_ok]
      intro v hv
      refine ⟨w, o, rfl, hok, ?_⟩
      simp only [Option.some.injEq] at hv
      generalize decide (bytes0 >>> o &&& 1 ≠ 0) = c at hv
      cases c <;> simp at hv <;> omega
    · refine sat_ite (fun _ => by simp) (fun _ => ?_)
      simp only [sat_ok]
      intro v hv
      refine ⟨w, o, rfl, hok, ?_⟩
      simp only [Option.some.injEq] at hv
      generalize decide (bytes0 >>> o &&& 1 ≠ 0) = c at hv
      cases c <;> simp at hv <;> omega

end BV.Concat
