/-
C14, helpers for the simulation proof: `copyBytes` length, the dictionary size-bits table is ≤ 11, block-switch
bookkeeping emits only block switches, and the relation `OracleOK` between the recoder's dictionary callee and
the (word length, word id, transform) oracle of the spec side.
-/
import BV.Lemmas.RecoderDist
namespace BV.Recoder
open BV.PrefixArith

theorem copyBytes_length : ∀ (n dist : Nat) (out : Bytes), (copyBytes n dist out).length = out.length + n := by
  intro n
  induction n with
  | zero => intro dist out; simp [copyBytes]
  | succ n ih => intro dist out; rw [copyBytes, ih]; simp; omega

theorem dictSizeBits_le (cl : Nat) : dictSizeBits.getD cl 0 ≤ 11 := by
  by_cases h : cl < 25
  · have : cl = 0 ∨ cl = 1 ∨ cl = 2 ∨ cl = 3 ∨ cl = 4 ∨ cl = 5 ∨ cl = 6 ∨ cl = 7 ∨ cl = 8 ∨ cl = 9 ∨ cl = 10 ∨
        cl = 11 ∨ cl = 12 ∨ cl = 13 ∨ cl = 14 ∨ cl = 15 ∨ cl = 16 ∨ cl = 17 ∨ cl = 18 ∨ cl = 19 ∨ cl = 20 ∨
        cl = 21 ∨ cl = 22 ∨ cl = 23 ∨ cl = 24 := by omega
    rcases this with h | h | h | h | h | h | h | h | h | h | h | h | h | h | h | h | h | h | h | h | h | h | h | h | h <;>
      subst h <;> decide
  · have : dictSizeBits[cl]? = none := List.getElem?_eq_none (by simp [dictSizeBits]; omega)
    simp [List.getD, this]

theorem bumpBlock_spec (w : WordOracle) (window : Nat) (mb : Bytes) (sp : Split) (mk : Nat → IR)
    (hmk : ∀ t, Emits w window mb [mk t] []) (sub counter : Nat) (out : List IR) (sub' counter' : Nat) (out' : List IR)
    (h : bumpBlock sp mk sub counter out = some (sub', counter', out')) :
    ∃ xs, out' = out ++ xs ∧ Emits w window mb xs [] := by
  unfold bumpBlock at h
  by_cases h0 : sub = 0
  · rw [if_pos h0] at h; cases h
  · rw [if_neg h0] at h
    simp only at h
    by_cases h1 : sub - 1 = 0
    · rw [if_pos h1] at h
      by_cases h2 : sp.types.length > counter + 1
      · rw [if_pos h2] at h
        cases hl : sp.lengths[counter + 1]? with
        | none => rw [hl] at h; simp at h
        | some l =>
          cases ht : sp.types[counter + 1]? with
          | none => rw [hl, ht] at h; simp at h
          | some t =>
            rw [hl, ht] at h
            cases h
            exact ⟨[mk t], rfl, hmk t⟩
      · rw [if_neg h2] at h
        cases h
        exact ⟨[], by simp, Emits.nil w window mb⟩
    · rw [if_neg h1] at h
      cases h
      exact ⟨[], by simp, Emits.nil w window mb⟩

/-- relation between the recoder's dictionary callee (`TransformDictionaryWord` on the word found at
`dictionary_offset`) and the (word length, word id, transform) oracle of a consumer / of the RFC -/
structure OracleOK (expand : Nat → Nat → Option Bytes) (w : WordOracle) : Prop where
  agree : ∀ cl off, 4 ≤ cl → cl ≤ 24 →
    expand cl off = w cl (off % 2 ^ (dictSizeBits.getD cl 0)) (off / 2 ^ (dictSizeBits.getD cl 0))
  small : ∀ ws id tr word, w ws id tr = some word → tr < 256 ∧ word.length < 256

end BV.Recoder
