import BV.Lemmas.StreamContract
/-
Refinement of the contract automaton by the main loop of `compress_stream`.
-/
namespace BV.Stream
open BV.Bits

theorem push_pending_le {s s' : St} {io io' : Io} {b : Bool} (hst : s.streamState ≠ .flushRequested)
    (h : injectFlushOrPushOutput s io = .ok (s', io', b)) :
    s'.pending.length ≤ s.pending.length ∧ io'.availOut ≤ io.availOut := by
  unfold injectFlushOrPushOutput at h
  split at h
  · rename_i hc; exact absurd hc.1 hst
  · simp only at h
    split_all h
    all_goals first
      | (simp at h; done)
      | (simp only [Out.ok.injEq, Prod.mk.injEq] at h; obtain ⟨rfl, rfl, rfl⟩ := h; simp only [List.length_drop]; omega)
      | (simp only [Out.ok.injEq, Prod.mk.injEq] at h; obtain ⟨rfl, rfl, rfl⟩ := h; exact ⟨Nat.le_refl _, Nat.le_refl _⟩)

/-- in the FINISHED state with nothing offered, an iteration can only hand out pending bytes -/
theorem slowStep_pending_finished {o : Oracle} {op : Nat} {s s' : St} {io io' : Io} {c : Ctl}
    (hst : s.streamState = .finished) (hin : io.availIn = 0)
    (h : slowStep o op s io = .ok (s', io', c)) : s'.pending.length ≤ s.pending.length := by
  unfold slowStep at h
  simp only at h
  split at h
  · rename_i hc; exact absurd hin hc.2
  · split at h
    · simp at h
    · simp at h
    · rename_i s1 io1 hp
      simp only [Out.ok.injEq, Prod.mk.injEq] at h
      obtain ⟨rfl, rfl, rfl⟩ := h
      exact (push_pending_le (by rw [hst]; simp) hp).1
    · rename_i s1 io1 hp
      obtain ⟨e1, e2, _, _⟩ := push_false hp
      have e1' := e1.symm; have e2' := e2.symm
      subst e1' e2'
      split at h
      · rename_i hcond; rw [hst] at hcond; simp at hcond
      · simp only [Out.ok.injEq, Prod.mk.injEq] at h
        obtain ⟨rfl, rfl, rfl⟩ := h
        exact Nat.le_refl _

/-- stream state of an initialised state outside metadata, as the contract sees it -/
theorem absC_eq {s : St} (hI : Inv s) (hrm : s.remainingMetadata = u32Max) :
    absC s = (match s.streamState with
      | .flushRequested => CState.flushing
      | .finished => if s.pending.length ≠ 0 then CState.finishing else CState.finished
      | _ => CState.processing) := by
  have hmd := hI.mdIff
  rw [hrm] at hmd
  unfold absC
  rw [hI.init]
  simp only [Bool.true_eq_false, ↓reduceIte, hrm, ne_eq, not_true_eq_false]
  cases hs : s.streamState <;> simp_all

/-- the contract step at loop exit, from the facts both loops maintain -/
theorem exit_contract {op n : Nat} {s s1 : St} {io' : Io} (hop : op ≤ 2)
    (hI : Inv s) (hrm : s.remainingMetadata = u32Max)
    (hI1 : Inv s1) (hrm1 : s1.remainingMetadata = u32Max)
    (availLe : io'.availIn ≤ n) (hacc : s.streamState ≠ .processing → n = 0)
    (st : s1.streamState = s.streamState ∨ (s.streamState = .processing ∧ io'.availIn = 0 ∧
        ((op = 1 ∧ s1.streamState = .flushRequested) ∨ (op = 2 ∧ s1.streamState = .finished))))
    (hpend : s.streamState = .finished → s1.pending.length ≤ s.pending.length) :
    Contract.succ (absC s) op n (n - io'.availIn) (absC (checkFlushComplete s1)) := by
  have hI1' := inv_checkFlushComplete hI1
  obtain ⟨k1, k2, k3, k4, k5, k6, k7, k8, _⟩ := checkFlushComplete_frame s1
  have hrm1' : (checkFlushComplete s1).remainingMetadata = u32Max := k3.trans hrm1
  have hst1 := checkFlushComplete_state s1
  rw [absC_eq hI hrm, absC_eq hI1' hrm1', hst1, k8]
  rcases st with h1 | ⟨h1, h2, h3⟩
  · -- the stream state is the one at entry
    rw [h1]
    cases hs : s.streamState
    · -- processing
      simp only [reduceCtorEq, false_and, ↓reduceIte]
      unfold Contract.succ
      simp only
      have : op = 0 ∨ op = 1 ∨ op = 2 := by omega
      rcases this with rfl | rfl | rfl <;> simp
    · -- flushRequested
      have hz := hacc (by rw [hs]; simp)
      have hz' : io'.availIn = 0 := by omega
      unfold Contract.succ
      by_cases hp : s1.pending.length = 0
      · simp [hp, hz, hz']
      · simp [hp, hz, hz']
    · -- finished
      have hz := hacc (by rw [hs]; simp)
      have hz' : io'.availIn = 0 := by omega
      have hle := hpend hs
      unfold Contract.succ
      by_cases hp0 : s.pending.length = 0
      · have hp1 : s1.pending.length = 0 := by omega
        simp [hp0, hp1, hz, hz']
      · by_cases hp1 : s1.pending.length = 0
        · simp [hp0, hp1, hz, hz']
        · simp [hp0, hp1, hz, hz']
    · -- metadataHead: excluded
      have := hI.mdIff.mp (Or.inl hs); exact absurd hrm this
    · have := hI.mdIff.mp (Or.inr hs); exact absurd hrm this
  · -- processing at entry, flush / finish accepted in this call
    rw [h1]
    unfold Contract.succ
    simp only
    rcases h3 with ⟨rfl, h4⟩ | ⟨rfl, h4⟩
    · rw [h4]
      by_cases hp : s1.pending.length = 0
      · simp [hp]
      · simp [hp, h2]
    · rw [h4]
      by_cases hp : s1.pending.length = 0
      · simp [hp, h2]
      · simp [hp, h2]

/-- the main loop refines the contract (entered in a non-metadata state, after the entry
guard `stream_state_ != PROCESSING && available_in != 0 → false`) -/
theorem slow_refines {o : Oracle} {op fuel : Nat} {s s' : St} {io io' : Io} {r : Bool}
    (hop : op ≤ 2) (hI : Inv s) (hrm : s.remainingMetadata = u32Max)
    (hw : s.inputPos + io.availIn < two64)
    (hacc : s.streamState ≠ .processing → io.availIn = 0)
    (h : slowLoop o op fuel s io = .ok (s', io', r)) :
    r = true ∧ Inv s' ∧ s'.remainingMetadata = u32Max ∧ io'.availIn ≤ io.availIn
    ∧ (s.streamState = .finished → s'.streamState = .finished ∧ s'.pending.length ≤ s.pending.length)
    ∧ Contract.succ (absC s) op io.availIn (io.availIn - io'.availIn) (absC s') := by
  -- loop invariant, strengthened by "pending only shrinks once FINISHED at entry"
  let P : St → Io → Prop := fun t tio =>
    SlowInv op s.streamState io.availIn (s.inputPos + io.availIn) t tio ∧
    (s.streamState = .finished → t.pending.length ≤ s.pending.length)
  have hP0 : P s io := ⟨⟨hI, rfl, hw, hrm, Nat.le_refl _, hacc, Or.inl rfl⟩, fun _ => Nat.le_refl _⟩
  have hstep : ∀ t tio t' tio' c, P t tio → slowStep o op t tio = .ok (t', tio', c) → c ≠ .fail ∧ P t' tio' := by
    intro t tio t' tio' c hPt hs
    obtain ⟨c1, c2⟩ := slowInv_step hPt.1 hs
    refine ⟨c1, c2, ?_⟩
    intro hfin
    have htst : t.streamState = .finished := by
      rcases hPt.1.st with h1 | ⟨h1, _⟩
      · rw [h1]; exact hfin
      · rw [hfin] at h1; cases h1
    have htin : tio.availIn = 0 := hPt.1.nonproc (by rw [hfin]; simp)
    exact Nat.le_trans (slowStep_pending_finished htst htin hs) (hPt.2 hfin)
  obtain ⟨hr, s1, ⟨hS, hpend⟩, rfl⟩ := slowLoop_induct P hstep fuel s io s' io' r hP0 h
  have hI1 := inv_checkFlushComplete hS.inv
  obtain ⟨k1, k2, k3, k4, k5, k6, k7, k8, _⟩ := checkFlushComplete_frame s1
  have hst1 := checkFlushComplete_state s1
  refine ⟨hr, hI1, k3.trans hS.rm, hS.availLe, ?_, exit_contract hop hI hrm hS.inv hS.rm hS.availLe hacc hS.st hpend⟩
  intro hfin
  have h1 : s1.streamState = .finished := by
    rcases hS.st with h1 | ⟨h1, _⟩
    · rw [h1]; exact hfin
    · rw [hfin] at h1; cases h1
  refine ⟨?_, ?_⟩
  · rw [hst1, h1]; simp
  · rw [k8]; exact hpend hfin

end BV.Stream
