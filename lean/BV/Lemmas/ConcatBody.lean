/-
C03 / catable body, part 1: position independence of a member's meta-blocks, from the RFC 7932 meta-block
reader `BV.MetaBlock.readMetaBlockFull` (w-metablock's independent reader; imported, not edited).

A member is read ALONE from the empty history with a ring of last distances that holds a huge placeholder `p`
in every slot (`p > window + 3`, e.g. 0x7ffffff0) and with the EMPTY static dictionary `noDict`.  If that
read succeeds, then
  * every copy was an LZ77 copy with distance ≤ min(bytes of the member so far, window): the only other branch
    of `applyCopy` asks the word oracle, and `noDict` has no words;
  * no distance symbol 0..15 was resolved through a slot that still held the placeholder: the distance would
    be ≥ p − 3 > window, not an LZ77 copy.
Hence the same bits, read after ANY history `a`, with ANY ring (related slot by slot: equal, or placeholder on
the lone side), any dictionary and any window at least as large, decode to `a ++ b`.
-/
import BV.Lemmas.MetaBlockWmbi

namespace BV.CatBody
open BV.Gen BV.Bits BV.Huffman BV.PrefixArith BV.Recoder BV.MetaBlock BV.HeaderSpec

/-- the static dictionary without any word: every dictionary reference fails -/
def noDict : WordOracle := fun _ _ _ => none

/-- slot-by-slot relation between the ring of the member read alone (`ρ`, placeholders `p` where the member
has not set a distance yet) and the ring of the same member read inside a longer stream (`ρ'`) -/
structure RingRel (p : Int) (ρ ρ' : List Int) : Prop where
  len : ρ.length = 4
  len' : ρ'.length = 4
  ent : ∀ i, i < 4 → ρ[i]? = ρ'[i]? ∨ ρ[i]? = some p

theorem RingRel.refl (p : Int) (ρ : List Int) (h : ρ.length = 4) : RingRel p ρ ρ :=
  ⟨h, h, fun _ _ => Or.inl rfl⟩

/-- every ring is related to the all-placeholder ring -/
theorem RingRel.placeholder (p : Int) (ρ' : List Int) (h : ρ'.length = 4) : RingRel p [p, p, p, p] ρ' := by
  refine ⟨rfl, h, fun i hi => Or.inr ?_⟩
  match i, hi with
  | 0, _ => rfl
  | 1, _ => rfl
  | 2, _ => rfl
  | 3, _ => rfl

theorem RingRel.push {p : Int} {ρ ρ' : List Int} (h : RingRel p ρ ρ') (d : Int) :
    RingRel p (d :: ρ.take 3) (d :: ρ'.take 3) := by
  obtain ⟨h1, h2, h3⟩ := h
  match ρ, ρ', h1, h2 with
  | [a0, a1, a2, a3], [b0, b1, b2, b3], _, _ =>
    refine ⟨rfl, rfl, fun i hi => ?_⟩
    match i, hi with
    | 0, _ => exact Or.inl rfl
    | 1, _ => exact h3 0 (by omega)
    | 2, _ => exact h3 1 (by omega)
    | 3, _ => exact h3 2 (by omega)

/-- a slot read on both sides: same value, or the lone side read the placeholder -/
theorem RingRel.get {p : Int} {ρ ρ' : List Int} (h : RingRel p ρ ρ') (i : Nat) (hi : i < 4) (v : Int)
    (hv : ρ[i]? = some v) : ρ'[i]? = some v ∨ v = p := by
  rcases h.ent i hi with e | e
  · left; rw [← e, hv]
  · right; rw [hv] at e; exact (Option.some.inj e)

/-- the distance a symbol denotes: the same on both sides, or at least `p − 3` on the lone side -/
theorem rfcDistance_sim {p : Int} {ρ ρ' : List Int} (h : RingRel p ρ ρ') (np nd ds extra : Nat) (d : Int)
    (upd : Bool) (hd : rfcDistance np nd ρ ds extra = some (d, upd)) :
    rfcDistance np nd ρ' ds extra = some (d, upd) ∨ p - 3 ≤ d := by
  have key : ∀ (i : Nat) (f : Int → Int × Bool), i < 4 → (p - 3 ≤ (f p).1) →
      (ρ[i]?).map f = some (d, upd) → (ρ'[i]?).map f = some (d, upd) ∨ p - 3 ≤ d := by
    intro i f hi hf hm
    cases hv : ρ[i]? with
    | none => rw [hv] at hm; exact absurd hm (by simp)
    | some v =>
      rw [hv] at hm
      rcases h.get i hi v hv with e | e
      · left; rw [e]; exact hm
      · right
        subst e
        have := hf
        simp only [Option.map_some, Option.some.injEq] at hm
        rw [hm] at this; exact this
  unfold rfcDistance at hd ⊢
  match ds with
  | 0 => exact key 0 _ (by omega) (by show p - 3 ≤ p; omega) hd
  | 1 => exact key 1 _ (by omega) (by show p - 3 ≤ p; omega) hd
  | 2 => exact key 2 _ (by omega) (by show p - 3 ≤ p; omega) hd
  | 3 => exact key 3 _ (by omega) (by show p - 3 ≤ p; omega) hd
  | 4 => exact key 0 _ (by omega) (by show p - 3 ≤ p - 1; omega) hd
  | 5 => exact key 0 _ (by omega) (by show p - 3 ≤ p + 1; omega) hd
  | 6 => exact key 0 _ (by omega) (by show p - 3 ≤ p - 2; omega) hd
  | 7 => exact key 0 _ (by omega) (by show p - 3 ≤ p + 2; omega) hd
  | 8 => exact key 0 _ (by omega) (by show p - 3 ≤ p - 3; omega) hd
  | 9 => exact key 0 _ (by omega) (by show p - 3 ≤ p + 3; omega) hd
  | 10 => exact key 1 _ (by omega) (by show p - 3 ≤ p - 1; omega) hd
  | 11 => exact key 1 _ (by omega) (by show p - 3 ≤ p + 1; omega) hd
  | 12 => exact key 1 _ (by omega) (by show p - 3 ≤ p - 2; omega) hd
  | 13 => exact key 1 _ (by omega) (by show p - 3 ≤ p + 2; omega) hd
  | 14 => exact key 1 _ (by omega) (by show p - 3 ≤ p - 3; omega) hd
  | 15 => exact key 1 _ (by omega) (by show p - 3 ≤ p + 3; omega) hd
  | n + 16 => left; exact hd

/-- an LZ77 copy whose distance stays inside `o` does not see what is in front of `o` -/
theorem copyBytes_append (a : Bytes) : ∀ (n d : Nat) (o : Bytes), 1 ≤ d → d ≤ o.length →
    copyBytes n d (a ++ o) = a ++ copyBytes n d o
  | 0, _, _, _, _ => rfl
  | n + 1, d, o, h1, h2 => by
    show copyBytes n d ((a ++ o) ++ [(a ++ o).getD ((a ++ o).length - d) 0])
      = a ++ copyBytes n d (o ++ [o.getD (o.length - d) 0])
    have e : (a ++ o).getD ((a ++ o).length - d) 0 = o.getD (o.length - d) 0 := by
      rw [List.getD_eq_getElem?_getD, List.getD_eq_getElem?_getD, List.length_append,
        List.getElem?_append_right (by omega)]
      congr 2; omega
    rw [e, List.append_assoc]
    exact copyBytes_append a n d _ h1 (by rw [List.length_append]; omega)

/-- **one copy**: if the copy succeeds for the member alone (no dictionary, placeholders above the window),
it does the same after any history `a`, with any related ring, any dictionary, any window at least as large -/
theorem applyCopy_sim {p : Int} {ρ ρ' : List Int} (h : RingRel p ρ ρ') (wo' : WordOracle) (window window' : Nat)
    (hw : window ≤ window') (hp : (window : Int) + 3 < p) (a : Bytes) (np nd mlen done cl : Nat) (o : Bytes)
    (ds extra n : Nat) (s1 : RdSt)
    (hc : applyCopy noDict window np nd mlen done cl o ρ ds extra = some (n, s1)) :
    ∃ ρ1', applyCopy wo' window' np nd mlen done cl (a ++ o) ρ' ds extra = some (n, ⟨a ++ s1.out, ρ1'⟩) ∧
      RingRel p s1.ring ρ1' := by
  unfold applyCopy at hc
  cases hd : rfcDistance np nd ρ ds extra with
  | none => rw [hd] at hc; exact absurd hc (by simp)
  | some du =>
    obtain ⟨d, upd⟩ := du
    rw [hd] at hc
    dsimp only at hc
    by_cases d0 : d ≤ 0
    · rw [if_pos d0] at hc; exact absurd hc (by simp)
    rw [if_neg d0] at hc
    by_cases hlz : d.toNat ≤ min o.length window
    · rw [if_pos hlz] at hc
      by_cases hm : done + cl > mlen
      · rw [if_pos hm] at hc; exact absurd hc (by simp)
      rw [if_neg hm] at hc
      have hdw : d < p - 3 := by
        have : d.toNat ≤ window := Nat.le_trans hlz (Nat.min_le_right _ _)
        omega
      rcases rfcDistance_sim h np nd ds extra d upd hd with e | e
      · simp only [Option.some.injEq, Prod.mk.injEq] at hc
        obtain ⟨hn, hs⟩ := hc
        subst hs
        refine ⟨if upd then d :: ρ'.take 3 else ρ', ?_, ?_⟩
        · unfold applyCopy
          rw [e]
          dsimp only
          have hlz' : d.toNat ≤ min (a ++ o).length window' := by
            rw [List.length_append]
            have : d.toNat ≤ o.length := Nat.le_trans hlz (Nat.min_le_left _ _)
            have : d.toNat ≤ window := Nat.le_trans hlz (Nat.min_le_right _ _)
            exact Nat.le_min.mpr ⟨by omega, by omega⟩
          rw [if_neg d0, if_pos hlz', if_neg hm, hn]
          rw [copyBytes_append a n d.toNat o (by omega) (Nat.le_trans hlz (Nat.min_le_left _ _))]
        · show RingRel p (if upd then d :: ρ.take 3 else ρ) _
          cases upd
          · exact h
          · exact h.push d
      · omega
    · rw [if_neg hlz] at hc
      by_cases hcl : cl < 4 ∨ cl > 24
      · rw [if_pos hcl] at hc; exact absurd hc (by simp)
      · rw [if_neg hcl] at hc; exact absurd hc (by simp [noDict])

/-- the copy half of a command -/
theorem readCopy_sim {p : Int} {ρ ρ' : List Int} (h : RingRel p ρ ρ') (wo' : WordOracle) (window window' : Nat)
    (hw : window ≤ window') (hp : (window : Int) + 3 < p) (a : Bytes) (np nd : Nat) (dist : Code)
    (mlen done : Nat) (imp : Bool) (cl : Nat) (o : Bytes) (bs : List Bool) (n : Nat) (s1 : RdSt) (r : List Bool)
    (hc : readCopy noDict window np nd dist mlen done imp cl o ρ bs = some (n, s1, r)) :
    ∃ ρ1', readCopy wo' window' np nd dist mlen done imp cl (a ++ o) ρ' bs = some (n, ⟨a ++ s1.out, ρ1'⟩, r) ∧
      RingRel p s1.ring ρ1' := by
  unfold readCopy at hc ⊢
  cases h1 : (if imp then some (0, bs) else dist.read bs) with
  | none => rw [h1] at hc; exact absurd hc (by simp)
  | some x =>
    obtain ⟨ds, b1⟩ := x
    rw [h1] at hc
    dsimp only at hc ⊢
    cases h2 : takeBits (if ds < 16 + nd then 0 else rfcDistNBits np nd ds) b1 with
    | none => rw [h2] at hc; exact absurd hc (by simp)
    | some y =>
      obtain ⟨extra, b2⟩ := y
      rw [h2] at hc
      dsimp only at hc ⊢
      cases h3 : applyCopy noDict window np nd mlen done cl o ρ ds extra with
      | none => rw [h3] at hc; exact absurd hc (by simp)
      | some z =>
        obtain ⟨n2, s2⟩ := z
        rw [h3] at hc
        simp only [Option.some.injEq, Prod.mk.injEq] at hc
        obtain ⟨e1, e2, e3⟩ := hc
        subst e1 e2 e3
        obtain ⟨ρ1', g1, g2⟩ := applyCopy_sim h wo' window window' hw hp a np nd mlen done cl o ds extra _ _ h3
        exact ⟨ρ1', by rw [g1], g2⟩

/-- the insert half of a command appends its literals to whatever is in front -/
theorem readInsert_sim (a : Bytes) (lit cmd : Code) (mlen done : Nat) (o : Bytes) (bs : List Bool)
    (ins cl : Nat) (imp : Bool) (o1 : Bytes) (r : List Bool)
    (hc : readInsert lit cmd mlen done o bs = some (ins, cl, imp, o1, r)) :
    readInsert lit cmd mlen done (a ++ o) bs = some (ins, cl, imp, a ++ o1, r) := by
  unfold readInsert at hc ⊢
  cases h1 : cmd.read bs with
  | none => rw [h1] at hc; exact absurd hc (by simp)
  | some x =>
    obtain ⟨sym, b1⟩ := x
    rw [h1] at hc
    dsimp only at hc ⊢
    by_cases hs : sym ≥ 704
    · rw [if_pos hs] at hc; exact absurd hc (by simp)
    rw [if_neg hs] at hc ⊢
    cases h2 : rfcInsTable[(rfcCmdDecode sym).1]? with
    | none => rw [h2] at hc; exact absurd hc (by simp)
    | some ibe =>
      cases h3 : rfcCopyTable[(rfcCmdDecode sym).2.1]? with
      | none => rw [h2, h3] at hc; exact absurd hc (by simp)
      | some cbe =>
        obtain ⟨ib, ie⟩ := ibe
        obtain ⟨cb, ce⟩ := cbe
        rw [h2, h3] at hc
        dsimp only at hc ⊢
        cases h4 : takeBits ie b1 with
        | none => rw [h4] at hc; exact absurd hc (by simp)
        | some y =>
          obtain ⟨e1, b2⟩ := y
          rw [h4] at hc
          dsimp only at hc ⊢
          cases h5 : takeBits ce b2 with
          | none => rw [h5] at hc; exact absurd hc (by simp)
          | some z =>
            obtain ⟨e2, b3⟩ := z
            rw [h5] at hc
            dsimp only at hc ⊢
            by_cases hm : ib + e1 > mlen - done
            · rw [if_pos hm] at hc; exact absurd hc (by simp)
            rw [if_neg hm] at hc ⊢
            cases h6 : readLiterals lit (ib + e1) [] b3 with
            | none => rw [h6] at hc; exact absurd hc (by simp)
            | some u =>
              obtain ⟨lits, b4⟩ := u
              rw [h6] at hc
              simp only [Option.some.injEq, Prod.mk.injEq] at hc ⊢
              obtain ⟨g1, g2, g3, g4, g5⟩ := hc
              subst g4
              exact ⟨g1, g2, g3, List.append_assoc _ _ _, g5⟩

/-- the command loop -/
theorem readCommands_sim (wo' : WordOracle) (window window' : Nat) (hw : window ≤ window') (p : Int)
    (hp : (window : Int) + 3 < p) (a : Bytes) (np nd : Nat) (lit cmd dist : Code) (mlen : Nat) :
    ∀ (f done : Nat) (o : Bytes) (ρ ρ' : List Int) (bs : List Bool) (s1 : RdSt) (r : List Bool),
      RingRel p ρ ρ' →
      readCommands noDict window np nd lit cmd dist mlen f done ⟨o, ρ⟩ bs = some (s1, r) →
      ∃ ρ1', readCommands wo' window' np nd lit cmd dist mlen f done ⟨a ++ o, ρ'⟩ bs
          = some (⟨a ++ s1.out, ρ1'⟩, r) ∧ RingRel p s1.ring ρ1'
  | 0, _, _, _, _, _, _, _, _, hc => by simp [readCommands] at hc
  | f + 1, done, o, ρ, ρ', bs, s1, r, h, hc => by
    unfold readCommands at hc ⊢
    by_cases hd : done = mlen
    · rw [if_pos hd] at hc ⊢
      simp only [Option.some.injEq, Prod.mk.injEq] at hc
      obtain ⟨e1, e2⟩ := hc
      subst e1 e2
      exact ⟨ρ', rfl, h⟩
    rw [if_neg hd] at hc ⊢
    dsimp only at hc ⊢
    cases h1 : readInsert lit cmd mlen done o bs with
    | none => rw [h1] at hc; exact absurd hc (by simp)
    | some x =>
      obtain ⟨ins, cl, imp, o1, b1⟩ := x
      rw [h1] at hc
      rw [readInsert_sim a lit cmd mlen done o bs ins cl imp o1 b1 h1]
      dsimp only at hc ⊢
      by_cases hi : done + ins = mlen
      · rw [if_pos hi] at hc ⊢
        simp only [Option.some.injEq, Prod.mk.injEq] at hc
        obtain ⟨e1, e2⟩ := hc
        subst e1 e2
        exact ⟨ρ', rfl, h⟩
      rw [if_neg hi] at hc ⊢
      cases h2 : readCopy noDict window np nd dist mlen (done + ins) imp cl o1 ρ b1 with
      | none => rw [h2] at hc; exact absurd hc (by simp)
      | some y =>
        obtain ⟨n, s2, b2⟩ := y
        rw [h2] at hc
        dsimp only at hc
        obtain ⟨ρ2', g1, g2⟩ := readCopy_sim h wo' window window' hw hp a np nd dist mlen (done + ins) imp cl o1
          b1 n s2 b2 h2
        rw [g1]
        dsimp only
        exact readCommands_sim wo' window window' hw p hp a np nd lit cmd dist mlen f (done + ins + n) s2.out
          s2.ring ρ2' b2 s1 r g2 hc

-- one `match … with | none => none | some … =>` level of a reader, on the lone run `hc` and on the goal
set_option hygiene false in
local macro "mstep" : tactic =>
  `(tactic| (split at hc; (· exact absurd hc (by simp)); rename_i heq; try simp only [heq]))
-- one `if … then none else` level
set_option hygiene false in
local macro "istep" : tactic =>
  `(tactic| (split at hc; (· exact absurd hc (by simp)); rename_i heq; rw [if_neg heq]))

/-- the body of a compressed meta-block (everything behind its header) -/
theorem readCompressedBody_sim (wo' : WordOracle) (window window' : Nat) (hw : window ≤ window') (p : Int)
    (hp : (window : Int) + 3 < p) (a : Bytes) (large : Bool) (mlen : Nat) (o : Bytes) (ρ ρ' : List Int)
    (bs : List Bool) (s1 : RdSt) (r : List Bool) (h : RingRel p ρ ρ')
    (hc : readCompressedBody noDict window large mlen ⟨o, ρ⟩ bs = some (s1, r)) :
    ∃ ρ1', readCompressedBody wo' window' large mlen ⟨a ++ o, ρ'⟩ bs = some (⟨a ++ s1.out, ρ1'⟩, r) ∧
      RingRel p s1.ring ρ1' := by
  unfold readCompressedBody at hc ⊢
  mstep; istep
  mstep; istep; mstep; istep; mstep; mstep
  dsimp only at hc ⊢
  mstep; mstep; istep; mstep; istep; mstep; mstep; mstep
  exact readCommands_sim wo' window window' hw p hp a _ _ _ _ _ mlen _ _ o ρ ρ' _ s1 r h hc

/-- **one meta-block of any kind**: read alone (no dictionary, placeholders above the window) from `⟨o, ρ⟩` to
`s1`; then after any history `a`, with any related ring, any dictionary and any window at least as large, the
same bits at the same position read to `⟨a ++ s1.out, _⟩`, same ISLAST, same end position, same rest -/
theorem readMetaBlockFull_sim (wo' : WordOracle) (window window' : Nat) (hw : window ≤ window') (p : Int)
    (hp : (window : Int) + 3 < p) (a : Bytes) (large : Bool) (pos : Nat) (o : Bytes) (ρ ρ' : List Int)
    (bs : List Bool) (s1 : RdSt) (il : Bool) (pos' : Nat) (r : List Bool) (h : RingRel p ρ ρ')
    (hc : readMetaBlockFull noDict window large pos ⟨o, ρ⟩ bs = some (s1, il, pos', r)) :
    ∃ ρ1', readMetaBlockFull wo' window' large pos ⟨a ++ o, ρ'⟩ bs = some (⟨a ++ s1.out, ρ1'⟩, il, pos', r) ∧
      RingRel p s1.ring ρ1' := by
  unfold readMetaBlockFull at hc ⊢
  cases h1 : HeaderSpec.readMetaBlock pos bs with
  | none => rw [h1] at hc; exact absurd hc (by simp)
  | some x =>
    obtain ⟨mb, q, r1⟩ := x
    rw [h1] at hc
    cases mb with
    | lastEmpty =>
      simp only [Option.some.injEq, Prod.mk.injEq] at hc ⊢
      obtain ⟨e1, e2, e3, e4⟩ := hc
      subst e1
      exact ⟨ρ', ⟨rfl, e2, e3, e4⟩, h⟩
    | metadata sk =>
      simp only [Option.some.injEq, Prod.mk.injEq] at hc ⊢
      obtain ⟨e1, e2, e3, e4⟩ := hc
      subst e1
      exact ⟨ρ', ⟨rfl, e2, e3, e4⟩, h⟩
    | raw payload =>
      simp only [Option.some.injEq, Prod.mk.injEq] at hc ⊢
      obtain ⟨e1, e2, e3, e4⟩ := hc
      subst e1
      exact ⟨ρ', ⟨by rw [List.append_assoc], e2, e3, e4⟩, h⟩
    | compressed mlen isLast =>
      dsimp only at hc ⊢
      cases h2 : readCompressedBody noDict window large mlen ⟨o, ρ⟩ r1 with
      | none => rw [h2] at hc; exact absurd hc (by simp)
      | some y =>
        obtain ⟨s2, r2⟩ := y
        rw [h2] at hc
        obtain ⟨ρ2', g1, g2⟩ := readCompressedBody_sim wo' window window' hw p hp a large mlen o ρ ρ' r1 s2 r2 h h2
        rw [g1]
        dsimp only at hc ⊢
        cases isLast with
        | false =>
          simp only [Bool.false_eq_true, if_false, Option.some.injEq, Prod.mk.injEq] at hc ⊢
          obtain ⟨e1, e2, e3, e4⟩ := hc
          subst e1
          exact ⟨ρ2', ⟨rfl, e2, e3, e4⟩, g2⟩
        | true =>
          simp only [if_true] at hc ⊢
          cases h3 : HeaderSpec.skipPad (q + (r1.length - r2.length)) r2 with
          | none => rw [h3] at hc; exact absurd hc (by simp)
          | some r3 =>
            rw [h3] at hc
            simp only [Option.some.injEq, Prod.mk.injEq] at hc ⊢
            obtain ⟨e1, e2, e3, e4⟩ := hc
            subst e1
            exact ⟨ρ2', ⟨rfl, e2, e3, e4⟩, g2⟩

end BV.CatBody
