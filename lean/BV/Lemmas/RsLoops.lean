/-
Facts about the loop combinators of the Rust-to-Lean translator (BV/Model/RsPrelude.lean): one-step
unfoldings, the `for` loops as folds over `List.range'`, fuel irrelevance of `while` loops that stop,
and agreement of the three `for` variants / two `while` variants on bodies that do not use the extra
outcomes.
-/
import BV.Model.RsPrelude

namespace BV.Rs

variable {σ ρ : Type}

/-! ## `for` -/

@[simp] theorem forRangeAux_zero (f : Nat → σ → σ) (i : Nat) (s : σ) : forRangeAux f 0 i s = s := rfl
@[simp] theorem forRangeAux_succ (f : Nat → σ → σ) (n i : Nat) (s : σ) :
    forRangeAux f (n + 1) i s = forRangeAux f n (i + 1) (f i s) := rfl

theorem forRangeAux_eq_foldl (f : Nat → σ → σ) (n i : Nat) (s : σ) :
    forRangeAux f n i s = (List.range' i n).foldl (fun s i => f i s) s := by
  induction n generalizing i s with
  | zero => rfl
  | succ n ih => simp [List.range'_succ, ih]

/-- `for i in lo..hi` is a left fold over the indices -/
theorem forRange_eq_foldl (lo hi : Nat) (s : σ) (f : Nat → σ → σ) :
    forRange lo hi s f = (List.range' lo (hi - lo)).foldl (fun s i => f i s) s :=
  forRangeAux_eq_foldl f _ _ _

theorem forRange_empty (lo hi : Nat) (h : hi ≤ lo) (s : σ) (f : Nat → σ → σ) : forRange lo hi s f = s := by
  unfold forRange
  rw [Nat.sub_eq_zero_of_le h]
  rfl

/-- peel the first iteration -/
theorem forRange_step (lo hi : Nat) (h : lo < hi) (s : σ) (f : Nat → σ → σ) :
    forRange lo hi s f = forRange (lo + 1) hi (f lo s) f := by
  unfold forRange
  obtain ⟨k, hk⟩ : ∃ k, hi - lo = k + 1 := ⟨hi - lo - 1, by omega⟩
  have : hi - (lo + 1) = k := by omega
  rw [hk, this]
  rfl

/-- peel the last iteration -/
theorem forRange_last (lo hi : Nat) (h : lo ≤ hi) (s : σ) (f : Nat → σ → σ) :
    forRange lo (hi + 1) s f = f hi (forRange lo hi s f) := by
  rw [forRange_eq_foldl, forRange_eq_foldl]
  have e : hi + 1 - lo = (hi - lo) + 1 := by omega
  rw [e, List.range'_concat, List.foldl_append]
  simp only [List.foldl_cons, List.foldl_nil, Nat.mul_one]
  congr 1
  omega

/-- an invariant carried through a `for` loop -/
theorem forRange_invariant (P : Nat → σ → Prop) (lo hi : Nat) (h : lo ≤ hi) (s : σ) (f : Nat → σ → σ)
    (h0 : P lo s) (hstep : ∀ i s, lo ≤ i → i < hi → P i s → P (i + 1) (f i s)) :
    P hi (forRange lo hi s f) := by
  obtain ⟨k, rfl⟩ : ∃ k, hi = lo + k := ⟨hi - lo, by omega⟩
  induction k with
  | zero => rw [forRange_empty _ _ (by omega)]; exact h0
  | succ k ih =>
    rw [show lo + (k + 1) = (lo + k) + 1 from rfl, forRange_last _ _ (by omega)]
    exact hstep _ _ (by omega) (by omega) (ih (by omega) (fun i s h1 h2 => hstep i s h1 (by omega)))

@[simp] theorem forRangeCAux_zero (f : Nat → σ → Ctl σ Empty) (i : Nat) (s : σ) : forRangeCAux f 0 i s = s := rfl
theorem forRangeCAux_succ (f : Nat → σ → Ctl σ Empty) (n i : Nat) (s : σ) :
    forRangeCAux f (n + 1) i s =
      match f i s with
      | .next s' => forRangeCAux f n (i + 1) s'
      | .brk s' => s'
      | .ret e => nomatch e := rfl

@[simp] theorem forRangeRAux_zero (f : Nat → σ → Ctl σ ρ) (i : Nat) (s : σ) : forRangeRAux f 0 i s = .done s := rfl
theorem forRangeRAux_succ (f : Nat → σ → Ctl σ ρ) (n i : Nat) (s : σ) :
    forRangeRAux f (n + 1) i s =
      match f i s with
      | .next s' => forRangeRAux f n (i + 1) s'
      | .brk s' => .done s'
      | .ret r => .ret r := rfl

theorem forRangeC_step (lo hi : Nat) (h : lo < hi) (s : σ) (f : Nat → σ → Ctl σ Empty) :
    forRangeC lo hi s f =
      match f lo s with
      | .next s' => forRangeC (lo + 1) hi s' f
      | .brk s' => s'
      | .ret e => nomatch e := by
  unfold forRangeC
  obtain ⟨k, hk⟩ : ∃ k, hi - lo = k + 1 := ⟨hi - lo - 1, by omega⟩
  have : hi - (lo + 1) = k := by omega
  rw [hk, this, forRangeCAux_succ]

theorem forRangeC_empty (lo hi : Nat) (h : hi ≤ lo) (s : σ) (f : Nat → σ → Ctl σ Empty) :
    forRangeC lo hi s f = s := by
  unfold forRangeC
  rw [Nat.sub_eq_zero_of_le h]
  rfl

theorem forRangeR_step (lo hi : Nat) (h : lo < hi) (s : σ) (f : Nat → σ → Ctl σ ρ) :
    forRangeR lo hi s f =
      match f lo s with
      | .next s' => forRangeR (lo + 1) hi s' f
      | .brk s' => .done s'
      | .ret r => .ret r := by
  unfold forRangeR
  obtain ⟨k, hk⟩ : ∃ k, hi - lo = k + 1 := ⟨hi - lo - 1, by omega⟩
  have : hi - (lo + 1) = k := by omega
  rw [hk, this, forRangeRAux_succ]

theorem forRangeR_empty (lo hi : Nat) (h : hi ≤ lo) (s : σ) (f : Nat → σ → Ctl σ ρ) :
    forRangeR lo hi s f = .done s := by
  unfold forRangeR
  rw [Nat.sub_eq_zero_of_le h]
  rfl

/-! ## `while` / `loop` -/

@[simp] theorem whileLoop_zero (s : σ) (f : σ → Ctl σ Empty) : whileLoop 0 s f = s := rfl
theorem whileLoop_succ (n : Nat) (s : σ) (f : σ → Ctl σ Empty) :
    whileLoop (n + 1) s f =
      match f s with
      | .next s' => whileLoop n s' f
      | .brk s' => s'
      | .ret e => nomatch e := rfl

@[simp] theorem whileLoopR_zero (s : σ) (f : σ → Ctl σ ρ) : whileLoopR 0 s f = .done s := rfl
theorem whileLoopR_succ (n : Nat) (s : σ) (f : σ → Ctl σ ρ) :
    whileLoopR (n + 1) s f =
      match f s with
      | .next s' => whileLoopR n s' f
      | .brk s' => .done s'
      | .ret r => .ret r := rfl

/-- unfolding with positive fuel, in the form `rw` likes -/
theorem whileLoop_pos (n : Nat) (h : 0 < n) (s : σ) (f : σ → Ctl σ Empty) :
    whileLoop n s f =
      match f s with
      | .next s' => whileLoop (n - 1) s' f
      | .brk s' => s'
      | .ret e => nomatch e := by
  obtain ⟨k, rfl⟩ : ∃ k, n = k + 1 := ⟨n - 1, by omega⟩
  rfl

theorem whileLoopR_pos (n : Nat) (h : 0 < n) (s : σ) (f : σ → Ctl σ ρ) :
    whileLoopR n s f =
      match f s with
      | .next s' => whileLoopR (n - 1) s' f
      | .brk s' => .done s'
      | .ret r => .ret r := by
  obtain ⟨k, rfl⟩ : ∃ k, n = k + 1 := ⟨n - 1, by omega⟩
  rfl

/-- "the loop started in `s` stops within `n` iterations" -/
def whileStops (f : σ → Ctl σ ρ) : Nat → σ → Bool
  | 0, _ => false
  | n + 1, s =>
    match f s with
    | .next s' => whileStops f n s'
    | .brk _ => true
    | .ret _ => true

/-- fuel is irrelevant once the loop stops: a measure that decreases at every `next` bounds the iterations -/
theorem whileLoopR_fuel (f : σ → Ctl σ ρ) (n m : Nat) (s : σ) (h : whileStops f n s = true) (hm : n ≤ m) :
    whileLoopR m s f = whileLoopR n s f := by
  induction n generalizing m s with
  | zero => simp [whileStops] at h
  | succ n ih =>
    obtain ⟨k, rfl⟩ : ∃ k, m = k + 1 := ⟨m - 1, by omega⟩
    rw [whileLoopR_succ, whileLoopR_succ]
    unfold whileStops at h
    cases hf : f s with
    | next s' => simp only [hf] at h ⊢; exact ih k s' h (by omega)
    | brk s' => rfl
    | ret r => rfl

theorem whileLoop_fuel (f : σ → Ctl σ Empty) (n m : Nat) (s : σ) (h : whileStops f n s = true) (hm : n ≤ m) :
    whileLoop m s f = whileLoop n s f := by
  induction n generalizing m s with
  | zero => simp [whileStops] at h
  | succ n ih =>
    obtain ⟨k, rfl⟩ : ∃ k, m = k + 1 := ⟨m - 1, by omega⟩
    rw [whileLoop_succ, whileLoop_succ]
    unfold whileStops at h
    cases hf : f s with
    | next s' => simp only [hf] at h ⊢; exact ih k s' h (by omega)
    | brk s' => rfl
    | ret r => exact nomatch r

/-- a `while` loop with a decreasing measure stops within `measure s` (+1) iterations -/
theorem whileStops_of_measure (f : σ → Ctl σ ρ) (μ : σ → Nat)
    (hdec : ∀ s s', f s = .next s' → μ s' < μ s) (s : σ) : whileStops f (μ s + 1) s = true := by
  generalize hn : μ s = n
  induction n using Nat.strongRecOn generalizing s with
  | _ n ih =>
    unfold whileStops
    cases hf : f s with
    | next s' =>
      simp only
      have hlt := hdec s s' hf
      have := ih (μ s') (by omega) s' rfl
      obtain ⟨k, hk⟩ : ∃ k, n = k + 1 := ⟨n - 1, by omega⟩
      subst hk
      have hle : μ s' + 1 ≤ k + 1 := by omega
      -- more fuel keeps `whileStops` true
      have mono : ∀ a b (t : σ), whileStops f a t = true → a ≤ b → whileStops f b t = true := by
        intro a
        induction a with
        | zero => intro b t h; simp [whileStops] at h
        | succ a iha =>
          intro b t h hab
          obtain ⟨b', rfl⟩ : ∃ b', b = b' + 1 := ⟨b - 1, by omega⟩
          unfold whileStops at h ⊢
          cases hft : f t with
          | next t' => simp only [hft] at h ⊢; exact iha b' t' h (by omega)
          | brk _ => rfl
          | ret _ => rfl
      exact mono _ _ _ this hle
    | brk _ => rfl
    | ret _ => rfl

end BV.Rs
