import BV.Lemmas.StreamBasic
/-
What `encode_data` does to the positions, the last-block latch and its return value.
-/
namespace BV.Stream
open BV.Bits

/-- the parts of `encodeData` after its two `return false`, as one equation -/
theorem encodeData_ok_cases {o : Oracle} {s s' : St} {site : Nat} {il ff res : Bool} {req : Req}
    (h : encodeData o s site il ff = .ok (s', res, req)) :
    (s.isLastBlockEmitted = true ∧ res = false ∧ s' = encFail s (o s.nEnc (reqOf s site il ff)) false) ∨
    (s.isLastBlockEmitted = false ∧ s.unprocessed > s.blockSize ∧ res = false ∧ s' = encFail s (o s.nEnc (reqOf s site il ff)) il) ∨
    (s.isLastBlockEmitted = false ∧ ¬ s.unprocessed > s.blockSize ∧
      ∃ s2 w hdr,
        encPrelude (encMagic (growStorage (encStart s il) (wantStorage s)) (bitsOf s.lastBytesBits s.lastBytes)).1
            (encMagic (growStorage (encStart s il) (wantStorage s)) (bitsOf s.lastBytesBits s.lastBytes)).2.1
            (encMagic (growStorage (encStart s il) (wantStorage s)) (bitsOf s.lastBytesBits s.lastBytes)).2.2
            (s.unprocessed % two32) = .ok (s2, w, hdr) ∧
        encPayload s2 (o s.nEnc (reqOf s site il ff)) (bitsOf s.lastBytesBits s.lastBytes) w hdr il ff = .ok (s', res)) := by
  unfold encodeData at h
  split at h
  · rename_i h1
    simp only [Out.ok.injEq, Prod.mk.injEq] at h; obtain ⟨rfl, rfl, rfl⟩ := h
    exact Or.inl ⟨h1, rfl, rfl⟩
  · rename_i h1
    have h1' : s.isLastBlockEmitted = false := by simpa using h1
    split at h
    · rename_i h2
      simp only [Out.ok.injEq, Prod.mk.injEq] at h; obtain ⟨rfl, rfl, rfl⟩ := h
      exact Or.inr (Or.inl ⟨h1', h2, rfl, rfl⟩)
    · rename_i h2
      split at h
      · simp at h
      · split at h
        · simp at h
        · simp at h
        · rename_i s2 w hdr hpre
          split at h
          · simp at h
          · simp at h
          · rename_i s3 r3 hpay
            simp only [Out.ok.injEq, Prod.mk.injEq] at h
            obtain ⟨rfl, rfl, rfl⟩ := h
            exact Or.inr (Or.inr ⟨h1', h2, s2, w, hdr, hpre, hpay⟩)

theorem encFail_fields (s : St) (a : Ans) (l : Bool) :
    (encFail s a l).frame = s.frame ∧ (encFail s a l).lastFlushPos = s.lastFlushPos
    ∧ (encFail s a l).lastProcessedPos = s.lastProcessedPos ∧ (encFail s a l).pending = s.pending
    ∧ (encFail s a l).nextOut = s.nextOut ∧ (encFail s a l).lastBytes = s.lastBytes
    ∧ (encFail s a l).lastBytesBits = s.lastBytesBits ∧ (encFail s a l).storageSize = s.storageSize
    ∧ (encFail s a l).isLastBlockEmitted = (s.isLastBlockEmitted || l) ∧ (encFail s a l).totalOut = s.totalOut
    ∧ (encFail s a l).isFirstMb = s.isFirstMb := by
  simp [encFail, St.frame]

/-- `encode_data` succeeds exactly when the last block has not been emitted and at most one
input block is pending -/
theorem encodeData_res {o : Oracle} {s s' : St} {site : Nat} {il ff res : Bool} {req : Req}
    (h : encodeData o s site il ff = .ok (s', res, req)) :
    (res = true ↔ (s.isLastBlockEmitted = false ∧ ¬ s.unprocessed > s.blockSize)) := by
  rcases encodeData_ok_cases h with ⟨h1, rfl, _⟩ | ⟨h1, h2, rfl, _⟩ | ⟨h1, h2, s2, w, hdr, _, hpay⟩
  · simp [h1]
  · simp [h1, h2]
  · have := (encPayload_frame hpay).2.1
    simp [this, h1, h2]

/-- the last-block latch after a successful `encode_data` -/
theorem encodeData_latch {o : Oracle} {s s' : St} {site : Nat} {il ff : Bool} {req : Req}
    (h : encodeData o s site il ff = .ok (s', true, req)) :
    s'.isLastBlockEmitted = il := by
  rcases encodeData_ok_cases h with ⟨_, h2, _⟩ | ⟨_, _, h2, _⟩ | ⟨h1, _, s2, w, hdr, hpre, hpay⟩
  · simp at h2
  · simp at h2
  · have q := (encPayload_frame hpay).2.2.1
    have p := (encPrelude_frame hpre).2.1
    have m := (encMagic_frame (growStorage (encStart s il) (wantStorage s)) (bitsOf s.lastBytesBits s.lastBytes)).2.2.2.1
    have g := (growStorage_frame (encStart s il) (wantStorage s)).2.2.2.1
    rw [q, p, m, g]
    simp [encStart, h1]

/-- positions after a successful `encode_data`, given they were ordered before -/
theorem encodeData_pos {o : Oracle} {s s' : St} {site : Nat} {il ff : Bool} {req : Req}
    (h : encodeData o s site il ff = .ok (s', true, req))
    (h1 : s.lastFlushPos ≤ s.lastProcessedPos) (h2 : s.lastProcessedPos ≤ s.inputPos) (h3 : s.inputPos < two64) :
    s'.lastFlushPos ≤ s'.lastProcessedPos ∧ s.lastProcessedPos ≤ s'.lastProcessedPos
    ∧ s'.lastProcessedPos ≤ s.inputPos ∧ s.lastFlushPos ≤ s'.lastFlushPos := by
  rcases encodeData_ok_cases h with ⟨_, hh, _⟩ | ⟨_, _, hh, _⟩ | ⟨_, _, s2, w, hdr, hpre, hpay⟩
  · simp at hh
  · simp at hh
  · have hu : s.unprocessed = s.inputPos - s.lastProcessedPos := wsub64_eq h2 h3
    have hb : s.unprocessed % two32 ≤ s.inputPos - s.lastProcessedPos := by
      rw [← hu]; exact Nat.mod_le _ _
    have m := encMagic_frame (growStorage (encStart s il) (wantStorage s)) (bitsOf s.lastBytesBits s.lastBytes)
    have g := growStorage_frame (encStart s il) (wantStorage s)
    have mlf : (encMagic (growStorage (encStart s il) (wantStorage s)) (bitsOf s.lastBytesBits s.lastBytes)).1.lastFlushPos = s.lastFlushPos := by
      rw [m.2.1, g.2.1]; simp [encStart]
    have mlp : (encMagic (growStorage (encStart s il) (wantStorage s)) (bitsOf s.lastBytesBits s.lastBytes)).1.lastProcessedPos = s.lastProcessedPos := by
      rw [m.2.2.1, g.2.2.1]; simp [encStart]
    have mip : s2.inputPos = s.inputPos := by
      have := (encPrelude_frame hpre).1
      rw [St.frame_eq_iff] at this
      rw [this.2.1]
      have := m.1; rw [St.frame_eq_iff] at this; rw [this.2.1]
      have := g.1; rw [St.frame_eq_iff] at this; rw [this.2.1]
      simp [encStart]
    have pp := encPrelude_pos hpre
    rw [mlf, mlp] at pp
    have qq := encPayload_pos hpay
    rw [mip] at qq
    obtain ⟨q1, q2, q3⟩ := qq
    have hmin : min 2 (s.unprocessed % two32) ≤ s.inputPos - s.lastProcessedPos := by omega
    rcases pp with ⟨p1, p2⟩ | ⟨p1, p2⟩ <;> rcases q1 with q1 | q1 <;> rcases q2 with q2 | q2 <;>
      (first | (refine ⟨?_, ?_, ?_, ?_⟩ <;> omega) | (have := q3 q1; refine ⟨?_, ?_, ?_, ?_⟩ <;> omega))

end BV.Stream
