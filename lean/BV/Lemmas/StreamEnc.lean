import BV.Lemmas.StreamBasic
/-
What `encode_data` does to the positions, the last-block latch and its return value.
-/
namespace BV.Stream
open BV.Bits

/-- `encode_data` succeeds exactly when the last block has not been emitted and at most one
input block is pending -/
theorem encodeData_res {o : Oracle} {s s' : St} {site : Nat} {il ff res : Bool} {req : Req}
    (h : encodeData o s site il ff = .ok (s', res, req)) :
    (res = true ↔ (s.isLastBlockEmitted = false ∧ ¬ s.unprocessed > s.blockSize)) := by
  obtain ⟨_, hc⟩ := encodeData_ok_cases h
  rcases hc with ⟨h1, rfl, _⟩ | ⟨h1, h2, rfl, _⟩ | ⟨h1, h2, hrest⟩
  · simp [h1]
  · simp [h2]
  · have := (encRest_frame hrest).2.1
    simp [this, h1, h2]

/-- the last-block latch after a successful `encode_data` -/
theorem encodeData_latch {o : Oracle} {s s' : St} {site : Nat} {il ff : Bool} {req : Req}
    (h : encodeData o s site il ff = .ok (s', true, req)) :
    s'.isLastBlockEmitted = il := by
  obtain ⟨_, hc⟩ := encodeData_ok_cases h
  rcases hc with ⟨_, h2, _⟩ | ⟨_, _, h2, _⟩ | ⟨h1, _, hrest⟩
  · simp at h2
  · simp at h2
  · have r := (encRest_frame hrest).2.2.1
    have m := (encMagic_frame (encEntry s il) s.carry).2.2.2.1
    have e := (encEntry_fields s il).2.2.2.1
    rw [r, m, e, h1]; simp

/-- a failed `encode_data` leaves everything but the latch, the counter and the ghost flags -/
theorem encodeData_fail {o : Oracle} {s s' : St} {site : Nat} {il ff : Bool} {req : Req}
    (h : encodeData o s site il ff = .ok (s', false, req)) :
    ∃ a l, s' = encFail s a l := by
  obtain ⟨_, hc⟩ := encodeData_ok_cases h
  rcases hc with ⟨_, _, h3⟩ | ⟨_, _, _, h3⟩ | ⟨_, _, hrest⟩
  · exact ⟨_, _, h3⟩
  · exact ⟨_, _, h3⟩
  · have := (encRest_frame hrest).2.1; simp at this

/-- pure arithmetic behind `encodeData_pos` -/
theorem pos_arith {lf lp ip n lf1 lp1 lf' lp' : Nat}
    (h1 : lf ≤ lp) (h2 : lp ≤ ip) (hn : n ≤ ip - lp)
    (p1 : lf1 = lf + n) (p2 : lp1 = lp + n)
    (q1 : lf' = lf1 ∨ lf' = ip) (q2 : lp' = lp1 ∨ lp' = ip)
    (q3 : lf' = ip → lp' = ip ∨ ip = lf1) :
    lf' ≤ lp' ∧ lp ≤ lp' ∧ lp' ≤ ip ∧ lf ≤ lf' := by
  subst p1 p2
  rcases q1 with q1 | q1 <;> rcases q2 with q2 | q2
  · subst q1 q2; omega
  · subst q1 q2; omega
  · have := q3 q1; subst q2; omega
  · subst q1 q2; omega

theorem encRest_pos {m : St × Writer × Nat} {ans : Ans} {w0 : Writer} {bytes : Nat} {il ff res : Bool} {s' : St}
    (h : encRest m ans w0 bytes il ff = .ok (s', res)) :
    ∃ n lf1 lp1, (n = 0 ∨ n = min 2 bytes) ∧ lf1 = m.1.lastFlushPos + n ∧ lp1 = m.1.lastProcessedPos + n ∧
      (s'.lastFlushPos = lf1 ∨ s'.lastFlushPos = m.1.inputPos) ∧
      (s'.lastProcessedPos = lp1 ∨ s'.lastProcessedPos = m.1.inputPos) ∧
      (s'.lastFlushPos = m.1.inputPos → s'.lastProcessedPos = m.1.inputPos ∨ m.1.inputPos = lf1) := by
  unfold encRest at h
  split at h
  · simp at h
  · simp at h
  · rename_i s2 w hdr hpre
    have hip : s2.inputPos = m.1.inputPos := by
      have := (encPrelude_frame hpre).1
      rw [St.frame_eq_iff] at this
      exact this.2.1
    obtain ⟨q1, q2, q3⟩ := encPayload_pos h
    rw [hip] at q1 q2 q3
    rcases encPrelude_pos hpre with ⟨p1, p2⟩ | ⟨p1, p2⟩
    · refine ⟨0, s2.lastFlushPos, s2.lastProcessedPos, Or.inl rfl, by omega, by omega, q1, q2, q3⟩
    · refine ⟨min 2 bytes, s2.lastFlushPos, s2.lastProcessedPos, Or.inr rfl, p1, p2, q1, q2, q3⟩

/-- positions after a successful `encode_data`, given they were ordered before -/
theorem encodeData_pos {o : Oracle} {s s' : St} {site : Nat} {il ff : Bool} {req : Req}
    (h : encodeData o s site il ff = .ok (s', true, req))
    (h1 : s.lastFlushPos ≤ s.lastProcessedPos) (h2 : s.lastProcessedPos ≤ s.inputPos) (h3 : s.inputPos < two64) :
    s'.lastFlushPos ≤ s'.lastProcessedPos ∧ s.lastProcessedPos ≤ s'.lastProcessedPos
    ∧ s'.lastProcessedPos ≤ s.inputPos ∧ s.lastFlushPos ≤ s'.lastFlushPos := by
  obtain ⟨_, hc⟩ := encodeData_ok_cases h
  rcases hc with ⟨_, hh, _⟩ | ⟨_, _, hh, _⟩ | ⟨_, _, hrest⟩
  · simp at hh
  · simp at hh
  · have hu : s.unprocessed = s.inputPos - s.lastProcessedPos := wsub64_eq h2 h3
    obtain ⟨m1, m2, m3, _⟩ := encMagic_frame (encEntry s il) s.carry
    obtain ⟨e1, e2, e3, _⟩ := encEntry_fields s il
    have mlf : (encMagic (encEntry s il) s.carry).1.lastFlushPos = s.lastFlushPos := m2.trans e2
    have mlp : (encMagic (encEntry s il) s.carry).1.lastProcessedPos = s.lastProcessedPos := m3.trans e3
    have mip : (encMagic (encEntry s il) s.carry).1.inputPos = s.inputPos := by
      have a := m1; rw [St.frame_eq_iff] at a
      have b := e1; rw [St.frame_eq_iff] at b
      exact a.2.1.trans b.2.1
    obtain ⟨n, lf1, lp1, hn, p1, p2, q1, q2, q3⟩ := encRest_pos hrest
    rw [mlf] at p1; rw [mlp] at p2; rw [mip] at q1 q2 q3
    have hb : s.unprocessed % two32 ≤ s.unprocessed := Nat.mod_le _ _
    have hn' : n ≤ s.inputPos - s.lastProcessedPos := by
      rcases hn with hn | hn
      · rw [hn]; exact Nat.zero_le _
      · rw [hn, ← hu]; exact Nat.le_trans (Nat.min_le_right _ _) hb
    exact pos_arith h1 h2 hn' p1 p2 q1 q2 q3

theorem encPayload_q01 {s s' : St} {ans : Ans} {w0 w : Writer} {hdr : Nat} {il ff res : Bool}
    (h : encPayload s ans w0 w hdr il ff = .ok (s', res))
    (hq : s.params.quality = 0 ∨ s.params.quality = 1) (heq : s.lastFlushPos = s.lastProcessedPos) :
    s'.lastFlushPos = s'.lastProcessedPos := by
  unfold encPayload at h
  simp only at h
  split_all h
  all_goals first
    | (simp at h; done)
    | (simp only [Out.ok.injEq, Prod.mk.injEq] at h; obtain ⟨rfl, rfl⟩ := h; simp_all; done)

/-- with `is_last` or `force_flush`, a successful `encode_data` leaves nothing unflushed -/
theorem encPayload_forced {s s' : St} {ans : Ans} {w0 w : Writer} {hdr : Nat} {il ff res : Bool}
    (h : encPayload s ans w0 w hdr il ff = .ok (s', res)) (hf : il = true ∨ ff = true)
    (h1 : s.lastFlushPos ≤ s.lastProcessedPos) (h2 : s.lastProcessedPos ≤ s.inputPos) (h3 : s.inputPos < two64)
    (hq : (s.params.quality = 0 ∨ s.params.quality = 1) → s.lastFlushPos = s.lastProcessedPos) :
    s'.lastFlushPos = s.inputPos := by
  have hu : s.unprocessed = s.inputPos - s.lastProcessedPos := wsub64_eq h2 h3
  unfold encPayload at h
  simp only at h
  split at h
  · simp at h
  · split at h
    · rename_i hq'
      have heq := hq hq'
      split at h
      · rename_i hz
        simp only [Out.ok.injEq, Prod.mk.injEq] at h
        obtain ⟨rfl, rfl⟩ := h
        have hz1 : s.unprocessed = 0 := hz.1
        simp only
        omega
      · split at h
        · simp at h
        · simp only [Out.ok.injEq, Prod.mk.injEq] at h
          obtain ⟨rfl, rfl⟩ := h
          rfl
    · split at h
      · rename_i hacc
        rcases hf with hf | hf
        · simp [hf] at hacc
        · simp [hf] at hacc
      · split at h
        · rename_i hb
          simp only [Out.ok.injEq, Prod.mk.injEq] at h
          obtain ⟨rfl, rfl⟩ := h
          exact hb.2.symm
        · split at h
          · simp at h
          · simp only [Out.ok.injEq, Prod.mk.injEq] at h
            obtain ⟨rfl, rfl⟩ := h
            rfl

theorem encPrelude_params {s s' : St} {w w' : Writer} {hdr hdr' bytes : Nat}
    (h : encPrelude s w hdr bytes = .ok (s', w', hdr')) : s'.params = s.params ∧ s'.inputPos = s.inputPos := by
  have := (encPrelude_frame h).1
  rw [St.frame_eq_iff] at this
  exact ⟨this.1, this.2.1⟩

theorem encRest_q01 {m : St × Writer × Nat} {ans : Ans} {w0 : Writer} {bytes : Nat} {il ff res : Bool} {s' : St}
    (h : encRest m ans w0 bytes il ff = .ok (s', res))
    (hq : m.1.params.quality = 0 ∨ m.1.params.quality = 1) (heq : m.1.lastFlushPos = m.1.lastProcessedPos) :
    s'.lastFlushPos = s'.lastProcessedPos := by
  unfold encRest at h
  split at h
  · simp at h
  · simp at h
  · rename_i s2 w hdr hpre
    obtain ⟨pp, _⟩ := encPrelude_params hpre
    have heq2 : s2.lastFlushPos = s2.lastProcessedPos := by
      rcases encPrelude_pos hpre with ⟨p1, p2⟩ | ⟨p1, p2⟩ <;> omega
    exact encPayload_q01 h (by rw [pp]; exact hq) heq2

theorem encRest_forced {m : St × Writer × Nat} {ans : Ans} {w0 : Writer} {bytes : Nat} {il ff res : Bool} {s' : St}
    (h : encRest m ans w0 bytes il ff = .ok (s', res)) (hf : il = true ∨ ff = true)
    (h1 : m.1.lastFlushPos ≤ m.1.lastProcessedPos) (h2 : m.1.lastProcessedPos ≤ m.1.inputPos) (h3 : m.1.inputPos < two64)
    (hb : bytes ≤ m.1.inputPos - m.1.lastProcessedPos)
    (hq : (m.1.params.quality = 0 ∨ m.1.params.quality = 1) → m.1.lastFlushPos = m.1.lastProcessedPos) :
    s'.lastFlushPos = m.1.inputPos := by
  unfold encRest at h
  split at h
  · simp at h
  · simp at h
  · rename_i s2 w hdr hpre
    obtain ⟨pp, pip⟩ := encPrelude_params hpre
    have hpos : s2.lastFlushPos ≤ s2.lastProcessedPos ∧ s2.lastProcessedPos ≤ s2.inputPos ∧
        (m.1.lastFlushPos = m.1.lastProcessedPos → s2.lastFlushPos = s2.lastProcessedPos) := by
      rw [pip]
      rcases encPrelude_pos hpre with ⟨p1, p2⟩ | ⟨p1, p2⟩
      · omega
      · have : min 2 bytes ≤ bytes := Nat.min_le_right _ _
        omega
    have := encPayload_forced h hf hpos.1 hpos.2.1 (by rw [pip]; exact h3) (by rw [pp]; intro hh; exact hpos.2.2 (hq hh))
    rw [this, pip]

/-- quality 0/1: `last_flush_pos_` and `last_processed_pos_` move together -/
theorem encodeData_q01 {o : Oracle} {s s' : St} {site : Nat} {il ff : Bool} {req : Req}
    (h : encodeData o s site il ff = .ok (s', true, req))
    (hq : s.params.quality = 0 ∨ s.params.quality = 1) (heq : s.lastFlushPos = s.lastProcessedPos) :
    s'.lastFlushPos = s'.lastProcessedPos := by
  obtain ⟨_, hc⟩ := encodeData_ok_cases h
  rcases hc with ⟨_, hh, _⟩ | ⟨_, _, hh, _⟩ | ⟨_, _, hrest⟩
  · simp at hh
  · simp at hh
  · obtain ⟨m1, m2, m3, _⟩ := encMagic_frame (encEntry s il) s.carry
    obtain ⟨e1, e2, e3, _⟩ := encEntry_fields s il
    have a := m1; rw [St.frame_eq_iff] at a
    have b := e1; rw [St.frame_eq_iff] at b
    refine encRest_q01 hrest (by rw [a.1, b.1]; exact hq) ?_
    rw [m2, m3, e2, e3]; exact heq

/-- a forced (`is_last` / `force_flush`) `encode_data` ends with `last_flush_pos_ = input_pos_` -/
theorem encodeData_forced {o : Oracle} {s s' : St} {site : Nat} {il ff : Bool} {req : Req}
    (h : encodeData o s site il ff = .ok (s', true, req)) (hf : il = true ∨ ff = true)
    (h1 : s.lastFlushPos ≤ s.lastProcessedPos) (h2 : s.lastProcessedPos ≤ s.inputPos) (h3 : s.inputPos < two64)
    (hq : (s.params.quality = 0 ∨ s.params.quality = 1) → s.lastFlushPos = s.lastProcessedPos) :
    s'.lastFlushPos = s.inputPos := by
  obtain ⟨_, hc⟩ := encodeData_ok_cases h
  rcases hc with ⟨_, hh, _⟩ | ⟨_, _, hh, _⟩ | ⟨_, _, hrest⟩
  · simp at hh
  · simp at hh
  · obtain ⟨m1, m2, m3, _⟩ := encMagic_frame (encEntry s il) s.carry
    obtain ⟨e1, e2, e3, _⟩ := encEntry_fields s il
    have a := m1; rw [St.frame_eq_iff] at a
    have b := e1; rw [St.frame_eq_iff] at b
    have hu : s.unprocessed = s.inputPos - s.lastProcessedPos := wsub64_eq h2 h3
    have hip : (encMagic (encEntry s il) s.carry).1.inputPos = s.inputPos := a.2.1.trans b.2.1
    have := encRest_forced hrest hf (by rw [m2, m3, e2, e3]; exact h1) (by rw [m3, e3, hip]; exact h2) (by rw [hip]; exact h3)
      (by rw [hip, m3, e3, ← hu]; exact Nat.mod_le _ _)
      (by rw [a.1, b.1, m2, m3, e2, e3]; exact hq)
    rw [this, hip]

end BV.Stream
