/-
Helper lemmas for C07, part 4: reachable states, schedules, panic freedom.
-/
import BV.Lemmas.PoolInv

namespace BV.Lemmas.Pool
open BV.Gen BV.FixedQueue BV.Pool BV.Lemmas.FixedQueue

instance : DecidableEq (Except Err State) := fun a b =>
  match a, b with
  | .ok x, .ok y => if h : x = y then isTrue (by rw [h]) else isFalse (fun e => by cases e; exact h rfl)
  | .error x, .error y =>
    if h : x = y then isTrue (by rw [h]) else isFalse (fun e => by cases e; exact h rfl)
  | .ok _, .error _ => isFalse (fun e => by cases e)
  | .error _, .ok _ => isFalse (fun e => by cases e)

/-- 17 spawns, no join: violates the contract -/
def seventeenSpawns : List Op := (List.range 17).map Op.spawn

/-- states reachable from `init n p` by any sequence of scheduling choices
(thread steps and spurious wake-ups, in any interleaving) -/
inductive Reachable (n : Nat) (p : List Op) : State → Prop where
  | init : Reachable n p (init n p)
  | step {s s' : State} {c : Choice} : Reachable n p s → step s c = .ok s' → Reachable n p s'

theorem reachable_run {n : Nat} {p : List Op} {s s' : State} (hr : Reachable n p s)
    {cs : List Choice} (h : runSched s cs = .ok s') : Reachable n p s' := by
  induction cs generalizing s with
  | nil => simp only [runSched, Except.ok.injEq] at h; subst h; exact hr
  | cons c cs ih =>
    simp only [runSched] at h
    cases hs : step s c with
    | ok s1 => rw [hs] at h; exact ih (hr.step hs) h
    | error e => rw [hs] at h; cases h

/-- a schedule that ends in an error: the error is raised by one step from a reachable state -/
theorem run_error {n : Nat} {p : List Op} {s : State} (hr : Reachable n p s)
    {cs : List Choice} {e : Err} (h : runSched s cs = .error e) :
    ∃ s1 c, Reachable n p s1 ∧ step s1 c = .error e := by
  induction cs generalizing s with
  | nil => simp [runSched] at h
  | cons c cs ih =>
    simp only [runSched] at h
    cases hs : step s c with
    | ok s1 => rw [hs] at h; exact ih (hr.step hs) h
    | error e' =>
      rw [hs] at h
      cases h
      exact ⟨s, c, hr, hs⟩

theorem reachable_iff_run {n : Nat} {p : List Op} {s : State} :
    Reachable n p s ↔ ∃ cs, runSched (init n p) cs = .ok s := by
  constructor
  · intro h
    induction h with
    | init => exact ⟨[], rfl⟩
    | @step s s' c _ hs ih =>
      obtain ⟨cs, hcs⟩ := ih
      refine ⟨cs ++ [c], ?_⟩
      have : ∀ (s0 : State) (cs : List Choice), runSched s0 cs = .ok s →
          runSched s0 (cs ++ [c]) = .ok s' := by
        intro s0 cs
        induction cs generalizing s0 with
        | nil => intro h; simp only [runSched, Except.ok.injEq] at h; subst h; simp [runSched, hs]
        | cons c' cs ih2 =>
          intro h
          simp only [runSched, List.cons_append] at h ⊢
          cases hs' : step s0 c' with
          | ok s1 => rw [hs'] at h; simp only; exact ih2 s1 h
          | error e => rw [hs'] at h; cases h
      exact this _ _ hcs
  · rintro ⟨cs, h⟩
    exact reachable_run .init h

theorem inv_reachable {n : Nat} {p : List Op} (hc : contract p = true) {s : State}
    (hr : Reachable n p s) : Inv s := by
  induction hr with
  | init => exact inv_init n p hc
  | step _ hs ih => exact inv_step ih hs

theorem workers_length_step {s s' : State} {c : Choice} (h : step s c = .ok s') :
    s'.workers.length = s.workers.length := by
  apply step_elim h
  case drop =>
    intro rest _ _ _ hs'
    rcases joinFrom_cases ({ s with immediateShutdown := true }.notifyAll) 1 rest true
      (Nat.le_refl _) with ⟨t, _, _, _, _, _, e⟩ | ⟨_, e⟩ <;> rw [hs', e] <;> simp
  case joinW =>
    intro t rest _ _ _ _ hs'
    rcases joinFrom_cases s (t + 1) rest false (by omega) with ⟨t', _, _, _, _, _, e⟩ | ⟨_, e⟩ <;>
      rw [hs', e] <;> simp
  all_goals (intros; subst_vars; simp)

theorem workers_length_reachable {n : Nat} {p : List Op} {s : State} (hr : Reachable n p s) :
    s.workers.length = n := by
  induction hr with
  | init => simp [init]
  | step _ hs ih => rw [workers_length_step hs, ih]

/-- under `Inv` no step panics -/
theorem no_panic_of_inv {s : State} (I : Inv s) (c : Choice) (site : PanicSite) :
    step s c ≠ .error (.panic site) := by
  intro h
  rcases step_panic_cases h with ⟨i, r, hw, h1 | h1⟩ | ⟨idx, rest, hp, _, hpush, _⟩ |
    ⟨n, rest, j, _, _, hrm, _⟩
  · -- num_in_progress underflow
    have := wsum_pos_of_mem busy hw
    simp only [busy] at this
    have := I.nip
    omega
  · -- results.push(..).unwrap()
    obtain ⟨hn, hpush, _⟩ := h1
    have hlt : s.results.size < MAX_THREADS := by
      have := I.total; have := I.bound; omega
    obtain ⟨q', e1, _⟩ := push_spec I.wfR r hlt
    rw [hpush] at e1; cases e1
  · -- jobs.push(..).unwrap()
    have hc := I.contr
    rw [hp] at hc
    simp only [contractFrom, Bool.and_eq_true, Bool.not_eq_true', decide_eq_true_eq] at hc
    obtain ⟨⟨_, hlt⟩, _⟩ := hc
    have hlt' : s.jobs.size < MAX_THREADS := by have := I.total; omega
    obtain ⟨q', e1, _⟩ := push_spec I.wfJ ⟨s.curWorkId, idx⟩ hlt'
    rw [hpush] at e1; cases e1
  · -- assert! in remove
    rcases remove_spec I.wfR (matchId j.workId) with ⟨_, h2⟩ | ⟨_, _, _, _, _, _, h4, _⟩
    · rw [hrm] at h2; cases h2
    · rw [hrm] at h4; cases h4

/-- under the contract the back-pressure branch of `spawn` (`cvar.wait` "hope room frees
up") is dead code: the loop condition is true at the first evaluation -/
theorem spawn_cond_of_inv {s : State} (I : Inv s) :
    s.jobs.size + s.numInProgress + s.results.size ≤ MAX_THREADS := by
  have := I.total; have := I.bound; omega

end BV.Lemmas.Pool
