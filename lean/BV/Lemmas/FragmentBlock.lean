/-
C01 / fragment writers, part 5: one compressed meta-block of the two-pass writer (`StoreCommands` behind its
header): literal code from C17 (`fast_total`, `codeFacts_of_fast`), the command / distance codes as the
hypothesis `CmdCodeOK` (see there), the command loop from `storeCmdLoop_sim`, reader assembly `read_assembled`.
-/
import BV.Lemmas.FragmentSim
namespace BV.Fragment
open BV.Bits BV.MetaBlock BV.Huffman BV.PrefixArith BV.Recoder

theorem symOK_of_symIO (D B : List Nat) (C : Code) (s : Nat) (h : SymIO D B C s) : SymOK D B C s s := by
  obtain ⟨sb, hw, hr⟩ := h
  have h0 := hw []
  unfold storeSym getAt at h0
  cases hd : D[s]? with
  | none => rw [hd] at h0; cases h0
  | some d =>
  cases hb : B[s]? with
  | none => rw [hd, hb] at h0; cases h0
  | some b =>
  rw [hd, hb] at h0
  simp only [Out.bind_ok] at h0
  obtain ⟨e, hfit, h56⟩ := writeBits_inv h0
  have hsl : s < D.length := by
    rcases Nat.lt_or_ge s D.length with h | h
    · exact h
    · rw [List.getElem?_eq_none h] at hd; cases hd
  have hsl2 : s < B.length := by
    rcases Nat.lt_or_ge s B.length with h | h
    · exact h
    · rw [List.getElem?_eq_none h] at hb; cases hb
  have e1 : D.getD s 0 = d := by rw [List.getD_eq_getElem?_getD, hd]; rfl
  have e2 : B.getD s 0 = b := by rw [List.getD_eq_getElem?_getD, hb]; rfl
  refine ⟨hsl, hsl2, by omega, by rw [e1, e2]; exact hfit, ?_⟩
  intro rest
  rw [e1, e2]
  have : sb = bitsOf d b := by simpa using e
  rw [← this]
  exact hr rest

/-! ### the literal histogram -/

theorem sum_map_add (l : List Nat) (f g : Nat → Nat) :
    (l.map fun v => f v + g v).sum = (l.map f).sum + (l.map g).sum := by
  induction l with
  | nil => rfl
  | cons x xs ih => simp only [List.map_cons, List.sum_cons, ih]; omega

theorem sum_zero_of (l : List Nat) (h : ∀ y ∈ l, y = 0) : l.sum = 0 := by
  induction l with
  | nil => rfl
  | cons x xs ih =>
    rw [List.sum_cons, h x (by simp), ih (fun y hy => h y (List.mem_cons_of_mem _ hy))]

theorem sum_indicator (n x : Nat) (hx : x < n) : ((List.range n).map fun v => if x = v then 1 else 0).sum = 1 := by
  induction n with
  | zero => omega
  | succ n ih =>
    rw [List.range_succ, List.map_append, List.sum_append]
    by_cases h : x < n
    · rw [ih h]
      simp; omega
    · have hxn : x = n := by omega
      subst hxn
      have hz : ((List.range x).map fun v => if x = v then 1 else 0).sum = 0 := by
        apply sum_zero_of
        intro y hy
        obtain ⟨v, hv, rfl⟩ := List.mem_map.mp hy
        have := List.mem_range.mp hv
        rw [if_neg (by omega)]
      rw [hz]; simp

theorem sum_count (n : Nat) : ∀ (l : List Nat), (∀ x ∈ l, x < n) →
    ((List.range n).map fun v => l.count v).sum = l.length
  | [], _ => by
    apply sum_zero_of
    intro y hy
    obtain ⟨v, _, rfl⟩ := List.mem_map.mp hy
    rfl
  | x :: xs, h => by
    have ih := sum_count n xs (fun y hy => h y (List.mem_cons_of_mem _ hy))
    have hx := h x (by simp)
    have e : (fun v => (x :: xs).count v) = fun v => xs.count v + (if x = v then 1 else 0) := by
      funext v
      rw [List.count_cons]
      simp [beq_iff_eq]
    rw [e, sum_map_add, ih, sum_indicator n x hx]
    simp

theorem histo_length (n : Nat) (xs : List Nat) : (histo n xs).length = n := by simp [histo]

theorem histo_get (n : Nat) (xs : List Nat) (v : Nat) (hv : v < n) (hl : xs.length < two32) :
    (histo n xs).getD v 0 = xs.count v := by
  unfold histo
  rw [List.getD_eq_getElem?_getD, List.getElem?_map, List.getElem?_range hv]
  simp only [Option.map_some, Option.getD_some]
  apply Nat.mod_eq_of_lt
  exact Nat.lt_of_le_of_lt List.count_le_length hl

theorem histo_sum (n : Nat) (xs : List Nat) (h : ∀ x ∈ xs, x < n) (hl : xs.length < two32) :
    (histo n xs).sum = xs.length := by
  rw [← sum_count n xs h]
  unfold histo
  congr 1
  apply List.map_congr_left
  intro v _
  apply Nat.mod_eq_of_lt
  exact Nat.lt_of_le_of_lt List.count_le_length hl

/-- What the round trip needs of `BuildAndStoreCommandPrefixCode` on the histogram of `cmds`
(HYPOTHESIS of the block theorem; evaluated by the driver on every run, field `cc=`): it does not panic, and
what it stores are two prefix code descriptions that the RFC reader reads back (alphabets 704 and 64) to codes
that agree with the returned `depth`/`bits` tables on every code word of `cmds`: a command code `c < 64` is
decoded to the insert-and-copy symbol `q1Symbol c`, a distance code `c ≥ 64` to the distance symbol `c − 64`. -/
def CmdCodeOK (cmds : List Nat) : Prop :=
  ∃ ch cmdD cmdB cb2 cb3 cmdC distC, cmdHistoQ1 cmds = .ok ch ∧
    buildAndStoreCommandPrefixCodeQ1 ch (List.replicate 128 0) (List.replicate 128 0) [] = .ok (cmdD, cmdB, cb2 ++ cb3) ∧
    (∀ rest, readCode 704 (cb2 ++ rest) = some (cmdC, rest)) ∧
    (∀ rest, readCode 64 (cb3 ++ rest) = some (distC, rest)) ∧
    (∀ c ∈ cmds, c % 256 < 64 → SymOK cmdD cmdB cmdC (c % 256) (q1Symbol (c % 256))) ∧
    (∀ c ∈ cmds, 64 ≤ c % 256 → SymOK cmdD cmdB distC (c % 256) (c % 256 - 64))

theorem alphabetBits_256 : alphabetBits 256 = 8 := by decide

theorem histo_zero_beyond (n : Nat) (xs : List Nat) (i : Nat) (h : n ≤ i) : (histo n xs).getD i 0 = 0 := by
  rw [List.getD_eq_getElem?_getD, List.getElem?_eq_none (by rw [histo_length]; exact h)]; rfl

/-- **one compressed meta-block of the two-pass writer round-trips** (for every command / literal buffer that
`replayQ1` accepts).  `hr`: the storage has room for the two prefix-code descriptions actually produced plus
the worst case of the data bits (81 per command word, 57 per literal). -/
theorem compressed_block_reads (wo : WordOracle) (window : Nat) (block lits cmds : List Nat) (st fin : RdSt) (s : Sto)
    (h1 : 1 ≤ block.length) (h2 : block.length ≤ 2 ^ 24) (hl256 : ∀ b ∈ lits, b < 256)
    (hll : lits.length ≤ 2 ^ 24)
    (hrep : replayQ1 wo window block.length cmds lits 0 st = some fin)
    (hcc : CmdCodeOK cmds) (hg : Good s)
    (hr : ∀ litD litB cb1 ch cmdD cmdB cb23,
      buildAndStoreHuffmanTreeFast (histo 256 lits) lits.length 8 (List.replicate 256 0) (List.replicate 256 0) []
        = .ok (litD, litB, cb1) →
      cmdHistoQ1 cmds = .ok ch →
      buildAndStoreCommandPrefixCodeQ1 ch (List.replicate 128 0) (List.replicate 128 0) [] = .ok (cmdD, cmdB, cb23) →
      (s.ix + 41 + cb1.length + cb23.length + 81 * cmds.length + 57 * lits.length) / 8 + 8 ≤ s.bytes.size) :
    ∃ s' bits, storeBlock block lits cmds true s = .ok s' ∧ Wr s s' bits ∧
      ReadsTo wo window false s.ix st bits false (s.ix + bits.length) fin := by
  have p24 : (2 : Nat) ^ 24 = 16777216 := by decide
  have p25 : (2 : Nat) ^ 25 = 33554432 := by decide
  have e32 : two32 = 4294967296 := rfl
  have hl32 : lits.length < two32 := by rw [e32]; omega
  have hsum := histo_sum 256 lits hl256 hl32
  have hlen := histo_length 256 lits
  -- the literal code
  obtain ⟨litD, litB, w1, hb1⟩ := fast_total (histo 256 lits) 256 256 [] (by rw [hlen]; omega)
    (by rw [hsum]; omega) (by omega) (by omega) (by omega) (fun i hi => histo_zero_beyond 256 lits i hi)
  obtain ⟨cb1, litC, e1, r1, sy1⟩ := codeFacts_of_fast (histo 256 lits) 256 256 [] w1 litD litB (by rw [hlen]; omega)
    (by rw [hsum]; omega) (by omega) (by omega) (by omega) (fun i hi => histo_zero_beyond 256 lits i hi)
    (by rw [alphabetBits_256]; decide) hb1
  rw [List.nil_append] at e1
  subst e1
  rw [hsum, alphabetBits_256] at hb1
  have hlitOK : ∀ b ∈ lits, SymOK litD litB litC b b := by
    intro b hb
    apply symOK_of_symIO
    apply sy1 b (by rw [hlen]; exact hl256 b hb)
    rw [histo_get 256 lits b (hl256 b hb) hl32]
    exact Nat.pos_iff_ne_zero.mp (List.count_pos_iff.mpr hb)
  -- the command codes
  obtain ⟨ch, cmdD, cmdB, cb2, cb3, cmdC, distC, hch, hb2, r2, r3, sy2, sy3⟩ := hcc
  have hroom := hr litD litB w1 ch cmdD cmdB (cb2 ++ cb3) hb1 hch hb2
  -- the writes
  obtain ⟨s1, x1, w1'⟩ := storeHeader_ok block.length false s hg h1 h2 (by omega)
  have hn := nibsOf_cases block.length
  have i1 : s1.ix ≤ s.ix + 28 := by rw [w1'.ix, hdrBits_length]; omega
  obtain ⟨s2, x2, w2⟩ := writeBits_ok 13 0 s1 w1'.good (by decide) (by decide) (by rw [w1'.size]; omega)
  have i2 : s2.ix ≤ s.ix + 41 := by rw [w2.ix, length_bitsOf]; omega
  obtain ⟨s3, x3, w3⟩ := blit_ok w1 s2 w2.good (by rw [w2.size, w1'.size]; omega)
  have i3 : s3.ix ≤ s.ix + 41 + w1.length := by rw [w3.ix]; omega
  obtain ⟨s4, x4, w4⟩ := blit_ok (cb2 ++ cb3) s3 w3.good (by rw [w3.size, w2.size, w1'.size]; omega)
  have i4 : s4.ix ≤ s.ix + 41 + w1.length + (cb2 ++ cb3).length := by rw [w4.ix]; omega
  unfold replayQ1 at hrep
  obtain ⟨s5, db, x5, w5, r5⟩ := storeCmdLoop_sim wo window block.length litD litB cmdD cmdB litC cmdC distC
    (block.length + 1) cmds lits 0 st fin s4 hrep hlitOK sy2 sy3 w4.good
    (by rw [w4.size, w3.size, w2.size, w1'.size]; omega)
  refine ⟨s5, hdrBits block.length false ++ (bitsOf 13 0 ++ (w1 ++ ((cb2 ++ cb3) ++ db))), ?_, ?_, ?_⟩
  · unfold storeBlock
    rw [if_pos rfl, x1, bind_ok', x2, bind_ok']
    unfold storeCommands
    rw [hb1, bind_ok']
    simp only []
    rw [x3, bind_ok', hch, bind_ok', hb2, bind_ok']
    simp only []
    rw [x4, bind_ok', x5]
  · exact w1'.trans (w2.trans (w3.trans (w4.trans w5)))
  · intro rest
    rw [hdrBits_false block.length h1 h2]
    have hra := read_assembled wo window false block false st.out st.ring s.bits w1 cb2 cb3 db
      (s.bits ++ (headerBits false block.length ++ (bitsOf 13 0 ++ (w1 ++ (cb2 ++ (cb3 ++ db))))))
      litC cmdC distC ⟨fin.out, fin.ring, 0⟩ h1 h2 rfl r1 r2 r3
      (by
        intro rest f hf
        have := r5 rest f hf
        rw [rdst_eta, rdst_eta]
        exact this) rest
    rw [bits_length, rdst_eta, rdst_eta] at hra
    simp only [padOf, Bool.false_eq_true, if_false, List.append_nil, List.length_nil, Nat.add_zero] at hra
    simp only [List.append_assoc] at hra ⊢
    rw [hra]
    simp [bits_length, List.length_append]

/-- a block the writer stores raw (`ShouldCompress` said no) -/
theorem uncompressed_block_reads (wo : WordOracle) (window : Nat) (block lits cmds : List Nat) (st : RdSt) (s : Sto)
    (h1 : 1 ≤ block.length) (h2 : block.length ≤ 2 ^ 24) (hb : ∀ b ∈ block, b < 256) (hg : Good s)
    (hr : (s.ix + 28) / 8 + 8 + block.length + 1 ≤ s.bytes.size) :
    ∃ s', storeBlock block lits cmds false s = .ok s' ∧ Wr s s' (storedBits block s.ix) ∧
      ReadsTo wo window false s.ix st (storedBits block s.ix) false (s.ix + (storedBits block s.ix).length)
        ⟨st.out ++ block, st.ring⟩ := by
  obtain ⟨s', e, w⟩ := emitUncompressed_ok block s hg h1 h2 hr
  refine ⟨s', ?_, w, stored_reads wo window false block s.ix st h1 h2 hb⟩
  unfold storeBlock
  rw [if_neg (by simp), e]

/-- **the fallback of `compress_fragment_two_pass`**: whatever the compressed attempt left in the storage
(`s1`: any bytes, any position not before the start), `RewindBitPosition` to the start followed by
`EmitUncompressedMetaBlock` of the whole input yields exactly the stream as it was at the start followed by one
stored meta-block, which the RFC reader decodes to the input.  (This is where the rewind mask matters: the
partial byte at the start position is cleared of the attempt's bits, the whole byte if the start is aligned.) -/
theorem fallback_reads (wo : WordOracle) (window : Nat) (input : List Nat) (st : RdSt) (ix0 : Nat) (s1 : Sto)
    (h1 : 1 ≤ input.length) (h2 : input.length ≤ 2 ^ 24) (hb : ∀ b ∈ input, b < 256)
    (hsz : s1.bytes.size < 1152921504606846976) (hle : ix0 ≤ s1.ix)
    (hr : (ix0 + 28) / 8 + 8 + input.length + 1 ≤ s1.bytes.size) :
    ∃ s2 s3, rewindBitPosition ix0 s1 = .ok s2 ∧ emitUncompressedMetaBlock input s2 = .ok s3 ∧
      s3.bits = s1.bits.take ix0 ++ storedBits input ix0 ∧ Good s3 ∧
      ReadsTo wo window false ix0 st (storedBits input ix0) false (ix0 + (storedBits input ix0).length)
        ⟨st.out ++ input, st.ring⟩ := by
  obtain ⟨s2, e2, i2, z2, g2, b2⟩ := rewind_ok ix0 s1 hsz (by omega) hle
  obtain ⟨s3, e3, w3⟩ := emitUncompressed_ok input s2 g2 h1 h2 (by rw [i2, z2]; exact hr)
  rw [i2] at w3
  refine ⟨s2, s3, e2, e3, by rw [w3.bits, b2], w3.good, stored_reads wo window false input ix0 st h1 h2 hb⟩

end BV.Fragment
