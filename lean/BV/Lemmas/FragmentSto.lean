/-
C01 / fragment writers, part 1: THE STORAGE.  `BrotliWriteBits` of the two fragment files on the real byte
array (OR into the partial byte, store 8 bytes) is "append `n` bits to the stream" exactly when
(W1) the partial byte at the write position has no bits at or above the position (`Good.clean`),
(W2) 8 bytes are left, the value fits in `n ≤ 56` bits.
`Wr s s' bs` packages the conclusion; `rewind_ok` shows that `RewindBitPosition` re-establishes (W1)
WHATEVER the bytes behind the new position hold (aligned position: the whole byte is cleared).
-/
import BV.Model.Fragment

namespace BV.Fragment
open BV.Bits

theorem getD_set (a : Array Nat) (i j v : Nat) :
    (a.setIfInBounds i v).getD j 0 = if i = j ∧ i < a.size then v else a.getD j 0 := by
  simp only [Array.getD_eq_getD_getElem?, Array.getElem?_setIfInBounds]
  by_cases h : i = j
  · subst h
    by_cases h2 : i < a.size
    · simp [h2]
    · simp [h2]
  · simp [h]

theorem store64_size (a : Array Nat) (off v : Nat) : (store64 a off v).size = a.size := by
  simp [store64]

/-- byte `k` of the stored word -/
def wordByte (v k : Nat) : Nat := v / 2 ^ (8 * k) % 256

theorem store64_get_in (a : Array Nat) (off v k : Nat) (hk : k < 8) (h : off + 8 ≤ a.size) :
    (store64 a off v).getD (off + k) 0 = wordByte v k := by
  have e0 : wordByte v 0 = v % 256 := by simp [wordByte]
  have e1 : wordByte v 1 = v / 256 % 256 := by simp [wordByte]
  have e2 : wordByte v 2 = v / 65536 % 256 := by simp [wordByte]
  have e3 : wordByte v 3 = v / 16777216 % 256 := by simp [wordByte]
  have e4 : wordByte v 4 = v / 4294967296 % 256 := by simp [wordByte]
  have e5 : wordByte v 5 = v / 1099511627776 % 256 := by simp [wordByte]
  have e6 : wordByte v 6 = v / 281474976710656 % 256 := by simp [wordByte]
  have e7 : wordByte v 7 = v / 72057594037927936 % 256 := by simp [wordByte]
  simp only [store64, getD_set, Array.size_setIfInBounds]
  have : k = 0 ∨ k = 1 ∨ k = 2 ∨ k = 3 ∨ k = 4 ∨ k = 5 ∨ k = 6 ∨ k = 7 := by omega
  rcases this with rfl | rfl | rfl | rfl | rfl | rfl | rfl | rfl
  · rw [e0]; simp; omega
  · rw [e1]; simp; omega
  · rw [e2]; simp; omega
  · rw [e3]; simp; omega
  · rw [e4]; simp; omega
  · rw [e5]; simp; omega
  · rw [e6]; simp; omega
  · rw [e7]; simp; omega

theorem store64_get_out (a : Array Nat) (off v j : Nat) (h : j < off ∨ off + 8 ≤ j) :
    (store64 a off v).getD j 0 = a.getD j 0 := by
  simp only [store64, getD_set, Array.size_setIfInBounds]
  repeat (rw [if_neg (by omega)])

/-- bit `i` of the storage (LSB-first inside each byte) -/
def bitAt (a : Array Nat) (i : Nat) : Bool := (a.getD (i / 8) 0).testBit (i % 8)

/-- the stream written so far: the first `ix` bits of the storage -/
def Sto.bits (s : Sto) : List Bool := (List.range s.ix).map (bitAt s.bytes)

theorem bitsOf_eq (n v : Nat) : bitsOf n v = (List.range n).map v.testBit := by
  induction n generalizing v with
  | zero => rfl
  | succ n ih =>
    rw [List.range_succ_eq_map, List.map_cons, List.map_map, bitsOf, ih]
    congr 1
    · cases hv : v % 2 == 1 <;> simp_all [Nat.testBit_zero]
    · apply List.map_congr_left
      intro i _
      simp [Nat.testBit_succ]

theorem bitAt_store64_in (a : Array Nat) (off v i : Nat) (h : off + 8 ≤ a.size)
    (h1 : 8 * off ≤ i) (h2 : i < 8 * off + 64) :
    bitAt (store64 a off v) i = v.testBit (i - 8 * off) := by
  unfold bitAt
  obtain ⟨k, hk, hik⟩ : ∃ k, k < 8 ∧ i / 8 = off + k := ⟨i / 8 - off, by omega, by omega⟩
  rw [hik, store64_get_in a off v k hk h, wordByte]
  have e : (256 : Nat) = 2 ^ 8 := by decide
  rw [e, Nat.testBit_mod_two_pow, Nat.testBit_div_two_pow]
  have : i % 8 < 8 := Nat.mod_lt _ (by decide)
  simp only [this, decide_true, Bool.true_and]
  congr 1
  omega

theorem bitAt_store64_out (a : Array Nat) (off v i : Nat) (h : i < 8 * off ∨ 8 * off + 64 ≤ i) :
    bitAt (store64 a off v) i = bitAt a i := by
  unfold bitAt
  rw [store64_get_out a off v (i / 8) (by omega)]

/-- (W1) of `BV.Bits`: the partial byte at the write position has no bits at or above the
position; and the storage is not absurdly large (so that `storage_ix` never wraps) -/
structure Good (s : Sto) : Prop where
  clean : s.bytes.getD (s.ix / 8) 0 < 2 ^ (s.ix % 8)
  small : s.bytes.size < 1152921504606846976

/-- `s'` is `s` with the bits `bs` appended: same storage size, position advanced, stream
extended, (W1) again -/
structure Wr (s s' : Sto) (bs : List Bool) : Prop where
  ix : s'.ix = s.ix + bs.length
  size : s'.bytes.size = s.bytes.size
  bits : s'.bits = s.bits ++ bs
  good : Good s'

theorem Wr.refl (s : Sto) (h : Good s) : Wr s s [] := ⟨by simp, rfl, by simp, h⟩

theorem Wr.trans {s s' s'' : Sto} {a b : List Bool} (h1 : Wr s s' a) (h2 : Wr s' s'' b) :
    Wr s s'' (a ++ b) :=
  ⟨by rw [h2.ix, h1.ix, List.length_append]; omega, by rw [h2.size, h1.size],
   by rw [h2.bits, h1.bits, List.append_assoc], h2.good⟩

theorem length_bitsOf (n v : Nat) : (bitsOf n v).length = n := by
  rw [bitsOf_eq]; simp

theorem word_lt (old v k n : Nat) (ho : old < 2 ^ k) (hv : v < 2 ^ n) : old ||| v <<< k < 2 ^ (k + n) := by
  apply Nat.or_lt_two_pow
  · exact Nat.lt_of_lt_of_le ho (Nat.pow_le_pow_right (by decide) (by omega))
  · rw [Nat.shiftLeft_eq, Nat.add_comm, Nat.pow_add]
    exact Nat.mul_lt_mul_of_lt_of_le hv (Nat.le_refl _) (Nat.pow_pos (by decide))

theorem wordByte_lt (w j r : Nat) (h : w < 2 ^ (8 * j + r)) : wordByte w j < 2 ^ r := by
  unfold wordByte
  rw [Nat.pow_add] at h
  have hd : w / 2 ^ (8 * j) < 2 ^ r :=
    (Nat.div_lt_iff_lt_mul (Nat.pow_pos (by decide))).mpr (by rw [Nat.mul_comm]; exact h)
  exact Nat.lt_of_le_of_lt (Nat.mod_le _ _) hd

theorem shift_mod (v k n : Nat) (hv : v < 2 ^ n) (hkn : n + k ≤ 64) : (v * 2 ^ k) % two64 = v <<< k := by
  rw [Nat.shiftLeft_eq]
  apply Nat.mod_eq_of_lt
  have h1 : v * 2 ^ k < 2 ^ n * 2 ^ k :=
    Nat.mul_lt_mul_of_lt_of_le hv (Nat.le_refl _) (Nat.pow_pos (by decide))
  rw [← Nat.pow_add] at h1
  have h2 : 2 ^ (n + k) ≤ 2 ^ 64 := Nat.pow_le_pow_right (by decide) hkn
  exact Nat.lt_of_lt_of_le h1 h2

theorem ix_mod (x : Nat) (h : x < 9223372036854775808) : x % two64 = x :=
  Nat.mod_eq_of_lt (Nat.lt_trans h (by decide))

/-- `BrotliWriteBits` is "append `n` bits" when (W1) holds, the value fits in `n ≤ 56` bits and
8 bytes are left at the end position (hence at the start position) -/
theorem writeBits_ok (n v : Nat) (s : Sto) (hg : Good s) (hv : v < 2 ^ n) (hn : n ≤ 56)
    (hroom : (s.ix + n) / 8 + 8 ≤ s.bytes.size) :
    ∃ s', writeBits n v s = .ok s' ∧ Wr s s' (bitsOf n v) := by
  have hsz := hg.small
  have hoff : s.ix / 8 + 8 ≤ s.bytes.size := by
    have : s.ix / 8 ≤ (s.ix + n) / 8 := Nat.div_le_div_right (by omega)
    omega
  have hk : s.ix % 8 < 8 := Nat.mod_lt _ (by decide)
  have hshift := shift_mod v (s.ix % 8) n hv (by omega)
  have hixm : (s.ix + n) % two64 = s.ix + n := ix_mod _ (by omega)
  have hA : ∀ i, i < s.ix → bitAt (store64 s.bytes (s.ix / 8) (s.bytes.getD (s.ix / 8) 0 ||| v <<< (s.ix % 8))) i
      = bitAt s.bytes i := by
    intro i hi
    by_cases hlow : i < 8 * (s.ix / 8)
    · exact bitAt_store64_out _ _ _ _ (Or.inl hlow)
    · rw [bitAt_store64_in _ _ _ _ hoff (by omega) (by omega), Nat.testBit_or, Nat.testBit_shiftLeft]
      have : ¬ (i - 8 * (s.ix / 8) ≥ s.ix % 8) := by omega
      simp only [this, decide_false, Bool.false_and, Bool.or_false]
      unfold bitAt
      have e1 : i / 8 = s.ix / 8 := by omega
      have e2 : i - 8 * (s.ix / 8) = i % 8 := by omega
      rw [e1, e2]
  have hB : ∀ t, t < n → bitAt (store64 s.bytes (s.ix / 8) (s.bytes.getD (s.ix / 8) 0 ||| v <<< (s.ix % 8))) (s.ix + t)
      = v.testBit t := by
    intro t ht
    rw [bitAt_store64_in _ _ _ _ hoff (by omega) (by omega), Nat.testBit_or, Nat.testBit_shiftLeft]
    have e : s.ix + t - 8 * (s.ix / 8) = s.ix % 8 + t := by omega
    rw [e]
    have hold : (s.bytes.getD (s.ix / 8) 0).testBit (s.ix % 8 + t) = false := by
      apply Nat.testBit_lt_two_pow
      exact Nat.lt_of_lt_of_le hg.clean (Nat.pow_le_pow_right (by decide) (by omega))
    rw [hold]
    simp
  have hC : (store64 s.bytes (s.ix / 8) (s.bytes.getD (s.ix / 8) 0 ||| v <<< (s.ix % 8))).getD ((s.ix + n) / 8) 0
      < 2 ^ ((s.ix + n) % 8) := by
    obtain ⟨k, hk8, hke⟩ : ∃ k, k < 8 ∧ (s.ix + n) / 8 = s.ix / 8 + k :=
      ⟨(s.ix + n) / 8 - s.ix / 8, by omega, by
        have : s.ix / 8 ≤ (s.ix + n) / 8 := Nat.div_le_div_right (by omega)
        omega⟩
    rw [hke, store64_get_in _ _ _ k hk8 hoff]
    have hw := word_lt _ v (s.ix % 8) n hg.clean hv
    have hsplit : s.ix % 8 + n = 8 * k + (s.ix + n) % 8 := by omega
    rw [hsplit] at hw
    exact wordByte_lt _ _ _ hw
  have hD := store64_size s.bytes (s.ix / 8) (s.bytes.getD (s.ix / 8) 0 ||| v <<< (s.ix % 8))
  have hE : writeBits n v s = .ok ⟨store64 s.bytes (s.ix / 8) (s.bytes.getD (s.ix / 8) 0 ||| v <<< (s.ix % 8)), s.ix + n⟩ := by
    unfold writeBits
    rw [if_neg (by omega)]
    simp only [hshift, hixm]
  obtain ⟨B, hBdef⟩ : ∃ B, B = store64 s.bytes (s.ix / 8) (s.bytes.getD (s.ix / 8) 0 ||| v <<< (s.ix % 8)) := ⟨_, rfl⟩
  rw [← hBdef] at hA hB hC hD hE
  refine ⟨⟨B, s.ix + n⟩, hE, ?_⟩
  have hlen := length_bitsOf n v
  refine ⟨by simp [hlen], hD, ?_, ⟨hC, by rw [hD]; exact hsz⟩⟩
  simp only [Sto.bits]
  rw [List.range_add, List.map_append, bitsOf_eq, List.map_map]
  have h1 : List.map (bitAt B) (List.range s.ix) = List.map (bitAt s.bytes) (List.range s.ix) :=
    List.map_congr_left (fun i hi => hA i (List.mem_range.mp hi))
  have h2 : List.map (bitAt B ∘ fun x => s.ix + x) (List.range n) = List.map v.testBit (List.range n) :=
    List.map_congr_left (fun t ht => hB t (List.mem_range.mp ht))
  rw [h1, h2]

end BV.Fragment
