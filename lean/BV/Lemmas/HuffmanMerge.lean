/-
Lemmas for C17 part 3 (c): the leaf collection and the two-queue merge of
`BrotliCreateHuffmanTree` build a full binary tree over exactly the symbols
with a non-zero count.
-/
import BV.Lemmas.HuffmanShape
import BV.Lemmas.HuffmanSort

namespace BV.Lemmas.HuffmanMerge
open BV.Bits BV.Huffman BV.Lemmas.HuffmanCanon BV.Lemmas.HuffmanShape BV.Lemmas.HuffmanSort

/-! ### sums over index ranges -/

/-- `Σ_{a ≤ q < b} F q` -/
def rsum (F : Nat → Nat) (a b : Nat) : Nat := ((List.range' a (b - a)).map F).sum

theorem rsum_empty (F : Nat → Nat) (a b : Nat) (h : b ≤ a) : rsum F a b = 0 := by
  have : b - a = 0 := by omega
  simp [rsum, this]

theorem rsum_head (F : Nat → Nat) (a b : Nat) (h : a < b) :
    rsum F a b = F a + rsum F (a + 1) b := by
  unfold rsum
  have : b - a = (b - (a + 1)) + 1 := by omega
  rw [this, List.range'_succ]
  simp

theorem rsum_tail (F : Nat → Nat) (a b : Nat) (h : a ≤ b) :
    rsum F a (b + 1) = rsum F a b + F b := by
  unfold rsum
  have : b + 1 - a = (b - a) + 1 := by omega
  rw [this, List.range'_concat]
  simp only [List.map_append, List.sum_append, List.map_cons, List.map_nil, List.sum_cons,
    List.sum_nil, Nat.one_mul, Nat.add_zero]
  congr 2; omega

theorem rsum_congr (F F' : Nat → Nat) (a b : Nat) (h : ∀ q, a ≤ q → q < b → F q = F' q) :
    rsum F a b = rsum F' a b := by
  unfold rsum
  congr 1
  apply List.map_congr_left
  intro q hq
  rw [List.mem_range'_1] at hq
  exact h q hq.1 (by omega)

theorem rsum_mem_le (F : Nat → Nat) (a b q : Nat) (h1 : a ≤ q) (h2 : q < b) :
    F q ≤ rsum F a b := by
  induction b with
  | zero => omega
  | succ b ih =>
    rw [rsum_tail F a b (by omega)]
    by_cases hq : q = b
    · subst hq; omega
    · have := ih (by omega); omega

/-! ### weights of trees -/

/-- `Σ_{v ∈ leaves t} g v` -/
def G (g : Nat → Nat) : T → Nat
  | .leaf v => g v
  | .node l r => G g l + G g r

theorem G_eq_sum (g : Nat → Nat) (t : T) : G g t = (t.leaves.map g).sum := by
  induction t with
  | leaf v => simp [G, T.leaves]
  | node l r ihl ihr => simp [G, T.leaves, ihl, ihr]

/-- two lists with the same `g`-sum for every `g` are permutations of each other -/
theorem perm_of_sums (l1 l2 : List Nat) (h : ∀ g : Nat → Nat, (l1.map g).sum = (l2.map g).sum) :
    l1.Perm l2 := by
  rw [List.perm_iff_count]
  intro a
  have cnt : ∀ l : List Nat, List.count a l = (l.map fun x => if x = a then 1 else 0).sum := by
    intro l
    induction l with
    | nil => rfl
    | cons x xs ih =>
      simp only [List.count_cons, List.map_cons, List.sum_cons, ih, beq_iff_eq]
      omega
  rw [cnt, cnt, h]

/-! ### the leaf collection loop -/

/-- symbols `< m` with a non-zero count, in the (descending) order of the loop -/
def descNZ (data : List Nat) : Nat → List Nat
  | 0 => []
  | i + 1 => if data.getD i 0 = 0 then descNZ data i else i :: descNZ data i

theorem mem_descNZ (data : List Nat) (m v : Nat) :
    v ∈ descNZ data m ↔ v < m ∧ data.getD v 0 ≠ 0 := by
  induction m with
  | zero => simp [descNZ]
  | succ m ih =>
    simp only [descNZ]
    by_cases h : data.getD m 0 = 0
    · simp only [h, ↓reduceIte, ih]
      constructor
      · rintro ⟨h1, h2⟩; exact ⟨by omega, h2⟩
      · rintro ⟨h1, h2⟩
        have : v ≠ m := by rintro rfl; exact h2 h
        exact ⟨by omega, h2⟩
    · simp only [h, ↓reduceIte, List.mem_cons, ih]
      constructor
      · rintro (rfl | ⟨h1, h2⟩)
        · exact ⟨by omega, h⟩
        · exact ⟨by omega, h2⟩
      · rintro ⟨h1, h2⟩
        by_cases hv : v = m
        · left; exact hv
        · right; exact ⟨by omega, h2⟩

theorem nodup_descNZ (data : List Nat) (m : Nat) : (descNZ data m).Nodup := by
  induction m with
  | zero => exact List.nodup_nil
  | succ m ih =>
    simp only [descNZ]
    split
    · exact ih
    · rw [List.nodup_cons]
      refine ⟨?_, ih⟩
      rw [mem_descNZ]; omega

theorem length_descNZ_le (data : List Nat) (m : Nat) : (descNZ data m).length ≤ m := by
  induction m with
  | zero => simp [descNZ]
  | succ m ih =>
    simp only [descNZ]
    split
    · omega
    · simp only [List.length_cons]; omega

theorem asI16_of_lt (x : Nat) (h : x < 32768) : asI16 x = (x : Int) := by
  unfold asI16
  have : x % 65536 = x := Nat.mod_eq_of_lt (by omega)
  rw [this, if_pos h]

/-- the leaf written for symbol `v` -/
def leafNode (data : List Nat) (cl v : Nat) : Node := ⟨max (data.getD v 0) cl, -1, (v : Int)⟩

theorem collectLeaves_spec (data : List Nat) (cl : Nat) :
    ∀ (m : Nat) (tree : List Node) (n : Nat), m ≤ data.length → m ≤ 32768 →
    n + (descNZ data m).length ≤ tree.length →
    ∃ tree', collectLeaves data cl m tree n = .ok (tree', n + (descNZ data m).length) ∧
      tree'.length = tree.length ∧
      (∀ q, q < n → tree'[q]? = tree[q]?) ∧
      (∀ k, k < (descNZ data m).length →
        tree'[n + k]? = some (leafNode data cl ((descNZ data m).getD k 0))) := by
  intro m
  induction m with
  | zero =>
    intro tree n _ _ _
    exact ⟨tree, by simp [collectLeaves, descNZ], rfl, fun _ _ => rfl, by simp [descNZ]⟩
  | succ m ih =>
    intro tree n hm h16 hlen
    simp only [collectLeaves]
    rw [getAt_getD data m (by omega)]
    simp only [Out.bind_ok]
    by_cases hd : data.getD m 0 = 0
    · simp only [descNZ, hd, ↓reduceIte, ne_eq, not_true_eq_false] at hlen ⊢
      exact ih tree n (by omega) (by omega) hlen
    · simp only [descNZ, hd, ↓reduceIte, List.length_cons, ne_eq, not_false_eq_true] at hlen ⊢
      rw [setAt_of_lt tree n _ (by omega)]
      simp only [Out.bind_ok]
      obtain ⟨tree', h1, h2, h3, h4⟩ := ih (tree.set n ⟨max (data.getD m 0) cl, -1, asI16 m⟩) (n + 1)
        (by omega) (by omega) (by simp; omega)
      refine ⟨tree', ?_, by simpa using h2, ?_, ?_⟩
      · rw [h1]; congr 2; omega
      · intro q hq
        rw [h3 q (by omega), List.getElem?_set_ne (by omega)]
      · intro k hk
        cases k with
        | zero =>
          rw [Nat.add_zero, h3 n (by omega), List.getElem?_set_self (by omega)]
          simp [leafNode, asI16_of_lt m (by omega)]
        | succ k =>
          have := h4 k (by omega)
          have e : n + (k + 1) = n + 1 + k := by omega
          rw [e, this]; simp


/-! ### the two-queue merge -/

/-- `tree[q].total_count_` (0 outside the slice) -/
def cntAt (pool : List Node) (q : Nat) : Nat :=
  match pool[q]? with
  | some nd => nd.count
  | none => 0

theorem getAt_cnt (pool : List Node) (q : Nat) (h : q < pool.length) :
    ∃ nd, getAt pool q = .ok nd ∧ pool[q]? = some nd ∧ nd.count = cntAt pool q := by
  refine ⟨pool[q], getAt_of_lt pool q h, List.getElem?_eq_getElem h, ?_⟩
  simp [cntAt, List.getElem?_eq_getElem h]

/-- `q` is the root of a subtree not yet merged: an unconsumed leaf `i ≤ q < n`
or an unconsumed inner node `j ≤ q < e` -/
def Avail (n i j e q : Nat) : Prop := (i ≤ q ∧ q < n) ∨ (j ≤ q ∧ q < e)

/-- which queue a selection took from, and why -/
def PickRel (pool : List Node) (i j x i' j' : Nat) : Prop :=
  (x = i ∧ cntAt pool i ≤ cntAt pool j ∧ i' = i + 1 ∧ j' = j) ∨
  (x = j ∧ cntAt pool j < cntAt pool i ∧ i' = i ∧ j' = j + 1)

/-- One `if tree[i].count <= tree[j].count { i++ } else { j++ }` selection:
with both sentinels in place and every available count below `u32::MAX`, it
selects an available root. -/
theorem pick (n e i j : Nat) (pool : List Node) (hi : i ≤ n) (hj : j ≤ e) (hnj : n < j)
    (hsn : pool[n]? = some sentinel) (hse : pool[e]? = some sentinel)
    (havail : 1 ≤ (n - i) + (e - j))
    (hc : ∀ q, Avail n i j e q → cntAt pool q < 4294967295) :
    ∃ x i' j', (if cntAt pool i ≤ cntAt pool j then (i, i + 1, j) else (j, i, j + 1)) = (x, i', j') ∧
      Avail n i j e x ∧ i ≤ i' ∧ i' ≤ n ∧ j ≤ j' ∧ j' ≤ e ∧
      (n - i') + (e - j') + 1 = (n - i) + (e - j) ∧
      (∀ F : Nat → Nat, rsum F i n + rsum F j e = F x + (rsum F i' n + rsum F j' e)) ∧
      (∀ q, Avail n i' j' e q → Avail n i j e q ∧ q ≠ x) ∧ PickRel pool i j x i' j' := by
  have csn : cntAt pool n = 4294967295 := by simp [cntAt, hsn, sentinel]
  have cse : cntAt pool e = 4294967295 := by simp [cntAt, hse, sentinel]
  by_cases hle : cntAt pool i ≤ cntAt pool j
  · -- takes the leaf queue
    have hin : i < n := by
      by_cases h : i = n
      · subst h
        rw [csn] at hle
        have hje : j = e := by
          by_cases h2 : j < e
          · have := hc j (Or.inr ⟨Nat.le_refl _, h2⟩); omega
          · omega
        omega
      · omega
    refine ⟨i, i + 1, j, by rw [if_pos hle], Or.inl ⟨Nat.le_refl _, hin⟩, by omega, by omega,
      Nat.le_refl _, hj, by omega, ?_, ?_, Or.inl ⟨rfl, hle, rfl, rfl⟩⟩
    · intro F; rw [rsum_head F i n hin]; omega
    · intro q hq
      rcases hq with ⟨h1, h2⟩ | ⟨h1, h2⟩
      · exact ⟨Or.inl ⟨by omega, h2⟩, by omega⟩
      · exact ⟨Or.inr ⟨h1, h2⟩, by omega⟩
  · have hje : j < e := by
      by_cases h : j = e
      · subst h
        rw [cse] at hle
        by_cases h2 : i < n
        · have := hc i (Or.inl ⟨Nat.le_refl _, h2⟩); omega
        · have : i = n := by omega
          subst this; omega
      · omega
    refine ⟨j, i, j + 1, by rw [if_neg hle], Or.inr ⟨Nat.le_refl _, hje⟩, Nat.le_refl _, hi,
      by omega, by omega, by omega, ?_, ?_, Or.inr ⟨rfl, by omega, rfl, rfl⟩⟩
    · intro F; rw [rsum_head F j e hje]; omega
    · intro q hq
      rcases hq with ⟨h1, h2⟩ | ⟨h1, h2⟩
      · exact ⟨Or.inl ⟨h1, h2⟩, by omega⟩
      · exact ⟨Or.inr ⟨by omega, h2⟩, by omega⟩

/-- invariant of the merge loop with `k` merges to go (`e = 2n - k` is the
index of the next inner node; `tr q` is the subtree rooted at `q`; `w` the leaf
weights, `lv` the leaf symbols) -/
structure MInv (n : Nat) (w : Nat → Nat) (lv : List Nat) (k : Nat) (pool : List Node)
    (i j : Nat) (tr : Nat → T) : Prop where
  hk : k + 1 ≤ n
  hi : i ≤ n
  hj1 : n + 1 ≤ j
  hj2 : j ≤ 2 * n - k
  hcount : (n - i) + (2 * n - k - j) = k + 1
  hlen : 2 * n + 1 ≤ pool.length
  h16 : 2 * n < 32768
  hsn : pool[n]? = some sentinel
  hse : pool[2 * n - k]? = some sentinel
  htree : ∀ q, Avail n i j (2 * n - k) q → IsTree pool q (tr q) ∧ cntAt pool q = G w (tr q)
  hsum : ∀ g : Nat → Nat,
    rsum (fun q => G g (tr q)) i n + rsum (fun q => G g (tr q)) j (2 * n - k) = (lv.map g).sum
  hW : (lv.map w).sum < 4294967295
  hfresh : j < 2 * n - k ∨ k + 1 = n

theorem MInv.cnt_le {n w lv k pool i j tr} (h : MInv n w lv k pool i j tr) (q : Nat)
    (hq : Avail n i j (2 * n - k) q) : cntAt pool q ≤ (lv.map w).sum := by
  rw [(h.htree q hq).2, ← h.hsum w]
  rcases hq with ⟨h1, h2⟩ | ⟨h1, h2⟩
  · have := rsum_mem_le (fun q => G w (tr q)) i n q h1 h2
    omega
  · have := rsum_mem_le (fun q => G w (tr q)) j (2 * n - k) q h1 h2
    omega


theorem cntAt_set_ne (pool : List Node) (a q : Nat) (nd : Node) (h : a ≠ q) :
    cntAt (pool.set a nd) q = cntAt pool q := by
  simp [cntAt, List.getElem?_set_ne h]

/-- the pool after one merge step -/
def stepPool (pool : List Node) (e x y : Nat) : List Node :=
  (pool.set e ⟨cntAt pool x + cntAt pool y, (x : Int), (y : Int)⟩).set (e + 1) sentinel

/-- the subtree function after one merge step -/
def stepTr (tr : Nat → T) (e x y : Nat) : Nat → T :=
  fun q => if q = e then .node (tr x) (tr y) else tr q

/-- one iteration of the merge loop under the invariant -/
theorem mergeStep (n : Nat) (w : Nat → Nat) (lv : List Nat) (k : Nat) (pool : List Node)
    (i j : Nat) (tr : Nat → T) (h : MInv n w lv (k + 1) pool i j tr) :
    ∃ x y i1 j1 i2 j2,
      Avail n i j (2 * n - (k + 1)) x ∧ Avail n i j (2 * n - (k + 1)) y ∧ y ≠ x ∧
      PickRel pool i j x i1 j1 ∧ PickRel pool i1 j1 y i2 j2 ∧
      (∀ q, Avail n i1 j1 (2 * n - (k + 1)) q → Avail n i j (2 * n - (k + 1)) q ∧ q ≠ x) ∧
      (∀ q, Avail n i2 j2 (2 * n - (k + 1)) q → Avail n i1 j1 (2 * n - (k + 1)) q ∧ q ≠ y) ∧
      i ≤ i1 ∧ i1 ≤ i2 ∧ i2 ≤ n ∧ j ≤ j1 ∧ j1 ≤ j2 ∧ j2 ≤ 2 * n - (k + 1) ∧
      mergeLoop n (k + 1) pool i j
        = mergeLoop n k (stepPool pool (2 * n - (k + 1)) x y) i2 j2 ∧
      MInv n w lv k (stepPool pool (2 * n - (k + 1)) x y) i2 j2 (stepTr tr (2 * n - (k + 1)) x y) ∧
      (∀ q, q < 2 * n - (k + 1) →
        (stepPool pool (2 * n - (k + 1)) x y)[q]? = pool[q]?) ∧
      cntAt (stepPool pool (2 * n - (k + 1)) x y) (2 * n - (k + 1)) = cntAt pool x + cntAt pool y ∧
      (stepPool pool (2 * n - (k + 1)) x y).length = pool.length := by
  obtain ⟨e, he⟩ : ∃ e, e = 2 * n - (k + 1) := ⟨_, rfl⟩
  have hk := h.hk
  have hi := h.hi
  have hj1 := h.hj1
  have hj2 := h.hj2
  have hcount := h.hcount
  have hlen := h.hlen
  have h16 := h.h16
  have hsn := h.hsn
  have hse := h.hse
  have htree := h.htree
  have hsum := h.hsum
  have hW := h.hW
  rw [← he] at hj2 hcount hse htree hsum ⊢
  have hen : n + 1 ≤ e := by omega
  have he2 : e + 1 = 2 * n - k := by omega
  have hcMAX : ∀ q, Avail n i j e q → cntAt pool q < 4294967295 := by
    intro q hq
    have := h.cnt_le q (by rw [← he]; exact hq)
    omega
  -- first selection
  obtain ⟨x, i1, j1, hp1, hax, hii1, hi1n, hjj1, hj1e, hc1, hs1, hsub1, hrel1⟩ :=
    pick n e i j pool hi hj2 (by omega) hsn hse (by omega) hcMAX
  -- second selection
  obtain ⟨y, i2, j2, hp2, hay1, hii2, hi2n, hjj2, hj2e, hc2, hs2, hsub2, hrel2⟩ :=
    pick n e i1 j1 pool hi1n hj1e (by omega) hsn hse (by omega)
      (fun q hq => hcMAX q (hsub1 q hq).1)
  have hay : Avail n i j e y := (hsub1 y hay1).1
  have hxy : y ≠ x := (hsub1 y hay1).2
  have hxe : x < e := by rcases hax with ⟨_, h2⟩ | ⟨_, h2⟩ <;> omega
  have hye : y < e := by rcases hay with ⟨_, h2⟩ | ⟨_, h2⟩ <;> omega
  -- the reads
  obtain ⟨ti, hti, _, htic⟩ := getAt_cnt pool i (by omega)
  obtain ⟨tj, htj, _, htjc⟩ := getAt_cnt pool j (by omega)
  obtain ⟨ti1, hti1, _, hti1c⟩ := getAt_cnt pool i1 (by omega)
  obtain ⟨tj1, htj1, _, htj1c⟩ := getAt_cnt pool j1 (by omega)
  obtain ⟨tx, htx, htx', htxc⟩ := getAt_cnt pool x (by omega)
  obtain ⟨ty, hty, hty', htyc⟩ := getAt_cnt pool y (by omega)
  -- weights
  have hwx := (htree x hax).2
  have hwy := (htree y hay).2
  have hsumw := hsum w
  rw [hs1, hs2] at hsumw
  have hnowrap : (tx.count + ty.count) % 4294967296 = tx.count + ty.count := by
    apply Nat.mod_eq_of_lt
    rw [htxc, htyc, hwx, hwy]; omega
  have hrun : mergeLoop n (k + 1) pool i j = mergeLoop n k (stepPool pool e x y) i2 j2 := by
    simp only [mergeLoop, hti, htj, Out.bind_ok, htic, htjc, hp1, hti1, htj1, hti1c, htj1c, hp2,
      htx, hty, ← he, hnowrap, asI16_of_lt x (by omega), asI16_of_lt y (by omega)]
    rw [setAt_of_lt pool e _ (by omega)]
    simp only [Out.bind_ok]
    rw [setAt_of_lt _ (e + 1) _ (by simp; omega)]
    simp only [Out.bind_ok, stepPool, htxc, htyc]
  -- the new state
  have hsame : ∀ r, r < e → (stepPool pool e x y)[r]? = pool[r]? := by
    intro r hr
    unfold stepPool
    rw [List.getElem?_set_ne (by omega), List.getElem?_set_ne (by omega)]
  have hp2e : (stepPool pool e x y)[e]? =
      some ⟨cntAt pool x + cntAt pool y, (x : Int), (y : Int)⟩ := by
    unfold stepPool
    rw [List.getElem?_set_ne (by omega), List.getElem?_set_self (by omega)]
  have hl2 : (stepPool pool e x y).length = pool.length := by unfold stepPool; simp
  have hinv : MInv n w lv k (stepPool pool e x y) i2 j2 (stepTr tr e x y) := by
    refine
      { hk := by omega, hi := hi2n, hj1 := by omega, hj2 := by omega, hcount := by omega,
        hlen := by rw [hl2]; exact hlen,
        h16 := h16, hsn := by rw [hsame n (by omega)]; exact hsn,
        hse := ?_, htree := ?_, hsum := ?_, hW := hW, hfresh := Or.inl (by omega) }
    · rw [← he2]
      unfold stepPool
      rw [List.getElem?_set_self (by simp; omega)]
    · intro q hq
      rw [← he2] at hq
      by_cases hqe : q = e
      · subst hqe
        have htx2 : IsTree (stepPool pool q x y) x (tr x) :=
          (htree x hax).1.frame (fun r hr => hsame r (by omega))
        have hty2 : IsTree (stepPool pool q x y) y (tr y) :=
          (htree y hay).1.frame (fun r hr => hsame r (by omega))
        refine ⟨?_, ?_⟩
        · simp only [stepTr, ↓reduceIte]
          exact .node hp2e hxe hye htx2 hty2
        · simp only [stepTr, ↓reduceIte, cntAt, hp2e, G]
          rw [← hwx, ← hwy]; rfl
      · have hq' : Avail n i2 j2 e q := by
          rcases hq with h1 | ⟨h1, h2⟩
          · exact Or.inl h1
          · exact Or.inr ⟨h1, by omega⟩
        have hq0 : Avail n i j e q := (hsub1 q (hsub2 q hq').1).1
        have hqlt : q < e := by rcases hq0 with ⟨_, h2⟩ | ⟨_, h2⟩ <;> omega
        refine ⟨?_, ?_⟩
        · simp only [stepTr, hqe, ↓reduceIte]
          exact (htree q hq0).1.frame (fun r hr => hsame r (by omega))
        · simp only [stepTr, hqe, ↓reduceIte]
          rw [← (htree q hq0).2]
          simp only [cntAt, hsame q hqlt]
    · intro g
      rw [← he2, rsum_tail _ j2 e hj2e]
      have c1 : rsum (fun q => G g (stepTr tr e x y q)) i2 n = rsum (fun q => G g (tr q)) i2 n := by
        apply rsum_congr
        intro q _ h2
        simp only [stepTr]
        rw [if_neg (by omega)]
      have c2 : rsum (fun q => G g (stepTr tr e x y q)) j2 e = rsum (fun q => G g (tr q)) j2 e := by
        apply rsum_congr
        intro q _ h2
        simp only [stepTr]
        rw [if_neg (by omega)]
      have c3 : G g (stepTr tr e x y e) = G g (tr x) + G g (tr y) := by
        simp only [stepTr, ↓reduceIte]; rfl
      rw [c1, c2, c3, ← hsum g, hs1, hs2]
      omega
  refine ⟨x, y, i1, j1, i2, j2, hax, hay, hxy, hrel1, hrel2, hsub1, hsub2, hii1, hii2, hi2n, hjj1,
    hjj2, hj2e, hrun, hinv, hsame, ?_, hl2⟩
  simp only [cntAt, hp2e]

theorem mergeLoop_spec (n : Nat) (w : Nat → Nat) (lv : List Nat) :
    ∀ (k : Nat) (pool : List Node) (i j : Nat) (tr : Nat → T), MInv n w lv k pool i j tr →
    ∃ pool' i' j' tr', mergeLoop n k pool i j = .ok pool' ∧ MInv n w lv 0 pool' i' j' tr' ∧
      pool'.length = pool.length := by
  intro k
  induction k with
  | zero => intro pool i j tr h; exact ⟨pool, i, j, tr, rfl, h, rfl⟩
  | succ k ih =>
    intro pool i j tr h
    obtain ⟨x, y, i1, j1, i2, j2, _, _, _, _, _, _, _, _, _, _, _, _, _, hrun, hinv, _, _, hl2⟩ :=
      mergeStep n w lv k pool i j tr h
    obtain ⟨pool', i', j', tr'', hm, hinv', hl'⟩ := ih _ i2 j2 _ hinv
    exact ⟨pool', i', j', tr'', by rw [hrun]; exact hm, hinv', by rw [hl', hl2]⟩

end BV.Lemmas.HuffmanMerge
