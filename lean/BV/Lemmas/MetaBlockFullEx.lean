/-
C01 / meta-block writers, part 23: executable forms of the hypotheses of `full_metablock_roundtrip`
(`Covers`, `faithful`, `HistosOK`), for non-vacuity examples.
-/
import BV.Lemmas.MetaBlockFullAsm

namespace BV.MetaBlock
open BV.Gen BV.Bits BV.Huffman BV.PrefixArith BV.Recoder

def coversB (histos : List (List Nat)) (eff : List Nat) (m : Nat) : List Nat → List (Nat × Nat) → Bool
  | _, [] => true
  | [], _ :: _ => false
  | t :: ts, (ctx, sym) :: ss =>
    decide ((histos.getD (eff.getD (t * m + ctx) 0) []).getD sym 0 ≠ 0) && coversB histos eff m ts ss

theorem covers_of_B (histos : List (List Nat)) (eff : List Nat) (m : Nat) : ∀ (ts : List Nat) (ss : List (Nat × Nat)),
    coversB histos eff m ts ss = true → Covers histos eff m ts ss := by
  intro ts ss
  induction ss generalizing ts with
  | nil => intro _; cases ts <;> trivial
  | cons s ss ih =>
    intro h
    obtain ⟨ctx, sym⟩ := s
    cases ts with
    | nil => simp [coversB] at h
    | cons t ts =>
      simp only [coversB, Bool.and_eq_true, decide_eq_true_eq] at h
      exact ⟨h.1, ih ts h.2⟩

def faithfulB (wo : WordOracle) (np nd window : Nat) (mb hist : Bytes) : DecSt → List Cmd → Bool
  | _, [] => true
  | s, c :: cs =>
    match decStep wo np nd window mb s c with
    | none => false
    | some s' => decide (s'.out = hist ++ mb.take s'.cursor) && faithfulB wo np nd window mb hist s' cs

theorem faithful_of_B (wo : WordOracle) (np nd window : Nat) (mb hist : Bytes) : ∀ (cs : List Cmd) (s : DecSt),
    faithfulB wo np nd window mb hist s cs = true → faithful wo np nd window mb hist s cs := by
  intro cs
  induction cs with
  | nil => intro s _; trivial
  | cons c cs ih =>
    intro s h
    simp only [faithfulB] at h
    simp only [faithful]
    cases hd : decStep wo np nd window mb s c with
    | none => rw [hd] at h; cases h
    | some s' =>
      rw [hd] at h
      simp only [Bool.and_eq_true, decide_eq_true_eq] at h ⊢
      exact ⟨h.1, ih s' h.2⟩

def histosB (histos : List (List Nat)) (size H A : Nat) : Bool :=
  decide (size ≤ histos.length) && decide (1 ≤ size) && decide (size ≤ 256) &&
    (List.range size).all fun i => decide (H ≤ (histos.getD i []).length) && decide ((histos.getD i []).sum ≤ 2 ^ 25) &&
      (List.range (histos.getD i []).length).all fun k => decide (k < A) || decide ((histos.getD i []).getD k 0 = 0)

theorem histosOK_of_B (histos : List (List Nat)) (size H A : Nat) (h : histosB histos size H A = true) :
    HistosOK histos size H A := by
  simp only [histosB, Bool.and_eq_true, decide_eq_true_eq, List.all_eq_true, List.mem_range, Bool.or_eq_true] at h
  obtain ⟨⟨⟨h1, h2⟩, h3⟩, h4⟩ := h
  refine ⟨h1, h2, h3, fun i hi => ?_⟩
  obtain ⟨⟨a, b⟩, c⟩ := h4 i hi
  refine ⟨a, b, fun k hk => ?_⟩
  rcases Nat.lt_or_ge k (histos.getD i []).length with hl | hl
  · rcases c k hl with h5 | h5
    · omega
    · exact h5
  · rw [List.getD_eq_getElem?_getD, List.getElem?_eq_none hl]; rfl

end BV.MetaBlock
