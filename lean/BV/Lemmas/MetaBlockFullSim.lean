/-
C01 / meta-block writers, part 17: the command loop of `store_meta_block` (three block encoders, block
switches, literal and distance contexts) read by `readCommandsG` is a run of C14's RFC decoder `decSteps`
on the same raw command array.
-/
import BV.Lemmas.MetaBlockCtx
import BV.Lemmas.MetaBlockSim
import BV.Lemmas.MetaBlockHisto

namespace BV.MetaBlock
open BV.Gen BV.Bits BV.Huffman BV.PrefixArith BV.Recoder
open BV.Header (writeBits_ok)
open BV.Lemmas.HuffmanRead (takeBits_bitsOf)

/-! ### one category: constants and invariant -/

/-- everything about one category that does not change inside the command loop -/
structure CatEnv where
  s : BSplit
  H : Nat
  cb : Nat
  cmap : List Nat
  cmapSize : Nat
  histos : List (List Nat)
  size : Nat
  codes : List Code
  d : List Nat
  b : List Nat

def CatEnv.mult (C : CatEnv) : Nat := if C.cmapSize = 0 then C.H else 2 ^ C.cb
def CatEnv.eff (C : CatEnv) : List Nat := effMap C.cmap C.cmapSize C.s.numTypes (2 ^ C.cb)

structure CatEnv.OK (C : CatEnv) : Prop where
  split : SplitOK C.s
  cb6 : C.cb ≤ 6
  h704 : C.H ≤ 704
  io : ∀ i, i < C.size → ∀ sy, sy < C.H → (C.histos.getD i []).getD sy 0 ≠ 0 →
    SymIOAt C.d C.b (i * C.H) (C.codes.getD i (Code.single 0)) sy
  sz : C.size ≤ 256
  clen : C.codes.length = C.size
  z : C.cmapSize = 0 → C.s.numTypes ≤ C.size
  cl : C.cmapSize ≠ 0 → C.s.numTypes * 2 ^ C.cb ≤ C.cmap.length
  cm : C.cmapSize ≠ 0 → ∀ k, k < C.s.numTypes * 2 ^ C.cb → C.cmap.getD k 0 < C.size

theorem CatEnv.OK.eff_len {C : CatEnv} (h : C.OK) : C.s.numTypes * 2 ^ C.cb ≤ C.eff.length := by
  unfold CatEnv.eff effMap
  by_cases hz : C.cmapSize = 0
  · rw [if_pos hz, trivialMap_length]; exact Nat.le_refl _
  · rw [if_neg hz]; exact h.cl hz

theorem CatEnv.OK.eff_lt {C : CatEnv} (h : C.OK) (t ctx : Nat) (ht : t < C.s.numTypes) (hc : ctx < 2 ^ C.cb) :
    C.eff.getD (t * 2 ^ C.cb + ctx) 0 < C.size := by
  unfold CatEnv.eff effMap
  by_cases hz : C.cmapSize = 0
  · rw [if_pos hz, trivialMap_get _ _ _ _ ht hc]; have := h.z hz; omega
  · rw [if_neg hz]
    apply h.cm hz
    have : t * 2 ^ C.cb + ctx < (t + 1) * 2 ^ C.cb := by rw [Nat.add_mul, Nat.one_mul]; omega
    have : (t + 1) * 2 ^ C.cb ≤ C.s.numTypes * 2 ^ C.cb := Nat.mul_le_mul_right _ (by omega)
    omega

/-- the block encoder of the category and the reader's `Cat` in lock step -/
structure EncAt (C : CatEnv) (e : BEnc) (cat : Cat) (j : Nat) : Prop where
  inv : EncInv C.s C.mult e cat j
  d : e.depths = C.d
  b : e.bits = C.b
  h : e.histLen = C.H

/-- the histograms cover the symbols in the order they are emitted: `types` are the block types of the coming
symbols, each symbol comes with its context; `eff` is the context map as the reader holds it, `m` the number
of contexts per block type -/
def Covers (histos : List (List Nat)) (eff : List Nat) (m : Nat) : List Nat → List (Nat × Nat) → Prop
  | _, [] => True
  | [], _ :: _ => False
  | t :: ts, (ctx, sym) :: ss =>
    (histos.getD (eff.getD (t * m + ctx) 0) []).getD sym 0 ≠ 0 ∧ Covers histos eff m ts ss

def CatEnv.covers (C : CatEnv) : List Nat → List (Nat × Nat) → Prop := Covers C.histos C.eff (2 ^ C.cb)

/-- one symbol of the category -/
theorem CatEnv.step (C : CatEnv) (hC : C.OK) (e : BEnc) (cat : Cat) (j sym ctx : Nat) (ss : List (Nat × Nat))
    (hA : EncAt C e cat j) (hsym : sym < C.H) (hctx : ctx < 2 ^ C.cb)
    (hcov : C.covers (remTypes C.s j e.blockLen) ((ctx, sym) :: ss)) :
    ∃ b1 b2 e' cat' j' t, (∀ w, (if C.cmapSize = 0 then e.storeSymbol sym w else e.storeSymbolCtx sym ctx C.cmap C.cb w)
        = .ok (e', w ++ b1 ++ b2)) ∧
      (∀ rest, cat.next (b1 ++ rest) = some (cat', rest)) ∧ cat'.btype = t ∧ t < C.s.numTypes ∧
      (∀ rest, (C.codes.getD (C.eff.getD (t * 2 ^ C.cb + ctx) 0) (Code.single 0)).read (b2 ++ rest) = some (sym, rest)) ∧
      EncAt C e' cat' j' ∧ C.covers (remTypes C.s j' e'.blockLen) ss := by
  cases hrt : remTypes C.s j e.blockLen with
  | nil => rw [hrt] at hcov; exact absurd hcov (by simp [CatEnv.covers, Covers])
  | cons t tl =>
    rw [hrt] at hcov
    obtain ⟨hc1, hc2⟩ := hcov
    obtain ⟨b1, b2, e', cat', j', a1, a2, a3, a4, a5, a6, a7, a8, a9, a10⟩ := ctxSymbol_step C.s hC.split e cat j C.H C.cb
      C.codes C.histos C.cmap C.cmapSize C.size sym ctx t tl hA.h hA.inv hC.cb6 hC.h704 hrt hsym hctx
      (by rw [hA.d, hA.b]; exact hC.io) hC.sz hC.z hC.cl hC.cm hc1
    exact ⟨b1, b2, e', cat', j', t, a1, a2, a3, a4, a5, ⟨a6, by rw [a8, hA.d], by rw [a9, hA.b], a10⟩, by rw [a7]; exact hc2⟩

/-! ### the two context bytes -/

def lastB (out : Bytes) : Nat := if out.length ≥ 1 then out.getD (out.length - 1) 0 else 0
def last2B (out : Bytes) : Nat := if out.length ≥ 2 then out.getD (out.length - 2) 0 else 0

theorem lastB_snoc (out : Bytes) (b : Nat) : lastB (out ++ [b]) = b := by
  unfold lastB
  rw [if_pos (by simp), List.getD_eq_getElem?_getD, List.getElem?_append_right (by simp)]
  simp

theorem last2B_snoc (out : Bytes) (b : Nat) : last2B (out ++ [b]) = lastB out := by
  unfold last2B lastB
  by_cases h : out.length ≥ 1
  · have hl : (out ++ [b]).length = out.length + 1 := by rw [List.length_append, List.length_singleton]
    rw [if_pos (by rw [hl]; omega), if_pos h, List.getD_eq_getElem?_getD, List.getElem?_append_left (by rw [hl]; omega),
      ← List.getD_eq_getElem?_getD, hl, show out.length + 1 - 2 = out.length - 1 by omega]
  · have hl : (out ++ [b]).length = out.length + 1 := by rw [List.length_append, List.length_singleton]
    rw [if_neg (by rw [hl]; omega), if_neg h]

theorem lastB_lt (out : Bytes) (h : ∀ b ∈ out, b < 256) : lastB out < 256 := by
  unfold lastB
  by_cases h1 : out.length ≥ 1
  · rw [if_pos h1]; exact h _ (getD_mem out _ (by omega))
  · rw [if_neg h1]; decide

theorem last2B_lt (out : Bytes) (h : ∀ b ∈ out, b < 256) : last2B out < 256 := by
  unfold last2B
  by_cases h1 : out.length ≥ 2
  · rw [if_pos h1]; exact h _ (getD_mem out _ (by omega))
  · rw [if_neg h1]; decide

/-- the (context, literal) pairs of a run of literals behind the output `out` -/
def litCtxs (mode : Nat) : Bytes → List Nat → List (Nat × Nat)
  | _, [] => []
  | out, b :: bs => (rfcLiteralContext mode (lastB out) (last2B out), b) :: litCtxs mode (out ++ [b]) bs

theorem getElem?_getD' {α : Type} (l : List α) (i : Nat) (d : α) (h : i < l.length) : l[i]? = some (l.getD i d) := by
  rw [List.getD_eq_getElem?_getD, List.getElem?_eq_getElem h]
  rfl

/-! ### the literal loop -/

/-- the parts of the meta-block that are constant in the command loop, literal side -/
structure LitEnv where
  L : CatEnv
  ring : Bytes
  mask : Nat
  start : Nat
  mb : Bytes
  mode : Nat
  mbs : MBSplit
  T : Trees

structure LitEnv.OK (E : LitEnv) : Prop where
  l : E.L.OK
  cb : E.L.cb = 6
  hH : E.L.H = 256
  ring : RingHolds E.ring E.mask E.start E.mb
  mode : E.mode < 4
  cmap : E.mbs.litCmap = E.L.cmap
  csize : E.mbs.litCmapSize = E.L.cmapSize
  modes : E.T.modes = List.replicate E.L.s.numTypes E.mode
  tmap : E.T.cmapL = E.L.eff
  tlit : E.T.lit = E.L.codes
  bytes : ∀ b ∈ E.mb, b < 256

theorem fullLits_sim (E : LitEnv) (hE : E.OK) : ∀ (n k : Nat) (st : FullSt) (cat : Cat) (j : Nat) (out : Bytes)
    (ss : List (Nat × Nat)), k + n ≤ E.mb.length → st.pos = posOf E.start k → EncAt E.L st.litE cat j →
    (∀ b ∈ out, b < 256) → (E.L.cmapSize ≠ 0 → st.prev = lastB out ∧ st.prev2 = last2B out) →
    E.L.covers (remTypes E.L.s j st.litE.blockLen) (litCtxs E.mode out ((E.mb.drop k).take n) ++ ss) →
    ∃ lb st' cat' j', fullLits E.ring E.mask E.mode E.mbs n st = .ok st' ∧ st'.w = st.w ++ lb ∧
      st'.pos = posOf E.start (k + n) ∧ st'.cmdE = st.cmdE ∧ st'.distE = st.distE ∧ EncAt E.L st'.litE cat' j' ∧
      (E.L.cmapSize ≠ 0 → st'.prev = lastB (out ++ (E.mb.drop k).take n) ∧
        st'.prev2 = last2B (out ++ (E.mb.drop k).take n)) ∧
      E.L.covers (remTypes E.L.s j' st'.litE.blockLen) ss ∧
      ∀ rest, readLiteralsG E.T n cat out (lb ++ rest) = some (cat', out ++ (E.mb.drop k).take n, rest) := by
  intro n
  induction n with
  | zero =>
    intro k st cat j out ss _ hp hA _ hpv hcov
    refine ⟨[], st, cat, j, rfl, by simp, by simpa using hp, rfl, rfl, hA, by simpa using hpv, by simpa [litCtxs] using hcov, ?_⟩
    intro rest
    simp [readLiteralsG]
  | succ n ih =>
    intro k st cat j out ss hk hp hA hout hpv hcov
    have hk' : k < E.mb.length := by omega
    rw [drop_take_succ E.mb k n hk'] at hcov ⊢
    obtain ⟨bl, hbl⟩ : ∃ bl, bl = E.mb.getD k 0 := ⟨_, rfl⟩
    rw [← hbl] at hcov ⊢
    have hb256 : bl < 256 := by rw [hbl]; exact hE.bytes _ (getD_mem _ _ hk')
    have p6 : (2 : Nat) ^ 6 = 64 := by decide
    obtain ⟨cx1, cx2⟩ := contextOf_eq (lastB out) (last2B out) E.mode (lastB_lt out hout) (last2B_lt out hout)
    obtain ⟨ctx, hctx⟩ : ∃ ctx, ctx = rfcLiteralContext E.mode (lastB out) (last2B out) := ⟨_, rfl⟩
    rw [← hctx] at cx1 cx2
    have hcov' : E.L.covers (remTypes E.L.s j st.litE.blockLen) ((ctx, bl) :: (litCtxs E.mode (out ++ [bl])
        ((E.mb.drop (k + 1)).take n) ++ ss)) := by
      rw [hctx]; simpa [litCtxs] using hcov
    obtain ⟨b1, b2, e', cat', j', t, a1, a2, a3, a4, a5, a6, a7⟩ := E.L.step hE.l st.litE cat j bl ctx _ hA
      (by rw [hE.hH]; exact hb256) (by rw [hE.cb, p6]; exact cx2) hcov'
    -- the writer's state after this literal
    obtain ⟨st1, hst1⟩ : ∃ st1 : FullSt, st1 = (if E.L.cmapSize = 0
        then { st with litE := e', w := st.w ++ b1 ++ b2, pos := (st.pos + 1) % two64 }
        else { st with litE := e', w := st.w ++ b1 ++ b2, prev2 := st.prev, prev := bl, pos := (st.pos + 1) % two64 }) :=
      ⟨_, rfl⟩
    have s1w : st1.w = st.w ++ b1 ++ b2 := by rw [hst1]; split <;> rfl
    have s1p : st1.pos = posOf E.start (k + 1) := by
      have : st1.pos = (st.pos + 1) % two64 := by rw [hst1]; split <;> rfl
      rw [this, hp, posOf_add]
    have s1l : st1.litE = e' := by rw [hst1]; split <;> rfl
    have s1c : st1.cmdE = st.cmdE := by rw [hst1]; split <;> rfl
    have s1d : st1.distE = st.distE := by rw [hst1]; split <;> rfl
    have s1v : E.L.cmapSize ≠ 0 → st1.prev = lastB (out ++ [bl]) ∧ st1.prev2 = last2B (out ++ [bl]) := by
      intro hz
      rw [hst1, if_neg hz, lastB_snoc, last2B_snoc]
      exact ⟨rfl, (hpv hz).1⟩
    obtain ⟨lb, st', cat'', j'', i1, i2, i3, i4, i5, i6, i7, i8, i9⟩ := ih (k + 1) st1 cat' j' (out ++ [bl]) ss (by omega) s1p
      (by rw [s1l]; exact a6)
      (fun b hb => by
        rcases List.mem_append.mp hb with h | h
        · exact hout b h
        · rw [List.mem_singleton.mp h]; exact hb256)
      s1v (by rw [s1l]; exact a7)
    refine ⟨b1 ++ b2 ++ lb, st', cat'', j'', ?_, by rw [i2, s1w]; simp [List.append_assoc],
      by rw [i3]; congr 1; omega, by rw [i4, s1c], by rw [i5, s1d], i6, ?_, i8, ?_⟩
    · unfold fullLits
      rw [hp, hE.ring k hk', Out.bind_ok, ← hbl, hE.csize]
      by_cases hz : E.L.cmapSize = 0
      · rw [if_pos hz] at hst1
        have a1' : ∀ w, st.litE.storeSymbol bl w = .ok (e', w ++ b1 ++ b2) := fun w => by
          have := a1 w; rwa [if_pos hz] at this
        rw [if_pos hz, a1', Out.bind_ok]
        simp only
        rw [← hp, ← hst1]
        exact i1
      · rw [if_neg hz] at hst1
        have a1' : ∀ w, st.litE.storeSymbolCtx bl ctx E.L.cmap E.L.cb w = .ok (e', w ++ b1 ++ b2) := fun w => by
          have := a1 w; rwa [if_neg hz] at this
        obtain ⟨v1, v2⟩ := hpv hz
        rw [if_neg hz, v1, v2, cx1, Out.bind_ok, hE.cmap, ← hE.cb, a1', Out.bind_ok]
        simp only
        rw [← v1, ← hp, ← hst1]
        exact i1
    · intro hz
      obtain ⟨v1, v2⟩ := i7 hz
      rw [v1, v2]
      simp [List.append_assoc]
    · intro rest
      unfold readLiteralsG
      rw [List.append_assoc, List.append_assoc, a2]
      simp only
      have hmode : E.T.modes.getD cat'.btype 0 = E.mode := by
        rw [hE.modes, a3, List.getD_eq_getElem?_getD, List.getElem?_replicate, if_pos a4]; rfl
      have hcid : rfcLiteralContext (E.T.modes.getD cat'.btype 0)
          (if out.length ≥ 1 then out.getD (out.length - 1) 0 else 0)
          (if out.length ≥ 2 then out.getD (out.length - 2) 0 else 0) = ctx := by
        rw [hmode, hctx]; rfl
      rw [hcid, a3, hE.tmap]
      have hix : 64 * t + ctx = t * 2 ^ E.L.cb + ctx := by rw [hE.cb, p6, Nat.mul_comm]
      have hlen := hE.l.eff_len
      have hlt : t * 2 ^ E.L.cb + ctx < E.L.eff.length := by
        rw [hE.cb, p6] at hlen ⊢
        have : t * 64 + ctx < (t + 1) * 64 := by rw [Nat.add_mul, Nat.one_mul]; omega
        have : (t + 1) * 64 ≤ E.L.s.numTypes * 64 := Nat.mul_le_mul_right _ (by omega)
        omega
      rw [hix, getElem?_getD' _ _ 0 hlt]
      simp only
      have htree := hE.l.eff_lt t ctx a4 (by rw [hE.cb, p6]; exact cx2)
      rw [hE.tlit, getElem?_getD' _ _ (Code.single 0) (by rw [hE.l.clen]; exact htree)]
      simp only
      rw [a5]
      simp only
      rw [i9]
      simp [List.append_assoc]

/-! ### helpers of the command loop -/

/-- the distance extra bits of a command that copies -/
theorem distExtra_ok (A np nd : Nat) (c : Cmd) (hc : cmdOK A np nd c = true) (hcl : copyLen c ≠ 0) :
    ∃ xb, (∀ w, writeBits ((c.distPrefix / 1024) % 256) c.distExtra w = .ok (w ++ xb)) ∧
      (∀ rest, takeBits (if c.distPrefix % 1024 < 16 + nd then 0 else rfcDistNBits np nd (c.distPrefix % 1024))
        (xb ++ rest) = some (c.distExtra, rest)) ∧
      (c.cmdPrefix < 128 → c.distPrefix % 1024 = 0 ∧ c.distExtra = 0) := by
  simp only [cmdOK, Bool.and_eq_true, decide_eq_true_eq] at hc
  obtain ⟨⟨⟨⟨⟨⟨⟨_, _⟩, _⟩, _⟩, himp⟩, _⟩, hp16⟩, hdist0⟩ := hc
  have hdist : (if c.distPrefix % 1024 < 16 + nd then decide (c.distPrefix / 1024 = 0) && decide (c.distExtra = 0)
      else decide (c.distPrefix / 1024 = rfcDistNBits np nd (c.distPrefix % 1024)) &&
        decide (c.distExtra < 2 ^ (c.distPrefix / 1024)) &&
        decide (rfcDistDecode np nd (c.distPrefix % 1024) c.distExtra < 2 ^ 31)) = true := by
    rcases (Bool.or_eq_true _ _).mp hdist0 with h | h
    · exact absurd (of_decide_eq_true h) hcl
    · exact h
  have hnb : c.distPrefix / 1024 % 256 = c.distPrefix / 1024 := Nat.mod_eq_of_lt (by omega)
  by_cases hshort : c.distPrefix % 1024 < 16 + nd
  · simp only [hshort, if_true, Bool.and_eq_true, decide_eq_true_eq] at hdist
    refine ⟨[], ?_, ?_, ?_⟩
    · intro w
      rw [hnb, hdist.1, hdist.2, writeBits_ok 0 0 _ (by decide) (by decide)]
      simp [bitsOf]
    · intro rest
      rw [if_pos hshort, List.nil_append, takeBits_zero, hdist.2]
    · intro h128
      refine ⟨?_, hdist.2⟩
      rcases Bool.or_eq_true _ _ |>.mp himp with h | h
      · exact absurd (of_decide_eq_true h) (by omega)
      · simpa using h
  · simp only [hshort, if_false, Bool.and_eq_true, decide_eq_true_eq] at hdist
    obtain ⟨⟨hn, hx⟩, hD⟩ := hdist
    have h30 := nbits_le np nd _ _ hshort hD
    rw [hn] at hx
    refine ⟨bitsOf (rfcDistNBits np nd (c.distPrefix % 1024)) c.distExtra, ?_, ?_, ?_⟩
    · intro w
      rw [hnb, hn, writeBits_ok _ _ _ hx (by omega)]
    · intro rest
      rw [if_neg hshort, takeBits_bitsOf _ _ _ hx]
    · intro h128
      exfalso
      rcases Bool.or_eq_true _ _ |>.mp himp with h | h
      · exact absurd (of_decide_eq_true h) (by omega)
      · have : c.distPrefix % 1024 = 0 := by simpa using h
        omega

theorem distanceContext_lt (c : Cmd) : distanceContext c < 4 := by
  unfold distanceContext
  simp only
  split
  · omega
  · omega

/-- the insert half of a command, general reader, on the bit segments the writer produces -/
theorem readInsertG_ok (T : Trees) (catL catI catL' catI' : Cat) (code : Code) (mlen k : Nat) (out : Bytes)
    (sym ic cc ib ie cb ce ins clc : Nat) (b1 sb lb rest : List Bool) (L : Bytes)
    (hnext : ∀ r, catI.next (b1 ++ r) = some (catI', r)) (hcode : T.cmd[catI'.btype]? = some code)
    (hread : ∀ r, code.read (sb ++ r) = some (sym, r)) (hsym : sym < 704)
    (hic : (rfcCmdDecode sym).1 = ic) (hcc : (rfcCmdDecode sym).2.1 = cc)
    (hit : rfcInsTable[ic]? = some (ib, ie)) (hct : rfcCopyTable[cc]? = some (cb, ce))
    (hib : ib ≤ ins) (hie : ins - ib < 2 ^ ie) (hcb : cb ≤ clc) (hce : clc - cb < 2 ^ ce)
    (hk : ins ≤ mlen - k)
    (hlits : ∀ r, readLiteralsG T ins catL out (lb ++ r) = some (catL', out ++ L, r)) :
    readInsertG T catL catI mlen k out (b1 ++ (sb ++ ((bitsOf ie (ins - ib) ++ bitsOf ce (clc - cb)) ++ (lb ++ rest))))
      = some (catL', catI', ins, clc, (rfcCmdDecode sym).2.2, out ++ L, rest) := by
  unfold readInsertG
  rw [hnext]
  simp only [hcode]
  rw [hread]
  simp only [show ¬ sym ≥ 704 by omega, if_false, hic, hcc, hit, hct]
  rw [List.append_assoc, takeBits_bitsOf ie _ _ hie]
  simp only
  rw [takeBits_bitsOf ce _ _ hce]
  simp only
  have e1 : ib + (ins - ib) = ins := by omega
  have e2 : cb + (clc - cb) = clc := by omega
  rw [e1, e2, if_neg (by omega), hlits]

theorem lastB_take (hist mb : Bytes) (k : Nat) (h1 : 1 ≤ k) (hk : k ≤ mb.length) :
    lastB (hist ++ mb.take k) = mb.getD (k - 1) 0 := by
  unfold lastB
  have hl : (hist ++ mb.take k).length = hist.length + k := by
    rw [List.length_append, List.length_take, Nat.min_eq_left hk]
  rw [if_pos (by rw [hl]; omega), hl, List.getD_eq_getElem?_getD,
    List.getElem?_append_right (by omega), List.getElem?_take_of_lt (by omega),
    show hist.length + k - 1 - hist.length = k - 1 by omega, ← List.getD_eq_getElem?_getD]

theorem last2B_take (hist mb : Bytes) (k : Nat) (h1 : 2 ≤ k) (hk : k ≤ mb.length) :
    last2B (hist ++ mb.take k) = mb.getD (k - 2) 0 := by
  unfold last2B
  have hl : (hist ++ mb.take k).length = hist.length + k := by
    rw [List.length_append, List.length_take, Nat.min_eq_left hk]
  rw [if_pos (by rw [hl]; omega), hl, List.getD_eq_getElem?_getD,
    List.getElem?_append_right (by omega), List.getElem?_take_of_lt (by omega),
    show hist.length + k - 2 - hist.length = k - 2 by omega, ← List.getD_eq_getElem?_getD]

/-- the ring holds the byte `i` positions before meta-block offset `k` -/
theorem ring_back (ring : Bytes) (mask start : Nat) (mb : Bytes) (hR : RingHolds ring mask start mb)
    (h64 : start + mb.length < two64) (k i : Nat) (hi : i ≤ k) (h1 : 1 ≤ i) (hk : k ≤ mb.length) :
    getAt ring (((posOf start k + two64 - i) % two64) &&& mask) = .ok (mb.getD (k - i) 0) := by
  have := hR (k - i) (by omega)
  have e1 : posOf start k = start + k := by unfold posOf; exact Nat.mod_eq_of_lt (by omega)
  have e2 : posOf start (k - i) = start + (k - i) := by unfold posOf; exact Nat.mod_eq_of_lt (by omega)
  rw [e2] at this
  rw [e1, show start + k + two64 - i = (start + (k - i)) + two64 by omega, Nat.add_mod_right,
    Nat.mod_eq_of_lt (by omega)]
  exact this

/-! ### the command loop -/

/-- the (context, literal) pairs of a command array, contexts from the history and the input bytes -/
def litSymsOf (mode : Nat) (hist mb : Bytes) : Nat → List Cmd → List (Nat × Nat)
  | _, [] => []
  | k, c :: cs => litCtxs mode (hist ++ mb.take k) ((mb.drop k).take c.insertLen) ++
      litSymsOf mode hist mb (k + c.insertLen + copyLen c) cs

/-- the (context, distance symbol) pairs of a command array -/
def distSymsOf (cmds : List Cmd) : List (Nat × Nat) :=
  (cmds.filter hasDist).map fun c => (distanceContext c, c.distPrefix % 1024)

structure FullEnv where
  lit : LitEnv
  I : CatEnv
  D : CatEnv
  wo : WordOracle
  window : Nat
  np : Nat
  nd : Nat
  A : Nat
  hist : Bytes

structure FullEnv.OK (F : FullEnv) : Prop where
  lit : F.lit.OK
  i : F.I.OK
  d : F.D.OK
  icb : F.I.cb = 0
  isz : F.I.cmapSize = 0
  iH : F.I.H = 704
  dcb : F.D.cb = 2
  dA : F.A ≤ F.D.H
  dcmap : F.lit.mbs.distCmap = F.D.cmap
  dcsize : F.lit.mbs.distCmapSize = F.D.cmapSize
  tcmd : F.lit.T.cmd = F.I.codes
  tdist : F.lit.T.dist = F.D.codes
  tmapD : F.lit.T.cmapD = F.D.eff
  tnp : F.lit.T.npostfix = F.np
  tnd : F.lit.T.ndirect = F.nd
  hbytes : ∀ b ∈ F.hist, b < 256
  h64 : F.lit.start + F.lit.mb.length < two64

theorem I_eff (F : FullEnv) (hF : F.OK) (t : Nat) (ht : t < F.I.s.numTypes) : F.I.eff.getD (t * 2 ^ F.I.cb + 0) 0 = t := by
  unfold CatEnv.eff effMap
  rw [if_pos hF.isz, hF.icb]
  exact trivialMap_get _ _ _ _ ht (by decide)

theorem fullCmds_sim (F : FullEnv) (hF : F.OK) : ∀ (cmds : List Cmd) (ds : DecSt) (st : FullSt) (catL catI catD : Cat)
    (jL jI jD : Nat),
    lockstep F.wo F.np F.nd F.window F.lit.mb ds ds.cursor cmds = true →
    faithful F.wo F.np F.nd F.window F.lit.mb F.hist ds cmds → ds.out = F.hist ++ F.lit.mb.take ds.cursor →
    (∀ c ∈ cmds, cmdOK F.A F.np F.nd c = true) → (∀ c ∈ cmds, copyLen c ≠ 0 → 2 ≤ copyLen c) →
    st.pos = posOf F.lit.start ds.cursor →
    EncAt F.lit.L st.litE catL jL → EncAt F.I st.cmdE catI jI → EncAt F.D st.distE catD jD →
    (F.lit.L.cmapSize ≠ 0 → st.prev = lastB ds.out ∧ st.prev2 = last2B ds.out) →
    F.lit.L.covers (remTypes F.lit.L.s jL st.litE.blockLen) (litSymsOf F.lit.mode F.hist F.lit.mb ds.cursor cmds) →
    F.I.covers (remTypes F.I.s jI st.cmdE.blockLen) (cmds.map fun c => (0, c.cmdPrefix)) →
    F.D.covers (remTypes F.D.s jD st.distE.blockLen) (distSymsOf cmds) →
    ∃ db fin st', fullCmds F.lit.ring F.lit.mask F.lit.mode F.lit.mbs cmds st = .ok st' ∧ st'.w = st.w ++ db ∧
      decSteps F.wo F.np F.nd F.window F.lit.mb ds cmds = some fin ∧ fin.cursor = F.lit.mb.length ∧
      ∀ (rest : List Bool) (f : Nat), cmds.length + 1 ≤ f →
        readCommandsG F.wo F.window F.lit.T F.lit.mb.length f ds.cursor catL catI catD ⟨ds.out, ds.ring⟩ (db ++ rest)
          = some (⟨fin.out, fin.ring⟩, rest) := by
  intro cmds
  induction cmds with
  | nil =>
    intro ds st catL catI catD jL jI jD hl _ _ _ _ _ _ _ _ _ _ _ _
    simp only [lockstep, Bool.and_eq_true, decide_eq_true_eq] at hl
    refine ⟨[], ds, st, by simp [fullCmds], by simp, rfl, hl.2, ?_⟩
    intro rest f hf
    obtain ⟨f', rfl⟩ : ∃ f', f = f' + 1 := ⟨f - 1, by simp at hf; omega⟩
    simp [readCommandsG, hl.2]
  | cons c cs ih =>
    intro ds st catL catI catD jL jI jD hl hfa hout hok hcl2 hpos hAL hAI hAD hpv hcL hcI hcD
    have hLE := hF.lit
    have hmbl : ∀ b ∈ ds.out, b < 256 := by
      intro b hb
      rw [hout] at hb
      rcases List.mem_append.mp hb with h | h
      · exact hF.hbytes b h
      · exact hLE.bytes b (List.mem_of_mem_take h)
    simp only [lockstep, Bool.and_eq_true, decide_eq_true_eq] at hl
    obtain ⟨_, hl⟩ := hl
    simp only [faithful] at hfa
    cases hd : decStep F.wo F.np F.nd F.window F.lit.mb ds c with
    | none => rw [hd] at hl; simp at hl
    | some s' =>
      rw [hd] at hl hfa
      simp only at hl hfa
      obtain ⟨hfo, hfa⟩ := hfa
      rw [decStep_eq] at hd
      have hrem : ¬ (F.lit.mb.length - ds.cursor = 0) := by
        intro h; rw [if_pos h] at hd; cases hd
      rw [if_neg hrem] at hd
      have hins : ¬ (c.insertLen > F.lit.mb.length - ds.cursor) := by
        intro h; rw [if_pos h] at hd; cases hd
      rw [if_neg hins] at hd
      have hcok := hok c (by simp)
      obtain ⟨ic, cc, ib, ie, cb, ce, hsym, hic, hcc, hit, hct, hib, hie, hcb, hce, hextra⟩ := cmd_facts F.A F.np F.nd c hcok
      -- the command symbol
      simp only [List.map_cons] at hcI
      obtain ⟨b1, sb, ce', catI', jI', tI, i1, i2, i3, i4, i5, i6, i7⟩ := F.I.step hF.i st.cmdE catI jI c.cmdPrefix 0 _ hAI
        (by rw [hF.iH]; exact hsym) (by rw [hF.icb]; decide) hcI
      have i1' : ∀ w, st.cmdE.storeSymbol c.cmdPrefix w = .ok (ce', w ++ b1 ++ sb) := fun w => by
        have := i1 w; rwa [if_pos hF.isz] at this
      rw [I_eff F hF tI i4] at i5
      have hcodeI : F.lit.T.cmd[catI'.btype]? = some (F.I.codes.getD tI (Code.single 0)) := by
        rw [hF.tcmd, i3]
        exact getElem?_getD' _ _ _ (by rw [hF.i.clen]; have := hF.i.z hF.isz; omega)
      -- the literals
      simp only [litSymsOf] at hcL
      rw [← hout] at hcL
      obtain ⟨xb, hxb⟩ : ∃ xb, xb = bitsOf ie (c.insertLen - ib) ++ bitsOf ce (copyLenCode c.copyLenField - cb) := ⟨_, rfl⟩
      obtain ⟨st0, hst0⟩ : ∃ st0 : FullSt, st0 = { st with cmdE := ce', w := st.w ++ b1 ++ sb ++ xb } := ⟨_, rfl⟩
      obtain ⟨lb, st1, catL', jL', l1, l2, l3, l4, l5, l6, l7, l8, l9⟩ := fullLits_sim F.lit hLE c.insertLen ds.cursor st0 catL jL
        ds.out _ (by omega) (by rw [hst0]; exact hpos) (by rw [hst0]; exact hAL) hmbl (by rw [hst0]; exact hpv)
        (by rw [hst0]; exact hcL)
      rw [hst0] at l2 l4 l5
      simp only at l2 l4 l5
      have hri := fun r => readInsertG_ok F.lit.T catL catI catL' catI' _ F.lit.mb.length ds.cursor ds.out c.cmdPrefix
        ic cc ib ie cb ce c.insertLen (copyLenCode c.copyLenField) b1 sb lb r
        ((F.lit.mb.drop ds.cursor).take c.insertLen) i2 hcodeI i5 hsym hic hcc hit hct hib hie hcb hce (by omega) l9
      rw [← hxb] at hri
      have hwr1 : fullCmd F.lit.ring F.lit.mask F.lit.mode F.lit.mbs st c = fullCopy F.lit.ring F.lit.mask F.lit.mbs c st1 := by
        unfold fullCmd
        rw [i1', Out.bind_ok]
        simp only
        rw [hextra, Out.bind_ok, ← hxb, ← hst0, l1, Out.bind_ok]
      by_cases hterm : ds.cursor + c.insertLen = F.lit.mb.length
      · -- the insert half completes the meta-block
        rw [if_pos hterm] at hd hl
        simp only [Bool.and_eq_true, decide_eq_true_eq, List.isEmpty_iff] at hl
        obtain ⟨hnil, hc0⟩ := hl
        subst hnil
        injection hd with hd
        refine ⟨b1 ++ (sb ++ (xb ++ lb)), s', { st1 with pos := (st1.pos + copyLen c) % two64 }, ?_, ?_, ?_, ?_, ?_⟩
        · unfold fullCmds
          rw [hwr1]
          unfold fullCopy
          rw [if_neg (by rw [hc0]; simp), Out.bind_ok]
          rfl
        · show st1.w = _
          rw [l2]; simp [List.append_assoc]
        · simp only [decSteps]
          rw [decStep_eq, if_neg hrem, if_neg hins, if_pos hterm, hd]
        · rw [← hd]; exact hterm
        · intro rest f hf
          obtain ⟨f', rfl⟩ : ∃ f', f = f' + 1 := ⟨f - 1, by simp at hf; omega⟩
          unfold readCommandsG
          rw [if_neg (by omega)]
          simp only [List.append_assoc]
          rw [hri]
          simp only [hterm, if_true]
          rw [← hd]
      · -- a copy follows
        rw [if_neg hterm] at hd hl
        simp only [Bool.and_eq_true, decide_eq_true_eq] at hl
        obtain ⟨hcl, hl⟩ := hl
        have hcur := lockstep_cursor _ _ _ _ _ _ _ _ hl
        cases hac : applyCopy F.wo F.window F.np F.nd F.lit.mb.length (ds.cursor + c.insertLen) (copyLenCode c.copyLenField)
            (ds.out ++ (F.lit.mb.drop ds.cursor).take c.insertLen) ds.ring (c.distPrefix % 1024) c.distExtra with
        | none => rw [hac] at hd; simp at hd
        | some nr =>
          obtain ⟨n, r⟩ := nr
          rw [hac] at hd
          simp only [Option.map_some, Option.some.injEq] at hd
          have hn : n = copyLen c := by
            rw [← hd] at hcur; simp only at hcur; omega
          subst hn
          have hs'c : s'.cursor = ds.cursor + c.insertLen + copyLen c := by rw [← hd]
          have hlen' := lockstep_length _ _ _ _ _ _ _ _ hl
          have hk2 := hcl2 c (by simp) hcl
          have hk'le : s'.cursor ≤ F.lit.mb.length := by omega
          -- the two context bytes behind the copy
          have hpos1 : (st1.pos + copyLen c) % two64 = posOf F.lit.start s'.cursor := by
            rw [l3, posOf_add, hs'c]
          have hge2 : posOf F.lit.start s'.cursor ≥ 2 := by
            have := hF.h64
            unfold posOf; rw [Nat.mod_eq_of_lt (by omega)]; omega
          have hp2 := ring_back _ _ _ _ hLE.ring hF.h64 s'.cursor 2 (by omega) (by omega) hk'le
          have hp1 := ring_back _ _ _ _ hLE.ring hF.h64 s'.cursor 1 (by omega) (by omega) hk'le
          obtain ⟨xd, x1, x2, x3⟩ := distExtra_ok F.A F.np F.nd c hcok hcl
          rw [← hs'c] at hl
          simp only [distSymsOf] at hcD
          -- the distance symbol (if any): writer bits, the encoder after it, the reader's first half of `readCopyG`
          have hdist : ∃ dbits de catD' jD', EncAt F.D de catD' jD' ∧
              F.D.covers (remTypes F.D.s jD' de.blockLen) (distSymsOf cs) ∧
              (c.cmdPrefix ≥ 128 → ∃ sbits, dbits = sbits ++ xd ∧
                ∀ w, (if F.lit.mbs.distCmapSize = 0 then st1.distE.storeSymbol (c.distPrefix % 1024) w
                  else st1.distE.storeSymbolCtx (c.distPrefix % 1024) (distanceContext c) F.lit.mbs.distCmap 2 w)
                    = .ok (de, w ++ sbits)) ∧
              (¬ c.cmdPrefix ≥ 128 → dbits = [] ∧ de = st1.distE) ∧
              ∀ out ring rest, readCopyG F.wo F.window F.lit.T catD F.lit.mb.length (ds.cursor + c.insertLen)
                  (rfcCmdDecode c.cmdPrefix).2.2 (copyLenCode c.copyLenField) out ring (dbits ++ rest)
                = match applyCopy F.wo F.window F.np F.nd F.lit.mb.length (ds.cursor + c.insertLen)
                    (copyLenCode c.copyLenField) out ring (c.distPrefix % 1024) c.distExtra with
                  | none => none
                  | some (n, s) => some (catD', n, s, rest) := by
            have himp0 : (rfcCmdDecode c.cmdPrefix).2.2 = decide (c.cmdPrefix / 64 < 2) := rfl
            by_cases h128 : c.cmdPrefix ≥ 128
            · have hhd : hasDist c = true := by unfold hasDist; simp [hcl, h128]
              rw [List.filter_cons_of_pos hhd, List.map_cons] at hcD
              have hdsA : c.distPrefix % 1024 < F.D.H := by
                have hc' := hcok
                simp only [cmdOK, Bool.and_eq_true, decide_eq_true_eq] at hc'
                have := hF.dA
                omega
              obtain ⟨d1, d2, de, catD', jD', tD, g1, g2, g3, g4, g5, g6, g7⟩ := F.D.step hF.d st1.distE catD jD
                (c.distPrefix % 1024) (distanceContext c) _ (by rw [l5]; exact hAD) hdsA
                (by rw [hF.dcb]; exact distanceContext_lt c) (by rw [l5]; exact hcD)
              refine ⟨d1 ++ d2 ++ xd, de, catD', jD', g6, g7, fun _ => ⟨d1 ++ d2, rfl, ?_⟩, fun hn => absurd h128 hn, ?_⟩
              · intro w
                rw [hF.dcsize, hF.dcmap, ← hF.dcb, g1, List.append_assoc]
              · intro out ring rest
                have hfalse : (rfcCmdDecode c.cmdPrefix).2.2 = false := by rw [himp0]; simp; omega
                unfold readCopyG
                rw [hfalse]
                simp only [Bool.false_eq_true, if_false]
                rw [List.append_assoc, List.append_assoc, g2]
                simp only
                have hctxeq := distanceContext_eq c cc cb ce (copyLenCode c.copyLenField) hsym hcc hct hcb hce
                have p2 : (2 : Nat) ^ 2 = 4 := by decide
                have hix : 4 * catD'.btype + rfcDistanceContext (copyLenCode c.copyLenField)
                    = tD * 2 ^ F.D.cb + distanceContext c := by
                  rw [g3, hF.dcb, p2, Nat.mul_comm, hctxeq]
                have hlen := hF.d.eff_len
                have hdc := distanceContext_lt c
                have hlt : tD * 2 ^ F.D.cb + distanceContext c < F.D.eff.length := by
                  rw [hF.dcb, p2] at hlen ⊢
                  have : tD * 4 + distanceContext c < (tD + 1) * 4 := by rw [Nat.add_mul, Nat.one_mul]; omega
                  have : (tD + 1) * 4 ≤ F.D.s.numTypes * 4 := Nat.mul_le_mul_right _ (by omega)
                  omega
                rw [hix, hF.tmapD, getElem?_getD' _ _ 0 hlt]
                simp only
                have htree := hF.d.eff_lt tD (distanceContext c) g4 (by rw [hF.dcb, p2]; exact hdc)
                rw [hF.tdist, getElem?_getD' _ _ (Code.single 0) (by rw [hF.d.clen]; exact htree)]
                simp only
                rw [g5]
                simp only
                rw [hF.tnp, hF.tnd, x2]
                simp only
                cases applyCopy F.wo F.window F.np F.nd F.lit.mb.length (ds.cursor + c.insertLen)
                  (copyLenCode c.copyLenField) out ring (c.distPrefix % 1024) c.distExtra <;> rfl
            · have hhd : hasDist c = false := by unfold hasDist; simp [h128]
              rw [List.filter_cons_of_neg (by rw [hhd]; simp)] at hcD
              obtain ⟨y1, y2⟩ := x3 (by omega)
              refine ⟨[], st1.distE, catD, jD, by rw [l5]; exact hAD, by rw [l5]; exact hcD, fun h => absurd h h128,
                fun _ => ⟨rfl, rfl⟩, ?_⟩
              · intro out ring rest
                have htrue : (rfcCmdDecode c.cmdPrefix).2.2 = true := by rw [himp0]; simp; omega
                unfold readCopyG
                rw [htrue, y1, y2]
                simp only [if_true, List.nil_append, show (0 : Nat) < 16 + F.lit.T.ndirect by omega, takeBits_zero]
                rw [hF.tnp, hF.tnd]
                cases applyCopy F.wo F.window F.np F.nd F.lit.mb.length (ds.cursor + c.insertLen)
                  (copyLenCode c.copyLenField) out ring 0 0 <;> rfl
          obtain ⟨dbits, de, catD', jD', q1, q2, q3, q3', q4⟩ := hdist
          obtain ⟨st2, hst2⟩ : ∃ st2 : FullSt, st2 = ⟨posOf F.lit.start s'.cursor, F.lit.mb.getD (s'.cursor - 1) 0,
              F.lit.mb.getD (s'.cursor - 2) 0, st1.litE, st1.cmdE, de, st1.w ++ dbits⟩ := ⟨_, rfl⟩
          obtain ⟨db', fin, st', h1, h1w, h2, h3, h4⟩ := ih s' st2 catL' catI' catD' jL' jI' jD' hl hfa hfo
            (fun x hx => hok x (List.mem_cons_of_mem _ hx)) (fun x hx => hcl2 x (List.mem_cons_of_mem _ hx))
            (by rw [hst2]) (by rw [hst2]; exact l6) (by rw [hst2]; show EncAt F.I st1.cmdE _ _; rw [l4]; exact i6)
            (by rw [hst2]; exact q1)
            (fun _ => by
              rw [hst2, hfo]
              exact ⟨(lastB_take _ _ _ (by omega) hk'le).symm, (last2B_take _ _ _ (by omega) hk'le).symm⟩)
            (by rw [hst2, hs'c]; exact l8) (by rw [hst2]; show F.I.covers (remTypes F.I.s jI' st1.cmdE.blockLen) _; rw [l4]; exact i7)
            (by rw [hst2]; exact q2)
          refine ⟨b1 ++ (sb ++ (xb ++ (lb ++ (dbits ++ db')))), fin, st', ?_, ?_, ?_, h3, ?_⟩
          · unfold fullCmds
            rw [hwr1]
            have hcopy : fullCopy F.lit.ring F.lit.mask F.lit.mbs c st1 = .ok st2 := by
              unfold fullCopy
              dsimp only
              rw [hpos1, if_pos hcl, if_pos hge2, hp2, Out.bind_ok, hp1, Out.bind_ok]
              by_cases h128 : c.cmdPrefix ≥ 128
              · obtain ⟨sbits, t1, t2⟩ := q3 h128
                rw [if_pos h128, t2, Out.bind_ok]
                dsimp only
                rw [x1, Out.bind_ok, hst2, t1, List.append_assoc]
              · obtain ⟨t1, t2⟩ := q3' h128
                rw [if_neg h128, hst2, t1, t2, List.append_nil]
            rw [hcopy, Out.bind_ok]
            exact h1
          · rw [h1w, hst2]
            show st1.w ++ dbits ++ db' = _
            rw [l2]; simp [List.append_assoc]
          · simp only [decSteps]
            rw [decStep_eq, if_neg hrem, if_neg hins, if_neg hterm, hac]
            simp only [Option.map_some, hd]
            exact h2
          · intro rest f hf
            obtain ⟨f', rfl⟩ : ∃ f', f = f' + 1 := ⟨f - 1, by simp at hf; omega⟩
            unfold readCommandsG
            rw [if_neg (by omega)]
            simp only [List.append_assoc]
            rw [hri]
            simp only [hterm, if_false]
            rw [q4, hac]
            simp only
            have e1 : (r : RdSt) = ⟨s'.out, s'.ring⟩ := by rw [← hd]
            rw [e1, ← hs'c]
            exact h4 rest f' (by simp at hf; omega)

end BV.MetaBlock
