import BV.Lemmas.CbrGood
import BV.Props.C01Match
/-! The three bucketed hasher families satisfy the hypotheses of the loop theorem (`OpsOK`):
nothing about them is left assumed. -/
namespace BV.Cbr
open BV.Hasher BV.MatchFinder BV.Recoder BV.PrefixArith BV.MetaBlock BV.Props.C01Match

theorem soundAt_of_soundResult {slotOK : DictItem → Prop} {dict : Option (List DictItem)} {data : ByteArray}
    {k pos ml mbk md : Nat} {o : SR}
    (hd : ∀ items, dict = some items → ∀ d ∈ items, d.item ≠ 0 → slotOK d)
    (h : SoundResult dict data (2 ^ k - 1) (2 ^ k - 1) pos ml mbk md o) :
    SoundAt slotOK data k md pos ml mbk o := by
  rcases h with ⟨h1, h2, h3, h4, h5, h6⟩ | ⟨items, hi, hdo⟩
  · left
    rw [and_ringmask, and_ringmask] at h6
    exact ⟨h1, h2, h3, h4, h5, h6⟩
  · right
    rw [and_ringmask] at hdo
    exact ⟨items, hd items hi, hdo⟩

theorem ringmask_lt (k : Nat) (hk : k ≤ 32) : 2 ^ k - 1 < 2 ^ 64 := by
  have : 2 ^ k ≤ 2 ^ 32 := Nat.pow_le_pow_right (by decide) hk
  omega

theorem ringmask_mod_u32 (k : Nat) (hk : k ≤ 32) : (2 ^ k - 1) % U32 = 2 ^ k - 1 := by
  have : 2 ^ k ≤ 2 ^ 32 := Nat.pow_le_pow_right (by decide) hk
  exact Nat.mod_eq_of_lt (by have : U32 = 2 ^ 32 := by decide
                             omega)

theorem advPrepare_ok (n : Nat) (c c' : List Int) (h : advPrepareDistanceCache n c = some c') :
    c'.take 4 = c.take 4 ∧ c'.length = c.length := by
  unfold advPrepareDistanceCache at h
  by_cases h4 : n > 4
  · rw [if_pos h4] at h
    by_cases hl : c.length < 10
    · rw [if_pos hl] at h; cases h
    · rw [if_neg hl] at h
      simp only [] at h
      by_cases h10 : n > 10
      · rw [if_pos h10] at h
        by_cases hl2 : c.length < 16
        · rw [if_pos hl2] at h; cases h
        · rw [if_neg hl2] at h
          injection h with h
          subst h
          constructor
          · simp [List.take_append, List.take_take]
            omega
          · simp; omega
      · rw [if_neg h10] at h
        injection h with h
        subst h
        constructor
        · simp [List.take_append, List.take_take]
          omega
        · simp; omega
  · rw [if_neg h4] at h
    injection h with h; subst h; exact ⟨rfl, rfl⟩

theorem basicOps_ok (slotOK : DictItem → Prop) (P : BasicP) (useDict : Bool) (lbs : Nat)
    (dict : ByteArray → Nat → Option (List DictItem)) (data : ByteArray) (k : Nat) (hk : k ≤ 32) (p : Params)
    (hd : ∀ cm items, dict data cm = some items → ∀ d ∈ items, d.item ≠ 0 → slotOK d) :
    OpsOK slotOK (basicOps P useDict lbs dict data (2 ^ k - 1)) p data k where
  sound := by
    intro st cache pos ml mbk sr0 o st' h hpos hmb
    obtain ⟨b, c⟩ := st
    simp only [basicOps, Option.map_eq_some_iff] at h
    obtain ⟨⟨f, o2, b2, c2⟩, hflm, heq⟩ := h
    simp only [Prod.mk.injEq] at heq
    obtain ⟨rfl, rfl, _⟩ := heq
    have := match_sound_basic P useDict lbs _ data (2 ^ k - 1) cache pos ml mbk p.maxDistance sr0 o2 b b2 c c2 hpos hmb hflm
    rw [ringmask_mod_u32 k hk] at this
    exact soundAt_of_soundResult (fun items hi => hd _ items hi) this
  prepare := by intro c c' h; simp only [basicOps, Option.some.injEq] at h; subst h; exact ⟨rfl, rfl⟩
  htl := by simp [basicOps]

theorem advOps_ok (slotOK : DictItem → Prop) (P : AdvP) (numLast lbs : Nat)
    (dict : ByteArray → Nat → Option (List DictItem)) (data : ByteArray) (k : Nat) (hk : k ≤ 32) (p : Params)
    (hla : 4 ≤ P.lookahead)
    (hd : ∀ cm items, dict data cm = some items → ∀ d ∈ items, d.item ≠ 0 → slotOK d) :
    OpsOK slotOK (advOps P numLast lbs dict data (2 ^ k - 1)) p data k where
  sound := by
    intro st cache pos ml mbk sr0 o st' h hpos hmb
    obtain ⟨a, c⟩ := st
    simp only [advOps, Option.map_eq_some_iff] at h
    obtain ⟨⟨f, o2, a2, c2⟩, hflm, heq⟩ := h
    simp only [Prod.mk.injEq] at heq
    obtain ⟨rfl, rfl, _⟩ := heq
    exact soundAt_of_soundResult (fun items hi => hd _ items hi)
      (match_sound_adv P numLast lbs _ data (2 ^ k - 1) (ringmask_lt k hk) cache pos ml mbk p.maxDistance sr0 o2 a a2 c c2
        hpos hmb hflm)
  prepare := fun c c' h => advPrepare_ok numLast c c' h
  htl := hla

theorem h9Ops_ok (slotOK : DictItem → Prop) (P : H9P) (lbs : Nat)
    (dict : ByteArray → Nat → Option (List DictItem)) (data : ByteArray) (k : Nat) (hk : k ≤ 32) (p : Params)
    (hd : ∀ cm items, dict data cm = some items → ∀ d ∈ items, d.item ≠ 0 → slotOK d) :
    OpsOK slotOK (h9Ops P lbs dict data (2 ^ k - 1)) p data k where
  sound := by
    intro st cache pos ml mbk sr0 o st' h hpos hmb
    obtain ⟨a, c⟩ := st
    simp only [h9Ops, Option.map_eq_some_iff] at h
    obtain ⟨⟨f, o2, a2, c2⟩, hflm, heq⟩ := h
    simp only [Prod.mk.injEq] at heq
    obtain ⟨rfl, rfl, _⟩ := heq
    exact soundAt_of_soundResult (fun items hi => hd _ items hi)
      (match_sound_h9 P lbs _ data (2 ^ k - 1) (ringmask_lt k hk) cache pos ml mbk p.maxDistance sr0 o2 a a2 c c2
        hpos hmb hflm)
  prepare := fun c c' h => advPrepare_ok 16 c c' h
  htl := by simp [h9Ops]

end BV.Cbr
