/-
Lemmas for C17 part 4: the two-queue merge over sorted leaves always merges
the two lightest roots, hence a tree of height `h` weighs at least
`fib (h + 2) · (lightest leaf)`.  This bounds the height of a round of
`BrotliCreateHuffmanTree` and gives the termination of its retry loop.
-/
import BV.Lemmas.HuffmanMerge

namespace BV.Lemmas.HuffmanFib
open BV.Bits BV.Huffman BV.Lemmas.HuffmanCanon BV.Lemmas.HuffmanShape BV.Lemmas.HuffmanSort
open BV.Lemmas.HuffmanMerge

def fib : Nat → Nat
  | 0 => 0
  | 1 => 1
  | n + 2 => fib n + fib (n + 1)

theorem fib_add_two (n : Nat) : fib (n + 2) = fib n + fib (n + 1) := rfl

theorem fib_pos (n : Nat) : 1 ≤ fib (n + 1) := by
  induction n with
  | zero => decide
  | succ n ih => rw [fib_add_two]; omega

theorem fib_le_succ (n : Nat) : fib n ≤ fib (n + 1) := by
  cases n with
  | zero => decide
  | succ n => rw [fib_add_two]; omega

theorem fib_mono {a b : Nat} (h : a ≤ b) : fib a ≤ fib b := by
  induction b with
  | zero => have : a = 0 := by omega
            subst this; exact Nat.le_refl _
  | succ b ih =>
    by_cases hab : a = b + 1
    · subst hab; exact Nat.le_refl _
    · exact Nat.le_trans (ih (by omega)) (fib_le_succ b)

/-- sortedness / Fibonacci part of the merge invariant (`a` = lower bound of the
leaf weights, `lastY` = weight of the heavier root of the last merge, `K q` =
weight of the heavier child of inner node `q`) -/
structure SInv (n a k : Nat) (pool : List Node) (i j : Nat) (tr : Nat → T) (lastY : Nat)
    (K : Nat → Nat) : Prop where
  hS1 : ∀ p q, i ≤ p → p < q → q < n → cntAt pool p ≤ cntAt pool q
  hS2 : ∀ p q, j ≤ p → p < q → q < 2 * n - k → cntAt pool p ≤ cntAt pool q
  hS3 : ∀ q, Avail n i j (2 * n - k) q → lastY ≤ cntAt pool q
  hS5 : ∀ q, j ≤ q → q < 2 * n - k → cntAt pool q ≤ 2 * lastY
  hleaf : ∀ q, i ≤ q → q < n → (tr q).height = 0
  hS6 : ∀ q, Avail n i j (2 * n - k) q → fib ((tr q).height + 2) * a ≤ cntAt pool q
  hS7 : ∀ q, j ≤ q → q < 2 * n - k → fib ((tr q).height + 1) * a ≤ K q ∧ K q ≤ lastY

/-- a selection takes a lightest available root -/
theorem pick_min (n e i j x i' j' : Nat) (pool : List Node)
    (hS1 : ∀ p q, i ≤ p → p < q → q < n → cntAt pool p ≤ cntAt pool q)
    (hS2 : ∀ p q, j ≤ p → p < q → q < e → cntAt pool p ≤ cntAt pool q)
    (hrel : PickRel pool i j x i' j') :
    ∀ q, Avail n i j e q → cntAt pool x ≤ cntAt pool q := by
  intro q hq
  rcases hrel with ⟨rfl, hle, _, _⟩ | ⟨rfl, hlt, _, _⟩
  · rcases hq with ⟨h1, h2⟩ | ⟨h1, h2⟩
    · by_cases h : q = x
      · subst h; exact Nat.le_refl _
      · exact hS1 x q (Nat.le_refl _) (by omega) h2
    · by_cases h : q = j
      · subst h; exact hle
      · exact Nat.le_trans hle (hS2 j q (Nat.le_refl _) (by omega) h2)
  · rcases hq with ⟨h1, h2⟩ | ⟨h1, h2⟩
    · by_cases h : q = i
      · subst h; omega
      · have := hS1 i q (Nat.le_refl _) (by omega) h2; omega
    · by_cases h : q = x
      · subst h; exact Nat.le_refl _
      · exact hS2 x q (Nat.le_refl _) (by omega) h2

theorem cntAt_congr (a b : List Node) (q : Nat) (h : a[q]? = b[q]?) : cntAt a q = cntAt b q := by
  simp [cntAt, h]

theorem mergeLoop_fib (n a : Nat) (w : Nat → Nat) (lv : List Nat) :
    ∀ (k : Nat) (pool : List Node) (i j : Nat) (tr : Nat → T) (lastY : Nat) (K : Nat → Nat),
    MInv n w lv k pool i j tr → SInv n a k pool i j tr lastY K →
    ∃ pool' i' j' tr' lastY' K', mergeLoop n k pool i j = .ok pool' ∧
      MInv n w lv 0 pool' i' j' tr' ∧ SInv n a 0 pool' i' j' tr' lastY' K' ∧
      pool'.length = pool.length := by
  intro k
  induction k with
  | zero => intro pool i j tr lastY K h hs; exact ⟨pool, i, j, tr, lastY, K, rfl, h, hs, rfl⟩
  | succ k ih =>
    intro pool i j tr lastY K h hs
    obtain ⟨x, y, i1, j1, i2, j2, hax, hay, hxy, hrel1, hrel2, hsub1, hsub2, hii1, hii2, hi2n,
      hjj1, hjj2, hj2e, hrun, hinv, hsame, hcnte, hl2⟩ := mergeStep n w lv k pool i j tr h
    obtain ⟨e, he⟩ : ∃ e, e = 2 * n - (k + 1) := ⟨_, rfl⟩
    rw [← he] at hax hay hsub1 hsub2 hj2e hrun hinv hsame hcnte hl2
    have hk := h.hk
    have hj1' := h.hj1
    have he2 : e + 1 = 2 * n - k := by omega
    have hen : n + 1 ≤ e := by omega
    have hS1 := hs.hS1
    have hS2 := hs.hS2
    have hS3 := hs.hS3
    have hS5 := hs.hS5
    have hleaf := hs.hleaf
    have hS6 := hs.hS6
    have hS7 := hs.hS7
    rw [← he] at hS2 hS3 hS5 hS6 hS7
    -- minimality of the two selections
    have hminx := pick_min n e i j x i1 j1 pool hS1 hS2 hrel1
    have hminy := pick_min n e i1 j1 y i2 j2 pool
      (fun p q h1 h2 h3 => hS1 p q (by omega) h2 h3)
      (fun p q h1 h2 h3 => hS2 p q (by omega) h2 h3) hrel2
    have hxy_le : cntAt pool x ≤ cntAt pool y := hminx y hay
    have hlastx : lastY ≤ cntAt pool x := hS3 x hax
    -- counts in the new pool
    have hcnt_lt : ∀ q, q < e → cntAt (stepPool pool e x y) q = cntAt pool q :=
      fun q hq => cntAt_congr _ _ q (hsame q hq)
    -- Fibonacci facts about the two merged roots
    have hFx := hS6 x hax
    have hFy := hS6 y hay
    have hpos : a ≤ cntAt pool x := by
      have h1 : 1 * a ≤ fib ((tr x).height + 2) * a := Nat.mul_le_mul_right a (fib_pos _)
      omega
    have hGy : fib ((tr y).height + 1) * a ≤ cntAt pool x := by
      rcases hay with ⟨h1, h2⟩ | ⟨h1, h2⟩
      · rw [hleaf y h1 h2]
        show fib 1 * a ≤ _
        simp only [fib, Nat.one_mul]; exact hpos
      · have := hS7 y h1 h2; omega
    have hheight : (stepTr tr e x y e).height = 1 + max (tr x).height (tr y).height := by
      simp [stepTr, T.height]
    have hS6e : fib ((stepTr tr e x y e).height + 2) * a ≤ cntAt pool x + cntAt pool y := by
      rw [hheight]
      rcases Nat.le_total (tr x).height (tr y).height with hle | hle
      · rw [Nat.max_eq_right hle]
        have e1 : 1 + (tr y).height + 2 = ((tr y).height + 1) + 2 := by omega
        rw [e1, fib_add_two, Nat.add_mul]
        have hFy' : fib ((tr y).height + 1 + 1) * a ≤ cntAt pool y := hFy
        omega
      · rw [Nat.max_eq_left hle]
        have e1 : 1 + (tr x).height + 2 = ((tr x).height + 1) + 2 := by omega
        rw [e1, fib_add_two, Nat.add_mul]
        have := Nat.mul_le_mul_right a (fib_le_succ ((tr x).height + 1))
        have hFx' : fib ((tr x).height + 1 + 1) * a ≤ cntAt pool x := hFx
        omega
    have hS7e : fib ((stepTr tr e x y e).height + 1) * a ≤ cntAt pool y := by
      rw [hheight]
      rcases Nat.le_total (tr x).height (tr y).height with hle | hle
      · rw [Nat.max_eq_right hle]
        have e1 : 1 + (tr y).height + 1 = (tr y).height + 2 := by omega
        rw [e1]; exact hFy
      · rw [Nat.max_eq_left hle]
        have e1 : 1 + (tr x).height + 1 = (tr x).height + 2 := by omega
        rw [e1]; omega
    have hsinv : SInv n a k (stepPool pool e x y) i2 j2 (stepTr tr e x y) (cntAt pool y)
        (fun q => if q = e then cntAt pool y else K q) := by
      refine { hS1 := ?_, hS2 := ?_, hS3 := ?_, hS5 := ?_, hleaf := ?_, hS6 := ?_, hS7 := ?_ }
      · intro p q h1 h2 h3
        rw [hcnt_lt p (by omega), hcnt_lt q (by omega)]
        exact hS1 p q (by omega) h2 h3
      · intro p q h1 h2 h3
        rw [← he2] at h3
        rw [hcnt_lt p (by omega)]
        by_cases hq : q = e
        · subst hq
          rw [hcnte]
          have := hS5 p (by omega) (by omega)
          omega
        · rw [hcnt_lt q (by omega)]
          exact hS2 p q (by omega) h2 (by omega)
      · intro q hq
        rw [← he2] at hq
        by_cases hqe : q = e
        · subst hqe; rw [hcnte]; omega
        · have hq' : Avail n i2 j2 e q := by
            rcases hq with h1 | ⟨h1, h2⟩
            · exact Or.inl h1
            · exact Or.inr ⟨h1, by omega⟩
          have hqlt : q < e := by rcases hq' with ⟨_, h2⟩ | ⟨_, h2⟩ <;> omega
          rw [hcnt_lt q hqlt]
          exact hminy q (hsub2 q hq').1
      · intro q h1 h2
        rw [← he2] at h2
        by_cases hqe : q = e
        · subst hqe; rw [hcnte]; omega
        · rw [hcnt_lt q (by omega)]
          have := hS5 q (by omega) (by omega)
          omega
      · intro q h1 h2
        simp only [stepTr]
        rw [if_neg (by omega)]
        exact hleaf q (by omega) h2
      · intro q hq
        rw [← he2] at hq
        by_cases hqe : q = e
        · subst hqe; rw [hcnte]; exact hS6e
        · have hq' : Avail n i2 j2 e q := by
            rcases hq with h1 | ⟨h1, h2⟩
            · exact Or.inl h1
            · exact Or.inr ⟨h1, by omega⟩
          have hq0 : Avail n i j e q := (hsub1 q (hsub2 q hq').1).1
          have hqlt : q < e := by rcases hq0 with ⟨_, h2⟩ | ⟨_, h2⟩ <;> omega
          rw [hcnt_lt q hqlt]
          simp only [stepTr, hqe, ↓reduceIte]
          exact hS6 q hq0
      · intro q h1 h2
        rw [← he2] at h2
        by_cases hqe : q = e
        · subst hqe
          simp only [↓reduceIte]
          exact ⟨hS7e, Nat.le_refl _⟩
        · simp only [hqe, ↓reduceIte, stepTr]
          have := hS7 q (by omega) (by omega)
          exact ⟨this.1, by omega⟩
    obtain ⟨pool', i', j', tr', lastY', K', hm, hinv', hsinv', hl'⟩ :=
      ih _ i2 j2 _ _ _ hinv hsinv
    exact ⟨pool', i', j', tr', lastY', K', by rw [hrun]; exact hm, hinv', hsinv',
      by rw [hl', hl2]⟩

end BV.Lemmas.HuffmanFib
