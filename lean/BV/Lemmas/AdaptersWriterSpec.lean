import BV.Lemmas.AdaptersWriter
/-
`short_writes_transparent`, strong form: reference automata that talk to the encoder only, and the
proof that the writer over ANY fault-free script of the wrapped writer behaves exactly like them.
-/
namespace BV.Adapters
variable {σ : Type}

/-! ### reference automata: what `write` / `flush_or_close` ask of the encoder, with no wrapped
stream in sight (the "request level").  New records are returned newest first. -/

def specWriteLoop (E : Enc σ) (cap n : Nat) : Nat → σ → Bytes → σ × List ERec × Out (Except Err Nat)
  | 0, e, _ => (e, [], .livelock)
  | fuel + 1, e, rest =>
    if rest.length = 0 then (e, [], .done (.ok n))
    else
      let st := E.step e .process rest cap
      if st.2.consumed > rest.length ∨ st.2.produced.length > cap then (e, [], .panic)
      else if st.2.ok = false then (st.1, [⟨.process, rest, cap, st.2, E.hasMore st.1, E.isFinished st.1⟩], .done (.error .invalidData))
      else
        match specWriteLoop E cap n fuel st.1 (rest.drop st.2.consumed) with
        | (e', l, o) => (e', l ++ [⟨.process, rest, cap, st.2, E.hasMore st.1, E.isFinished st.1⟩], o)

def specFlushOrClose (E : Enc σ) (cap : Nat) (op : Op) : Nat → σ → σ × List ERec × Out (Except Err Unit)
  | 0, e => (e, [], .livelock)
  | fuel + 1, e =>
    let st := E.step e op [] cap
    if st.2.consumed > 0 ∨ st.2.produced.length > cap then (e, [], .panic)
    else if st.2.ok = false then (st.1, [⟨op, [], cap, st.2, E.hasMore st.1, E.isFinished st.1⟩], .done (.error .invalidData))
    else if (if op = .flush then E.hasMore st.1 = false else E.isFinished st.1 = true) then
      (st.1, [⟨op, [], cap, st.2, E.hasMore st.1, E.isFinished st.1⟩], .done (.ok ()))
    else
      match specFlushOrClose E cap op fuel st.1 with
      | (e', l, o) => (e', l ++ [⟨op, [], cap, st.2, E.hasMore st.1, E.isFinished st.1⟩], o)

/-- one hand-over to a wrapped writer that never fails -/
theorem encodeAndHandOver_faultFree (E : Enc σ) (w : Writer σ) (op : Op) (input : Bytes) (hf : w.sink.faultFree) :
    let st := E.step w.enc op input w.bufSize
    if st.2.consumed > input.length ∨ st.2.produced.length > w.bufSize then w.encodeAndHandOver E op input = none
    else ∃ w', w.encodeAndHandOver E op input = some (w', st.2, .ok ()) ∧
      w'.enc = st.1 ∧ w'.bufSize = w.bufSize ∧ w'.errInvalid = w.errInvalid ∧ w'.errZero = w.errZero ∧
      w'.elog = ⟨op, input, w.bufSize, st.2, E.hasMore st.1, E.isFinished st.1⟩ :: w.elog ∧
      w'.sink.got = w.sink.got ++ st.2.produced ∧ w'.sink.faultFree := by
  intro st
  unfold Writer.encodeAndHandOver
  simp only
  split
  · rfl
  · split
    · next hpos =>
      obtain ⟨q1, q2, q3, q4, q5⟩ := writeAll_faultFree w.errZero w.errInvalid w.sink st.2.produced hf
      generalize hwa : writeAll w.errZero w.errInvalid w.sink st.2.produced = wa at q1 q2 q3 q4 q5
      obtain ⟨ez, ei, s', rr⟩ := wa
      simp only at q1 q2 q3 q4 q5
      subst q1 q2 q3
      have : writeAll w.errZero w.errInvalid w.sink (E.step w.enc op input w.bufSize).2.produced = (w.errZero, w.errInvalid, s', .ok ()) := hwa
      simp only [this]
      exact ⟨_, rfl, rfl, rfl, rfl, rfl, rfl, q4, q5⟩
    · next hz =>
      have hnil : st.2.produced = [] := List.eq_nil_of_length_eq_zero (Nat.eq_zero_of_not_pos hz)
      exact ⟨_, rfl, rfl, rfl, rfl, rfl, rfl, by simp [hnil], hf⟩

/-- `short_writes_transparent`, strong form for `write`: over ANY script of short writes and
`Interrupted`s the writer asks the encoder exactly what the reference automaton asks, returns what
it returns, and the sink has received exactly the bytes the encoder produced, in order -/
theorem writeLoop_faultFree_eq_spec (E : Enc σ) (n : Nat) : ∀ (fuel : Nat) (w : Writer σ) (rest : Bytes),
    w.sink.faultFree → w.errInvalid = true →
    (Writer.writeLoop E n fuel w rest).2 = (specWriteLoop E w.bufSize n fuel w.enc rest).2.2 ∧
    (Writer.writeLoop E n fuel w rest).1.enc = (specWriteLoop E w.bufSize n fuel w.enc rest).1 ∧
    (Writer.writeLoop E n fuel w rest).1.elog = (specWriteLoop E w.bufSize n fuel w.enc rest).2.1 ++ w.elog ∧
    (Writer.writeLoop E n fuel w rest).1.sink.got = w.sink.got ++ emitted (specWriteLoop E w.bufSize n fuel w.enc rest).2.1 ∧
    (Writer.writeLoop E n fuel w rest).1.sink.faultFree ∧ (Writer.writeLoop E n fuel w rest).1.bufSize = w.bufSize := by
  intro fuel
  induction fuel with
  | zero => intro w rest hf _; simp [Writer.writeLoop, specWriteLoop, hf]
  | succ fuel ih =>
    intro w rest hf harm
    simp only [Writer.writeLoop, specWriteLoop]
    split
    · simp [hf]
    · have h := encodeAndHandOver_faultFree E w .process rest hf
      simp only at h
      split at h
      · next hins => rw [h, if_pos hins]; simp [hf]
      · next hsane =>
        obtain ⟨w', e0, e1, e2, e3, e4, e5, e6, e7⟩ := h
        rw [e0, if_neg hsane]
        simp only
        by_cases hok : (E.step w.enc Op.process rest w.bufSize).2.ok = false
        · rw [if_pos hok]
          simp only [hok, Bool.not_false, if_true]
          rw [if_pos (by rw [e3]; exact harm)]
          simp [e1, e5, e6, e7, e2, emitted]
        · rw [if_neg hok]
          have hok' : (E.step w.enc Op.process rest w.bufSize).2.ok = true := by simpa using hok
          simp only [hok', Bool.not_true, Bool.false_eq_true, if_false]
          obtain ⟨i1, i2, i3, i4, i5, i6⟩ := ih w' (rest.drop (E.step w.enc Op.process rest w.bufSize).2.consumed) e7 (by rw [e3]; exact harm)
          rw [e1, e2] at i1 i2 i3 i4
          refine ⟨i1, i2, ?_, ?_, i5, by rw [i6, e2]⟩
          · rw [i3, e5]; simp
          · rw [i4, e6, emitted_append]; simp [emitted]
/-- the same for `flush_or_close` (FLUSH of `flush`, FINISH of `into_inner` / `Drop`) -/
theorem flushOrClose_faultFree_eq_spec (E : Enc σ) (op : Op) : ∀ (fuel : Nat) (w : Writer σ),
    w.sink.faultFree → w.errInvalid = true →
    (Writer.flushOrClose E op fuel w).2 = (specFlushOrClose E w.bufSize op fuel w.enc).2.2 ∧
    (Writer.flushOrClose E op fuel w).1.enc = (specFlushOrClose E w.bufSize op fuel w.enc).1 ∧
    (Writer.flushOrClose E op fuel w).1.elog = (specFlushOrClose E w.bufSize op fuel w.enc).2.1 ++ w.elog ∧
    (Writer.flushOrClose E op fuel w).1.sink.got = w.sink.got ++ emitted (specFlushOrClose E w.bufSize op fuel w.enc).2.1 ∧
    (Writer.flushOrClose E op fuel w).1.sink.faultFree ∧ (Writer.flushOrClose E op fuel w).1.bufSize = w.bufSize := by
  intro fuel
  induction fuel with
  | zero => intro w hf _; simp [Writer.flushOrClose, specFlushOrClose, hf]
  | succ fuel ih =>
    intro w hf harm
    simp only [Writer.flushOrClose, specFlushOrClose]
    have h := encodeAndHandOver_faultFree E w op [] hf
    simp only [List.length_nil] at h
    split at h
    · next hins => rw [h, if_pos hins]; simp [hf]
    · next hsane =>
      obtain ⟨w', e0, e1, e2, e3, e4, e5, e6, e7⟩ := h
      rw [e0, if_neg hsane]
      simp only
      by_cases hok : (E.step w.enc op [] w.bufSize).2.ok = false
      · rw [if_pos hok]
        simp only [hok, Bool.not_false, if_true]
        rw [if_pos (by rw [e3]; exact harm)]
        simp [e1, e5, e6, e7, e2, emitted]
      · rw [if_neg hok]
        have hok' : (E.step w.enc op [] w.bufSize).2.ok = true := by simpa using hok
        simp only [hok', Bool.not_true, Bool.false_eq_true, if_false]
        obtain ⟨i1, i2, i3, i4, i5, i6⟩ := ih w' e7 (by rw [e3]; exact harm)
        rw [e1, e2] at i1 i2 i3 i4
        by_cases hop : op = .flush
        · subst hop
          simp only [if_true, e1]
          by_cases hm : E.hasMore (E.step w.enc Op.flush [] w.bufSize).1 = true
          · simp only [hm, if_true, Bool.true_eq_false, if_false]
            refine ⟨i1, i2, ?_, ?_, i5, by rw [i6, e2]⟩ <;>
              first | exact hm | (rw [i3, e5]; simp [hm]; done) | (rw [i4, e6, emitted_append]; simp [emitted]; done)
          · have hm' : E.hasMore (E.step w.enc Op.flush [] w.bufSize).1 = false := by simpa using hm
            simp [hm', e1, e5, e6, e7, e2, emitted]
        · simp only [hop, if_false, e1]
          by_cases hm : E.isFinished (E.step w.enc op [] w.bufSize).1 = true
          · simp [hm, e1, e5, e6, e7, e2, emitted]
          · have hm' : E.isFinished (E.step w.enc op [] w.bufSize).1 = false := by simpa using hm
            simp only [hm', Bool.false_eq_true, if_false]
            refine ⟨i1, i2, ?_, ?_, i5, by rw [i6, e2]⟩ <;>
              first | exact hm' | (rw [i3, e5]; simp [hm']; done) | (rw [i4, e6, emitted_append]; simp [emitted]; done)
end BV.Adapters
