/-
C14 basics: the command queue grows without losing or reordering anything; `replayIR` is
compositional; `InputPair::split_at` keeps the frozen literal offsets equal to the position inside the
meta-block slice (representation invariant `Rep`), so the literals pushed for a pair replay to exactly
that pair's bytes.
-/
import BV.Model.Recoder

namespace BV.Recoder

/-! ### `CommandQueue` -/

/-- well-formed queue: some capacity, fill level within capacity, never overfull -/
structure Queue.Ok (q : Queue) : Prop where
  cap_pos : 0 < q.cap
  le : q.items.length ≤ q.cap
  not_over : q.overfull = false

theorem Queue.new_ok (n : Nat) : (Queue.new n).Ok :=
  ⟨by show 0 < n * 17 / 16 + 4; omega, by show ([] : List IR).length ≤ n * 17 / 16 + 4; simp, rfl⟩

theorem Queue.push_ok (q : Queue) (v : IR) (h : q.Ok) :
    (q.push v).Ok ∧ (q.push v).items = q.items ++ [v] := by
  have h1 := h.cap_pos
  have h2 := h.le
  unfold Queue.push
  by_cases hfull : q.items.length = q.cap
  · simp only [hfull, if_true]
    rw [if_pos (by omega)]
    exact ⟨⟨by show 0 < q.cap * 2; omega, by show (q.items ++ [v]).length ≤ q.cap * 2; simp; omega, h.not_over⟩, rfl⟩
  · simp only [hfull, if_false]
    rw [if_pos hfull]
    exact ⟨⟨h1, by show (q.items ++ [v]).length ≤ q.cap; simp; omega, h.not_over⟩, rfl⟩

/-- **`queue_growth_lossless`**: pushing any sequence of IR commands into a queue created by
`CommandQueue::new` (any `num_commands`, also 0) stores exactly that sequence, in order, and never
sets `overfull` — whatever the number of doublings -/
theorem Queue.pushAll_lossless (vs : List IR) : ∀ (q : Queue), q.Ok →
    (q.pushAll vs).Ok ∧ (q.pushAll vs).items = q.items ++ vs := by
  induction vs with
  | nil => intro q h; exact ⟨h, by simp [Queue.pushAll]⟩
  | cons v vs ih =>
    intro q h
    obtain ⟨h1, h2⟩ := Queue.push_ok q v h
    obtain ⟨h3, h4⟩ := ih (q.push v) h1
    refine ⟨by simpa [Queue.pushAll] using h3, ?_⟩
    show (List.foldl Queue.push (q.push v) vs).items = _
    have : (Queue.pushAll (q.push v) vs).items = (q.push v).items ++ vs := h4
    unfold Queue.pushAll at this
    rw [this, h2]
    simp

/-! ### `replayIR` -/

theorem replayIR_append (w : WordOracle) (window : Nat) (mb : Bytes) :
    ∀ (xs ys : List IR) (out : Bytes),
      replayIR w window mb (xs ++ ys) out =
        match replayIR w window mb xs out with
        | some o => replayIR w window mb ys o
        | none => none := by
  intro xs
  induction xs with
  | nil => intro ys out; rfl
  | cons x xs ih =>
    intro ys out
    cases x with
    | lit off len he =>
      simp only [List.cons_append, replayIR]
      split
      · exact ih ys _
      · rfl
    | copy dist n =>
      simp only [List.cons_append, replayIR]
      split
      · exact ih ys _
      · rfl
    | dict ws tr fs id =>
      simp only [List.cons_append, replayIR]
      split
      · split
        · exact ih ys _
        · rfl
      · rfl
    | bsl t => simp only [List.cons_append, replayIR]; exact ih ys _
    | bsc t => simp only [List.cons_append, replayIR]; exact ih ys _
    | bsd t => simp only [List.cons_append, replayIR]; exact ih ys _

theorem replayIR_append_some (w : WordOracle) (window : Nat) (mb : Bytes) (xs ys : List IR) (out o : Bytes)
    (h : replayIR w window mb xs out = some o) :
    replayIR w window mb (xs ++ ys) out = replayIR w window mb ys o := by
  rw [replayIR_append, h]

/-! ### `InputPair` representation -/

/-- `p` stands for the bytes `mb[c, c + p.len)` and its frozen offsets are positions inside `mb` -/
structure Rep (mb : Bytes) (p : Pair) (c : Nat) : Prop where
  bytes : p.bytes = (mb.drop c).take p.len
  bound : c + p.len ≤ mb.length
  offA : p.a.data ≠ [] → p.a.off = c
  offB : p.b.data ≠ [] → p.b.off = c + p.a.data.length

theorem mkPair_rep (i0 i1 : Bytes) : Rep (i0 ++ i1) (mkPair i0 i1) 0 := by
  refine ⟨?_, ?_, fun _ => rfl, fun _ => by simp [mkPair]⟩
  · simp only [Pair.bytes, Pair.len, mkPair, List.drop_zero]
    rw [List.take_of_length_le (by simp)]
  · simp [Pair.len, mkPair]

theorem Pair.splitAt_len (p : Pair) (loc : Nat) :
    (p.splitAt loc).1.len = min loc p.len ∧ (p.splitAt loc).2.len = p.len - loc := by
  unfold Pair.splitAt Pair.len
  split <;> simp <;> omega

theorem take_min_len (l : List Nat) (o : Nat) : l.take (min o l.length) = l.take o := by
  by_cases hk : o ≤ l.length
  · rw [Nat.min_eq_left hk]
  · rw [Nat.min_eq_right (by omega), List.take_of_length_le (Nat.le_refl _), List.take_of_length_le (by omega)]

theorem drop_min_len (l : List Nat) (o : Nat) : l.drop (min o l.length) = l.drop o := by
  by_cases hk : o ≤ l.length
  · rw [Nat.min_eq_left hk]
  · rw [Nat.min_eq_right (by omega), List.drop_eq_nil_of_le (Nat.le_refl _), List.drop_eq_nil_of_le (by omega)]

theorem Pair.splitAt_bytes (p : Pair) (loc : Nat) :
    (p.splitAt loc).1.bytes = p.bytes.take loc ∧ (p.splitAt loc).2.bytes = p.bytes.drop loc := by
  unfold Pair.splitAt Pair.bytes
  split
  · rename_i h
    simp only [List.nil_append]
    constructor
    · rw [List.take_append, List.take_of_length_le h, take_min_len]
    · rw [List.drop_append, List.drop_eq_nil_of_le h, List.nil_append, drop_min_len]
  · rename_i h
    simp only [List.append_nil]
    constructor
    · rw [List.take_append, show loc - p.a.data.length = 0 by omega]; simp
    · rw [List.drop_append, show loc - p.a.data.length = 0 by omega]; simp

theorem Rep.splitAt {mb : Bytes} {p : Pair} {c : Nat} (h : Rep mb p c) (loc : Nat) (hl : loc ≤ p.len) :
    Rep mb (p.splitAt loc).1 c ∧ Rep mb (p.splitAt loc).2 (c + loc) := by
  obtain ⟨l1, l2⟩ := p.splitAt_len loc
  obtain ⟨b1, b2⟩ := p.splitAt_bytes loc
  have hb := h.bytes
  have hbound := h.bound
  constructor
  · refine ⟨?_, by rw [l1]; omega, ?_, ?_⟩
    · rw [b1, l1, hb, List.take_take, Nat.min_eq_left hl]
    · unfold Pair.splitAt; split
      · exact h.offA
      · intro _; exact h.offA (by intro hnil; rename_i hh; rw [hnil] at hh; simp at hh)
    · unfold Pair.splitAt; split
      · intro hne
        simp only at hne ⊢
        exact h.offB (by intro hnil; rw [hnil] at hne; simp at hne)
      · intro hne; simp at hne
  · refine ⟨?_, by rw [l2]; omega, ?_, ?_⟩
    · rw [b2, l2, hb, List.drop_take, List.drop_drop]
    · unfold Pair.splitAt; split
      · intro hne; simp at hne
      · intro _
        simp only
        rw [h.offA (by intro hnil; rename_i hh; rw [hnil] at hh; simp at hh)]
    · unfold Pair.splitAt; split
      · rename_i hge
        intro hne
        simp only at hne ⊢
        have hlen : p.len = p.a.data.length + p.b.data.length := rfl
        have hk : loc - p.a.data.length ≤ p.b.data.length := by omega
        have hbne : p.b.data ≠ [] := by intro hnil; rw [hnil] at hne; simp at hne
        rw [h.offB hbne]
        simp
        omega
      · rename_i hlt
        intro hne
        simp only at hne ⊢
        rw [h.offB hne]
        simp
        omega


theorem Rep.a_eq {mb : Bytes} {p : Pair} {c : Nat} (h : Rep mb p c) :
    p.a.data = (mb.drop c).take p.a.data.length := by
  have hb := h.bytes
  have hlen : p.len = p.a.data.length + p.b.data.length := rfl
  have := congrArg (List.take p.a.data.length) hb
  rw [Pair.bytes, List.take_left, List.take_take, Nat.min_eq_left (by omega)] at this
  exact this

theorem Rep.b_eq {mb : Bytes} {p : Pair} {c : Nat} (h : Rep mb p c) :
    p.b.data = (mb.drop (c + p.a.data.length)).take p.b.data.length := by
  have hb := h.bytes
  have hlen : p.len = p.a.data.length + p.b.data.length := rfl
  have := congrArg (List.drop p.a.data.length) hb
  rw [Pair.bytes, List.drop_left, List.drop_take, List.drop_drop, hlen, Nat.add_sub_cancel_left] at this
  exact this

/-- the literals pushed for a represented pair replay to exactly its bytes -/
theorem pushLiterals_replay (w : WordOracle) (window : Nat) (mb : Bytes) (he : Bool) (p : Pair) (c : Nat)
    (h : Rep mb p c) (h32 : mb.length < 2 ^ 32) (out : Bytes) :
    replayIR w window mb (pushLiterals he p) out = some (out ++ p.bytes) := by
  have hbound := h.bound
  have hlen : p.len = p.a.data.length + p.b.data.length := rfl
  have ha := h.a_eq
  have hbb := h.b_eq
  unfold pushLiterals
  by_cases h1 : p.a.data.length = 0 <;> by_cases h2 : p.b.data.length = 0
  · have e1 : p.a.data = [] := List.length_eq_zero_iff.mp h1
    have e2 : p.b.data = [] := List.length_eq_zero_iff.mp h2
    simp [replayIR, Pair.bytes, e1, e2]
  · have e1 : p.a.data = [] := List.length_eq_zero_iff.mp h1
    have hne : p.b.data ≠ [] := by intro hh; rw [hh] at h2; simp at h2
    simp only [h1, h2, ne_eq, not_true_eq_false, not_false_eq_true, if_false, if_true, List.nil_append, replayIR]
    rw [Nat.mod_eq_of_lt (by omega), h.offB hne, if_pos (by omega), ← hbb]
    simp [Pair.bytes, e1]
  · have e2 : p.b.data = [] := List.length_eq_zero_iff.mp h2
    have hne : p.a.data ≠ [] := by intro hh; rw [hh] at h1; simp at h1
    simp only [h1, h2, ne_eq, not_true_eq_false, not_false_eq_true, if_false, if_true, List.append_nil, replayIR]
    rw [Nat.mod_eq_of_lt (by omega), h.offA hne, if_pos (by omega), ← ha]
    simp [Pair.bytes, e2]
  · have hneA : p.a.data ≠ [] := by intro hh; rw [hh] at h1; simp at h1
    have hneB : p.b.data ≠ [] := by intro hh; rw [hh] at h2; simp at h2
    simp only [h1, h2, ne_eq, not_false_eq_true, if_true, List.cons_append, List.nil_append, replayIR]
    rw [Nat.mod_eq_of_lt (by omega), Nat.mod_eq_of_lt (by omega), h.offA hneA, h.offB hneB,
      if_pos (by omega), if_pos (by omega), ← ha, ← hbb]
    simp [Pair.bytes]


end BV.Recoder
