/-
C01 / fragment writers, part 3: one iteration of the command loop of the two-pass `StoreCommands` on the byte
storage: a code word (`SymOK`: writer tables and reader code agree), its extra bits, the literals of an insert
code; and the finite table facts tying the 64 + 64 command codes to RFC 7932 §5 / §4
(`tab_all`: code ↦ insert-and-copy symbol `q1Symbol`, base values, numbers of extra bits; `dist_all`).
-/
import BV.Lemmas.FragmentRaw
namespace BV.Fragment
open BV.Bits BV.MetaBlock BV.Huffman BV.PrefixArith BV.Recoder
open BV.Lemmas.HuffmanRead (takeBits_bitsOf)

/-- the writer's tables `D`/`B` and the reader's code `C` agree on table index `idx` ↦ symbol `sym`:
the code word fits its length (≤ 56, the limit of one `BrotliWriteBits`) and the reader decodes it to `sym`, stopping behind it -/
structure SymOK (D B : List Nat) (C : Code) (idx sym : Nat) : Prop where
  hD : idx < D.length
  hB : idx < B.length
  d56 : D.getD idx 0 ≤ 56
  fit : B.getD idx 0 < 2 ^ D.getD idx 0
  rd : ∀ rest, C.read (bitsOf (D.getD idx 0) (B.getD idx 0) ++ rest) = some (sym, rest)

theorem writeSym_ok (D B : List Nat) (C : Code) (idx sym : Nat) (h : SymOK D B C idx sym) (s : Sto)
    (hg : Good s) (hr : (s.ix + 56) / 8 + 8 ≤ s.bytes.size) :
    ∃ s', (getAt D idx >>= fun d => getAt B idx >>= fun b => writeBits d b s) = .ok s' ∧
      Wr s s' (bitsOf (D.getD idx 0) (B.getD idx 0)) := by
  have hd := h.d56
  obtain ⟨s', e, w⟩ := writeBits_ok (D.getD idx 0) (B.getD idx 0) s hg h.fit (by omega) (by omega)
  refine ⟨s', ?_, w⟩
  rw [getAt_getD D idx h.hD, bind_ok', getAt_getD B idx h.hB, bind_ok', e]

theorem storeLits_ok (litD litB : List Nat) (litC : Code) : ∀ (bs : List Nat) (s : Sto), Good s →
    (s.ix + 57 * bs.length) / 8 + 8 ≤ s.bytes.size → (∀ b ∈ bs, SymOK litD litB litC b b) →
    ∃ s' lb, storeLits litD litB bs s = .ok s' ∧ Wr s s' lb ∧ lb.length ≤ 56 * bs.length ∧
      ∀ acc rest, readLiterals litC bs.length acc (lb ++ rest) = some (acc ++ bs, rest)
  | [], s, hg, _, _ => ⟨s, [], rfl, Wr.refl s hg, by simp, by intro acc rest; simp [readLiterals]⟩
  | b :: bs, s, hg, hr, hs => by
    simp only [List.length_cons] at hr
    have hb := hs b (by simp)
    obtain ⟨s1, e1, w1⟩ := writeSym_ok litD litB litC b b hb s hg (by omega)
    have hl1 : (bitsOf (litD.getD b 0) (litB.getD b 0)).length ≤ 56 := by rw [length_bitsOf]; exact hb.d56
    have i1 := w1.ix
    obtain ⟨s2, lb, e2, w2, hl2, r2⟩ := storeLits_ok litD litB litC bs s1 w1.good
      (by rw [i1, w1.size]; omega) (fun x hx => hs x (by simp [hx]))
    refine ⟨s2, _, ?_, w1.trans w2, by simp only [List.length_append, List.length_cons]; omega, ?_⟩
    · unfold storeLits
      have e1' : (getAt litD b >>= fun d => getAt litB b >>= fun v => writeBits d v s >>= fun s =>
          storeLits litD litB bs s) = storeLits litD litB bs s1 := by
        rw [getAt_getD litD b hb.hD, bind_ok', getAt_getD litB b hb.hB, bind_ok'] at e1 ⊢
        rw [e1, bind_ok']
      rw [← e2, ← e1']
    · intro acc rest
      simp only [List.length_cons, readLiterals, List.append_assoc]
      rw [hb.rd]
      simp only []
      rw [r2]
      simp


/-! ### table facts (finite checks) -/

def tabOK (c : Nat) : Bool :=
  match rfcInsTable[(rfcCmdDecode (q1Symbol c)).1]?, rfcCopyTable[(rfcCmdDecode (q1Symbol c)).2.1]? with
  | some (ib, ie), some (_, ce) =>
    decide (q1Symbol c < 704) && decide (kNumExtraBits.getD c 0 ≤ 24) &&
    (if c < 24 then ie == kNumExtraBits.getD c 0 && ce == 0 && ib == kInsertOffset.getD c 0 && decide (ib ≤ 22594)
      && decide (c < kInsertOffset.length)
     else ie == 0 && ce == kNumExtraBits.getD c 0 && ib == 0)
  | _, _ => false

theorem tab_all' : (List.range 64).all tabOK = true := by decide +kernel

theorem tab_all (c : Nat) (h : c < 64) : tabOK c = true :=
  List.all_eq_true.mp tab_all' c (List.mem_range.mpr h)

def distOK (dc : Nat) : Bool :=
  decide ((if dc - 64 < 16 + 0 then 0 else rfcDistNBits 0 0 (dc - 64)) = kNumExtraBits.getD dc 0) &&
  decide (kNumExtraBits.getD dc 0 ≤ 24)

theorem dist_all' : (List.range 64).all (fun i => distOK (64 + i)) = true := by decide +kernel

theorem dist_all (dc : Nat) (h1 : 64 ≤ dc) (h2 : dc < 128) :
    (if dc - 64 < 16 + 0 then 0 else rfcDistNBits 0 0 (dc - 64)) = kNumExtraBits.getD dc 0 ∧
    kNumExtraBits.getD dc 0 ≤ 24 := by
  have := List.all_eq_true.mp dist_all' (dc - 64) (List.mem_range.mpr (by omega))
  have e : 64 + (dc - 64) = dc := by omega
  rw [e] at this
  simpa [distOK] using this

theorem ne_len : kNumExtraBits.length = 128 := by decide +kernel

/-- one iteration of the command loop for a code that carries no literals (`code ≥ 24`) -/
theorem loop_step_plain (litD litB cmdD cmdB : List Nat) (C : Code) (cmd sym : Nat) (cs lits : List Nat) (s : Sto)
    (hc24 : 24 ≤ cmd % 256) (hc128 : cmd % 256 < 128) (hs : SymOK cmdD cmdB C (cmd % 256) sym)
    (hne : kNumExtraBits.getD (cmd % 256) 0 ≤ 24) (hex : cmd / 256 < 2 ^ kNumExtraBits.getD (cmd % 256) 0)
    (hg : Good s) (hr : (s.ix + 81) / 8 + 8 ≤ s.bytes.size) :
    ∃ s1, storeCmdLoop litD litB cmdD cmdB (cmd :: cs) lits s = storeCmdLoop litD litB cmdD cmdB cs lits s1 ∧
      Wr s s1 (bitsOf (cmdD.getD (cmd % 256) 0) (cmdB.getD (cmd % 256) 0) ++
        bitsOf (kNumExtraBits.getD (cmd % 256) 0) (cmd / 256)) ∧ s1.ix ≤ s.ix + 80 := by
  obtain ⟨s1, e1, w1⟩ := writeSym_ok cmdD cmdB C _ sym hs s hg (by omega)
  have hd := hs.d56
  have i1 : s1.ix = s.ix + cmdD.getD (cmd % 256) 0 := by rw [w1.ix, length_bitsOf]
  obtain ⟨s2, e2, w2⟩ := writeBits_ok _ (cmd / 256) s1 w1.good hex (by omega) (by rw [i1, w1.size]; omega)
  have i2 : s2.ix = s1.ix + kNumExtraBits.getD (cmd % 256) 0 := by rw [w2.ix, length_bitsOf]
  refine ⟨s2, ?_, w1.trans w2, by omega⟩
  rw [storeCmdLoop]
  simp only []
  rw [getAt_getD cmdD _ hs.hD, bind_ok', getAt_getD cmdB _ hs.hB, bind_ok'] at e1 ⊢
  rw [e1, bind_ok', getAt_getD kNumExtraBits _ (by rw [ne_len]; exact hc128), bind_ok', e2, bind_ok',
    if_neg (by omega)]

/-- one iteration of the command loop for an insert code (`code < 24`) -/
theorem loop_step_ins (litD litB cmdD cmdB : List Nat) (C litC : Code) (cmd sym : Nat) (cs lits : List Nat) (s : Sto)
    (hc24 : cmd % 256 < 24) (hs : SymOK cmdD cmdB C (cmd % 256) sym)
    (hne : kNumExtraBits.getD (cmd % 256) 0 ≤ 24) (hex : cmd / 256 < 2 ^ kNumExtraBits.getD (cmd % 256) 0)
    (hoff : kInsertOffset.getD (cmd % 256) 0 ≤ 22594) (hol : cmd % 256 < kInsertOffset.length)
    (hins : kInsertOffset.getD (cmd % 256) 0 + cmd / 256 ≤ lits.length)
    (hl : ∀ b ∈ lits, SymOK litD litB litC b b)
    (hg : Good s)
    (hr : (s.ix + 81 + 57 * (kInsertOffset.getD (cmd % 256) 0 + cmd / 256)) / 8 + 8 ≤ s.bytes.size) :
    ∃ s1 lb, storeCmdLoop litD litB cmdD cmdB (cmd :: cs) lits s =
        storeCmdLoop litD litB cmdD cmdB cs (lits.drop (kInsertOffset.getD (cmd % 256) 0 + cmd / 256)) s1 ∧
      Wr s s1 (bitsOf (cmdD.getD (cmd % 256) 0) (cmdB.getD (cmd % 256) 0) ++
        (bitsOf (kNumExtraBits.getD (cmd % 256) 0) (cmd / 256) ++ lb)) ∧
      s1.ix ≤ s.ix + 80 + 56 * (kInsertOffset.getD (cmd % 256) 0 + cmd / 256) ∧
      ∀ acc rest, readLiterals litC (kInsertOffset.getD (cmd % 256) 0 + cmd / 256) acc (lb ++ rest)
        = some (acc ++ lits.take (kInsertOffset.getD (cmd % 256) 0 + cmd / 256), rest) := by
  obtain ⟨s1, e1, w1⟩ := writeSym_ok cmdD cmdB C _ sym hs s hg (by omega)
  have hd := hs.d56
  have i1 : s1.ix = s.ix + cmdD.getD (cmd % 256) 0 := by rw [w1.ix, length_bitsOf]
  obtain ⟨s2, e2, w2⟩ := writeBits_ok _ (cmd / 256) s1 w1.good hex (by omega) (by rw [i1, w1.size]; omega)
  have i2 : s2.ix = s1.ix + kNumExtraBits.getD (cmd % 256) 0 := by rw [w2.ix, length_bitsOf]
  have p24 : (2 : Nat) ^ 24 = 16777216 := by decide
  have hex24 : cmd / 256 < 16777216 := by
    rw [← p24]; exact Nat.lt_of_lt_of_le hex (Nat.pow_le_pow_right (by decide) hne)
  have hmod : (kInsertOffset.getD (cmd % 256) 0 + cmd / 256) % two32 = kInsertOffset.getD (cmd % 256) 0 + cmd / 256 := by
    apply Nat.mod_eq_of_lt
    have : two32 = 4294967296 := rfl
    omega
  have htl : (lits.take (kInsertOffset.getD (cmd % 256) 0 + cmd / 256)).length
      = kInsertOffset.getD (cmd % 256) 0 + cmd / 256 := by
    rw [List.length_take]; omega
  obtain ⟨s3, lb, e3, w3, hl3, r3⟩ := storeLits_ok litD litB litC
    (lits.take (kInsertOffset.getD (cmd % 256) 0 + cmd / 256)) s2 w2.good
    (by rw [htl, i2, i1, w2.size, w1.size]; omega) (fun b hb => hl b (List.mem_of_mem_take hb))
  rw [htl] at hl3 r3
  refine ⟨s3, lb, ?_, by simpa [List.append_assoc] using (w1.trans w2).trans w3, by rw [w3.ix]; omega, r3⟩
  rw [storeCmdLoop]
  simp only []
  rw [getAt_getD cmdD _ hs.hD, bind_ok', getAt_getD cmdB _ hs.hB, bind_ok'] at e1 ⊢
  rw [e1, bind_ok', getAt_getD kNumExtraBits _ (by rw [ne_len]; omega), bind_ok', e2, bind_ok',
    if_pos hc24, getAt_getD kInsertOffset _ hol, bind_ok']
  simp only [hmod]
  rw [if_neg (by omega), e3, bind_ok']

end BV.Fragment
