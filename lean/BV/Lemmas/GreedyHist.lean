/-
C01 / greedy builder, part 1: histograms held in slots — element access, totals, `HistogramAddItem`,
`HistogramAddHistogram`.
-/
import BV.Model.Greedy

namespace BV.Greedy
open BV.Bits BV.Recoder BV.MetaBlock

/-- entry `x` of histogram `c` of a slot -/
def cnt (slot : Slot) (c x : Nat) : Nat := (slot.getD c []).getD x 0

/-- total count of a slot -/
def slotTotal (slot : Slot) : Nat := (slot.map List.sum).sum

/-- `num_contexts` histograms of `H` entries each -/
def Shaped (nc H : Nat) (slot : Slot) : Prop := slot.length = nc ∧ ∀ h ∈ slot, h.length = H

theorem getD_set_eq {α : Type} (l : List α) (i : Nat) (v d : α) (h : i < l.length) : (l.set i v).getD i d = v := by
  simp [List.getD_eq_getElem?_getD, h]

theorem getD_set_ne {α : Type} (l : List α) (i j : Nat) (v d : α) (h : i ≠ j) : (l.set i v).getD j d = l.getD j d := by
  simp [List.getD_eq_getElem?_getD, h]

theorem getD_mem' {α : Type} (l : List α) (i : Nat) (d : α) (h : i < l.length) : l.getD i d ∈ l := by
  rw [List.getD_eq_getElem?_getD, List.getElem?_eq_getElem h]
  simp

theorem getD_of_le {α : Type} (l : List α) (i : Nat) (d : α) (h : l.length ≤ i) : l.getD i d = d := by
  simp [List.getD_eq_getElem?_getD, List.getElem?_eq_none h]

theorem getAt_getD' {α : Type} (l : List α) (i : Nat) (d : α) (h : i < l.length) : getAt l i = .ok (l.getD i d) := by
  simp [getAt, List.getD_eq_getElem?_getD, List.getElem?_eq_getElem h]

theorem setAt_ok' {α : Type} (l : List α) (i : Nat) (v : α) (h : i < l.length) : setAt l i v = .ok (l.set i v) := by
  simp [setAt, h]

theorem getD_le_sum : ∀ (l : List Nat) (i : Nat), l.getD i 0 ≤ l.sum
  | [], _ => by simp
  | a :: l, 0 => by simp
  | a :: l, i + 1 => by
    have := getD_le_sum l i
    simp only [List.getD_cons_succ, List.sum_cons]
    omega

theorem sum_set : ∀ (l : List Nat) (i v : Nat), i < l.length → (l.set i v).sum + l.getD i 0 = l.sum + v
  | [], _, _, h => by simp at h
  | a :: l, 0, v, _ => by simp; omega
  | a :: l, i + 1, v, h => by
    have := sum_set l i v (by simpa using h)
    simp only [List.set_cons_succ, List.sum_cons, List.getD_cons_succ]
    omega

theorem sum_map_set (slot : Slot) (i : Nat) (h : List Nat) (hi : i < slot.length) :
    slotTotal (slot.set i h) + (slot.getD i []).sum = slotTotal slot + h.sum := by
  unfold slotTotal
  have := sum_set (slot.map List.sum) i h.sum (by simpa using hi)
  rw [List.map_set]
  have e : (slot.map List.sum).getD i 0 = (slot.getD i []).sum := by
    simp [List.getD_eq_getElem?_getD, List.getElem?_map, List.getElem?_eq_getElem hi]
  rw [e] at this
  exact this

theorem cnt_le_total (slot : Slot) (c x : Nat) : cnt slot c x ≤ slotTotal slot := by
  unfold cnt slotTotal
  by_cases hc : c < slot.length
  · have h1 := getD_le_sum (slot.getD c []) x
    have h2 := getD_le_sum (slot.map List.sum) c
    have e : (slot.map List.sum).getD c 0 = (slot.getD c []).sum := by
      simp [List.getD_eq_getElem?_getD, List.getElem?_map, List.getElem?_eq_getElem hc]
    omega
  · rw [getD_of_le slot c [] (by omega)]
    simp

/-! ### `HistogramAddHistogram` -/

theorem addHist_getD : ∀ (a b : List Nat) (x : Nat), a.length = b.length →
    (addHist a b).getD x 0 = (a.getD x 0 + b.getD x 0) % two32
  | [], [], _, _ => by simp [addHist]
  | [], _ :: _, _, h => by simp at h
  | _ :: _, [], _, h => by simp at h
  | a :: as, b :: bs, 0, _ => by simp [addHist]
  | a :: as, b :: bs, x + 1, h => by
    have := addHist_getD as bs x (by simpa using h)
    simpa [addHist] using this

theorem addHist_length (a b : List Nat) (h : a.length = b.length) : (addHist a b).length = a.length := by
  simp [addHist, h]

theorem addHist_sum_le : ∀ (a b : List Nat), (addHist a b).sum ≤ a.sum + b.sum
  | [], _ => by simp [addHist]
  | _ :: _, [] => by simp [addHist]
  | a :: as, b :: bs => by
    have := addHist_sum_le as bs
    have h2 : (a + b) % two32 ≤ a + b := Nat.mod_le _ _
    simp only [addHist, List.zipWith_cons_cons, List.sum_cons] at this ⊢
    omega

theorem addSlot_getD : ∀ (a b : Slot) (c : Nat), a.length = b.length →
    (addSlot a b).getD c [] = addHist (a.getD c []) (b.getD c [])
  | [], [], _, _ => by simp [addSlot, addHist]
  | [], _ :: _, _, h => by simp at h
  | _ :: _, [], _, h => by simp at h
  | a :: as, b :: bs, 0, _ => by simp [addSlot]
  | a :: as, b :: bs, c + 1, h => by
    have := addSlot_getD as bs c (by simpa using h)
    simpa [addSlot] using this

theorem addSlot_total_le : ∀ (a b : Slot), slotTotal (addSlot a b) ≤ slotTotal a + slotTotal b
  | [], _ => by simp [addSlot, slotTotal]
  | _ :: _, [] => by simp [addSlot, slotTotal]
  | a :: as, b :: bs => by
    have h1 := addSlot_total_le as bs
    have h2 := addHist_sum_le a b
    simp only [slotTotal, addSlot, List.zipWith_cons_cons, List.map_cons, List.sum_cons] at h1 ⊢
    omega

theorem Shaped.getD {nc H : Nat} {slot : Slot} (h : Shaped nc H slot) (c : Nat) (hc : c < nc) :
    (slot.getD c []).length = H :=
  h.2 _ (getD_mem' slot c [] (by rw [h.1]; exact hc))

theorem addSlot_cnt (nc H : Nat) (a b : Slot) (ha : Shaped nc H a) (hb : Shaped nc H b) (c x : Nat) :
    cnt (addSlot a b) c x = (cnt a c x + cnt b c x) % two32 := by
  unfold cnt
  rw [addSlot_getD a b c (by rw [ha.1, hb.1])]
  by_cases hc : c < nc
  · exact addHist_getD _ _ x (by rw [ha.getD c hc, hb.getD c hc])
  · rw [getD_of_le a c [] (by rw [ha.1]; omega), getD_of_le b c [] (by rw [hb.1]; omega)]
    simp [addHist]

theorem addSlot_shaped (nc H : Nat) (a b : Slot) (ha : Shaped nc H a) (hb : Shaped nc H b) :
    Shaped nc H (addSlot a b) := by
  refine ⟨by simp [addSlot, ha.1, hb.1], ?_⟩
  intro h hh
  obtain ⟨i, hi, rfl⟩ := List.getElem_of_mem hh
  have hi' : i < nc := by simpa [addSlot, ha.1, hb.1] using hi
  have e : (addSlot a b)[i] = (addSlot a b).getD i [] := by
    simp [List.getD_eq_getElem?_getD, List.getElem?_eq_getElem hi]
  rw [e, addSlot_getD a b i (by rw [ha.1, hb.1]), addHist_length _ _ (by rw [ha.getD i hi', hb.getD i hi'])]
  exact ha.getD i hi'

theorem zeroSlot_shaped (nc H : Nat) : Shaped nc H (zeroSlot nc H) := by
  refine ⟨by simp [zeroSlot], ?_⟩
  intro h hh
  simp only [zeroSlot, List.mem_replicate] at hh
  rw [hh.2]; simp

theorem zeroSlot_cnt (nc H c x : Nat) : cnt (zeroSlot nc H) c x = 0 := by
  unfold cnt zeroSlot
  by_cases hc : c < nc
  · simp [List.getD_eq_getElem?_getD, List.getElem?_replicate, hc]
    split <;> rfl
  · simp [List.getD_eq_getElem?_getD, hc]

theorem sum_replicate_zero (n : Nat) : (List.replicate n 0).sum = 0 := by
  induction n with
  | zero => rfl
  | succ n ih => simp [List.replicate_succ, ih]

theorem zeroSlot_total (nc H : Nat) : slotTotal (zeroSlot nc H) = 0 := by
  unfold slotTotal zeroSlot
  rw [List.map_replicate, sum_replicate_zero H]
  exact sum_replicate_zero nc

/-! ### `HistogramAddItem` -/

theorem addItem_spec (nc H : Nat) (slots : List Slot) (curr context symbol : Nat) (hc : curr < slots.length)
    (hs : Shaped nc H (slots.getD curr [])) (hctx : context < nc) (hsym : symbol < H) :
    ∃ slot', addItem slots curr context symbol = .ok (slots.set curr slot') ∧ Shaped nc H slot' ∧
      slotTotal slot' ≤ slotTotal (slots.getD curr []) + 1 ∧
      (∀ c x, cnt slot' c x = if c = context ∧ x = symbol then (cnt (slots.getD curr []) c x + 1) % two32
        else cnt (slots.getD curr []) c x) := by
  have hcl : context < (slots.getD curr []).length := by rw [hs.1]; exact hctx
  have hhl : symbol < ((slots.getD curr []).getD context []).length := by rw [hs.getD context hctx]; exact hsym
  let slot := slots.getD curr []
  let h := slot.getD context []
  let h' := h.set symbol ((h.getD symbol 0 + 1) % two32)
  refine ⟨slot.set context h', ?_, ?_, ?_, ?_⟩
  · unfold addItem
    rw [getAt_getD' slots curr [] hc, Out.bind_ok, getAt_getD' _ context [] hcl, Out.bind_ok,
      getAt_getD' _ symbol 0 hhl, Out.bind_ok, setAt_ok' _ symbol _ hhl, Out.bind_ok, setAt_ok' _ context _ hcl,
      Out.bind_ok, setAt_ok' _ curr _ hc]
  · refine ⟨by rw [List.length_set]; exact hs.1, ?_⟩
    intro g hg
    rcases List.mem_or_eq_of_mem_set hg with hg | hg
    · exact hs.2 g hg
    · rw [hg]; show (h.set _ _).length = H; rw [List.length_set]; exact hs.getD context hctx
  · have e1 := sum_map_set slot context h' hcl
    have e2 := sum_set h symbol ((h.getD symbol 0 + 1) % two32) hhl
    have e3 : (h.getD symbol 0 + 1) % two32 ≤ h.getD symbol 0 + 1 := Nat.mod_le _ _
    show slotTotal (slot.set context h') ≤ slotTotal slot + 1
    have e4 : (slot.getD context []).sum = h.sum := rfl
    have e5 : h'.sum + h.getD symbol 0 = h.sum + (h.getD symbol 0 + 1) % two32 := e2
    omega
  · intro c x
    unfold cnt
    show ((slot.set context h').getD c []).getD x 0 = _
    by_cases hcc : c = context
    · subst hcc
      rw [getD_set_eq slot c h' [] hcl]
      by_cases hx : x = symbol
      · subst hx
        rw [if_pos ⟨rfl, rfl⟩]
        exact getD_set_eq h x _ 0 hhl
      · rw [if_neg (by intro hh; exact hx hh.2)]
        exact getD_set_ne h symbol x _ 0 (fun e => hx e.symm)
    · rw [if_neg (by intro hh; exact hcc hh.1), getD_set_ne slot context c h' [] (fun e => hcc e.symm)]

end BV.Greedy
