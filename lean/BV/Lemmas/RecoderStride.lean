/-
C14, bookkeeping of the detection passes that are fed by the same `process_command_queue`: `StrideEval`'s epochs and
score sizing (where the `choose_stride` assertion defect lived) and `PriorEval`'s fixed score table.
-/
import BV.Model.Recoder
namespace BV.Recoder

/-- what the allocation policy guarantees after any number of block switches -/
def StrideSt.Ok (s : StrideSt) : Prop := 32 ≤ s.len ∧ s.epoch * 8 + 8 ≤ s.len

theorem StrideSt.new_ok : StrideSt.new.Ok := ⟨by decide, by decide⟩

theorem StrideSt.updateBlockType_ok (s : StrideSt) (h : s.Ok) :
    s.updateBlockType.Ok ∧ s.updateBlockType.epoch = s.epoch + 1 := by
  obtain ⟨h1, h2⟩ := h
  unfold StrideSt.updateBlockType
  split
  · exact ⟨⟨by show 32 ≤ s.len * 2; omega, by show (s.epoch + 1) * 8 + 8 ≤ s.len * 2; omega⟩, rfl⟩
  · exact ⟨⟨h1, by show (s.epoch + 1) * 8 + 8 ≤ s.len; omega⟩, rfl⟩

theorem StrideSt.push_ok (s : StrideSt) (c : IR) (h : s.Ok) : ∃ s', s.push c = some s' ∧ s'.Ok := by
  cases c with
  | bsl t => exact ⟨_, rfl, (s.updateBlockType_ok h).1⟩
  | lit off len he =>
    show ∃ s', (if len = 0 then some s else s.updateCost) = some s' ∧ s'.Ok
    by_cases hz : len = 0
    · rw [if_pos hz]; exact ⟨s, rfl, h⟩
    · rw [if_neg hz]
      unfold StrideSt.updateCost
      rw [if_pos (by have := h.2; omega)]
      exact ⟨s, rfl, h⟩
  | copy d n => exact ⟨s, rfl, h⟩
  | dict a b c d => exact ⟨s, rfl, h⟩
  | bsc t => exact ⟨s, rfl, h⟩
  | bsd t => exact ⟨s, rfl, h⟩

theorem StrideSt.pushAll_ok : ∀ (ir : List IR) (s : StrideSt), s.Ok → ∃ s', s.pushAll ir = some s' ∧ s'.Ok := by
  intro ir
  induction ir with
  | nil => intro s h; exact ⟨s, rfl, h⟩
  | cons c cs ih =>
    intro s h
    obtain ⟨s1, e1, h1⟩ := s.push_ok c h
    obtain ⟨s2, e2, h2⟩ := ih s1 h1
    exact ⟨s2, by rw [StrideSt.pushAll, e1]; exact e2, h2⟩

theorem StrideSt.chooseReadsOk_of_ok (s : StrideSt) (h : s.Ok) : s.chooseReadsOk s.epoch = true := by
  unfold StrideSt.chooseReadsOk
  rw [List.all_eq_true]
  intro index hi
  have : index < s.epoch := List.mem_range.mp hi
  have := h.2
  simp only [decide_eq_true_eq]
  omega

theorem StrideSt.chooseAsserts_of_ok (s : StrideSt) (h : s.Ok) : s.chooseAsserts s.epoch = true := by
  unfold StrideSt.chooseAsserts
  have := h.2
  simp only [beq_self_eq_true, Bool.true_and, Bool.and_eq_true, decide_eq_true_eq]
  omega

/-- number of literal block switches pushed = number of epochs -/
def countBsl : List IR → Nat
  | [] => 0
  | .bsl _ :: rest => countBsl rest + 1
  | _ :: rest => countBsl rest

theorem StrideSt.pushAll_epoch : ∀ (ir : List IR) (s s' : StrideSt), s.pushAll ir = some s' →
    s'.epoch = s.epoch + countBsl ir := by
  intro ir
  induction ir with
  | nil => intro s s' h; simp [StrideSt.pushAll] at h; subst h; simp [countBsl]
  | cons c cs ih =>
    intro s s' h
    rw [StrideSt.pushAll] at h
    cases hp : s.push c with
    | none => rw [hp] at h; cases h
    | some s1 =>
      rw [hp] at h
      have := ih s1 s' h
      cases c with
      | bsl t =>
        simp only [StrideSt.push, Option.some.injEq] at hp
        subst hp
        rw [this]
        have he : s.updateBlockType.epoch = s.epoch + 1 := by unfold StrideSt.updateBlockType; split <;> rfl
        rw [he]
        show s.epoch + 1 + countBsl cs = s.epoch + (countBsl cs + 1)
        omega
      | lit off len he =>
        have e : s1 = s := by
          have hp' : (if len = 0 then some s else s.updateCost) = some s1 := hp
          unfold StrideSt.updateCost at hp'
          split at hp'
          · cases hp'; rfl
          · split at hp'
            · cases hp'; rfl
            · cases hp'
        rw [this, e]; simp [countBsl]
      | copy d n => simp only [StrideSt.push, Option.some.injEq] at hp; subst hp; rw [this]; simp [countBsl]
      | dict a b c d => simp only [StrideSt.push, Option.some.injEq] at hp; subst hp; rw [this]; simp [countBsl]
      | bsc t => simp only [StrideSt.push, Option.some.injEq] at hp; subst hp; rw [this]; simp [countBsl]
      | bsd t => simp only [StrideSt.push, Option.some.injEq] at hp; subst hp; rw [this]; simp [countBsl]

/-- **the stride pass never panics, for every IR and every number of literal blocks**: the allocation policy
(`32`, doubling when `epoch * 8 + 7 ≥ len`) implies every score index of `update_cost_base`, the three assertions of
`choose_stride` (as fixed) and every read of `choose_stride`; the number of strides chosen is the number of
`BlockSwitchLiteral` commands -/
theorem stride_pass_total (ir : List IR) : stridePass ir = some (countBsl ir) := by
  unfold stridePass
  obtain ⟨s, e, h⟩ := StrideSt.pushAll_ok ir StrideSt.new StrideSt.new_ok
  rw [e]
  simp only [s.chooseAsserts_of_ok h, s.chooseReadsOk_of_ok h, Bool.and_self, if_true]
  have := StrideSt.pushAll_epoch ir _ _ e
  rw [this]
  simp [StrideSt.new]

/-- the score array is always one of 32, 64, 128, … and the old assertion fails exactly when the last epoch's scores
end at the end of the array -/
theorem old_assert_fails_iff (s : StrideSt) (h : s.Ok) :
    s.chooseAssertsOld s.epoch = false ↔ s.len < s.epoch * 8 + 16 := by
  unfold StrideSt.chooseAssertsOld
  have := h.2
  constructor
  · intro hf
    by_cases hlt : s.len < s.epoch * 8 + 16
    · exact hlt
    · exfalso
      have : (s.epoch == s.epoch && decide (s.len > s.epoch) && decide (s.len > s.epoch * 8 + 7 + 8)) = true := by
        simp only [beq_self_eq_true, Bool.true_and, Bool.and_eq_true, decide_eq_true_eq]; omega
      rw [this] at hf; cases hf
  · intro hlt
    have : decide (s.len > s.epoch * 8 + 7 + 8) = false := by simp only [decide_eq_false_iff_not]; omega
    rw [this]; simp

/-- the defect that was fixed: with the old assertion a meta-block with exactly 3, 7, 15 or 31 literal blocks
(`BlockSwitchLiteral` pushes, the initial one included) panicked although every access is in bounds -/
theorem old_assert_panics_at_3_7_15_31 :
    stridePassOld (List.replicate 3 (IR.bsl 0)) = none ∧ stridePassOld (List.replicate 7 (IR.bsl 0)) = none ∧
    stridePassOld (List.replicate 15 (IR.bsl 0)) = none ∧ stridePassOld (List.replicate 31 (IR.bsl 0)) = none ∧
    stridePassOld (List.replicate 4 (IR.bsl 0)) = some 4 ∧ stridePassOld (List.replicate 2 (IR.bsl 0)) = some 2 := by
  decide

/-- `PriorEval`: both score indices of a literal are inside the 8192-entry table, for every context-map entry
(`cm_prior < 256`), stride byte and nibble; and `choose_bitmask` writes `bitmask[i]` for `i < score.len()` into an
array of exactly that size -/
theorem prior_eval_indices_in_bounds (strideByte cmPrior highNibble : Nat) (h1 : strideByte < 256) (h2 : cmPrior < 256)
    (h3 : highNibble < 16) :
    priorUpperIndex strideByte cmPrior < priorScoreLen ∧ priorLowerIndex cmPrior highNibble < priorScoreLen ∧
    priorScoreLen = numMixingValues := by
  unfold priorUpperIndex priorLowerIndex priorScoreLen numMixingValues
  omega

end BV.Recoder
