/-
C01 / greedy builder, part 13: `BrotliOptimizeHistograms` behind the builder — the rewritten histograms still satisfy
the hypotheses of the writer theorem.
-/
import BV.Lemmas.GreedyMain
import BV.Lemmas.GreedyOptSum

namespace BV.Greedy
open BV.Gen BV.Bits BV.Huffman BV.Recoder BV.MetaBlock BV.Lemmas.HuffmanOptRle

/-! ### histograms rewritten behind the builder (`BrotliOptimizeHistograms`) -/

/-- `mbs'` is `mbs` with rewritten histograms that lost no occurring symbol: same splits, context maps and sizes; per
histogram below the size the same length bound, total `≤ 2^25`, nothing above the alphabet, and every non-zero count
still non-zero.  (`BrotliOptimizeHuffmanCountsForRle` keeps lengths and non-zero counts: C17 `optimize_keep`.) -/
structure Rewritten (mbs mbs' : MBSplit) (A : Nat) : Prop where
  lit : mbs'.lit = mbs.lit
  cmd : mbs'.cmd = mbs.cmd
  dist : mbs'.dist = mbs.dist
  litCmap : mbs'.litCmap = mbs.litCmap
  litCmapSize : mbs'.litCmapSize = mbs.litCmapSize
  distCmap : mbs'.distCmap = mbs.distCmap
  distCmapSize : mbs'.distCmapSize = mbs.distCmapSize
  ls : mbs'.litHistosSize = mbs.litHistosSize
  cs : mbs'.cmdHistosSize = mbs.cmdHistosSize
  ds : mbs'.distHistosSize = mbs.distHistosSize
  hl : HistosOK mbs'.litHistos mbs'.litHistosSize 256 256
  hc : HistosOK mbs'.cmdHistos mbs'.cmdHistosSize 704 704
  hd : HistosOK mbs'.distHistos mbs'.distHistosSize A A
  kl : ∀ i x, (mbs.litHistos.getD i []).getD x 0 ≠ 0 → (mbs'.litHistos.getD i []).getD x 0 ≠ 0
  kc : ∀ i x, (mbs.cmdHistos.getD i []).getD x 0 ≠ 0 → (mbs'.cmdHistos.getD i []).getD x 0 ≠ 0
  kd : ∀ i x, (mbs.distHistos.getD i []).getD x 0 ≠ 0 → (mbs'.distHistos.getD i []).getD x 0 ≠ 0

/-- non-vacuity: nothing rewritten -/
theorem Rewritten.refl (mbs : MBSplit) (A : Nat) (hM : MBOK mbs A) : Rewritten mbs mbs A :=
  ⟨rfl, rfl, rfl, rfl, rfl, rfl, rfl, rfl, rfl, rfl, hM.hl, hM.hc, hM.hd, fun _ _ h => h, fun _ _ h => h, fun _ _ h => h⟩

theorem covers_mono (h h' : List (List Nat)) (eff : List Nat) (m : Nat)
    (hk : ∀ i x, (h.getD i []).getD x 0 ≠ 0 → (h'.getD i []).getD x 0 ≠ 0) :
    ∀ (ts : List Nat) (ss : List (Nat × Nat)), Covers h eff m ts ss → Covers h' eff m ts ss
  | _, [], _ => by simp [Covers]
  | [], _ :: _, hc => by simp [Covers] at hc
  | t :: ts, (ctx, sym) :: ss, hc => ⟨hk _ _ hc.1, covers_mono h h' eff m hk ts ss hc.2⟩

/-- **rewritten_histograms_wellformed** — the hypotheses `MBOK` + `Covers` of the writer theorem survive any rewriting
of the histograms that keeps shape, totals, the alphabet and every occurring symbol. -/
theorem rewritten_histograms_wellformed (mbs mbs' : MBSplit) (A : Nat) (mode : Nat) (hist mb : Bytes) (cmds : List Cmd)
    (hr : Rewritten mbs mbs' A) (hM : MBOK mbs A)
    (hcL : Covers mbs.litHistos (effMap mbs.litCmap mbs.litCmapSize mbs.lit.numTypes 64) 64
      (remTypes mbs.lit 0 (mbs.lit.lengths.getD 0 0)) (litSymsOf mode hist mb 0 cmds))
    (hcI : Covers mbs.cmdHistos (trivialMap mbs.cmd.numTypes 1) 1
      (remTypes mbs.cmd 0 (mbs.cmd.lengths.getD 0 0)) (cmds.map fun c => (0, c.cmdPrefix)))
    (hcD : Covers mbs.distHistos (effMap mbs.distCmap mbs.distCmapSize mbs.dist.numTypes 4) 4
      (remTypes mbs.dist 0 (mbs.dist.lengths.getD 0 0)) (distSymsOf cmds)) :
    MBOK mbs' A ∧
    Covers mbs'.litHistos (effMap mbs'.litCmap mbs'.litCmapSize mbs'.lit.numTypes 64) 64
      (remTypes mbs'.lit 0 (mbs'.lit.lengths.getD 0 0)) (litSymsOf mode hist mb 0 cmds) ∧
    Covers mbs'.cmdHistos (trivialMap mbs'.cmd.numTypes 1) 1
      (remTypes mbs'.cmd 0 (mbs'.cmd.lengths.getD 0 0)) (cmds.map fun c => (0, c.cmdPrefix)) ∧
    Covers mbs'.distHistos (effMap mbs'.distCmap mbs'.distCmapSize mbs'.dist.numTypes 4) 4
      (remTypes mbs'.dist 0 (mbs'.dist.lengths.getD 0 0)) (distSymsOf cmds) := by
  refine ⟨⟨by rw [hr.lit]; exact hM.lit, by rw [hr.cmd]; exact hM.cmd, by rw [hr.dist]; exact hM.dist, hr.hl, hr.hc, hr.hd,
    by rw [hr.cs, hr.cmd]; exact hM.csz, by rw [hr.litCmapSize, hr.ls, hr.lit]; exact hM.l0,
    by rw [hr.litCmapSize, hr.ls, hr.lit, hr.litCmap]; exact hM.l1, by rw [hr.distCmapSize, hr.ds, hr.dist]; exact hM.d0,
    by rw [hr.distCmapSize, hr.ds, hr.dist, hr.distCmap]; exact hM.d1⟩, ?_, ?_, ?_⟩
  · rw [hr.litCmap, hr.litCmapSize, hr.lit]; exact covers_mono _ _ _ _ hr.kl _ _ hcL
  · rw [hr.cmd]; exact covers_mono _ _ _ _ hr.kc _ _ hcI
  · rw [hr.distCmap, hr.distCmapSize, hr.dist]; exact covers_mono _ _ _ _ hr.kd _ _ hcD

/-! ### the loop over the histograms -/

theorem optimizeHistos_spec (length : Nat) : ∀ (size : Nat) (hs r : List (List Nat)), size ≤ hs.length →
    optimizeHistos length hs size = .ok r →
    r.length = hs.length ∧
      (∀ i, i < size → optimizeHuffmanCountsForRle length (hs.getD i []) (List.replicate 704 0) = .ok (r.getD i [])) ∧
      (∀ i, size ≤ i → r.getD i [] = hs.getD i []) := by
  intro size
  induction size with
  | zero =>
    intro hs r _ h
    simp only [optimizeHistos, List.range_zero, List.foldlM_nil] at h
    injection h with h; subst h
    exact ⟨rfl, fun i hi => absurd hi (Nat.not_lt_zero _), fun _ _ => rfl⟩
  | succ n ih =>
    intro hs r hn h
    unfold optimizeHistos at h
    rw [show List.range (n + 1) = List.range n ++ [n] from List.range_succ, foldlM_append_out] at h
    cases h1 : (List.range n).foldlM (fun hs i => do
        let h ← getAt hs i
        let h' ← optimizeHuffmanCountsForRle length h (List.replicate 704 0)
        setAt hs i h') hs with
    | panic => rw [h1] at h; cases h
    | fuel => rw [h1] at h; cases h
    | ok r1 =>
    rw [h1] at h
    obtain ⟨a1, a2, a3⟩ := ih hs r1 (by omega) h1
    simp only [Out.bind_ok, List.foldlM_cons, List.foldlM_nil] at h
    have hnl : n < r1.length := by omega
    rw [getAt_getD' r1 n [] hnl] at h
    simp only [Out.bind_ok] at h
    cases h2 : optimizeHuffmanCountsForRle length (r1.getD n []) (List.replicate 704 0) with
    | panic => rw [h2] at h; cases h
    | fuel => rw [h2] at h; cases h
    | ok h' =>
    rw [h2] at h
    simp only [Out.bind_ok] at h
    rw [setAt_ok' r1 n h' hnl] at h
    simp only [Out.bind_ok] at h
    injection h with h
    subst h
    refine ⟨by rw [List.length_set, a1], fun i hi => ?_, fun i hi => ?_⟩
    · by_cases hin : i = n
      · subst hin
        rw [getD_set_eq _ _ _ _ hnl, ← a3 i (Nat.le_refl _)]; exact h2
      · rw [getD_set_ne _ _ _ _ _ (fun e => hin e.symm)]; exact a2 i (by omega)
    · rw [getD_set_ne _ _ _ _ _ (by omega)]; exact a3 i (by omega)

/-- one category: the optimised histograms are `HistosOK` again and keep every occurring symbol -/
theorem optimizeHistos_ok (length H A size : Nat) (hs r : List (List Nat)) (hH : length ≤ H) (hlA : length ≤ A) (hH704 : H ≤ 704)
    (hok : HistosOK hs size H A)
    (hsharp : ∀ i, i < size → (hs.getD i []).length = H ∧ (hs.getD i []).sum ≤ 2 ^ 24)
    (h : optimizeHistos length hs size = .ok r) :
    HistosOK r size H A ∧ ∀ i x, (hs.getD i []).getD x 0 ≠ 0 → (r.getD i []).getD x 0 ≠ 0 := by
  obtain ⟨a1, a2, a3⟩ := optimizeHistos_spec length size hs r hok.sz h
  refine ⟨⟨by rw [a1]; exact hok.sz, hok.sz1, hok.sz256, fun i hi => ?_⟩, fun i x hx => ?_⟩
  · obtain ⟨hl, hsum⟩ := hsharp i hi
    obtain ⟨b1, b2, b3⟩ := optimize_sum length (hs.getD i []) _ (r.getD i []) (by omega) (by omega) (a2 i hi)
    refine ⟨by rw [b2, hl]; exact Nat.le_refl _, by omega, fun k hk => ?_⟩
    rw [b3 k (by omega)]; exact (hok.each i hi).2.2 k hk
  · by_cases hi : i < size
    · obtain ⟨hl, hsum⟩ := hsharp i hi
      have hb : ∀ y ∈ hs.getD i [], y < u32 := by
        intro y hy
        have := le_sum_of_mem _ y hy
        unfold u32; omega
      exact (optimize_keep length (hs.getD i []) _ (r.getD i []) hb (by omega) (a2 i hi)).hnz x hx
    · rw [a3 i (by omega)]; exact hx

/-- **`BrotliOptimizeHistograms`, whenever it returns, rewrites the builder's histograms in the sense of `Rewritten`** -/
theorem optimizeHistograms_rewritten (mbs mbs' : MBSplit) (A nd : Nat) (hnd : nd ≤ A) (hA : A ≤ 544) (hM : MBOK mbs A)
    (hS : HSharp mbs) (h : optimizeHistograms nd mbs = .ok mbs') : Rewritten mbs mbs' A := by
  unfold optimizeHistograms at h
  cases h1 : optimizeHistos 256 mbs.litHistos mbs.litHistosSize with
  | panic => rw [h1] at h; cases h
  | fuel => rw [h1] at h; cases h
  | ok l =>
  cases h2 : optimizeHistos 704 mbs.cmdHistos mbs.cmdHistosSize with
  | panic => rw [h1, h2] at h; cases h
  | fuel => rw [h1, h2] at h; cases h
  | ok c =>
  cases h3 : optimizeHistos nd mbs.distHistos mbs.distHistosSize with
  | panic => rw [h1, h2, h3] at h; cases h
  | fuel => rw [h1, h2, h3] at h; cases h
  | ok d =>
  rw [h1, h2, h3] at h
  simp only [Out.bind_ok] at h
  injection h with h
  subst h
  obtain ⟨l1, l2⟩ := optimizeHistos_ok 256 256 256 _ _ _ (Nat.le_refl _) (Nat.le_refl _) (by decide) hM.hl hS.l h1
  obtain ⟨c1, c2⟩ := optimizeHistos_ok 704 704 704 _ _ _ (Nat.le_refl _) (Nat.le_refl _) (by decide) hM.hc hS.c h2
  have hdok : HistosOK mbs.distHistos mbs.distHistosSize 544 A :=
    ⟨hM.hd.sz, hM.hd.sz1, hM.hd.sz256, fun i hi => ⟨by rw [(hS.d i hi).1]; exact Nat.le_refl _, (hM.hd.each i hi).2⟩⟩
  obtain ⟨d1, d2⟩ := optimizeHistos_ok nd 544 A _ _ _ (by omega) hnd (by decide) hdok hS.d h3
  exact ⟨rfl, rfl, rfl, rfl, rfl, rfl, rfl, rfl, rfl, rfl, l1, c1,
    ⟨d1.sz, d1.sz1, d1.sz256, fun i hi => ⟨Nat.le_trans hA (d1.each i hi).1, (d1.each i hi).2⟩⟩, l2, c2, d2⟩

end BV.Greedy
