/-
Specifications of the header look-ahead loop and of
`shift_and_check_new_stream_header`.
-/
import BV.Lemmas.ConcatFlush

namespace BV.Concat
open Outcome BV.Gen

theorem B5.get?_lt (b : B5) (i : Nat) (h : i < 5) : ∃ v, b.get? i = some v := by
  have : i = 0 ∨ i = 1 ∨ i = 2 ∨ i = 3 ∨ i = 4 := by omega
  rcases this with rfl | rfl | rfl | rfl | rfl <;> simp [B5.get?]

theorem B5.set?_lt (b : B5) (i v : Nat) (h : i < 5) : ∃ b', b.set? i v = some b' := by
  have : i = 0 ∨ i = 1 ∨ i = 2 ∨ i = 3 ∨ i = 4 := by omega
  rcases this with rfl | rfl | rfl | rfl | rfl <;> simp [B5.set?]

theorem B5.ofList?_len5 (l : List Nat) (h : l.length = 5) : ∃ b, B5.ofList? l = some b := by
  match l, h with
  | [a, b, c, d, e], _ => exact ⟨_, rfl⟩

@[simp] theorem B5.toList_length (b : B5) : b.toList.length = 5 := rfl

theorem sufficient_iff (d : NewStreamData) :
    d.sufficient = true ↔ (d.num_bytes_read = 4 ∧ (127 &&& d.bytes_so_far.b0) ≠ 17) ∨ d.num_bytes_read = 5 := by
  unfold NewStreamData.sufficient
  by_cases h : d.num_bytes_read = 4 ∧ (127 &&& d.bytes_so_far.b0) ≠ 17
  · simp [h]
  · rw [if_neg h]; simp [h]

theorem sufficient_read (d : NewStreamData) (h : d.sufficient = true) :
    d.num_bytes_read = 4 ∨ d.num_bytes_read = 5 := by
  rcases (sufficient_iff d).mp h with h | h
  · exact Or.inl h.1
  · exact Or.inr h

/-- the look-ahead loop: never panics, reads at most up to 5 bytes, stops exactly
when `sufficient()` or when the input is used up -/
theorem headerLoop_sat : ∀ (inp : List Nat) (nsp : NewStreamData) (off : Nat), nsp.num_bytes_read ≤ 5 →
    (headerLoop nsp inp off).sat (fun r =>
      r.1.num_bytes_written = nsp.num_bytes_written ∧ r.1.num_bytes_read ≤ 5 ∧
      off ≤ r.2 ∧ r.2 ≤ off + inp.length ∧ r.2 + nsp.num_bytes_read = off + r.1.num_bytes_read ∧
      (r.1.sufficient = true ∨ r.2 = off + inp.length)) := by
  intro inp
  induction inp with
  | nil => intro nsp off h; simp [headerLoop, h]
  | cons b rest ih =>
    intro nsp off h
    unfold headerLoop
    refine sat_ite (fun hs => ?_) (fun hs => ?_)
    · simp [h, hs]
    · have hlt : nsp.num_bytes_read < 5 := by
        rcases Nat.lt_or_ge nsp.num_bytes_read 5 with h5 | h5
        · exact h5
        · exact absurd ((sufficient_iff nsp).mpr (Or.inr (by omega))) hs
      obtain ⟨b', hb'⟩ := B5.set?_lt nsp.bytes_so_far nsp.num_bytes_read b hlt
      rw [hb']
      dsimp only
      refine sat_ite (fun _ => by omega) (fun _ => ?_)
      refine sat_mono (ih _ (off + 1) (by dsimp only; omega)) ?_
      intro r ⟨h1, h2, h3, h4, h5, h6⟩
      dsimp only at h1 h5
      simp only [List.length_cons]
      refine ⟨h1, h2, by omega, by omega, by omega, ?_⟩
      rcases h6 with h6 | h6
      · exact Or.inl h6
      · exact Or.inr (by omega)

/-- what the common tail of `shift_and_check_new_stream_header` guarantees -/
structure CopyOutPost (s : State) (cap : Nat) (r : State × List Nat × Nat) : Prop where
  code : r.2.2 = SUCCESS ∨ r.2.2 = NEEDS_MORE_OUTPUT
  out_le : r.2.1.length ≤ cap
  ws : r.1.window_size = s.window_size
  off_lt : r.1.last_byte_bit_offset < 8
  more : r.2.2 = NEEDS_MORE_OUTPUT → r.2.1.length = cap ∧ r.1.last_bytes_len = s.last_bytes_len ∧
    r.1.last_byte_sanitized = s.last_byte_sanitized ∧
    r.1.last_byte_bit_offset = s.last_byte_bit_offset ∧ r.1.last_bytes = s.last_bytes ∧
    ∃ d, r.1.new_stream_pending = some d ∧ d.num_bytes_read ≤ 5 ∧
      ∃ w, d.num_bytes_written = some w ∧ w < d.num_bytes_read
  done : r.2.2 = SUCCESS → r.1.new_stream_pending = none ∧ r.1.last_bytes_len = 1 ∧
    r.1.last_byte_sanitized = false ∧ r.1.last_byte_bit_offset = 0

theorem shiftCopyOut_sat (s : State) (nsp : NewStreamData) (out : List Nat) (cap w : Nat)
    (hw : nsp.num_bytes_written = some w) (hwr : w ≤ nsp.num_bytes_read) (hr : nsp.num_bytes_read ≤ 5)
    (hout : out.length ≤ cap) (hoff : s.last_byte_bit_offset < 8)
    (hne : out ≠ [] ∨ (w < nsp.num_bytes_read ∧ out.length < cap)) :
    (shiftCopyOut s nsp out cap).sat (CopyOutPost s cap) := by
  unfold shiftCopyOut
  rw [hw]
  dsimp only
  rw [hdr5]
  refine sat_ite (fun _ => by omega) (fun _ => ?_)
  refine sat_ite (fun _ => by omega) (fun _ => ?_)
  refine sat_ite (fun _ => by omega) (fun _ => ?_)
  refine sat_ite (fun _ => by omega) (fun _ => ?_)
  have hmod : min (cap - out.length) (nsp.num_bytes_read - w) % 256 = min (cap - out.length) (nsp.num_bytes_read - w) :=
    Nat.mod_eq_of_lt (by omega)
  rw [hmod]
  refine sat_ite (fun _ => by omega) (fun _ => ?_)
  have hlen : (out ++ List.take (min (cap - out.length) (nsp.num_bytes_read - w)) (List.drop w nsp.bytes_so_far.toList)).length
      = out.length + min (cap - out.length) (nsp.num_bytes_read - w) := by
    simp only [List.length_append, List.length_take, List.length_drop, B5.toList_length]
    omega
  refine sat_ite (fun hc => ?_) (fun hc => ?_)
  · rw [sat_ok]
    constructor
    · exact Or.inr rfl
    · show (out ++ _).length ≤ cap
      rw [hlen]; omega
    · show State.window_size _ = _
      split <;> rfl
    · show State.last_byte_bit_offset _ < 8
      split <;> exact hoff
    · intro _
      refine ⟨?_, ?_, ?_, ?_, ?_, _, rfl, hr, _, rfl, ?_⟩
      · show (out ++ _).length = cap
        rw [hlen]; omega
      · show State.last_bytes_len _ = _
        split <;> rfl
      · show State.last_byte_sanitized _ = _
        split <;> rfl
      · show State.last_byte_bit_offset _ = _
        split <;> rfl
      · show State.last_bytes _ = _
        split <;> rfl
      · dsimp only; omega
    · intro h; simp at h
  · cases hg : (out ++ List.take (min (cap - out.length) (nsp.num_bytes_read - w)) (List.drop w nsp.bytes_so_far.toList)).getLast? with
    | none =>
      exfalso
      rw [List.getLast?_eq_none_iff] at hg
      have := congrArg List.length hg
      rw [hlen] at this
      simp only [List.length_nil] at this
      rcases hne with hne | hne
      · exact hne (List.eq_nil_of_length_eq_zero (by omega))
      · omega
    | some b =>
      dsimp only
      refine sat_ite (fun hx => ?_) (fun _ => ?_)
      · exfalso; apply hx; rw [hlen]
        have : out.length + min (cap - out.length) (nsp.num_bytes_read - w) ≠ 0 := by
          intro h0
          have h00 : (out ++ List.take (min (cap - out.length) (nsp.num_bytes_read - w)) (List.drop w nsp.bytes_so_far.toList)) = [] :=
            List.eq_nil_of_length_eq_zero (by rw [hlen]; exact h0)
          rw [h00] at hg; simp at hg
        omega
      · rw [sat_ok]
        constructor
        · exact Or.inl rfl
        · show (List.dropLast _).length ≤ cap
          rw [List.length_dropLast, hlen]; omega
        · show State.window_size _ = _
          dsimp only
          split <;> rfl
        · show 0 < 8; omega
        · intro h; simp at h
        · intro _; exact ⟨rfl, rfl, rfl, rfl⟩

/-! ### the realignment branch -/

theorem packB5_sat (b : B5) (n : Nat) (h : n ≤ 5) : (packB5 b n).sat (fun _ => True) := by
  unfold packB5
  refine sat_mono (forRange_sat _ (fun _ _ => True) n 0 0 trivial ?_) (fun _ _ => trivial)
  intro i a _ hi _
  obtain ⟨v, hv⟩ := B5.get?_lt b i (by omega)
  rw [hv]
  dsimp only
  refine sat_ite (fun _ => by omega) (fun _ => by simp)

theorem setAt_sat (site : Site) (l : List Nat) (i v : Nat) (h : i < l.length) :
    (setAt site l i v).sat (fun r => r = l.set i v) := by
  unfold setAt; rw [if_pos h]; simp

theorem realignStep_sat (bsf off i : Nat) (rh : List Nat) (ho : off ≤ 8) (hi : i < 5) (hl : rh.length = 6) :
    (realignStep bsf off i rh).sat (fun r => r.length = 6) := by
  unfold realignStep
  refine sat_ite (fun _ => by omega) (fun _ => ?_)
  dsimp only
  refine sat_ite (fun _ => by omega) (fun _ => ?_)
  refine sat_bind _ (idx_sat_of_lt _ rh i (by omega)) ?_
  intro old _
  refine sat_bind _ (setAt_sat _ rh i _ (by omega)) ?_
  intro rh1 h1
  refine sat_mono (setAt_sat _ rh1 (i + 1) _ (by rw [h1]; simp; omega)) ?_
  intro r hr
  rw [hr, h1]; simp [hl]

theorem realignLoop_sat (bsf off n : Nat) (rh : List Nat) (ho : off ≤ 8) (hn : n ≤ 5) (hl : rh.length = 6) :
    (forRange (realignStep bsf off) n 0 rh).sat (fun r => r.length = 6) := by
  refine sat_mono (forRange_sat _ (fun _ r => r.length = 6) n 0 rh hl ?_) (fun _ h => h)
  intro i a _ hi ha
  exact realignStep_sat bsf off i a ho (by omega) ha

theorem copyWholeLoop_sat (b : B5) (src dst n : Nat) (rh : List Nat) (hs : src + n ≤ 5) (hd : dst + n ≤ 6)
    (hl : rh.length = 6) : (copyWholeLoop b src dst n rh).sat (fun r => r.length = 6) := by
  unfold copyWholeLoop
  refine sat_mono (forRange_sat _ (fun _ r => r.length = 6) n 0 rh hl ?_) (fun _ h => h)
  intro i a _ hi ha
  obtain ⟨v, hv⟩ := B5.get?_lt b (src + i) (by omega)
  rw [hv]
  dsimp only
  refine sat_mono (setAt_sat _ a (dst + i) v (by omega)) ?_
  intro r hr; rw [hr]; simp [ha]

theorem shiftRealign_sat (s : State) (nsp : NewStreamData) (wo vo : Nat) (out : List Nat) (cap : Nat)
    (hoff : s.last_byte_bit_offset < 8) (hr : nsp.num_bytes_read ≤ 5) (hwo : wo ≤ 14) (hv : wo + 2 ≤ vo)
    (hsrc : (vo + 7) / 8 ≤ nsp.num_bytes_read) (hout : out.length < cap) :
    (shiftRealign s nsp wo vo out cap).sat (fun r =>
      r.1 = { s with any_bytes_emitted := true } ∧ r.2.1.num_bytes_written = some 0 ∧
      r.2.1.num_bytes_read ≤ 5 ∧ r.2.2.length = out.length + 1) := by
  unfold shiftRealign
  dsimp only
  refine sat_bind _ (packB5_sat _ _ hr) ?_
  intro bsf _
  refine sat_ite (fun _ => by omega) (fun _ => ?_)
  refine sat_ite (fun _ => by omega) (fun _ => ?_)
  refine sat_bind _ (realignLoop_sat _ _ _ _ (by omega) (by omega) (by simp)) ?_
  intro rh1 hrh1
  refine sat_ite (fun _ => by omega) (fun _ => ?_)
  refine sat_ite (fun _ => by omega) (fun _ => ?_)
  refine sat_bind _ (copyWholeLoop_sat _ _ _ _ rh1 (by omega) (by omega) hrh1) ?_
  intro rh2 hrh2
  refine sat_bind _ (idx_sat_of_lt _ rh2 0 (by omega)) ?_
  intro rh0 _
  unfold push
  rw [if_pos hout]
  simp only [bind_ok]
  refine sat_ite (fun hc => ?_) (fun _ => ?_)
  · exfalso
    have : (s.last_byte_bit_offset + vo - wo + 7) / 8 + (nsp.num_bytes_read - (vo + 7) / 8) < 256 := by omega
    rw [Nat.mod_eq_of_lt this] at hc
    omega
  obtain ⟨b5, hb5⟩ := B5.ofList?_len5 (rh2.drop 1) (by simp [hrh2])
  rw [hb5]
  dsimp only
  rw [sat_ok]
  refine ⟨rfl, rfl, ?_, by simp⟩
  dsimp only
  have : (s.last_byte_bit_offset + vo - wo + 7) / 8 + (nsp.num_bytes_read - (vo + 7) / 8) < 256 := by omega
  rw [Nat.mod_eq_of_lt this]
  omega

/-- what `shift_and_check_new_stream_header` guarantees -/
structure ShiftPost (s : State) (out : List Nat) (cap : Nat) (r : State × List Nat × Nat) : Prop where
  code : r.2.2 = SUCCESS ∨ r.2.2 = NEEDS_MORE_OUTPUT ∨ r.2.2 = INVALID_WINDOW_SIZE ∨
    r.2.2 = WINDOW_SIZE_LARGER ∨ r.2.2 = NOT_CRAFTED_FOR_CONCAT
  out_le : r.2.1.length ≤ cap
  inv : Inv r.1
  err : r.2.2 ≥ 124 → r.1 = s ∧ r.2.1 = out
  wsne : r.2.2 < 124 → r.1.window_size ≠ 0
  more : r.2.2 = NEEDS_MORE_OUTPUT → r.2.1.length = cap
  done : r.2.2 = SUCCESS → r.1.new_stream_pending = none ∧ r.1.last_bytes_len = 1

theorem post_of_copyOut (s0 s : State) (out0 : List Nat) (cap : Nat) (r : State × List Nat × Nat)
    (h : CopyOutPost s cap r) (hws : s.window_size ≠ 0) (hlen : s.last_bytes_len ≤ 1)
    (_hsan : s.last_byte_sanitized = true)
    (htail : s.last_bytes_len ≠ 0 → s.last_bytes.2 = 0 ∧ s.last_bytes.1 < 2 ^ s.last_byte_bit_offset) :
    ShiftPost s0 out0 cap r := by
  have hcode := h.code
  constructor
  · rcases hcode with h | h
    · exact Or.inl h
    · exact Or.inr (Or.inl h)
  · exact h.out_le
  · rcases hcode with hc | hc
    · obtain ⟨a, b, c, d⟩ := h.done hc
      refine ⟨by omega, h.off_lt, fun e => ?_, fun e => ?_, fun e => ?_, fun d hd => ?_⟩
      · rw [h.ws] at e; exact absurd e hws
      · rw [c] at e; simp at e
      · rw [c] at e; simp at e
      · rw [a] at hd; simp at hd
    · obtain ⟨a, b, b', c, clb, d, hd, hd5, w, hw, hwlt⟩ := h.more hc
      refine ⟨by omega, h.off_lt, fun e => ?_, fun _ => ?_, fun _ hl => ?_, fun d' hd' => ?_⟩
      · rw [h.ws] at e; exact absurd e hws
      · rw [hd]; exact ⟨rfl, by omega⟩
      · rw [clb, c]; exact htail (by omega)
      · rw [hd] at hd'
        simp only [Option.some.injEq] at hd'
        subst hd'
        refine ⟨hd5, fun w' hw' => ?_⟩
        rw [hw] at hw'
        simp only [Option.some.injEq] at hw'
        subst hw'
        exact ⟨hwlt, by rw [h.ws]; exact hws⟩
  · intro hge
    rcases hcode with hc | hc <;> rw [hc] at hge <;> simp at hge
  · intro _; rw [h.ws]; exact hws
  · intro hc; exact (h.more hc).1
  · intro hc; exact ⟨(h.done hc).1, (h.done hc).2.1⟩

theorem post_of_err (s : State) (out : List Nat) (cap code : Nat) (hI : Inv s) (hout : out.length ≤ cap)
    (hc : code = INVALID_WINDOW_SIZE ∨ code = WINDOW_SIZE_LARGER ∨ code = NOT_CRAFTED_FOR_CONCAT) :
    ShiftPost s out cap (s, out, code) := by
  constructor
  · rcases hc with h | h | h
    · exact Or.inr (Or.inr (Or.inl h))
    · exact Or.inr (Or.inr (Or.inr (Or.inl h)))
    · exact Or.inr (Or.inr (Or.inr (Or.inr h)))
  · exact hout
  · exact hI
  · intro _; exact ⟨rfl, rfl⟩
  · intro hlt; rcases hc with h | h | h <;> rw [h] at hlt <;> simp at hlt
  · intro hm; rcases hc with h | h | h <;> rw [h] at hm <;> simp at hm
  · intro hm; rcases hc with h | h | h <;> rw [h] at hm <;> simp at hm

theorem shiftAndCheck_sat (s : State) (nsp : NewStreamData) (out : List Nat) (cap : Nat) (hI : Inv s)
    (hsan : s.last_byte_sanitized = true)
    (hp : s.new_stream_pending = some nsp)
    (hsuf : nsp.num_bytes_written = none → nsp.sufficient = true) (hout : out.length < cap) :
    (shiftAndCheckNewStreamHeader s nsp out cap).sat (ShiftPost s out cap) := by
  unfold shiftAndCheckNewStreamHeader
  obtain ⟨hr5, hwr⟩ := hI.pend nsp hp
  have hlen1 := (hI.san hsan).2
  cases hw : nsp.num_bytes_written with
  | some w =>
    obtain ⟨hwlt, hws⟩ := hwr w hw
    dsimp only
    refine sat_ite (fun h => absurd h hws) (fun _ => ?_)
    refine sat_mono (shiftCopyOut_sat s nsp out cap w hw (by omega) hr5 (by omega) hI.off_lt
      (Or.inr ⟨hwlt, hout⟩)) ?_
    intro r hr
    exact post_of_copyOut s s out cap r hr hws hlen1 hsan (hI.tail hsan)
  | none =>
    dsimp only
    have hrd := sufficient_read nsp (hsuf hw)
    rw [hdr5]
    refine sat_ite (fun _ => by omega) (fun _ => ?_)
    have hlen : (List.take nsp.num_bytes_read nsp.bytes_so_far.toList).length = nsp.num_bytes_read := by
      simp only [List.length_take, B5.toList_length]; omega
    have hpw := parseWindowSize_sat (List.take nsp.num_bytes_read nsp.bytes_so_far.toList) (by omega)
    obtain ⟨pw, hpweq, hpw2⟩ := sat_iff.mp hpw
    rw [hpweq]
    simp only [bind_ok]
    cases pw with
    | none => dsimp only; rw [sat_ok]; exact post_of_err s out cap _ hI (by omega) (Or.inl rfl)
    | some wo =>
      obtain ⟨wsz, wo⟩ := wo
      obtain ⟨hw10, hw30, hwo⟩ := hpw2 wsz wo rfl
      dsimp only
      refine sat_ite (fun h0 => ?_) (fun h0 => ?_)
      · refine sat_ite (fun hc => absurd (hI.ws0 h0).2 hc) (fun _ => ?_)
        unfold push
        rw [if_pos hout]
        simp only [bind_ok]
        refine sat_mono (shiftCopyOut_sat _ _ _ cap 1 rfl (by dsimp only; omega) hr5
          (by simp; omega) hI.off_lt (Or.inl (by simp))) ?_
        intro r hr
        refine post_of_copyOut s _ out cap r hr ?_ hlen1 hsan (hI.tail hsan)
        dsimp only
        have := @Nat.left_le_or wsz (if wo = 14 then LARGE_WINDOW_FLAG else 0)
        omega
      · refine sat_ite (fun _ => by rw [sat_ok]; exact post_of_err s out cap _ hI (by omega) (Or.inr (Or.inl rfl)))
          (fun _ => ?_)
        refine sat_ite (fun _ => by rw [sat_ok]; exact post_of_err s out cap _ hI (by omega) (Or.inr (Or.inr rfl)))
          (fun _ => ?_)
        have hdv := detectVarlenOffset_sat (List.take nsp.num_bytes_read nsp.bytes_so_far.toList)
          (by omega) (by omega)
        refine sat_bind _ hdv ?_
        intro vo hvo
        cases vo with
        | none => dsimp only; rw [sat_ok]; exact post_of_err s out cap _ hI (by omega) (Or.inr (Or.inr rfl))
        | some v =>
          dsimp only
          refine sat_ite (fun _ => by rw [sat_ok]; exact post_of_err s out cap _ hI (by omega) (Or.inr (Or.inr rfl)))
            (fun hsrc => ?_)
          obtain ⟨w', o', hpe, _, hov⟩ := hvo v rfl
          rw [hpweq] at hpe
          simp only [Outcome.ok.injEq, Option.some.injEq, Prod.mk.injEq] at hpe
          obtain ⟨_, rfl⟩ := hpe
          refine sat_bind _ (shiftRealign_sat s nsp wo v out cap hI.off_lt hr5 (by omega) hov (by omega) hout) ?_
          intro r ⟨e1, e2, e3, e4⟩
          refine sat_mono (shiftCopyOut_sat r.1 r.2.1 r.2.2 cap 0 e2 (by omega) e3 (by omega)
            (by rw [e1]; exact hI.off_lt) (Or.inl ?_)) ?_
          · intro h; rw [h] at e4; simp at e4
          · intro r' hr'
            exact post_of_copyOut s r.1 out cap r' hr' (by rw [e1]; exact h0) (by rw [e1]; exact hlen1)
              (by rw [e1]; exact hsan) (by rw [e1]; exact hI.tail hsan)

end BV.Concat
