/-
C10, decoder side: the sticky `max_distance` state machine of brotli-decompressor (hand model
`BV.Dict.Dec`) has the closed form `min (P + d') (2^wbits − 16)` along any non-decreasing
sequence of positions; the ring buffer holds the dictionary tail right below position 0.
-/
import BV.Model.Dict

namespace BV.Dict

/-- closed form of the decoder's `max_distance` at stream position `P` -/
def Dec.closed (D : Dec) (P : Nat) : Nat := min (P + D.dEff) D.mbd

theorem Dec.stepMax_fresh (D : Dec) (cur pos : Nat) (h : cur ≠ D.mbd) :
    D.stepMax cur pos = D.closed pos := by
  unfold Dec.stepMax Dec.closed Dec.mbdMinus Dec.dEff Dec.mbd
  unfold Dec.mbd at h
  generalize 2 ^ D.wbits = W at *
  rw [if_pos h]
  split <;> omega

theorem Dec.stepMax_fresh' (D : Dec) (cur pos : Nat) (h : cur ≠ D.mbd) :
    D.stepMax cur pos = D.closed pos := D.stepMax_fresh cur pos h

theorem Dec.stepMax_stuck (D : Dec) (pos : Nat) : D.stepMax D.mbd pos = D.mbd := by
  simp [Dec.stepMax]

theorem Dec.closed_mono (D : Dec) {p q : Nat} (h : p ≤ q) (hp : D.closed p = D.mbd) : D.closed q = D.mbd := by
  unfold Dec.closed at *
  omega

/-- invariant: either the sticky value has not been reached, or every later position is saturated -/
theorem Dec.runMax_closed_aux (D : Dec) :
    ∀ (ps : List Nat) (cur lo p : Nat),
      (cur ≠ D.mbd ∨ (cur = D.mbd ∧ D.closed lo = D.mbd)) →
      (ps ++ [p]).Pairwise (· ≤ ·) → (∀ x ∈ ps ++ [p], lo ≤ x) →
      D.runMax cur (ps ++ [p]) = D.closed p := by
  intro ps
  induction ps with
  | nil =>
    intro cur lo p hc _ hlo
    simp only [List.nil_append, Dec.runMax]
    rcases hc with hc | ⟨hc, hs⟩
    · exact D.stepMax_fresh cur p hc
    · subst hc
      rw [D.stepMax_stuck]
      exact (D.closed_mono (hlo p (by simp)) hs).symm
  | cons q ps ih =>
    intro cur lo p hc hsorted hlo
    simp only [List.cons_append, Dec.runMax]
    have hs' : (ps ++ [p]).Pairwise (· ≤ ·) := (List.pairwise_cons.mp hsorted).2
    have hq : ∀ x ∈ ps ++ [p], q ≤ x := (List.pairwise_cons.mp hsorted).1
    apply ih (D.stepMax cur q) q p _ hs' hq
    by_cases hne : D.stepMax cur q = D.mbd
    · right
      refine ⟨hne, ?_⟩
      rcases hc with hc | ⟨hc, hs⟩
      · rw [D.stepMax_fresh cur q hc] at hne; exact hne
      · exact D.closed_mono (hlo q (by simp)) hs
    · left; exact hne

/-- **closed form of the decoder's sticky `max_distance`**: after visiting any non-decreasing
sequence of positions ending in `P` (starting from the initial value 0), the value used at `P`
is `min (P + d') (2^wbits − 16)` -/
theorem Dec.runMax_closed (D : Dec) (hw : 5 ≤ D.wbits) (ps : List Nat) (P : Nat)
    (hs : (ps ++ [P]).Pairwise (· ≤ ·)) :
    D.runMax 0 (ps ++ [P]) = min (P + D.dEff) D.mbd := by
  have hpos : (0 : Nat) ≠ D.mbd := by
    unfold Dec.mbd
    have : 2 ^ 5 ≤ 2 ^ D.wbits := Nat.pow_le_pow_right (by decide) hw
    omega
  exact D.runMax_closed_aux ps 0 0 P (Or.inl hpos) hs (by intros; omega)

/-- the wrap of the ring buffer (`max_distance = max_backward_distance`) agrees with the closed form:
a wrap happens at a position `≥ 2^wbits ≥ mbd` -/
theorem Dec.closed_after_wrap (D : Dec) (P : Nat) (h : 2 ^ D.wbits ≤ P) : D.closed P = D.mbd := by
  unfold Dec.closed Dec.mbd; omega

/-! ### ring content -/

theorem Dec.before_eq (D : Dec) (rbits k : Nat) (hk1 : 1 ≤ k) (hk : k ≤ D.dEff) (hR : D.dEff ≤ 2 ^ rbits) :
    D.before rbits k = D.dict (D.d - k) := by
  unfold Dec.before Dec.ring
  have hd : D.dEff ≤ D.d := by unfold Dec.dEff; omega
  have h1 : D.dEff ≠ 0 ∧ 2 ^ rbits - D.dEff ≤ 2 ^ rbits - k ∧ 2 ^ rbits - k < 2 ^ rbits := by omega
  rw [if_pos h1]
  congr 1
  omega

theorem Dec.before_zero (D : Dec) (rbits k : Nat) (hk : D.dEff < k) (hkR : k ≤ 2 ^ rbits) :
    D.before rbits k = 0 := by
  unfold Dec.before Dec.ring
  rw [if_neg]
  omega

end BV.Dict
