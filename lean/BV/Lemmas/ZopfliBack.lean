import BV.Lemmas.ZopfliPath
/-! `ComputeShortestPathFromNodes`: from a node array in which every WRITTEN node is sound with respect to the
ring of last distances of its own backward chain (`AllBack`) to a sound forward path (`NodesOK`).

Spec side: `RingAt` (the ring of last distances after the commands of the backward chain that ends at a
position — the decoder's rule `ringAfter` applied along the chain), `BackOK` (a written node is `NodeOK`
relative to the ring at its start position). -/
namespace BV.Zopfli
open BV.Hasher BV.MatchFinder BV.Recoder BV.PrefixArith BV.MetaBlock BV.Cbr

/-- as `BrotliInitZopfliNodes` left it: exactly the test of the tail skip of `ComputeShortestPathFromNodes` -/
def Node.isStub {K : Type} (n : Node K) : Prop := n.insertLength = 0 ∧ n.length = 1

/-- **the ring of last distances at a position**: `start` at position 0; at the end position `e` of a
written node `n` (insert + copy ending at `e`), the decoder's rule applied to the ring at the node's start
position `e - insert - copy` -/
inductive RingAt {K : Type} (window base : Nat) (nodes : Array (Node K)) (start : List Int) : Nat → List Int → Prop
  | zero : RingAt window base nodes start 0 start
  | step {e : Nat} {r : List Int} (n : Node K) : e ≠ 0 → nodes[e]? = some n → ¬ n.isStub → 0 < n.copyLength →
      n.insertLength + n.copyLength ≤ e →
      RingAt window base nodes start (e - (n.insertLength + n.copyLength)) r →
      RingAt window base nodes start e (ringAfter window (base + e - n.copyLength) r n)

/-- a written node ending at `e` is sound relative to the ring at its start position -/
def BackOK {K : Type} (wo : WordOracle) (window md : Nat) (T : Bytes) (base : Nat) (nodes : Array (Node K))
    (start : List Int) (e : Nat) (n : Node K) : Prop :=
  n.insertLength + n.copyLength ≤ e ∧
  ∃ r, RingAt window base nodes start (e - (n.insertLength + n.copyLength)) r ∧
    NodeOK wo window md T (base + e - n.copyLength) r n

/-- every node of the block is either untouched or sound -/
def AllBack {K : Type} (wo : WordOracle) (window md : Nat) (T : Bytes) (base numBytes : Nat) (nodes : Array (Node K))
    (start : List Int) : Prop :=
  ∀ e n, e ≠ 0 → e ≤ numBytes → nodes[e]? = some n → n.isStub ∨ BackOK wo window md T base nodes start e n

theorem NodeOK.copy_pos {K : Type} {wo : WordOracle} {window md : Nat} {T : Bytes} {abs : Nat} {ring : List Int}
    {n : Node K} (h : NodeOK wo window md T abs ring n) : 0 < n.copyLength := by
  rcases h.kind with ⟨_, _, h2, _⟩ | ⟨_, _, _, _, _, h6, _⟩ <;> omega

theorem RingAt.det {K : Type} {window base : Nat} {nodes : Array (Node K)} {start : List Int} {e : Nat} {r r' : List Int}
    (h : RingAt window base nodes start e r) (h' : RingAt window base nodes start e r') : r = r' := by
  induction h generalizing r' with
  | zero =>
    cases h' with
    | zero => rfl
    | step n he _ _ _ _ _ => exact absurd rfl he
  | step n he hn _ _ _ _ ih =>
    cases h' with
    | zero => exact absurd rfl he
    | step n' _ hn' _ _ _ hr' =>
      rw [hn] at hn'
      injection hn' with hn'
      subst hn'
      rw [ih hr']

/-- the position itself is reached: 0, or a written node -/
theorem RingAt.reached {K : Type} {window base : Nat} {nodes : Array (Node K)} {start : List Int} {e : Nat} {r : List Int}
    (h : RingAt window base nodes start e r) : e = 0 ∨ ∃ n, nodes[e]? = some n ∧ ¬ n.isStub := by
  cases h with
  | zero => exact Or.inl rfl
  | step n _ hn hs _ _ _ => exact Or.inr ⟨n, hn, hs⟩

theorem ringAfter_congr {K : Type} (window abs : Nat) (r : List Int) (n n' : Node K)
    (e2 : n'.distance = n.distance) (e3 : n'.dcil = n.dcil) : ringAfter window abs r n' = ringAfter window abs r n := by
  unfold ringAfter Node.distanceCode Node.shortCode
  rw [e2, e3]

/-- `RingAt` only reads the data fields (`length`, `distance`, `dcode_insert_length`) -/
theorem RingAt.congr {K : Type} {window base : Nat} {nodes nodes' : Array (Node K)} {start : List Int}
    (hsame : ∀ (i : Nat) (n : Node K), nodes[i]? = some n → ∃ n' : Node K, nodes'[i]? = some n' ∧ n'.length = n.length ∧ n'.distance = n.distance ∧ n'.dcil = n.dcil)
    {e : Nat} {r : List Int} (h : RingAt window base nodes start e r) : RingAt window base nodes' start e r := by
  induction h with
  | zero => exact RingAt.zero
  | step n he hn hs hc hle _ ih =>
    obtain ⟨n', hn', e1, e2, e3⟩ := hsame _ n hn
    have hcl : n'.copyLength = n.copyLength := by simp only [Node.copyLength, e1]
    have hil : n'.insertLength = n.insertLength := by simp only [Node.insertLength, e3]
    have hra : ∀ abs r, ringAfter window abs r n' = ringAfter window abs r n :=
      fun abs r => ringAfter_congr window abs r n n' e2 e3
    have := RingAt.step (window := window) (base := base) (start := start) n' he hn'
      (by simpa only [Node.isStub, hil, e1] using hs) (by rw [hcl]; exact hc) (by rw [hcl, hil]; exact hle)
      (by rw [hcl, hil]; exact ih)
    rw [hra, hcl] at this
    exact this

/-! ### the tail skip -/

theorem skipTail_spec {K : Type} (nodes : Array (Node K)) : ∀ (i idx : Nat), skipTail nodes i = some idx →
    idx ≤ i ∧ ∃ n, nodes[idx]? = some n ∧ ¬ n.isStub := by
  intro i
  induction i with
  | zero =>
    intro idx h
    rw [skipTail] at h
    cases hn : nodes[0]? with
    | none => simp only [hn] at h; cases h
    | some n =>
      simp only [hn] at h
      by_cases hs : n.insertLength = 0 ∧ n.length = 1
      · rw [if_pos hs] at h; cases h
      · rw [if_neg hs] at h
        injection h with h
        subst h
        exact ⟨Nat.le_refl _, n, hn, hs⟩
  | succ i ih =>
    intro idx h
    rw [skipTail] at h
    cases hn : nodes[i + 1]? with
    | none => simp only [hn] at h; cases h
    | some n =>
      simp only [hn] at h
      by_cases hs : n.insertLength = 0 ∧ n.length = 1
      · rw [if_pos hs] at h
        obtain ⟨a, b⟩ := ih idx h
        exact ⟨by omega, b⟩
      · rw [if_neg hs] at h
        injection h with h
        subst h
        exact ⟨Nat.le_refl _, n, hn, hs⟩

/-! ### `setU` touches nothing but one `u` -/

theorem setU_spec {K : Type} {nodes nodes' : Array (Node K)} {i : Nat} {u : U K} (h : setU nodes i u = some nodes') :
    ∃ n, nodes[i]? = some n ∧ nodes'[i]? = some { n with u := u } ∧ ∀ j, j ≠ i → nodes'[j]? = nodes[j]? := by
  unfold setU at h
  cases hn : nodes[i]? with
  | none => simp only [hn] at h; cases h
  | some n =>
    simp only [hn, Option.some.injEq] at h
    subst h
    have hi : i < nodes.size := by
      rcases Nat.lt_or_ge i nodes.size with hlt | hge
      · exact hlt
      · rw [Array.getElem?_eq_none hge] at hn; cases hn
    refine ⟨n, rfl, ?_, ?_⟩
    · simp [Array.set!, Array.getElem?_setIfInBounds, hi]
    · intro j hj
      simp [Array.set!, Array.getElem?_setIfInBounds, Ne.symm hj]

/-! ### the forward path does not look back -/

theorem PathOK.frame {K : Type} {wo : WordOracle} {window md : Nat} {T : Bytes} {base numBytes : Nat}
    {nodes nodes' : Array (Node K)} {pos offset : Nat} {ring : List Int}
    (h : PathOK wo window md T base numBytes nodes pos offset ring)
    (hsame : ∀ i, pos ≤ i → nodes'[i]? = nodes[i]?) :
    PathOK wo window md T base numBytes nodes' pos offset ring := by
  induction h with
  | done hp => exact PathOK.done hp
  | step nx h1 h2 h3 h4 _ ih =>
    exact PathOK.step nx h1 (by rw [hsame _ (by omega)]; exact h2) h3 h4 (ih (fun i hi => hsame i (by omega)))

/-! ### the backward walk -/

/-- what the backward walk maintains at `index`: the data fields are those of the input array, the ring at
`index` along the backward chain is `r`, `nodes'[index].u = next off`, and the forward path from `index`
with that offset and ring is sound -/
structure BackInv {K : Type} (wo : WordOracle) (window md : Nat) (T : Bytes) (base numBytes : Nat)
    (nodes nodes' : Array (Node K)) (start : List Int) (index : Nat) : Prop where
  data : ∀ (i : Nat) (n : Node K), nodes[i]? = some n → ∃ n' : Node K, nodes'[i]? = some n' ∧ n'.length = n.length ∧ n'.distance = n.distance ∧ n'.dcil = n.dcil
  path : ∃ (r : List Int) (n : Node K) (off : Nat), RingAt window base nodes start index r ∧ nodes'[index]? = some n ∧ n.u = .next off ∧
    PathOK wo window md T base numBytes nodes' index off r

theorem backWalk_inv {K : Type} (wo : WordOracle) (window md : Nat) (T : Bytes) (base numBytes : Nat)
    (nodes : Array (Node K)) (start : List Int)
    (hall : AllBack wo window md T base numBytes nodes start) :
    ∀ (fuel : Nat) (nodes' nodes'' : Array (Node K)) (index cnt cnt' : Nat),
      backWalk fuel nodes' index cnt = some (nodes'', cnt') → index ≤ numBytes →
      BackInv wo window md T base numBytes nodes nodes' start index →
      BackInv wo window md T base numBytes nodes nodes'' start 0 := by
  intro fuel
  induction fuel with
  | zero => intro nodes' nodes'' index cnt cnt' h; rw [backWalk] at h; cases h
  | succ fuel ih =>
    intro nodes' nodes'' index cnt cnt' h hle hinv
    rw [backWalk] at h
    by_cases h0 : index = 0
    · rw [if_pos h0] at h
      simp only [Option.some.injEq, Prod.mk.injEq] at h
      obtain ⟨rfl, _⟩ := h
      subst h0
      exact hinv
    · rw [if_neg h0] at h
      obtain ⟨r, n', off, hr, hn', hu, hp⟩ := hinv.path
      simp only [hn'] at h
      -- the node at `index` in the input array
      obtain ⟨n, hn, hstub⟩ : ∃ n, nodes[index]? = some n ∧ ¬ n.isStub := by
        rcases hr.reached with h | h
        · exact absurd h h0
        · exact h
      obtain ⟨n2, hn2, e1, e2, e3⟩ := hinv.data index n hn
      rw [hn'] at hn2
      injection hn2 with hn2
      subst hn2
      have hcl : n'.copyLength = n.copyLength := by simp only [Node.copyLength, e1]
      have hil : n'.insertLength = n.insertLength := by simp only [Node.insertLength, e3]
      rcases hall index n h0 hle hn with hs | ⟨hb1, r0, hr0, hok⟩
      · exact absurd hs hstub
      · have hcpos := hok.copy_pos
        have hclt := copyLength_lt n
        have hilt : n.insertLength < 2 ^ 27 := by
          unfold Node.insertLength
          rw [show (0x07ffffff : Nat) = 2 ^ 27 - 1 by decide, Nat.and_two_pow_sub_one_eq_mod]
          exact Nat.mod_lt _ (by decide)
        have hcmd : n'.commandLength = n.insertLength + n.copyLength := by
          have hU : U32 = 4294967296 := rfl
          unfold Node.commandLength
          rw [hcl, hil, Nat.mod_eq_of_lt (by omega)]
          omega
        rw [hcmd, if_neg (by omega)] at h
        cases hset : setU nodes' (index - (n.insertLength + n.copyLength)) (.next (n.insertLength + n.copyLength)) with
        | none => simp only [hset] at h; cases h
        | some nodes2 =>
          simp only [hset] at h
          obtain ⟨m, hm, hm2, hother⟩ := setU_spec hset
          -- the ring at `index` is the decoder's rule applied to the ring at the start
          have hrstep := RingAt.step (window := window) (base := base) (start := start) n h0 hn hstub hcpos hb1 hr0
          have hreq : r = ringAfter window (base + index - n.copyLength) r0 n := hr.det hrstep
          refine ih nodes2 nodes'' _ _ _ h (by omega) ⟨?_, r0, _, _, hr0, hm2, rfl, ?_⟩
          · intro i x hx
            obtain ⟨x', hx', f1, f2, f3⟩ := hinv.data i x hx
            by_cases hi : i = index - (n.insertLength + n.copyLength)
            · subst hi
              rw [hm] at hx'
              injection hx' with hx'
              subst hx'
              exact ⟨_, hm2, f1, f2, f3⟩
            · exact ⟨x', by rw [hother i hi]; exact hx', f1, f2, f3⟩
          · -- the forward path from the start position: one step to `index`, then the path already built
            have hidx : index - (n.insertLength + n.copyLength) + (n.insertLength + n.copyLength) = index := by omega
            have hn2' : nodes2[index]? = some n' := by rw [hother index (by omega)]; exact hn'
            have hokn' : NodeOK wo window md T (base + (index - (n.insertLength + n.copyLength)) + n'.insertLength) r0 n' := by
              rw [hil, show base + (index - (n.insertLength + n.copyLength)) + n.insertLength = base + index - n.copyLength by omega]
              exact ⟨by rw [hcl]; exact hok.fit,
                by simpa only [Node.shortCode, Node.distance, e2, e3] using hok.code,
                by simpa only [Node.shortCode, Node.lengthCode, Node.copyLength, e1, e2, e3] using hok.kind⟩
            refine PathOK.step n' (by omega) (by rw [hidx]; exact hn2') hokn' (by rw [hil, hcl]; omega) ?_
            have hra : ringAfter window (base + (index - (n.insertLength + n.copyLength)) + n'.insertLength) r0 n' = r := by
              rw [hreq, hil, show base + (index - (n.insertLength + n.copyLength)) + n.insertLength = base + index - n.copyLength by omega]
              exact ringAfter_congr window _ r0 n n' e2 e3
            rw [hra, hil, hcl, show index - (n.insertLength + n.copyLength) + n.insertLength + n.copyLength = index by omega]
            have hoff : n'.nextOf = off := by simp only [Node.nextOf, hu]
            rw [hoff]
            exact hp.frame (fun i hi => hother i (by omega))

/-- **ComputeShortestPathFromNodes turns a sound node array into a sound path**: if every written node of
the array is `BackOK` (and node 0 is the start node), the array with the `next` chain written into it
satisfies `NodesOK` — the hypothesis of `zopfli_commands_lockstep` -/
theorem shortestPath_nodesOK {K : Type} (wo : WordOracle) (window md : Nat) (T : Bytes) (base numBytes : Nat)
    (nodes nodes' : Array (Node K)) (start : List Int) (cnt : Nat)
    (hall : AllBack wo window md T base numBytes nodes start)
    (h : computeShortestPathFromNodes numBytes nodes = some (nodes', cnt)) :
    NodesOK wo window md T base numBytes nodes' start := by
  unfold computeShortestPathFromNodes at h
  cases hsk : skipTail nodes numBytes with
  | none => simp only [hsk] at h; cases h
  | some index =>
    simp only [hsk] at h
    obtain ⟨hile, n, hn, hstub⟩ := skipTail_spec nodes numBytes index hsk
    cases hset : setU nodes index (.next 0xffffffff) with
    | none => simp only [hset] at h; cases h
    | some nodes1 =>
      simp only [hset] at h
      obtain ⟨m, hm, hm2, hother⟩ := setU_spec hset
      -- the ring at `index`
      obtain ⟨r, hr⟩ : ∃ r, RingAt window base nodes start index r := by
        by_cases h0 : index = 0
        · subst h0; exact ⟨_, RingAt.zero⟩
        · rcases hall index n h0 hile hn with hs | ⟨hb1, r0, hr0, hok⟩
          · exact absurd hs hstub
          · exact ⟨_, RingAt.step n h0 hn hstub hok.copy_pos hb1 hr0⟩
      have hinv0 : BackInv wo window md T base numBytes nodes nodes1 start index := by
        refine ⟨?_, r, _, _, hr, hm2, rfl, PathOK.done hile⟩
        intro i x hx
        by_cases hi : i = index
        · subst hi
          rw [hm] at hx
          injection hx with hx
          subst hx
          exact ⟨_, hm2, rfl, rfl, rfl⟩
        · exact ⟨x, by rw [hother i hi]; exact hx, rfl, rfl, rfl⟩
      have hfin := backWalk_inv wo window md T base numBytes nodes start hall _ _ _ _ _ _ h hile hinv0
      obtain ⟨r0, n0, off, hr0, hn0, hu0, hp0⟩ := hfin.path
      have : r0 = start := hr0.det RingAt.zero
      subst this
      exact ⟨n0, hn0, by simpa only [Node.nextOf, hu0] using hp0⟩

end BV.Zopfli
