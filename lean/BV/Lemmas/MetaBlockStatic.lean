/-
C01 / meta-block writers, part 9: the two static prefix codes of `BrotliStoreMetaBlockFast`
(`n_commands ≤ 128`): `StoreStaticCommandHuffmanTree` / `StoreStaticDistanceHuffmanTree` write descriptions
that the RFC reader decodes to `kStaticCommandCodeDepth` / `kStaticDistanceCodeDepth` (zero-extended to the
distance alphabet), and the tables `kStatic…CodeBits` are the bit-reversed canonical codes of these depths.
-/
import BV.Lemmas.MetaBlockCode
import BV.Lemmas.MetaBlockMono

namespace BV.MetaBlock
open BV.Gen BV.Bits BV.Huffman BV.PrefixArith BV.Recoder
open BV.Header (writeBits_ok)
open BV.Lemmas.HuffmanRead (readSym_spec)

/-- a depth / bits table pair that is a complete canonical code agrees, on every symbol, with the RFC
decoder holding these depths followed by `k` zero lengths -/
theorem symIO_table (D B : List Nat) (k s : Nat) (hall : ∀ x ∈ D, 1 ≤ x ∧ x ≤ 15) (hk : kraftSum 15 D = 2 ^ 15)
    (hlen2 : 2 ≤ D.length) (hBl : B.length = D.length)
    (hB : ∀ i, i < D.length → B.getD i 0 = reverseBits (D.getD i 0) ((canonicalCodes D).getD i 0))
    (hs : s < D.length) :
    SymIO D B (Code.lens (D ++ List.replicate k 0)) s := by
  have hd : D.getD s 0 ∈ D := getD_mem D s hs
  obtain ⟨hd1, hd15⟩ := hall _ hd
  have hBs : B.getD s 0 = reverseBits (D.getD s 0) ((canonicalCodes D).getD s 0) := hB s hs
  have hlt : reverseBits (D.getD s 0) ((canonicalCodes D).getD s 0) < 2 ^ D.getD s 0 := by
    rw [BV.Lemmas.HuffmanBits.reverseBits_eq _ _ (by omega) (by omega)]
    exact BV.Lemmas.HuffmanBits.revSpec_lt _ _
  refine ⟨bitsOf (D.getD s 0) (B.getD s 0), ?_, ?_⟩
  · intro w
    unfold storeSym
    rw [getAt_getD D s hs, Out.bind_ok, getAt_getD B s (by omega), Out.bind_ok, hBs,
      writeBits_ok _ _ _ hlt (by omega)]
  · intro rest
    have hgs : (D ++ List.replicate k 0).getD s 0 = D.getD s 0 := by
      simp [List.getD_eq_getElem?_getD, List.getElem?_append_left hs]
    have hallL : ∀ x ∈ D ++ List.replicate k 0, x ≤ 15 := by
      intro x hx
      rcases List.mem_append.mp hx with h | h
      · exact (hall x h).2
      · rw [List.eq_of_mem_replicate h]; omega
    have h2 : 2 ≤ ((List.range (D ++ List.replicate k 0).length).filter
        fun t => (D ++ List.replicate k 0).getD t 0 != 0).length := by
      rw [BV.Lemmas.HuffmanStoreTree.filter_range_getD (D ++ List.replicate k 0) (fun x => x != 0)]
      have e : (fun x : Nat => x != 0) = (fun x => decide (x ≠ 0)) := by
        funext x; by_cases hx : x = 0 <;> simp [hx]
      rw [e, filter_append_zeros]
      have : D.filter (· ≠ 0) = D := by
        rw [List.filter_eq_self]; intro x hx; have := (hall x hx).1; simp; omega
      rw [this]; exact hlen2
    have := readSym_spec (D ++ List.replicate k 0) s rest (by rw [List.length_append]; omega) hallL
      (by rw [kraft_append_zeros, hk]; exact Nat.le_refl _) (by rw [hgs]; omega) h2
    rw [hgs, canonical_append_zeros _ _ _ hs, ← hBs] at this
    exact this

/-! ### the static command code -/

def staticCmdBits : List Bool := bitsOf 56 0x0092624416307003 ++ bitsOf 3 0
def staticDistBits : List Bool := bitsOf 28 0x0369dc03

theorem storeStaticCmd_ok (w : Writer) : storeStaticCommandHuffmanTree w = .ok (w ++ staticCmdBits) := by
  unfold storeStaticCommandHuffmanTree staticCmdBits
  rw [writeBits_ok 56 _ w (by decide) (by decide), Out.bind_ok, writeBits_ok 3 0 _ (by decide) (by decide),
    List.append_assoc]

theorem storeStaticDist_ok (w : Writer) : storeStaticDistanceHuffmanTree w = .ok (w ++ staticDistBits) := by
  unfold storeStaticDistanceHuffmanTree staticDistBits
  rw [writeBits_ok 28 _ w (by decide) (by decide)]

theorem static_cmd_704 : readPrefixCode 704 staticCmdBits = some (kStaticCommandCodeDepth, []) := by
  decide +kernel

theorem static_dist_64 : readPrefixCode 64 staticDistBits = some (kStaticDistanceCodeDepth, []) := by
  decide +kernel

theorem static_dist_140 :
    readPrefixCode 140 staticDistBits = some (kStaticDistanceCodeDepth ++ List.replicate 76 0, []) := by
  decide +kernel

theorem static_cmd_read (rest : List Bool) :
    readCode 704 (staticCmdBits ++ rest) = some (Code.lens kStaticCommandCodeDepth, rest) := by
  have h := readPrefixCode_append 704 staticCmdBits rest _ _ static_cmd_704 (by
    intro r0 h
    have e : (takeBits 2 staticCmdBits).map (·.1) = some 3 := by decide
    rw [h] at e; simp at e)
  exact readCode_of_prefix 704 _ _ _ h ⟨0, by decide⟩

theorem static_dist_read (large : Bool) (rest : List Bool) :
    readCode (distAlphabetSize large 0 0) (staticDistBits ++ rest)
      = some (Code.lens (kStaticDistanceCodeDepth ++ List.replicate (if large then 76 else 0) 0), rest) := by
  have hc : ∀ r0, takeBits 2 staticDistBits ≠ some (1, r0) := by
    intro r0 h
    have e : (takeBits 2 staticDistBits).map (·.1) = some 3 := by decide
    rw [h] at e; simp at e
  cases large
  · have h := readPrefixCode_append 64 staticDistBits rest _ _ static_dist_64 hc
    have := readCode_of_prefix 64 _ _ _ h ⟨0, by decide⟩
    simpa [distAlphabetSize] using this
  · have h := readPrefixCode_append 140 staticDistBits rest _ _ static_dist_140 hc
    have := readCode_of_prefix 140 _ _ _ h ⟨0, by decide⟩
    simpa [distAlphabetSize] using this

theorem countLen_replicate (n v l : Nat) : countLen (List.replicate n v) l = if v = l then n else 0 := by
  unfold countLen
  by_cases h : v = l
  · subst h
    rw [if_pos rfl]
    have : (List.replicate n v).filter (· == v) = List.replicate n v := by
      rw [List.filter_eq_self]; intro x hx; rw [List.eq_of_mem_replicate hx]; simp
    rw [this, List.length_replicate]
  · rw [if_neg h, List.length_eq_zero_iff, List.filter_eq_nil_iff]
    intro x hx
    rw [List.eq_of_mem_replicate hx]
    simpa using h

theorem static_cmd_depth_shape : kStaticCommandCodeDepth = List.replicate 448 9 ++ List.replicate 256 11 := by
  decide +kernel

theorem static_cmd_bits_shape : kStaticCommandCodeBits =
    (List.range 448).map (fun i => reverseBits 9 i) ++ (List.range 256).map (fun j => reverseBits 11 (1792 + j)) := by
  decide +kernel

theorem static_cmd_first : firstCode kStaticCommandCodeDepth 9 = 0 ∧ firstCode kStaticCommandCodeDepth 11 = 1792 := by
  decide +kernel

/-- `kStaticCommandCodeBits` is the bit-reversed canonical code of `kStaticCommandCodeDepth` -/
theorem static_cmd_canon (i : Nat) (hi : i < 704) :
    kStaticCommandCodeBits.getD i 0 = reverseBits (kStaticCommandCodeDepth.getD i 0)
      ((canonicalCodes kStaticCommandCodeDepth).getD i 0) := by
  have hlen : kStaticCommandCodeDepth.length = 704 := by decide +kernel
  rw [BV.Lemmas.HuffmanCanon.canonicalCodes_getD _ i (by omega)]
  obtain ⟨f9, f11⟩ := static_cmd_first
  rcases Nat.lt_or_ge i 448 with h | h
  · have hd : kStaticCommandCodeDepth.getD i 0 = 9 := by
      rw [static_cmd_depth_shape, List.getD_eq_getElem?_getD,
        List.getElem?_append_left (by rw [List.length_replicate]; exact h), List.getElem?_replicate, if_pos h]; rfl
    have hb : kStaticCommandCodeBits.getD i 0 = reverseBits 9 i := by
      rw [static_cmd_bits_shape, List.getD_eq_getElem?_getD,
        List.getElem?_append_left (by rw [List.length_map, List.length_range]; exact h),
        List.getElem?_map, List.getElem?_range h]
      rfl
    have ht : kStaticCommandCodeDepth.take i = List.replicate i 9 := by
      rw [static_cmd_depth_shape, List.take_append_of_le_length (by rw [List.length_replicate]; omega), List.take_replicate,
        Nat.min_eq_left (by omega)]
    rw [hd, hb, ht, f9, countLen_replicate]
    simp
  · have hd : kStaticCommandCodeDepth.getD i 0 = 11 := by
      rw [static_cmd_depth_shape, List.getD_eq_getElem?_getD,
        List.getElem?_append_right (by rw [List.length_replicate]; exact h), List.length_replicate,
        List.getElem?_replicate, if_pos (by omega)]; rfl
    have hb : kStaticCommandCodeBits.getD i 0 = reverseBits 11 (1792 + (i - 448)) := by
      rw [static_cmd_bits_shape, List.getD_eq_getElem?_getD,
        List.getElem?_append_right (by rw [List.length_map, List.length_range]; exact h),
        List.length_map, List.length_range, List.getElem?_map, List.getElem?_range (by omega)]
      rfl
    have ht : kStaticCommandCodeDepth.take i = List.replicate 448 9 ++ List.replicate (i - 448) 11 := by
      rw [static_cmd_depth_shape, List.take_append, List.length_replicate, List.take_replicate, List.take_replicate,
        Nat.min_eq_right h, Nat.min_eq_left (by omega)]
    rw [hd, hb, ht, f11, BV.Lemmas.HuffmanCanon.countLen_append, countLen_replicate, countLen_replicate]
    simp

theorem static_cmd_table :
    (∀ x ∈ kStaticCommandCodeDepth, 1 ≤ x ∧ x ≤ 15) ∧ kraftSum 15 kStaticCommandCodeDepth = 2 ^ 15 ∧
    kStaticCommandCodeDepth.length = 704 ∧ kStaticCommandCodeBits.length = 704 := by
  refine ⟨?_, by decide +kernel, by decide +kernel, by decide +kernel⟩
  intro x hx
  rw [static_cmd_depth_shape] at hx
  rcases List.mem_append.mp hx with h | h <;> (rw [List.eq_of_mem_replicate h]; omega)

theorem static_dist_table :
    (∀ x ∈ kStaticDistanceCodeDepth, 1 ≤ x ∧ x ≤ 15) ∧ kraftSum 15 kStaticDistanceCodeDepth = 2 ^ 15 ∧
    kStaticDistanceCodeDepth.length = 64 ∧ kStaticDistanceCodeBits.length = 64 ∧
    kStaticDistanceCodeBits = List.zipWith reverseBits kStaticDistanceCodeDepth (canonicalCodes kStaticDistanceCodeDepth) := by
  refine ⟨by decide +kernel, by decide +kernel, by decide, by decide, by decide +kernel⟩

theorem static_cmd_symIO (s : Nat) (hs : s < 704) :
    SymIO kStaticCommandCodeDepth kStaticCommandCodeBits (Code.lens kStaticCommandCodeDepth) s := by
  obtain ⟨h1, h2, h3, h4⟩ := static_cmd_table
  have := symIO_table kStaticCommandCodeDepth kStaticCommandCodeBits 0 s h1 h2 (by omega) (by omega)
    (fun i hi => static_cmd_canon i (by omega)) (by omega)
  simpa using this

theorem static_dist_symIO (k s : Nat) (hs : s < 64) :
    SymIO kStaticDistanceCodeDepth kStaticDistanceCodeBits
      (Code.lens (kStaticDistanceCodeDepth ++ List.replicate k 0)) s := by
  obtain ⟨h1, h2, h3, h4, h5⟩ := static_dist_table
  refine symIO_table kStaticDistanceCodeDepth kStaticDistanceCodeBits k s h1 h2 (by omega) (by omega) ?_ (by omega)
  intro i hi
  have hcl : (canonicalCodes kStaticDistanceCodeDepth).length = kStaticDistanceCodeDepth.length := by
    simp [canonicalCodes]
  rw [h5]
  simp only [List.getD_eq_getElem?_getD, List.getElem?_zipWith]
  rw [List.getElem?_eq_getElem hi, List.getElem?_eq_getElem (by omega)]
  rfl

end BV.MetaBlock
