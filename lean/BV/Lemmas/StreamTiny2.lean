import BV.Lemmas.StreamTiny
/-
`TinyOK` through the steps of the three loops, `take_output`, and whole calls.
-/
namespace BV.Stream
open BV.Bits

theorem tinyOK_cfc {s : St} (hT : TinyOK s) : TinyOK (checkFlushComplete s) := by
  unfold checkFlushComplete
  split
  · rename_i hc
    refine ⟨fun off ho => by simp at ho, fun _ => hc.2, fun hb => ?_⟩
    simp at hb
  · exact hT

theorem tinyOK_hint {s : St} (hT : TinyOK s) (n : Nat) : TinyOK (updateSizeHint s n) := by
  obtain ⟨_, _, _, _, _, u6, _, _, u9, u10, _, _, u13, u14, _⟩ := updateSizeHint_fields s n
  have hno : (updateSizeHint s n).nextOut = s.nextOut := by
    by_cases h : s.params.sizeHint = 0 <;> simp [updateSizeHint, h]
  exact tinyOK_of_eq hT hno u13 u14 u9 u6 u10

theorem tinyOK_slowStep {o : Oracle} {op : Nat} {s s' : St} {io io' : Io} {c : Ctl} (hI : Inv s) (hT : TinyOK s)
    (hl : s.lastBytesBits ≤ 14) (hnmd : s.streamState.isMd = false)
    (h : slowStep o op s io = .ok (s', io', c)) : TinyOK s' := by
  unfold slowStep at h
  simp only at h
  split at h
  · split at h
    · simp at h
    · split at h
      · rename_i s1 hcp
        simp only [Out.ok.injEq, Prod.mk.injEq] at h
        obtain ⟨rfl, _, _⟩ := h
        obtain ⟨_, _, _, _, c5, c6, _, _, c9, _, c11, c12, _⟩ := copy_fields hI.init hcp
        refine ⟨?_, ?_, ?_⟩
        · intro off ho; rw [c9, c11]; exact hT.fits off (c12 ▸ ho)
        · intro hn; rw [c9]; exact hT.none (c12 ▸ hn)
        · intro hb; rw [c5] at hb; rw [hb] at hnmd; simp [SState.isMd] at hnmd
      · simp at h
      · simp at h
  · split at h
    · simp at h
    · simp at h
    · rename_i s1 io1 hp
      simp only [Out.ok.injEq, Prod.mk.injEq] at h
      obtain ⟨rfl, _, _⟩ := h
      exact tinyOK_push hT hl hp
    · rename_i s1 io1 hp
      obtain ⟨e1, e2, _, _⟩ := push_false hp
      have e1' := e1.symm; have e2' := e2.symm
      subst e1' e2'
      split at h
      · rename_i hcond
        split at h
        · simp at h
        · simp at h
        · rename_i s2 res req henc
          have hI2 := inv_updateSizeHint hI io.availIn
          have hst : (updateSizeHint s io.availIn).streamState = .processing := by
            rw [(updateSizeHint_fields s io.availIn).2.2.2.2.2.2.2.2.1]; exact hcond.2.1
          have hres : res = true := encodeData_succeeds hI2 (by rw [hst]; simp) henc
          subst hres
          simp only [Bool.not_true, Bool.false_eq_true, ↓reduceIte, Out.ok.injEq, Prod.mk.injEq] at h
          obtain ⟨rfl, _, _⟩ := h
          have hT2 := tinyOK_encode (tinyOK_hint hT io.availIn) (by rw [hst]; simp) henc
          have hst2 : s2.streamState = .processing := by
            have := (encodeData_frame henc).1
            rw [St.frame_eq_iff] at this
            rw [this.2.2.2.1]; exact hst
          exact tinyOK_mark hT2 _ _ hst2
      · simp only [Out.ok.injEq, Prod.mk.injEq] at h
        obtain ⟨rfl, _, _⟩ := h
        exact hT

theorem tinyOK_fastStep {o : Oracle} {op : Nat} {s s' : St} {io io' : Io} {b : Bool} (hT : TinyOK s)
    (hl : s.lastBytesBits ≤ 14)
    (h : fastStep o op s io = .ok (s', io', b)) : TinyOK s' := by
  unfold fastStep at h
  split at h
  · simp at h
  · simp at h
  · rename_i s1 io1 hp
    simp only [Out.ok.injEq, Prod.mk.injEq] at h
    obtain ⟨rfl, _, _⟩ := h
    exact tinyOK_push hT hl hp
  · rename_i s1 io1 hp
    obtain ⟨e1, e2, _, _⟩ := push_false hp
    have e1' := e1.symm; have e2' := e2.symm
    subst e1' e2'
    split at h
    · rename_i hcond
      simp only at h
      split at h
      · simp only [Out.ok.injEq, Prod.mk.injEq] at h
        obtain ⟨rfl, _, _⟩ := h
        refine ⟨fun off ho => hT.fits off ho, fun hn => hT.none hn, fun hb => ?_⟩
        simp at hb
      · split at h
        · simp at h
        · split at h
          · simp at h
          · split at h
            · simp at h
            · simp only [Out.ok.injEq, Prod.mk.injEq] at h
              obtain ⟨rfl, _, _⟩ := h
              generalize hbs : min (2 ^ s.params.lgwin.toNat) io.availIn = bs at *
              generalize hil : decide (io.availIn = bs ∧ op = 2) = il at *
              generalize hfl : decide (io.availIn = bs ∧ op = 1) = ffl at *
              generalize hipl : decide ((2 * bs + 503) % two64 ≤ io.availOut) = ipl at *
              have hs1 : (fastStorage s ipl ((2 * bs + 503) % two64)).pending = s.pending
                  ∧ (fastStorage s ipl ((2 * bs + 503) % two64)).nextOut = s.nextOut
                  ∧ (fastStorage s ipl ((2 * bs + 503) % two64)).streamState = s.streamState := by
                unfold fastStorage
                split
                · exact ⟨rfl, rfl, rfl⟩
                · obtain ⟨g1, _, _, _, g5, g6, _⟩ := growStorage_frame s ((2 * bs + 503) % two64)
                  rw [St.frame_eq_iff] at g1
                  exact ⟨g5, g6, g1.2.2.2.1⟩
              generalize fastStorage s ipl ((2 * bs + 503) % two64) = s1 at *
              obtain ⟨g5, g6, gst⟩ := hs1
              have hp0 : s.pending.length = 0 := hcond.1
              have e8 := (fastEncode_fields s1 io (o s.nEnc { site := 2, lo := bs, hi := s.inputPos, isLast := il, forceFlush := ffl })
                  { site := 2, lo := bs, hi := s.inputPos, isLast := il, forceFlush := ffl } bs ipl il ffl).2.2.2.2.2.2.2.1
              have hnb : (fastEncode s1 io (o s.nEnc { site := 2, lo := bs, hi := s.inputPos, isLast := il, forceFlush := ffl })
                  { site := 2, lo := bs, hi := s.inputPos, isLast := il, forceFlush := ffl } bs ipl il ffl).1.streamState ≠ .metadataBody := by
                rw [e8, gst, hcond.2.1]
                cases il <;> cases ffl <;> simp
              cases ipl
              · -- staged in storage_
                refine tinyOK_dyn (off := 0) ?_ (fun hb => absurd hb hnb)
                unfold fastEncode; simp
              · -- written in place: cursor untouched, nothing pending
                refine ⟨?_, ?_, fun hb => absurd hb hnb⟩
                · intro off ho
                  have hno : (fastEncode s1 io (o s.nEnc { site := 2, lo := bs, hi := s.inputPos, isLast := il, forceFlush := ffl })
                      { site := 2, lo := bs, hi := s.inputPos, isLast := il, forceFlush := ffl } bs true il ffl).1.nextOut = s1.nextOut := by
                    unfold fastEncode; simp
                  have hpe : (fastEncode s1 io (o s.nEnc { site := 2, lo := bs, hi := s.inputPos, isLast := il, forceFlush := ffl })
                      { site := 2, lo := bs, hi := s.inputPos, isLast := il, forceFlush := ffl } bs true il ffl).1.pending = s1.pending := by
                    unfold fastEncode; simp
                  rw [hno, g6] at ho
                  rw [hpe, g5, hp0]
                  have := (hT.fits off ho).1
                  exact ⟨by omega, fun hne => absurd rfl hne⟩
                · intro _
                  have hpe : (fastEncode s1 io (o s.nEnc { site := 2, lo := bs, hi := s.inputPos, isLast := il, forceFlush := ffl })
                      { site := 2, lo := bs, hi := s.inputPos, isLast := il, forceFlush := ffl } bs true il ffl).1.pending = s1.pending := by
                    unfold fastEncode; simp
                  rw [hpe, g5]; exact hp0
    · simp only [Out.ok.injEq, Prod.mk.injEq] at h
      obtain ⟨rfl, _, _⟩ := h
      exact hT

theorem tinyOK_mdStep {o : Oracle} {n : Nat} {s s' : St} {io io' : Io} {c : Ctl} (hP : MdInv n s io) (hT : TinyOK s)
    (hl : s.lastBytesBits ≤ 14)
    (h : processMetadataStep o s io = .ok (s', io', c)) : TinyOK s' := by
  have hI := hP.inv
  have hnf : s.streamState ≠ .finished := by rcases hP.st with h1 | h1 <;> rw [h1] <;> simp
  unfold processMetadataStep at h
  split at h
  · simp at h
  · simp at h
  · rename_i s1 io1 hp
    simp only [Out.ok.injEq, Prod.mk.injEq] at h
    obtain ⟨rfl, _, _⟩ := h
    exact tinyOK_push hT hl hp
  · rename_i s1 io1 hp
    obtain ⟨e1, e2, _, _⟩ := push_false hp
    have e1' := e1.symm; have e2' := e2.symm
    subst e1' e2'
    split at h
    · simp only [Out.ok.injEq, Prod.mk.injEq] at h
      obtain ⟨rfl, _, _⟩ := h
      exact hT
    · rename_i hpend
      have hp0 : s.pending.length = 0 := by simpa using hpend
      split at h
      · rename_i hne
        split at h
        · simp at h
        · simp at h
        · rename_i s2 res req henc
          have hres : res = true := encodeData_succeeds hI hnf henc
          subst hres
          simp only [Bool.not_true, Bool.false_eq_true, ↓reduceIte, Out.ok.injEq, Prod.mk.injEq] at h
          obtain ⟨rfl, _, _⟩ := h
          refine tinyOK_encode hT ?_ henc
          intro hb
          exact hne (hT.body hb).2
      · rename_i heq
        have hlfe : s.inputPos = s.lastFlushPos := by
          by_cases hh : s.inputPos = s.lastFlushPos
          · exact hh
          · exact absurd hh heq
        split at h
        · rename_i hhead
          simp only at h
          split at h
          · simp at h
          · simp only [Out.ok.injEq, Prod.mk.injEq] at h
            obtain ⟨rfl, _, _⟩ := h
            have h1 := metadataHeaderBits_length_le s.remainingMetadata hP.rmLe (bitsOf s.lastBytesBits s.lastBytes)
            rw [bitsOf_length] at h1
            have h2 := toBytes_length (metadataHeaderBits s.remainingMetadata (bitsOf s.lastBytesBits s.lastBytes))
            refine ⟨?_, ?_, ?_⟩
            · intro off ho
              simp only [NextOut.tiny.injEq] at ho
              subst ho
              simp only [h2]
              exact ⟨by omega, fun _ => trivial⟩
            · intro hn; simp at hn
            · intro _; exact ⟨rfl, hlfe⟩
        · rename_i hnhead
          have hbody : s.streamState = .metadataBody := by
            rcases hP.st with h1 | h1
            · exact absurd h1 hnhead
            · exact h1
          split at h
          · simp only [Out.ok.injEq, Prod.mk.injEq] at h
            obtain ⟨rfl, _, _⟩ := h
            refine ⟨fun off ho => hT.fits off ho, fun hn => hT.none hn, fun hb => ?_⟩
            simp at hb
          · split at h
            · simp only at h
              split at h
              · simp at h
              · simp only [Out.ok.injEq, Prod.mk.injEq] at h
                obtain ⟨rfl, _, _⟩ := h
                exact ⟨fun off ho => hT.fits off ho, fun hn => hT.none hn, fun hb => hT.body hb⟩
            · simp only at h
              split at h
              · simp at h
              · simp only [Out.ok.injEq, Prod.mk.injEq] at h
                obtain ⟨rfl, _, _⟩ := h
                refine ⟨?_, ?_, fun hb => hT.body hb⟩
                · intro off ho
                  simp only [NextOut.tiny.injEq] at ho
                  subst ho
                  simp only [List.length_take]
                  refine ⟨by omega, fun _ => (hT.body hbody).1⟩
                · intro hn; simp at hn

/-- `take_output` keeps `TinyOK` -/
theorem tinyOK_take {s s' : St} {size : Nat} {out : Bytes} (hT : TinyOK s)
    (h : takeOutput s size = .ok (s', out)) : TinyOK s' := by
  unfold takeOutput at h
  split at h
  · simp at h
  · split at h
    · simp only [Out.ok.injEq, Prod.mk.injEq] at h
      obtain ⟨rfl, _⟩ := h
      apply tinyOK_cfc
      have hc : takeCount s size ≤ s.pending.length := by
        unfold takeCount; split <;> omega
      generalize takeCount s size = c at hc
      refine ⟨?_, ?_, fun hb => hT.body hb⟩
      · intro off ho
        simp only [takeAdvance] at ho ⊢
        cases hno : s.nextOut with
        | none => rw [hno] at ho; simp [nextOutIncrement] at ho
        | dyn o => rw [hno] at ho; simp [nextOutIncrement] at ho
        | tiny o =>
          rw [hno] at ho
          simp only [nextOutIncrement, NextOut.tiny.injEq] at ho
          obtain ⟨f1, f2⟩ := hT.fits o hno
          have hsmall : o + c < two32 := by unfold two32; omega
          rw [Nat.mod_eq_of_lt hsmall] at ho
          subst ho
          simp only [List.length_drop]
          refine ⟨by omega, ?_⟩
          intro hne
          exact f2 (by omega)
      · intro hn
        simp only [takeAdvance] at hn ⊢
        cases hno : s.nextOut with
        | none => have := hT.none hno; simp only [List.length_drop]; omega
        | dyn o => rw [hno] at hn; simp [nextOutIncrement] at hn
        | tiny o => rw [hno] at hn; simp [nextOutIncrement] at hn
    · simp only [Out.ok.injEq, Prod.mk.injEq] at h
      obtain ⟨rfl, _⟩ := h
      exact hT

/-! ### loops and whole calls -/

theorem tinyOK_slowLoop {o : Oracle} {op : Nat} {c0 : SState} {n total : Nat} (hop : op ≤ 2) :
    ∀ fuel s io s' io' r, SlowInv op c0 n total s io → TinyOK s → s.lastBytesBits ≤ 14 →
      slowLoop o op fuel s io = .ok (s', io', r) → TinyOK s' := by
  intro fuel
  induction fuel with
  | zero => intro s io s' io' r _ _ _ h; simp [slowLoop] at h
  | succ k ih =>
    intro s io s' io' r hP hT hl h
    have hnmd : s.streamState.isMd = false := by
      have := hP.inv.mdIff
      rw [hP.rm] at this
      cases hs : s.streamState <;> simp [SState.isMd] <;> simp [hs] at this
    unfold slowLoop at h
    split at h
    · simp at h
    · simp at h
    · rename_i s1 io1 hs
      exact absurd rfl (slowInv_step hP hs).1
    · rename_i s1 io1 hs
      have hnp : s.streamState ≠ .processing → io.availIn = 0 := by
        intro hne
        rcases hP.st with h1 | ⟨_, h2, _⟩
        · exact hP.nonproc (by rw [← h1]; exact hne)
        · exact h2
      obtain ⟨_, _, d2⟩ := slowStep_decreases (M := 0) hP.inv (by rw [hP.sum]; exact hP.nowrap) hnp hl hop hs
      exact ih _ _ _ _ _ (slowInv_step hP hs).2 (tinyOK_slowStep hP.inv hT hl hnmd hs) d2 h
    · rename_i s1 io1 hs
      simp only [Out.ok.injEq, Prod.mk.injEq] at h
      obtain ⟨rfl, _, _⟩ := h
      exact tinyOK_cfc (tinyOK_slowStep hP.inv hT hl hnmd hs)

theorem tinyOK_fastLoop {o : Oracle} {op : Nat} (hop : op ≤ 2) :
    ∀ fuel s io s' io', TinyOK s → s.lastBytesBits ≤ 14 → fastLoop o op fuel s io = .ok (s', io') → TinyOK s' := by
  intro fuel
  induction fuel with
  | zero => intro s io s' io' _ _ h; simp [fastLoop] at h
  | succ k ih =>
    intro s io s' io' hT hl h
    unfold fastLoop at h
    split at h
    · simp at h
    · simp at h
    · rename_i s1 io1 hs
      exact ih _ _ _ _ (tinyOK_fastStep hT hl hs) (fastStep_decreases (M := 0) hl hop hs).2.2 h
    · rename_i s1 io1 hs
      simp only [Out.ok.injEq, Prod.mk.injEq] at h
      obtain ⟨rfl, _⟩ := h
      exact tinyOK_fastStep hT hl hs

theorem tinyOK_mdLoop {o : Oracle} {n : Nat} :
    ∀ fuel s io s' io' r, MdInv n s io → TinyOK s → s.lastBytesBits ≤ 14 →
      processMetadataLoop o fuel s io = .ok (s', io', r) → TinyOK s' := by
  intro fuel
  induction fuel with
  | zero => intro s io s' io' r _ _ _ h; simp [processMetadataLoop] at h
  | succ k ih =>
    intro s io s' io' r hP hT hl h
    unfold processMetadataLoop at h
    split at h
    · simp at h
    · simp at h
    · rename_i s1 io1 hs
      exact absurd rfl (mdStep_spec hP hs).1
    · rename_i s1 io1 hs
      obtain ⟨_, d2⟩ := mdStep_decreases (M := 0) hP hl hs
      rcases (mdStep_spec hP hs).2 with h1 | ⟨h1, _⟩
      · exact ih _ _ _ _ _ h1 (tinyOK_mdStep hP hT hl hs) d2 h
      · cases h1
    · rename_i s1 io1 hs
      simp only [Out.ok.injEq, Prod.mk.injEq] at h
      obtain ⟨rfl, _, _⟩ := h
      exact tinyOK_mdStep hP hT hl hs

theorem tinyOK_fresh {s : St} (h : IsFresh s) : TinyOK (ensureInitialized s) := by
  obtain ⟨p, rfl⟩ := h
  refine ⟨fun off ho => ?_, fun _ => ?_, fun hb => ?_⟩
  · simp [ensureInitialized, St.new] at ho
  · simp [ensureInitialized, St.new]
  · simp [ensureInitialized, St.new] at hb

theorem tinyOK_mdEnter {s : St} (hT : TinyOK s) (n : Nat) : TinyOK (mdEnter s n) := by
  unfold mdEnter
  split
  · refine ⟨fun off ho => hT.fits off ho, fun hn => hT.none hn, fun hb => ?_⟩
    simp at hb
  · exact hT

/-- **`TinyOK` is preserved by every call** (given the state invariant; whatever the oracle answers) -/
theorem tinyOK_call {o : Oracle} {fuel op cap : Nat} {input : Bytes} {s s' : St} {io' : Io} {r : Bool}
    (hop : op ≤ 3) (hI : Inv s) (hw : s.inputPos + input.length < two64) (hl : s.lastBytesBits ≤ 14)
    (hT : TinyOK s)
    (h : compressStream o fuel s op input cap = .ok (s', io', r)) : TinyOK s' := by
  cases r
  · rcases (refused_unchanged hop hI hw h).1 with rfl | rfl
    · exact hT
    · exact tinyOK_hint hT 0
  · unfold compressStream at h
    rw [ensureInitialized_id hI.init] at h
    simp only at h
    split at h
    · simp at h
    · rename_i hg
      split at h
      · rename_i hop3
        subst hop3
        have hIu := inv_updateSizeHint hI 0
        obtain ⟨_, _, _, _, _, u6, u7, _, u9, u10, _, _, u13, u14, _⟩ := updateSizeHint_fields s 0
        unfold processMetadata at h
        split at h
        · simp at h
        · rename_i hle
          split at h
          · simp at h
          · rename_i hgood
            have hle' : input.length ≤ 16777216 := by simpa using hle
            have hP : MdInv input.length (mdEnter (updateSizeHint s 0) input.length) { input := input, availIn := input.length, availOut := cap } := by
              unfold mdEnter
              by_cases hpr : (updateSizeHint s 0).streamState = .processing
              · rw [if_pos hpr]
                have hmod : input.length % two32 = input.length := Nat.mod_eq_of_lt (lt_two32_of_le hle')
                refine ⟨?_, Or.inl (by simp), ?_, ?_, Nat.le_refl _⟩
                · refine ⟨hIu.init, hIu.fl_le, hIu.lp_le, hIu.ip_lt, hIu.blk, ?_, ?_, ?_, hIu.q01, ?_⟩
                  · intro hle2
                    have := hIu.lastFin hle2
                    rw [hpr] at this; cases this
                  · simp only [hmod]
                    constructor
                    · intro _; have := u32Max_gt; omega
                    · intro _; exact Or.inl trivial
                  · intro _; simp only [hmod]; exact hle'
                  · intro hfl; cases hfl
                · simp only [hmod]; exact hle'
                · simp only [hmod]
              · rw [if_neg hpr]
                have hme : mdEnter (updateSizeHint s 0) input.length = updateSizeHint s 0 := by
                  unfold mdEnter; rw [if_neg hpr]
                have hst : (updateSizeHint s 0).streamState = .metadataHead ∨ (updateSizeHint s 0).streamState = .metadataBody := by
                  simp only at hgood
                  rw [hme] at hgood
                  by_cases h1 : (updateSizeHint s 0).streamState = .metadataHead
                  · exact Or.inl h1
                  · by_cases h2 : (updateSizeHint s 0).streamState = .metadataBody
                    · exact Or.inr h2
                    · exact absurd ⟨h1, h2⟩ hgood
                have hrm : (updateSizeHint s 0).remainingMetadata ≠ u32Max := hIu.mdIff.mp hst
                have hav : input.length = (updateSizeHint s 0).remainingMetadata := by
                  rw [u7]
                  by_cases hne : input.length = s.remainingMetadata
                  · exact hne
                  · exact absurd ⟨by rw [← u7]; exact hrm, Or.inl hne⟩ hg
                exact ⟨hIu, hst, hIu.mdLe hrm, hav, Nat.le_refl _⟩
            obtain ⟨_, _, m3, _, _⟩ := mdEnter_fields (updateSizeHint s 0) input.length
            exact tinyOK_mdLoop fuel _ _ _ _ _ hP (tinyOK_mdEnter (tinyOK_hint hT 0) _) (by rw [m3, u14]; exact hl) h
      · rename_i hop3
        have hop2 : op ≤ 2 := by omega
        have hrm : s.remainingMetadata = u32Max := by
          by_cases hne : s.remainingMetadata = u32Max
          · exact hne
          · exact absurd ⟨hne, Or.inr hop3⟩ hg
        have hnmd : ¬ (s.streamState = .metadataHead ∨ s.streamState = .metadataBody) := by
          intro hh; exact absurd hrm (hI.mdIff.mp hh)
        rw [if_neg hnmd] at h
        split at h
        · simp at h
        · rename_i hok
          have haccp : s.streamState ≠ .processing → input.length = 0 := by
            intro hh
            by_cases hne : input.length = 0
            · exact hne
            · exact absurd ⟨hh, hne⟩ hok
          split at h
          · unfold compressStreamFast at h
            rename_i hfast
            rw [if_neg (by rcases hfast.1 with h1 | h1 <;> simp [h1])] at h
            split at h
            · rename_i s1 io1 hl1
              simp only [Out.ok.injEq, Prod.mk.injEq] at h
              obtain ⟨rfl, _, _⟩ := h
              exact tinyOK_cfc (tinyOK_fastLoop hop2 fuel _ _ _ _ hT hl hl1)
            · simp at h
            · simp at h
          · exact tinyOK_slowLoop (c0 := s.streamState) (n := input.length) (total := s.inputPos + input.length) hop2 fuel s _ _ _ _
              ⟨hI, rfl, hw, hrm, Nat.le_refl _, haccp, Or.inl rfl⟩ hT hl h

end BV.Stream
