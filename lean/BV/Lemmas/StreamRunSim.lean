import BV.Lemmas.StreamRunTile
/-
Run-level SIMULATION: a generic way to carry a step-wise abstraction of the stream machine through
whole histories.  `Sim` = an abstract state space `α`, a relation `R a s` to encoder states, and
transitions `T a e a'` labelled by the events of the atomic steps (`Step`), such that every atomic
step (of an allowed operation) from a related state is matched by a transition, and `take_output`,
`set_parameter` and the size-hint update of a refused call keep the relation.  Then the log of a
whole history (`run_facts`: the one that determines the delivered bits, positions and requests) is a
PATH of abstract transitions (`run_sim`).  The proof follows `runCall_facts` / `run_facts`
(Lemmas/StreamRunHist.lean) step by step, threading the abstract state.
-/
namespace BV.Stream
open BV.Bits

/-- a path of abstract transitions along a log -/
def Path {α : Type} (T : α → Ev → α → Prop) : α → List Ev → α → Prop
  | a, [], b => a = b
  | a, e :: es, b => ∃ a1, T a e a1 ∧ Path T a1 es b

theorem Path.append {α : Type} {T : α → Ev → α → Prop} {a b c : α} {l1 l2 : List Ev}
    (h1 : Path T a l1 b) (h2 : Path T b l2 c) : Path T a (l1 ++ l2) c := by
  induction l1 generalizing a with
  | nil => cases h1; exact h2
  | cons e es ih => obtain ⟨a1, t, p⟩ := h1; exact ⟨a1, t, ih p⟩

structure Sim (o : Oracle) (α : Type) where
  T : α → Ev → α → Prop
  R : α → St → Prop
  opOK : Nat → Prop
  step : ∀ {op : Nat} {s s' : St} {io io' : Io} {e : Ev} {a : α}, opOK op → R a s → Step o op (s, io) e (s', io') →
    ∃ a', R a' s' ∧ T a e a'
  take : ∀ {s s' : St} {size : Nat} {out : Bytes} {a : α}, R a s → takeOutput s size = .ok (s', out) → R a s'
  setp : ∀ {s : St} {id v : Nat} {a : α}, R a s → R a (setParameter s id v).1
  hint : ∀ {s : St} {a : α}, R a s → R a (updateSizeHint s 0)

/-- the operation of a `compress_stream` call is allowed -/
def CallOp (P : Nat → Prop) : Call → Prop
  | .stream op _ _ => P op
  | _ => True

def HistOp (P : Nat → Prop) : List Call → Prop
  | [] => True
  | c :: cs => CallOp P c ∧ HistOp P cs

theorem steps_sim {o : Oracle} {α : Type} (S : Sim o α) {op : Nat} (hop : S.opOK op) {c c' : St × Io} {log : List Ev}
    (h : Steps o op c log c') : ∀ a, S.R a c.1 → ∃ a', S.R a' c'.1 ∧ Path S.T a log a' := by
  induction h with
  | nil c => intro a ha; exact ⟨a, ha, rfl⟩
  | @cons c c1 c2 e es hs _ ih =>
    intro a ha
    obtain ⟨s, io⟩ := c
    obtain ⟨s1, io1⟩ := c1
    obtain ⟨a1, r1, t1⟩ := S.step hop ha hs
    obtain ⟨a2, r2, p2⟩ := ih a1 r1
    exact ⟨a2, r2, a1, t1, p2⟩

/-- **one call of a history**, with the abstract state threaded through its log -/
theorem runCall_sim {o : Oracle} {α : Type} (S : Sim o α) {fuel : Nat} {s s' : St} {t t' : Trace} {c : Call} (hR : RunOK s) (hc : CallOK s c)
    (hco : CallOp S.opOK c) (h : runCall o fuel s t c = .ok (s', t')) :
    s'.inputPos ≤ s.inputPos + c.len ∧ ∃ log, (∀ a, S.R a s → ∃ a', S.R a' s' ∧ Path S.T a log a') ∧ RunFacts o s t s' t' log := by
  cases c with
  | setParam id v =>
    simp only [runCall, Out.ok.injEq, Prod.mk.injEq] at h
    obtain ⟨rfl, rfl⟩ := h
    rcases hR.inv with hf | hI
    · have hf' := setParameter_fresh hf id v
      obtain ⟨_, hp, hip, _, hl⟩ := isFresh_fields hf
      obtain ⟨_, hp', hip', _, hl'⟩ := isFresh_fields hf'
      refine ⟨by rw [hip', hip]; exact Nat.zero_le _, [], (fun a ha => ⟨a, S.setp ha, rfl⟩), runOK_fresh hf', ?_, ?_, trivial, by simp [logReqs],
        winShape_nil (by rw [isFreshInit hf, isFreshInit hf']), (fun hi => by rw [isFreshInit hf] at hi; cases hi), trivial,
        by simp [logReqs, closedFlags], fun inp hh => by
          simp only [logCopy, List.append_nil]
          rcases hh with ⟨_, hi⟩ | hi
          · exact Or.inl ⟨hf', hi⟩
          · have := hi.init; rw [isFreshInit hf] at this; cases this⟩
      · simp only [deliveredBits, logBits, List.flatMap_nil, List.append_nil]
        rw [hp, hp']
        unfold St.carry
        rw [hl, hl']
        rfl
      · obtain ⟨p, rfl⟩ := hf
        obtain ⟨p', hp'⟩ := hf'
        rw [hp']; rfl
    · have : setParameter s id v = (s, false) := by simp [setParameter, hI.init]
      rw [this]
      exact ⟨Nat.le_add_right _ _, [], (fun a ha => ⟨a, ha, rfl⟩), hR, by simp [deliveredBits, logBits], rfl, trivial, by simp [logReqs], winShape_nil rfl,
        (fun _ => rfl), trivial, by simp [logReqs, closedFlags], fun inp hh => by simpa [logCopy] using hh⟩
  | take size =>
    simp only [runCall] at h
    split at h
    · rename_i s1 out htake
      simp only [Out.ok.injEq, Prod.mk.injEq] at h
      obtain ⟨rfl, rfl⟩ := h
      obtain ⟨hR', hb, hp, hini, hpar, hring⟩ := take_facts hR htake t.delivered
      have hipe : s1.inputPos = s.inputPos := congrArg Pos.ip hp
      refine ⟨by rw [hipe]; exact Nat.le_add_right _ _, [], (fun a ha => ⟨a, S.take ha htake, rfl⟩), hR', ?_, hp, trivial, by simp [logReqs], winShape_nil hini,
        (fun _ => by unfold St.q01; rw [hpar]), trivial, by simp [logReqs, closedFlags], fun inp hh => by
          simp only [logCopy, List.append_nil]
          rcases hh with ⟨hf, hi⟩ | hi
          · left
            have hs1 : s1 = s := by
              obtain ⟨_, hp0, _, hno, _⟩ := isFresh_fields hf
              have : takeOutput s size = .ok (s, []) := by
                unfold takeOutput takeSliceOk takeCount
                rw [hno, hp0]
                simp
              rw [this] at htake
              simp only [Out.ok.injEq, Prod.mk.injEq] at htake
              exact htake.1.symm
            rw [hs1]; exact ⟨hf, hi⟩
          · right
            exact ringInv_of_eq hi hring (by rw [hpar]) hini⟩
      simp only [deliveredBits, logBits, List.flatMap_nil, List.append_nil]
      exact hb
    · simp at h
    · simp at h
  | stream op chunk cap =>
    obtain ⟨hop, hw⟩ := hc
    simp only [runCall] at h
    split at h
    · rename_i s1 io r hcs
      simp only [Out.ok.injEq, Prod.mk.injEq] at h
      obtain ⟨rfl, rfl⟩ := h
      -- reduce to an initialised state, possibly after the `init` atom
      have key : ∀ (si : St), Inv si → FrameInv si → si.inputPos + chunk.length < two64 →
          compressStream o fuel si op chunk cap = .ok (s1, io, r) →
          ∃ log, (∀ a, S.R a si → ∃ a', S.R a' s1 ∧ Path S.T a log a') ∧ RunOK s1 ∧ emitted (t.delivered ++ io.out) s1 = emitted t.delivered si ++ logBits o log
            ∧ s1.pos = logPos si.pos log ∧ LogOK si.pos log ∧ io.reqs = logReqs log
            ∧ s1.inputPos ≤ si.inputPos + chunk.length ∧ NoWindow log ∧ s1.isInitialized = true
            ∧ s1.q01 = si.q01 ∧ LogCl o si.q01 si.pos log
            ∧ (∀ inp, RingInv si inp → RingInv s1 (inp ++ logCopy log)) := by
        intro si hI hF hw' hcs'
        cases r
        · obtain ⟨hs, hio⟩ := refused_unchanged hop hI hw' hcs'
          subst hio
          rcases hs with rfl | rfl
          · exact ⟨[], (fun a ha => ⟨a, ha, rfl⟩), ⟨Or.inr hI, hF⟩, by simp [logBits, Io.start], rfl, trivial, by simp [logReqs, Io.start], Nat.le_add_right _ _,
              (fun _ he => by cases he), hI.init, rfl, trivial, fun inp hh => by simpa [logCopy] using hh⟩
          · obtain ⟨_, _, _, _, _, u6, _, _, u9, u10, _, _, u13, u14, u15⟩ := updateSizeHint_fields si 0
            refine ⟨[], (fun a ha => ⟨a, S.hint ha, rfl⟩), ⟨Or.inr (inv_updateSizeHint hI 0), frameInv_of_eq hF u15 u14 u9 u6 u10⟩, ?_,
              by rw [updateSizeHint_pos]; rfl, trivial, by simp [logReqs, Io.start], by rw [u6]; exact Nat.le_add_right _ _,
              (fun _ he => by cases he), (inv_updateSizeHint hI 0).init, q01_congr (updateSizeHint_fields si 0).2.1, trivial,
              fun inp hh => by
                simp only [logCopy, List.append_nil]
                have hur : (updateSizeHint si 0).ring = si.ring := by
                  by_cases h0 : si.params.sizeHint = 0 <;> simp [updateSizeHint, h0]
                exact ringInv_of_eq hh hur (updateSizeHint_fields si 0).1 (updateSizeHint_fields si 0).2.2.2.2.2.2.2.1⟩
            simp only [logBits, List.flatMap_nil, List.append_nil, Io.start]
            exact emitted_eq rfl u13 u15 u14
        · obtain ⟨log, hsteps⟩ := call_steps hop hI hw' hcs'
          have f := steps_facts hsteps hF t.delivered
          have hI1 := ((compressStream_refines hop hI hw' hcs').2 rfl).1
          obtain ⟨cq, ccl⟩ := steps_cl (o := o) hsteps hI.init
          refine ⟨log, steps_sim S hco hsteps, ⟨Or.inr hI1, f.frame⟩, ?_, f.pos, f.ok, ?_, ?_, (f.initd hI.init).2, hI1.init, cq, ccl,
            fun inp hh => steps_ring hsteps hh⟩
          rotate_left 2
          · have h1 := logPos_ip_le si.pos log
            have h2 := f.used
            have h3 : s1.inputPos = (logPos si.pos log).ip := congrArg Pos.ip f.pos
            have h4 : (Io.start chunk cap).input.length = chunk.length := rfl
            have h5 : si.pos.ip = si.inputPos := rfl
            simp only at h2
            omega
          · have := f.bits
            simp only [Io.start, List.append_nil] at this
            exact this
          · have := f.reqs
            simp only [Io.start, List.nil_append] at this
            exact this
      rcases hR.inv with hf | hI
      · -- fresh: `ensure_initialized` first
        rw [compressStream_ensure] at hcs
        obtain ⟨hini, hp, hip, _, hl⟩ := isFresh_fields hf
        have hIe := (inv_fresh hf).1
        have hFe := frameInv_fresh hf
        have hipe : (ensureInitialized s).inputPos = 0 := by
          obtain ⟨p, rfl⟩ := hf
          simp [ensureInitialized, St.new]
        obtain ⟨log, ksim, k1, k2, k3, k4, k5, k6, k7, k8, k9, k10, k11⟩ := key (ensureInitialized s) hIe hFe (by rw [hipe]; rw [hip] at hw; exact hw) hcs
        have hinit : Step o op (s, Io.start chunk cap) (.window (ensureInitialized s).carry) (ensureInitialized s, Io.start chunk cap) :=
          Step.init hf
        have hb0 := step_emitted hR.frame hinit t.delivered
        obtain ⟨q1, q2, _⟩ := step_pos hinit
        refine ⟨by rw [hipe] at k6; rw [hip]; exact k6, .window (ensureInitialized s).carry :: log,
          (fun a ha => by
            obtain ⟨a1, r1, t1⟩ := S.step hco ha hinit
            obtain ⟨a2, r2, p2⟩ := ksim a1 r1
            exact ⟨a2, r2, a1, t1, p2⟩), k1, ?_, ?_, ⟨q2, by rw [← q1]; exact k4⟩, ?_,
          Or.inr (Or.inl ⟨hini, k8, _, _, rfl, k7⟩), (fun hi => by rw [hini] at hi; cases hi), ⟨trivial, ?_⟩, ?_,
          fun inp hh => by
            rw [logCopy_cons]
            simp only [Ev.copied, List.nil_append]
            rcases hh with ⟨_, hi⟩ | hi
            · subst hi
              right
              obtain ⟨r1, r2⟩ := ring_ok_fresh hf
              have := k11 [] ⟨hIe.init, r1, r2, ring_alloc_fresh hf⟩
              simpa using this
            · have := hi.init; rw [hini] at this; cases this⟩
        rotate_left 3
        · rw [← q1, k9]; exact k10
        · have hk : (ensureInitialized s).nEnc = s.nEnc := by
            have := congrArg Pos.k q1
            exact this
          simp only [Trace.afterStream]
          rw [k5, k9, hk]
          simp [logReqs, Ev.req, List.filterMap_cons]
        · simp only [deliveredBits, Trace.afterStream]
          show emitted (t.delivered ++ io.out) s1 = emitted t.delivered s ++ logBits o (.window (ensureInitialized s).carry :: log)
          rw [k2]
          simp only [Io.start, List.append_nil] at hb0
          rw [hb0]
          simp [logBits, List.append_assoc]
        · rw [k3, q1]; rfl
        · simp only [Trace.afterStream]
          rw [k5]
          simp [logReqs, Ev.req, List.filterMap_cons]
      · obtain ⟨log, ksim, k1, k2, k3, k4, k5, k6, k7, k8, k9, k10, k11⟩ := key s hI hR.frame hw hcs
        refine ⟨k6, log, ksim, k1, ?_, k3, k4, ?_, Or.inr (Or.inr ⟨hI.init, k8, k7⟩), (fun _ => k9), by rw [k9]; exact k10, ?_,
          fun inp hh => by
            right
            rcases hh with ⟨hf, _⟩ | hi
            · have := isFreshInit hf; rw [hI.init] at this; cases this
            · exact k11 inp hi⟩
        rotate_left 2
        · simp only [Trace.afterStream]
          rw [ensureInitialized_id hI.init, k5, k9]
        · simp only [deliveredBits, Trace.afterStream]
          exact k2
        · simp only [Trace.afterStream]
          rw [k5]
    · simp at h
    · simp at h

/-- **the log of a whole history is a path of the abstraction** -/
theorem run_sim {o : Oracle} {α : Type} (S : Sim o α) {fuel : Nat} {calls : List Call} {s0 s : St} {t0 t : Trace} (hR : RunOK s0)
    (hops : HistOK calls) (hopk : HistOp S.opOK calls) (hw : s0.inputPos + histLen calls < two64)
    (h : run o fuel calls s0 t0 = .ok (s, t)) :
    ∃ log, (∀ a, S.R a s0 → ∃ a', S.R a' s ∧ Path S.T a log a') ∧ RunFacts o s0 t0 s t log := by
  induction calls generalizing s0 t0 with
  | nil =>
    simp only [run, Out.ok.injEq, Prod.mk.injEq] at h
    obtain ⟨rfl, rfl⟩ := h
    exact ⟨[], (fun a ha => ⟨a, ha, rfl⟩), RunFacts.refl o t0 hR⟩
  | cons c cs ih =>
    simp only [run] at h
    split at h
    · rename_i s1 t1 hc
      have hcok : CallOK s0 c := by
        cases c with
        | stream op chunk cap =>
          simp only [histLen, Call.len] at hw
          exact ⟨hops.1, by omega⟩
        | setParam id v => trivial
        | take n => trivial
      obtain ⟨hip, l1, m1, f1⟩ := runCall_sim S hR hcok hopk.1 hc
      have hops' : HistOK cs := by
        cases c with
        | stream op chunk cap => exact hops.2
        | setParam id v => exact hops
        | take n => exact hops
      have hw' : s1.inputPos + histLen cs < two64 := by
        simp only [histLen] at hw
        omega
      obtain ⟨l2, m2, f2⟩ := ih f1.ok hops' hopk.2 hw' h
      refine ⟨l1 ++ l2, ?_, f1.trans f2⟩
      intro a ha
      obtain ⟨a1, r1, p1⟩ := m1 a ha
      obtain ⟨a2, r2, p2⟩ := m2 a1 r1
      exact ⟨a2, r2, p1.append p2⟩
    · simp at h
    · simp at h

end BV.Stream
