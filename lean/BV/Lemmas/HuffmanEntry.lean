/-
Lemmas for C17: the two entry points (`BuildAndStoreHuffmanTree`,
`BrotliBuildAndStoreHuffmanTreeFast`) put together from the tree construction
and the canonical code assignment.
-/
import BV.Lemmas.HuffmanCreate
import BV.Lemmas.HuffmanPrefix

namespace BV.Lemmas.HuffmanEntry
open BV.Bits BV.Huffman BV.Lemmas.HuffmanCanon BV.Lemmas.HuffmanShape BV.Lemmas.HuffmanSort
open BV.Lemmas.HuffmanMerge BV.Lemmas.HuffmanBuild BV.Lemmas.HuffmanFib BV.Lemmas.HuffmanCreate

/-- `BrotliCreateHuffmanTree(data, m, M, tree, depth)` over the first `m` entries,
`depth` zero at the symbols that do not occur -/
theorem create_total_gen (data : List Nat) (m M R : Nat) (hM : M ≤ 15) (hm : m ≤ data.length)
    (hm16 : m ≤ 16383) (hn2 : 2 ≤ ((data.take m).filter (· ≠ 0)).length) (tree : List Node)
    (htl : 2 * m + 1 ≤ tree.length) (depth : List Nat) (hdl : m ≤ depth.length)
    (hz : ZeroOff data m depth) (hR : R ≤ 31)
    (hW : (data.take m).sum + m * 2 ^ R < 4294967295)
    (hfit : (data.take m).sum + m * 2 ^ R < fib (M + 3) * 2 ^ R) :
    ∃ depth', createHuffmanTree data m (M : Int) tree depth = .ok depth' ∧
      GoodDepth data m M depth depth' := by
  have hnz : 2 ≤ (descNZ data m).length := by
    rw [(descNZ_perm_filter data m hm).1]; exact hn2
  have hrw : ∀ cl, roundWeight data m cl ≤ (data.take m).sum + m * cl := by
    intro cl
    rw [(descNZ_perm_filter data m hm).2 cl]
    have := roundTotal_le (data.take m) cl
    unfold roundTotal at this
    rw [List.length_take, Nat.min_eq_left hm] at this
    exact this
  have hWr : ∀ r, r < R + 1 → roundWeight data m (clSeq 1 r) < 4294967295 := by
    intro r hr
    rw [clSeq_one r (by omega)]
    have h1 := hrw (2 ^ r)
    have h2 : (2:Nat) ^ r ≤ 2 ^ R := Nat.pow_le_pow_right (by decide) (by omega)
    have h3 := Nat.mul_le_mul_left m h2
    omega
  have hspec := createLoop_spec data m M hM hm (by omega) hnz (R + 1) 1 tree depth htl hdl hz hWr
  have hstop := createLoop_stops data m M hM hm (by omega) hnz (R + 1) 1 tree depth htl hdl hz hWr
    ⟨R, by omega, by rw [clSeq_one R hR]; have := hrw (2 ^ R); omega⟩
  rcases hspec with hfu | ⟨tree', depth', he, hg⟩
  · exact absurd hfu hstop
  · refine ⟨depth', ?_, hg⟩
    unfold createHuffmanTree
    rw [createLoop_mono data m (M : Int) _ 1 tree depth _ he createFuel
      (by unfold createFuel; omega)]
    rfl

/-- `BrotliConvertBitDepthsToSymbols(depth, len, bits)` only looks at `depth[..len]` -/
theorem convert_take (depth : List Nat) (len : Nat) (bits : List Nat) (h : len ≤ depth.length) :
    convertBitDepthsToSymbols depth len bits
      = convertBitDepthsToSymbols (depth.take len) (depth.take len).length bits := by
  have hl : (depth.take len).length = len := by rw [List.length_take]; omega
  unfold convertBitDepthsToSymbols
  rw [hl]
  have h1 : ¬ len > depth.length := by omega
  have h2 : ¬ len > (depth.take len).length := by omega
  simp only [h1, ↓reduceIte, List.take_take, Nat.min_self, Nat.lt_irrefl, gt_iff_lt]

/-- the `'break31` scan: no panic, `s4` keeps its 4 entries, and two non-zero
entries are enough for `count ≥ 2` -/
theorem scanHistogram_spec (histogram : List Nat) :
    ∀ (cnt i count : Nat) (s4 : List Nat), i + cnt ≤ histogram.length → s4.length = 4 →
    ∃ c' s4', scanHistogram histogram cnt i count s4 = .ok (c', s4') ∧ s4'.length = 4 ∧
      (2 ≤ count + (((histogram.drop i).take cnt).filter (· ≠ 0)).length → 2 ≤ c') := by
  intro cnt
  induction cnt with
  | zero =>
    intro i count s4 _ hs
    exact ⟨count, s4, rfl, hs, by simp⟩
  | succ cnt ih =>
    intro i count s4 hlen hs
    have hi : i < histogram.length := by omega
    have hd : (histogram.drop i).take (cnt + 1)
        = histogram.getD i 0 :: (histogram.drop (i + 1)).take cnt := by
      rw [List.drop_eq_getElem_cons hi, List.take_succ_cons, List.getD_eq_getElem?_getD,
        List.getElem?_eq_getElem hi]
      rfl
    simp only [scanHistogram, getAt_getD histogram i hi, Out.bind_ok]
    rw [hd]
    by_cases h0 : histogram.getD i 0 = 0
    · simp only [h0, ne_eq, not_true_eq_false, ↓reduceIte]
      obtain ⟨c', s4', h1, h2, h3⟩ := ih (i + 1) count s4 (by omega) hs
      refine ⟨c', s4', h1, h2, ?_⟩
      intro h; apply h3
      simpa [h0] using h
    · simp only [ne_eq, h0, not_false_eq_true, ↓reduceIte]
      have hf : (List.filter (fun x => decide (x ≠ 0))
          (histogram.getD i 0 :: (histogram.drop (i + 1)).take cnt)).length
          = 1 + (((histogram.drop (i + 1)).take cnt).filter (· ≠ 0)).length := by
        generalize histogram.getD i 0 = x at h0
        simp [h0]; omega
      rw [hf]
      by_cases hc4 : count < 4
      · simp only [hc4, ↓reduceIte]
        obtain ⟨c', s4', h1, h2, h3⟩ := ih (i + 1) (count + 1) (s4.set count i) (by omega)
          (by simp [hs])
        exact ⟨c', s4', h1, h2, fun h => h3 (by omega)⟩
      · simp only [hc4, ↓reduceIte]
        by_cases hc5 : count > 4
        · simp only [hc5, ↓reduceIte]
          exact ⟨count, s4, rfl, hs, fun _ => by omega⟩
        · simp only [hc5, ↓reduceIte]
          obtain ⟨c', s4', h1, h2, h3⟩ := ih (i + 1) (count + 1) s4 (by omega) hs
          exact ⟨c', s4', h1, h2, fun h => h3 (by omega)⟩


theorem zeroOff_zeroPrefix (data : List Nat) (m : Nat) (rest : List Nat) :
    ZeroOff data m (List.replicate m 0 ++ rest) := by
  intro v hv _
  rw [List.getD_eq_getElem?_getD, List.getElem?_append_left (by simpa using hv)]
  simp [hv]

/-- what C17 asks of the bit patterns: the canonical code of the depths, bit-reversed -/
def GoodBits (len : Nat) (depth' bits bits' : List Nat) : Prop :=
  bits'.length = bits.length ∧ (∀ k, len ≤ k → bits'.getD k 0 = bits.getD k 0) ∧
  ∀ i, i < len → bits'.getD i 0 =
    if depth'.getD i 0 ≠ 0 then
      reverseBits (depth'.getD i 0) ((canonicalCodes (depth'.take len)).getD i 0)
    else bits.getD i 0

theorem goodBits_of_convert (depth' bits bits' : List Nat) (len M : Nat) (hM : M ≤ 15)
    (hl : len ≤ depth'.length) (hlim : ∀ v, v < len → depth'.getD v 0 ≤ M) (h16 : len < 65536)
    (hb : len ≤ bits.length) (h : convertBitDepthsToSymbols depth' len bits = .ok bits') :
    GoodBits len depth' bits bits' := by
  have hlt : (depth'.take len).length = len := by rw [List.length_take]; omega
  have hd : ∀ x ∈ depth'.take len, x ≤ 15 := by
    intro x hx
    obtain ⟨i, hi, hxi⟩ := List.getElem_of_mem hx
    rw [hlt] at hi
    have := hlim i hi
    rw [List.getD_eq_getElem?_getD, List.getElem?_eq_getElem (by omega)] at this
    rw [List.getElem_take] at hxi
    simp only [Option.getD_some] at this
    omega
  obtain ⟨b2, h1, h2, h3, h4⟩ := convert_spec (depth'.take len) bits hd (by omega) (by omega)
  rw [convert_take depth' len bits hl, h1] at h
  injection h with h
  subst h
  rw [hlt] at h3 h4
  refine ⟨h2, h3, ?_⟩
  intro i hi
  have hg : (depth'.take len).getD i 0 = depth'.getD i 0 := by
    simp [List.getD_eq_getElem?_getD, hi]
  rw [h4 i hi, hg]

/-- `BuildAndStoreHuffmanTree` (exact builder), two or more symbols in use among
`histogram[..len]`: whatever it stores, the depths and bit patterns it leaves
in `depth[..len]`, `bits[..len]` are good. -/
theorem build_good (histogram : List Nat) (len alphabetSize : Nat) (tree : List Node)
    (depth bits : List Nat) (w : Writer) (depth' bits' : List Nat) (w' : Writer)
    (hlen : len ≤ histogram.length) (h704 : len ≤ 704)
    (hsum : (histogram.take len).sum ≤ 2 ^ 25)
    (hn2 : 2 ≤ ((histogram.take len).filter (· ≠ 0)).length)
    (htl : 2 * len + 1 ≤ tree.length) (hdl : len ≤ depth.length) (hbl : len ≤ bits.length)
    (h : buildAndStoreHuffmanTree histogram len alphabetSize tree depth bits w
      = .ok (depth', bits', w')) :
    GoodDepth histogram len 15 (List.replicate len 0 ++ depth.drop len) depth' ∧
    GoodBits len depth' bits bits' := by
  unfold buildAndStoreHuffmanTree at h
  obtain ⟨count, s4, hs1, hs2, hs3⟩ := scanHistogram_spec histogram len 0 0 [0, 0, 0, 0]
    (by omega) rfl
  have hc2 : 2 ≤ count := hs3 (by simpa using hn2)
  rw [hs1] at h
  simp only [Out.bind_ok] at h
  rw [getAt_getD s4 0 (by omega)] at h
  simp only [Out.bind_ok, show ¬ count ≤ 1 by omega, ↓reduceIte] at h
  have hzp : zeroPrefix depth len = .ok (List.replicate len 0 ++ depth.drop len) := by
    simp [zeroPrefix, show ¬ len > depth.length by omega]
  rw [hzp] at h
  simp only [Out.bind_ok] at h
  have hf : fib (15 + 3) = 2584 := by decide
  have h1 : len * 2 ^ 15 ≤ 704 * 2 ^ 15 := Nat.mul_le_mul_right _ h704
  have e1 : (2:Nat) ^ 15 = 32768 := by decide
  have e2 : (2:Nat) ^ 25 = 33554432 := by decide
  rw [e1] at h1
  rw [e2] at hsum
  obtain ⟨d1, hd1, hg⟩ := create_total_gen histogram len 15 15 (by decide) hlen (by omega) hn2
    tree htl (List.replicate len 0 ++ depth.drop len) (by simp)
    (zeroOff_zeroPrefix _ _ _) (by decide) (by rw [e1]; omega) (by rw [hf, e1]; omega)
  have hd1' : createHuffmanTree histogram len 15 tree (List.replicate len 0 ++ depth.drop len)
      = .ok d1 := hd1
  rw [hd1'] at h
  simp only [Out.bind_ok] at h
  have hd1len : len ≤ d1.length := by
    rw [hg.hlen]; simp
  cases hcv : convertBitDepthsToSymbols d1 len bits with
  | panic => rw [hcv] at h; simp at h
  | fuel => rw [hcv] at h; simp at h
  | ok b1 =>
    rw [hcv] at h
    simp only [Out.bind_ok] at h
    have hgb := goodBits_of_convert d1 bits b1 len 15 (by decide) hd1len hg.hlim (by omega) hbl hcv
    by_cases hc4 : count ≤ 4
    · simp only [hc4, ↓reduceIte] at h
      cases hst : storeSimpleHuffmanTree d1 s4 count (bitWidth 64 ((alphabetSize + u64 - 1) % u64)) w with
      | panic => rw [hst] at h; simp at h
      | fuel => rw [hst] at h; simp at h
      | ok w1 =>
        rw [hst] at h
        simp only [Out.bind_ok] at h
        injection h with h
        injection h with ha hb
        injection hb with hb hc
        subst ha hb
        exact ⟨hg, hgb⟩
    · simp only [hc4, ↓reduceIte] at h
      cases hst : storeHuffmanTree d1 len tree w with
      | panic => rw [hst] at h; simp at h
      | fuel => rw [hst] at h; simp at h
      | ok w1 =>
        rw [hst] at h
        simp only [Out.bind_ok] at h
        injection h with h
        injection h with ha hb
        injection hb with hb hc
        subst ha hb
        exact ⟨hg, hgb⟩


/-- the `while total != 0` scan of the fast builder: it stops inside the slice,
and `count` is the number of non-zero entries it passed -/
theorem fastScan_spec : ∀ (hist : List Nat) (total len0 count : Nat) (symbols : List Nat)
    (c' len' : Nat) (s' : List Nat), symbols.length = 4 →
    fastScan hist total len0 count symbols = .ok (c', s', len') →
    len0 ≤ len' ∧ len' - len0 ≤ hist.length ∧ s'.length = 4 ∧
      c' = count + ((hist.take (len' - len0)).filter (· ≠ 0)).length := by
  intro hist
  induction hist with
  | nil =>
    intro total len0 count symbols c' len' s' hs h
    simp only [fastScan] at h
    split at h
    · injection h with h; injection h with h1 h2; injection h2 with h2 h3
      subst h1 h2 h3; simp [hs]
    · cases h
  | cons x xs ih =>
    intro total len0 count symbols c' len' s' hs h
    simp only [fastScan] at h
    by_cases ht : total = 0
    · simp only [ht, ↓reduceIte] at h
      injection h with h; injection h with h1 h2; injection h2 with h2 h3
      subst h1 h2 h3; simp [hs]
    · simp only [ht, ↓reduceIte] at h
      by_cases hx : x = 0
      · simp only [hx, ne_eq, not_true_eq_false, ↓reduceIte] at h
        obtain ⟨a, b, c, d⟩ := ih total (len0 + 1) count symbols c' len' s' hs h
        have e : len' - len0 = (len' - (len0 + 1)) + 1 := by omega
        refine ⟨by omega, by simp only [List.length_cons]; omega, c, ?_⟩
        rw [e, List.take_succ_cons, List.filter_cons, hx]
        simpa using d
      · simp only [ne_eq, hx, not_false_eq_true, ↓reduceIte] at h
        obtain ⟨a, b, c, d⟩ := ih _ (len0 + 1) (count + 1) _ c' len' s'
          (by split <;> simp [hs]) h
        have e : len' - len0 = (len' - (len0 + 1)) + 1 := by omega
        refine ⟨by omega, by simp only [List.length_cons]; omega, c, ?_⟩
        rw [e, List.take_succ_cons, List.filter_cons]
        simp only [ne_eq, hx, not_false_eq_true, decide_true, ↓reduceIte, List.length_cons]
        simp only [ne_eq] at d
        omega

theorem sum_take_le (l : List Nat) (k : Nat) : (l.take k).sum ≤ l.sum := by
  conv => rhs; rw [← List.take_append_drop k l]
  rw [List.sum_append]; omega

/-- `BrotliBuildAndStoreHuffmanTreeFast`, two or more symbols in use: the depths
and bit patterns it leaves in `depth[..length]`, `bits[..length]` (`length` =
where its scan of the histogram stopped) are good for limit 14 -/
theorem fast_good (histogram : List Nat) (total maxBits : Nat) (depth bits : List Nat)
    (w : Writer) (depth' bits' : List Nat) (w' : Writer) (count length : Nat) (symbols : List Nat)
    (hscan : fastScan histogram total 0 0 [0, 0, 0, 0] = .ok (count, symbols, length))
    (hc2 : 2 ≤ count) (h704 : histogram.length ≤ 704) (hsum : histogram.sum ≤ 2 ^ 25)
    (hbl : length ≤ bits.length)
    (h : buildAndStoreHuffmanTreeFast histogram total maxBits depth bits w
      = .ok (depth', bits', w')) :
    length ≤ histogram.length ∧
    GoodDepth histogram length 14 (List.replicate length 0 ++ depth.drop length) depth' ∧
    GoodBits length depth' bits bits' := by
  obtain ⟨_, hl, hs4, hcnt⟩ := fastScan_spec histogram total 0 0 [0, 0, 0, 0] count length symbols
    rfl hscan
  simp only [Nat.sub_zero, Nat.zero_add] at hl hcnt
  refine ⟨hl, ?_⟩
  unfold buildAndStoreHuffmanTreeFast at h
  rw [hscan] at h
  simp only [Out.bind_ok] at h
  rw [getAt_getD symbols 0 (by omega)] at h
  simp only [Out.bind_ok, show ¬ count ≤ 1 by omega, ↓reduceIte] at h
  cases hzp : zeroPrefix depth length with
  | panic => rw [hzp] at h; simp at h
  | fuel => rw [hzp] at h; simp at h
  | ok dz =>
    have hdl : length ≤ depth.length := by
      unfold zeroPrefix at hzp
      split at hzp
      · cases hzp
      · omega
    have hdz : dz = List.replicate length 0 ++ depth.drop length := by
      unfold zeroPrefix at hzp
      split at hzp
      · cases hzp
      · injection hzp with hzp; exact hzp.symm
    subst hdz
    rw [hzp] at h
    simp only [Out.bind_ok] at h
    have hf : fib 17 = 1597 := by decide
    have e1 : (2:Nat) ^ 16 = 65536 := by decide
    have e2 : (2:Nat) ^ 25 = 33554432 := by decide
    have h1 : length * 2 ^ 16 ≤ 704 * 2 ^ 16 := Nat.mul_le_mul_right _ (by omega)
    have hst := sum_take_le histogram length
    rw [e1] at h1
    rw [e2] at hsum
    obtain ⟨d1, hd1, hg⟩ := fast_total histogram length 16 hl (by omega) (by omega)
      (List.replicate length 0 ++ depth.drop length) (by simp)
      (zeroOff_zeroPrefix _ _ _) (by decide) (by rw [e1]; omega) (by rw [hf, e1]; omega)
    rw [hd1] at h
    simp only [Out.bind_ok] at h
    have hd1len : length ≤ d1.length := by rw [hg.hlen]; simp
    cases hcv : convertBitDepthsToSymbols d1 length bits with
    | panic => rw [hcv] at h; simp at h
    | fuel => rw [hcv] at h; simp at h
    | ok b1 =>
      rw [hcv] at h
      simp only [Out.bind_ok] at h
      have hgb := goodBits_of_convert d1 bits b1 length 14 (by decide) hd1len hg.hlim (by omega)
        hbl hcv
      have hfin : depth' = d1 ∧ bits' = b1 := by
        by_cases hc4 : count ≤ 4
        · simp only [hc4, ↓reduceIte] at h
          cases ha : writeBits 2 1 w with
          | panic => rw [ha] at h; simp at h
          | fuel => rw [ha] at h; simp at h
          | ok w1 =>
            rw [ha] at h; simp only [Out.bind_ok] at h
            cases hb : writeBits 2 (count - 1) w1 with
            | panic => rw [hb] at h; simp at h
            | fuel => rw [hb] at h; simp at h
            | ok w2 =>
              rw [hb] at h; simp only [Out.bind_ok] at h
              cases hc : sortSymbolsOuter d1 count count 0 symbols with
              | panic => rw [hc] at h; simp at h
              | fuel => rw [hc] at h; simp at h
              | ok s2 =>
                rw [hc] at h; simp only [Out.bind_ok] at h
                cases hd : storeSimpleTail d1 s2 count maxBits w2 with
                | panic => rw [hd] at h; simp at h
                | fuel => rw [hd] at h; simp at h
                | ok w3 =>
                  rw [hd] at h; simp only [Out.bind_ok] at h
                  injection h with h
                  injection h with ha hb
                  injection hb with hb hc
                  exact ⟨ha.symm, hb.symm⟩
        · simp only [hc4, ↓reduceIte] at h
          cases ha : storeStaticCodeLengthCode w with
          | panic => rw [ha] at h; simp at h
          | fuel => rw [ha] at h; simp at h
          | ok w1 =>
            rw [ha] at h; simp only [Out.bind_ok] at h
            split at h
            · cases h
            · cases hb : fastRleLoop 8 (List.take length d1) w1 with
              | panic => rw [hb] at h; simp at h
              | fuel => rw [hb] at h; simp at h
              | ok w2 =>
                rw [hb] at h; simp only [Out.bind_ok] at h
                injection h with h
                injection h with ha hb
                injection hb with hb hc
                exact ⟨ha.symm, hb.symm⟩
      rw [hfin.1, hfin.2]
      exact ⟨hg, hgb⟩

end BV.Lemmas.HuffmanEntry
