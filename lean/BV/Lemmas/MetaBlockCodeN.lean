/-
C01 / meta-block writers, part 12: the facts about one `BuildAndStoreHuffmanTree` call (`CodeFacts`, totality) for
depth / bits tables that are LONGER than the histogram (`[0; 258]`, `[0; 272]`, the tail of a `BlockEncoder` table),
with the frame: entries from `len` on stay zero.  Same proofs as in `MetaBlockCode.lean`.
-/
import BV.Lemmas.MetaBlockCode

namespace BV.MetaBlock
open BV.Gen BV.Bits BV.Huffman BV.PrefixArith BV.Recoder
open BV.Header (writeBits_ok)

open BV.Lemmas.HuffmanCreate (GoodDepth) in
open BV.Lemmas.HuffmanEntry (GoodBits) in
/-- **one `BuildAndStoreHuffmanTree` call round-trips** (all forms: NSYM = 1 incl. the empty histogram,
the simple forms NSYM = 2..4, the complex form), from C17's `build_and_store_roundtrip` -/
theorem codeFacts_of_buildN (h : List Nat) (len A N : Nat) (w0 w1 : Writer) (d b : List Nat)
    (hlen : len ≤ h.length) (h704 : len ≤ 704) (hsum : h.sum ≤ 2 ^ 25) (hA1 : 1 ≤ A) (hA : A ≤ len)
    (hz : ∀ i, A ≤ i → h.getD i 0 = 0) (hAb : A ≤ 2 ^ alphabetBits A) (hN : len ≤ N)
    (hb : buildAndStoreHuffmanTree h len A scratchTree (List.replicate N 0) (List.replicate N 0) w0 = .ok (d, b, w1)) :
    CodeFacts h len A w0 w1 d b ∧ d.length = N ∧ b.length = N ∧
      (∀ k, len ≤ k → d.getD k 0 = 0) ∧ (∀ k, len ≤ k → b.getD k 0 = 0) := by
  have hst : scratchTree.length = 1409 := by unfold scratchTree; rw [List.length_replicate]
  have hsum' : (h.take len).sum ≤ 2 ^ 25 := Nat.le_trans (BV.Lemmas.HuffmanEntry.sum_take_le h len) hsum
  have key := fun rest => BV.Lemmas.HuffmanEntryPoints.build_and_store_roundtrip h len A N scratchTree w0 rest d b w1
    hlen h704 hsum' (by omega) (by omega) hN hA1 hA (fun i hi _ => hz i hi) hb
  obtain ⟨cb, e, _, _, _⟩ := key []
  have key' : ∀ rest,
      (2 ≤ ((h.take len).filter (· ≠ 0)).length →
        readPrefixCode A (cb ++ rest) = some (d.take A, rest) ∧
        GoodDepth h len 15 (List.replicate N 0) d ∧ GoodBits len d (List.replicate N 0) b) ∧
      (∀ s, s < len → h.getD s 0 ≠ 0 → ((h.take len).filter (· ≠ 0)).length = 1 →
          cb = bitsOf 4 1 ++ bitsOf (alphabetBits A) s ∧ d = List.replicate N 0 ∧ b = List.replicate N 0) ∧
      (((h.take len).filter (· ≠ 0)).length = 0 →
          cb = bitsOf 4 1 ++ bitsOf (alphabetBits A) 0 ∧ d = List.replicate N 0 ∧ b = List.replicate N 0) := by
    intro rest
    obtain ⟨cb', e', k⟩ := key rest
    have : cb' = cb := List.append_cancel_left (e'.symm.trans e)
    rw [this] at k
    exact k
  have hgt : ∀ s, s < len → (h.take len).getD s 0 = h.getD s 0 := fun s hs => getD_take h len s hs
  have htl : (h.take len).length = len := by rw [List.length_take]; omega
  rcases Nat.lt_or_ge ((h.take len).filter (· ≠ 0)).length 2 with hnz | hnz
  · rcases Nat.eq_zero_or_pos ((h.take len).filter (· ≠ 0)).length with h0 | h1
    · -- empty histogram
      obtain ⟨ecb, ed, eb⟩ := (key' []).2.2 h0
      refine ⟨⟨cb, Code.single 0, e, ?_, ?_⟩, by rw [ed]; simp, by rw [eb]; simp,
        (fun k _ => by rw [ed]; exact getD_replicate_zero _ _), (fun k _ => by rw [eb]; exact getD_replicate_zero _ _)⟩
      · intro rest
        rw [ecb]
        exact readCode_single A 0 rest (by omega) (Nat.pow_pos (by decide))
      · intro s hs hne
        exfalso
        have := BV.Lemmas.HuffmanStoreTree.one_nz (h.take len) s (by omega) (by rw [hgt s hs]; exact hne)
        omega
    · -- a single symbol
      obtain ⟨s, hs, hne⟩ := exists_nz_of_filter (h.take len) h1
      rw [htl] at hs
      rw [hgt s hs] at hne
      have hsA : s < A := by
        rcases Nat.lt_or_ge s A with h | h
        · exact h
        · exact absurd (hz s h) hne
      obtain ⟨ecb, ed, eb⟩ := (key' []).2.1 s hs hne (by omega)
      refine ⟨⟨cb, Code.single s, e, ?_, ?_⟩, by rw [ed]; simp, by rw [eb]; simp,
        (fun k _ => by rw [ed]; exact getD_replicate_zero _ _), (fun k _ => by rw [eb]; exact getD_replicate_zero _ _)⟩
      · intro rest
        rw [ecb]
        exact readCode_single A s rest hsA (by omega)
      · intro s' hs' hne'
        have hs'A : s' < A := by
          rcases Nat.lt_or_ge s' A with h | h
          · exact h
          · exact absurd (hz s' h) hne'
        obtain ⟨ecb', _, _⟩ := (key' []).2.1 s' hs' hne' (by omega)
        have hss : s' = s := by
          have := ecb'.symm.trans ecb
          exact bitsOf_inj _ _ _ (by omega) (by omega) (List.append_cancel_left this)
        rw [hss, ed, eb]
        exact symIO_single N s (by omega)
  · -- two or more symbols
    obtain ⟨_, hg, hgb⟩ := (key' []).1 hnz
    have hdl : d.length = N := by rw [hg.hlen]; simp
    have hbl : b.length = N := by rw [hgb.1]; simp
    have hzd : ∀ i, A ≤ i → i < len → d.getD i 0 = 0 := by
      intro i hi hil
      rcases Nat.eq_zero_or_pos (d.getD i 0) with h0 | h0
      · exact h0
      · exact absurd (hz i hi) ((hg.hsupp i hil).mp (by omega))
    have h2d : 2 ≤ ((d.take len).filter (· ≠ 0)).length := by
      rw [filter_nz_congr (d.take len) (h.take len) (by rw [List.length_take, htl]; omega) (by
        intro v hv
        rw [List.length_take, hdl, Nat.min_eq_left hN] at hv
        rw [getD_take d len v hv, hgt v hv]
        exact hg.hsupp v hv)]
      exact hnz
    refine ⟨⟨cb, Code.lens (d.take A), e, ?_, ?_⟩, hdl, hbl, ?_, ?_⟩
    · intro rest
      obtain ⟨hr, _, _⟩ := (key' rest).1 hnz
      obtain ⟨s, hs, hne⟩ := exists_nz_of_filter (h.take len) (by omega)
      rw [htl] at hs
      rw [hgt s hs] at hne
      have hsA : s < A := by
        rcases Nat.lt_or_ge s A with h | h
        · exact h
        · exact absurd (hz s h) hne
      exact readCode_of_prefix A _ rest _ hr ⟨s, by rw [getD_take d A s hsA]; exact (hg.hsupp s hs).mpr hne⟩
    · intro s hs hne
      exact symIO_of_lens d b len A s hA (by omega) (by omega) hzd hg.hlim hg.hkraft
        (fun i hi h0 => by have := hgb.2.2 i hi; rw [if_pos h0] at this; exact this)
        h2d hs ((hg.hsupp s hs).mpr hne)
    · intro k hk
      rw [List.getD_eq_getElem?_getD, hg.hframe k hk, ← List.getD_eq_getElem?_getD, getD_replicate_zero]
    · intro k hk
      rw [hgb.2.1 k hk, getD_replicate_zero]

open BV.Lemmas.HuffmanSimple BV.Lemmas.HuffmanEntry in
/-- **`BuildAndStoreHuffmanTree` as the trivial writer calls it does not panic** (no index out of range, no
`BrotliWriteBits` assertion, the tree construction terminates), whatever the histogram -/
theorem build_totalN (h : List Nat) (len A N : Nat) (w0 : Writer) (hN : len ≤ N)
    (hlen : len ≤ h.length) (h704 : len ≤ 704) (hsum : h.sum ≤ 2 ^ 25) (hA1 : 1 ≤ A) (hA : A ≤ len)
    (hz : ∀ i, A ≤ i → h.getD i 0 = 0) :
    ∃ d b w1, buildAndStoreHuffmanTree h len A scratchTree (List.replicate N 0) (List.replicate N 0) w0
      = .ok (d, b, w1) := by
  have hst : scratchTree.length = 1409 := by unfold scratchTree; rw [List.length_replicate]
  have hsum' : (h.take len).sum ≤ 2 ^ 25 := Nat.le_trans (sum_take_le h len) hsum
  have hu : ∀ s ∈ ascNZ h len 0, s < A := by
    intro s hs
    obtain ⟨_, h2, h3⟩ := (mem_ascNZ h len 0 s).mp hs
    by_cases hsa : s < A
    · exact hsa
    · exact absurd (hz s (by omega)) h3
  by_cases hc1 : (ascNZ h len 0).length ≤ 1
  · have hh : (ascNZ h len 0).headD 0 < A := by
      match hL : ascNZ h len 0 with
      | [] => exact hA1
      | a :: _ => exact hu a (by rw [hL]; simp)
    obtain ⟨sbits, _, hb, _⟩ := build_single_roundtrip h len A scratchTree (List.replicate N 0)
      (List.replicate N 0) w0 [] hlen hc1 hh hA1 (by omega)
      (by rw [List.length_replicate]; omega) (by rw [List.length_replicate]; omega)
    exact ⟨_, _, _, hb⟩
  · by_cases hc4 : (ascNZ h len 0).length ≤ 4
    · obtain ⟨d1, b1, sbits, hb, _⟩ := build_simple_roundtrip h len A scratchTree
        (List.replicate N 0) (List.replicate N 0) w0 [] hlen h704 hsum' ⟨by omega, hc4⟩ (by omega)
        (by simp; omega) (by simp; omega) hu (by omega)
      exact ⟨_, _, _, hb⟩
    · obtain ⟨d1, b1, sbits, hb, _⟩ := build_complex_roundtrip h len A scratchTree
        (List.replicate N 0) (List.replicate N 0) w0 [] A hlen h704 hsum' (by omega) (by omega) (by omega)
        (by simp; omega) (by simp; omega) hA hu
      exact ⟨_, _, _, hb⟩


end BV.MetaBlock
