/-
Specification side for C15 / C08, written from RFC 7932 (§9.1 stream header,
§9.2 meta-block header) and the large-window extension of the reference
implementation — NOT from the Rust encoder.  Nothing here refers to
`BV.Header` / `BV.Stored` or to the literals harvested from the Rust source.

* `readWbits`      : the WBITS field (1, 4 or 7 bits) and, behind the reserved
                     7-bit pattern `1000100`, the large-window form: one zero bit
                     and 6 bits holding the window (10‥30).
* `clampWindow`    : the window a stream must declare for the requested parameters.
* `decodeBase128`  : little-endian base-128 with a continuation bit in bit 7.
* `decodeFraming`  : the sequence of meta-blocks of a stream as far as no entropy
                     decoding is needed (uncompressed, metadata, empty last); the
                     reader stops at the first compressed meta-block and reports it.
* `modeByte`       : third magic byte by concatenation mode.
-/
import BV.Model.Bits

namespace BV.HeaderSpec
open BV.Bits

/-! ## §9.1 WBITS -/

/-- `(window, largeForm, remaining bits)` -/
def readWbits : List Bool → Option (Nat × Bool × List Bool)
  | false :: r => some (16, false, r)
  | true :: b1 :: b2 :: b3 :: r =>
    let n := valOf [b1, b2, b3]
    if n ≠ 0 then some (17 + n, false, r)
    else match r with
      | c1 :: c2 :: c3 :: r' =>
        let m := valOf [c1, c2, c3]
        if m = 0 then some (17, false, r')
        else if m = 1 then
          -- reserved in RFC 7932; the large-window extension continues with a zero bit and 6 bits
          match r' with
          | false :: d0 :: d1 :: d2 :: d3 :: d4 :: d5 :: r'' =>
            let w := valOf [d0, d1, d2, d3, d4, d5]
            if 10 ≤ w ∧ w ≤ 30 then some (w, true, r'') else none
          | _ => none
        else some (8 + m, false, r')
      | _ => none
  | _ => none

/-- the window the header has to declare: requested `lgwin` clamped to the
supported range (10‥24, or 10‥30 when large windows are requested); the two
fastest qualities never declare less than 18 -/
def clampWindow (quality lgwin : Int) (largeWindow : Bool) : Int :=
  let hi : Int := if largeWindow then 30 else 24
  let w := max 10 (min hi lgwin)
  if quality ≤ 1 then max w 18 else w

/-! ## base-128 -/

/-- `(value, remaining bytes)`; `none` if the bytes end inside a number -/
def decodeBase128 : List Nat → Option (Nat × List Nat)
  | [] => none
  | b :: rest =>
    if b < 128 then some (b, rest)
    else match decodeBase128 rest with
      | some (v, r) => some (b - 128 + 128 * v, r)
      | none => none

/-! ## §9.2 meta-block headers -/

inductive MetaBlock where
  | metadata (payload : List Nat)
  | raw (payload : List Nat)
  | lastEmpty
  /-- a compressed meta-block of `mlen` bytes starts here; its content is not read -/
  | compressed (mlen : Nat) (isLast : Bool)
deriving Repr, DecidableEq

/-- `n` bits as a number (LSB first) -/
def takeVal (n : Nat) (bs : List Bool) : Option (Nat × List Bool) :=
  if n ≤ bs.length then some (valOf (bs.take n), bs.drop n) else none

/-- skip to the next byte boundary (`pos` = bits consumed so far); the skipped
bits must be zero -/
def skipPad (pos : Nat) (bs : List Bool) : Option (List Bool) :=
  let k := (8 - pos % 8) % 8
  if k ≤ bs.length ∧ (bs.take k).all (· == false) then some (bs.drop k) else none

/-- `n` whole bytes -/
def takeBytes : Nat → List Bool → Option (List Nat × List Bool)
  | 0, bs => some ([], bs)
  | n + 1, bs =>
    match takeVal 8 bs with
    | none => none
    | some (b, r) =>
      match takeBytes n r with
      | none => none
      | some (l, r') => some (b :: l, r')

/-- one meta-block header (and, for metadata / uncompressed blocks, its body).
`pos` = number of bits of the stream consumed before `bs`.
Returns the block, the new position and the remaining bits. -/
def readMetaBlock (pos : Nat) (bs : List Bool) : Option (MetaBlock × Nat × List Bool) :=
  match bs with
  | [] => none
  | isLast :: r1 =>
    let pos := pos + 1
    -- ISLASTEMPTY
    match (if isLast then (match r1 with | e :: r => some (e, pos + 1, r) | [] => none) else some (false, pos, r1)) with
    | none => none
    | some (true, pos, r) =>
      (skipPad pos r).map fun r' => (MetaBlock.lastEmpty, pos + (8 - pos % 8) % 8, r')
    | some (false, pos, r) =>
      match takeVal 2 r with
      | none => none
      | some (mn, r) =>
        let pos := pos + 2
        if mn = 3 then
          -- MNIBBLES = 0: metadata; reserved bit, MSKIPBYTES, MSKIPLEN - 1
          if isLast then none else
          match r with
          | [] => none
          | true :: _ => none
          | false :: r =>
            match takeVal 2 r with
            | none => none
            | some (sb, r) =>
              match takeVal (8 * sb) r with
              | none => none
              | some (x, r) =>
                let pos := pos + 3 + 8 * sb
                if sb > 1 ∧ x / 2 ^ (8 * (sb - 1)) = 0 then none else
                let len := if sb = 0 then 0 else x + 1
                match skipPad pos r with
                | none => none
                | some r =>
                  let pos := pos + (8 - pos % 8) % 8
                  (takeBytes len r).map fun (payload, r') => (MetaBlock.metadata payload, pos + 8 * len, r')
        else
          let nib := 4 + mn
          match takeVal (4 * nib) r with
          | none => none
          | some (x, r) =>
            let pos := pos + 4 * nib
            if nib > 4 ∧ x / 2 ^ (4 * (nib - 1)) = 0 then none else
            let mlen := x + 1
            if isLast then some (MetaBlock.compressed mlen true, pos, r) else
            match r with
            | [] => none
            | false :: r => some (MetaBlock.compressed mlen false, pos + 1, r)
            | true :: r =>
              let pos := pos + 1
              match skipPad pos r with
              | none => none
              | some r =>
                let pos := pos + (8 - pos % 8) % 8
                (takeBytes mlen r).map fun (payload, r') => (MetaBlock.raw payload, pos + 8 * mlen, r')

/-- the meta-blocks of a stream (after the window bits) up to and including the
last one, or up to the first compressed one.  `fuel` bounds the number of blocks. -/
def decodeFraming : Nat → Nat → List Bool → Option (List MetaBlock)
  | 0, _, _ => none
  | fuel + 1, pos, bs =>
    match readMetaBlock pos bs with
    | none => none
    | some (MetaBlock.lastEmpty, _, _) => some [MetaBlock.lastEmpty]
    | some (MetaBlock.compressed m l, _, _) => some [MetaBlock.compressed m l]
    | some (b, pos', r) => (decodeFraming fuel pos' r).map (b :: ·)

/-- third magic byte: `0x81` concatenable anywhere (catable and no static
dictionary), `0x82` may be followed by another stream, `0x80` plain -/
def modeByte (catable appendable useDictionary : Bool) : Nat :=
  if catable && !useDictionary then 0x81 else if appendable || catable then 0x82 else 0x80

end BV.HeaderSpec
