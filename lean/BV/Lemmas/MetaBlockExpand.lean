/-
C01 / meta-block writers, part 22: the context-map expansion loop of `BrotliBuildMetaBlock`
(`disable_literal_context_modeling != 0`): one cluster id per literal block type becomes 64 equal entries.
-/
import BV.Lemmas.MetaBlockTrivMap

namespace BV.MetaBlock
open BV.Gen BV.Bits BV.Huffman BV.PrefixArith BV.Recoder

/-- the inner loop: entries `64·i + j .. 64·i + 64` become `v`, the rest is untouched; `v` is the value at `i`
(for `i = 0` the first write puts `map[0]` onto itself) -/
theorem expandInner_spec (i v : Nat) (hi : i < 256) : ∀ (cnt j : Nat) (m : List Nat), j + cnt = 64 →
    64 * i + 64 ≤ m.length → m.getD i 0 = v → (i = 0 → 0 < j → True) →
    ∃ m', expandInner i cnt j m = .ok m' ∧ m'.length = m.length ∧
      ∀ k, m'.getD k 0 = if 64 * i + j ≤ k ∧ k < 64 * i + 64 then v else m.getD k 0 := by
  intro cnt
  induction cnt with
  | zero =>
    intro j m hj _ _ _
    exact ⟨m, rfl, rfl, fun k => by rw [if_neg (by omega)]⟩
  | succ cnt ih =>
    intro j m hj hl hv _
    have hidx : ((i * 64) % two64 + j) % two64 = 64 * i + j := by
      rw [Nat.mod_eq_of_lt (by unfold two64; omega), Nat.mod_eq_of_lt (by unfold two64; omega), Nat.mul_comm]
    have hil : i < m.length := by omega
    obtain ⟨m1, hm1⟩ : ∃ m1, m1 = m.set (64 * i + j) v := ⟨_, rfl⟩
    have h1v : m1.getD i 0 = v := by
      rw [hm1, getD_set' _ _ _ _ (by omega)]
      split
      · rfl
      · exact hv
    obtain ⟨m', e, l, g⟩ := ih (j + 1) m1 (by omega) (by rw [hm1, List.length_set]; exact hl) h1v (fun _ _ => trivial)
    refine ⟨m', ?_, by rw [l, hm1, List.length_set], ?_⟩
    · unfold expandInner
      rw [getAt_getD m i hil, Out.bind_ok, hv, hidx]
      unfold setAt
      rw [if_pos (by omega), Out.bind_ok, ← hm1]
      exact e
    · intro k
      rw [g, hm1, getD_set' _ _ _ _ (by omega)]
      by_cases h1 : 64 * i + (j + 1) ≤ k ∧ k < 64 * i + 64
      · rw [if_pos h1, if_pos (by omega)]
      · rw [if_neg h1]
        by_cases h2 : k = 64 * i + j
        · rw [if_pos h2, if_pos (by omega)]
        · rw [if_neg h2, if_neg (by omega)]

/-- **the expansion loop is correct**: with at least `64 · num_types` entries and `num_types ≤ 256` it does not
panic, entry `64·t + j` of the result is the cluster id of block type `t`, everything behind is untouched -/
theorem expandContextMap_spec : ∀ (n : Nat) (m : List Nat), n ≤ 256 → 64 * n ≤ m.length →
    ∃ m', expandContextMap n m = .ok m' ∧ m'.length = m.length ∧
      (∀ t j, t < n → j < 64 → m'.getD (64 * t + j) 0 = m.getD t 0) ∧ ∀ k, 64 * n ≤ k → m'.getD k 0 = m.getD k 0 := by
  intro n
  induction n with
  | zero => intro m _ _; exact ⟨m, rfl, rfl, fun t j ht _ => by omega, fun k _ => rfl⟩
  | succ n ih =>
    intro m hn hl
    obtain ⟨m1, e1, l1, g1⟩ := expandInner_spec n (m.getD n 0) (by omega) 64 0 m (by omega) (by omega) rfl (fun _ _ => trivial)
    obtain ⟨m', e2, l2, g2, g3⟩ := ih m1 (by omega) (by rw [l1]; omega)
    refine ⟨m', ?_, by rw [l2, l1], ?_, ?_⟩
    · unfold expandContextMap
      rw [e1, Out.bind_ok]
      exact e2
    · intro t j ht hj
      rcases Nat.lt_or_ge t n with h | h
      · rw [g2 t j h hj, g1, if_neg (by omega)]
      · have : t = n := by omega
        subst this
        rw [g3 _ (by omega), g1, if_pos (by omega)]
    · intro k hk
      rw [g3 k (by omega), g1, if_neg (by omega)]

end BV.MetaBlock
