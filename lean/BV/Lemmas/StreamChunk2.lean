import BV.Lemmas.StreamChunk
/-
Input-chunking independence (C05), part 2: on the ring-free machine, a PROCESS request followed by
another request is the second request with the concatenated input — provided the second request is
a PROCESS, or still has a byte of its own (`vmerge`).  Block boundaries are a function of the
cumulative position: a copy of `n` bytes moves the block counter by exactly `n` (`rbs_vCopy`).
-/
namespace BV.Stream
open BV.Bits

/-- flush-free paths of the ring-free machine -/
inductive VPath (o : Oracle) (op : Nat) : Abs → Nat → Abs → Prop
  | nil (a : Abs) : VPath o op a 0 a
  | cons {a a1 b : Abs} {n : Nat} : vstep o op a = some a1 → ¬ FlushStep a a1 → VPath o op a1 n b → VPath o op a (n + 1) b

theorem VPath.append {o : Oracle} {op : Nat} {a b c : Abs} {n m : Nat} (h1 : VPath o op a n b) (h2 : VPath o op b m c) :
    VPath o op a (n + m) c := by
  induction h1 with
  | nil _ => simpa using h2
  | @cons a a1 b n hs hf _ ih =>
    have : n + 1 + m = (n + m) + 1 := by omega
    rw [this]
    exact .cons hs hf (ih h2)

theorem vpath_det {o : Oracle} {op : Nat} {a b b' : Abs} {n : Nat} (h1 : VPath o op a n b) (h2 : VPath o op a n b') : b = b' := by
  induction h1 with
  | nil _ => cases h2; rfl
  | cons hs _ _ ih =>
    cases h2 with
    | cons hs' _ h2' =>
      rw [hs] at hs'
      cases hs'
      exact ih h2'

theorem vpath_split {o : Oracle} {op : Nat} {a b c : Abs} {n m : Nat} (h1 : VPath o op a n b) (h2 : VPath o op a (n + m) c) :
    VPath o op b m c := by
  induction h1 with
  | nil _ => simpa using h2
  | @cons a a1 b n hs _ _ ih =>
    have : n + 1 + m = (n + m) + 1 := by omega
    rw [this] at h2
    cases h2 with
    | cons hs' _ h2' =>
      rw [hs] at hs'
      cases hs'
      exact ih h2'

/-- where a run of a request ends on the trajectory of the ring-free machine -/
def VEnd (o : Oracle) (op : Nat) (a b : Abs) : Bool → Prop
  | false => ∃ n, VPath o op a n b
  | true => ∃ n x, VPath o op a n x ∧ vstep o op x = some b ∧ FlushStep x b

/-- confluence on the ring-free machine (as `rpath_final_eq`) -/
theorem vend_final_eq {o : Oracle} {op : Nat} {a b1 b2 : Abs} {d1 d2 : Bool}
    (h1 : VEnd o op a b1 d1) (h2 : VEnd o op a b2 d2)
    (f1 : d1 = true ∨ vstep o op b1 = none) (f2 : d2 = true ∨ vstep o op b2 = none) : b1 = b2 := by
  have key : ∀ (n : Nat) (x y : Abs), VPath o op a n x → vstep o op x = some y → FlushStep x y →
      ∀ (m : Nat) (c : Abs), VPath o op a m c → m ≤ n := by
    intro n x y hx hs hf m c hc
    by_cases hle : m ≤ n
    · exact hle
    · exfalso
      have hm : m = n + (m - n - 1 + 1) := by omega
      rw [hm] at hc
      have := vpath_split hx hc
      cases this with
      | cons hs' hnf _ =>
        rw [hs] at hs'
        cases hs'
        exact hnf hf
  have term : ∀ (n : Nat) (x : Abs), VPath o op a n x → vstep o op x = none →
      ∀ (m : Nat) (c : Abs), VPath o op a m c → m ≤ n := by
    intro n x hx hn m c hc
    by_cases hle : m ≤ n
    · exact hle
    · exfalso
      have hm : m = n + (m - n - 1 + 1) := by omega
      rw [hm] at hc
      have := vpath_split hx hc
      cases this with
      | cons hs' _ _ => rw [hn] at hs'; cases hs'
  cases d1 <;> cases d2
  · obtain ⟨n1, p1⟩ := h1
    obtain ⟨n2, p2⟩ := h2
    have t1 : vstep o op b1 = none := by rcases f1 with h | h; cases h; exact h
    have t2 : vstep o op b2 = none := by rcases f2 with h | h; cases h; exact h
    have l1 := term n1 b1 p1 t1 n2 b2 p2
    have l2 := term n2 b2 p2 t2 n1 b1 p1
    have : n1 = n2 := by omega
    subst this
    exact vpath_det p1 p2
  · obtain ⟨n1, p1⟩ := h1
    obtain ⟨n2, x2, p2, s2, fl2⟩ := h2
    have t1 : vstep o op b1 = none := by rcases f1 with h | h; cases h; exact h
    have l1 := key n2 x2 b2 p2 s2 fl2 n1 b1 p1
    have l2 := term n1 b1 p1 t1 n2 x2 p2
    have : n1 = n2 := by omega
    subst this
    have := vpath_det p1 p2
    subst this
    rw [t1] at s2; cases s2
  · obtain ⟨n1, x1, p1, s1, fl1⟩ := h1
    obtain ⟨n2, p2⟩ := h2
    have t2 : vstep o op b2 = none := by rcases f2 with h | h; cases h; exact h
    have l1 := key n1 x1 b1 p1 s1 fl1 n2 b2 p2
    have l2 := term n2 b2 p2 t2 n1 x1 p1
    have : n1 = n2 := by omega
    subst this
    have := vpath_det p1 p2
    subst this
    rw [t2] at s1; cases s1
  · obtain ⟨n1, x1, p1, s1, fl1⟩ := h1
    obtain ⟨n2, x2, p2, s2, fl2⟩ := h2
    have l1 := key n1 x1 b1 p1 s1 fl1 n2 x2 p2
    have l2 := key n2 x2 b2 p2 s2 fl2 n1 x1 p1
    have : n1 = n2 := by omega
    subst this
    have := vpath_det p1 p2
    subst this
    rw [s1] at s2
    cases s2
    rfl

/-! ### what every step of the ring-free machine keeps -/

/-- the facts about a configuration the chunking argument needs: initialised, main loop, not catable,
an explicit size hint (so that `update_size_hint` is the identity), no 64-bit wrap, a coherent cursor -/
structure VGood (a : Abs) : Prop where
  init : a.s.isInitialized = true
  nf : ¬ fastMode a.s.params
  ncat : a.s.params.catable = false
  hint : a.s.params.sizeHint ≠ 0
  bs : a.s.blockSize < two64
  nowrap : a.s.inputPos + a.input.length < two64
  inlen : a.availIn = a.input.length

theorem encPayloadPure_frame (s : St) (ans : Ans) (w0 w : Writer) (hdr : Nat) (il ff : Bool) :
    (encPayloadPure s ans w0 w hdr il ff).frame = s.frame := by
  unfold encPayloadPure
  simp only []
  split
  · split <;> rfl
  · split
    · rfl
    · split <;> rfl

theorem uEnc_frame {o : Oracle} {s s' : St} {site : Nat} {il ff : Bool} {p : Bytes}
    (h : uEnc o s site il ff = some (s', p)) : s'.frame = s.frame := by
  unfold uEnc encPre3 at h
  cases hr : encPrelude (encMagic (encStart s il) s.carry).1 (encMagic (encStart s il) s.carry).2.1
      (encMagic (encStart s il) s.carry).2.2 (s.unprocessed % two32) with
  | ok r =>
    obtain ⟨a2, w, hdr⟩ := r
    rw [hr] at h
    simp only [uEncOf, Option.some.injEq, Prod.mk.injEq] at h
    obtain ⟨rfl, _⟩ := h
    have f1 := (encPrelude_frame hr).1
    have f2 := (encMagic_frame (encStart s il) s.carry).1
    have f3 := encPayloadPure_frame a2 (o s.nEnc (reqOf s site il ff)) s.carry w hdr il ff
    have f4 : (encStart s il).frame = s.frame := rfl
    have f5 : ∀ x : St, (core x).frame = x.frame := fun _ => rfl
    rw [f5, f3, f1, f2, f4]
  | panic => rw [hr] at h; simp [uEncOf] at h
  | fuel => rw [hr] at h; simp [uEncOf] at h

theorem updateSizeHint_id {s : St} (h : s.params.sizeHint ≠ 0) (n : Nat) : updateSizeHint s n = s := by
  unfold updateSizeHint
  rw [if_neg h]

theorem blockSize_of_params {s s' : St} (h : s'.params = s.params) : s'.blockSize = s.blockSize := by
  unfold St.blockSize; rw [h]

/-- the encode step of the ring-free machine with an explicit size hint -/
theorem uEncStep_good {o : Oracle} {op : Nat} {a a' : Abs} (hint : a.s.params.sizeHint ≠ 0)
    (h : uEncStep o op a = some a') :
    ∃ s' p, uEnc o a.s 0 (decide (a.availIn = 0 ∧ op = 2)) (decide (a.availIn = 0 ∧ op = 1)) = some (s', p)
      ∧ a' = ⟨core (markAfterEncode s' (decide (a.availIn = 0 ∧ op = 2)) (decide (a.availIn = 0 ∧ op = 1))), a.out ++ p, a.input, a.availIn⟩
      ∧ s'.frame = a.s.frame := by
  unfold uEncStep at h
  rw [updateSizeHint_id hint] at h
  cases hu : uEnc o a.s 0 (decide (a.availIn = 0 ∧ op = 2)) (decide (a.availIn = 0 ∧ op = 1)) with
  | none => rw [hu] at h; simp [uEncOut] at h
  | some r =>
    obtain ⟨s', p⟩ := r
    rw [hu] at h
    simp only [uEncOut, Option.some.injEq] at h
    exact ⟨s', p, rfl, h.symm, uEnc_frame hu⟩

theorem markAfterEncode_frame5 (s : St) (a b : Bool) :
    (markAfterEncode s a b).params = s.params ∧ (markAfterEncode s a b).inputPos = s.inputPos
    ∧ (markAfterEncode s a b).isInitialized = s.isInitialized := by
  unfold markAfterEncode
  cases a <;> cases b <;> exact ⟨rfl, rfl, rfl⟩

theorem vstep_good {o : Oracle} {op : Nat} {a a' : Abs} (hG : VGood a) (h : vstep o op a = some a') : VGood a' := by
  have hi' : ¬ (a.s.isInitialized = false) := by rw [hG.init]; simp
  unfold vstep at h
  rw [if_neg hi', if_neg hG.nf] at h
  split at h
  · rename_i hc
    unfold vCopy at h
    split at h
    · cases h
    · rename_i hn
      simp only [Option.some.injEq] at h
      subst h
      generalize hk : min (remainingInputBlockSize a.s) a.availIn = k at hn
      have hk1 : k ≤ a.input.length := by omega
      have hw := hG.nowrap
      refine ⟨hG.init, hG.nf, hG.ncat, hG.hint, hG.bs, ?_, ?_⟩
      · show (a.s.inputPos + k) % two64 + (a.input.drop k).length < two64
        rw [List.length_drop, Nat.mod_eq_of_lt (by omega)]
        omega
      · show a.availIn - k = (a.input.drop k).length
        rw [List.length_drop, hG.inlen]
  · split at h
    · simp only [Option.some.injEq] at h
      subst h
      exact ⟨hG.init, hG.nf, hG.ncat, hG.hint, hG.bs, hG.nowrap, hG.inlen⟩
    · split at h
      · obtain ⟨s', p, _, rfl, f⟩ := uEncStep_good hG.hint h
        rw [St.frame_eq_iff] at f
        obtain ⟨f1, f2, _, _, f5, _, _⟩ := f
        obtain ⟨m1, m2, m3⟩ := markAfterEncode_frame5 s' (decide (a.availIn = 0 ∧ op = 2)) (decide (a.availIn = 0 ∧ op = 1))
        have hp : (core (markAfterEncode s' (decide (a.availIn = 0 ∧ op = 2)) (decide (a.availIn = 0 ∧ op = 1)))).params = a.s.params := m1.trans f1
        refine ⟨m3.trans (f5.trans hG.init), by rw [hp]; exact hG.nf, by rw [hp]; exact hG.ncat, by rw [hp]; exact hG.hint,
          by rw [blockSize_of_params hp]; exact hG.bs, ?_, hG.inlen⟩
        show (markAfterEncode s' _ _).inputPos + a.input.length < two64
        rw [m2, f2]; exact hG.nowrap
      · split at h
        · simp only [Option.some.injEq] at h
          subst h
          exact ⟨hG.init, hG.nf, hG.ncat, hG.hint, hG.bs, hG.nowrap, hG.inlen⟩
        · cases h

/-! ### lifting runs of `ustep` -/

theorem vgood_erA {a : Abs} : VGood (erA a) ↔ VGood a :=
  ⟨fun h => ⟨h.init, h.nf, h.ncat, h.hint, h.bs, h.nowrap, h.inlen⟩, fun h => ⟨h.init, h.nf, h.ncat, h.hint, h.bs, h.nowrap, h.inlen⟩⟩

theorem upath_er {o : Oracle} {op : Nat} {a b : Abs} {n : Nat} (h : UPath o op a n b) (hG : VGood a) :
    VPath o op (erA a) n (erA b) ∧ VGood b := by
  induction h with
  | nil _ => exact ⟨.nil _, hG⟩
  | @cons a a1 b n hs hf _ ih =>
    have hv := ustep_er hG.init hG.nf hG.ncat hs
    have hG1 : VGood a1 := vgood_erA.mp (vstep_good (vgood_erA.mpr hG) hv)
    obtain ⟨p, g⟩ := ih hG1
    exact ⟨.cons hv hf p, g⟩

/-- **every run of a request lifts to the ring-free machine** -/
theorem rpath_er {o : Oracle} {op : Nat} {a b : Abs} {d : Bool} (h : RPath o op a b d) (hG : VGood a) :
    VEnd o op (erA a) (erA b) d ∧ VGood b := by
  cases d with
  | false =>
    obtain ⟨n, p⟩ := h
    obtain ⟨q, g⟩ := upath_er p hG
    exact ⟨⟨n, q⟩, g⟩
  | true =>
    obtain ⟨n, x, p, hs, hf⟩ := h
    obtain ⟨q, g⟩ := upath_er p hG
    have hv := ustep_er g.init g.nf g.ncat hs
    exact ⟨⟨n, erA x, q, hv, hf⟩, vgood_erA.mp (vstep_good (vgood_erA.mpr g) hv)⟩

theorem encPrelude_ok_of_ncat (x : St) (w : Writer) (hdr bytes : Nat) (hcat : x.params.catable = false) :
    ∃ r, encPrelude x w hdr bytes = .ok r := by
  unfold encPrelude
  split
  · exact ⟨_, rfl⟩
  · simp [hcat]

/-- without the catable prelude the abstract `encode_data` cannot be stuck -/
theorem uEnc_some (o : Oracle) (s : St) (site : Nat) (il ff : Bool) (hcat : s.params.catable = false) :
    ∃ r, uEnc o s site il ff = some r := by
  unfold uEnc encPre3
  have hcm : (encMagic (encStart s il) s.carry).1.params.catable = false := by
    have f := (encMagic_frame (encStart s il) s.carry).1
    rw [St.frame_eq_iff] at f
    rw [f.1]; exact hcat
  obtain ⟨⟨a2, w, hdr⟩, hr⟩ := encPrelude_ok_of_ncat (encMagic (encStart s il) s.carry).1 (encMagic (encStart s il) s.carry).2.1
    (encMagic (encStart s il) s.carry).2.2 (s.unprocessed % two32) hcm
  rw [hr]
  exact ⟨_, rfl⟩

theorem uEncStep_some (o : Oracle) (op : Nat) (a : Abs) (hG : VGood a) : ∃ a', uEncStep o op a = some a' := by
  unfold uEncStep
  rw [updateSizeHint_id hG.hint]
  obtain ⟨⟨s', p⟩, hr⟩ := uEnc_some o a.s 0 (decide (a.availIn = 0 ∧ op = 2)) (decide (a.availIn = 0 ∧ op = 1)) hG.ncat
  rw [hr]
  exact ⟨_, rfl⟩

/-- a configuration with no input left in which `ustep` has nothing to do is final for the ring-free machine too -/
theorem final_er {o : Oracle} {op : Nat} {b : Abs} (hG : VGood b) (hin : b.input = []) (h : ustep o op b = none) :
    vstep o op (erA b) = none := by
  have hi' : ¬ (b.s.isInitialized = false) := by rw [hG.init]; simp
  have hie : ¬ ((erA b).s.isInitialized = false) := hi'
  have hnfe : ¬ fastMode (erA b).s.params := hG.nf
  have hav : b.availIn = 0 := by rw [hG.inlen, hin]; rfl
  have hc : ¬ (remainingInputBlockSize b.s ≠ 0 ∧ b.availIn ≠ 0) := fun hh => hh.2 hav
  have hce : ¬ (remainingInputBlockSize (erA b).s ≠ 0 ∧ (erA b).availIn ≠ 0) := hc
  unfold ustep at h
  unfold vstep
  rw [if_neg hi', if_neg hG.nf, if_neg hc] at h
  rw [if_neg hie, if_neg hnfe, if_neg hce]
  by_cases hp : PadDue b.s
  · rw [if_pos hp] at h; cases h
  · rw [if_neg hp] at h
    have hpe : ¬ PadDue (erA b).s := hp
    rw [if_neg hpe]
    by_cases he : b.s.streamState = .processing ∧ (remainingInputBlockSize b.s = 0 ∨ op ≠ 0)
    · rw [if_pos he] at h
      obtain ⟨a', ha'⟩ := uEncStep_some o op b hG
      rw [ha'] at h; cases h
    · rw [if_neg he] at h
      have hee : ¬ ((erA b).s.streamState = .processing ∧ (remainingInputBlockSize (erA b).s = 0 ∨ op ≠ 0)) := he
      rw [if_neg hee]
      by_cases hf : b.s.streamState = .flushRequested
      · rw [if_pos hf] at h; cases h
      · have hfe : ¬ ((erA b).s.streamState = .flushRequested) := hf
        rw [if_neg hfe]

end BV.Stream
